package c13

import (
	"strings"
	"testing"

	"verif/internal/bed"
	"verif/internal/imapc"
	"verif/internal/mach"
)

// fixed: header field names of a HEADER.FIELDS section were echoed verbatim in the response; a name sent as a
// literal or quoted string (line break, space, parenthesis) broke the framing of the FETCH response.
func TestRegress_HeaderFieldNamesAreEchoedSafely(t *testing.T) {
	b, err := bed.Start(bed.Options{}, bed.UserSpec{Name: "user", Pass: "pass"})
	if err != nil {
		t.Fatal(err)
	}

	defer b.Destroy()

	s, err := b.Login("s", b.Users[0])
	if err != nil {
		t.Fatal(err)
	}

	defer s.Logout()

	if r := s.DoParts(imapc.T("APPEND INBOX "), imapc.L(mach.Msg("f", ""))); !r.OK() {
		t.Fatal(r)
	}

	s.Select("INBOX", false)

	for _, parts := range [][]imapc.Part{
		{imapc.T("FETCH 1 (BODY.PEEK[HEADER.FIELDS (subject "), imapc.Ls("a\r\nb"), imapc.T(")])")},
		{imapc.T(`FETCH 1 (BODY.PEEK[HEADER.FIELDS (subject "x y" "p(q)")])`)},
		{imapc.T("FETCH 1 (BODY.PEEK[HEADER.FIELDS.NOT ("), imapc.Ls("to) FLAGS (x"), imapc.T(")])")},
	} {
		r := s.DoParts(parts...)
		if r.Err != nil {
			t.Fatalf("C13 violated: response to %q cannot be tokenised / connection lost: %v\n%s", r.Cmd, r.Err, b.Hist)
		}

		if r.OK() {
			found := false

			for _, u := range r.Untagged {
				if items, ok := imapc.FetchItems(u); ok {
					for k, v := range items {
						if strings.HasPrefix(k, "BODY[HEADER.FIELDS") {
							found = true

							if !strings.Contains(v.Str, "\r\n") && v.Str != "" {
								t.Fatalf("C13 violated: %q returned a header block without line end: %q", r.Cmd, v.Str)
							}
						}
					}
				}
			}

			if !found {
				t.Fatalf("C13 violated: %q answered OK but no BODY[HEADER.FIELDS ...] item could be read back: %v\n%s", r.Cmd, r.Untagged, b.Hist)
			}
		}

		// the session is still in sync
		if n := s.Do("NOOP"); !n.OK() {
			t.Fatalf("C13 violated: session out of sync after %q: %v\n%s", r.Cmd, n, b.Hist)
		}
	}

	if err := b.CheckPanics(); err != nil {
		t.Fatal(err)
	}
}
