package c13

import (
	"bytes"
	"fmt"
	"sort"
	"strconv"
	"strings"

	gmime "verif/internal/gen/mime"
)

// idKey is the header field the server adds to every message it stores (internal/ids/header.go InternalIDKey;
// rfc822.SetHeaderValueNoMemCopy writes "<key>: <value>\r\n" immediately before the first header field).
const idKey = "X-Pm-Gluon-Id"

// msg is one generated message together with everything the oracle knows about it.
//
// A is what was handed to the server. The generator's first header field starts at offset 0, so the message the
// server must serve is S = idLine ‖ A: every offset of the tree moves by len(idLine), the root header grows by the id
// field, nothing else changes.
type msg struct {
	tree *gmime.Tree
	lf   bool   // A is the tree with every CRLF turned into a bare LF
	A    []byte // appended / delivered bytes
	crs  []int  // lf only: offsets (in tree.Bytes) of every CR that was dropped

	idLine []byte // learned from the first BODY.PEEK[]: "X-Pm-Gluon-Id: <uuid>\r\n"
	S      []byte // idLine ‖ A

	uid, seq uint32
	via      string
}

func newMsg(tree *gmime.Tree, lf bool) *msg {
	m := &msg{tree: tree, lf: lf, A: tree.Bytes}

	if lf {
		b := tree.Bytes
		out := make([]byte, 0, len(b))

		for i := 0; i < len(b); i++ {
			if b[i] == '\r' && i+1 < len(b) && b[i+1] == '\n' {
				m.crs = append(m.crs, i)
				continue
			}

			out = append(out, b[i])
		}

		m.A = out
	}

	return m
}

func (m *msg) eol() string {
	if m.lf {
		return "\n"
	}

	return "\r\n"
}

func (m *msg) conv(raw []byte) []byte {
	if !m.lf {
		return raw
	}

	return bytes.ReplaceAll(raw, []byte("\r\n"), []byte("\n"))
}

// at maps an offset of tree.Bytes to the offset of the same byte in S.
func (m *msg) at(x int) int {
	if m.lf {
		x -= sort.SearchInts(m.crs, x) // number of dropped CRs in front of x
	}

	return x + len(m.idLine)
}

func (m *msg) setID(idLine []byte) {
	m.idLine = append([]byte{}, idLine...)
	m.S = append(append(make([]byte, 0, len(idLine)+len(m.A)), idLine...), m.A...)
}

// header of an entity in S, including the blank line; the root header starts with the id field.
func (m *msg) header(n *gmime.Node) []byte {
	if n == m.tree.Root {
		return m.S[:m.at(n.BodyStart)]
	}

	return m.S[m.at(n.Start):m.at(n.BodyStart)]
}

func (m *msg) body(n *gmime.Node) []byte { return m.S[m.at(n.BodyStart):m.at(n.End)] }

// fieldLines returns the header fields of an entity as the server holds them, and the blank line that ends the header
// (nil for a header that runs to the end of the entity without one).
func (m *msg) fieldLines(n *gmime.Node) (lines [][]byte, term []byte) {
	if n == m.tree.Root {
		lines = append(lines, m.idLine)
	}

	for _, f := range n.Fields {
		lines = append(lines, m.conv(f.Raw))
	}

	if n.HeaderTerminated {
		term = []byte(m.eol())
	}

	return lines, term
}

func fieldName(line []byte) string {
	if i := bytes.IndexByte(line, ':'); i >= 0 {
		return string(line[:i])
	}

	return string(line)
}

// ---- data items -----------------------------------------------------------------------------------------------------

// spec is one FETCH data item as sent.
type spec struct {
	item     string // BODY | RFC822 | RFC822.SIZE | RFC822.HEADER | RFC822.TEXT
	peek     bool
	path     []int
	text     string // "" | MIME | HEADER | TEXT | HEADER.FIELDS | HEADER.FIELDS.NOT
	fields   []string
	partial  bool
	off, cnt uint64 // uint64: TestC13PartialBeyondGrammar sends numbers outside the 32-bit grammar
}

func (s spec) section() string {
	var parts []string

	if len(s.path) > 0 {
		parts = append(parts, gmime.PathString(s.path))
	}

	switch s.text {
	case "":
	case "HEADER.FIELDS", "HEADER.FIELDS.NOT":
		parts = append(parts, s.text+" ("+strings.Join(s.fields, " ")+")")
	default:
		parts = append(parts, s.text)
	}

	return strings.Join(parts, ".")
}

// request is the item as written into the command.
func (s spec) request() string {
	if s.item != "BODY" {
		return s.item
	}

	r := "BODY"
	if s.peek {
		r += ".PEEK"
	}

	r += "[" + s.section() + "]"

	if s.partial {
		r += "<" + strconv.FormatUint(s.off, 10) + "." + strconv.FormatUint(s.cnt, 10) + ">"
	}

	return r
}

// key is the name under which the response must carry the item (compared case-insensitively): never .PEEK, a partial
// names its origin octet only (RFC 3501 7.4.2 BODY[<section>]<<origin octet>>).
func (s spec) key() string {
	if s.item != "BODY" {
		return s.item
	}

	k := "BODY[" + s.section() + "]"
	if s.partial {
		k += "<" + strconv.FormatUint(s.off, 10) + ">"
	}

	return strings.ToUpper(k)
}

// kind is the evidence label of the item.
func (s spec) kind() string {
	k := s.item

	if s.item == "BODY" {
		k = "BODY["
		if len(s.path) > 0 {
			k += "p"
			if s.text != "" {
				k += "."
			}
		}

		k += s.text + "]"

		if s.partial {
			k += "<o.n>"
		}
	}

	return k
}

func (s spec) full() spec {
	s.partial, s.off, s.cnt = false, 0, 0
	return s
}

func (s spec) headerFields() bool { return s.text == "HEADER.FIELDS" || s.text == "HEADER.FIELDS.NOT" }

// want is what the oracle expects for one item on one message.
type want struct {
	noSuchPart bool // the path addresses nothing: NO / BAD or an empty value, never bytes
	number     bool // RFC822.SIZE
	n          int

	exact []byte // the exact bytes (partial applied), when !hf

	hf    bool     // header subset: multiset of lines + term (partial NOT applied: judged against the unsliced item)
	lines [][]byte // expected field lines
	term  []byte

	basis string // where the expectation comes from (printed with a failure)
}

// hfLen is the length of an expected header subset.
func (w want) hfLen() int {
	n := len(w.term)
	for _, l := range w.lines {
		n += len(l)
	}

	return n
}

func slicePartial(b []byte, off, cnt uint64) []byte {
	if off >= uint64(len(b)) {
		return []byte{}
	}

	end := uint64(len(b))
	if cnt < end-off {
		end = off + cnt
	}

	return b[off:end]
}

// expect computes what the server must answer for item s on message m (RFC 3501 6.4.5 unless basis says otherwise).
func (m *msg) expect(s spec) want {
	root := m.tree.Root

	switch s.item {
	case "RFC822":
		return want{exact: m.S, basis: "RFC822 = BODY[] = id line + appended bytes"}
	case "RFC822.SIZE":
		return want{number: true, n: len(m.S), basis: "RFC822.SIZE = length of BODY[]"}
	case "RFC822.HEADER":
		return want{exact: m.header(root), basis: "RFC822.HEADER = BODY[HEADER]"}
	case "RFC822.TEXT":
		return want{exact: m.body(root), basis: "RFC822.TEXT = BODY[TEXT]"}
	}

	var (
		w       want
		section []byte
		hdrOf   *gmime.Node // entity whose header HEADER / HEADER.FIELDS address
	)

	if len(s.path) == 0 {
		switch s.text {
		case "":
			section, w.basis = m.S, "BODY[] = id line + appended bytes"
		case "TEXT":
			section, w.basis = m.body(root), "BODY[TEXT] = the message without its header"
		default:
			hdrOf, w.basis = root, "BODY[HEADER...] = header of the message (id field first)"
		}
	} else {
		e := root.Section(s.path)
		if e == nil {
			return want{noSuchPart: true, basis: "the generated tree has no part " + gmime.PathString(s.path)}
		}

		switch {
		case s.text == "":
			section, w.basis = m.body(e), "BODY[p] = body of the entity"
		case s.text == "MIME":
			section, w.basis = m.header(e), "BODY[p.MIME] = MIME header of the entity"
		case e.Kind == gmime.Message && s.text == "TEXT":
			section, w.basis = m.body(e.Embedded), "BODY[p.TEXT] of a message/rfc822 part = body of the embedded message"
		case e.Kind == gmime.Message:
			hdrOf, w.basis = e.Embedded, "BODY[p.HEADER...] of a message/rfc822 part = header of the embedded message"
		case s.text == "TEXT":
			section, w.basis = m.body(e), "BODY[p.TEXT] of a part that is not message/rfc822: gluon's tests document the body of the part"
		default:
			hdrOf, w.basis = e, "BODY[p.HEADER...] of a part that is not message/rfc822: gluon's tests document the header of the part"
		}
	}

	if hdrOf != nil {
		if s.text == "HEADER" {
			section = m.header(hdrOf)
		} else {
			listed := map[string]bool{}
			for _, f := range s.fields {
				listed[strings.ToLower(f)] = true
			}

			all, term := m.fieldLines(hdrOf)

			for _, l := range all {
				if listed[strings.ToLower(fieldName(l))] != (s.text == "HEADER.FIELDS.NOT") {
					w.lines = append(w.lines, l)
				}
			}

			w.hf, w.term = true, term

			return w
		}
	}

	if s.partial {
		section = slicePartial(section, s.off, s.cnt)
	}

	w.exact = section

	return w
}

// sectionLen is the length of the unsliced section (for drawing offsets around it).
func (m *msg) sectionLen(s spec) int {
	w := m.expect(s.full())

	switch {
	case w.noSuchPart, w.number:
		return 0
	case w.hf:
		return w.hfLen()
	default:
		return len(w.exact)
	}
}

// ---- comparing --------------------------------------------------------------------------------------------------------

// splitFieldLines cuts a header (subset) into field lines: a line break that is followed by SP / HT continues the field.
func splitFieldLines(b []byte) [][]byte {
	var out [][]byte

	start := 0

	for i := 0; i < len(b); i++ {
		if b[i] != '\n' {
			continue
		}

		if i+1 < len(b) && (b[i+1] == ' ' || b[i+1] == '\t') && i > start && !(i-start == 1 && b[start] == '\r') {
			continue
		}

		out = append(out, b[start:i+1])
		start = i + 1
	}

	if start < len(b) {
		out = append(out, b[start:])
	}

	return out
}

// checkHeaderSubset compares a HEADER.FIELDS / .NOT answer with the expected multiset of field lines + blank line.
func checkHeaderSubset(got []byte, w want) error {
	rest := got

	if len(w.term) > 0 {
		if !bytes.HasSuffix(got, w.term) {
			return fmt.Errorf("does not end with the blank line %q", w.term)
		}

		rest = got[:len(got)-len(w.term)]
	}

	lines := splitFieldLines(rest)

	count := map[string]int{}
	for _, l := range w.lines {
		count[string(l)]++
	}

	var invented []string

	for _, l := range lines {
		if count[string(l)] > 0 {
			count[string(l)]--
		} else {
			invented = append(invented, fmt.Sprintf("%q", l))
		}
	}

	var lost []string

	for _, l := range w.lines { // in header order, for a readable message
		if count[string(l)] > 0 {
			count[string(l)]--

			lost = append(lost, fmt.Sprintf("%q", l))
		}
	}

	if len(invented)+len(lost) > 0 {
		return fmt.Errorf("field lines missing: [%s]; lines that are not (or no longer) expected: [%s]", strings.Join(lost, " "), strings.Join(invented, " "))
	}

	return nil
}

// diff describes the first difference of two byte strings.
func diff(got, want []byte) string {
	n := len(got)
	if len(want) < n {
		n = len(want)
	}

	i := 0
	for i < n && got[i] == want[i] {
		i++
	}

	ctx := func(b []byte) string {
		lo, hi := i-40, i+40
		if lo < 0 {
			lo = 0
		}

		if hi > len(b) {
			hi = len(b)
		}

		return fmt.Sprintf("%q", b[lo:hi])
	}

	return fmt.Sprintf("got %d bytes, want %d bytes, first difference at offset %d: got …%s… want …%s…", len(got), len(want), i, ctx(got), ctx(want))
}
