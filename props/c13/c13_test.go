package c13

import (
	"fmt"
	"hash/fnv"
	"sort"
	"strings"
	"testing"

	"pgregory.net/rapid"

	"verif/internal/ev"
	"verif/internal/kf"

	gmime "verif/internal/gen/mime"
)

const block = 256 << 10 // block size of the on-disk store

// ---- drawing the message -----------------------------------------------------------------------------------------------

func drawTree(rt *rapid.T, label string, small bool) *gmime.Tree {
	cfg := gmime.Config{
		// steering switches of the generator for listed findings of the MIME parser (all repaired at present)
		SimpleGroups:          kf.Listed("C12-group-members-dropped"),
		NoDelimiterPadding:    kf.Listed("C12-delimiter-transport-padding"),
		NoContentTypeComments: kf.Listed("C12-content-type-comment"),
		UnclosedNested:        true,
	}

	// 0..13 small, 14..16 around 64 KiB, 17..18 around the 256 KiB block, 19 up to 3 blocks
	k := 0
	if !small {
		k = rapid.IntRange(0, 19).Draw(rt, label+"sizeclass")
	}

	switch {
	case small:
		cfg.MaxNodes, cfg.MaxBody = 4, 1024
	case k == 19:
		cfg.MaxNodes, cfg.MaxBody, cfg.LargePct = 6, 3*block+5, 45
	case k >= 17:
		cfg.MaxNodes, cfg.MaxBody, cfg.LargePct = 8, block+4096, 35
	case k >= 14:
		cfg.MaxNodes, cfg.MaxBody, cfg.LargePct = 10, 70000, 30
	}

	return gmime.Draw(rt, cfg)
}

func drawMsg(rt *rapid.T, label string, small bool) *msg {
	tree := drawTree(rt, label, small)
	lf := rapid.IntRange(0, 7).Draw(rt, label+"eol") == 5

	return newMsg(tree, lf)
}

// ---- drawing the items -----------------------------------------------------------------------------------------------

var (
	absentNames = []string{"X-Absent", "Fro", "From2", "Content", "Subjec", "Date-X", "X", "Content-Typ", "X-Pm-Gluon", "Received-By"}
	commonNames = []string{"From", "To", "Subject", "Date", "Content-Type", "Received", "X-Tag", "Cc", "Message-Id", "Content-Transfer-Encoding", "MIME-Version", "X-Empty"}
)

func swapCase(s string) string {
	b := []byte(s)
	for i, c := range b {
		switch {
		case c >= 'a' && c <= 'z':
			b[i] = c - 32
		case c >= 'A' && c <= 'Z':
			b[i] = c + 32
		}
	}

	return string(b)
}

func drawCase(rt *rapid.T, s string) string {
	switch rapid.IntRange(0, 5).Draw(rt, "fcase") {
	case 3:
		return strings.ToUpper(s)
	case 4:
		return strings.ToLower(s)
	case 5:
		return swapCase(s)
	default:
		return s
	}
}

// drawFieldList draws the field names of a HEADER.FIELDS item for a header with the given field lines: names that
// are present (any case), absent, near misses (prefix / extension of a present name), the id field, duplicates.
func drawFieldList(rt *rapid.T, lines [][]byte) []string {
	n := rapid.IntRange(1, 4).Draw(rt, "nfields")

	var out []string

	for len(out) < n {
		present := ""
		if len(lines) > 0 {
			present = fieldName(lines[rapid.IntRange(0, len(lines)-1).Draw(rt, "fpresent")])
		}

		name := ""

		switch k := rapid.IntRange(0, 11).Draw(rt, "fkind"); {
		case k <= 5 && present != "":
			name = drawCase(rt, present)
		case k == 6:
			name = absentNames[rapid.IntRange(0, len(absentNames)-1).Draw(rt, "fabsent")]
		case k == 7:
			name = drawCase(rt, idKey)
		case k == 8 && len(out) > 0:
			name = drawCase(rt, out[rapid.IntRange(0, len(out)-1).Draw(rt, "fdup")])
		case k == 9 && len(present) > 1:
			name = present[:len(present)-1]
		case k == 10 && present != "":
			name = present + "x"
		default:
			name = drawCase(rt, commonNames[rapid.IntRange(0, len(commonNames)-1).Draw(rt, "fcommon")])
		}

		out = append(out, name)
	}

	return out
}

// drawPartial draws <o.n> around 0, the section length L, the store's block boundaries (relative to the section and,
// when the section's position abs in the stored message is known, absolute) and the largest numbers of the grammar.
func drawPartial(rt *rapid.T, L, abs int) (uint64, uint64) {
	const max32 = 1<<32 - 1

	offs := []int{0, 1, 2, L - 2, L - 1, L, L + 1, L / 2, rapid.IntRange(0, L+2).Draw(rt, "orand")}

	for _, b := range []int{65536, block, 2 * block, 3 * block} {
		offs = append(offs, b-1, b, b+1)

		if abs >= 0 {
			offs = append(offs, b-abs-1, b-abs, b-abs+1)
		}
	}

	offs = append(offs, max32-1, max32)

	var os []int

	for _, o := range offs {
		if o >= 0 && (o <= L+2 || o >= max32-1 || rapid.IntRange(0, 3).Draw(rt, "ofar") == 0) {
			os = append(os, o)
		}
	}

	o := os[rapid.IntRange(0, len(os)-1).Draw(rt, "o")]

	cnts := []int{1, 2, 3, L - o - 1, L - o, L - o + 1, L, L + 1, L / 2, 65536, block - 1, block, block + 1, rapid.IntRange(1, L+2).Draw(rt, "nrand"),
		max32 - o, max32 - o + 1, max32}

	if abs >= 0 {
		for _, b := range []int{block, 2 * block, 3 * block} {
			cnts = append(cnts, b-abs-o-1, b-abs-o, b-abs-o+1)
		}
	}

	var cs []int

	for _, c := range cnts {
		if c >= 1 && c <= max32 {
			cs = append(cs, c)
		}
	}

	return uint64(o), uint64(cs[rapid.IntRange(0, len(cs)-1).Draw(rt, "n")])
}

// absStart is the offset in S of a section that is a sub-slice of S (S is allocated with cap == len).
func (m *msg) absStart(section []byte) int {
	if cap(section) == 0 || cap(section) > len(m.S) {
		return -1
	}

	return len(m.S) - cap(section)
}

// drawInsidePath picks one of the tree's parts.
func drawInsidePath(rt *rapid.T, m *msg) []int {
	ps := m.tree.Paths()

	return ps[rapid.IntRange(0, len(ps)-1).Draw(rt, "path")].Path
}

// drawNearPath draws a path at the rim of the tree: next to the last sibling, below a leaf, part 0, ... (the oracle
// decides whether it addresses something).
func drawNearPath(rt *rapid.T, m *msg) []int {
	var base []int

	if rapid.IntRange(0, 3).Draw(rt, "nearroot") > 0 {
		base = append(base, drawInsidePath(rt, m)...)
	}

	nChildren := 0
	if e := m.tree.Root.Section(base); e != nil {
		for e.Kind == gmime.Message {
			e = e.Embedded
		}

		nChildren = len(e.Children)
	}

	switch rapid.IntRange(0, 7).Draw(rt, "nearkind") {
	case 0:
		return append(base, 1)
	case 1:
		return append(base, 2)
	case 2:
		return append(base, nChildren+1)
	case 3:
		return append(base, nChildren+2)
	case 4:
		return append(base, 1, 1)
	case 5:
		return append(base, 5, 7)
	case 6:
		return append(base, 0)
	default:
		if len(base) > 0 {
			base[len(base)-1] += rapid.IntRange(1, 4).Draw(rt, "nearup")
			return base
		}

		return []int{rapid.IntRange(1, 9).Draw(rt, "nearn")}
	}
}

// headerNode is the entity whose header a HEADER.FIELDS item with this path addresses (nil: no such part).
func (m *msg) headerNode(path []int) *gmime.Node {
	if len(path) == 0 {
		return m.tree.Root
	}

	e := m.tree.Root.Section(path)
	if e != nil && e.Kind == gmime.Message {
		return e.Embedded
	}

	return e
}

// drawSpec draws one data item. pathless restricts to items that mean something on every message.
func drawSpec(rt *rapid.T, m *msg, pathless bool) spec {
	hi := 19
	if pathless {
		hi = 9
	}

	s := spec{item: "BODY", peek: rapid.IntRange(0, 2).Draw(rt, "peek") > 0}

	switch k := rapid.IntRange(0, hi).Draw(rt, "itemkind"); k {
	case 0:
	case 1:
		s.text = "HEADER"
	case 2:
		s.text = "TEXT"
	case 3, 4:
		s.text = "HEADER.FIELDS"
	case 5:
		s.text = "HEADER.FIELDS.NOT"
	case 6:
		return spec{item: "RFC822"}
	case 7:
		return spec{item: "RFC822.SIZE"}
	case 8:
		return spec{item: "RFC822.HEADER"}
	case 9:
		return spec{item: "RFC822.TEXT"}
	default:
		texts := []string{"", "", "", "MIME", "MIME", "HEADER", "TEXT", "HEADER.FIELDS", "HEADER.FIELDS.NOT"}

		if k == 19 {
			s.path = drawNearPath(rt, m)
			s.text = texts[rapid.IntRange(0, len(texts)-1).Draw(rt, "neartext")]
		} else {
			s.path = drawInsidePath(rt, m)
			s.text = texts[k-10]
		}
	}

	if s.headerFields() {
		var lines [][]byte
		if n := m.headerNode(s.path); n != nil {
			lines, _ = m.fieldLines(n)
		}

		s.fields = drawFieldList(rt, lines)
	}

	if rapid.IntRange(0, 9).Draw(rt, "partial") < 4 {
		L, abs := m.sectionLen(s), -1
		if w := m.expect(s); !w.hf && !w.noSuchPart {
			abs = m.absStart(w.exact)
		}

		s.partial = true
		s.off, s.cnt = drawPartial(rt, L, abs)
	}

	return s
}

// ---- one case ----------------------------------------------------------------------------------------------------------

func hashBytes(b []byte) uint64 {
	h := fnv.New64a()
	_, _ = h.Write(b)

	return h.Sum64()
}

type sample struct {
	Via      string   `json:"via"`
	EOL      string   `json:"eol"`
	Bytes    int      `json:"appended_bytes"`
	Levels   int      `json:"levels"`
	Parts    []string `json:"parts"`
	Head     string   `json:"message_head"`
	Commands []string `json:"commands"`
}

func oneMessage(rt *rapid.T, w *world, via string) {
	w.alive(rt)

	m := drawMsg(rt, "", false)

	// sometimes a small companion message is stored first: FETCH of two messages at once (parallel fetch path)
	var companion *msg
	if rapid.IntRange(0, 6).Draw(rt, "companion") == 6 {
		companion = drawMsg(rt, "companion-", true)
		w.store(rt, companion, via)
	}

	w.store(rt, m, via)

	labels := map[string]bool{"via:" + via: true, "eol:crlf": !m.lf, "eol:lf": m.lf, fmt.Sprintf("levels:%d", m.tree.Levels): true}

	switch n := len(m.S); {
	case n > 2*block:
		labels["size:>512K"] = true
	case n > block:
		labels["size:256K-512K"] = true
	case n > 65536:
		labels["size:64K-256K"] = true
	default:
		labels["size:<64K"] = true
	}

	for _, l := range m.tree.Labels {
		labels["gen:"+l] = true
	}

	var (
		cmds     []string
		special  bool // a partial or a header-field item was fetched
		excluded bool
	)

	nCmd := rapid.IntRange(3, 6).Draw(rt, "ncmd")

	// sometimes the message files vanish from the on-disk store between two commands (cache loss: the literal is
	// downloaded from the connector again and written back); what FETCH returns must not change
	loseAt := -1
	if rapid.IntRange(0, 7).Draw(rt, "cacheLoss") == 0 {
		loseAt = rapid.IntRange(0, nCmd-2).Draw(rt, "loseAt")
	}

	for c := 0; c < nCmd; c++ {
		if c == loseAt {
			if err := w.loseStoreFiles(); err != nil {
				rt.Fatalf("VERIF-INCONCLUSIVE: cannot remove the store files: %v", err)
			}

			labels["fault:store-files-lost"] = true

			cmds = append(cmds, "(store files removed)")
		}

		targets := []*msg{m}
		both := companion != nil && rapid.IntRange(0, 2).Draw(rt, "both") == 0

		if both {
			targets = []*msg{companion, m}
		}

		var specs []spec

		nItems := rapid.IntRange(1, 4).Draw(rt, "nitems")

		for i := 0; i < nItems; i++ {
			s := drawSpec(rt, m, both)

			steered := false

			for _, tm := range targets {
				if st, why := steer(tm, s); st {
					steered, excluded = true, true
					labels["steered:"+why] = true
				}
			}

			if steered {
				continue
			}

			if m.expect(s).noSuchPart {
				// refused as a whole: travels alone
				specs = []spec{s}
				break
			}

			if s.partial && s.headerFields() {
				specs = append(specs, s.full())
			}

			specs = append(specs, s)
		}

		if len(specs) == 0 {
			continue
		}

		for _, s := range specs {
			kind := s.kind()
			if m.expect(s).noSuchPart {
				kind = "no-such-part:" + kind
			}

			ev.Class("item:"+kind, 1)

			special = special || s.partial || s.headerFields()
		}

		byUID := rapid.Bool().Draw(rt, "uid")
		parens := rapid.Bool().Draw(rt, "parens")

		cmds = append(cmds, w.fetch(rt, targets, specs, byUID, parens))
	}

	if excluded {
		ev.Excluded(1)
	}

	ls := make([]string, 0, len(labels))

	for l, on := range labels {
		if on {
			ls = append(ls, l)
		}
	}

	sort.Strings(ls)

	nontrivial := (m.tree.Levels >= 2 || len(m.S) > block) && special
	ev.Case(nontrivial, ev.Hash(hashBytes(m.A), via, strings.Join(cmds, ";")), ls...)

	if ev.WantSample() {
		sm := sample{Via: via, EOL: fmt.Sprintf("%q", m.eol()), Bytes: len(m.A), Levels: m.tree.Levels, Head: string(head(m.A, 400)), Commands: cmds}
		for _, pn := range m.tree.Paths() {
			sm.Parts = append(sm.Parts, fmt.Sprintf("%s %s/%s %d", gmime.PathString(pn.Path), pn.Node.Type, pn.Node.Subtype, pn.Node.Size))
		}

		ev.Sample(sm)
	}
}

// run drives one test function: one server for many messages; it is replaced by a fresh one every `renew` cases so
// that the store directory and the mailbox stay small.
func run(t *testing.T, via string) {
	const renew = 400

	w := newWorld(t)
	n := 0

	rapid.Check(t, func(rt *rapid.T) {
		if n++; n%renew == 0 {
			w.close()

			w = newWorld(t)
		}

		oneMessage(rt, w, via)
	})
}

func TestC13Append(t *testing.T) {
	ev.Checks(1500, 8000)
	run(t, "append")
}

func TestC13Connector(t *testing.T) {
	ev.Checks(900, 5000)
	run(t, "connector")
}

func TestC13ConnectorUpdate(t *testing.T) {
	ev.Checks(300, 1500)
	run(t, "connector-update")
}

// TestC13PartialBeyondGrammar: offsets and lengths outside RFC 3501's 32-bit number (candidate F-C13 of DESIGN.md §6:
// begin+count overflows in itemBodyLiteral.WithPartial). Such a command is not valid IMAP, so the value that comes
// back is not judged; what is judged is that the server neither crashes nor breaks the framing of its response, and
// that the session stays usable.
func TestC13PartialBeyondGrammar(t *testing.T) {
	ev.Checks(40, 150)

	w := newWorld(t)

	big := []uint64{1<<32 - 1, 1 << 32, 1<<32 + 1, 1<<63 - 2, 1<<63 - 1, 1 << 63, 1<<63 + 1, 1<<64 - 2, 1<<64 - 1}

	rapid.Check(t, func(rt *rapid.T) {
		w.alive(rt)

		m := drawMsg(rt, "", true)
		w.store(rt, m, "append")

		s := drawSpec(rt, m, true)
		for s.item != "BODY" {
			s = spec{item: "BODY", peek: true, text: []string{"", "HEADER", "TEXT"}[rapid.IntRange(0, 2).Draw(rt, "text")]}
		}

		if st, _ := steer(m, s); st {
			s.text, s.fields = "", nil
		}

		L := uint64(m.sectionLen(s))
		small := []uint64{0, 1, 2, L / 2, L - 1, L, L + 1}

		s.partial = true

		switch rapid.IntRange(0, 2).Draw(rt, "which") {
		case 0:
			s.off, s.cnt = big[rapid.IntRange(0, len(big)-1).Draw(rt, "o")], small[rapid.IntRange(1, len(small)-1).Draw(rt, "n")]
		case 1:
			s.off, s.cnt = small[rapid.IntRange(0, len(small)-1).Draw(rt, "o")], big[rapid.IntRange(0, len(big)-1).Draw(rt, "n")]
		default:
			s.off, s.cnt = big[rapid.IntRange(0, len(big)-1).Draw(rt, "o")], big[rapid.IntRange(0, len(big)-1).Draw(rt, "n")]
		}

		if s.cnt == 0 {
			s.cnt = 1
		}

		// listed finding: the parser wraps the digits into an int; WithPartial then slices with a negative bound when
		// the offset is negative, or when offset < length and offset+count (or count) is negative
		if o, n := int64(s.off), int64(s.cnt); (o < 0 || (o < int64(L) && (n < 0 || o+n < 0))) && kf.Listed(kfPartialOverflow) {
			ev.Excluded(1)

			s.off, s.cnt = s.off&(1<<62-1), s.cnt&(1<<62-1)|1
		}

		cmd := fmt.Sprintf("UID FETCH %d (%s)", m.uid, s.request())
		r := w.s.Do(cmd)

		if err := w.b.CheckPanics(); err != nil {
			rt.Fatalf("C13 (crash): %s: %v\n%s", cmd, err, m.describe())
		}

		if r.Err != nil {
			inconclusive(rt, cmd, r.Err)
			rt.Fatalf("C13: %s: response stream broken or connection lost: %v\n%s", cmd, r.Err, tail(w.b.Hist.Lines(), 6))
		}

		if n := w.s.Do("NOOP"); !n.OK() {
			rt.Fatalf("C13: session unusable after %s: %v", cmd, n)
		}

		outcome := r.Status

		if r.OK() {
			items, _ := w.itemsOf(rt, r, m, cmd, true)
			for _, it := range items {
				// taken at face value the numbers select section[o:] (or nothing)
				if exp := slicePartial(m.expect(s.full()).exact, s.off, s.cnt); !s.headerFields() && string(it.val) != string(exp) {
					outcome = "OK-other-bytes(not judged)"
				}
			}
		}

		ev.Case(false, ev.Hash(cmd), "beyond-grammar:"+outcome)
	})
}
