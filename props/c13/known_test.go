package c13

import (
	"bytes"
	"fmt"
	"strings"
	"testing"

	"verif/internal/ev"
	"verif/internal/imapc"
	"verif/internal/kf"

	gmime "verif/internal/gen/mime"
)

// Known findings that this check steers around while they are listed in known_findings.json.
const (
	// rfc822 (*Section).load copies the parts of an embedded multipart message into the message/rfc822 entity (listed
	// by C12 for BODYSTRUCTURE). For FETCH the numbering is wrong where RFC 3501 has one more level: a message whose
	// own Content-Type is message/rfc822 (its parts are 1.1 .. 1.n, gluon serves them as 1 .. n) and a message/rfc822
	// part that embeds a message/rfc822 message.
	kfEmbeddedMultipart = "C13-embedded-multipart-part-numbering"
	// rfc822 (*Section).Part ignores the rest of the path once it stands on a section without children.
	kfBelowChildless = "C13-part-path-below-childless-part"
	// BODY[HEADER] / BODY[TEXT] / BODY[HEADER.FIELDS] of a message whose own Content-Type is message/rfc822 address the
	// embedded message instead of the message itself.
	kfTopLevelRFC822 = "C13-toplevel-message-rfc822-header-text"
	// rfc822 header parser: a field whose colon is directly followed by the line break ("X-Empty:CRLF") and that is not
	// the last line of the header is recorded as its name only; HEADER.FIELDS / .NOT return "X-Empty" without ":CRLF".
	kfEmptyField = "C13-header-fields-empty-value-truncated"
	// response.(*itemBodyLiteral).WithPartial: begin+count overflows for numbers near 2^63 (the command parser accepts any
	// digit string and wraps silently): negative slice bound, panic.
	kfPartialOverflow = "C13-partial-overflow-panic"
)

// gluonChildren is the list of parts that gluon's parser hangs below an entity.
func gluonChildren(n *gmime.Node) []*gmime.Node {
	for n.Kind == gmime.Message {
		n = n.Embedded
	}

	return n.Children
}

// gluonResolve walks a part path the way rfc822 (*Section).Part does on the pinned tree. belowChildless: the walk
// reached a section without children while numbers were left (Part returns that section; correct only for the lone "1"
// of a non-multipart message).
func gluonResolve(root *gmime.Node, path []int) (n *gmime.Node, belowChildless bool) {
	cur := root

	for i, k := range path {
		ch := gluonChildren(cur)

		if len(ch) == 0 {
			if cur == root && i == 0 && len(path) == 1 && k == 1 {
				return root, false
			}

			return cur, true
		}

		if k < 1 || k > len(ch) {
			return nil, false
		}

		cur = ch[k-1]
	}

	return cur, false
}

// collapsedResolve is RFC 3501's numbering except that a message/rfc822 entity takes over the parts of the multipart
// embedded in it (the shape of the listed finding C12-embedded-multipart-as-multipart, and nothing else).
func collapsedResolve(root *gmime.Node, path []int) *gmime.Node {
	cur, isMessage := root, true

	for len(path) > 0 {
		if ch := gluonChildren(cur); len(ch) > 0 {
			if path[0] < 1 || path[0] > len(ch) {
				return nil
			}

			cur, isMessage, path = ch[path[0]-1], false, path[1:]

			continue
		}

		if isMessage {
			// a non-multipart message has the part 1 only: itself, seen as an entity
			if path[0] != 1 {
				return nil
			}

			isMessage, path = false, path[1:]

			continue
		}

		// below an entity without parts: only inside a message/rfc822
		if cur.Kind != gmime.Message {
			return nil
		}

		cur, isMessage = cur.Embedded, true
	}

	return cur
}

// steer tells whether an item lies in the region of a listed known finding (it is then not sent; the case is counted
// as excluded_known).
func steer(m *msg, s spec) (bool, string) {
	if s.item != "BODY" {
		return false, ""
	}

	root := m.tree.Root

	if s.headerFields() && kf.Listed(kfEmptyField) {
		if w := m.expect(s); w.hf {
			for _, l := range w.lines {
				if bytes.HasSuffix(l, []byte(":"+m.eol())) && bytes.IndexByte(l, ':') == len(l)-1-len(m.eol()) {
					return true, kfEmptyField
				}
			}
		}
	}

	if len(s.path) == 0 {
		if s.text != "" && root.Kind == gmime.Message && kf.Listed(kfTopLevelRFC822) {
			return true, kfTopLevelRFC822
		}

		return false, ""
	}

	if collapsedResolve(root, s.path) != root.Section(s.path) && kf.Listed(kfEmbeddedMultipart) {
		return true, kfEmbeddedMultipart
	}

	if _, below := gluonResolve(root, s.path); below && kf.Listed(kfBelowChildless) {
		return true, kfBelowChildless
	}

	return false, ""
}

func onlyShard0(t *testing.T) {
	if sh, _ := ev.Shard(); sh != 0 {
		t.Skip("deterministic regression: shard 0 only")
	}
}

// knownOutcome implements the rule of HACKING.md for a deterministic regression of a genuine defect.
func knownOutcome(t *testing.T, id string, reproduced bool, detail string) {
	t.Helper()

	switch {
	case !reproduced:
		// repaired (or not reproducible here): nothing to say
	case kf.Report(id):
		t.Logf("known finding %s reproduced: %s", id, detail)
	default:
		t.Fatalf("C13 violated (%s, not listed in known_findings.json): %s", id, detail)
	}
}

// ---- scripted regressions of the findings ----------------------------------------------------------------------------

const stdHead = "From: a@b.c\r\nDate: Mon, 7 Feb 1994 21:52:25 -0800\r\n"

// scripted appends raw and fetches one item of it; it returns the tagged status and the value of the (only) data item.
func scripted(t *testing.T, w *world, raw, item string) (status string, val []byte, has bool) {
	t.Helper()

	if r := w.s.DoParts(imapc.T("APPEND INBOX "), imapc.L([]byte(raw))); !r.OK() {
		t.Fatalf("APPEND of the regression message refused: %v", r)
	}

	seq := len(w.s.Mirror.Msgs)
	r := w.s.Do(fmt.Sprintf("FETCH %d (%s)", seq, item))

	if r.Err != nil {
		t.Fatalf("FETCH %s: %v", item, r.Err)
	}

	for _, u := range r.Untagged {
		if n, kw, ok := u.Num(); ok && kw == "FETCH" && int(n) == seq && len(u.Tokens) == 3 {
			its := u.Tokens[2].Items
			for i := 0; i+1 < len(its); i += 2 {
				if strings.HasPrefix(strings.ToUpper(its[i].Str), "BODY[") {
					return r.Status, []byte(its[i+1].Str), true
				}
			}
		}
	}

	return r.Status, nil, false
}

// stripID removes the server's id line.
func stripID(b []byte) string {
	if loc := idLineRE.FindIndex(b); loc != nil {
		return string(b[loc[1]:])
	}

	return string(b)
}

// TestKnown_C13_part_path_below_childless: rfc822 (*Section).Part returns the section it stands on and ignores the rest
// of the path when that section has no children. (a) BODY[1.5.7] / BODY[1.1] of a single-part message return its
// body although RFC 3501 6.4.5 gives such a message the part 1 only; (b) for a message/rfc822 part that embeds a
// non-multipart message, BODY[1.1] (the embedded message's only part: its body) returns the whole embedded message
// and BODY[1.1.MIME] returns the MIME header of part 1.
func TestKnown_C13_part_path_below_childless(t *testing.T) {
	onlyShard0(t)

	w := newWorld(t)

	var bad []string

	if st, val, has := scripted(t, w, stdHead+"\r\nbody\r\n", "BODY.PEEK[1.5.7]"); st == "OK" && has && len(val) > 0 {
		bad = append(bad, fmt.Sprintf("BODY[1.5.7] of a single-part message answers OK with %q", val))
	}

	if st, val, has := scripted(t, w, stdHead+"\r\nbody\r\n", "BODY.PEEK[1.1]"); st == "OK" && has && len(val) > 0 {
		bad = append(bad, fmt.Sprintf("BODY[1.1] of a single-part message answers OK with %q", val))
	}

	const embedding = stdHead + "Content-Type: multipart/mixed; boundary=b\r\n\r\n--b\r\nContent-Type: message/rfc822\r\n\r\nSubject: inner\r\n\r\ninner body\r\n--b--\r\n"

	if st, val, _ := scripted(t, w, embedding, "BODY.PEEK[1.1]"); st != "OK" || string(val) != "inner body" {
		bad = append(bad, fmt.Sprintf("BODY[1.1] of a message/rfc822 part embedding 'Subject: inner CRLF CRLF inner body' answers %s %q, want \"inner body\"", st, val))
	}

	if st, val, _ := scripted(t, w, embedding, "BODY.PEEK[1.1.MIME]"); st != "OK" || string(val) != "Subject: inner\r\n\r\n" {
		bad = append(bad, fmt.Sprintf("BODY[1.1.MIME] of the same answers %s %q, want \"Subject: inner\\r\\n\\r\\n\"", st, val))
	}

	knownOutcome(t, kfBelowChildless, len(bad) > 0, strings.Join(bad, "; "))
}

// TestKnown_C13_toplevel_message_rfc822: fetchBodySection applies handleEmbeddedParts also when no part number is
// given, so for a message whose own Content-Type is message/rfc822 BODY[HEADER] / BODY[TEXT] / BODY[HEADER.FIELDS ...]
// address the embedded message: BODY[HEADER] followed by BODY[TEXT] is no longer BODY[] (RFC822.HEADER / RFC822.TEXT
// are right).
func TestKnown_C13_toplevel_message_rfc822(t *testing.T) {
	onlyShard0(t)

	w := newWorld(t)

	const outerHead = stdHead + "Content-Type: message/rfc822\r\n\r\n"
	const inner = "Subject: inner\r\n\r\ninner body\r\n"

	var bad []string

	if st, val, _ := scripted(t, w, outerHead+inner, "BODY.PEEK[HEADER]"); st != "OK" || stripID(val) != outerHead {
		bad = append(bad, fmt.Sprintf("BODY[HEADER] answers %s %q, want the id line + %q", st, val, outerHead))
	}

	if st, val, _ := scripted(t, w, outerHead+inner, "BODY.PEEK[TEXT]"); st != "OK" || string(val) != inner {
		bad = append(bad, fmt.Sprintf("BODY[TEXT] answers %s %q, want %q", st, val, inner))
	}

	if st, val, _ := scripted(t, w, outerHead+inner, "BODY.PEEK[HEADER.FIELDS (From Subject)]"); st != "OK" || string(val) != "From: a@b.c\r\n\r\n" {
		bad = append(bad, fmt.Sprintf("BODY[HEADER.FIELDS (From Subject)] answers %s %q, want \"From: a@b.c\\r\\n\\r\\n\"", st, val))
	}

	knownOutcome(t, kfTopLevelRFC822, len(bad) > 0, strings.Join(bad, "; "))
}

// TestKnown_C13_header_fields_empty_value: the header parser records a field whose colon is directly followed by the
// line break, and that is followed by another line, with valueStart = valueEnd = keyEnd; Fields / FieldsNot copy
// header[keyStart:valueEnd], i.e. the bare name: the ":" and the line break are lost and the next field is glued on.
func TestKnown_C13_header_fields_empty_value(t *testing.T) {
	onlyShard0(t)

	w := newWorld(t)

	const raw = stdHead + "X-Empty:\r\nSubject: s\r\n\r\nbody\r\n"

	var bad []string

	if st, val, _ := scripted(t, w, raw, "BODY.PEEK[HEADER.FIELDS (X-Empty Subject)]"); st != "OK" || string(val) != "X-Empty:\r\nSubject: s\r\n\r\n" {
		bad = append(bad, fmt.Sprintf("BODY[HEADER.FIELDS (X-Empty Subject)] answers %s %q, want \"X-Empty:\\r\\nSubject: s\\r\\n\\r\\n\"", st, val))
	}

	if st, val, _ := scripted(t, w, raw, "BODY.PEEK[HEADER.FIELDS.NOT (From Date X-Pm-Gluon-Id)]"); st != "OK" || string(val) != "X-Empty:\r\nSubject: s\r\n\r\n" {
		bad = append(bad, fmt.Sprintf("BODY[HEADER.FIELDS.NOT (From Date X-Pm-Gluon-Id)] answers %s %q, want \"X-Empty:\\r\\nSubject: s\\r\\n\\r\\n\"", st, val))
	}

	knownOutcome(t, kfEmptyField, len(bad) > 0, strings.Join(bad, "; "))
}

// TestKnown_C13_partial_overflow: BODY[]<9223372036854775807.2> (numbers outside RFC 3501's 32-bit grammar, accepted by
// the command parser): begin+count overflows, WithPartial slices with a negative bound and the goroutine panics; with
// gluon's default panic handler the process dies.
func TestKnown_C13_partial_overflow(t *testing.T) {
	onlyShard0(t)

	w := newWorld(t)

	var bad []string

	for _, item := range []string{"BODY.PEEK[]<1.9223372036854775807>", "BODY.PEEK[]<9223372036854775808.1>"} {
		_, _, _ = scripted(t, w, stdHead+"\r\nbody\r\n", item)

		if err := w.b.CheckPanics(); err != nil {
			bad = append(bad, item+": "+strings.SplitN(err.Error(), "\n", 2)[0])
			break
		}
	}

	knownOutcome(t, kfPartialOverflow, len(bad) > 0, strings.Join(bad, "; "))
}

// TestKnown_C13_toplevel_rfc822_numbering: consequence of the listed finding C12-embedded-multipart-as-multipart for
// FETCH: a message whose own Content-Type is message/rfc822 and that embeds a multipart has, by RFC 3501 6.4.5, the
// parts 1 (the entity: BODY[1] is the embedded message) and 1.1 .. 1.n; gluon serves the embedded parts as 1 .. n.
func TestKnown_C13_toplevel_rfc822_numbering(t *testing.T) {
	onlyShard0(t)

	w := newWorld(t)

	const inner = "Subject: inner\r\nContent-Type: multipart/mixed; boundary=b\r\n\r\n--b\r\n\r\none\r\n--b\r\n\r\ntwo\r\n--b--\r\n"
	const raw = stdHead + "Content-Type: message/rfc822\r\n\r\n" + inner

	var bad []string

	if st, val, _ := scripted(t, w, raw, "BODY.PEEK[1]"); st != "OK" || string(val) != inner {
		bad = append(bad, fmt.Sprintf("BODY[1] answers %s %q, want the embedded message", st, val))
	}

	if st, val, _ := scripted(t, w, raw, "BODY.PEEK[1.2]"); st != "OK" || string(val) != "two" {
		bad = append(bad, fmt.Sprintf("BODY[1.2] answers %s %q, want \"two\"", st, val))
	}

	knownOutcome(t, kfEmbeddedMultipart, len(bad) > 0, strings.Join(bad, "; "))
}
