// Package c13 decides property C13: what FETCH returns is byte-exact. See /verif/DESIGN.md "### C13".
//
// Messages come from the shared MIME-tree generator (internal/gen/mime), so every part, header and field of a message
// is known by construction. They are APPENDed over the wire or delivered through the connector to a real server
// (internal/bed); FETCH / UID FETCH commands with drawn data items are then judged by byte-exact relations between
// what was appended and what comes back (oracle_test.go: func (m *msg) expect).
package c13

import (
	"testing"

	"verif/internal/ev"
)

const rule = "one case = one generated message with all FETCH commands issued on it (ev.Case once per message; a small companion message that some cases store first, to fetch two messages at once, belongs to the case); " +
	"non-trivial: the message has >= 2 MIME levels or is larger than 256 KiB, and at least one partial <o.n> or " +
	"HEADER.FIELDS / HEADER.FIELDS.NOT item was fetched on it; distinct by hash of the message bytes and the commands"

func TestMain(m *testing.M) {
	ev.Main(m, "C13", "exploration", rule,
		"in about one case of eight the message files are removed from the on-disk store between two FETCH commands (cache loss, as in tests/fetch_test.go TestFetchWhenFileDeletedFromCache): the literal is downloaded from the connector again and written back, and every later answer must still be byte-exact",
		"partial offsets and lengths stay inside RFC 3501's 32-bit number (nz-number for the length); larger numbers are outside the grammar and are only checked for crashes (TestC13PartialBeyondGrammar)",
		"BODY[p.HEADER] / BODY[p.TEXT] / BODY[p.HEADER.FIELDS] on a part that is not message/rfc822 are undefined in RFC 3501; they are judged by what gluon's own tests document (tests/fetch_test.go: the part's MIME header / body)",
		"messages are generated with CRLF line endings; a drawn share is converted to bare LF as a whole (non-conformant input that gluon accepts); the server's id line always ends in CRLF",
		"HEADER.FIELDS results are compared as multisets of field lines plus the terminating blank line (RFC 3501 does not fix the order); a partial of such a section is judged against the unsliced section fetched in the same command")
}
