package c13

import (
	"bytes"
	"errors"
	"fmt"
	"os"
	"path/filepath"
	"regexp"
	"strconv"
	"strings"
	"testing"
	"time"

	"github.com/ProtonMail/gluon/imap"

	"verif/internal/bed"
	"verif/internal/imapc"

	gmime "verif/internal/gen/mime"
)

// fataler is *testing.T or *rapid.T.
type fataler interface {
	Fatalf(format string, args ...any)
	Logf(format string, args ...any)
	Helper()
}

// world is one server with one logged-in session that has INBOX selected.
type world struct {
	b      *bed.Bed
	u      *bed.User
	s      *bed.Session
	closed bool
}

func newWorld(t *testing.T) *world {
	t.Helper()

	b, err := bed.Start(bed.Options{}, bed.UserSpec{Name: "user", Pass: "pass"})
	if err != nil {
		t.Fatalf("VERIF-INCONCLUSIVE: cannot start the server: %v", err)
	}

	w := &world{b: b, u: b.Users[0]}
	w.connect(t)

	t.Cleanup(w.close)

	return w
}

// loseStoreFiles removes every message file of the user from the on-disk store (the index is untouched).
func (w *world) loseStoreFiles() error {
	dir := w.b.StoreDir(w.u)

	entries, err := os.ReadDir(dir)
	if err != nil {
		return err
	}

	for _, e := range entries {
		if err := os.RemoveAll(filepath.Join(dir, e.Name())); err != nil {
			return err
		}
	}

	return nil
}

// close logs out and removes the server with its directories (idempotent).
func (w *world) close() {
	if w.closed {
		return
	}

	w.closed = true

	w.s.Logout()
	w.b.Destroy()
}

// inconclusive reports a fired client watchdog (60 s for an answer that normally takes milliseconds): a time budget is
// not a correctness signal.
func inconclusive(t fataler, cmd string, err error) {
	t.Helper()

	if errors.Is(err, imapc.ErrTimeout) {
		t.Fatalf("VERIF-INCONCLUSIVE: no answer to %q within the client watchdog: %v", cmd, err)
	}
}

func (w *world) connect(t fataler) {
	t.Helper()

	s, err := w.b.Login("", w.u)
	if err != nil {
		t.Fatalf("VERIF-INCONCLUSIVE: cannot log in: %v", err)
	}

	if r := s.Select("INBOX", false); !r.OK() {
		t.Fatalf("SELECT INBOX: %v", r)
	}

	w.s = s
}

// alive makes sure that a usable session exists at the start of a case (an earlier failing case may have lost it).
func (w *world) alive(t fataler) {
	if w.s.Dead {
		w.s.Close()
		w.connect(t)
	}
}

func (w *world) panics(t fataler, m *msg, cmd string) {
	t.Helper()

	if err := w.b.CheckPanics(); err != nil {
		t.Fatalf("C13 (crash) after %q: %v\n%s", cmd, err, m.describe())
	}
}

var idLineRE = regexp.MustCompile(`^X-Pm-Gluon-Id: [0-9a-fA-F]{8}-[0-9a-fA-F]{4}-[0-9a-fA-F]{4}-[0-9a-fA-F]{4}-[0-9a-fA-F]{12}\r\n`)

// store hands the message to the server (APPEND or connector update), finds its sequence number and UID, fetches
// BODY.PEEK[] and RFC822.SIZE once and checks the first relation of the property: BODY[] is the appended message with
// exactly the id line in front of the first header field.
func (w *world) store(t fataler, m *msg, via string) {
	t.Helper()

	m.via = via

	switch via {
	case "append":
		r := w.s.DoParts(imapc.T("APPEND INBOX "), imapc.L(m.A))
		inconclusive(t, "APPEND", r.Err)

		if !r.OK() {
			t.Fatalf("generator soundness or C13: APPEND of a generated message refused: %v\n%s", r, m.describe())
		}

		f := strings.Fields(r.Code)
		if len(f) != 3 || !strings.EqualFold(f[0], "APPENDUID") {
			t.Fatalf("APPEND without APPENDUID code: %v", r)
		}

		uid, _ := strconv.ParseUint(f[2], 10, 32)
		m.uid = uint32(uid)
	case "connector":
		_, mc, err := w.u.Conn.NewRemoteMessage(m.A, imap.NewFlagSet(), time.Unix(1600000000, 0), w.u.Inbox.ID)
		if err != nil {
			t.Fatalf("generator soundness: imap.NewParsedMessage refuses a generated message: %v\n%s", err, m.describe())
		}

		if d := w.b.DeliverNow(w.u, imap.NewMessagesCreated(false, mc)); d[0].Err != nil {
			t.Fatalf("MessagesCreated refused: %v\n%s", d[0].Err, m.describe())
		}

		if err := w.b.Barrier(w.u); err != nil {
			t.Fatalf("VERIF-INCONCLUSIVE: barrier: %v", err)
		}

		if r := w.s.Do("NOOP"); !r.OK() {
			t.Fatalf("NOOP: %v", r)
		}
	case "connector-update":
		// the connector first announces a short message and then replaces its content (MessageUpdated with a new
		// literal: a draft that was edited remotely); what is fetched afterwards is the new content
		old := []byte("From: a@example.com\r\nTo: b@example.com\r\nSubject: first version\r\nDate: Mon, 7 Feb 1994 21:52:25 -0800\r\n\r\nfirst version\r\n")

		rm, mc, err := w.u.Conn.NewRemoteMessage(old, imap.NewFlagSet(), time.Unix(1600000000, 0), w.u.Inbox.ID)
		if err != nil {
			t.Fatalf("harness: %v", err)
		}

		if d := w.b.DeliverNow(w.u, imap.NewMessagesCreated(false, mc)); d[0].Err != nil {
			t.Fatalf("MessagesCreated refused: %v", d[0].Err)
		}

		parsed, err := imap.NewParsedMessage(m.A)
		if err != nil {
			t.Fatalf("generator soundness: imap.NewParsedMessage refuses a generated message: %v\n%s", err, m.describe())
		}

		w.u.Conn.Lock(func() { w.u.Conn.Messages[rm.ID].Literal = append([]byte(nil), m.A...) })

		up := imap.NewMessageUpdated(imap.Message{ID: rm.ID, Flags: imap.NewFlagSet(), Date: time.Unix(1600000000, 0)}, m.A, []imap.MailboxID{w.u.Inbox.ID}, parsed, false)
		if d := w.b.DeliverNow(w.u, up); d[0].Err != nil {
			t.Fatalf("MessageUpdated refused: %v\n%s", d[0].Err, m.describe())
		}

		if err := w.b.Barrier(w.u); err != nil {
			t.Fatalf("VERIF-INCONCLUSIVE: barrier: %v", err)
		}

		if r := w.s.Do("NOOP"); !r.OK() {
			t.Fatalf("NOOP: %v", r)
		}
	}

	m.seq = uint32(len(w.s.Mirror.Msgs))
	if m.seq == 0 {
		t.Fatalf("the message was accepted but the session was not told about it (no EXISTS)\n%s", w.b.Hist)
	}

	cmd := fmt.Sprintf("FETCH %d (UID BODY.PEEK[] RFC822.SIZE)", m.seq)
	r := w.s.Do(cmd)
	w.panics(t, m, cmd)

	if r.Err != nil {
		inconclusive(t, cmd, r.Err)
		t.Fatalf("C13: %s: response stream broken (a literal whose announced length is wrong derails the tokenizer): %v\n%s", cmd, r.Err, m.describe())
	}

	if !r.OK() {
		t.Fatalf("C13: %s refused: %v\n%s", cmd, r, m.describe())
	}

	items, uid := w.itemsOf(t, r, m, cmd, false)
	if m.uid != 0 && uid != m.uid {
		t.Fatalf("APPENDUID said %d, the last message has UID %d", m.uid, uid)
	}

	m.uid = uid

	var body []byte

	size := -1

	for _, it := range items {
		switch it.key {
		case "BODY[]":
			body = it.val
		case "RFC822.SIZE":
			size, _ = strconv.Atoi(string(it.val))
		}
	}

	if body == nil {
		t.Fatalf("C13: %s: no BODY[] item in %v", cmd, r.Untagged)
	}

	id := idLineRE.Find(body)
	if id == nil || !bytes.Equal(body[len(id):], m.A) {
		// say what is wrong: where is the id line, is the rest untouched?
		detail := "no id line 'X-Pm-Gluon-Id: <uuid>CRLF' at the position of the first header field (offset 0)"

		if i := bytes.Index(body, []byte(idKey+":")); i > 0 {
			detail = fmt.Sprintf("the id line is at offset %d, the first header field is at offset 0", i)
		} else if id != nil {
			detail = "bytes other than the id line differ: " + diff(body[len(id):], m.A)
		}

		t.Fatalf("C13: BODY[] is not the appended message plus the id line in front of the first header field: %s\nBODY[] starts %q\n%s",
			detail, head(body, 300), m.describe())
	}

	m.setID(id)

	if size != len(m.S) {
		t.Fatalf("C13: RFC822.SIZE is %d, BODY[] has %d bytes (appended %d + id line %d)\n%s", size, len(m.S), len(m.A), len(id), m.describe())
	}
}

func head(b []byte, n int) []byte {
	if len(b) > n {
		return b[:n]
	}

	return b
}

type gotItem struct {
	key  string // upper-cased
	val  []byte
	tok  imapc.Token
	used bool
}

// itemsOf returns the data items of the (single) FETCH response for message m in r, and the UID it reports.
// Further FETCH responses for m are tolerated only if they carry nothing but FLAGS / UID.
func (w *world) itemsOf(t fataler, r *imapc.Result, m *msg, cmd string, allowNone bool) ([]*gotItem, uint32) {
	t.Helper()

	var (
		items []*gotItem
		uid   uint32
		main  bool
	)

	for _, u := range r.Untagged {
		n, kw, ok := u.Num()
		if !ok || kw != "FETCH" || n != m.seq {
			continue
		}

		if len(u.Tokens) != 3 || u.Tokens[2].Kind != imapc.List || len(u.Tokens[2].Items)%2 != 0 {
			t.Fatalf("C13: %s: malformed FETCH response %q", cmd, u.Raw)
		}

		var its []*gotItem

		dataItems := 0

		for i := 0; i < len(u.Tokens[2].Items); i += 2 {
			k, v := u.Tokens[2].Items[i], u.Tokens[2].Items[i+1]
			if k.Kind != imapc.Atom {
				t.Fatalf("C13: %s: data item name is not an atom in %q", cmd, u.Raw)
			}

			it := &gotItem{key: strings.ToUpper(k.Str), val: []byte(v.Str), tok: v}

			switch it.key {
			case "UID":
				x, _ := strconv.ParseUint(v.Str, 10, 32)
				uid = uint32(x)
			case "FLAGS":
			default:
				dataItems++

				its = append(its, it)
			}
		}

		if dataItems == 0 {
			continue
		}

		if main {
			t.Fatalf("C13: %s: two FETCH responses with data for message %d:\n%s", cmd, m.seq, w.b.Hist)
		}

		main, items = true, its
	}

	if !main && !allowNone {
		t.Fatalf("C13: %s answered %s without a FETCH response for message %d\n%s", cmd, r.Status, m.seq, m.describe())
	}

	return items, uid
}

// fetch sends one FETCH / UID FETCH for the given messages and judges every returned item.
func (w *world) fetch(t fataler, ms []*msg, specs []spec, byUID, parens bool) string {
	t.Helper()

	var reqs []string
	for _, s := range specs {
		reqs = append(reqs, s.request())
	}

	list := strings.Join(reqs, " ")
	if parens || len(reqs) > 1 {
		list = "(" + list + ")"
	}

	var set []string

	for _, m := range ms {
		if byUID {
			set = append(set, strconv.FormatUint(uint64(m.uid), 10))
		} else {
			set = append(set, strconv.FormatUint(uint64(m.seq), 10))
		}
	}

	cmd := "FETCH " + strings.Join(set, ",") + " " + list
	if byUID {
		cmd = "UID " + cmd
	}

	r := w.s.Do(cmd)
	w.panics(t, ms[0], cmd)

	if r.Err != nil {
		inconclusive(t, cmd, r.Err)
		t.Fatalf("C13: %s: response stream broken (a literal whose announced length is wrong derails the tokenizer): %v\n%s\n%s",
			cmd, r.Err, tail(w.b.Hist.Lines(), 6), ms[0].describe())
	}

	for _, m := range ms {
		w.judge(t, m, specs, cmd, r, byUID)
	}

	return cmd
}

func tail(lines []string, n int) string {
	if len(lines) > n {
		lines = lines[len(lines)-n:]
	}

	return strings.Join(lines, "\n")
}

func (w *world) judge(t fataler, m *msg, specs []spec, cmd string, r *imapc.Result, byUID bool) {
	t.Helper()

	wants := make([]want, len(specs))
	missing := false

	for i, s := range specs {
		wants[i] = m.expect(s)
		missing = missing || wants[i].noSuchPart
	}

	fail := func(i int, format string, a ...any) {
		t.Helper()
		t.Fatalf("C13 violated: %s\n  item %s (response name %s): %s\n  expectation: %s\n%s", cmd, specs[i].request(), specs[i].key(),
			fmt.Sprintf(format, a...), wants[i].basis, m.describe())
	}

	if missing {
		// a section of a part that does not exist: the command may be refused, or answer nothing / an empty value,
		// but it may not return bytes ("each BODY[n.m] is that part's bytes": there is no such part)
		if len(specs) != 1 {
			panic("a no-such-part item travels alone")
		}

		if !r.OK() {
			return
		}

		items, _ := w.itemsOf(t, r, m, cmd, true)
		for _, it := range items {
			if !(it.tok.IsNil() || len(it.val) == 0) {
				fail(0, "the server answered OK with %s = %d bytes %q", it.key, len(it.val), head(it.val, 120))
			}
		}

		return
	}

	if !r.OK() {
		t.Fatalf("C13 violated: %s refused (%s %s) although every section exists\n%s", cmd, r.Status, r.Text, m.describe())
	}

	items, uid := w.itemsOf(t, r, m, cmd, false)

	if byUID && uid != m.uid {
		t.Fatalf("C13: %s: response for message %d carries UID %d, expected %d", cmd, m.seq, uid, m.uid)
	}

	find := func(key string, consume bool) *gotItem {
		for _, it := range items {
			if it.key == key && (!consume || !it.used) {
				if consume {
					it.used = true
				}

				return it
			}
		}

		return nil
	}

	for i, s := range specs {
		it := find(s.key(), true)
		if it == nil {
			var names []string
			for _, x := range items {
				names = append(names, x.key)
			}

			fail(i, "no such item in the response; it has %v", names)
		}

		wt := wants[i]

		switch {
		case wt.number:
			if it.tok.Kind != imapc.Atom || string(it.val) != strconv.Itoa(wt.n) {
				fail(i, "got %s, want %d", it.tok, wt.n)
			}
		case it.tok.Kind != imapc.Literal && it.tok.Kind != imapc.Quoted:
			fail(i, "the value is %s, not a string", it.tok)
		case wt.hf && !s.partial:
			if err := checkHeaderSubset(it.val, wt); err != nil {
				fail(i, "%v\n  got %q", err, it.val)
			}
		case wt.hf:
			// partial of a header subset: judged against the unsliced subset of the same response
			fullIt := find(s.full().key(), false)
			if fullIt == nil {
				panic("a partial header subset is always requested together with the unsliced one")
			}

			if exp := slicePartial(fullIt.val, s.off, s.cnt); !bytes.Equal(it.val, exp) {
				fail(i, "not the slice [%d:+%d] of the unsliced item of the same response: %s", s.off, s.cnt, diff(it.val, exp))
			}
		default:
			if !bytes.Equal(it.val, wt.exact) {
				fail(i, "%s", diff(it.val, wt.exact))
			}
		}
	}

	for _, it := range items {
		if !it.used {
			t.Fatalf("C13 violated: %s: the response carries %s (%d bytes), which was not requested\n%s", cmd, it.key, len(it.val), m.describe())
		}
	}
}

// describe prints the message: how it got there, its structure, and its bytes when they are small.
func (m *msg) describe() string {
	var sb strings.Builder

	if p := os.Getenv("C13_DUMP"); p != "" {
		_ = os.WriteFile(p, m.A, 0o644)
	}

	fmt.Fprintf(&sb, "message: via=%s eol=%q appended=%d bytes levels=%d uid=%d seq=%d id=%q\n", m.via, m.eol(), len(m.A), m.tree.Levels, m.uid, m.seq, m.idLine)

	var rec func(n *gmime.Node, indent string)

	rec = func(n *gmime.Node, indent string) {
		fmt.Fprintf(&sb, "%s%s %s/%s path=%q unclosed=%v header=%d body=%d fields=%d msg=%v\n", indent, n.Kind, n.Type, n.Subtype, gmime.PathString(n.Path), n.NoClose,
			n.BodyStart-n.Start, n.End-n.BodyStart, len(n.Fields), n.IsMessage)

		for _, c := range n.Children {
			rec(c, indent+"  ")
		}

		if n.Embedded != nil {
			rec(n.Embedded, indent+"  ")
		}
	}

	rec(m.tree.Root, "  ")

	if len(m.A) <= 6000 {
		fmt.Fprintf(&sb, "appended bytes: %q\n", m.A)
	} else {
		fmt.Fprintf(&sb, "appended bytes (first 1500): %q\n", m.A[:1500])
	}

	return sb.String()
}
