package c09

import (
	"testing"

	"verif/internal/ev"
)

func TestMain(m *testing.M) {
	ev.Main(m, "C09", "exploration",
		"non-trivial = some payload of the case is larger than one 64 KiB LZ4 block (every payload that spans two cipher "+
			"blocks is), or the corruption changes bytes of the payload area (behind header and nonce), or the concurrent "+
			"case has >= 2 writers of the same id",
		"payloads are built from (size class, seed, compressibility) by a fixed xorshift expander",
		"old-format (fallback_v0) files are judged only when read with the fallback configuration they were written with",
		"concurrency: only the interleavings the Go scheduler produces are seen")
}
