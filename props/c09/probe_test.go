package c09

import (
	"bytes"
	"errors"
	"fmt"
	"io"
	"io/fs"
	"runtime"
	"sync"
	"sync/atomic"
	"testing"
	"time"
)

type slowR struct {
	b []byte
}

func (s *slowR) Read(p []byte) (int, error) {
	if len(s.b) == 0 {
		return 0, io.EOF
	}
	n := 1024
	if n > len(s.b) {
		n = len(s.b)
	}
	if n > len(p) {
		n = len(p)
	}
	copy(p, s.b[:n])
	s.b = s.b[n:]
	for i := 0; i < 20; i++ {
		runtime.Gosched()
	}
	return n, nil
}

func TestProbe(t *testing.T) {
	for _, cfg := range [][2]int{{1, 2}, {2, 4}, {2, 8}} {
		total := 0
		var firstMsg any
		t0 := time.Now()
		iters := 0
		for time.Since(t0) < 4*time.Second {
			iters++
			dir := t.TempDir()
			st, _ := openStore(dir, []byte("pass"), storeCfg{})
			id := mkID(1)
			vals := [][]byte{bytes.Repeat([]byte("a"), 40960), bytes.Repeat([]byte("b"), 40970)}
			var bad atomic.Int64
			var first atomic.Value
			var wg sync.WaitGroup
			var done atomic.Bool
			for w := 0; w < cfg[0]; w++ {
				w := w
				wg.Add(1)
				go func() {
					defer wg.Done()
					for i := 0; i < 3; i++ {
						st.Set(id, &slowR{b: vals[w]})
						st.Delete(id)
					}
					done.Store(true)
				}()
			}
			for r := 0; r < cfg[1]; r++ {
				wg.Add(1)
				go func() {
					defer wg.Done()
					for !done.Load() {
						b, err := st.Get(id)
						if err != nil {
							if !errors.Is(err, fs.ErrNotExist) {
								if bad.Add(1) == 1 {
									first.Store(fmt.Sprintf("err=%v", err))
								}
							}
							continue
						}
						if !bytes.Equal(b, vals[0]) && !bytes.Equal(b, vals[1]) {
							if bad.Add(1) == 1 {
								first.Store(fmt.Sprintf("bytes len=%d", len(b)))
							}
						}
					}
				}()
			}
			wg.Wait()
			total += int(bad.Load())
			if firstMsg == nil && first.Load() != nil {
				firstMsg = fmt.Sprintf("iter %d: %v", iters, first.Load())
			}
		}
		fmt.Println("writers", cfg[0], "readers", cfg[1], "iters", iters, "bad", total, firstMsg)
	}
}
