package c09

// Deterministic regressions of the genuine defects found by this check (minimal inputs). While a defect reproduces and
// is listed in known_findings.json the KNOWN-FINDING line is printed and the test passes; if it reproduces and is not
// listed the test fails; once it is fixed the test passes silently.

import (
	"bytes"
	"errors"
	"fmt"
	"io/fs"
	"os"
	"path/filepath"
	"sync"
	"sync/atomic"
	"testing"

	"verif/internal/ev"
	"verif/internal/kf"
)

func knownOutcome(t *testing.T, id string, reproduced bool, detail string) {
	t.Helper()

	if !reproduced {
		return
	}

	if kf.Listed(id) && kf.Report(id) {
		t.Logf("%s still reproduces: %s", id, detail)
		return
	}

	t.Fatalf("%s: %s", id, detail)
}

// A version-1 file cut off right behind header and nonce (27 bytes) reads as the empty message without an error.
func TestKnown_C09_TRUNC27(t *testing.T) {
	dir := t.TempDir()
	id := mkID(1)

	st, err := openStore(dir, []byte("pass"), storeCfg{})
	if err != nil {
		t.Fatal(err)
	}

	if err := st.Set(id, bytes.NewReader([]byte("x"))); err != nil {
		t.Fatal(err)
	}

	if err := os.Truncate(filepath.Join(dir, id.String()), payloadOff); err != nil {
		t.Fatal(err)
	}

	got, gerr, p := safeGet(st, id)
	if p != "" {
		t.Fatalf("panic: %s", p)
	}

	knownOutcome(t, kfTrunc27, gerr == nil && !bytes.Equal(got, []byte("x")),
		"Set(id, \"x\"), file truncated from 59 to 27 bytes (header+nonce): Get returns "+describe(got)+" and a nil error")
}

// With a fallback reader configured, a file shorter than the GCM nonce (1..11 bytes) makes Get panic.
func TestKnown_C09_FALLBACK_SHORT(t *testing.T) {
	dir := t.TempDir()
	id := mkID(1)

	st, err := openStore(dir, []byte("pass"), storeCfg{}, fallbackOpts("v0")...)
	if err != nil {
		t.Fatal(err)
	}

	if err := st.Set(id, bytes.NewReader([]byte("x"))); err != nil {
		t.Fatal(err)
	}

	if err := os.Truncate(filepath.Join(dir, id.String()), 5); err != nil {
		t.Fatal(err)
	}

	got, gerr, p := safeGet(st, id)
	if p == "" && gerr == nil && !bytes.Equal(got, []byte("x")) {
		t.Fatalf("other bytes: %s", describe(got))
	}

	knownOutcome(t, kfFallbackShort, p != "",
		"store.WithFallback(fallback_v0.NewOnDiskStoreV0()), file truncated to 5 bytes: Get panics: "+firstLine(p))
}

// The file of one id, copied over the file of another id of the same store, is served as that other id's message.
func TestKnown_C09_REPLACE_ID(t *testing.T) {
	dir := t.TempDir()
	a, b := mkID(1), mkID(2)

	st, err := openStore(dir, []byte("pass"), storeCfg{})
	if err != nil {
		t.Fatal(err)
	}

	if err := st.Set(a, bytes.NewReader([]byte("message A"))); err != nil {
		t.Fatal(err)
	}

	if err := st.Set(b, bytes.NewReader([]byte("message B"))); err != nil {
		t.Fatal(err)
	}

	fb, err := os.ReadFile(filepath.Join(dir, b.String()))
	if err != nil {
		t.Fatal(err)
	}

	if err := os.WriteFile(filepath.Join(dir, a.String()), fb, 0o600); err != nil {
		t.Fatal(err)
	}

	got, gerr, p := safeGet(st, a)
	if p != "" {
		t.Fatalf("panic: %s", p)
	}

	knownOutcome(t, kfReplaceID, gerr == nil && !bytes.Equal(got, []byte("message A")),
		"file of id B copied over the file of id A: Get(A) returns "+describe(got)+" and a nil error")
}

// Cipher blocks of one file are sealed with the same nonce and without position, and the LZ4 frame has neither
// checksum nor a required end mark: on a payload whose LZ4 block boundaries coincide with cipher block boundaries a
// truncation at a cipher block boundary returns a prefix, and swapped cipher blocks return permuted content.
func TestKnown_C09_BLOCKSEQ(t *testing.T) {
	// (a) truncation. payload: 3 incompressible 64 KiB blocks + 2 partly compressible ones whose compressed stream ends
	// exactly at 262144, + 1 byte.
	full, ok := buildAligned(1, 0, 0)
	if !ok {
		t.Log("aligned payload could not be constructed on this tree")
	}

	payload := full[:5*lz4Block+1]

	dir := t.TempDir()
	id := mkID(1)
	path := filepath.Join(dir, id.String())

	st, err := openStore(dir, []byte("pass"), storeCfg{})
	if err != nil {
		t.Fatal(err)
	}

	if err := st.Set(id, bytes.NewReader(payload)); err != nil {
		t.Fatal(err)
	}

	if err := os.Truncate(path, payloadOff+cipherBlock); err != nil {
		t.Fatal(err)
	}

	got, gerr, p := safeGet(st, id)
	if p != "" {
		t.Fatalf("panic: %s", p)
	}

	truncRepro := gerr == nil && !bytes.Equal(got, payload)
	truncDetail := "payload of 327681 bytes (aligned k=1 seed=0, first 5 blocks + 1 byte), file truncated at 27+262160: Get returns " +
		describe(got) + " and a nil error"

	// (b) swap of cipher blocks 1 and 2 of an aligned payload with three full cipher blocks
	payload3, ok := buildAligned(3, 0, 0)
	swapRepro, swapDetail := false, ""

	if ok {
		if err := st.Set(id, bytes.NewReader(payload3)); err != nil {
			t.Fatal(err)
		}

		f, err := os.ReadFile(path)
		if err != nil {
			t.Fatal(err)
		}

		b1 := append([]byte(nil), f[payloadOff+cipherBlock:payloadOff+2*cipherBlock]...)
		copy(f[payloadOff+cipherBlock:], f[payloadOff+2*cipherBlock:payloadOff+3*cipherBlock])
		copy(f[payloadOff+2*cipherBlock:], b1)

		if err := os.WriteFile(path, f, 0o600); err != nil {
			t.Fatal(err)
		}

		got, gerr, p := safeGet(st, id)
		if p != "" {
			t.Fatalf("panic: %s", p)
		}

		swapRepro = gerr == nil && !bytes.Equal(got, payload3)
		swapDetail = "; payload aligned k=3 seed=0 (1051576 bytes), cipher blocks 1 and 2 swapped: Get returns " + describe(got) +
			" and a nil error (stored " + describe(payload3) + ")"
	}

	// (c) no special payload needed when a middle block is removed: 524272 incompressible bytes give cipher blocks of
	// 262144, 262144 and 27 stream bytes; without the middle one the 27 bytes (23 data bytes + end mark) complete the LZ4
	// block that was open at the end of the first cipher block.
	sp := spec{Class: "cb2", Size: 2*cipherPlain - 16, Seed: 0, Comp: compRand}
	payloadC := expand(sp)

	if err := st.Set(id, bytes.NewReader(payloadC)); err != nil {
		t.Fatal(err)
	}

	f, err := os.ReadFile(path)
	if err != nil {
		t.Fatal(err)
	}

	f = append(f[:payloadOff+cipherBlock], f[payloadOff+2*cipherBlock:]...)
	if err := os.WriteFile(path, f, 0o600); err != nil {
		t.Fatal(err)
	}

	got, gerr, p = safeGet(st, id)
	if p != "" {
		t.Fatalf("panic: %s", p)
	}

	dropRepro := gerr == nil && !bytes.Equal(got, payloadC)
	dropDetail := "payload " + sp.String() + ", file bytes [27+262160, 27+524320) (the second of three cipher blocks) removed: Get returns " +
		describe(got) + " and a nil error; "

	knownOutcome(t, kfBlockSeq, dropRepro || truncRepro || swapRepro, dropDetail+truncDetail+swapDetail)
}

func firstLine(s string) string {
	for i := 0; i < len(s); i++ {
		if s[i] == '\n' {
			return s[:i]
		}
	}

	return s
}

// WriteControlledStore.releaseSyncRef decrements the reference count of an id's lock entry outside the table lock and
// re-checks it afterwards: a release that was overtaken by a complete acquire/release of another goroutine removes a
// lock entry that a third goroutine has just installed and is holding. From then on the same id is guarded by two
// different RWMutexes and a reader runs next to a writer. This is a scheduling race: the regression is a bounded stress
// loop (2 writers that Set through a yielding reader and Delete again, 6 readers; stops at the first incomplete read).
func TestKnown_C09_WCS_REFRACE(t *testing.T) {
	vals := [][]byte{bytes.Repeat([]byte("a"), 40960), bytes.Repeat([]byte("b"), 40970)}
	detail := ""

	for iter := 0; iter < ev.Pick(250, 150) && detail == ""; iter++ {
		dir, err := os.MkdirTemp("", "c09-wcs-")
		if err != nil {
			t.Fatal(err)
		}

		st, err := openStore(dir, []byte("pass"), storeCfg{})
		if err != nil {
			t.Fatal(err)
		}

		var (
			wg    sync.WaitGroup
			left  atomic.Int64
			mu    sync.Mutex
			id    = mkID(1)
			first string
		)

		left.Store(2)

		for w := 0; w < 2; w++ {
			w := w

			wg.Add(1)

			go func() {
				defer wg.Done()
				defer left.Add(-1)

				for i := 0; i < 3; i++ {
					if err := st.Set(id, &yieldReader{b: vals[w], chunk: 1024, yields: 20}); err != nil {
						mu.Lock()
						first = fmt.Sprintf("Set failed: %v", err)
						mu.Unlock()
					}

					_ = st.Delete(id)
				}
			}()
		}

		for r := 0; r < 6; r++ {
			wg.Add(1)

			go func() {
				defer wg.Done()

				for g := 0; g < 100000 && left.Load() > 0; g++ {
					b, err, p := safeGet(st, id)

					var msg string

					switch {
					case p != "":
						msg = "Get panicked: " + firstLine(p)
					case err != nil && !errors.Is(err, fs.ErrNotExist):
						msg = fmt.Sprintf("Get failed with %q (incomplete file seen)", err)
					case err == nil && !bytes.Equal(b, vals[0]) && !bytes.Equal(b, vals[1]):
						msg = "Get returned " + describe(b) + ", which is none of the values written"
					}

					if msg != "" {
						mu.Lock()
						if first == "" {
							first = msg
						}
						mu.Unlock()

						return
					}
				}
			}()
		}

		wg.Wait()
		_ = os.RemoveAll(dir)

		if first != "" {
			detail = fmt.Sprintf("round %d of the stress loop (2 writers Set 40 KiB values through a yielding reader and Delete, 6 "+
				"readers, all through one WriteControlledStore): %s", iter, first)
		}
	}

	knownOutcome(t, kfWCSRace, detail != "", detail)
}
