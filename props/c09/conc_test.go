package c09

// (3) Concurrency: k goroutines Set complete values V1..Vk to one id through the write-controlled store while others Get
// and Delete that id, and further goroutines work on ids of their own. Every Get of the shared id returns one of the
// complete values or a "does not exist" error; the other ids always read back their own value.

import (
	"bytes"
	"errors"
	"fmt"
	"io"
	"io/fs"
	"os"
	"runtime"
	"sort"
	"strings"
	"sync"
	"sync/atomic"
	"testing"
	"time"

	"github.com/ProtonMail/gluon/imap"
	"pgregory.net/rapid"

	"verif/internal/ev"
	"verif/internal/kf"
)

const kfWCSRace = "C09-WCS-REFRACE"

// yieldReader hands the value to Set in chunks and yields the processor between them: Set takes an io.Reader, and a
// slow one (a network stream) keeps the file half-written for longer, so that a reader that is wrongly admitted next to
// a writer has a real chance to see the incomplete file. It does not change what a correct store may answer.
type yieldReader struct {
	b      []byte
	chunk  int
	yields int
}

func (y *yieldReader) Read(p []byte) (int, error) {
	if len(y.b) == 0 {
		return 0, io.EOF
	}

	n := y.chunk
	if n > len(y.b) {
		n = len(y.b)
	}

	if n > len(p) {
		n = len(p)
	}

	copy(p, y.b[:n])
	y.b = y.b[n:]

	for i := 0; i < y.yields; i++ {
		runtime.Gosched()
	}

	return n, nil
}

func TestConcurrency(t *testing.T) {
	// thorough: per shard (x16), built with -race
	ev.Checks(300, 250)

	rapid.Check(t, func(rt *rapid.T) {
		dir, err := os.MkdirTemp("", "c09-conc-")
		if err != nil {
			rt.Fatalf("mkdir: %v", err)
		}
		defer os.RemoveAll(dir)

		cfg := storeCfg{sem: rapid.SampledFrom([]int{0, 0, 2, 8}).Draw(rt, "sem")}

		st, err := openStore(dir, []byte("pass"), cfg)
		if err != nil {
			rt.Fatalf("open: %v", err)
		}

		writers := rapid.IntRange(1, 4).Draw(rt, "writers")
		readers := rapid.SampledFrom([]int{1, 2, 3, 4, 6, 8}).Draw(rt, "readers")
		deleter := rapid.Bool().Draw(rt, "deleter")
		cycle := rapid.Bool().Draw(rt, "cycle") // writers delete the id again after each Set but their last one
		preset := rapid.Bool().Draw(rt, "preset")
		others := rapid.IntRange(0, 3).Draw(rt, "others")
		rounds := rapid.IntRange(1, 4).Draw(rt, "rounds")
		gets := rapid.IntRange(3, 16).Draw(rt, "gets")
		spin := rapid.Bool().Draw(rt, "spin") // readers keep reading until the writers are done (at most 3000 Gets each)
		chunk := rapid.SampledFrom([]int{512, 1024, 4096, 65536, 1 << 20}).Draw(rt, "chunk")
		yields := rapid.SampledFrom([]int{0, 1, 5, 20}).Draw(rt, "yields")

		// C09-WCS-REFRACE (listed): the per-id lock entry of WriteControlledStore can be dropped while in use as soon
		// as two goroutines use one id. The steer-away is to take turns on the shared id (harness mutex); what is left
		// of the case is the concurrency between different ids.
		serialized := kf.Listed(kfWCSRace)
		if serialized {
			ev.Excluded(1)
		}

		var turn sync.Mutex

		onShared := func(f func()) {
			if serialized {
				turn.Lock()
				defer turn.Unlock()
			}

			f()
		}

		sizes := []int{17, 4096, 65537, cipherPlain - 27, 300000, 600000, 2*cipherPlain + 5}

		mkVal := func(label string, n int) (spec, []byte) {
			sp := spec{
				Class: "conc",
				Size:  rapid.SampledFrom(sizes).Draw(rt, label+".size") + n, // +n: all values differ in length
				Seed:  rapid.Uint64Range(0, 1<<20).Draw(rt, label+".seed"),
				Comp:  rapid.SampledFrom([]int{compText, compRand}).Draw(rt, label+".comp"),
			}

			return sp, expand(sp)
		}

		var (
			vspecs []spec
			vals   [][]byte
			ospecs []spec
			ovals  [][]byte
			big    bool
		)

		for i := 0; i < writers; i++ {
			sp, v := mkVal(fmt.Sprintf("V%d", i+1), i)
			vspecs, vals = append(vspecs, sp), append(vals, v)
			big = big || crossesBlock(len(v))
		}

		for j := 0; j < others; j++ {
			sp, v := mkVal(fmt.Sprintf("W%d", j+1), 100+j)
			ospecs, ovals = append(ospecs, sp), append(ovals, v)
		}

		shared := mkID(1)
		otherID := func(j int) imap.InternalMessageID { return mkID(10 + j) }

		desc := fmt.Sprintf("writers=%d (values %v, handed over in chunks of %d with %d yields) rounds=%d readers=%d gets=%d spin=%v "+
			"deleter=%v cycle=%v preset=%v others=%d (values %v) sem=%d serialized=%v",
			writers, vspecs, chunk, yields, rounds, readers, gets, spin, deleter, cycle, preset, others, ospecs, cfg.sem, serialized)

		ev.Case(writers >= 2 || big, ev.Hash(desc),
			"test:conc", fmt.Sprintf("conc:writers=%d", writers), fmt.Sprintf("conc:deleter=%v", deleter),
			fmt.Sprintf("conc:preset=%v", preset), fmt.Sprintf("conc:others=%d", others), fmt.Sprintf("conc:spin=%v", spin), fmt.Sprintf("conc:cycle=%v", cycle),
			fmt.Sprintf("conc:readers=%d", readers),
			fmt.Sprintf("conc:serialized=%v", serialized))

		if ev.WantSample() {
			ev.Sample(map[string]any{"test": "conc", "case": desc})
		} else {
			ev.Sample(nil) // not kept; advances the recorder's thinning counter
		}

		if preset {
			if err := st.Set(shared, bytes.NewReader(vals[0])); err != nil {
				rt.Fatalf("preset Set: %v\n%s", err, desc)
			}
		}

		var (
			mu          sync.Mutex
			findings    []string
			wg          sync.WaitGroup
			start       = make(chan struct{})
			writersLeft atomic.Int64
		)

		writersLeft.Store(int64(writers))

		report := func(f string, a ...any) {
			mu.Lock()
			findings = append(findings, fmt.Sprintf(f, a...))
			mu.Unlock()
		}

		isOneOf := func(b []byte) int {
			for i, v := range vals {
				if bytes.Equal(b, v) {
					return i
				}
			}

			return -1
		}

		// a Get error on the shared id is acceptable only as "does not exist", and only if the id can be absent
		mayBeAbsent := deleter || cycle || !preset

		checkShared := func(who string, b []byte, err error, p string) {
			switch {
			case p != "":
				report("%s: Get(shared) panicked: %s", who, p)
			case err != nil:
				if !errors.Is(err, fs.ErrNotExist) {
					report("%s: Get(shared) failed with %v: the file was visible in an incomplete state", who, err)
				} else if !mayBeAbsent {
					report("%s: Get(shared) = %v although the id was stored before and nobody deletes it", who, err)
				}
			case isOneOf(b) < 0:
				report("%s: Get(shared) returned bytes that are none of V1..V%d: %s", who, writers, describe(b))
			}
		}

		run := func(f func()) {
			wg.Add(1)

			go func() {
				defer wg.Done()
				<-start

				if p := guarded(f); p != "" {
					report("goroutine panicked: %s", p)
				}
			}()
		}

		for i := 0; i < writers; i++ {
			i := i

			run(func() {
				defer writersLeft.Add(-1)

				for r := 0; r < rounds; r++ {
					onShared(func() {
						if err := st.Set(shared, &yieldReader{b: vals[i], chunk: chunk, yields: yields}); err != nil {
							report("writer %d: Set(shared, V%d) failed: %v", i+1, i+1, err)
						}
					})

					if cycle && r < rounds-1 {
						onShared(func() {
							if err := st.Delete(shared); err != nil && !errors.Is(err, fs.ErrNotExist) {
								report("writer %d: Delete(shared) failed: %v", i+1, err)
							}
						})
					}
				}
			})
		}

		for i := 0; i < readers; i++ {
			i := i

			run(func() {
				for g := 0; g < gets || (spin && g < 3000 && writersLeft.Load() > 0); g++ {
					onShared(func() {
						b, err, p := safeGet(st, shared)
						checkShared(fmt.Sprintf("reader %d get %d", i+1, g), b, err, p)
					})
				}
			})
		}

		if deleter {
			run(func() {
				for r := 0; r < rounds+1 || (spin && r < 3000 && writersLeft.Load() > 0); r++ {
					onShared(func() {
						if err := st.Delete(shared); err != nil && !errors.Is(err, fs.ErrNotExist) {
							report("deleter: Delete(shared) failed: %v", err)
						}
					})

					runtime.Gosched()
				}
			})
		}

		for j := 0; j < others; j++ {
			j := j

			run(func() {
				id := otherID(j)

				for r := 0; r < rounds; r++ {
					if err := st.Set(id, bytes.NewReader(ovals[j])); err != nil {
						report("other %d: Set failed: %v", j+1, err)
					}

					for g := 0; g < 2; g++ {
						b, err, p := safeGet(st, id)
						if p != "" || err != nil || !bytes.Equal(b, ovals[j]) {
							report("other %d: Get of its own id (nobody else touches it) = %s, err=%v %s; want %s", j+1,
								describe(b), err, p, describe(ovals[j]))
						}
					}
				}
			})
		}

		close(start)

		done := make(chan struct{})
		go func() { wg.Wait(); close(done) }()

		select {
		case <-done:
		case <-time.After(180 * time.Second):
			rt.Fatalf("VERIF-INCONCLUSIVE: concurrent case did not finish within 180 s (time budget, not a verdict)\n%s", desc)
		}

		// ---- quiescent end state
		b, gerr, p := safeGet(st, shared)
		checkShared("final", b, gerr, p)

		if gerr != nil && !deleter {
			report("final: Get(shared) = %v although every writer's last operation was a Set and nobody else deletes", gerr)
		}

		want := []string{}
		if gerr == nil {
			want = append(want, shared.String())
		}

		for j := 0; j < others; j++ {
			want = append(want, otherID(j).String())

			b, err, p := safeGet(st, otherID(j))
			if p != "" || err != nil || !bytes.Equal(b, ovals[j]) {
				report("final: other %d reads %s err=%v %s, want %s", j+1, describe(b), err, p, describe(ovals[j]))
			}
		}

		ids, err := st.List()
		if err != nil {
			report("final: List failed: %v", err)
		}

		got := make([]string, len(ids))
		for i, id := range ids {
			got[i] = id.String()
		}

		sort.Strings(got)
		sort.Strings(want)

		if strings.Join(got, ",") != strings.Join(want, ",") {
			report("final: List = %v, want exactly %v", got, want)
		}

		if len(findings) > 0 {
			if len(findings) > 12 {
				findings = append(findings[:12], fmt.Sprintf("... and %d more", len(findings)-12))
			}

			rt.Fatalf("concurrent case violated the property:\n  %s\ncase: %s", strings.Join(findings, "\n  "), desc)
		}
	})
}
