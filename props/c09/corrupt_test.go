package c09

// (2) Corruption: store a payload, change its file (or the passphrase), read it back through a freshly opened store,
// with the fallback reader unset and set. Oracle: an error, or exactly the original bytes; never other bytes, never a
// panic. A mutation that leaves the file as it was must return the original bytes.

import (
	"bytes"
	"fmt"
	"os"
	"path/filepath"
	"strings"
	"testing"

	"github.com/ProtonMail/gluon/store"
	"github.com/ProtonMail/gluon/store/fallback_v0"
	"pgregory.net/rapid"

	"verif/internal/ev"
	"verif/internal/kf"
)

// ids of the findings of this property (see known_test.go)
const (
	kfTrunc27       = "C09-TRUNC27"
	kfBlockSeq      = "C09-BLOCKSEQ"
	kfFallbackShort = "C09-FALLBACK-SHORT"
	kfReplaceID     = "C09-REPLACE-ID"
)

var fallbackNames = []string{"none", "v0", "v0+gzip", "v0+zlib"}

func mkFallback(name string) store.Fallback {
	switch name {
	case "v0":
		return fallback_v0.NewOnDiskStoreV0()
	case "v0+gzip":
		return fallback_v0.NewOnDiskStoreV0WithCompressor(fallback_v0.GZipCompressor{})
	case "v0+zlib":
		return fallback_v0.NewOnDiskStoreV0WithCompressor(fallback_v0.ZLibCompressor{})
	}

	return nil
}

func fallbackOpts(name string) []store.Option {
	if f := mkFallback(name); f != nil {
		return []store.Option{store.WithFallback(f)}
	}

	return nil
}

// layout of a file as the reader will cut it up
type layout struct {
	format  string // "v1" | "v0"
	size    int
	payload int // offset of the first payload byte (after header and nonce)
}

func (l layout) nblocks() int {
	if l.format != "v1" || l.size <= l.payload {
		return 0
	}

	return (l.size - l.payload + cipherBlock - 1) / cipherBlock
}

func (l layout) blockRange(i int) (int, int) {
	lo := l.payload + i*cipherBlock
	hi := lo + cipherBlock

	if hi > l.size {
		hi = l.size
	}

	return lo, hi
}

// anchors: offsets where the reader's behaviour changes, by region: header and nonce, start of the payload, cipher
// block boundaries (and the tags in front of them), end of the file.
func (l layout) anchors(region int) []int {
	var a []int

	switch {
	case l.format == "v1" && region == 0:
		a = append(a, 0, 1, 10, 11, 12, 14, hdrLen, hdrLen+1, payloadOff-1)
	case l.format == "v1" && region == 1:
		a = append(a, payloadOff, payloadOff, payloadOff+1, payloadOff+lz4FrameHdr, payloadOff+lz4FrameHdr+4, payloadOff+gcmTag,
			payloadOff+gcmTag+1)
	case l.format == "v1" && region == 2:
		for m := 1; m <= l.nblocks(); m++ {
			b := l.payload + m*cipherBlock
			a = append(a, b-gcmTag-1, b-gcmTag, b-1, b, b, b, b+1, b+gcmTag, b+gcmTag+1)
		}
	case region == 0:
		a = append(a, 0, 1, 5, 11)
	case region == 1:
		a = append(a, nonceLen, nonceLen+1, nonceLen+gcmTag-1, nonceLen+gcmTag, nonceLen+gcmTag+1)
	}

	if region == 3 {
		a = append(a, l.size-gcmTag-1, l.size-gcmTag, l.size-2, l.size-1, l.size)
	}

	out := a[:0]

	for _, o := range a {
		if o >= 0 && o <= l.size {
			out = append(out, o)
		}
	}

	return out
}

func drawOffset(t *rapid.T, l layout, label string) int {
	region := rapid.SampledFrom([]int{-1, 0, 1, 2, 2, 3}).Draw(t, label+".region")
	if region < 0 {
		return rapid.IntRange(0, l.size).Draw(t, label+".off")
	}

	a := l.anchors(region)
	if len(a) == 0 {
		return rapid.IntRange(0, l.size).Draw(t, label+".off")
	}

	return a[rapid.IntRange(0, len(a)-1).Draw(t, label+".anchor")]
}

type mutation struct {
	kind        string
	desc        string
	hitsPayload bool
	wrongPass   bool
}

var corruptKinds = []string{
	"truncate", "truncate", "truncate", "flip", "flip", "overwrite", "append", "swap", "swap", "dropblock", "dupblock",
	"replace", "wrongpass", "identity",
}

func TestCorruption(t *testing.T) {
	// thorough: per shard (x16), built with -race
	ev.Checks(5000, 2500)
	resetBigBudget()

	rapid.Check(t, func(rt *rapid.T) {
		dir, err := os.MkdirTemp("", "c09-corrupt-")
		if err != nil {
			rt.Fatalf("mkdir: %v", err)
		}
		defer os.RemoveAll(dir)

		// short passphrases, and long ones (the related wrong passphrases below then share their first 32 / 64 bytes)
		pass := []byte(rapid.SampledFrom([]string{"pass-A", "pass-A", "a-passphrase-that-is-longer-than-thirty-two-bytes-A",
			strings.Repeat("k", 31) + "A", strings.Repeat("k", 32), strings.Repeat("long-", 30) + "A"}).Draw(rt, "pass"))
		format := rapid.SampledFrom([]string{"v1", "v1", "v1", "v1", "v0"}).Draw(rt, "format")
		// more weight than in the state machine on files of several cipher blocks
		sp := genSpecW(rt, "content", format == "v1", []int{0, 1, 2, 3, 4, 4, 5, 5, 6, 6, 6, 7, 7, 7, 8, 9, 9, 9},
			[]int{compZeros, compText, compRand, compRand, compRand})

		var fb, writerFb string
		if format == "v0" {
			// a file in the old format, written by the fallback's own writer; read with the same fallback or with none
			writerFb = rapid.SampledFrom(fallbackNames[1:]).Draw(rt, "writerFallback")
			fb = rapid.SampledFrom([]string{writerFb, writerFb, "none"}).Draw(rt, "fallback")

		} else {
			fb = rapid.SampledFrom(fallbackNames).Draw(rt, "fallback")
		}

		orig := expand(sp)
		id := mkID(1)
		path := filepath.Join(dir, id.String())

		var (
			mut    mutation
			labels = append(specLabels(sp), "test:corrupt", "fmt:"+format, "fallback:"+fb)
		)

		kind := rapid.SampledFrom(corruptKinds).Draw(rt, "kind")

		fail := func(f string, a ...any) {
			rt.Fatalf("%s\ncase: payload %v, file format %s (writer fallback %q), reader fallback %q, mutation %s: %s",
				fmt.Sprintf(f, a...), sp, format, writerFb, fb, mut.kind, mut.desc)
		}

		// ---- write
		if format == "v1" {
			st, err := openStore(dir, pass, storeCfg{})
			if err != nil {
				rt.Fatalf("open: %v", err)
			}

			if err, p := safeSet(st, id, bytes.NewReader(orig)); err != nil || p != "" {
				fail("Set failed: %v %s", err, p)
			}
		} else {
			gcm, err := store.NewCipher(pass)
			if err != nil {
				rt.Fatalf("cipher: %v", err)
			}

			if err := mkFallback(writerFb).Write(gcm, path, orig); err != nil {
				fail("fallback Write failed: %v", err)
			}
		}

		before, err := os.ReadFile(path)
		if err != nil {
			fail("the store did not write %s: %v", path, err)
		}

		lay := layout{format: format, size: len(before), payload: payloadOff}
		if format == "v0" {
			lay.payload = nonceLen
		}

		// region of the listed finding C09-BLOCKSEQ: edits in units of whole cipher blocks on a file of >= 2 cipher blocks
		// (any payload: which splices happen to parse depends only on the LZ4 framing at the cut), and truncation at a
		// cipher block boundary unless the payload is incompressible (raw LZ4 blocks start at stream offset 7+65540*i,
		// which is odd, so no block starts at or 4 bytes before a multiple of 262144 and the cut ends inside a block).
		multiBlock := format == "v1" && lay.nblocks() >= 2

		// ---- mutate
		after := append([]byte(nil), before...)
		mut.kind = kind

		// block-granular edits need at least two cipher blocks; on smaller files they become edits of 16 byte units
		blockEdit := func() (int, int, bool) {
			n := lay.nblocks()
			if n < 2 {
				return 0, 0, false
			}

			i := rapid.IntRange(0, n-1).Draw(rt, "blk.i")
			j := rapid.IntRange(0, n-2).Draw(rt, "blk.j")

			if j >= i {
				j++
			}

			return i, j, true
		}

		if (kind == "swap" || kind == "dropblock" || kind == "dupblock") && multiBlock && kf.Listed(kfBlockSeq) {
			ev.Excluded(1)

			kind, mut.kind = "flip", "flip"
		}

		switch kind {
		case "truncate":
			off := drawOffset(rt, lay, "trunc")

			if format == "v1" && off == payloadOff && len(orig) > 0 && len(before) > payloadOff && kf.Listed(kfTrunc27) {
				ev.Excluded(1)

				off += rapid.SampledFrom([]int{-1, 1}).Draw(rt, "steer27")
			}

			if multiBlock && sp.Comp != compRand && off > lay.payload && off < lay.size && (off-lay.payload)%cipherBlock == 0 &&
				kf.Listed(kfBlockSeq) {
				ev.Excluded(1)

				off--
			}

			if fb != "none" && off >= 1 && off < nonceLen && kf.Listed(kfFallbackShort) {
				ev.Excluded(1)

				off += nonceLen
				if off > lay.size {
					off = lay.size
				}
			}

			after = after[:off]
			mut.desc = fmt.Sprintf("truncate %d -> %d bytes", len(before), off)
			mut.hitsPayload = off >= lay.payload && off < lay.size

			switch {
			case off < lay.payload:
				labels = append(labels, "trunc:header/nonce")
			case off == lay.payload:
				labels = append(labels, "trunc:at-payload-start")
			case off == lay.size:
				labels = append(labels, "trunc:nothing")
			case format == "v1" && (off-lay.payload)%cipherBlock == 0:
				labels = append(labels, "trunc:block-boundary")
			case off >= lay.size-gcmTag:
				labels = append(labels, "trunc:last-tag")
			default:
				labels = append(labels, "trunc:inside-block")
			}
		case "flip", "overwrite":
			if lay.size == 0 {
				mut.desc = "empty file"
				break
			}

			off := drawOffset(rt, lay, kind)
			if off >= lay.size {
				off = lay.size - 1
			}

			n := rapid.SampledFrom([]int{1, 1, 2, 16, 64, 70000}).Draw(rt, kind+".len")
			if off+n > lay.size {
				n = lay.size - off
			}

			if kind == "flip" {
				mask := byte(rapid.IntRange(1, 255).Draw(rt, "mask"))
				for i := off; i < off+n; i++ {
					after[i] ^= mask
				}

				mut.desc = fmt.Sprintf("xor [%d,%d) with %#02x (file %d bytes)", off, off+n, mask, lay.size)
			} else {
				v := byte(rapid.SampledFrom([]int{0, 0xff, 'G', int(before[off])}).Draw(rt, "value"))
				for i := off; i < off+n; i++ {
					after[i] = v
				}

				mut.desc = fmt.Sprintf("set [%d,%d) to %#02x (file %d bytes)", off, off+n, v, lay.size)
			}

			mut.hitsPayload = off+n > lay.payload
			if off < lay.payload {
				labels = append(labels, kind+":header/nonce")
			} else {
				labels = append(labels, kind+":payload")
			}
		case "append":
			var extra []byte

			switch rapid.IntRange(0, 3).Draw(rt, "append.what") {
			case 0:
				extra = make([]byte, rapid.SampledFrom([]int{1, 4, 15, 16, 17, 64}).Draw(rt, "append.n"))
			case 1:
				extra = make([]byte, rapid.SampledFrom([]int{1, 16, 17, 4096}).Draw(rt, "append.n"))
				fillRand(extra, sp.Seed+99)
			case 2: // the file's own last cipher block once more (authenticates under the file's nonce)
				if n := lay.nblocks(); n > 0 {
					lo, hi := lay.blockRange(n - 1)
					extra = append(extra, before[lo:hi]...)
				} else {
					extra = []byte{0}
				}
			default: // a second copy of the whole file
				extra = append(extra, before...)
				if len(extra) == 0 {
					extra = []byte{0}
				}
			}

			after = append(after, extra...)
			mut.desc = fmt.Sprintf("append %d bytes to %d", len(extra), lay.size)
			mut.hitsPayload = true
		case "swap":
			if i, j, ok := blockEdit(); ok {
				ilo, ihi := lay.blockRange(i)
				jlo, jhi := lay.blockRange(j)

				if i > j {
					ilo, ihi, jlo, jhi = jlo, jhi, ilo, ihi
				}

				var nb []byte
				nb = append(nb, before[:ilo]...)
				nb = append(nb, before[jlo:jhi]...)
				nb = append(nb, before[ihi:jlo]...)
				nb = append(nb, before[ilo:ihi]...)
				nb = append(nb, before[jhi:]...)
				after = nb
				mut.desc = fmt.Sprintf("swap cipher blocks %d and %d of %d (file %d bytes)", i, j, lay.nblocks(), lay.size)
				labels = append(labels, "swap:cipher-blocks")
			} else if units := (lay.size - lay.payload) / 16; units >= 2 {
				i := rapid.IntRange(0, units-1).Draw(rt, "unit.i")
				j := rapid.IntRange(0, units-2).Draw(rt, "unit.j")

				if j >= i {
					j++
				}

				a, b := lay.payload+16*i, lay.payload+16*j
				copy(after[a:a+16], before[b:b+16])
				copy(after[b:b+16], before[a:a+16])
				mut.desc = fmt.Sprintf("swap 16-byte units at %d and %d (file %d bytes, one cipher block)", a, b, lay.size)
				labels = append(labels, "swap:aes-units")
			} else {
				mut.desc = "file too small to swap anything"
			}

			mut.hitsPayload = true
		case "dropblock":
			if i, _, ok := blockEdit(); ok {
				lo, hi := lay.blockRange(i)
				after = append(append([]byte(nil), before[:lo]...), before[hi:]...)
				mut.desc = fmt.Sprintf("remove cipher block %d of %d (file %d bytes)", i, lay.nblocks(), lay.size)
				labels = append(labels, "dropblock:cipher-block")
			} else if lay.size-lay.payload > 16 {
				off := lay.payload + rapid.IntRange(0, lay.size-lay.payload-16).Draw(rt, "drop.off")
				after = append(append([]byte(nil), before[:off]...), before[off+16:]...)
				mut.desc = fmt.Sprintf("remove 16 bytes at %d (file %d bytes)", off, lay.size)
				labels = append(labels, "dropblock:aes-unit")
			} else {
				mut.desc = "file too small to drop anything"
			}

			mut.hitsPayload = true
		case "dupblock":
			if i, j, ok := blockEdit(); ok {
				ilo, ihi := lay.blockRange(i)
				_, jhi := lay.blockRange(j)

				var nb []byte
				nb = append(nb, before[:jhi]...)
				nb = append(nb, before[ilo:ihi]...)
				nb = append(nb, before[jhi:]...)
				after = nb
				mut.desc = fmt.Sprintf("insert a copy of cipher block %d after block %d of %d (file %d bytes)", i, j,
					lay.nblocks(), lay.size)
				labels = append(labels, "dupblock:cipher-block")
			} else {
				off := lay.payload
				if off > lay.size {
					off = lay.size
				}

				after = append(append([]byte(nil), before[:off]...), before[off:]...)
				after = append(after, before[off:]...)
				mut.desc = fmt.Sprintf("append a second copy of the payload area (file %d bytes)", lay.size)
				labels = append(labels, "dupblock:payload")
			}

			mut.hitsPayload = true
		case "replace":
			// the file of another id. samePass: written by this very store (nothing in the file binds it to its id);
			// otherPass: written under another passphrase.
			samePass := rapid.Bool().Draw(rt, "replace.samePass")
			sp2 := genSpec(rt, "other", false)
			other := expand(sp2)

			if bytes.Equal(other, orig) {
				sp2.Size++
				sp2.Comp = compRand
				other = expand(sp2)
			}

			if samePass && kf.Listed(kfReplaceID) {
				ev.Excluded(1)

				samePass = false
			}

			p2 := pass
			if !samePass {
				p2 = []byte("pass-B")
			}

			dir2 := filepath.Join(dir, "other")

			st2, err := openStore(dir2, p2, storeCfg{})
			if err != nil {
				rt.Fatalf("open: %v", err)
			}

			id2 := mkID(2)
			if err, p := safeSet(st2, id2, bytes.NewReader(other)); err != nil || p != "" {
				fail("Set of the other id failed: %v %s", err, p)
			}

			after, err = os.ReadFile(filepath.Join(dir2, id2.String()))
			if err != nil {
				rt.Fatalf("read other: %v", err)
			}

			_ = os.RemoveAll(dir2)

			mut.desc = fmt.Sprintf("replace by the file of another id (payload %v, same passphrase %v)", sp2, samePass)
			mut.hitsPayload = true

			if samePass {
				labels = append(labels, "replace:same-pass")
			} else {
				labels = append(labels, "replace:other-pass")
			}
		case "wrongpass":
			mut.wrongPass = true
			mut.desc = "file untouched, store reopened with another passphrase"
		case "identity":
			switch rapid.IntRange(0, 2).Draw(rt, "identity.how") {
			case 0:
				mut.desc = "rewrite the file with the same bytes"
			case 1:
				mut.desc = "truncate at the full length"
				after = after[:len(before)]
			default:
				mut.desc = "overwrite a range with its own bytes"
				copy(after[len(after)/2:], before[len(before)/2:])
			}
		}

		labels = append(labels, "corrupt:"+mut.kind)

		unchanged := bytes.Equal(before, after) && !mut.wrongPass
		if unchanged {
			labels = append(labels, "file:unchanged")
		} else {
			labels = append(labels, "file:changed")
		}

		ev.Case(crossesBlock(len(orig)) || (mut.hitsPayload && !unchanged),
			ev.Hash(sp, format, writerFb, fb, mut.kind, mut.desc), labels...)

		if ev.WantSample() {
			ev.Sample(map[string]any{"test": "corrupt", "payload": sp, "format": format, "writerFallback": writerFb,
				"fallback": fb, "mutation": mut.kind, "detail": mut.desc})
		} else {
			ev.Sample(nil) // not kept; advances the recorder's thinning counter
		}

		if err := os.WriteFile(path, after, 0o600); err != nil {
			rt.Fatalf("write mutated file: %v", err)
		}

		// ---- read back through a new store object
		rpass := pass
		if mut.wrongPass {
			rpass = []byte("pass-C")

			// mostly a passphrase that is close to the right one: last byte changed, cut to 32 bytes, extended, one byte
			// cut off, first byte changed
			switch how := rapid.IntRange(0, 6).Draw(rt, "wrongpass.how"); {
			case how == 1:
				rpass = append(append([]byte(nil), pass[:len(pass)-1]...), pass[len(pass)-1]^1)
			case how == 2 && len(pass) > 32:
				rpass = append([]byte(nil), pass[:32]...)
			case how == 3:
				rpass = append(append([]byte(nil), pass...), "-and-more"...)
			case how == 4 && len(pass) > 1:
				rpass = append([]byte(nil), pass[:len(pass)-1]...)
			case how == 5:
				rpass = append([]byte{pass[0] ^ 1}, pass[1:]...)
			}

			labels = append(labels, fmt.Sprintf("wrongpass:%d-of-%d-bytes-shared", commonPrefix(pass, rpass), len(pass)))
		}

		st, err := openStore(dir, rpass, storeCfg{}, fallbackOpts(fb)...)
		if err != nil {
			rt.Fatalf("reopen: %v", err)
		}

		got, gerr, p := safeGet(st, id)

		readable := format == "v1" || fb == writerFb

		switch {
		case p != "":
			fail("Get panicked: %s", p)
		case gerr == nil && !bytes.Equal(got, orig):
			fail("Get returned other bytes without an error: got %s, stored %s, first difference at %d",
				describe(got), describe(orig), firstDiff(got, orig))
		case gerr == nil && mut.wrongPass && format == "v1" && !bytes.Equal(rpass, pass):
			fail("the store was reopened with another passphrase (%q instead of %q, %d bytes in common) and Get returned the content without an error",
				rpass, pass, commonPrefix(pass, rpass))
		case gerr != nil && unchanged && readable:
			fail("the file is unchanged but Get fails: %v", gerr)
		}

		if gerr != nil {
			ev.Class("outcome:error", 1)
		} else {
			ev.Class("outcome:original", 1)
		}
	})
}

func commonPrefix(a, b []byte) int {
	n := 0
	for n < len(a) && n < len(b) && a[n] == b[n] {
		n++
	}

	return n
}
