package c09

// Content generation: a payload is a pure function of a few rapid draws (size class, size inside the class, seed,
// compressibility), expanded by a fixed xorshift generator. No math/rand, no clock.

import (
	"bytes"
	"crypto/sha256"
	"encoding/hex"
	"fmt"
	"os"
	"path/filepath"
	"sync"
	"sync/atomic"

	"github.com/ProtonMail/gluon/imap"
	"github.com/ProtonMail/gluon/store"
	"pgregory.net/rapid"

	"verif/internal/ev"
)

// On-disk format of /repo/store/disk.go (version 1), as read from the code:
//
//	"GLUON-CACHE" + uint32le(1)      15 bytes header
//	nonce                            12 bytes (one per file)
//	cipher blocks                    AES-256-GCM(nonce, chunk of <= 262144 bytes of the LZ4 frame) + 16 byte tag each
//
// The LZ4 frame has a 7 byte header, 64 KiB blocks (4 byte size field + data, stored raw when incompressible, no block
// or content checksum) and a 4 byte end mark.
const (
	hdrLen      = 15
	nonceLen    = 12
	payloadOff  = hdrLen + nonceLen // 27: first cipher block starts here
	cipherPlain = 64 * 4096         // 262144 bytes of compressed stream per cipher block
	gcmTag      = 16
	cipherBlock = cipherPlain + gcmTag // 262160 bytes in the file
	lz4Block    = 64 * 1024
	lz4FrameHdr = 7
)

const (
	compZeros = iota
	compText
	compRand
	compMixed // only inside the "aligned" class
)

var compNames = [...]string{"zeros", "text", "rand", "mixed"}

// spec identifies a payload completely.
type spec struct {
	Class string `json:"class"`
	Size  int    `json:"size"`
	Seed  uint64 `json:"seed"`
	Comp  int    `json:"comp"`
	// aligned class only
	K     int `json:"k,omitempty"`     // number of full, boundary-aligned cipher blocks
	Shift int `json:"shift,omitempty"` // 0: an LZ4 block starts exactly at each cipher block boundary; 4: its size field ends there
}

func (s spec) String() string {
	if s.Class == "aligned" {
		return fmt.Sprintf("{class=aligned k=%d shift=%d seed=%d}", s.K, s.Shift, s.Seed)
	}

	return fmt.Sprintf("{class=%s size=%d seed=%d comp=%s}", s.Class, s.Size, s.Seed, compNames[s.Comp])
}

type xorshift struct{ x uint64 }

func newXorshift(seed uint64) *xorshift {
	x := seed*0x9E3779B97F4A7C15 + 0x2545F4914F6CDD1D
	if x == 0 {
		x = 88172645463325252
	}

	return &xorshift{x: x}
}

func (g *xorshift) next() uint64 {
	x := g.x
	x ^= x << 13
	x ^= x >> 7
	x ^= x << 17
	g.x = x

	return x * 0x2545F4914F6CDD1D
}

func fillRand(b []byte, seed uint64) {
	g := newXorshift(seed)

	i := 0
	for ; i+8 <= len(b); i += 8 {
		v := g.next()
		b[i], b[i+1], b[i+2], b[i+3] = byte(v), byte(v>>8), byte(v>>16), byte(v>>24)
		b[i+4], b[i+5], b[i+6], b[i+7] = byte(v>>32), byte(v>>40), byte(v>>48), byte(v>>56)
	}

	if i < len(b) {
		v := g.next()
		for ; i < len(b); i++ {
			b[i] = byte(v)
			v >>= 8
		}
	}
}

var words = []string{
	"the", "of", "and", "to", "in", "message", "store", "From:", "To:", "Subject:", "Date:", "Received:", "by", "with",
	"for", "id", "Content-Type:", "text/plain;", "charset=utf-8", "multipart/mixed;", "boundary=", "MIME-Version:", "1.0",
	"quoted-printable", "base64", "Content-Transfer-Encoding:", "hello", "world", "regards", "please", "find", "attached",
	"invoice", "meeting", "tomorrow", "=20", "=3D", "--", "a", "is", "that", "it", "was", "on", "as", "are", "this", "be",
	"<user@example.com>", "example.org", "Mon,", "Tue,", "2023", "12:00:00", "+0000", "(UTC)", "X-Mailer:", "gluon", "Re:",
	"Fwd:", "unsubscribe", "list", "thanks", "0123456789",
}

func fillText(b []byte, seed uint64) {
	g := newXorshift(seed)
	i, col := 0, 0

	for i < len(b) {
		v := g.next()
		w := words[v&63]
		n := copy(b[i:], w)
		i += n
		col += n

		if i >= len(b) {
			break
		}

		if col > 60+int((v>>8)&15) {
			if i+2 <= len(b) {
				b[i], b[i+1] = '\r', '\n'
				i += 2
			} else {
				b[i] = '\n'
				i++
			}

			col = 0
		} else {
			b[i] = ' '
			i++
			col++
		}
	}
}

// expand builds the payload of a spec. It needs a measuring store only for the aligned class.
func expand(s spec) []byte {
	if s.Class == "aligned" {
		b, _ := buildAligned(s.K, s.Shift, s.Seed)
		return b
	}

	b := make([]byte, s.Size)

	switch s.Comp {
	case compZeros:
	case compText:
		fillText(b, s.Seed)
	default:
		fillRand(b, s.Seed)
	}

	return b
}

// bigLeft: multi-MiB payloads the running test may still generate (quick tier: 1 per test, 2 per run).
var bigLeft atomic.Int64

func resetBigBudget() { bigLeft.Store(int64(ev.Pick(1, 5))) }

// size classes and their weights. cb = around a multiple (1x,2x,3x) of the cipher block size.
var classNames = []string{"0", "1", "15-17", "4095-4097", "65535-65537", "cb1", "cb2", "cb3", "MiB", "aligned"}

// cbDelta is drawn so that both the payload length and (for incompressible data) the length of the compressed stream
// land on and next to k*262144: stream = n + 7 + 4*ceil(n/65536) + 4.
func cbSize(t *rapid.T, k int) int {
	base := k * cipherPlain
	streamExact := base - (lz4FrameHdr + 4 + 4*4*k) // payload length whose (incompressible) stream is exactly k*262144

	switch rapid.IntRange(0, 3).Draw(t, "cbmode") {
	case 0:
		return base + rapid.IntRange(-1, 1).Draw(t, "d")
	case 1:
		return streamExact + rapid.IntRange(-6, 6).Draw(t, "d")
	case 2:
		return base + rapid.IntRange(-80, 8).Draw(t, "d")
	default:
		return base + rapid.IntRange(-4096, 4096).Draw(t, "d")
	}
}

// genSpec draws a payload spec. allowBig: whether the 1-8 MiB class and the aligned class may be produced.
func genSpec(t *rapid.T, label string, allowBig bool) spec {
	// weights: small classes are cheap, block classes are the interesting ones
	return genSpecW(t, label, allowBig, []int{0, 1, 2, 2, 3, 3, 4, 4, 4, 5, 5, 5, 5, 6, 6, 6, 7, 7, 7, 8, 9, 9},
		[]int{compZeros, compText, compRand, compRand})
}

// genSpecW: classes and comps are index lists drawn from uniformly (repetition = weight).
func genSpecW(t *rapid.T, label string, allowBig bool, classes, comps []int) spec {
	ci := rapid.SampledFrom(classes).Draw(t, label+".class")
	seed := rapid.Uint64Range(0, 1<<20).Draw(t, label+".seed")
	comp := rapid.SampledFrom(comps).Draw(t, label+".comp")

	s := spec{Class: classNames[ci], Seed: seed, Comp: comp}

	if (s.Class == "MiB" || s.Class == "aligned") && !allowBig {
		s.Class = "cb1"
	}

	if s.Class == "MiB" && bigLeft.Load() <= 0 {
		s.Class = "cb2"
	}

	switch s.Class {
	case "0":
		s.Size = 0
	case "1":
		s.Size = 1
	case "15-17":
		s.Size = rapid.IntRange(15, 17).Draw(t, label+".n")
	case "4095-4097":
		s.Size = rapid.IntRange(4095, 4097).Draw(t, label+".n")
	case "65535-65537":
		s.Size = rapid.IntRange(65535, 65537).Draw(t, label+".n")
	case "cb1":
		s.Size = cbSize(t, 1)
	case "cb2":
		s.Size = cbSize(t, 2)
	case "cb3":
		s.Size = cbSize(t, 3)
	case "MiB":
		bigLeft.Add(-1)

		mib := rapid.IntRange(1, ev.Pick(4, 8)).Draw(t, label+".mib")
		s.Size = mib<<20 + rapid.IntRange(-70000, 0).Draw(t, label+".off")

		if mib == 8 {
			s.Size = 8 << 20
		}
	case "aligned":
		s.K = rapid.IntRange(1, 3).Draw(t, label+".k")
		s.Shift = rapid.SampledFrom([]int{0, 0, 4}).Draw(t, label+".shift")
		s.Seed %= 3 // few distinct constructions (memoized, each costs ~100 measuring writes)
		s.Comp = compMixed
	}

	return s
}

func specLabels(s spec) []string {
	return []string{"size:" + s.Class, "comp:" + compNames[s.Comp]}
}

// crossesBlock: the payload crosses at least one block boundary (64 KiB LZ4 block; a cipher block crossing implies it).
func crossesBlock(n int) bool { return n > lz4Block }

// ---------------------------------------------------------------------------------------------------------------------
// aligned payloads
//
// A payload whose compressed stream has an LZ4 block boundary exactly at every cipher block boundary m*262144 (m=1..k)
// (shift=0), or whose next block's size field ends exactly there (shift=4). Per cipher block: three incompressible
// 64 KiB blocks (stored raw, 65540 stream bytes each) and two tunable blocks T(z) = z zero bytes followed by random
// bytes, whose compressed sizes c1+c2 fill the rest. c(z) is measured through the store itself (file size of a
// single-block payload), so the construction does not depend on the compressor's internals; if it cannot be met the
// payload is still a valid (just unaligned) payload. After the k aligned cipher blocks a tail follows so that the last
// cipher block is a short one.

type alignedKey struct {
	k, shift int
	seed     uint64
}

type alignedVal struct {
	data []byte
	ok   bool
}

var (
	alignedMu    sync.Mutex
	alignedCache = map[alignedKey]alignedVal{}
	measureDir   string
	measureStore store.Store
	measureID    imap.InternalMessageID
	measureMemo  = map[[2]uint64]int{}
)

// measureBegin/End bracket one construction (called with alignedMu held).
func measureBegin() {
	dir, err := os.MkdirTemp("", "c09-measure-")
	if err != nil {
		panic(err)
	}

	measureDir = dir
	measureID = mkID(0xfff)

	st, err := store.NewOnDiskStore(dir, []byte("measure"))
	if err != nil {
		panic(err)
	}

	measureStore = st
}

func measureEnd() {
	_ = os.RemoveAll(measureDir)
	measureStore, measureDir = nil, ""
}

func mkID(n int) imap.InternalMessageID {
	id, err := imap.InternalMessageIDFromString(fmt.Sprintf("00000000-0000-4000-8000-%012x", n))
	if err != nil {
		panic(err)
	}

	return id
}

// measuredFileSize stores b alone and returns the size of its file.
func measuredFileSize(b []byte) int {
	if err := measureStore.Set(measureID, bytes.NewReader(b)); err != nil {
		panic(fmt.Sprintf("measuring Set failed: %v", err))
	}

	fi, err := os.Stat(filepath.Join(measureDir, measureID.String()))
	if err != nil {
		panic(err)
	}

	return int(fi.Size())
}

func tunable(z int, seed uint64) []byte {
	b := make([]byte, lz4Block)
	fillRand(b[z:], seed)

	return b
}

// compressedLen of one block of exactly 64 KiB: file = 27 + (7 + 4 + c + 4 + 4) + 16. (For a payload that is empty or a
// multiple of 64 KiB the writer emits an empty block, i.e. a second end mark, before the final one: lz4.Writer.ReadFrom
// only notices the end of its input on the next read.)
func compressedLen(z int, seed uint64) int {
	key := [2]uint64{uint64(z), seed}
	if c, ok := measureMemo[key]; ok {
		return c
	}

	c := measuredFileSize(tunable(z, seed)) - payloadOff - gcmTag - lz4FrameHdr - 12
	measureMemo[key] = c

	return c
}

// findZ searches z with compressedLen(z) == want (c is decreasing in z). Returns -1 if there is none nearby.
func findZ(want int, seed uint64) int {
	lo, hi := 32, lz4Block-32
	for lo < hi {
		mid := (lo + hi) / 2
		if compressedLen(mid, seed) > want {
			lo = mid + 1
		} else {
			hi = mid
		}
	}

	for d := -3; d <= 3; d++ {
		if z := lo + d; z >= 32 && z <= lz4Block-32 && compressedLen(z, seed) == want {
			return z
		}
	}

	return -1
}

func buildAligned(k, shift int, seed uint64) ([]byte, bool) {
	alignedMu.Lock()
	defer alignedMu.Unlock()

	key := alignedKey{k, shift, seed}
	if v, ok := alignedCache[key]; ok {
		return v.data, v.ok
	}

	measureBegin()
	defer measureEnd()

	var (
		out []byte
		ok  = true
	)

	raw := func(s uint64) []byte {
		b := make([]byte, lz4Block)
		fillRand(b, s)

		return b
	}

	for m := 1; m <= k; m++ {
		ms := seed*1000 + uint64(m)*10
		for j := uint64(0); j < 3; j++ {
			out = append(out, raw(ms+j)...)
		}

		// stream bytes available for the two tunable blocks (each has a 4 byte size field)
		want := cipherPlain - 3*(lz4Block+4) - 8
		if m == 1 {
			want -= lz4FrameHdr + shift
		}

		z1 := 20000 + int(newXorshift(ms).next()%20000)
		found := false

		for try := 0; try < 40 && !found; try++ {
			c1 := compressedLen(z1+try, ms+5)
			if z2 := findZ(want-c1, ms+6); z2 >= 0 {
				out = append(out, tunable(z1+try, ms+5)...)
				out = append(out, tunable(z2, ms+6)...)
				found = true
			}
		}

		if !found {
			ok = false

			out = append(out, tunable(z1, ms+5)...)
			out = append(out, tunable(z1, ms+6)...)
		}
	}

	// tail: one raw block and some text
	out = append(out, raw(seed*1000+7)...)
	tail := make([]byte, 3000)
	fillText(tail, seed)
	out = append(out, tail...)

	if ok {
		// verify through the file size: k full cipher blocks + short last one holding the rest of the stream
		// rest = shift-adjusted: (4+65536) raw + (4+c(tail)) + 4 end mark
		sz := measuredFileSize(out)
		nblocks := (sz - payloadOff + cipherBlock - 1) / cipherBlock
		// every aligned prefix must itself produce a stream of exactly m*262144 - shift + 8 (end marks) bytes
		for m := 1; m <= k && ok; m++ {
			pre := measuredFileSize(out[:m*5*lz4Block])
			stream := pre - payloadOff - gcmTag*((pre-payloadOff+cipherBlock-1)/cipherBlock)
			if stream != m*cipherPlain-shift+8 { // two end marks, see compressedLen
				ok = false
			}
		}

		if nblocks != k+1 {
			ok = false
		}
	}

	alignedCache[key] = alignedVal{out, ok}

	return out, ok
}

// ---------------------------------------------------------------------------------------------------------------------

func digest(b []byte) string {
	h := sha256.Sum256(b)
	return hex.EncodeToString(h[:6])
}

// describe prints a byte slice compactly for failure messages.
func describe(b []byte) string {
	n := len(b)
	if n <= 24 {
		return fmt.Sprintf("len=%d %q", n, b)
	}

	return fmt.Sprintf("len=%d sha=%s head=%q", n, digest(b), b[:16])
}

func firstDiff(a, b []byte) int {
	n := len(a)
	if len(b) < n {
		n = len(b)
	}

	for i := 0; i < n; i++ {
		if a[i] != b[i] {
			return i
		}
	}

	if len(a) != len(b) {
		return n
	}

	return -1
}
