package c09

// (1) State machine: Set / overwrite / Get / Delete / List / close+reopen on 1-6 ids of an on-disk store behind the
// write-controlled wrapper, compared against a model map after every step.

import (
	"bytes"
	"fmt"
	"io"
	"os"
	"runtime"
	"sort"
	"strings"
	"testing"

	"github.com/ProtonMail/gluon/async"
	"github.com/ProtonMail/gluon/imap"
	"github.com/ProtonMail/gluon/store"
	"pgregory.net/rapid"

	"verif/internal/ev"
)

// guarded runs f and turns a panic into an error text (a panic is always a violation).
func guarded(f func()) (panicked string) {
	defer func() {
		if r := recover(); r != nil {
			buf := make([]byte, 4096)
			buf = buf[:runtime.Stack(buf, false)]
			panicked = fmt.Sprintf("%v\n%s", r, buf)
		}
	}()

	f()

	return ""
}

func safeGet(s store.Store, id imap.InternalMessageID) (b []byte, err error, panicked string) {
	panicked = guarded(func() { b, err = s.Get(id) })
	return
}

func safeSet(s store.Store, id imap.InternalMessageID, r io.Reader) (err error, panicked string) {
	panicked = guarded(func() { err = s.Set(id, r) })
	return
}

// chunkReader hands out the payload in drawn chunk sizes (Set takes an io.Reader; a reader may return short reads).
type chunkReader struct {
	b     []byte
	chunk int
}

func (c *chunkReader) Read(p []byte) (int, error) {
	if len(c.b) == 0 {
		return 0, io.EOF
	}

	n := c.chunk
	if n > len(p) {
		n = len(p)
	}

	if n > len(c.b) {
		n = len(c.b)
	}

	copy(p, c.b[:n])
	c.b = c.b[n:]

	return n, nil
}

func payloadReader(t *rapid.T, b []byte) (io.Reader, string) {
	switch rapid.IntRange(0, 3).Draw(t, "reader") {
	case 0:
		n := rapid.SampledFrom([]int{1, 7, 4096, 65535, 65536, 65537, 300000}).Draw(t, "chunk")
		if n == 1 && len(b) > 70000 {
			n = 4097 // byte-wise reads of a big payload only cost time
		}

		return &chunkReader{b: b, chunk: n}, fmt.Sprintf("chunks(%d)", n)
	default:
		return bytes.NewReader(b), "bytes.Reader"
	}
}

type storeCfg struct {
	sem int // 0: no semaphore
}

// openBoth opens the on-disk store and wraps it; both handles are returned.
func openBoth(dir string, pass []byte, cfg storeCfg, opts ...store.Option) (store.Store, *store.WriteControlledStore, error) {
	if cfg.sem > 0 {
		opts = append(opts, store.WithSemaphore(store.NewSemaphore(cfg.sem, async.NoopPanicHandler{})))
	}

	s, err := store.NewOnDiskStore(dir, pass, opts...)
	if err != nil {
		return nil, nil, err
	}

	return s, store.NewWriteControlledStore(s), nil
}

func openStore(dir string, pass []byte, cfg storeCfg, opts ...store.Option) (*store.WriteControlledStore, error) {
	_, w, err := openBoth(dir, pass, cfg, opts...)
	return w, err
}

func TestStoreModel(t *testing.T) {
	// thorough: per shard (x16), built with -race (about 10x slower per case than the quick tier)
	ev.Checks(1500, 800)
	resetBigBudget()

	rapid.Check(t, func(rt *rapid.T) {
		dir, err := os.MkdirTemp("", "c09-model-")
		if err != nil {
			rt.Fatalf("mkdir: %v", err)
		}
		defer os.RemoveAll(dir)

		nIDs := rapid.IntRange(1, 6).Draw(rt, "ids")
		pass := []byte(rapid.SampledFrom([]string{"pass", "", "p\x00q", strings.Repeat("k", 100)}).Draw(rt, "pass"))
		cfg := storeCfg{sem: rapid.SampledFrom([]int{0, 0, 1, 4}).Draw(rt, "sem")}

		// the store under test: the on-disk store behind the write-controlled wrapper, or (1 in 4) the bare on-disk store
		// (the wrapper hands Delete to it one id at a time, the bare store takes the whole list)
		wrapped := rapid.IntRange(0, 3).Draw(rt, "bare") != 0

		var (
			st  store.Store
			wcs *store.WriteControlledStore
		)

		open := func() error {
			bare, w, err := openBoth(dir, pass, cfg)
			if err != nil {
				return err
			}

			wcs = w
			if wrapped {
				st = w
			} else {
				st = bare
			}

			return nil
		}

		if err := open(); err != nil {
			rt.Fatalf("open: %v", err)
		}

		ids := make([]imap.InternalMessageID, nIDs)
		for i := range ids {
			ids[i] = mkID(i + 1)
		}

		model := map[int][]byte{}
		specs := map[int]spec{}

		var (
			history    []string
			labels     = map[string]bool{}
			nontrivial bool
			hashParts  []any
		)

		logf := func(f string, a ...any) { history = append(history, fmt.Sprintf(f, a...)) }
		fail := func(f string, a ...any) {
			rt.Fatalf("%s\nhistory (dir %s, pass %q, sem %d, write-controlled wrapper %v):\n  %s", fmt.Sprintf(f, a...), dir,
				pass, cfg.sem, wrapped, strings.Join(history, "\n  "))
		}

		defer func() {
			ls := make([]string, 0, len(labels))
			for l := range labels {
				ls = append(ls, l)
			}

			sort.Strings(ls)
			ev.Case(nontrivial, ev.Hash(hashParts...), append(ls, "test:model", fmt.Sprintf("model:wrapped=%v", wrapped))...)

			if ev.WantSample() {
				ev.Sample(map[string]any{"test": "model", "ids": nIDs, "history": history})
			} else {
				ev.Sample(nil) // not kept; advances the recorder's thinning counter
			}
		}()

		checkGet := func(i int) {
			got, err, p := safeGet(st, ids[i])
			if p != "" {
				fail("Get(id%d) panicked: %s", i, p)
			}

			want, ok := model[i]
			switch {
			case ok && err != nil:
				fail("Get(id%d) = error %v, want stored value %s of %v", i, err, describe(want), specs[i])
			case ok && !bytes.Equal(got, want):
				fail("Get(id%d) returned other bytes: got %s, want %s of %v, first difference at %d", i, describe(got),
					describe(want), specs[i], firstDiff(got, want))
			case !ok && err == nil:
				fail("Get(id%d) of an id that is not stored returned %s without error", i, describe(got))
			}
		}

		checkList := func() {
			var (
				got []imap.InternalMessageID
				err error
			)

			if p := guarded(func() { got, err = st.List() }); p != "" {
				fail("List panicked: %s", p)
			}

			if err != nil {
				fail("List: %v", err)
			}

			gs := make([]string, len(got))
			for i, id := range got {
				gs[i] = id.String()
			}

			ws := make([]string, 0, len(model))
			for i := range model {
				ws = append(ws, ids[i].String())
			}

			sort.Strings(gs)
			sort.Strings(ws)

			if strings.Join(gs, ",") != strings.Join(ws, ",") {
				fail("List = %v, want exactly %v", gs, ws)
			}
		}

		totalBytes := func() int {
			n := 0
			for _, b := range model {
				n += len(b)
			}

			return n
		}

		steps := rapid.IntRange(1, 14).Draw(rt, "steps")
		for step := 0; step < steps; step++ {
			op := rapid.SampledFrom([]string{"set", "set", "set", "get", "delete", "list", "reopen", "multidelete"}).Draw(rt, "op")
			hashParts = append(hashParts, op)
			labels["op:"+op] = true

			switch op {
			case "set":
				i := rapid.IntRange(0, nIDs-1).Draw(rt, "id")
				sp := genSpec(rt, "content", true)
				data := expand(sp)
				rd, rdName := payloadReader(rt, data)

				_, over := model[i]
				logf("Set(id%d, %v via %s) overwrite=%v", i, sp, rdName, over)
				hashParts = append(hashParts, i, sp, rdName)

				for _, l := range specLabels(sp) {
					labels[l] = true
					ev.Class("content."+l, 1)
				}

				if over {
					labels["overwrite"] = true
				}

				if crossesBlock(len(data)) {
					nontrivial = true
				}

				var (
					err error
					p   string
				)

				if wrapped && !over && rapid.IntRange(0, 3).Draw(rt, "setUnchecked") == 0 {
					// SetUnchecked: allowed for an id that does not exist yet
					logf("  (through SetUnchecked)")
					p = guarded(func() { err = wcs.SetUnchecked(ids[i], rd) })
				} else {
					err, p = safeSet(st, ids[i], rd)
				}

				if p != "" {
					fail("Set panicked: %s", p)
				}

				if err != nil {
					fail("Set(id%d) failed: %v", i, err)
				}

				model[i], specs[i] = data, sp
				checkGet(i)
			case "get":
				i := rapid.IntRange(0, nIDs-1).Draw(rt, "id")
				hashParts = append(hashParts, i)
				logf("Get(id%d)", i)
				checkGet(i)
			case "delete":
				i := rapid.IntRange(0, nIDs-1).Draw(rt, "id")
				hashParts = append(hashParts, i)

				_, ok := model[i]
				logf("Delete(id%d) stored=%v", i, ok)

				var err error
				if p := guarded(func() { err = st.Delete(ids[i]) }); p != "" {
					fail("Delete panicked: %s", p)
				}

				if ok && err != nil {
					fail("Delete(id%d) of a stored id failed: %v", i, err)
				}

				delete(model, i)
				delete(specs, i)
				checkGet(i)
			case "multidelete":
				// several distinct ids in one call. If all are stored the call must succeed and all are gone. If one is
				// not stored the call may fail; the listed ids are then each either gone or unchanged (nothing else).
				n := rapid.IntRange(1, nIDs).Draw(rt, "n")
				perm := rapid.Permutation(seq(nIDs)).Draw(rt, "which")[:n]
				hashParts = append(hashParts, perm)

				allStored := true
				args := make([]imap.InternalMessageID, n)

				for k, i := range perm {
					args[k] = ids[i]
					if _, ok := model[i]; !ok {
						allStored = false
					}
				}

				// DeleteUnchecked is the wrapper's pass-through to the on-disk store's multi-id Delete (its contract, "not in
				// use anywhere", holds in a sequential history)
				unchecked := wrapped && rapid.Bool().Draw(rt, "unchecked")
				logf("Delete(ids %v) allStored=%v unchecked=%v", perm, allStored, unchecked)

				var err error
				if p := guarded(func() {
					if unchecked {
						err = wcs.DeleteUnchecked(args...)
					} else {
						err = st.Delete(args...)
					}
				}); p != "" {
					fail("Delete panicked: %s", p)
				}

				if allStored {
					labels["multidelete:all-stored"] = true

					if err != nil {
						fail("Delete(%v) of stored ids failed: %v", perm, err)
					}

					for _, i := range perm {
						delete(model, i)
						delete(specs, i)
						checkGet(i)
					}
				} else {
					labels["multidelete:some-missing"] = true

					for _, i := range perm {
						want, ok := model[i]
						if !ok {
							checkGet(i)
							continue
						}

						got, gerr, p := safeGet(st, ids[i])
						if p != "" {
							fail("Get panicked: %s", p)
						}

						if gerr != nil {
							// gone (whether or not the call as a whole reported an error)
							delete(model, i)
							delete(specs, i)
						} else {
							if err == nil {
								fail("Delete(%v) returned nil but id%d is still readable", perm, i)
							}

							if !bytes.Equal(got, want) {
								fail("after failed Delete(%v): Get(id%d) returned other bytes: got %s want %s", perm, i,
									describe(got), describe(want))
							}
						}
					}
				}
			case "list":
				logf("List()")
				checkList()
			case "reopen":
				logf("Close(); reopen with the same passphrase")

				if err := st.Close(); err != nil {
					fail("Close: %v", err)
				}

				if err := open(); err != nil {
					fail("reopen: %v", err)
				}
			}

			// after every step: the listing is exact and every id answers as the model says (ids do not influence each
			// other). With much data in the store only the ids are listed and one drawn id is read.
			checkList()

			if totalBytes() <= 1<<20 {
				for i := 0; i < nIDs; i++ {
					checkGet(i)
				}
			} else {
				checkGet(rapid.IntRange(0, nIDs-1).Draw(rt, "probe"))
			}
		}

		for i := 0; i < nIDs; i++ {
			checkGet(i)
		}
	})
}

func seq(n int) []int {
	s := make([]int, n)
	for i := range s {
		s[i] = i
	}

	return s
}
