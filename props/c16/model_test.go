package c16

import (
	"fmt"
	"math/big"
	"strings"
)

// ---- message sets as written by a client ----

// num is one seq-number of a set: `*` or a decimal number of any magnitude.
type num struct {
	Star bool
	V    *big.Int
	Cls  string // generator class (evidence label)
}

func (n num) String() string {
	if n.Star {
		return "*"
	}

	return n.V.String()
}

// part is one element of a comma separated set: a single number or a range a:b.
type part struct {
	A, B  num
	Range bool
}

func (p part) String() string {
	if p.Range {
		return p.A.String() + ":" + p.B.String()
	}

	return p.A.String()
}

type mset []part

func (s mset) String() string {
	parts := make([]string, len(s))
	for i, p := range s {
		parts[i] = p.String()
	}

	return strings.Join(parts, ",")
}

func (s mset) nums() []num {
	var res []num

	for _, p := range s {
		res = append(res, p.A)

		if p.Range {
			res = append(res, p.B)
		}
	}

	return res
}

var (
	bigMaxU32 = new(big.Int).SetUint64(1<<32 - 1)
	big2e32   = new(big.Int).Lsh(big.NewInt(1), 32)
	big2e63   = new(big.Int).Lsh(big.NewInt(1), 63)
	big2e64   = new(big.Int).Lsh(big.NewInt(1), 64)
)

func bigU(v uint64) *big.Int { return new(big.Int).SetUint64(v) }

// ---- reference resolver (RFC 3501 section 9 "seq-number", "seq-range", "sequence-set"; 6.4.8 for the UID forms) ----

// expectation is what RFC 3501 / property C16 prescribe for one set against one view.
type expectation struct {
	UID      bool   // the set is a UID set
	Count    int    // size of the view
	Zero     bool   // contains 0, which is not an nz-number: syntax error, BAD
	Oversize bool   // contains a number above 2^32-1, which is not an RFC 3501 number at all
	Beyond   bool   // sequence flavour: a number above the message count (any number, `*` included, on an empty view); UID flavour: a number above the highest UID
	Bad      bool   // the command must fail (sequence flavour: Beyond or Zero; UID flavour: Zero only)
	Sel      []bool // the selected positions (0-based) when the command does not have to fail
	OptLast  bool   // UID flavour: a range n:* / *:n with n above the highest UID is present; the property does not judge
	//                 whether it contributes the last message (RFC 3501) or nothing (gluon's documented choice)
	Dup      bool // some message is denoted by more than one element of the union
	TouchEnd bool // a range includes the first or the last message of the view
}

func (e *expectation) String() string {
	switch {
	case e.Zero:
		return "BAD (0 is not an nz-number)"
	case e.Bad && e.Oversize:
		return "BAD or NO (number beyond the view, above 2^32-1)"
	case e.Bad:
		return "BAD (sequence number beyond the view)"
	}

	s := "OK selecting positions " + posString(e.Sel)
	if e.OptLast {
		s += " (last message optional: n:* with n above the highest UID is not judged)"
	}

	if e.Oversize {
		s += " or BAD/NO (number above 2^32-1)"
	}

	return s
}

func posString(sel []bool) string {
	var p []string

	for i, b := range sel {
		if b {
			p = append(p, fmt.Sprint(i+1))
		}
	}

	return "[" + strings.Join(p, " ") + "]"
}

// allowed tells whether the set of positions got is a selection the property accepts.
func (e *expectation) allowed(got []bool) bool {
	if sameSel(got, e.Sel) {
		return true
	}

	if e.OptLast && e.Count > 0 {
		alt := append([]bool(nil), e.Sel...)
		alt[e.Count-1] = true

		return sameSel(got, alt)
	}

	return false
}

func sameSel(a, b []bool) bool {
	if len(a) != len(b) {
		return false
	}

	for i := range a {
		if a[i] != b[i] {
			return false
		}
	}

	return true
}

func anySel(a []bool) bool {
	for _, b := range a {
		if b {
			return true
		}
	}

	return false
}

func allSel(a []bool) bool {
	for _, b := range a {
		if !b {
			return false
		}
	}

	return len(a) > 0
}

// resolve is the reference resolver. uids is the session's view in sequence order (strictly ascending UIDs).
func resolve(uids []uint32, set mset, uidFlavour bool) *expectation {
	n := len(uids)
	e := &expectation{UID: uidFlavour, Count: n, Sel: make([]bool, n)}

	var maxUID *big.Int
	if n > 0 {
		maxUID = bigU(uint64(uids[n-1]))
	}

	for _, x := range set.nums() {
		if x.Star {
			if n == 0 && !uidFlavour {
				e.Beyond = true
			}

			continue
		}

		if x.V.Sign() == 0 {
			e.Zero = true
		}

		if x.V.Cmp(bigMaxU32) > 0 {
			e.Oversize = true
		}

		if uidFlavour {
			if n == 0 || x.V.Cmp(maxUID) > 0 {
				e.Beyond = true
			}
		} else if x.V.Cmp(big.NewInt(int64(n))) > 0 {
			e.Beyond = true
		}
	}

	if uidFlavour {
		e.Bad = e.Zero
	} else {
		e.Bad = e.Zero || e.Beyond
	}

	if e.Bad || n == 0 {
		return e
	}

	mark := func(i int) {
		if e.Sel[i] {
			e.Dup = true
		}

		e.Sel[i] = true
	}

	for _, p := range set {
		if !uidFlavour {
			val := func(x num) int {
				if x.Star {
					return n
				}

				return int(x.V.Int64()) // 1..n, checked above
			}

			lo, hi := val(p.A), val(p.A)
			if p.Range {
				hi = val(p.B)
			}

			if lo > hi {
				lo, hi = hi, lo
			}

			for i := lo; i <= hi; i++ {
				mark(i - 1)
			}

			if p.Range && (lo == 1 || hi == n) {
				e.TouchEnd = true
			}

			continue
		}

		// UID flavour: `*` is the highest UID of the view
		val := func(x num) *big.Int {
			if x.Star {
				return maxUID
			}

			return x.V
		}

		lo, hi := val(p.A), val(p.A)
		if p.Range {
			hi = val(p.B)

			// the one case the property does not judge
			if p.A.Star != p.B.Star {
				other := p.A
				if p.A.Star {
					other = p.B
				}

				if other.V.Cmp(maxUID) > 0 {
					e.OptLast = true
					continue
				}
			}
		}

		if lo.Cmp(hi) > 0 {
			lo, hi = hi, lo
		}

		for i, u := range uids {
			b := bigU(uint64(u))
			if b.Cmp(lo) >= 0 && b.Cmp(hi) <= 0 {
				mark(i)

				if p.Range && (i == 0 || i == n-1) {
					e.TouchEnd = true
				}
			}
		}
	}

	return e
}

// nontrivial is the rule of DESIGN.md C16: the set contains a number beyond the view or a range touching an end.
func (e *expectation) nontrivial() bool { return e.Beyond || e.TouchEnd }

// overlapping tells whether part p denotes a message that is already selected in sel (used to steer away from a listed
// finding); it marks p's messages in sel.
func overlapping(uids []uint32, p part, uidFlavour bool, sel []bool) bool {
	e := resolve(uids, mset{p}, uidFlavour)
	if e.Bad {
		return false
	}

	hit := false

	for i, b := range e.Sel {
		if b && sel[i] {
			hit = true
		}
	}

	for i, b := range e.Sel {
		if b {
			sel[i] = true
		}
	}

	return hit
}

// ---- uid-set of a COPYUID response code ----

func parseUIDSet(s string) ([]uint32, error) {
	var res []uint32

	for _, p := range strings.Split(s, ",") {
		var a, b uint32

		if i := strings.IndexByte(p, ':'); i >= 0 {
			if _, err := fmt.Sscanf(p[:i], "%d", &a); err != nil {
				return nil, fmt.Errorf("bad uid-set %q", s)
			}

			if _, err := fmt.Sscanf(p[i+1:], "%d", &b); err != nil {
				return nil, fmt.Errorf("bad uid-set %q", s)
			}
		} else {
			if _, err := fmt.Sscanf(p, "%d", &a); err != nil {
				return nil, fmt.Errorf("bad uid-set %q", s)
			}

			b = a
		}

		if a > b {
			a, b = b, a
		}

		if a == 0 || b-a > 100000 {
			return nil, fmt.Errorf("bad uid-set %q", s)
		}

		for u := a; u <= b; u++ {
			res = append(res, u)
		}
	}

	return res, nil
}
