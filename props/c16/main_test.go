package c16

import (
	"testing"

	"verif/internal/ev"
)

func TestMain(m *testing.M) {
	ev.Main(m, "C16", "exploration",
		"one real server per generated view (0-12 messages, UID gaps made by EXPUNGE or connector removals, optionally 1-2 further messages in the mailbox that the gate keeps from the session), 8-12 generated (message set, command) cases per view: FETCH, STORE, COPY, MOVE (sequence and UID flavour), SEARCH (sequence-set key and UID key, plain and UID SEARCH, optionally under NOT) and UID EXPUNGE; sets are unions of up to 8 singles / ranges in both orders / `*` / n:* / *:n with numbers from the classes of DESIGN.md C16 (up to 10^30+k, k congruent to an existing message modulo 2^32 or 2^64). Oracle: reference resolver over the view learned by a probe; the responses (FETCH lines, changed flags, COPYUID, EXPUNGEs, SEARCH result) and fresh views of source and destination identify the selected messages. One evaluation = one (view, set, command). Non-trivial: the set contains a number beyond the view (sequence flavour: above the message count, or anything on an empty view; UID flavour: above the highest UID) or a range that includes the first or the last message of the view; distinct by hash of (view UIDs, unannounced messages, command text).",
		"numbers above 2^32-1 are not RFC 3501 numbers: BAD/NO without effect is accepted for them in either flavour, selecting a message they do not denote is not",
		"a UID range n:* / *:n with n above the highest UID is not judged: it may contribute the last message or nothing",
		"a message denoted twice by a union may be returned twice by FETCH (counted as note:message-fetched-twice, not judged); COPYUID is read as a set (its pairing belongs to C04)",
		"the verif gate only delays delivery of queued updates to the session (FIFO kept): a schedule Go's select could produce")
}
