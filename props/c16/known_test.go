package c16

import (
	"fmt"
	"math/big"
	"strings"
	"testing"
	"time"

	"github.com/ProtonMail/gluon/imap"

	"verif/internal/bed"
	"verif/internal/imapc"
	"verif/internal/kf"
	"verif/internal/mach"
)

// Scripted regressions (no rapid) of the minimal failing inputs found by TestC16Sets, and a self-test of the oracle.

func scriptBed(t *testing.T, n int) (*bed.Bed, *bed.Session) {
	t.Helper()

	b, err := bed.Start(bed.Options{ClientTimeout: 45 * time.Second}, bed.UserSpec{Name: "user", Pass: "pass"})
	if err != nil {
		t.Fatal(err)
	}

	t.Cleanup(b.Destroy)

	u := b.Users[0]

	for i := 0; i < n; i++ {
		_, mc, err := u.Conn.NewRemoteMessage(mach.Msg(fmt.Sprintf("m%d", i+1), ""), imap.NewFlagSet(), time.Unix(1600000000, 0), u.Inbox.ID)
		if err != nil {
			t.Fatal(err)
		}

		if d := b.DeliverNow(u, imap.NewMessagesCreated(false, mc)); d[0].Err != nil {
			t.Fatal(d[0].Err)
		}
	}

	s, err := b.Login("s", u)
	if err != nil {
		t.Fatal(err)
	}

	t.Cleanup(s.Logout)

	if r := s.Do("CREATE dst"); !r.OK() {
		t.Fatal(r)
	}

	if r := s.Select("INBOX", false); !r.OK() {
		t.Fatal(r)
	}

	return b, s
}

// doWatch sends a command; crashed=true if a gluon goroutine panicked (then no tagged response arrives).
func doWatch(b *bed.Bed, s *bed.Session, cmd string) (r *imapc.Result, crashed bool) {
	done := make(chan *imapc.Result, 1)

	go func() { done <- s.Do(cmd) }()

	tick := time.NewTicker(20 * time.Millisecond)
	defer tick.Stop()

	for {
		select {
		case r = <-done:
			return r, len(b.Panics.Get()) > 0
		case <-tick.C:
			if len(b.Panics.Get()) > 0 {
				select {
				case r = <-done:
				case <-time.After(300 * time.Millisecond):
					s.Client.Close()
					r = <-done
				}

				return r, true
			}
		}
	}
}

func fetchLines(r *imapc.Result) []string {
	var res []string

	for _, u := range r.Untagged {
		if _, kw, ok := u.Num(); ok && kw == "FETCH" {
			res = append(res, u.Raw)
		}
	}

	return res
}

func searchLine(r *imapc.Result) string {
	for _, u := range r.Untagged {
		if u.Keyword() == "SEARCH" {
			return u.Raw
		}
	}

	return ""
}

func settle(t *testing.T, id string, symptoms []string, hist fmt.Stringer) {
	t.Helper()

	if len(symptoms) == 0 {
		return // no longer reproduces
	}

	if !kf.Report(id) {
		t.Fatalf("C16 violated (%s, not listed as known):\n  %s\nhistory:\n%s", id, strings.Join(symptoms, "\n  "), hist)
	}
}

// known C16-number-wraps: rfcparser.ParseNumber accumulates into an int without overflow check and the state layer
// narrows to uint32: numbers that are not RFC 3501 numbers select the message they are congruent to, or crash.
func TestKnown_C16_number_wraps(t *testing.T) {
	var (
		symptoms []string
		beds     []*bed.Bed
	)

	{
		b, s := scriptBed(t, 3)
		beds = append(beds, b)

		for _, c := range []struct{ cmd, want string }{
			{"FETCH 4294967297 (UID)", "BAD"},           // 2^32+1
			{"FETCH 18446744073709551617 (UID)", "BAD"}, // 2^64+1
			{"FETCH 1:4294967298 (UID)", "BAD"},
			{"UID FETCH 4294967298 (UID)", "nothing"}, // 2^32+2
			{"SEARCH UID 4294967298", "nothing"},
			{`STORE 4294967299 +FLAGS (x)`, "BAD"},
		} {
			r, _ := doWatch(b, s, c.cmd)
			if r.OK() && (len(fetchLines(r)) > 0 || strings.TrimSpace(strings.TrimPrefix(searchLine(r), "* SEARCH")) != "") {
				symptoms = append(symptoms, fmt.Sprintf("%s -> %v %s (prescribed: %s)", c.cmd, fetchLines(r), searchLine(r), c.want))
			}
		}
	}

	for _, cmd := range []string{"FETCH 4294967296 (UID)", "FETCH 1:4294967296 (UID)"} { // 2^32: narrowed to 0
		b, s := scriptBed(t, 3)
		beds = append(beds, b)

		if r, crashed := doWatch(b, s, cmd); crashed {
			p := b.Panics.Get()[0]
			if i := strings.IndexByte(p, '\n'); i > 0 {
				p = p[:i]
			}

			symptoms = append(symptoms, fmt.Sprintf("%s -> panic in the command goroutine (%s), no tagged response", cmd, p))
		} else if r.Status != "BAD" && r.Status != "NO" {
			symptoms = append(symptoms, fmt.Sprintf("%s -> %s %s", cmd, r.Status, r.Text))
		}
	}

	settle(t, kfWrap, symptoms, histOf(beds...))
}

// known C16-search-seq-key-unchecked: a sequence-set search key beyond the view does not make SEARCH fail.
func TestKnown_C16_search_seq_key_unchecked(t *testing.T) {
	var symptoms []string

	b, s := scriptBed(t, 3)

	for _, cmd := range []string{"SEARCH 4", "SEARCH 2:7", "SEARCH 5:*", "UID SEARCH NOT 9"} {
		if r := s.Do(cmd); r.Status != "BAD" {
			symptoms = append(symptoms, fmt.Sprintf("3 messages: %s -> %s %q (prescribed: BAD)", cmd, r.Status, searchLine(r)))
		}
	}

	b2, s2 := scriptBed(t, 0)

	for _, cmd := range []string{"SEARCH 1", "SEARCH *"} {
		if r := s2.Do(cmd); r.Status != "BAD" {
			symptoms = append(symptoms, fmt.Sprintf("empty mailbox: %s -> %s %q (prescribed: BAD)", cmd, r.Status, searchLine(r)))
		}
	}

	settle(t, kfSearchSeq, symptoms, histOf(b, b2))
}

// known C16-search-uid-key-empty-view: a UID search key against an empty view is answered NO instead of an empty result.
func TestKnown_C16_search_uid_key_empty_view(t *testing.T) {
	var symptoms []string

	b, s := scriptBed(t, 0)

	for _, cmd := range []string{"SEARCH UID 1", "UID SEARCH UID 1:*", "SEARCH UID *", "SEARCH NOT UID 3,5"} {
		if r := s.Do(cmd); !r.OK() {
			symptoms = append(symptoms, fmt.Sprintf("empty mailbox: %s -> %s %s (prescribed: OK, empty result)", cmd, r.Status, r.Text))
		}
	}

	settle(t, kfSearchUIDEmpty, symptoms, b.Hist)
}

// known C16-duplicate-in-copy-move: a union that names a message twice makes COPY / MOVE fail.
func TestKnown_C16_duplicate_in_copy_move(t *testing.T) {
	var symptoms []string

	b, s := scriptBed(t, 3)

	for _, cmd := range []string{"COPY 1,1 dst", "COPY 1:2,2 dst", "UID COPY 2:3,*:1 dst", "MOVE 3,1:* dst"} {
		if r := s.Do(cmd); !r.OK() {
			symptoms = append(symptoms, fmt.Sprintf("3 messages: %s -> %s %s (prescribed: OK, each message once)", cmd, r.Status, r.Text))
		}
	}

	settle(t, kfDup, symptoms, b.Hist)
}

type hists []*bed.Bed

func (h hists) String() string {
	var sb strings.Builder

	for _, b := range h {
		sb.WriteString(b.Hist.String())
		sb.WriteString("\n--\n")
	}

	return sb.String()
}

func histOf(b ...*bed.Bed) fmt.Stringer { return hists(b) }

// TestResolverSelfTest pins the reference resolver on hand-computed examples (RFC 3501 section 9 and 6.4.8).
func TestResolverSelfTest(t *testing.T) {
	mk := func(s string) mset {
		var set mset

		for _, p := range strings.Split(s, ",") {
			n := func(x string) num {
				if x == "*" {
					return num{Star: true}
				}

				v, ok := new(big.Int).SetString(x, 10)
				if !ok {
					t.Fatalf("bad number %q", x)
				}

				return num{V: v}
			}

			if i := strings.IndexByte(p, ':'); i >= 0 {
				set = append(set, part{A: n(p[:i]), B: n(p[i+1:]), Range: true})
			} else {
				set = append(set, part{A: n(p)})
			}
		}

		return set
	}

	view := []uint32{2, 3, 7, 9, 10} // 5 messages, gaps at 1, 4-6, 8

	for _, c := range []struct {
		set  string
		uid  bool
		view []uint32
		want string // "BAD" or positions
		opt  bool
	}{
		{"1", false, view, "[1]", false},
		{"5", false, view, "[5]", false},
		{"6", false, view, "BAD", false},
		{"*", false, view, "[5]", false},
		{"4:2", false, view, "[2 3 4]", false},
		{"*:4", false, view, "[4 5]", false},
		{"3:*", false, view, "[3 4 5]", false},
		{"6:*", false, view, "BAD", false},
		{"1,3,1:2", false, view, "[1 2 3]", false},
		{"1:5", false, view, "[1 2 3 4 5]", false},
		{"1,4294967297", false, view, "BAD", false},
		{"0", false, view, "BAD", false},
		{"1", false, nil, "BAD", false},
		{"*", false, nil, "BAD", false},
		{"1:*", false, nil, "BAD", false},
		{"1", true, view, "[]", false},
		{"2", true, view, "[1]", false},
		{"*", true, view, "[5]", false},
		{"1:*", true, view, "[1 2 3 4 5]", false},
		{"4:8", true, view, "[3]", false},
		{"8:4", true, view, "[3]", false},
		{"9:3", true, view, "[2 3 4]", false},
		{"10:*", true, view, "[5]", false},
		{"*:10", true, view, "[5]", false},
		{"11:*", true, view, "[]", true},
		{"2,*:4294967297", true, view, "[1]", true},
		{"11:12", true, view, "[]", false},
		{"1:4294967295", true, view, "[1 2 3 4 5]", false},
		{"3,1:3", true, view, "[1 2]", false},
		{"0", true, view, "BAD", false},
		{"1", true, nil, "[]", false},
		{"*", true, nil, "[]", false},
		{"1:*", true, nil, "[]", false},
	} {
		e := resolve(c.view, mk(c.set), c.uid)

		got := posString(e.Sel)
		if e.Bad {
			got = "BAD"
		}

		if got != c.want || e.OptLast != c.opt {
			t.Errorf("resolve(%v, %q, uid=%v) = %s optLast=%v, want %s optLast=%v", c.view, c.set, c.uid, got, e.OptLast, c.want, c.opt)
		}
	}

	if e := resolve(view, mk("1,1:2"), false); !e.Dup {
		t.Errorf("1,1:2 names message 1 twice")
	}

	if e := resolve(view, mk("1:3"), false); !e.TouchEnd || e.Beyond {
		t.Errorf("1:3 touches the lower end")
	}
}
