package c16

import (
	"math/big"

	"pgregory.net/rapid"
)

// vinfo is what the generators know about the session's view.
type vinfo struct {
	uids    []uint32 // the view, ascending
	everMax uint32   // highest UID ever assigned in the mailbox (expunged and not yet announced ones included)
}

func (v *vinfo) count() int { return len(v.uids) }

func (v *vinfo) maxUID() uint32 {
	if len(v.uids) == 0 {
		return 0
	}

	return v.uids[len(v.uids)-1]
}

// gapUIDs are the UIDs between 1 and everMax+1 that are not in the view.
func (v *vinfo) gapUIDs() []uint32 {
	in := map[uint32]bool{}
	for _, u := range v.uids {
		in[u] = true
	}

	var res []uint32

	for u := uint32(1); u <= v.everMax+1; u++ {
		if !in[u] {
			res = append(res, u)
		}
	}

	return res
}

// number classes (DESIGN.md C16) with their weights in the general mode.
var numClasses = []struct {
	name   string
	weight int
}{
	{"1", 3}, {"count-1", 3}, {"count", 4}, {"count+1", 4}, {"mid", 3},
	{"uid-present", 4}, {"uid-gap", 3}, {"maxuid-1", 1}, {"maxuid+1", 2}, {"*", 4},
	{"2^32+k", 3}, {"2^32", 2}, {"2^32-1", 2}, {"2^31-1", 1}, {"2^31", 1},
	{"2^64+k", 2}, {"10^30+k", 2}, {"2^63-1", 1}, {"2^63", 1}, {"2^64", 1},
}

var (
	classBag     []string // general mode
	classBagZero []string // general mode plus the number 0
	classBagSafe = []string{"1", "count-1", "count", "count", "mid", "mid", "*", "*"}
)

func init() {
	// round-robin over the classes (rapid's SampledFrom favours the front of the slice: no class should own it)
	for round := 0; round < 4; round++ {
		for _, c := range numClasses {
			if c.weight > round {
				classBag = append(classBag, c.name)
			}
		}
	}

	classBagZero = append([]string{"0", "0", "0", "0", "0", "0"}, classBag...)
}

func atLeast1(v int) uint64 {
	if v < 1 {
		return 1
	}

	return uint64(v)
}

// wrapTarget draws the k of the wrap-around classes: a number that denotes an existing message in the flavour at hand
// (a position 1..count, or a UID present), so that N = base + k is mapped back onto that message by 32-/64-bit
// wrap-around.
func wrapTarget(t *rapid.T, v *vinfo, uidFlavour bool) uint64 {
	if v.count() == 0 {
		return 1
	}

	if uidFlavour {
		return uint64(rapid.SampledFrom(v.uids).Draw(t, "k"))
	}

	return uint64(rapid.IntRange(1, v.count()).Draw(t, "k"))
}

// genNum draws one number. safe restricts the classes to those inside a non-empty view (sequence flavour).
func genNum(t *rapid.T, v *vinfo, uidFlavour, safe, zeroOK bool) num {
	bag := classBag
	if safe {
		bag = classBagSafe
	} else if zeroOK {
		bag = classBagZero
	}

	cls := rapid.SampledFrom(bag).Draw(t, "class")
	n := num{Cls: cls}

	switch cls {
	case "*":
		n.Star = true
	case "0":
		n.V = big.NewInt(0)
	case "1":
		n.V = big.NewInt(1)
	case "count-1":
		n.V = bigU(atLeast1(v.count() - 1))
	case "count":
		n.V = bigU(atLeast1(v.count()))
	case "count+1":
		n.V = bigU(uint64(v.count() + 1))
	case "mid":
		n.V = bigU(uint64(rapid.IntRange(1, int(atLeast1(v.count()))).Draw(t, "mid")))
	case "uid-present":
		if v.count() == 0 {
			n.V = big.NewInt(1)
		} else {
			n.V = bigU(uint64(rapid.SampledFrom(v.uids).Draw(t, "uid")))
		}
	case "uid-gap":
		n.V = bigU(uint64(rapid.SampledFrom(v.gapUIDs()).Draw(t, "gap")))
	case "maxuid-1":
		n.V = bigU(atLeast1(int(v.maxUID()) - 1))
	case "maxuid+1":
		n.V = bigU(uint64(v.maxUID()) + 1)
	case "2^31-1":
		n.V = bigU(1<<31 - 1)
	case "2^31":
		n.V = bigU(1 << 31)
	case "2^32-1":
		n.V = bigU(1<<32 - 1)
	case "2^32":
		n.V = new(big.Int).Set(big2e32)
	case "2^32+k":
		m := int64(rapid.IntRange(1, 3).Draw(t, "m"))
		n.V = new(big.Int).Mul(big2e32, big.NewInt(m))
		n.V.Add(n.V, bigU(wrapTarget(t, v, uidFlavour)))
	case "2^63-1":
		n.V = new(big.Int).Sub(big2e63, big.NewInt(1))
	case "2^63":
		n.V = new(big.Int).Set(big2e63)
	case "2^64":
		n.V = new(big.Int).Set(big2e64)
	case "2^64+k":
		n.V = new(big.Int).Add(big2e64, bigU(wrapTarget(t, v, uidFlavour)))
	case "10^30+k":
		// the first multiple of 2^64 (or, drawn, only of 2^32) above 10^30, plus k
		base := new(big.Int).Exp(big.NewInt(10), big.NewInt(30), nil)
		mod := big2e64

		if rapid.Bool().Draw(t, "mod32") {
			mod = big2e32
		}

		rem := new(big.Int).Mod(base, mod)
		base.Add(base, new(big.Int).Sub(mod, rem))
		n.V = base.Add(base, bigU(wrapTarget(t, v, uidFlavour)))
	default:
		panic("unknown class " + cls)
	}

	return n
}

// wrapsPastParser tells whether gluon's ParseNumber (int arithmetic, silent 64-bit wrap-around) lets the number through
// as a positive value although it is not an RFC 3501 number (region of the listed finding C16-number-wraps).
func wrapsPastParser(n num) bool {
	if n.Star || n.V.Cmp(bigMaxU32) <= 0 {
		return false
	}

	w := new(big.Int).Mod(n.V, big2e64)

	return w.Sign() > 0 && w.Cmp(big2e63) < 0
}

var shapes = []string{"single", "single", "single", "range", "range", "range", "n:*", "*:n", "*", "*:*"}

func genPart(t *rapid.T, v *vinfo, uidFlavour, safe, zeroOK bool) part {
	star := num{Star: true, Cls: "*"}

	switch rapid.SampledFrom(shapes).Draw(t, "shape") {
	case "single":
		return part{A: genNum(t, v, uidFlavour, safe, zeroOK)}
	case "range": // both orders arise by themselves
		return part{A: genNum(t, v, uidFlavour, safe, zeroOK), B: genNum(t, v, uidFlavour, safe, zeroOK), Range: true}
	case "n:*":
		return part{A: genNum(t, v, uidFlavour, safe, zeroOK), B: star, Range: true}
	case "*:n":
		return part{A: star, B: genNum(t, v, uidFlavour, safe, zeroOK), Range: true}
	case "*":
		return part{A: star}
	default:
		return part{A: star, B: star, Range: true}
	}
}

// genSet draws a union of 1..8 parts.
func genSet(t *rapid.T, v *vinfo, uidFlavour, safe bool) mset {
	n := rapid.SampledFrom([]int{1, 1, 1, 1, 2, 2, 2, 3, 3, 4, 5, 6, 7, 8}).Draw(t, "parts")
	set := make(mset, 0, n)

	// 0 is not an nz-number: it turns the whole command into a syntax error, so it is admitted in few sets only
	zeroOK := !safe && rapid.IntRange(0, 24).Draw(t, "zeroOK") == 11

	for i := 0; i < n; i++ {
		set = append(set, genPart(t, v, uidFlavour, safe, zeroOK))
	}

	return set
}

func shapeLabel(set mset) []string {
	seen := map[string]bool{}

	for _, p := range set {
		switch {
		case !p.Range && p.A.Star:
			seen["shape:*"] = true
		case !p.Range:
			seen["shape:single"] = true
		case p.A.Star && p.B.Star:
			seen["shape:*:*"] = true
		case p.B.Star:
			seen["shape:n:*"] = true
		case p.A.Star:
			seen["shape:*:n"] = true
		case p.A.V.Cmp(p.B.V) > 0:
			seen["shape:range-reversed"] = true
		case p.A.V.Cmp(p.B.V) == 0:
			seen["shape:range-n:n"] = true
		default:
			seen["shape:range"] = true
		}
	}

	if len(set) > 1 {
		seen["shape:union"] = true
	}

	res := make([]string, 0, len(seen)+1)
	for s := range seen {
		res = append(res, s)
	}

	return res
}
