#!/usr/bin/env python3
"""Sensitivity runs of the C16 check (DESIGN.md 4.3): applies one mutation at a time to a scratch worktree of /repo and
runs `./check C16 --tier quick` against it; every line must end with exit=1 VIOLATION=True.

    git -C /repo worktree add --detach /tmp/wt-c16 HEAD
    python3 /verif/props/c16/sensitivity.py [mutation-name ...]
    git -C /repo worktree remove --force /tmp/wt-c16

The four proposed known findings (proposed_known_findings.json) are listed through VERIF_KF_FILE for these runs.
"""
import json, subprocess, sys, os, re, time
os.makedirs('/tmp/c16/mut', exist_ok=True)
_kf = json.load(open('/verif/known_findings.json'))
_have = {k['id'] for k in _kf['known']}
_kf['known'] += [k for k in json.load(open('/verif/props/c16/proposed_known_findings.json')) if k['id'] not in _have]
json.dump(_kf, open('/tmp/c16/known_findings.json', 'w'))
WT='/tmp/wt-c16'
SM=WT+'/internal/state/snapshot_messages.go'
MB=WT+'/internal/state/mailbox.go'
muts = {
 'm1a-existsWithSeqID-always-true': (SM, '''	if index >= listLen {
		return false
	}

	return true
}''', '''	_ = index
	_ = listLen

	return true
}'''),
 'm1b-seq-range-end-clamped': (SM, '''			if !list.existsWithSeqID(seqRange.begin) || !list.existsWithSeqID(seqRange.end) {
				return nil, ErrNoSuchMessage
			}
''', '''			if !list.existsWithSeqID(seqRange.begin) {
				return nil, ErrNoSuchMessage
			}

			if !list.existsWithSeqID(seqRange.end) {
				seqRange.end = imap.SeqID(list.len())
			}
'''),
 'm2-uidRange-no-indexHi++': (SM, '''	indexHi, ok := list.binarySearchByUID(uidHi)
	if ok {
		indexHi++
	}
''', '''	indexHi, _ := list.binarySearchByUID(uidHi)
'''),
 'm3-seq-on-empty-view-accepted': (SM, '''	var res []snapMsgWithSeq

	intervals, err := list.resolveSeqInterval(seqSet)''', '''	var res []snapMsgWithSeq

	if list.len() == 0 {
		return nil, nil
	}

	intervals, err := list.resolveSeqInterval(seqSet)'''),
 'm4-star-is-count-1': (SM, '''	if number == command.SeqNumValueAsterisk {
		return imap.SeqID(list.len()), nil
	}''', '''	if number == command.SeqNumValueAsterisk {
		if list.len() > 1 {
			return imap.SeqID(list.len() - 1), nil
		}

		return imap.SeqID(list.len()), nil
	}'''),
 'm5-reversed-range-empty': (SM, '''			if begin > end {
				if seqRange.End != command.SeqNumValueAsterisk {
					begin, end = end, begin
				} else {
					end = begin
				}
			}

			res = append(res, SeqInterval{''', '''			if begin > end {
				if seqRange.End != command.SeqNumValueAsterisk {
					continue
				} else {
					end = begin
				}
			}

			res = append(res, SeqInterval{'''),
 'm5u-reversed-uid-range-empty': (SM, '''			if begin > end {
				if uidRange.End != command.SeqNumValueAsterisk {
					begin, end = end, begin
				} else {
					end = begin
				}
			}
''', '''			if begin > end {
				if uidRange.End != command.SeqNumValueAsterisk {
					continue
				} else {
					end = begin
				}
			}
'''),
 'm6-union-drops-last-seq': (SM, '''	for _, seqRange := range intervals {
		if seqRange.begin == seqRange.end {
			msg, ok := list.getWithSeqID(seqRange.begin)''', '''	if len(intervals) > 1 {
		intervals = intervals[:len(intervals)-1]
	}

	for _, seqRange := range intervals {
		if seqRange.begin == seqRange.end {
			msg, ok := list.getWithSeqID(seqRange.begin)'''),
 'm6u-union-drops-last-uid': (SM, '''	for _, uidRange := range intervals {
		if uidRange.begin == uidRange.end {
			msg, ok := list.getWithUID(uidRange.begin)''', '''	if len(intervals) > 1 {
		intervals = intervals[:len(intervals)-1]
	}

	for _, uidRange := range intervals {
		if uidRange.begin == uidRange.end {
			msg, ok := list.getWithUID(uidRange.begin)'''),
 'm7-uid-n:*-starts-one-late': (SM, '''			res = append(res, UIDInterval{
				begin: begin,
				end:   end,
			})

		}''', '''			if uidRange.End == command.SeqNumValueAsterisk && begin < end {
				begin++
			}

			res = append(res, UIDInterval{
				begin: begin,
				end:   end,
			})

		}'''),
 'm2b-uidRange-indexHi++-only-for-last': (SM, '''	indexHi, ok := list.binarySearchByUID(uidHi)
	if ok {
		indexHi++
	}
''', '''	indexHi, ok := list.binarySearchByUID(uidHi)
	if ok && indexHi == listLen-1 {
		indexHi++
	}
'''),
 'm7b-uid-n:*-starts-one-late-n>1': (SM, '''			res = append(res, UIDInterval{
				begin: begin,
				end:   end,
			})

		}''', '''			if uidRange.End == command.SeqNumValueAsterisk && begin < end && begin > 1 {
				begin++
			}

			res = append(res, UIDInterval{
				begin: begin,
				end:   end,
			})

		}'''),
 'm6ub-union-drops-last-uid-range': (SM, '''	for _, uidRange := range intervals {
		if uidRange.begin == uidRange.end {
			msg, ok := list.getWithUID(uidRange.begin)''', '''	if n := len(intervals); n > 1 && intervals[n-1].begin != intervals[n-1].end {
		intervals = intervals[:n-1]
	}

	for _, uidRange := range intervals {
		if uidRange.begin == uidRange.end {
			msg, ok := list.getWithUID(uidRange.begin)'''),
 'm8-store-complement': (MB, '''	messages, err := m.snap.getMessagesInRange(ctx, seqSet)
	if err != nil {
		return err
	}

	return stateDBWrite(''', '''	selected, err := m.snap.getMessagesInRange(ctx, seqSet)
	if err != nil {
		return err
	}

	var messages []snapMsgWithSeq

	for _, all := range m.snap.getAllMessages() {
		hit := false

		for _, s := range selected {
			if s.Seq == all.Seq {
				hit = true
			}
		}

		if !hit {
			messages = append(messages, all)
		}
	}

	return stateDBWrite('''),
 'm8b-store-complement-unless-deleted': (MB, '''	messages, err := m.snap.getMessagesInRange(ctx, seqSet)
	if err != nil {
		return err
	}

	return stateDBWrite(''', '''	selected, err := m.snap.getMessagesInRange(ctx, seqSet)
	if err != nil {
		return err
	}

	var messages []snapMsgWithSeq

	for _, all := range m.snap.getAllMessages() {
		hit := false

		for _, s := range selected {
			if s.Seq == all.Seq {
				hit = true
			}
		}

		if hit == flags.ContainsUnchecked(imap.FlagDeletedLowerCase) {
			messages = append(messages, all)
		}
	}

	return stateDBWrite('''),
}
only = sys.argv[1:]
for name,(f,old,new) in muts.items():
    if only and name not in only: continue
    subprocess.run(['git','-C',WT,'checkout','-q','--','.'],check=True)
    s=open(f).read()
    if s.count(old)!=1:
        print(name,'PATTERN COUNT',s.count(old)); continue
    open(f,'w').write(s.replace(old,new))
    t0=time.time()
    env=dict(os.environ, VERIF_REPO_DIR=WT, VERIF_KF_FILE='/tmp/c16/known_findings.json')
    p=subprocess.run(['./check','C16','--tier','quick'],cwd='/verif',env=env,stdout=subprocess.PIPE,stderr=subprocess.STDOUT,text=True)
    out=p.stdout
    open('/tmp/c16/mut/%s.log'%name,'w').write(out)
    viol=[l for l in out.splitlines() if l.startswith('VIOLATION')]
    m=re.search(r'C16 violated: [^\n]*',out)
    cmd=re.search(r'command: [^\n]*',out)
    after=re.search(r'failed after (\d+) tests',out)
    print('%-36s exit=%d %5.1fs VIOLATION=%s after=%s | %s | %s'%(name,p.returncode,time.time()-t0,bool(viol),after.group(1) if after else '-',(m.group(0)[:160] if m else 'BUILD/OTHER: '+out[-300:].replace('\n',' ')),cmd.group(0) if cmd else ''),flush=True)
subprocess.run(['git','-C',WT,'checkout','-q','--','.'],check=True)
