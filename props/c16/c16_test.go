package c16

import (
	"fmt"
	"math/big"
	"sort"
	"strconv"
	"strings"
	"testing"
	"time"

	"github.com/ProtonMail/gluon/imap"
	"pgregory.net/rapid"

	"verif/internal/bed"
	"verif/internal/ev"
	"verif/internal/imapc"
	"verif/internal/kf"
	"verif/internal/mach"
)

// Listed-finding ids of this property (see known_test.go for the scripted regressions).
const (
	kfWrap           = "C16-number-wraps"
	kfSearchSeq      = "C16-search-seq-key-unchecked"
	kfSearchUIDEmpty = "C16-search-uid-key-empty-view"
	kfDup            = "C16-duplicate-in-copy-move"
)

// vm is one message of the session's view.
type vm struct {
	UID   uint32
	Flags []string // as the session sees them (normalised, with \recent)
}

// boxMsg is one message of INBOX as a new session sees it.
type boxMsg struct {
	UID   uint32
	Flags []string
}

type world struct {
	t *rapid.T
	b *bed.Bed
	u *bed.User
	s *bed.Session

	view    []vm              // the session's view of INBOX, in sequence order
	box     []boxMsg          // INBOX (authoritative), includes messages the session has not been told about
	marker  map[uint32]string // INBOX UID -> marker
	dst     map[string]uint32 // mailbox dst: marker -> UID
	dstNext uint32            // UIDNEXT of dst
	everMax uint32            // highest UID ever assigned in INBOX
	hidden  int               // messages in INBOX that are held back from the session by the gate
	step    int
	desc    string // description of the view at creation
	cmd     string // the command under judgement
	exp     *expectation
}

func (w *world) context() string {
	exp := ""
	if w.exp != nil {
		exp = w.exp.String()
	}

	return fmt.Sprintf("view (seq:uid) %s, %d further message(s) in the mailbox not yet announced to the session\ncommand: %s\nprescribed: %s\nhistory:\n%s",
		w.viewString(), w.hidden, w.cmd, exp, w.b.Hist)
}

func (w *world) viewString() string {
	var sb strings.Builder

	sb.WriteString("[")

	for i, m := range w.view {
		fmt.Fprintf(&sb, " %d:%d", i+1, m.UID)
	}

	sb.WriteString(" ]")

	return sb.String()
}

// The summary is printed before and after the history (the driver shows the tail of a long failure output).
func (w *world) violate(format string, a ...any) {
	msg := fmt.Sprintf(format, a...)
	w.t.Fatalf("C16 violated: %s\n%s\n== C16 violated: %s [view %s, command: %s]", msg, w.context(), msg, w.viewString(), w.cmd)
}

func (w *world) harness(format string, a ...any) {
	msg := fmt.Sprintf(format, a...)
	w.t.Fatalf("harness: %s\n%s\n== harness: %s [view %s, command: %s]", msg, w.context(), msg, w.viewString(), w.cmd)
}

// do sends a command. A panic of a gluon goroutine (no tagged response ever arrives) is noticed without waiting for
// the client watchdog.
func (w *world) do(cmd string) *imapc.Result {
	done := make(chan *imapc.Result, 1)

	go func() { done <- w.s.Do(cmd) }()

	tick := time.NewTicker(20 * time.Millisecond)
	defer tick.Stop()

	var r *imapc.Result

wait:
	for {
		select {
		case r = <-done:
			break wait
		case <-tick.C:
			if len(w.b.Panics.Get()) > 0 {
				select {
				case r = <-done:
				case <-time.After(300 * time.Millisecond):
					w.s.Client.Close()
					r = <-done
				}

				break wait
			}
		}
	}

	if err := w.b.CheckPanics(); err != nil {
		w.violate("the command crashed the server: %v", err)
	}

	if r.Err != nil || r.Status == "" {
		w.t.Fatalf("VERIF-INCONCLUSIVE: no tagged response to %q: %v\n%s", cmd, r.Err, w.context())
	}

	return r
}

func (w *world) must(cmd string) *imapc.Result {
	r := w.do(cmd)
	if !r.OK() {
		w.harness("preparation command %q failed: %v", cmd, r)
	}

	return r
}

func (w *world) uids() []uint32 {
	res := make([]uint32, len(w.view))
	for i, m := range w.view {
		res[i] = m.UID
	}

	return res
}

func (w *world) vinfo() *vinfo { return &vinfo{uids: w.uids(), everMax: w.everMax} }

// probe asks the server for the session's view.
func (w *world) probe() []bed.PMsg {
	var got []bed.PMsg

	if _, err := w.s.Probe(func(m []bed.PMsg) error { got = m; return nil }); err != nil {
		if perr := w.b.CheckPanics(); perr != nil {
			w.violate("server crashed: %v", perr)
		}

		w.harness("probe: %v", err)
	}

	return got
}

// syncView checks that the session's view holds exactly the given UIDs (in order) and refreshes the flags.
func (w *world) syncView(want []uint32, what string) {
	got := w.probe()

	ok := len(got) == len(want)
	for i := 0; ok && i < len(got); i++ {
		ok = got[i].UID == want[i] && got[i].Seq == uint32(i+1)
	}

	if !ok {
		w.violate("%s: the session's view is %v afterwards, expected UIDs %v", what, got, want)
	}

	w.view = w.view[:0]
	for _, m := range got {
		w.view = append(w.view, vm{UID: m.UID, Flags: m.Flags})
	}
}

func (w *world) freshInbox() []boxMsg {
	msgs, _, _, ok, err := w.b.FreshView(w.u, "INBOX", false)
	if err != nil || !ok {
		w.harness("fresh view of INBOX: ok=%v err=%v", ok, err)
	}

	res := make([]boxMsg, len(msgs))
	for i, m := range msgs {
		res[i] = boxMsg{UID: m.UID, Flags: m.Flags}
	}

	return res
}

func (w *world) freshDst() (map[string]uint32, uint32) {
	msgs, _, next, ok, err := w.b.FreshView(w.u, "dst", true)
	if err != nil || !ok {
		w.harness("fresh view of dst: ok=%v err=%v", ok, err)
	}

	res := map[string]uint32{}

	for _, m := range msgs {
		mk := mach.MarkerOf(m.Body)
		if _, dup := res[mk]; dup || mk == "" {
			w.violate("mailbox dst holds message %q twice (or an unknown message): %v", mk, msgs)
		}

		res[mk] = m.UID
	}

	return res, next
}

func sameBox(a, b []boxMsg) bool {
	if len(a) != len(b) {
		return false
	}

	for i := range a {
		if a[i].UID != b[i].UID || !imapc.SameFlags(a[i].Flags, b[i].Flags) {
			return false
		}
	}

	return true
}

func hasFlag(flags []string, f string) bool {
	for _, x := range flags {
		if x == f {
			return true
		}
	}

	return false
}

func uidList(uids []uint32) string {
	s := make([]string, len(uids))
	for i, u := range uids {
		s[i] = strconv.FormatUint(uint64(u), 10)
	}

	return strings.Join(s, ",")
}

// ---- building a view ----

func (w *world) deliver(n int) []imap.MessageID {
	if n == 0 {
		return nil
	}

	var (
		mcs []*imap.MessageCreated
		ids []imap.MessageID
	)

	for i := 0; i < n; i++ {
		w.everMax++

		m, mc, err := w.u.Conn.NewRemoteMessage(mach.Msg(fmt.Sprintf("m%d", w.everMax), ""), imap.NewFlagSet(), time.Unix(1600000000, 0), w.u.Inbox.ID)
		if err != nil {
			w.t.Fatalf("harness: %v", err)
		}

		mcs = append(mcs, mc)
		ids = append(ids, m.ID)
	}

	if d := w.b.DeliverNow(w.u, imap.NewMessagesCreated(false, mcs...)); d[0].Err != nil {
		w.t.Fatalf("harness: delivering messages: %v", d[0].Err)
	}

	return ids
}

// learnMarkers reads INBOX with bodies and records UID -> marker.
func (w *world) learnMarkers() {
	msgs, _, _, ok, err := w.b.FreshView(w.u, "INBOX", true)
	if err != nil || !ok {
		w.harness("fresh view of INBOX: ok=%v err=%v", ok, err)
	}

	for _, m := range msgs {
		w.marker[m.UID] = mach.MarkerOf(m.Body)
	}
}

func newWorld(t *rapid.T) *world {
	count := rapid.IntRange(0, 12).Draw(t, "count")
	gapMode := rapid.IntRange(0, 3).Draw(t, "gapMode") // 0 = dense UIDs (sequence number == UID)
	keep := []bool{}

	for i := 0; i <= count; i++ {
		g := 0
		if gapMode > 0 {
			g = rapid.SampledFrom([]int{0, 0, 0, 1, 1, 2}).Draw(t, "gap")
		}

		for j := 0; j < g; j++ {
			keep = append(keep, false)
		}

		if i < count {
			keep = append(keep, true)
		}
	}

	total := len(keep)
	viaConnector := total > count && rapid.Bool().Draw(t, "gapsViaConnector")
	hidden := rapid.SampledFrom([]int{0, 0, 0, 1, 2}).Draw(t, "hidden")
	noPar := rapid.Bool().Draw(t, "noParallel")

	b, err := bed.Start(bed.Options{DisableParallelism: noPar, ClientTimeout: 45 * time.Second}, bed.UserSpec{Name: "user", Pass: "pass"})
	if err != nil {
		t.Fatalf("harness: %v", err)
	}

	w := &world{t: t, b: b, u: b.Users[0], marker: map[uint32]string{}, dst: map[string]uint32{}, dstNext: 1}
	t.Cleanup(w.close)
	w.desc = fmt.Sprintf("count=%d total=%d gapsViaConnector=%v hidden=%d noParallel=%v", count, total, viaConnector, hidden, noPar)

	ids := w.deliver(total)

	s, err := b.Login("s", w.u)
	if err != nil {
		t.Fatalf("harness: %v", err)
	}

	w.s = s
	w.cmd = "(building the view)"
	w.must("CREATE dst")

	if r := s.Select("INBOX", false); !r.OK() {
		w.harness("SELECT: %v", r)
	}

	w.learnMarkers()

	var drop, want []uint32

	for i, k := range keep {
		if k {
			want = append(want, uint32(i+1))
		} else {
			drop = append(drop, uint32(i+1))
		}
	}

	if len(drop) > 0 {
		if viaConnector {
			for _, u := range drop {
				if d := b.DeliverNow(w.u, imap.NewMessagesDeleted(ids[u-1])); d[0].Err != nil {
					w.harness("MessageDeleted: %v", d[0].Err)
				}
			}

			if err := b.Barrier(w.u); err != nil {
				w.harness("barrier: %v", err)
			}

			w.must("NOOP")
		} else {
			w.must("UID STORE " + uidList(drop) + ` +FLAGS.SILENT (\Deleted)`)
			w.must("EXPUNGE")
		}
	}

	w.syncView(want, "building the view")

	if hidden > 0 {
		s.GateClose()
		w.deliver(hidden)
		w.hidden = hidden
		w.learnMarkers()
		w.syncView(want, "messages added behind the closed gate") // they must not be visible to the session
	}

	w.box = w.freshInbox()

	return w
}

func (w *world) close() {
	if w.s != nil {
		w.s.Logout()
	}

	w.b.Destroy()
}

// reveal lets the held-back additions reach the session.
func (w *world) reveal() {
	if w.hidden == 0 {
		return
	}

	w.cmd = "(announcing the held-back messages)"
	w.s.Release(-1)
	w.s.GateOpen()

	if err := w.b.Barrier(w.u); err != nil {
		w.harness("barrier: %v", err)
	}

	w.must("NOOP")

	want := make([]uint32, len(w.box))
	for i, m := range w.box {
		want[i] = m.UID
	}

	w.hidden = 0
	w.syncView(want, "announcing the held-back messages")
}

// ---- judging one command ----

const (
	cFetch      = "FETCH"
	cStore      = "STORE"
	cCopy       = "COPY"
	cMove       = "MOVE"
	cSearch     = "SEARCH"
	cUIDExpunge = "UIDEXPUNGE"
)

// FETCH 4, SEARCH 4, STORE 3, COPY 3, MOVE 2, UID EXPUNGE 2, interleaved (rapid's SampledFrom favours the front)
var kindBag = []string{
	cFetch, cSearch, cStore, cCopy, cMove, cUIDExpunge,
	cSearch, cFetch, cCopy, cStore, cUIDExpunge, cMove,
	cStore, cCopy, cFetch, cSearch, cFetch, cSearch,
}

// judgeStatus compares the tagged response with what is prescribed; it returns true when the command was refused
// (and had to be, or was allowed to be): then it must have had no effect.
func (w *world) judgeStatus(r *imapc.Result) bool {
	e := w.exp
	failed := r.Status == "BAD" || r.Status == "NO"

	switch {
	case e.Bad:
		if r.OK() {
			w.violate("the command was answered %q, it must fail", r.Status+" "+r.Text)
		}

		if r.Status != "BAD" && !e.Oversize {
			w.violate("the command was answered %q, RFC 3501 prescribes BAD", r.Status+" "+r.Text)
		}

		return true

	case r.OK():
		return false

	case e.Oversize && failed:
		return true // not a valid RFC 3501 number: refusing the command is acceptable, selecting some message is not

	default:
		w.violate("the command was answered %q, it must succeed", r.Status+" "+r.Code+" "+r.Text)
		return true
	}
}

// position of a UID in the view, or -1.
func (w *world) posOf(uid uint32) int {
	for i, m := range w.view {
		if m.UID == uid {
			return i
		}
	}

	return -1
}

func (w *world) checkSelection(got []bool, how string) {
	if !w.exp.allowed(got) {
		w.violate("%s: selected positions %s", how, posString(got))
	}
}

// numeric untagged responses other than the ones a command may legitimately produce here
func (w *world) unexpected(u *imapc.Response, kw string) {
	w.violate("unexpected untagged response %q (%s) to this command", u.Raw, kw)
}

func (w *world) runFetch(set mset, uidFl bool) {
	prefix := ""
	if uidFl {
		prefix = "UID "
	}

	w.cmd = prefix + "FETCH " + set.String() + " (UID FLAGS)"
	r := w.do(w.cmd)
	refused := w.judgeStatus(r)
	got := make([]bool, len(w.view))
	lines := 0

	for _, u := range r.Untagged {
		n, kw, ok := u.Num()
		if !ok {
			continue
		}

		if kw != "FETCH" {
			w.unexpected(u, kw)
		}

		lines++

		items, ok := imapc.FetchItems(u)
		if !ok {
			w.violate("malformed FETCH response %q", u.Raw)
		}

		uid, _ := strconv.ParseUint(items["UID"].Str, 10, 64)
		if n < 1 || int(n) > len(w.view) || uint64(w.view[n-1].UID) != uid {
			w.violate("FETCH response %q does not denote a message of the view", u.Raw)
		}

		if got[n-1] {
			ev.Class("note:message-fetched-twice", 1)
		}

		got[n-1] = true
	}

	if refused {
		if lines > 0 {
			w.violate("the refused command returned FETCH data")
		}
	} else {
		w.checkSelection(got, "FETCH data")
	}

	w.syncView(w.uids(), "FETCH")
}

func (w *world) runStore(set mset, uidFl bool, silent bool) {
	prefix, sil := "", ""
	if uidFl {
		prefix = "UID "
	}

	if silent {
		sil = ".SILENT"
	}

	kw := fmt.Sprintf("k%d", w.step)
	w.cmd = fmt.Sprintf("%sSTORE %s +FLAGS%s (%s)", prefix, set, sil, kw)
	before := append([]vm(nil), w.view...)
	r := w.do(w.cmd)
	refused := w.judgeStatus(r)
	gotResp := make([]bool, len(w.view))

	for _, u := range r.Untagged {
		n, k, ok := u.Num()
		if !ok {
			continue
		}

		if k != "FETCH" {
			w.unexpected(u, k)
		}

		items, ok := imapc.FetchItems(u)
		if !ok || n < 1 || int(n) > len(w.view) {
			w.violate("FETCH response %q does not denote a message of the view", u.Raw)
		}

		if t, ok := items["UID"]; ok && t.Str != strconv.FormatUint(uint64(w.view[n-1].UID), 10) {
			w.violate("FETCH response %q does not denote a message of the view", u.Raw)
		}

		if hasFlag(imapc.FlagSet(items["FLAGS"]), kw) {
			gotResp[n-1] = true
		}
	}

	w.syncView(w.uids(), "STORE")

	got := make([]bool, len(w.view))

	for i, m := range w.view {
		got[i] = hasFlag(m.Flags, kw)

		if !imapc.SameFlags(imapc.WithoutFlag(m.Flags, kw), before[i].Flags) {
			w.violate("STORE changed other flags of position %d: %v -> %v", i+1, before[i].Flags, m.Flags)
		}
	}

	if refused {
		if anySel(got) || anySel(gotResp) {
			w.violate("the refused STORE changed flags of positions %s", posString(got))
		}
	} else {
		w.checkSelection(got, "messages that received the flag")

		if !silent && !sameSel(got, gotResp) {
			w.violate("STORE announced the new flag for positions %s but set it on %s", posString(gotResp), posString(got))
		}
	}

	// the mailbox itself
	want := make([]boxMsg, len(w.box))

	for i, m := range w.box {
		want[i] = m

		if p := w.posOf(m.UID); p >= 0 && got[p] {
			want[i].Flags = imapc.NormFlags(append(append([]string(nil), m.Flags...), kw))
		}
	}

	if fresh := w.freshInbox(); !sameBox(fresh, want) {
		w.violate("after STORE the mailbox is %v, expected %v", fresh, want)
	}

	w.box = want
}

// copyUID extracts the COPYUID code ("" if none): source UIDs and destination UIDs.
func (w *world) copyUID(r *imapc.Result) (src, dst []uint32, present bool) {
	codes := []string{r.Code}

	for _, u := range r.Untagged {
		if u.Status == "OK" {
			codes = append(codes, u.Code)
		}
	}

	for _, c := range codes {
		f := strings.Fields(c)
		if len(f) == 4 && strings.EqualFold(f[0], "COPYUID") {
			var err error

			if src, err = parseUIDSet(f[2]); err != nil {
				w.violate("COPYUID: %v", err)
			}

			if dst, err = parseUIDSet(f[3]); err != nil {
				w.violate("COPYUID: %v", err)
			}

			return src, dst, true
		}
	}

	return nil, nil, false
}

// expunged applies the untagged EXPUNGE responses of r to the view and returns the removed positions.
func (w *world) expunged(r *imapc.Result, allowOK bool) []bool {
	removed := make([]bool, len(w.view))
	idx := make([]int, len(w.view)) // current list of original positions

	for i := range idx {
		idx[i] = i
	}

	for _, u := range r.Untagged {
		n, kw, ok := u.Num()
		if !ok {
			continue
		}

		if kw != "EXPUNGE" {
			w.unexpected(u, kw)
		}

		if n < 1 || int(n) > len(idx) {
			w.violate("%q: no such sequence number (the client's view holds %d messages at that point)", u.Raw, len(idx))
		}

		removed[idx[n-1]] = true
		idx = append(idx[:n-1], idx[n:]...)
	}

	return removed
}

func (w *world) runCopyMove(set mset, uidFl bool, move bool) {
	prefix, verb := "", "COPY"
	if uidFl {
		prefix = "UID "
	}

	if move {
		verb = "MOVE"
	}

	w.cmd = fmt.Sprintf("%s%s %s dst", prefix, verb, set)
	r := w.do(w.cmd)
	refused := w.judgeStatus(r)
	src, dstUIDs, present := w.copyUID(r)
	got := make([]bool, len(w.view))

	for _, u := range src {
		p := w.posOf(u)
		if p < 0 {
			w.violate("COPYUID names source UID %d, which is not in the view", u)
		}

		got[p] = true
	}

	var removed []bool
	if move {
		removed = w.expunged(r, true)
	} else {
		for _, u := range r.Untagged {
			if _, kw, ok := u.Num(); ok {
				w.unexpected(u, kw)
			}
		}

		removed = make([]bool, len(w.view))
	}

	if refused {
		if present || anySel(removed) {
			w.violate("the refused %s reported copied / removed messages", verb)
		}
	} else {
		w.checkSelection(got, "COPYUID source set")

		if move && !sameSel(got, removed) {
			w.violate("MOVE copied positions %s but removed positions %s", posString(got), posString(removed))
		}
	}

	// destination: exactly the selected messages arrived (re-added under new UIDs), everything else untouched
	newUID := map[uint32]bool{}
	for _, u := range dstUIDs {
		newUID[u] = true
	}

	nSel := 0
	wantDst := map[string]uint32{}

	for mk, u := range w.dst {
		wantDst[mk] = u
	}

	for i, sel := range got {
		if sel {
			nSel++
			wantDst[w.marker[w.view[i].UID]] = 0 // some new UID
		}
	}

	if len(dstUIDs) != nSel {
		w.violate("COPYUID lists %d source and %d destination UIDs", nSel, len(dstUIDs))
	}

	gotDst, next := w.freshDst()
	if len(gotDst) != len(wantDst) {
		w.violate("after %s mailbox dst holds %v, expected the messages %v", verb, gotDst, wantDst)
	}

	for mk, want := range wantDst {
		have, ok := gotDst[mk]

		switch {
		case !ok:
			w.violate("after %s mailbox dst lacks message %s: %v", verb, mk, gotDst)
		case want != 0 && have != want:
			w.violate("after %s message %s, which was not selected, changed its UID in dst from %d to %d", verb, mk, want, have)
		case want == 0 && (have < w.dstNext || !newUID[have]):
			w.violate("after %s message %s is in dst under UID %d, not a new UID named by COPYUID %v", verb, mk, have, dstUIDs)
		}
	}

	w.dst, w.dstNext = gotDst, next

	// source
	var (
		wantBox  []boxMsg
		wantView []uint32
	)

	for _, m := range w.box {
		if p := w.posOf(m.UID); p >= 0 && removed[p] {
			continue
		}

		wantBox = append(wantBox, m)
	}

	for i, m := range w.view {
		if !removed[i] {
			wantView = append(wantView, m.UID)
		}
	}

	if fresh := w.freshInbox(); !sameBox(fresh, wantBox) {
		w.violate("after %s the source mailbox is %v, expected %v", verb, fresh, wantBox)
	}

	w.box = wantBox
	w.syncView(wantView, verb)
}

func (w *world) runUIDExpunge(set mset, deleted []bool) {
	var del []uint32

	for i, d := range deleted {
		if d {
			del = append(del, w.view[i].UID)
		}
	}

	w.cmd = "(marking messages \\Deleted)"

	if len(del) > 0 {
		w.must("UID STORE " + uidList(del) + ` +FLAGS.SILENT (\Deleted)`)
	}

	w.box = w.freshInbox()
	w.cmd = "UID EXPUNGE " + set.String()
	r := w.do(w.cmd)
	refused := w.judgeStatus(r)
	removed := w.expunged(r, false)

	if refused {
		if anySel(removed) {
			w.violate("the refused UID EXPUNGE removed positions %s", posString(removed))
		}
	} else {
		// removed = (selected) ∩ (\Deleted) for an acceptable selection
		and := func(sel []bool) []bool {
			res := make([]bool, len(sel))
			for i := range sel {
				res[i] = sel[i] && deleted[i]
			}

			return res
		}

		ok := sameSel(removed, and(w.exp.Sel))

		if !ok && w.exp.OptLast && len(w.view) > 0 {
			alt := append([]bool(nil), w.exp.Sel...)
			alt[len(alt)-1] = true
			ok = sameSel(removed, and(alt))
		}

		if !ok {
			w.violate("UID EXPUNGE removed positions %s; marked \\Deleted were %s", posString(removed), posString(deleted))
		}
	}

	var (
		wantBox  []boxMsg
		wantView []uint32
		rest     []uint32
	)

	for _, m := range w.box {
		if p := w.posOf(m.UID); p >= 0 && removed[p] {
			continue
		}

		wantBox = append(wantBox, m)
	}

	for i, m := range w.view {
		if !removed[i] {
			wantView = append(wantView, m.UID)

			if deleted[i] {
				rest = append(rest, m.UID)
			}
		}
	}

	if fresh := w.freshInbox(); !sameBox(fresh, wantBox) {
		w.violate("after UID EXPUNGE the mailbox is %v, expected %v", fresh, wantBox)
	}

	w.syncView(wantView, "UID EXPUNGE")

	w.cmd = "(clearing \\Deleted)"

	if len(rest) > 0 {
		w.must("UID STORE " + uidList(rest) + ` -FLAGS.SILENT (\Deleted)`)
	}

	w.box = w.freshInbox()
	w.syncView(wantView, "clearing \\Deleted")
}

func (w *world) runSearch(set mset, keyUID, resUID, neg bool) {
	var sb strings.Builder

	if resUID {
		sb.WriteString("UID ")
	}

	sb.WriteString("SEARCH ")

	if neg {
		sb.WriteString("NOT ")
	}

	if keyUID {
		sb.WriteString("UID ")
	}

	sb.WriteString(set.String())

	w.cmd = sb.String()
	r := w.do(w.cmd)
	refused := w.judgeStatus(r)
	got := make([]bool, len(w.view))
	lines := 0

	for _, u := range r.Untagged {
		if _, kw, ok := u.Num(); ok {
			w.unexpected(u, kw)
		}

		if u.Tag != "*" || u.Keyword() != "SEARCH" {
			continue
		}

		lines++

		for _, tok := range u.Tokens[1:] {
			v, err := strconv.ParseUint(tok.Str, 10, 32)
			if err != nil {
				w.violate("malformed SEARCH response %q", u.Raw)
			}

			p := int(v) - 1
			if resUID {
				p = w.posOf(uint32(v))
			}

			if p < 0 || p >= len(w.view) {
				w.violate("SEARCH response %q names %d, which is not in the view", u.Raw, v)
			}

			got[p] = true
		}
	}

	if refused {
		if lines > 0 {
			w.violate("the refused SEARCH returned a SEARCH response")
		}
	} else {
		if neg {
			for i := range got {
				got[i] = !got[i]
			}
		}

		w.checkSelection(got, "SEARCH result (complemented under NOT)")
	}

	w.syncView(w.uids(), "SEARCH")
}

// ---- one (view, set, command) case ----

func (w *world) stepOnce() {
	t := w.t
	w.step++
	w.exp = nil

	var labels []string

	kind := rapid.SampledFrom(kindBag).Draw(t, "cmd")

	if (kind == cMove || kind == cUIDExpunge) && w.hidden > 0 {
		// the session is about to remove messages from its own selected mailbox while additions are queued for it:
		// listed finding C01-own-change-overtakes-queued-updates; announce them first (they join the view)
		w.reveal()
	}

	uidFl := kind == cUIDExpunge || rapid.Bool().Draw(t, "uidFlavour")
	vi := w.vinfo()
	safe := !uidFl && vi.count() > 0 && rapid.IntRange(0, 99).Draw(t, "safeMode") < 45
	set := genSet(t, vi, uidFl, safe)
	excluded := false

	// listed finding: numbers that gluon's parser lets through although they exceed 32 bits. Keep them oversize and
	// congruent to the same small number modulo 2^32, but in the region the parser does reject.
	if kf.Listed(kfWrap) {
		fix := func(n *num) {
			if wrapsPastParser(*n) {
				n.V = new(big.Int).Add(n.V, big2e63)
				excluded = true

				labels = append(labels, "steered:"+kfWrap)
			}
		}

		for i := range set {
			fix(&set[i].A)

			if set[i].Range {
				fix(&set[i].B)
			}
		}
	}

	exp := resolve(vi.uids, set, uidFl)

	if kind == cSearch && !uidFl && exp.Beyond && kf.Listed(kfSearchSeq) {
		excluded = true

		labels = append(labels, "steered:"+kfSearchSeq)

		if vi.count() > 0 {
			set = genSet(t, vi, false, true)
		} else {
			uidFl = true
		}

		exp = resolve(vi.uids, set, uidFl)
	}

	if kind == cSearch && uidFl && vi.count() == 0 && kf.Listed(kfSearchUIDEmpty) {
		excluded = true
		kind = cFetch

		labels = append(labels, "steered:"+kfSearchUIDEmpty)
	}

	if (kind == cCopy || kind == cMove) && !exp.Bad && exp.Dup && kf.Listed(kfDup) {
		excluded = true

		labels = append(labels, "steered:"+kfDup)

		sel := make([]bool, vi.count())
		kept := mset{}

		for _, p := range set {
			if !overlapping(vi.uids, p, uidFl, sel) {
				kept = append(kept, p)
			}
		}

		set = kept
		exp = resolve(vi.uids, set, uidFl)
	}

	if excluded {
		ev.Excluded(1)
	}

	w.exp = exp
	viewBefore := fmt.Sprint(vi.uids)
	hiddenBefore := w.hidden
	variant := ""

	switch kind {
	case cFetch:
		w.runFetch(set, uidFl)
	case cStore:
		silent := rapid.Bool().Draw(t, "silent")
		if silent {
			variant = "silent"
		}

		w.runStore(set, uidFl, silent)
	case cCopy:
		w.runCopyMove(set, uidFl, false)
	case cMove:
		w.runCopyMove(set, uidFl, true)
	case cUIDExpunge:
		deleted := make([]bool, vi.count())
		all := rapid.Bool().Draw(t, "deleteAll")

		for i := range deleted {
			deleted[i] = all || rapid.Bool().Draw(t, "deleted")
		}

		w.runUIDExpunge(set, deleted)
	case cSearch:
		resUID := rapid.Bool().Draw(t, "uidSearch")
		neg := rapid.IntRange(0, 4).Draw(t, "not") == 0
		variant = fmt.Sprintf("resultUID=%v not=%v", resUID, neg)

		if resUID {
			labels = append(labels, "search:uid-result")
		}

		if neg {
			labels = append(labels, "search:not")
		}

		w.runSearch(set, uidFl, resUID, neg)
	}

	if len(w.s.Mirror.Problems) > 0 {
		w.violate("response stream inconsistent with the client's view: %v", w.s.Mirror.Problems)
	}

	// evidence
	flavour := "seq"
	if uidFl {
		flavour = "uid"
	}

	labels = append(labels, "cmd:"+kind, "flavour:"+flavour, "cmd:"+kind+"/"+flavour)

	seen := map[string]bool{}
	for _, n := range set.nums() {
		if !seen[n.Cls] {
			seen[n.Cls] = true

			labels = append(labels, "num:"+n.Cls)
		}
	}

	labels = append(labels, shapeLabel(set)...)

	switch {
	case vi.count() == 0:
		labels = append(labels, "view:empty")
	case vi.count() == 1:
		labels = append(labels, "view:1")
	case vi.count() <= 5:
		labels = append(labels, "view:2-5")
	default:
		labels = append(labels, "view:6+")
	}

	if vi.count() > 0 && int(vi.maxUID()) != vi.count() {
		labels = append(labels, "view:uid-gaps")
	}

	if hiddenBefore > 0 {
		labels = append(labels, "view:mailbox-ahead-of-view")
	}

	switch {
	case exp.Zero:
		labels = append(labels, "expect:BAD-zero")
	case exp.Bad:
		labels = append(labels, "expect:BAD-beyond")
	case !anySel(exp.Sel):
		labels = append(labels, "expect:OK-nothing")
	case allSel(exp.Sel):
		labels = append(labels, "expect:OK-all")
	default:
		labels = append(labels, "expect:OK-some")
	}

	if exp.Oversize {
		labels = append(labels, "set:above-2^32-1")
	}

	if exp.OptLast {
		labels = append(labels, "set:unjudged-n:*-above-max")
	}

	if exp.Dup {
		labels = append(labels, "set:message-named-twice")
	}

	if exp.Beyond {
		labels = append(labels, "set:beyond-view")
	}

	if exp.TouchEnd {
		labels = append(labels, "set:range-touches-end")
	}

	sort.Strings(labels)
	ev.Case(exp.nontrivial(), ev.Hash(viewBefore, hiddenBefore, w.cmd), labels...)

	{
		ev.Sample(map[string]any{"view_uids": viewBefore, "unannounced": hiddenBefore, "command": w.cmd, "variant": variant, "prescribed": exp.String()})
	}
}

func runView(t *rapid.T) {
	w := newWorld(t)

	n := rapid.IntRange(8, 12).Draw(t, "sets")
	for i := 0; i < n; i++ {
		w.stepOnce()
	}

	if err := w.b.CheckPanics(); err != nil {
		t.Fatalf("C16: %v\n%s", err, w.b.Hist)
	}

	ev.Class("views", 1)
}

func TestC16Sets(t *testing.T) {
	ev.Checks(600, 2400)
	rapid.Check(t, runView)
}
