package c17

import (
	"context"
	"fmt"
	"sort"
	"strconv"
	"strings"
	"time"

	"github.com/ProtonMail/gluon/db"
	"github.com/ProtonMail/gluon/imap"

	"verif/internal/bed"
	"verif/internal/imapc"
	"verif/internal/mach"
)

const recoveryName = "Recovered Messages"

// msgObs is one message as a fresh session sees it.
type msgObs struct {
	UID    uint32
	Marker string
	Flags  []string // normalised, without \recent
}

// boxObs is one mailbox row: the server's own accounting plus the content a fresh session sees.
type boxObs struct {
	Name     string
	ID       imap.InternalMailboxID
	RemoteID imap.MailboxID

	// server's own accounting (what the limit checks read)
	DBCount    int
	DBUIDNext  uint32
	DBValidity uint32

	// fresh view
	Examined bool
	Validity uint32
	UIDNext  uint32
	Msgs     []msgObs
}

func (b *boxObs) has(marker string) bool {
	for _, m := range b.Msgs {
		if m.Marker == marker {
			return true
		}
	}

	return false
}

func (b *boxObs) markers() []string {
	r := make([]string, len(b.Msgs))
	for i, m := range b.Msgs {
		r[i] = m.Marker
	}

	return r
}

func (b *boxObs) clone() *boxObs {
	c := *b
	c.Msgs = append([]msgObs(nil), b.Msgs...)

	return &c
}

func (b *boxObs) String() string {
	var sb strings.Builder

	fmt.Fprintf(&sb, "%q validity=%d uidnext=%d count=%d [", b.Name, b.Validity, b.UIDNext, len(b.Msgs))

	for i, m := range b.Msgs {
		if i > 0 {
			sb.WriteByte(' ')
		}

		fmt.Fprintf(&sb, "%d:%s%v", m.UID, m.Marker, m.Flags)
	}

	sb.WriteString("]")

	return sb.String()
}

// obs is one observation of the whole user: every mailbox row, LIST and the number of rows.
type obs struct {
	Rows  int
	List  []string // sorted "name attrs"
	Boxes map[string]*boxObs
}

func (o *obs) names() []string {
	r := make([]string, 0, len(o.Boxes))
	for n := range o.Boxes {
		r = append(r, n)
	}

	sort.Strings(r)

	return r
}

func (o *obs) clone() *obs {
	c := &obs{Rows: o.Rows, List: append([]string(nil), o.List...), Boxes: map[string]*boxObs{}}
	for n, b := range o.Boxes {
		c.Boxes[n] = b.clone()
	}

	return c
}

func (o *obs) String() string {
	var sb strings.Builder

	fmt.Fprintf(&sb, "rows=%d list=%v\n", o.Rows, o.List)

	for _, n := range o.names() {
		fmt.Fprintf(&sb, "  %s\n", o.Boxes[n])
	}

	return sb.String()
}

// dbAccounting reads the mailbox rows and the per-mailbox (count, next UID) through the server's own database layer.
func dbAccounting(b *bed.Bed, u *bed.User) (int, []*boxObs, error) {
	ctx, cancel := context.WithTimeout(context.Background(), 60*time.Second)
	defer cancel()

	var (
		rows  int
		boxes []*boxObs
	)

	err := b.Server.VerifDBRead(ctx, u.ID, func(ctx context.Context, r db.ReadOnly) error {
		n, err := r.GetMailboxCount(ctx)
		if err != nil {
			return err
		}

		rows = n

		mbs, err := r.GetAllMailboxesWithAttr(ctx)
		if err != nil {
			return err
		}

		boxes = boxes[:0]

		for _, mb := range mbs {
			count, uid, err := r.GetMailboxMessageCountAndUID(ctx, mb.ID)
			if err != nil {
				return err
			}

			boxes = append(boxes, &boxObs{
				Name: mb.Name, ID: mb.ID, RemoteID: mb.RemoteID,
				DBCount: count, DBUIDNext: uint32(uid), DBValidity: uint32(mb.UIDValidity),
			})
		}

		return nil
	})

	return rows, boxes, err
}

// waitStatesGone waits (bounded; not a correctness signal) until only the given states of the user are left, so that
// a throw-away session never takes part in a later barrier.
func waitStatesGone(b *bed.Bed, u *bed.User, keep []int64) {
	k := map[int64]bool{}
	for _, id := range keep {
		k[id] = true
	}

	for i := 0; i < 4000; i++ {
		extra := false

		for _, id := range b.Server.VerifStateIDs(u.ID) {
			if !k[id] {
				extra = true
			}
		}

		if !extra {
			return
		}

		time.Sleep(500 * time.Microsecond)

		if i > 200 {
			time.Sleep(5 * time.Millisecond)
		}
	}
}

// observe opens ONE new connection (a fresh session: it reads the committed state, nothing is queued for it),
// LISTs, EXAMINEs every mailbox row the database holds and fetches UID, FLAGS and ENVELOPE (the subject is the marker).
func observe(b *bed.Bed, u *bed.User) (*obs, error) {
	rows, boxes, err := dbAccounting(b, u)
	if err != nil {
		return nil, fmt.Errorf("db accounting: %w", err)
	}

	o := &obs{Rows: rows, Boxes: map[string]*boxObs{}}

	for _, bx := range boxes {
		if _, dup := o.Boxes[bx.Name]; dup {
			return nil, fmt.Errorf("two mailbox rows named %q", bx.Name)
		}

		o.Boxes[bx.Name] = bx
	}

	before := b.Server.VerifStateIDs(u.ID)

	c, err := imapc.Dial(b.Addr, "ob", nil, b.Opts.ClientTimeout)
	if err != nil {
		return nil, err
	}

	defer waitStatesGone(b, u, before)
	defer c.Close()

	if r := c.Cmdf("LOGIN %s %s", bed.Quote(u.Name), bed.Quote(u.Pass)); !r.OK() {
		return nil, fmt.Errorf("observer login: %v", r)
	}

	defer c.Cmd("LOGOUT")

	lr := c.Cmd(`LIST "" "*"`)
	if !lr.OK() {
		return nil, fmt.Errorf("observer LIST: %v", lr)
	}

	for _, un := range lr.Untagged {
		if un.Keyword() != "LIST" || len(un.Tokens) < 4 {
			continue
		}

		// \Marked / \Unmarked follow \Recent, which the harness' own SELECTs clear: not part of the comparison
		var attrs []string

		for _, a := range un.Tokens[1].Items {
			if l := strings.ToLower(a.Str); l != `\marked` && l != `\unmarked` {
				attrs = append(attrs, l)
			}
		}

		sort.Strings(attrs)
		o.List = append(o.List, un.Tokens[3].Str+" ("+strings.Join(attrs, " ")+")")
	}

	sort.Strings(o.List)

	for _, name := range o.names() {
		bx := o.Boxes[name]

		r := c.Cmdf("EXAMINE %s", bed.Quote(name))
		if r.Err != nil {
			return nil, r.Err
		}

		if !r.OK() {
			continue
		}

		bx.Examined = true
		count := -1

		for _, un := range r.Untagged {
			if n, kw, k := un.Num(); k && kw == "EXISTS" {
				count = int(n)
			}

			if un.Status == "OK" {
				f := strings.Fields(un.Code)
				if len(f) == 2 {
					v, _ := strconv.ParseUint(f[1], 10, 32)

					switch strings.ToUpper(f[0]) {
					case "UIDVALIDITY":
						bx.Validity = uint32(v)
					case "UIDNEXT":
						bx.UIDNext = uint32(v)
					}
				}
			}
		}

		// ENVELOPE is answered from the database (the subject carries the marker): no store read per message
		fr := c.Cmd("UID FETCH 1:* (FLAGS ENVELOPE)")
		if !fr.OK() {
			return nil, fmt.Errorf("observer fetch in %s: %v", name, fr)
		}

		type row struct {
			seq uint32
			m   msgObs
		}

		var rws []row

		for _, un := range fr.Untagged {
			n, kw, k := un.Num()
			if !k || kw != "FETCH" {
				continue
			}

			it, k := imapc.FetchItems(un)
			if !k {
				return nil, fmt.Errorf("observer: malformed FETCH %s", un.Raw)
			}

			uid, _ := strconv.ParseUint(it["UID"].Str, 10, 32)
			rws = append(rws, row{n, msgObs{
				UID:    uint32(uid),
				Marker: envelopeSubject(it["ENVELOPE"]),
				Flags:  imapc.WithoutFlag(imapc.FlagSet(it["FLAGS"]), `\recent`),
			}})
		}

		sort.Slice(rws, func(i, j int) bool { return rws[i].seq < rws[j].seq })

		for i, rw := range rws {
			if rw.seq != uint32(i+1) {
				return nil, fmt.Errorf("observer: %s: sequence numbers not dense (%d at position %d)", name, rw.seq, i+1)
			}

			if i > 0 && rws[i-1].m.UID >= rw.m.UID {
				return nil, fmt.Errorf("observer: %s: UIDs not ascending (%d then %d)", name, rws[i-1].m.UID, rw.m.UID)
			}

			bx.Msgs = append(bx.Msgs, rw.m)
		}

		if count >= 0 && count != len(bx.Msgs) {
			return nil, fmt.Errorf("observer: %s: EXISTS %d but %d messages fetched", name, count, len(bx.Msgs))
		}
	}

	if b.Hist != nil {
		b.Hist.Add("observe: %s", strings.ReplaceAll(strings.TrimSpace(o.String()), "\n", " |"))
	}

	return o, nil
}

// envelopeSubject returns the subject of an ENVELOPE token (mach.Msg writes the marker there).
func envelopeSubject(t imapc.Token) string {
	if t.Kind != imapc.List || len(t.Items) < 2 || t.Items[1].IsNil() {
		return ""
	}

	return t.Items[1].Str
}

// diffBoxes lists the differences between two observations of a mailbox ("" = identical), flags included.
func diffBox(a, b *boxObs) string {
	switch {
	case a.Validity != b.Validity || a.DBValidity != b.DBValidity:
		return fmt.Sprintf("UIDVALIDITY %d/%d -> %d/%d", a.Validity, a.DBValidity, b.Validity, b.DBValidity)
	case a.UIDNext != b.UIDNext || a.DBUIDNext != b.DBUIDNext:
		return fmt.Sprintf("UIDNEXT %d -> %d (database %d -> %d)", a.UIDNext, b.UIDNext, a.DBUIDNext, b.DBUIDNext)
	case a.DBCount != b.DBCount || len(a.Msgs) != len(b.Msgs):
		return fmt.Sprintf("message count %d -> %d (database %d -> %d): %v -> %v", len(a.Msgs), len(b.Msgs), a.DBCount, b.DBCount, a.markers(), b.markers())
	case a.RemoteID != b.RemoteID || a.ID != b.ID:
		return fmt.Sprintf("mailbox identity %v/%v -> %v/%v", a.ID, a.RemoteID, b.ID, b.RemoteID)
	}

	for i := range a.Msgs {
		x, y := a.Msgs[i], b.Msgs[i]
		if x.UID != y.UID || x.Marker != y.Marker {
			return fmt.Sprintf("position %d: %d:%s -> %d:%s", i+1, x.UID, x.Marker, y.UID, y.Marker)
		}

		if !imapc.SameFlags(x.Flags, y.Flags) {
			return fmt.Sprintf("flags of %d:%s: %v -> %v", x.UID, x.Marker, x.Flags, y.Flags)
		}
	}

	return ""
}

// diffObs compares two observations; mailboxes named in skip are left out (also from the LIST comparison).
// flags=false ignores message flags and the LIST lines (expected-state comparisons of accepted operations: the
// attributes LIST reports are C14's subject; the set of names is checked against the rows in every observation).
func diffObs(a, b *obs, flags bool, skip ...string) []string {
	var res []string

	skipped := func(name string) bool {
		for _, s := range skip {
			if s == name {
				return true
			}
		}

		return false
	}

	if a.Rows != b.Rows {
		res = append(res, fmt.Sprintf("mailbox rows %d -> %d", a.Rows, b.Rows))
	}

	filter := func(l []string) []string {
		var r []string

		for _, x := range l {
			keep := true

			for _, s := range skip {
				if strings.HasPrefix(x, s+" ") {
					keep = false
				}
			}

			if keep {
				r = append(r, x)
			}
		}

		return r
	}

	if la, lb := filter(a.List), filter(b.List); flags && strings.Join(la, "|") != strings.Join(lb, "|") {
		res = append(res, fmt.Sprintf("LIST %v -> %v", la, lb))
	}

	for _, n := range a.names() {
		if skipped(n) {
			continue
		}

		bb, ok := b.Boxes[n]
		if !ok {
			res = append(res, fmt.Sprintf("mailbox %q disappeared", n))
			continue
		}

		aa := a.Boxes[n]

		if !flags {
			aa, bb = aa.clone(), bb.clone()

			for i := range aa.Msgs {
				aa.Msgs[i].Flags = nil
			}

			for i := range bb.Msgs {
				bb.Msgs[i].Flags = nil
			}
		}

		if d := diffBox(aa, bb); d != "" {
			res = append(res, fmt.Sprintf("mailbox %q: %s", n, d))
		}
	}

	for _, n := range b.names() {
		if _, ok := a.Boxes[n]; !ok && !skipped(n) {
			res = append(res, fmt.Sprintf("mailbox %q appeared", n))
		}
	}

	return res
}

// remoteSnap is the connector's remote model: mailbox ids with names, and per message the mailboxes holding it.
func remoteSnap(u *bed.User) []string {
	var res []string

	u.Conn.Lock(func() {
		for id, mb := range u.Conn.Mailboxes {
			res = append(res, fmt.Sprintf("mailbox %s=%s", id, strings.Join(mb.Name, "/")))
		}

		for id, m := range u.Conn.Messages {
			var boxes []string
			for b := range m.Boxes {
				boxes = append(boxes, string(b))
			}

			sort.Strings(boxes)
			res = append(res, fmt.Sprintf("message %s (%s) in %v", id, mach.MarkerOf(string(m.Literal)), boxes))
		}
	})

	sort.Strings(res)

	return res
}

func diffStrings(a, b []string) []string {
	in := func(l []string, x string) bool {
		for _, y := range l {
			if x == y {
				return true
			}
		}

		return false
	}

	var res []string

	for _, x := range a {
		if !in(b, x) {
			res = append(res, "- "+x)
		}
	}

	for _, x := range b {
		if !in(a, x) {
			res = append(res, "+ "+x)
		}
	}

	return res
}
