package c17

import (
	"fmt"
	"math"
	"sort"
	"strconv"
	"strings"
	"testing"
	"time"

	"github.com/ProtonMail/gluon/imap"
	"github.com/ProtonMail/gluon/limits"
	"pgregory.net/rapid"

	"verif/internal/bed"
	"verif/internal/ev"
	"verif/internal/imapc"
	"verif/internal/kf"
	"verif/internal/mach"
)

// Listed-finding ids (proposed entries: proposed_known_findings.json; scripted regressions: known_test.go).
const (
	// State.Create checks the number of mailboxes once and then creates every missing level.
	kfCreateLevels = "C17-create-levels-checked-once"
	// AppendRegular checks the limits in a read that precedes the write transaction.
	kfAppendRace = "C17-append-limit-check-outside-transaction"
	// A refused APPEND is parked in the recovery mailbox, which no limit applies to.
	kfRecovery = "C17-recovery-mailbox-unlimited"
	// COPY / MOVE call the connector before the limit check of the destination: a refused command has changed the remote.
	kfRemoteFirst = "C17-connector-called-before-limit-check"
	// RENAME creates the missing superiors of the new name (RENAME INBOX: a new mailbox) without any limit check.
	kfRename = "C17-rename-creates-mailboxes-unchecked"
)

type config struct {
	MaxMbox, MaxMsg, MaxUID int
	VMode                   string // huge | incr | below
	MaxValidity             uint32 // incr: drawn; below: fixed after the prefill
}

func (c config) String() string {
	return fmt.Sprintf("limits(maxMailboxes=%d maxMessages=%d maxUID=%d uidvalidity=%s/%d)", c.MaxMbox, c.MaxMsg, c.MaxUID, c.VMode, c.MaxValidity)
}

func (c config) limits(validity uint32) *limits.IMAP {
	l := limits.NewIMAPLimits(uint32(c.MaxMbox), uint32(c.MaxMsg), imap.UID(c.MaxUID), imap.UID(validity))
	return &l
}

func drawConfig(t *rapid.T) config {
	c := config{
		MaxMbox: rapid.IntRange(2, 8).Draw(t, "maxMailboxes"),
		MaxMsg:  rapid.IntRange(0, 8).Draw(t, "maxMessages"),
		MaxUID:  rapid.IntRange(1, 14).Draw(t, "maxUID"),
		VMode:   []string{"huge", "huge", "huge", "incr", "incr", "below"}[rapid.IntRange(0, 5).Draw(t, "validityMode")],
	}

	switch c.VMode {
	case "incr":
		c.MaxValidity = uint32(rapid.IntRange(3, 14).Draw(t, "maxUIDValidity"))
	default:
		c.MaxValidity = math.MaxUint32
	}

	return c
}

type env struct {
	t    *rapid.T
	b    *bed.Bed
	u    *bed.User
	cfg  config
	gen  *imap.IncrementalUIDValidityGenerator
	sess []*bed.Session
	cur  *obs

	validityLimited bool            // the UIDVALIDITY limit is in force
	exempt          map[imap.InternalMailboxID]bool // mailboxes created before it came into force (below mode)

	ops        []string
	labels     map[string]bool
	nontrivial bool
	nMark      int
	nName      int
	exclRec    bool
}

func (e *env) op(format string, a ...any) { e.ops = append(e.ops, fmt.Sprintf(format, a...)) }

func (e *env) label(l string) {
	e.labels[l] = true
	ev.Class("n:"+l, 1)
}

func (e *env) fail(format string, a ...any) {
	e.t.Fatalf("C17 violated: "+format+"\nconfiguration: %s\noperations:\n  %s\nhistory:\n%s",
		append(a, e.cfg, strings.Join(e.ops, "\n  "), e.b.Hist)...)
}

func (e *env) harness(format string, a ...any) {
	e.t.Fatalf("harness: "+format+"\nconfiguration: %s\noperations:\n  %s\nhistory:\n%s",
		append(a, e.cfg, strings.Join(e.ops, "\n  "), e.b.Hist)...)
}

func (e *env) marker() string { e.nMark++; return "m" + strconv.Itoa(e.nMark) }

func (e *env) segment() string { e.nName++; return "n" + strconv.Itoa(e.nName) }

func (e *env) barrier() {
	if err := e.b.Barrier(e.u); err != nil {
		panic(fmt.Sprintf("VERIF-INCONCLUSIVE: barrier: %v", err))
	}
}

func (e *env) login(i int) {
	s, err := e.b.Login(fmt.Sprintf("s%d", i), e.u)
	if err != nil {
		e.harness("login: %v", err)
	}

	for len(e.sess) <= i {
		e.sess = append(e.sess, nil)
	}

	e.sess[i] = s
}

func (e *env) closeSessions() {
	for i, s := range e.sess {
		if s != nil {
			s.Logout()
			e.sess[i] = nil
		}
	}
}

// ---- safety: the limits hold in every observation ----

func (e *env) observe(after string) *obs {
	if err := e.b.CheckPanics(); err != nil {
		e.fail("%v", err)
	}

	o, err := observe(e.b, e.u)
	if err != nil {
		e.harness("observation after %s: %v", after, err)
	}

	if o.Rows != len(o.Boxes) {
		e.harness("after %s: GetMailboxCount says %d rows, GetAllMailboxesWithAttr lists %d", after, o.Rows, len(o.Boxes))
	}

	if o.Rows > e.cfg.MaxMbox {
		e.fail("after %s: the user has %d mailboxes (rows, as counted by the server's own check), the configured maximum is %d: %v", after, o.Rows, e.cfg.MaxMbox, o.names())
	}

	listed := map[string]bool{}

	for _, l := range o.List {
		name := l[:strings.LastIndex(l, " (")]
		listed[name] = true

		if _, ok := o.Boxes[name]; !ok {
			e.fail("after %s: LIST shows %q, which is not among the mailbox rows %v", after, l, o.names())
		}
	}

	for _, name := range o.names() {
		bx := o.Boxes[name]
		recovery := name == recoveryName

		if !bx.Examined {
			e.fail("after %s: mailbox row %q can not be examined", after, name)
		}

		if !listed[name] && !(recovery && bx.DBCount == 0) {
			e.fail("after %s: mailbox row %q is missing from LIST %v", after, name, o.List)
		}

		// the basis of the acceptance oracle: the server's accounting and the client's view agree
		if bx.DBCount != len(bx.Msgs) || bx.DBUIDNext != bx.UIDNext || bx.DBValidity != bx.Validity {
			e.fail("after %s: mailbox %q: the database says count=%d uidnext=%d uidvalidity=%d, a fresh session sees count=%d uidnext=%d uidvalidity=%d",
				after, name, bx.DBCount, bx.DBUIDNext, bx.DBValidity, len(bx.Msgs), bx.UIDNext, bx.Validity)
		}

		if recovery && kf.Listed(kfRecovery) {
			// steer away: no limit applies to the recovery mailbox (TestKnown_C17_recovery_mailbox_unlimited)
			if !e.exclRec && (len(bx.Msgs) > e.cfg.MaxMsg || int(bx.UIDNext) > e.cfg.MaxUID) {
				e.exclRec = true

				ev.Excluded(1)
			}
		} else {
			if len(bx.Msgs) > e.cfg.MaxMsg {
				e.fail("after %s: mailbox %q holds %d messages, the configured maximum is %d: %s", after, name, len(bx.Msgs), e.cfg.MaxMsg, bx)
			}

			for _, m := range bx.Msgs {
				if int(m.UID) >= e.cfg.MaxUID {
					e.fail("after %s: mailbox %q holds UID %d; with maxUID=%d the highest UID the limit check admits is %d (CheckUIDCount bounds the next UID: UIDNEXT <= maxUID): %s",
						after, name, m.UID, e.cfg.MaxUID, e.cfg.MaxUID-1, bx)
				}
			}

			if int(bx.UIDNext) > e.cfg.MaxUID {
				e.fail("after %s: mailbox %q has UIDNEXT %d, above the configured maximum UID %d: %s", after, name, bx.UIDNext, e.cfg.MaxUID, bx)
			}
		}

		if e.validityLimited && !e.exempt[bx.ID] && !recovery && bx.Validity >= e.cfg.MaxValidity {
			e.fail("after %s: mailbox %q was created with UIDVALIDITY %d although maxUIDValidity is %d (CheckUIDValidity refuses values >= the maximum)", after, name, bx.Validity, e.cfg.MaxValidity)
		}
	}

	e.cur = o

	return o
}

// ---- prediction: does the operation fit, by the server's own accounting? ----

type add struct{ k, d int } // k messages receive new UIDs in the mailbox; d of them are in it already (re-added)

type pred struct {
	kind     string
	desc     string
	adds     map[string]add
	newRows  int
	validity int // number of UIDVALIDITY values it consumes
	client   bool // a client command (the remote model must not change when it is refused)
	spare    []string
}

type verdict struct {
	fits     bool
	blockers []string
	crossing []string // limits the operation would cross part-way
	size     int
	overflow int
}

func (e *env) nextValidityFits() bool { return e.validityFits(1) }

// validityFits tells whether the next n UIDVALIDITY values stay below the maximum.
func (e *env) validityFits(n int) bool {
	switch {
	case !e.validityLimited || n == 0:
		return true
	case e.cfg.VMode == "incr":
		return uint32(e.gen.GetValue())+uint32(n) < e.cfg.MaxValidity
	default: // below: every value the epoch generator can hand out is >= the maximum
		return false
	}
}

func (e *env) judge(p *pred) verdict {
	v := verdict{fits: true}
	block := map[string]bool{}

	boxes := make([]string, 0, len(p.adds))
	for b := range p.adds {
		boxes = append(boxes, b)
	}

	sort.Strings(boxes)

	for _, name := range boxes {
		a := p.adds[name]
		if a.k == 0 {
			continue
		}

		bx := e.cur.Boxes[name]
		roomCount := e.cfg.MaxMsg - (bx.DBCount - a.d)
		roomUID := e.cfg.MaxUID - int(bx.DBUIDNext) // highest new UID = UIDNEXT+k-1 <= maxUID-1

		if a.k > roomCount {
			block["messages"] = true
		}

		if a.k > roomUID {
			block["uid"] = true
		}

		if roomCount > 0 && roomCount < a.k {
			v.crossing = append(v.crossing, "messages")
		}

		if roomUID > 0 && roomUID < a.k {
			v.crossing = append(v.crossing, "uid")
		}

		room := roomCount
		if roomUID < room {
			room = roomUID
		}

		if room < 0 {
			room = 0
		}

		v.size += a.k

		if a.k > room {
			v.overflow += a.k - room
		}
	}

	if p.newRows > 0 {
		room := e.cfg.MaxMbox - e.cur.Rows
		if room < 0 {
			room = 0
		}

		v.size += p.newRows

		if p.newRows > room {
			block["mailboxes"] = true
			v.overflow += p.newRows - room

			if room > 0 {
				v.crossing = append(v.crossing, "mailboxes")
			}
		}
	}

	if !e.validityFits(p.validity) {
		block["uidvalidity"] = true
	}

	for b := range block {
		v.blockers = append(v.blockers, b)
	}

	sort.Strings(v.blockers)
	v.fits = len(v.blockers) == 0

	return v
}

// step runs one operation under the oracle. do performs it and reports whether it was accepted; expect applies the
// effect of the accepted operation to a copy of the observation made before it.
func (e *env) step(p *pred, do func() (bool, string), expect func(x *obs)) bool {
	before := e.cur
	remoteBefore := remoteSnap(e.u)
	v := e.judge(p)

	accepted, answer := do()

	e.barrier()

	outcome := "refused"
	if accepted {
		outcome = "accepted"
	}

	e.op("%s [size=%d overflow=%d fits=%v %v] -> %s (%s)", p.desc, v.size, v.overflow, v.fits, v.blockers, outcome, answer)
	e.label("op:" + p.kind + ":" + outcome)

	for _, b := range v.blockers {
		e.label("limit:" + b + ":" + outcome)
	}

	if v.overflow > 0 && v.overflow < v.size {
		e.nontrivial = true
		e.label("crossing:" + p.kind)

		for _, c := range v.crossing {
			e.label("crossing-limit:" + c)
		}
	}

	after := e.observe(p.desc) // safety

	if accepted {
		if !v.fits {
			e.fail("%s was accepted although it does not fit (%v) by the server's own accounting; before:\n%safter:\n%s", p.desc, v.blockers, before, after)
		}

		want := before.clone()
		expect(want)

		for name, bx := range want.Boxes { // identity of new mailboxes is the server's choice
			if bx.ID == 0 {
				if got, ok := after.Boxes[name]; ok {
					bx.ID, bx.RemoteID, bx.Validity, bx.DBValidity = got.ID, got.RemoteID, got.Validity, got.DBValidity
				}
			}
		}

		if d := diffObs(want, after, false); len(d) > 0 {
			e.fail("%s was accepted but its effect is not the expected one (expected -> found): %v\nbefore:\n%safter:\n%s", p.desc, d, before, after)
		}

		return true
	}

	if v.fits {
		e.fail("%s fits (resulting counts within the maxima, highest UID <= maxUID-1) but was refused: %s\nbefore:\n%s", p.desc, answer, before)
	}

	if d := diffObs(before, after, true, p.spare...); len(d) > 0 {
		e.fail("%s was refused (%s) but left an effect behind (before -> after): %v\nbefore:\n%safter:\n%s", p.desc, answer, d, before, after)
	}

	if p.client {
		if d := diffStrings(remoteBefore, remoteSnap(e.u)); len(d) > 0 {
			if kf.Listed(kfRemoteFirst) && (p.kind == "copy" || p.kind == "move") {
				// steer away: the comparison of the remote model is skipped for refused COPY/MOVE and the model is repaired
				ev.Excluded(1)
				e.repairRemote()
			} else {
				e.fail("%s was refused (%s) but the connector had already been told to apply it; remote model (before -> after): %v", p.desc, answer, d)
			}
		}
	}

	return false
}

// repairRemote makes the remote model's memberships equal to gluon's (used only behind a listed finding).
func (e *env) repairRemote() {
	byRemote := map[imap.MailboxID]*boxObs{}
	for _, bx := range e.cur.Boxes {
		byRemote[bx.RemoteID] = bx
	}

	e.u.Conn.Lock(func() {
		for _, m := range e.u.Conn.Messages {
			marker := mach.MarkerOf(string(m.Literal))
			m.Boxes = map[imap.MailboxID]bool{}

			for rid, bx := range byRemote {
				if bx.has(marker) {
					m.Boxes[rid] = true
				}
			}
		}
	})
}

// ---- helpers for the rules ----

func (e *env) userBoxes() []string {
	var r []string

	for _, n := range e.cur.names() {
		if n != recoveryName {
			r = append(r, n)
		}
	}

	return r
}

func (e *env) boxesWithMessages() []string {
	var r []string

	for _, n := range e.userBoxes() {
		if len(e.cur.Boxes[n].Msgs) > 0 {
			r = append(r, n)
		}
	}

	return r
}

func (e *env) room(name string) int {
	bx := e.cur.Boxes[name]
	r := e.cfg.MaxMsg - bx.DBCount

	if u := e.cfg.MaxUID - int(bx.DBUIDNext); u < r {
		r = u
	}

	if r < 0 {
		r = 0
	}

	return r
}

func pick[T any](t *rapid.T, label string, xs []T) T {
	return xs[rapid.IntRange(0, len(xs)-1).Draw(t, label)]
}

func clamp(x, lo, hi int) int {
	if x > hi {
		x = hi
	}

	if x < lo {
		x = lo
	}

	return x
}

// sizeAround draws an operation size around the free room (room-1 .. room+2), or any size in 1..max.
func sizeAround(t *rapid.T, room, max int) int {
	if max < 1 {
		return 0
	}

	if rapid.IntRange(0, 3).Draw(t, "anySize") == 0 {
		return rapid.IntRange(1, max).Draw(t, "size")
	}

	return clamp(room+rapid.IntRange(-1, 2).Draw(t, "over"), 1, max)
}

func (e *env) actor(t *rapid.T) *bed.Session {
	for i, s := range e.sess {
		if s == nil || s.Dead {
			if s != nil {
				s.Logout()
			}

			e.login(i)
		}
	}

	return pick(t, "sess", e.sess)
}

func answerOf(r *imapc.Result) string {
	if r.Err != nil {
		return fmt.Sprintf("transport error %v", r.Err)
	}

	return strings.TrimSpace(r.Status + " " + r.Text)
}

func removeMarkers(bx *boxObs, markers []string) {
	drop := map[string]bool{}
	for _, m := range markers {
		drop[m] = true
	}

	var keep []msgObs

	for _, m := range bx.Msgs {
		if !drop[m.Marker] {
			keep = append(keep, m)
		}
	}

	bx.Msgs = keep
	bx.DBCount = len(keep)
}

func addMarkers(bx *boxObs, markers []string) {
	for _, m := range markers {
		bx.Msgs = append(bx.Msgs, msgObs{UID: bx.UIDNext, Marker: m})
		bx.UIDNext++
	}

	bx.DBUIDNext = bx.UIDNext
	bx.DBCount = len(bx.Msgs)
}

// ---- rules ----

func (e *env) doAppend(t *rapid.T, box string) {
	s := e.actor(t)
	marker := e.marker()
	p := &pred{kind: "append", desc: fmt.Sprintf("%s: APPEND %s %s", s.Name, box, marker), adds: map[string]add{box: {1, 0}}, client: true, spare: []string{recoveryName}}

	e.step(p, func() (bool, string) {
		r := s.DoParts(imapc.T("APPEND "+bed.Quote(box)+" "), imapc.L(mach.Msg(marker, "")))
		return r.OK(), answerOf(r)
	}, func(x *obs) {
		addMarkers(x.Boxes[box], []string{marker})
	})
}

func (e *env) doCopyMove(t *rapid.T, move bool, src, dst string, lo, hi int) {
	s := e.actor(t)
	markers := append([]string(nil), e.cur.Boxes[src].markers()[lo-1:hi]...)
	d := 0

	for _, m := range markers {
		if e.cur.Boxes[dst].has(m) {
			d++
		}
	}

	verb, kind := "COPY", "copy"
	if move {
		verb, kind = "MOVE", "move"
	}

	p := &pred{kind: kind, desc: fmt.Sprintf("%s: SELECT %s; %s %d:%d %s %v", s.Name, src, verb, lo, hi, dst, markers), adds: map[string]add{dst: {len(markers), d}}, client: true}

	if src == dst {
		e.label("same-mailbox:" + kind)
	} else if d > 0 {
		e.label("re-add:" + kind)
	}

	e.step(p, func() (bool, string) {
		if r := s.Select(src, false); !r.OK() {
			e.harness("SELECT %s: %v", src, r)
		}

		r := s.Do(fmt.Sprintf("%s %d:%d %s", verb, lo, hi, bed.Quote(dst)))

		if u := s.Unselect(false); !u.OK() {
			e.harness("UNSELECT: %v", u)
		}

		return r.OK(), answerOf(r)
	}, func(x *obs) {
		removeMarkers(x.Boxes[dst], markers)

		if move && src != dst {
			removeMarkers(x.Boxes[src], markers)
		}

		addMarkers(x.Boxes[dst], markers)
	})
}

func (e *env) ruleCopyMove(t *rapid.T) {
	srcs := e.boxesWithMessages()
	if len(srcs) == 0 {
		t.Skip("no messages")
	}

	// pairs where a multi-message copy would cross a limit of the destination part-way
	type pair struct{ src, dst string }

	var tight []pair

	for _, src := range srcs {
		for _, dst := range e.userBoxes() {
			if r := e.room(dst); dst != src && r > 0 && r < clamp(len(e.cur.Boxes[src].Msgs), 0, 6) {
				tight = append(tight, pair{src, dst})
			}
		}
	}

	src := pick(t, "src", srcs)
	dst := pick(t, "dst", e.userBoxes())

	if dst == src && rapid.Bool().Draw(t, "notSame") {
		dst = pick(t, "dst2", e.userBoxes())
	}

	if len(tight) > 0 && rapid.IntRange(0, 2).Draw(t, "tight") > 0 {
		p := pick(t, "pair", tight)
		src, dst = p.src, p.dst
	}

	n := len(e.cur.Boxes[src].Msgs)
	k := sizeAround(t, e.room(dst), clamp(n, 1, 6))
	lo := rapid.IntRange(1, n-k+1).Draw(t, "lo")

	e.doCopyMove(t, rapid.Bool().Draw(t, "move"), src, dst, lo, lo+k-1)
}

func (e *env) doCreate(t *rapid.T, base string, levels int) {
	s := e.actor(t)

	if free := e.cfg.MaxMbox - e.cur.Rows; kf.Listed(kfCreateLevels) && free > 0 && levels > free {
		// steer away: a name that needs more new levels than there are free slots while at least one is free
		levels = free

		ev.Excluded(1)
	}

	name := base

	var created []string

	for i := 0; i < levels; i++ {
		if name != "" {
			name += "/"
		}

		name += e.segment()
		created = append(created, name)
	}

	p := &pred{kind: "create", desc: fmt.Sprintf("%s: CREATE %s (%d new levels)", s.Name, name, levels), newRows: levels, validity: 1, client: true}

	e.step(p, func() (bool, string) {
		r := s.Do("CREATE " + bed.Quote(name))
		return r.OK(), answerOf(r)
	}, func(x *obs) {
		for _, n := range created {
			x.Boxes[n] = &boxObs{Name: n, UIDNext: 1, DBUIDNext: 1}
		}

		x.Rows += len(created)
	})
}

func (e *env) ruleCreate(t *rapid.T) {
	bases := []string{""}

	for _, n := range e.userBoxes() {
		if n != "INBOX" && strings.Count(n, "/") < 6 {
			bases = append(bases, n)
		}
	}

	free := e.cfg.MaxMbox - e.cur.Rows
	if free < 0 {
		free = 0
	}

	e.doCreate(t, pick(t, "base", bases), sizeAround(t, free, 4))
}

// doRename: RENAME old -> base/<superiors new segments>/<new segment>. Every missing superior becomes a mailbox;
// RENAME INBOX creates the new mailbox and moves the messages of INBOX into it.
func (e *env) doRename(t *rapid.T, old, base string, superiors int) {
	s := e.actor(t)
	name := base

	var created []string

	for i := 0; i <= superiors; i++ {
		if name != "" {
			name += "/"
		}

		name += e.segment()

		if i < superiors {
			created = append(created, name)
		}
	}

	inbox := old == "INBOX"
	p := &pred{kind: "rename", desc: fmt.Sprintf("%s: RENAME %s %s (%d new superiors)", s.Name, old, name, superiors), newRows: superiors, validity: superiors, client: true}

	if inbox {
		p.kind = "rename-inbox"
		p.newRows++
		p.validity++
	}

	e.step(p, func() (bool, string) {
		r := s.Do("RENAME " + bed.Quote(old) + " " + bed.Quote(name))
		return r.OK(), answerOf(r)
	}, func(x *obs) {
		for _, n := range created {
			x.Boxes[n] = &boxObs{Name: n, UIDNext: 1, DBUIDNext: 1}
		}

		x.Rows += len(created)

		if inbox {
			nb := &boxObs{Name: name, UIDNext: 1, DBUIDNext: 1}
			addMarkers(nb, x.Boxes["INBOX"].markers())
			removeMarkers(x.Boxes["INBOX"], x.Boxes["INBOX"].markers())

			x.Boxes[name] = nb
			x.Rows++

			return
		}

		for _, n := range x.names() { // the mailbox and its inferiors move
			if n == old || strings.HasPrefix(n, old+"/") {
				bx := x.Boxes[n]
				delete(x.Boxes, n)

				bx.Name = name + strings.TrimPrefix(n, old)
				x.Boxes[bx.Name] = bx
			}
		}
	})
}

func (e *env) ruleRename(t *rapid.T) {
	var victims []string

	for _, n := range e.userBoxes() {
		if n != "INBOX" && strings.Count(n, "/") < 6 {
			victims = append(victims, n)
		}
	}

	old := "INBOX"
	if len(victims) > 0 && rapid.IntRange(0, 4).Draw(t, "inbox") > 0 {
		old = pick(t, "old", victims)
	}

	bases := []string{""}

	for _, n := range victims {
		if n != old && !strings.HasPrefix(n, old+"/") {
			bases = append(bases, n)
		}
	}

	base := pick(t, "base", bases)

	free := e.cfg.MaxMbox - e.cur.Rows
	if free < 0 {
		free = 0
	}

	superiors := clamp(free+rapid.IntRange(-1, 2).Draw(t, "over"), 0, 3)
	if rapid.Bool().Draw(t, "plain") {
		superiors = 0
	}

	if kf.Listed(kfRename) {
		// steer away: a RENAME that creates mailboxes (superiors / the target of RENAME INBOX) which do not fit
		need := superiors
		if old == "INBOX" {
			need++
		}

		if need > 0 && (need > free || !e.validityFits(need)) {
			ev.Excluded(1)

			superiors = 0

			if old == "INBOX" {
				if len(victims) == 0 {
					t.Skip("nothing to rename")
				}

				old, base = victims[0], ""
			}
		}
	}

	e.doRename(t, old, base, superiors)
}

func (e *env) doDelete(t *rapid.T, name string) {
	s := e.actor(t)
	p := &pred{kind: "delete", desc: fmt.Sprintf("%s: DELETE %s", s.Name, name), client: true}

	e.step(p, func() (bool, string) {
		r := s.Do("DELETE " + bed.Quote(name))
		return r.OK(), answerOf(r)
	}, func(x *obs) {
		delete(x.Boxes, name)
		x.Rows--
	})
}

func (e *env) ruleDelete(t *rapid.T) {
	var leaves []string

	for _, n := range e.userBoxes() {
		leaf := n != "INBOX"

		for _, o := range e.userBoxes() {
			if strings.HasPrefix(o, n+"/") {
				leaf = false
			}
		}

		if leaf {
			leaves = append(leaves, n)
		}
	}

	if len(leaves) == 0 {
		t.Skip("nothing to delete")
	}

	e.doDelete(t, pick(t, "victim", leaves))
}

func (e *env) ruleExpunge(t *rapid.T) {
	boxes := e.boxesWithMessages()
	if len(boxes) == 0 {
		t.Skip("no messages")
	}

	box := pick(t, "box", boxes)
	n := len(e.cur.Boxes[box].Msgs)
	lo := rapid.IntRange(1, n).Draw(t, "lo")
	hi := rapid.IntRange(lo, n).Draw(t, "hi")
	markers := append([]string(nil), e.cur.Boxes[box].markers()[lo-1:hi]...)
	s := e.actor(t)
	p := &pred{kind: "expunge", desc: fmt.Sprintf("%s: SELECT %s; STORE %d:%d +FLAGS.SILENT (\\Deleted); EXPUNGE", s.Name, box, lo, hi), client: true}

	e.step(p, func() (bool, string) {
		if r := s.Select(box, false); !r.OK() {
			e.harness("SELECT %s: %v", box, r)
		}

		r := s.Do(fmt.Sprintf(`STORE %d:%d +FLAGS.SILENT (\Deleted)`, lo, hi))
		if r.OK() {
			r = s.Do("EXPUNGE")
		}

		if u := s.Unselect(false); !u.OK() {
			e.harness("UNSELECT: %v", u)
		}

		return r.OK(), answerOf(r)
	}, func(x *obs) {
		removeMarkers(x.Boxes[box], markers)
	})
}

func (e *env) deliver(up imap.Update) (bool, string) {
	d := e.b.DeliverNow(e.u, up)[0]
	if !d.Acked {
		panic("VERIF-INCONCLUSIVE: connector update not acknowledged within the watchdog: " + d.Update)
	}

	if d.Err != nil {
		return false, "acknowledged with error: " + d.Err.Error()
	}

	return true, "acknowledged"
}

func (e *env) doConnMailbox(t *rapid.T, base string) {
	var segs []string
	if base != "" {
		segs = strings.Split(base, "/")
	}

	segs = append(segs, e.segment())
	name := strings.Join(segs, "/")
	mb, up := e.u.Conn.SeedMailbox(segs...)
	p := &pred{kind: "conn-mailbox", desc: fmt.Sprintf("connector: MailboxCreated %s", name), newRows: 1, validity: 1}

	if !e.step(p, func() (bool, string) { return e.deliver(up) }, func(x *obs) {
		x.Boxes[name] = &boxObs{Name: name, UIDNext: 1, DBUIDNext: 1}
		x.Rows++
	}) {
		e.u.Conn.Lock(func() { delete(e.u.Conn.Mailboxes, mb.ID) })
	}
}

func (e *env) ruleConnMailbox(t *rapid.T) {
	if rapid.IntRange(0, 7).Draw(t, "again") == 0 {
		// an update announcing a mailbox gluon has already: size 0, accepted at any fill level
		name := pick(t, "known", e.userBoxes())
		bx := e.cur.Boxes[name]
		up := imap.NewMailboxCreated(imap.Mailbox{ID: bx.RemoteID, Name: strings.Split(name, "/"), Flags: e.u.Conn.Flags, PermanentFlags: e.u.Conn.PermFlags, Attributes: e.u.Conn.Attrs})
		p := &pred{kind: "conn-mailbox-again", desc: fmt.Sprintf("connector: MailboxCreated for the existing %s", name)}

		e.step(p, func() (bool, string) { return e.deliver(up) }, func(*obs) {})

		return
	}

	bases := []string{"", ""}

	for _, n := range e.userBoxes() {
		if n != "INBOX" && strings.Count(n, "/") < 6 {
			bases = append(bases, n)
		}
	}

	e.doConnMailbox(t, pick(t, "base", bases))
}

// remoteIDs maps the markers of the messages the connector knows to their remote ids.
func (e *env) remoteIDs() map[string]imap.MessageID {
	res := map[string]imap.MessageID{}

	e.u.Conn.Lock(func() {
		for id, m := range e.u.Conn.Messages {
			res[mach.MarkerOf(string(m.Literal))] = id
		}
	})

	return res
}

type connMsg struct {
	marker string
	known  imap.MessageID // "" = new
	boxes  []string
}

func (e *env) doConnMessages(t *rapid.T, msgs []connMsg) {
	var (
		mcs     []*imap.MessageCreated
		fresh   []imap.MessageID
		perBox  = map[string][]string{} // markers added per mailbox, in update order
		adds    = map[string]add{}
		descr   []string
		literal = func(marker string) []byte { return mach.Msg(marker, "remote") }
	)

	for _, m := range msgs {
		var rids []imap.MailboxID
		for _, b := range m.boxes {
			rids = append(rids, e.cur.Boxes[b].RemoteID)
		}

		if m.known == "" {
			rm, mc, err := e.u.Conn.NewRemoteMessage(literal(m.marker), imap.NewFlagSet(), time.Date(2020, 1, 2, 3, 4, 5, 0, time.UTC), rids...)
			if err != nil {
				e.harness("%v", err)
			}

			fresh = append(fresh, rm.ID)
			mcs = append(mcs, mc)
		} else {
			var lit []byte

			e.u.Conn.Lock(func() { lit = append([]byte(nil), e.u.Conn.Messages[m.known].Literal...) })

			parsed, err := imap.NewParsedMessage(lit)
			if err != nil {
				e.harness("%v", err)
			}

			mcs = append(mcs, &imap.MessageCreated{Message: imap.Message{ID: m.known, Flags: imap.NewFlagSet(), Date: time.Date(2020, 1, 2, 3, 4, 5, 0, time.UTC)}, Literal: lit, MailboxIDs: rids, ParsedMessage: parsed})
		}

		for _, b := range m.boxes {
			already := e.cur.Boxes[b].has(m.marker)

			for _, x := range perBox[b] {
				if x == m.marker {
					already = true
				}
			}

			if !already {
				perBox[b] = append(perBox[b], m.marker)
			}
		}

		descr = append(descr, fmt.Sprintf("%s%v", m.marker, m.boxes))
	}

	for b, ms := range perBox {
		adds[b] = add{len(ms), 0}
	}

	p := &pred{kind: "conn-messages", desc: fmt.Sprintf("connector: MessagesCreated %s", strings.Join(descr, " ")), adds: adds}

	if len(adds) > 1 {
		e.label("conn-messages:two-mailboxes")
	}

	if !e.step(p, func() (bool, string) { return e.deliver(imap.NewMessagesCreated(false, mcs...)) }, func(x *obs) {
		for b, ms := range perBox {
			addMarkers(x.Boxes[b], ms)
		}
	}) {
		e.u.Conn.Lock(func() {
			for _, id := range fresh {
				delete(e.u.Conn.Messages, id)
			}
		})
	} else {
		e.u.Conn.Lock(func() {
			for _, m := range msgs {
				if m.known != "" {
					for _, b := range m.boxes {
						e.u.Conn.Messages[m.known].Boxes[e.cur.Boxes[b].RemoteID] = true
					}
				}
			}
		})
	}
}

func (e *env) ruleConnMessages(t *rapid.T) {
	boxes := e.userBoxes()
	first := pick(t, "box", boxes)
	second := pick(t, "box2", boxes)
	k := sizeAround(t, e.room(first), 6)

	var msgs []connMsg

	for i := 0; i < k; i++ {
		m := connMsg{marker: e.marker(), boxes: []string{first}}

		if second != first {
			switch rapid.IntRange(0, 3).Draw(t, "where") {
			case 0:
				m.boxes = []string{second}
			case 1:
				m.boxes = []string{first, second}
			}
		}

		msgs = append(msgs, m)
	}

	if ids := e.remoteIDs(); len(ids) > 0 && rapid.IntRange(0, 5).Draw(t, "withKnown") == 0 {
		// the batch also names a message gluon has already (it is only added where it is missing)
		var visible []string

		for _, b := range boxes {
			for _, m := range e.cur.Boxes[b].Msgs {
				if _, ok := ids[m.Marker]; ok {
					visible = append(visible, m.Marker)
				}
			}
		}

		if len(visible) > 0 {
			sort.Strings(visible)
			marker := pick(t, "known", visible)
			msgs = append(msgs, connMsg{marker: marker, known: ids[marker], boxes: []string{first}})

			e.label("conn-messages:with-known")
		}
	}

	e.doConnMessages(t, msgs)
}

func (e *env) ruleConnBoxes(t *rapid.T) {
	ids := e.remoteIDs()
	boxes := e.userBoxes()

	var visible []string

	seen := map[string]bool{}

	for _, b := range boxes {
		for _, m := range e.cur.Boxes[b].Msgs {
			if _, ok := ids[m.Marker]; ok && !seen[m.Marker] {
				seen[m.Marker] = true

				visible = append(visible, m.Marker)
			}
		}
	}

	if len(visible) == 0 {
		t.Skip("no message known to the connector")
	}

	sort.Strings(visible)
	marker := pick(t, "msg", visible)

	var (
		in, added, removed []string
		rids               []imap.MailboxID
	)

	for _, b := range boxes {
		has := e.cur.Boxes[b].has(marker)

		if rapid.Bool().Draw(t, "in:"+b) {
			in = append(in, b)
			rids = append(rids, e.cur.Boxes[b].RemoteID)

			if !has {
				added = append(added, b)
			}
		} else if has {
			removed = append(removed, b)
		}
	}

	adds := map[string]add{}
	for _, b := range added {
		adds[b] = add{1, 0}
	}

	p := &pred{kind: "conn-boxes", desc: fmt.Sprintf("connector: MessageMailboxesUpdated %s -> %v (added to %v, removed from %v)", marker, in, added, removed), adds: adds}

	if len(added) > 0 && len(removed) > 0 {
		e.label("conn-boxes:add-and-remove")
	}

	if e.step(p, func() (bool, string) {
		return e.deliver(imap.NewMessageMailboxesUpdated(ids[marker], rids, imap.NewFlagSet()))
	}, func(x *obs) {
		for _, b := range added {
			addMarkers(x.Boxes[b], []string{marker})
		}

		for _, b := range removed {
			removeMarkers(x.Boxes[b], []string{marker})
		}
	}) {
		e.u.Conn.Lock(func() {
			m := e.u.Conn.Messages[ids[marker]]
			m.Boxes = map[imap.MailboxID]bool{}

			for _, r := range rids {
				m.Boxes[r] = true
			}
		})
	}
}

// ---- the machine ----

func start(t *rapid.T, cfg config) *env {
	e := &env{t: t, cfg: cfg, labels: map[string]bool{}, exempt: map[imap.InternalMailboxID]bool{}}
	opts := bed.Options{}

	switch cfg.VMode {
	case "incr":
		e.gen = imap.NewIncrementalUIDValidityGenerator()
		opts.UIDGen = func() imap.UIDValidityGenerator { return e.gen }
		opts.Limits = cfg.limits(cfg.MaxValidity)
		e.validityLimited = true
	default:
		opts.Limits = cfg.limits(math.MaxUint32)
	}

	b, err := bed.Start(opts, bed.UserSpec{Name: "user", Pass: "pass"})
	if err != nil {
		t.Fatalf("harness: bed: %v", err)
	}

	e.b, e.u = b, b.Users[0]

	return e
}

func (e *env) stop() {
	e.closeSessions()
	e.b.Destroy()
}

// prefill brings the user close to the limits: a few connector-created mailboxes, each filled by one batch.
func (e *env) prefill(t *rapid.T) {
	free := e.cfg.MaxMbox - e.cur.Rows

	for i, n := 0, rapid.IntRange(0, clamp(free, 0, 3)).Draw(t, "initialMailboxes"); i < n; i++ {
		if e.validityLimited && !e.nextValidityFits() {
			break
		}

		e.doConnMailbox(t, "")
	}

	for _, box := range e.userBoxes() {
		if f := rapid.IntRange(0, clamp(e.room(box), 0, 6)).Draw(t, "fill:"+box); f > 0 {
			var msgs []connMsg
			for i := 0; i < f; i++ {
				msgs = append(msgs, connMsg{marker: e.marker(), boxes: []string{box}})
			}

			e.doConnMessages(t, msgs)
		}
	}
}

// lowerValidityLimit (below mode) restarts the server with a maxUIDValidity that no new value can stay under.
func (e *env) lowerValidityLimit(t *rapid.T) {
	rec := e.cur.Boxes[recoveryName].Validity // the first value the epoch generator handed out
	e.cfg.MaxValidity = []uint32{1, 1000, rec - 1, rec}[rapid.IntRange(0, 3).Draw(t, "belowEpoch")]

	for _, bx := range e.cur.Boxes {
		e.exempt[bx.ID] = true
	}

	e.closeSessions()

	e.b.Opts.Limits = e.cfg.limits(e.cfg.MaxValidity)

	if err := e.b.Restart(); err != nil {
		e.harness("restart: %v", err)
	}

	e.validityLimited = true

	e.op("restart with maxUIDValidity=%d", e.cfg.MaxValidity)

	before := e.cur
	if d := diffObs(before, e.observe("restart"), true); len(d) > 0 {
		e.harness("the restart changed the mailboxes: %v", d)
	}
}

func (e *env) finish() {
	labels := []string{"validity:" + e.cfg.VMode}
	for l := range e.labels {
		labels = append(labels, l)
	}

	sort.Strings(labels)
	ev.Case(e.nontrivial, ev.Hash(e.cfg, strings.Join(e.ops, ";")), labels...)

	if ev.WantSample() {
		ev.Sample(map[string]any{"configuration": e.cfg.String(), "operations": e.ops})
	}
}

func run(t *rapid.T) {
	cfg := drawConfig(t)
	e := start(t, cfg)

	defer e.stop()

	e.op("%s", cfg)
	e.observe("start")

	for i, n := 0, rapid.IntRange(1, 2).Draw(t, "sessions"); i < n; i++ {
		e.login(i)
	}

	e.prefill(t)

	if cfg.VMode == "below" {
		e.lowerValidityLimit(t)
	}

	t.Repeat(map[string]func(*rapid.T){
		"append": func(t *rapid.T) {
			e.doAppend(t, pick(t, "box", e.userBoxes()))
		},
		"copymove":     e.ruleCopyMove,
		"copymove2":    e.ruleCopyMove,
		"create":       e.ruleCreate,
		"rename":       e.ruleRename,
		"connMailbox":  e.ruleConnMailbox,
		"connMessages": e.ruleConnMessages,
		"connBoxes":    e.ruleConnBoxes,
		"expunge":      e.ruleExpunge,
		"delete":       e.ruleDelete,
	})

	e.finish()
}

func TestC17Limits(t *testing.T) {
	ev.Checks(120, 600)
	rapid.Check(t, run)
}
