package c17

import (
	"fmt"
	"strings"
	"sync"
	"testing"
	"time"

	"github.com/ProtonMail/gluon/imap"
	"pgregory.net/rapid"

	"verif/internal/bed"
	"verif/internal/ev"
	"verif/internal/imapc"
	"verif/internal/kf"
	"verif/internal/mach"
)

// cop is one operation of a concurrent round.
type cop struct {
	desc    string
	size    int
	markers []string // messages it adds to the round's mailbox (append / connector batch)
	leaf    string   // mailbox it creates (create round)
	run     func() (bool, string)

	accepted bool
	answer   string
}

// runRound starts every operation in its own goroutine behind a common start line and waits for all of them.
func runRound(ops []*cop) {
	var (
		wg    sync.WaitGroup
		start = make(chan struct{})
		pan   = make([]any, len(ops))
	)

	for i, o := range ops {
		wg.Add(1)

		go func(i int, o *cop) {
			defer wg.Done()
			defer func() { pan[i] = recover() }()

			<-start

			o.accepted, o.answer = o.run()
		}(i, o)
	}

	close(start)
	wg.Wait()

	for _, p := range pan {
		if p != nil {
			panic(p)
		}
	}
}

func (e *env) ensureSessions(n int) {
	for i := 0; i < n; i++ {
		if i >= len(e.sess) || e.sess[i] == nil || e.sess[i].Dead {
			if i < len(e.sess) && e.sess[i] != nil {
				e.sess[i].Logout()
			}

			e.login(i)
		}
	}
}

func (e *env) roundReport(kind string, ops []*cop, room, total int) (nAccepted int) {
	for _, o := range ops {
		outcome := "refused"
		if o.accepted {
			outcome = "accepted"
			nAccepted++
		}

		e.op("  || %s [size=%d] -> %s (%s)", o.desc, o.size, outcome, o.answer)
		e.label("conc-op:" + kind + ":" + outcome)
	}

	switch {
	case nAccepted == len(ops):
		e.label("conc:" + kind + ":all-accepted")
	case nAccepted == 0:
		e.label("conc:" + kind + ":all-refused")
	default:
		e.label("conc:" + kind + ":some-refused")
	}

	if room > 0 && room < total {
		e.nontrivial = true
		e.label("crossing:conc-" + kind)
	}

	return nAccepted
}

// addRound: n sessions APPEND one new message each to the same mailbox at once; optionally the connector delivers a
// MessagesCreated batch for that mailbox at the same time.
func (e *env) addRound(t *rapid.T, n int, box string, connBatch int) {
	e.ensureSessions(n)

	before := e.cur
	room := e.room(box)

	var ops []*cop

	for i := 0; i < n; i++ {
		s, marker := e.sess[i], e.marker()
		ops = append(ops, &cop{desc: fmt.Sprintf("%s: APPEND %s %s", s.Name, box, marker), size: 1, markers: []string{marker}, run: func() (bool, string) {
			r := s.DoParts(imapc.T("APPEND "+bed.Quote(box)+" "), imapc.L(mach.Msg(marker, "")))
			return r.OK(), answerOf(r)
		}})
	}

	var fresh []imap.MessageID

	if connBatch > 0 {
		var (
			mcs     []*imap.MessageCreated
			markers []string
		)

		for i := 0; i < connBatch; i++ {
			marker := e.marker()

			rm, mc, err := e.u.Conn.NewRemoteMessage(mach.Msg(marker, "remote"), imap.NewFlagSet(), time.Date(2020, 1, 2, 3, 4, 5, 0, time.UTC), before.Boxes[box].RemoteID)
			if err != nil {
				e.harness("%v", err)
			}

			fresh = append(fresh, rm.ID)
			mcs = append(mcs, mc)
			markers = append(markers, marker)
		}

		ops = append(ops, &cop{desc: fmt.Sprintf("connector: MessagesCreated %v into %s", markers, box), size: connBatch, markers: markers, run: func() (bool, string) {
			return e.deliver(imap.NewMessagesCreated(false, mcs...))
		}})
	}

	total := 0
	for _, o := range ops {
		total += o.size
	}

	e.op("concurrent round: %d x APPEND + connector batch of %d into %s (room %d)", n, connBatch, box, room)
	runRound(ops)
	e.barrier()

	nAcc := e.roundReport("append", ops, room, total)
	after := e.observe(fmt.Sprintf("a concurrent round of %d APPENDs (+ connector batch of %d) into %s", n, connBatch, box)) // safety
	bx := after.Boxes[box]

	describe := func() string {
		return fmt.Sprintf("\nbefore:\n%safter:\n%s", before, after)
	}

	sizeAccepted := 0
	expected := map[string]bool{}

	for _, o := range ops {
		present := 0

		for _, m := range o.markers {
			if bx.has(m) {
				present++
			}
		}

		switch {
		case o.accepted && present != len(o.markers):
			e.fail("%s was accepted but only %d of its %d messages are in %s%s", o.desc, present, len(o.markers), box, describe())
		case !o.accepted && present != 0:
			e.fail("%s was refused (%s) but %d of its %d messages are in %s%s", o.desc, o.answer, present, len(o.markers), box, describe())
		case !o.accepted && bx.DBCount+o.size <= e.cfg.MaxMsg && int(bx.DBUIDNext)+o.size <= e.cfg.MaxUID:
			// the mailbox only grew during the round: an operation that still fits now fitted when it was refused
			e.fail("%s was refused (%s) although it still fits after the round (count %d, UIDNEXT %d)%s", o.desc, o.answer, bx.DBCount, bx.DBUIDNext, describe())
		}

		if o.accepted {
			sizeAccepted += o.size

			for _, m := range o.markers {
				expected[m] = true
			}
		}
	}

	// two-sided: the old content is untouched, exactly the accepted messages were added, no UID was burnt
	old := before.Boxes[box]

	if len(bx.Msgs) != len(old.Msgs)+sizeAccepted || bx.UIDNext != old.UIDNext+uint32(sizeAccepted) {
		e.fail("after the round %s holds %d messages with UIDNEXT %d; expected %d+%d messages and UIDNEXT %d+%d (%d operations accepted)%s",
			box, len(bx.Msgs), bx.UIDNext, len(old.Msgs), sizeAccepted, old.UIDNext, sizeAccepted, nAcc, describe())
	}

	for i, m := range bx.Msgs {
		if i < len(old.Msgs) {
			if m.UID != old.Msgs[i].UID || m.Marker != old.Msgs[i].Marker {
				e.fail("the round changed the old content of %s at position %d%s", box, i+1, describe())
			}
		} else if !expected[m.Marker] {
			e.fail("after the round %s holds %s, which no accepted operation added%s", box, m.Marker, describe())
		}
	}

	if d := diffObs(before, after, true, box, recoveryName); len(d) > 0 {
		e.fail("the round changed something besides %s (and the recovery mailbox): %v%s", box, d, describe())
	}

	if connBatch > 0 && !ops[len(ops)-1].accepted {
		e.u.Conn.Lock(func() {
			for _, id := range fresh {
				delete(e.u.Conn.Messages, id)
			}
		})
	}
}

// copyRound: n sessions have src selected and COPY the same k messages to dst at once.
func (e *env) copyRound(t *rapid.T, n int, src, dst string, lo, hi int) {
	e.ensureSessions(n)

	before := e.cur
	markers := append([]string(nil), before.Boxes[src].markers()[lo-1:hi]...)
	k := len(markers)

	var ops []*cop

	for i := 0; i < n; i++ {
		s := e.sess[i]

		if r := s.Select(src, false); !r.OK() {
			e.harness("SELECT %s: %v", src, r)
		}

		ops = append(ops, &cop{desc: fmt.Sprintf("%s: (selected %s) COPY %d:%d %s %v", s.Name, src, lo, hi, dst, markers), size: k, run: func() (bool, string) {
			r := s.Do(fmt.Sprintf("COPY %d:%d %s", lo, hi, bed.Quote(dst)))
			return r.OK(), answerOf(r)
		}})
	}

	old := before.Boxes[dst]
	roomUID := e.cfg.MaxUID - int(old.DBUIDNext)

	if old.DBCount+k > e.cfg.MaxMsg || roomUID < 0 {
		roomUID = 0
	}

	e.op("concurrent round: %d x COPY of %d messages from %s to %s (free UIDs %d)", n, k, src, dst, roomUID)
	runRound(ops)

	for i := 0; i < n; i++ {
		if u := e.sess[i].Unselect(false); !u.OK() {
			e.harness("UNSELECT: %v", u)
		}
	}

	e.barrier()

	nAcc := e.roundReport("copy", ops, roomUID, n*k)
	after := e.observe(fmt.Sprintf("a concurrent round of %d COPYs of %d messages from %s to %s", n, k, src, dst)) // safety
	bx := after.Boxes[dst]

	describe := func() string {
		return fmt.Sprintf("\nbefore:\n%safter:\n%s", before, after)
	}

	want := before.clone()

	if nAcc > 0 {
		// the first accepted copy adds the messages, every further one re-adds them under new UIDs
		w := want.Boxes[dst]
		addMarkers(w, markers)

		for i := range w.Msgs[len(w.Msgs)-k:] {
			w.Msgs[len(w.Msgs)-k+i].UID += uint32((nAcc - 1) * k)
		}

		w.UIDNext += uint32((nAcc - 1) * k)
		w.DBUIDNext = w.UIDNext
	}

	if d := diffObs(want, after, false); len(d) > 0 {
		e.fail("after the round (%d of %d copies accepted) the mailboxes are not as expected (expected -> found): %v%s", nAcc, n, d, describe())
	}

	for _, o := range ops {
		if o.accepted {
			continue
		}

		countFits := bx.DBCount+k <= e.cfg.MaxMsg
		if nAcc > 0 {
			countFits = true // the messages are in dst: a further copy replaces them
		}

		if countFits && int(bx.DBUIDNext)+k <= e.cfg.MaxUID {
			e.fail("%s was refused (%s) although it still fits after the round (count %d, UIDNEXT %d)%s", o.desc, o.answer, bx.DBCount, bx.DBUIDNext, describe())
		}
	}
}

// createRound: n sessions CREATE distinct names at once; with shared=true the names have a common new parent.
func (e *env) createRound(t *rapid.T, n int, shared bool, conn int) {
	e.ensureSessions(n)

	before := e.cur
	parent := ""

	if shared {
		parent = e.segment()
	}

	var ops []*cop

	for i := 0; i < n; i++ {
		s, name := e.sess[i], e.segment()
		if parent != "" {
			name = parent + "/" + name
		}

		ops = append(ops, &cop{desc: fmt.Sprintf("%s: CREATE %s", s.Name, name), size: 1, leaf: name, run: func() (bool, string) {
			r := s.Do("CREATE " + bed.Quote(name))
			return r.OK(), answerOf(r)
		}})
	}

	// the connector announces new top-level mailboxes at the same time
	var seeded []imap.MailboxID

	for i := 0; i < conn; i++ {
		name := e.segment()
		mb, up := e.u.Conn.SeedMailbox(name)
		seeded = append(seeded, mb.ID)

		ops = append(ops, &cop{desc: fmt.Sprintf("connector: MailboxCreated %s", name), size: 1, leaf: name, run: func() (bool, string) {
			return e.deliver(up)
		}})
	}

	room := e.cfg.MaxMbox - before.Rows
	total := n + conn

	if shared {
		total++
	}

	e.op("concurrent round: %d x CREATE + %d x connector MailboxCreated (shared new parent: %v; free mailbox slots %d)", n, conn, shared, room)
	runRound(ops)
	e.barrier()

	nAcc := e.roundReport("create", ops, room, total)

	// a refused announcement leaves the connector's mailbox behind in the harness model only: forget it
	for i, o := range ops[n:] {
		if !o.accepted {
			id := seeded[i]
			e.u.Conn.Lock(func() { delete(e.u.Conn.Mailboxes, id) })
		}
	}

	after := e.observe(fmt.Sprintf("a concurrent round of %d CREATEs and %d connector MailboxCreated", n, conn)) // safety

	describe := func() string {
		return fmt.Sprintf("\nbefore:\n%safter:\n%s", before, after)
	}

	want := before.clone()

	for _, o := range ops {
		if o.accepted {
			want.Boxes[o.leaf] = &boxObs{Name: o.leaf, UIDNext: 1, DBUIDNext: 1}
		}
	}

	sharedAcc := 0

	for _, o := range ops[:n] {
		if o.accepted {
			sharedAcc++
		}
	}

	if shared && sharedAcc > 0 {
		want.Boxes[parent] = &boxObs{Name: parent, UIDNext: 1, DBUIDNext: 1}
	}

	want.Rows = len(want.Boxes)

	for name, bx := range want.Boxes {
		if bx.ID == 0 {
			if got, ok := after.Boxes[name]; ok {
				bx.ID, bx.RemoteID, bx.Validity, bx.DBValidity = got.ID, got.RemoteID, got.Validity, got.DBValidity
			}
		}
	}

	if d := diffObs(want, after, false); len(d) > 0 {
		e.fail("after the round (%d of %d creations accepted) the namespace is not as expected (expected -> found): %v%s", nAcc, n, d, describe())
	}

	for i, o := range ops {
		if o.accepted {
			continue
		}

		needed := 1
		if _, ok := after.Boxes[parent]; shared && !ok && i < n {
			needed = 2
		}

		validityFits := e.nextValidityFits()

		if after.Rows+needed <= e.cfg.MaxMbox && validityFits {
			e.fail("%s was refused (%s) although it still fits after the round (%d rows, %d needed, maximum %d)%s", o.desc, o.answer, after.Rows, needed, e.cfg.MaxMbox, describe())
		}
	}
}

func (e *env) concRound(t *rapid.T) {
	n := rapid.IntRange(2, 6).Draw(t, "parallel")
	kind := pick(t, "kind", []string{"append", "append", "append+conn", "copy", "copy", "create", "create-shared"})
	boxes := e.userBoxes()

	if strings.HasPrefix(kind, "append") {
		box := pick(t, "box", boxes)

		// prefer a mailbox the round can over-subscribe
		for _, b := range boxes {
			if r := e.room(b); r > 0 && r < n && rapid.Bool().Draw(t, "tight") {
				box = b
				break
			}
		}

		batch := 0
		if kind == "append+conn" {
			batch = rapid.IntRange(1, 3).Draw(t, "batch")
		}

		if kf.Listed(kfAppendRace) && n+batch > e.room(box) {
			// steer away: APPENDs that race each other (or a connector batch) for the last free slots / UIDs
			ev.Excluded(1)

			kind = "copy"
		} else {
			e.addRound(t, n, box, batch)
			return
		}
	}

	if kind == "copy" {
		// a source with messages and a destination holding none of them
		for _, src := range e.boxesWithMessages() {
			for _, dst := range boxes {
				if dst == src {
					continue
				}

				msgs := e.cur.Boxes[src].Msgs
				lo, hi := 0, 0

				for i, m := range msgs { // the longest run (at most 3) of messages that dst does not hold
					if e.cur.Boxes[dst].has(m.Marker) {
						if hi > 0 {
							break
						}

						continue
					}

					if lo == 0 {
						lo = i + 1
					}

					hi = i + 1

					if hi-lo == 2 {
						break
					}
				}

				if lo > 0 && rapid.IntRange(0, 2).Draw(t, "takePair") > 0 {
					if hi > lo && rapid.Bool().Draw(t, "single") {
						hi = lo
					}

					e.copyRound(t, n, src, dst, lo, hi)

					return
				}
			}
		}

		kind = "create"
	}

	shared := kind == "create-shared"

	if shared && kf.Listed(kfCreateLevels) {
		// steer away: the first creation under a new parent needs two levels
		ev.Excluded(1)

		shared = false
	}

	// half of the creation rounds race with connector announcements of new mailboxes
	conn := 0
	if rapid.Bool().Draw(t, "withConn") {
		conn = rapid.IntRange(1, 2).Draw(t, "connMailboxes")

		// fewer sessions, so that the announcement competes for one of the last free slots more often
		if free := e.cfg.MaxMbox - e.cur.Rows; free > 0 && free < n {
			n = free
		}
	}

	e.createRound(t, n, shared, conn)
}

func runConcurrent(t *rapid.T) {
	cfg := drawConfig(t)
	e := start(t, cfg)

	defer e.stop()

	e.op("%s", cfg)
	e.observe("start")
	e.login(0)
	e.prefill(t)

	if cfg.VMode == "below" {
		e.lowerValidityLimit(t)
	}

	for i, n := 0, rapid.IntRange(1, 4).Draw(t, "rounds"); i < n; i++ {
		e.concRound(t)
	}

	e.finish()
}

func TestC17Concurrent(t *testing.T) {
	ev.Checks(40, 600)
	rapid.Check(t, runConcurrent)
}
