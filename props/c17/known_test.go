package c17

import (
	"fmt"
	"math"
	"strings"
	"sync"
	"testing"

	"github.com/ProtonMail/gluon/imap"
	"github.com/ProtonMail/gluon/limits"

	"verif/internal/bed"
	"verif/internal/imapc"
	"verif/internal/kf"
	"verif/internal/mach"
)

// Scripted regressions of the defects of gluon this check found on the unchanged tree (HACKING.md: reproduce ->
// kf.Report if listed, fail if not listed; pass silently once the defect is gone).

type script struct {
	t *testing.T
	b *bed.Bed
	u *bed.User
}

func newScript(t *testing.T, maxMbox, maxMsg uint32, maxUID imap.UID) *script {
	l := limits.NewIMAPLimits(maxMbox, maxMsg, maxUID, math.MaxUint32)

	b, err := bed.Start(bed.Options{Limits: &l}, bed.UserSpec{Name: "user", Pass: "pass"})
	if err != nil {
		t.Fatal(err)
	}

	t.Cleanup(b.Destroy)

	return &script{t: t, b: b, u: b.Users[0]}
}

func (sc *script) login(name string) *bed.Session {
	s, err := sc.b.Login(name, sc.u)
	if err != nil {
		sc.t.Fatal(err)
	}

	sc.t.Cleanup(s.Logout)

	return s
}

func (sc *script) observe() *obs {
	if err := sc.b.Barrier(sc.u); err != nil {
		sc.t.Fatalf("VERIF-INCONCLUSIVE: barrier: %v", err)
	}

	o, err := observe(sc.b, sc.u)
	if err != nil {
		sc.t.Fatalf("harness: %v\n%s", err, sc.b.Hist)
	}

	return o
}

func appendMsg(s *bed.Session, box, marker string) *imapc.Result {
	return s.DoParts(imapc.T("APPEND "+bed.Quote(box)+" "), imapc.L(mach.Msg(marker, "")))
}

func known(t *testing.T, id, format string, a ...any) {
	if !kf.Report(id) {
		t.Fatalf("C17 violated (not listed as known finding %s): %s", id, fmt.Sprintf(format, a...))
	}
}

// F-C17 (first half): State.Create checks the number of mailboxes once, then creates every missing level.
func TestKnown_C17_create_levels_checked_once(t *testing.T) {
	sc := newScript(t, 4, 8, 14) // rows: recovery mailbox + INBOX = 2, two free slots
	s := sc.login("s")

	r := s.Do("CREATE a/b/c") // needs three rows
	o := sc.observe()

	if o.Rows <= 4 {
		if r.OK() {
			t.Fatalf("CREATE a/b/c answered OK but the user has %d rows: %v", o.Rows, o.names())
		}

		if o.Rows != 2 {
			t.Fatalf("C17 violated: the refused CREATE a/b/c (%v) left %d rows behind: %v", r, o.Rows, o.names())
		}

		return // not reproduced: refused without effect
	}

	known(t, kfCreateLevels, "maxMailboxes=4, 2 rows (recovery, INBOX): CREATE a/b/c -> %s %s; the user now has %d mailbox rows %v\n%s",
		r.Status, r.Text, o.Rows, o.names(), sc.b.Hist)
}

// RENAME creates every missing superior of the new name (and RENAME INBOX the new mailbox) without consulting the
// mailbox-count or UIDVALIDITY limit.
func TestKnown_C17_rename_creates_mailboxes_unchecked(t *testing.T) {
	sc := newScript(t, 3, 8, 14) // rows: recovery mailbox + INBOX = 2, one free slot
	s := sc.login("s")

	if r := s.Do("CREATE a"); !r.OK() {
		t.Fatalf("C17 violated: CREATE a (one free slot) refused: %v", r)
	}

	before := sc.observe()
	r1 := s.Do("RENAME a x/y/z") // needs two more rows, none is free
	mid := sc.observe()
	r2 := s.Do("RENAME INBOX old") // needs one more row
	after := sc.observe()

	if after.Rows <= 3 {
		if r1.OK() || r2.OK() {
			t.Fatalf("RENAME answered OK (%v / %v) but the user has %d rows: %v", r1, r2, after.Rows, after.names())
		}

		if d := append(diffObs(before, mid, true), diffObs(mid, after, true)...); len(d) > 0 {
			t.Fatalf("C17 violated: the refused RENAMEs left an effect behind: %v", d)
		}

		return // not reproduced: refused without effect
	}

	known(t, kfRename, "maxMailboxes=3, rows = recovery, INBOX, a: RENAME a x/y/z -> %s (%d rows: %v); RENAME INBOX old -> %s (%d rows: %v)",
		r1.Status, mid.Rows, mid.names(), r2.Status, after.Rows, after.names())
}

// F-C17 (second half): AppendRegular checks the limits in a read that precedes the write transaction, so sessions
// appending at once to a mailbox with one free slot can all pass the check.
func TestKnown_C17_append_limit_check_outside_transaction(t *testing.T) {
	const (
		parallel = 6
		attempts = 25
	)

	sc := newScript(t, 100, 1, 100)

	var sess []*bed.Session
	for i := 0; i < parallel; i++ {
		sess = append(sess, sc.login(fmt.Sprintf("s%d", i)))
	}

	for a := 0; a < attempts; a++ {
		box := fmt.Sprintf("t%d", a)
		if r := sess[0].Do("CREATE " + box); !r.OK() {
			t.Fatalf("harness: CREATE %s: %v", box, r)
		}

		var (
			wg    sync.WaitGroup
			start = make(chan struct{})
			res   = make([]*imapc.Result, parallel)
		)

		for i := range sess {
			wg.Add(1)

			go func(i int) {
				defer wg.Done()

				<-start

				res[i] = appendMsg(sess[i], box, fmt.Sprintf("r%d-%d", a, i))
			}(i)
		}

		close(start)
		wg.Wait()

		o := sc.observe()
		if n := len(o.Boxes[box].Msgs); n > 1 {
			var answers []string
			for _, r := range res {
				answers = append(answers, r.Status)
			}

			known(t, kfAppendRace, "maxMessages=1: %d sessions APPEND to the empty mailbox %s at once -> %v; it now holds %d messages: %s (attempt %d)",
				parallel, box, answers, n, o.Boxes[box], a+1)

			return
		}
	}
	// not reproduced under this schedule
}

// A refused APPEND is parked in the recovery mailbox, to which no limit applies.
func TestKnown_C17_recovery_mailbox_unlimited(t *testing.T) {
	sc := newScript(t, 8, 1, 3)
	s := sc.login("s")

	if r := appendMsg(s, "INBOX", "m1"); !r.OK() {
		t.Fatalf("C17 violated: the first APPEND (1 free slot) was refused: %v", r)
	}

	var answers []string

	for _, m := range []string{"m2", "m3", "m4", "m5"} {
		r := appendMsg(s, "INBOX", m)
		answers = append(answers, r.Status+" "+r.Text)

		if r.OK() {
			t.Fatalf("C17 violated: APPEND %s into the full INBOX was accepted", m)
		}
	}

	o := sc.observe()
	rec := o.Boxes[recoveryName]

	if len(o.Boxes["INBOX"].Msgs) != 1 {
		t.Fatalf("C17 violated: INBOX holds %s", o.Boxes["INBOX"])
	}

	if len(rec.Msgs) <= 1 && rec.UIDNext <= 3 {
		return // not reproduced
	}

	known(t, kfRecovery, "maxMessages=1 maxUID=3: APPEND m1 OK, then APPEND m2..m5 -> %v; the selectable, listed mailbox %q now holds %d messages, highest UID %d, UIDNEXT %d",
		answers, recoveryName, len(rec.Msgs), rec.Msgs[len(rec.Msgs)-1].UID, rec.UIDNext)
}

// COPY / MOVE tell the connector to add / move the messages before the limits of the destination are checked:
// the command is refused and rolled back locally, the remote mailbox keeps the change.
func TestKnown_C17_connector_called_before_limit_check(t *testing.T) {
	for _, verb := range []string{"COPY", "MOVE"} {
		sc := newScript(t, 8, 1, 14)
		s := sc.login("s")

		for _, c := range []string{"CREATE A"} {
			if r := s.Do(c); !r.OK() {
				t.Fatalf("harness: %s: %v", c, r)
			}
		}

		if r := appendMsg(s, "INBOX", "m1"); !r.OK() {
			t.Fatalf("harness: %v", r)
		}

		if r := appendMsg(s, "A", "m2"); !r.OK() {
			t.Fatalf("harness: %v", r)
		}

		before, remoteBefore := sc.observe(), remoteSnap(sc.u)

		if r := s.Select("INBOX", false); !r.OK() {
			t.Fatalf("harness: %v", r)
		}

		r := s.Do(verb + " 1 A") // A is full
		s.Unselect(false)

		after := sc.observe()

		if r.OK() {
			t.Fatalf("C17 violated: %s 1 A into the full mailbox A was accepted: %s", verb, after)
		}

		if d := diffObs(before, after, true); len(d) > 0 {
			t.Fatalf("C17 violated: the refused %s left an effect behind: %v", verb, d)
		}

		d := diffStrings(remoteBefore, remoteSnap(sc.u))
		if len(d) == 0 {
			continue // not reproduced
		}

		known(t, kfRemoteFirst, "maxMessages=1, INBOX=[m1], A=[m2]: SELECT INBOX; %s 1 A -> %s %s, mailboxes unchanged, but the connector was told first; remote model: %s\nconnector calls: %v",
			verb, r.Status, r.Text, strings.Join(d, "; "), sc.u.Conn.Calls)

		return
	}
}
