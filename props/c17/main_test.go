package c17

import (
	"testing"

	"verif/internal/ev"
)

func TestMain(m *testing.M) {
	ev.Main(m, "C17", "exploration",
		"drawn limits.NewIMAPLimits(maxMailboxes 2-8, maxMessages 0-8, maxUID 1-14, maxUIDValidity huge | below every value the epoch generator can hand out (switched in by a restart after the prefill) | 3-14 with an incremental generator) and a rapid state machine that approaches the limits from below: APPEND, COPY/MOVE of 1-6 messages sized around the free slots / free UIDs of the destination, CREATE of a name needing 1-4 new levels sized around the free mailbox slots, connector MailboxCreated, MessagesCreated batches (1-6 messages into 1-2 mailboxes) and MessageMailboxesUpdated, plus EXPUNGE and DELETE to make room again; concurrent rounds: 2-6 sessions (and optionally the connector: a MessagesCreated batch next to the APPENDs, MailboxCreated announcements next to the CREATEs) issue the same limit-approaching command at once under the real scheduler, then a barrier. Oracle after every step, from a fresh session's view of every mailbox row (incl. the hidden recovery mailbox), LIST and the server's own accounting read through VerifDBRead (GetMailboxCount, GetMailboxMessageCountAndUID): rows <= maxMailboxes, messages per mailbox <= maxMessages, every UID <= maxUID-1 and UIDNEXT <= maxUID (CheckUIDCount bounds the next UID), UIDVALIDITY < maxUIDValidity for mailboxes created under the limit; a refused operation (NO / update acknowledged with an error) leaves every mailbox, the namespace and the connector's remote model exactly as observed before (APPEND: except the recovery mailbox, where gluon parks the refused message); an operation that fits (resulting counts <= max, highest UID <= maxUID-1, next UIDVALIDITY < max) is accepted and has exactly the expected effect (positions, UIDs, markers). Non-trivial: a case containing an operation whose size exceeds the remaining room by less than its own size (0 < overflow < size: it would cross a limit part-way; for concurrent rounds: 0 < room < total size of the round); distinct by hash of the configuration and operation sequence.",
		"message identity through the X-Verif-Marker header",
		"silent connector echo: the remote model changes only through gluon's connector calls and the harness' own updates",
		"concurrent rounds are schedule dependent (sampled, not shrinkable); their oracle uses monotonicity of the round (a refused operation must still not fit in the final state)")
}
