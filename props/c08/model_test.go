package c08

import (
	"sort"
	"strings"
	"time"

	"github.com/ProtonMail/gluon/imap"
)

// M-db: the reference model. Plain maps and slices; no SQL, no chunking. Every method of the db interface has a
// counterpart here that says (a) what the call must return and (b) what it changes.
//
// Sources of the semantics: the final schema (v0..v3 migrations: which things exist, which are unique), the doc comments
// of /repo/db, the unit test internal/db_impl/sqlite3/migration_test.go (connector settings), and what the callers in
// internal/state and internal/backend rely on (noted at each method).

// expect says how the result of the real call is judged.
type expect int

const (
	expOK       expect = iota // must succeed; result and effect must equal the model's
	expErr                    // precondition fails: must return an error and change nothing
	expNotFound               // must return an error satisfying db.IsErrNotFound (callers test for it)
	expLenient                // not defined by the interface / never relied upon: an error is accepted; without error the model's answer holds
)

func (e expect) String() string {
	return [...]string{"ok", "error", "not-found", "lenient"}[e]
}

// flagset is a case-insensitive set of flag names (imap.FlagSet semantics): key = lower case, value = spelling.
type flagset map[string]string

func newFlagset(flags ...string) flagset {
	fs := flagset{}
	for _, f := range flags {
		fs.add(f)
	}

	return fs
}

func (fs flagset) add(f string) {
	k := strings.ToLower(f)
	if _, ok := fs[k]; !ok {
		fs[k] = f
	}
}

func (fs flagset) remove(f string) { delete(fs, strings.ToLower(f)) }

func (fs flagset) has(f string) bool { _, ok := fs[strings.ToLower(f)]; return ok }

func (fs flagset) clone() flagset {
	c := make(flagset, len(fs))
	for k, v := range fs {
		c[k] = v
	}

	return c
}

func (fs flagset) keys() []string {
	ks := make([]string, 0, len(fs))
	for k := range fs {
		ks = append(ks, k)
	}

	sort.Strings(ks)

	return ks
}

func (fs flagset) spellings() []string {
	ks := fs.keys()
	out := make([]string, len(ks))

	for i, k := range ks {
		out[i] = fs[k]
	}

	return out
}

func fromIMAP(f imap.FlagSet) flagset {
	fs := flagset{}
	for _, v := range f.ToSliceUnsorted() {
		fs.add(v)
	}

	return fs
}

type mMsg struct {
	id        imap.InternalMessageID
	remoteID  imap.MessageID
	date      time.Time
	size      int
	body      string
	structure string
	envelope  string
	deleted   bool
	flags     flagset
}

type mEntry struct { // one row of a mailbox: a message's membership
	uid     imap.UID
	id      imap.InternalMessageID
	recent  bool
	deleted bool
}

type mMbox struct {
	id          imap.InternalMailboxID
	remoteID    imap.MailboxID
	name        string
	uidValidity imap.UID
	subscribed  bool
	flags       flagset
	permFlags   flagset
	attrs       flagset
	lastUID     uint32 // highest UID ever assigned in this mailbox (never goes down, also not after removals)
	entries     []*mEntry
	byMsg       map[imap.InternalMessageID]*mEntry
}

type model struct {
	mboxes    map[imap.InternalMailboxID]*mMbox
	mboxOrder []imap.InternalMailboxID // creation order (deterministic draws)
	usedMbox  map[imap.InternalMailboxID]struct{}
	goneMbox  []imap.InternalMailboxID // ids of deleted mailboxes (interesting non-existent ids)
	goneMRID  []imap.MailboxID

	msgs     map[imap.InternalMessageID]*mMsg
	msgOrder []imap.InternalMessageID
	byRemote map[imap.MessageID]imap.InternalMessageID
	goneMsg  []imap.InternalMessageID
	goneRID  []imap.MessageID

	deletedSubs map[string]imap.MailboxID // name -> remote id; both unique

	settings    string
	hasSettings bool

	fresh uint64 // counter for fresh ids made by the generators (part of the state so that aborts do not matter)
}

func newModel() *model {
	return &model{
		mboxes:      map[imap.InternalMailboxID]*mMbox{},
		usedMbox:    map[imap.InternalMailboxID]struct{}{},
		msgs:        map[imap.InternalMessageID]*mMsg{},
		byRemote:    map[imap.MessageID]imap.InternalMessageID{},
		deletedSubs: map[string]imap.MailboxID{},
	}
}

func (m *model) clone() *model {
	c := &model{
		mboxes:      make(map[imap.InternalMailboxID]*mMbox, len(m.mboxes)),
		mboxOrder:   append([]imap.InternalMailboxID(nil), m.mboxOrder...),
		usedMbox:    make(map[imap.InternalMailboxID]struct{}, len(m.usedMbox)),
		goneMbox:    append([]imap.InternalMailboxID(nil), m.goneMbox...),
		goneMRID:    append([]imap.MailboxID(nil), m.goneMRID...),
		msgs:        make(map[imap.InternalMessageID]*mMsg, len(m.msgs)),
		msgOrder:    append([]imap.InternalMessageID(nil), m.msgOrder...),
		byRemote:    make(map[imap.MessageID]imap.InternalMessageID, len(m.byRemote)),
		goneMsg:     append([]imap.InternalMessageID(nil), m.goneMsg...),
		goneRID:     append([]imap.MessageID(nil), m.goneRID...),
		deletedSubs: make(map[string]imap.MailboxID, len(m.deletedSubs)),
		settings:    m.settings,
		hasSettings: m.hasSettings,
		fresh:       m.fresh,
	}

	for k, v := range m.mboxes {
		b := *v
		b.flags, b.permFlags, b.attrs = v.flags.clone(), v.permFlags.clone(), v.attrs.clone()
		b.entries = make([]*mEntry, len(v.entries))
		b.byMsg = make(map[imap.InternalMessageID]*mEntry, len(v.entries))

		for i, e := range v.entries {
			ce := *e
			b.entries[i] = &ce
			b.byMsg[ce.id] = &ce
		}

		c.mboxes[k] = &b
	}

	for k := range m.usedMbox {
		c.usedMbox[k] = struct{}{}
	}

	for k, v := range m.msgs {
		mm := *v
		mm.flags = v.flags.clone()
		c.msgs[k] = &mm
	}

	for k, v := range m.byRemote {
		c.byRemote[k] = v
	}

	for k, v := range m.deletedSubs {
		c.deletedSubs[k] = v
	}

	return c
}

// ---- lookups ----

func (m *model) mboxByRemote(rid imap.MailboxID) *mMbox {
	for _, id := range m.mboxOrder {
		if b := m.mboxes[id]; b.remoteID == rid {
			return b
		}
	}

	return nil
}

func (m *model) mboxByName(name string) *mMbox {
	for _, id := range m.mboxOrder {
		if b := m.mboxes[id]; b.name == name {
			return b
		}
	}

	return nil
}

func (m *model) msgByRemote(rid imap.MessageID) *mMsg {
	if id, ok := m.byRemote[rid]; ok {
		return m.msgs[id]
	}

	return nil
}

func (m *model) mailboxesOf(id imap.InternalMessageID) []imap.InternalMailboxID {
	var out []imap.InternalMailboxID

	for _, bid := range m.mboxOrder {
		if _, ok := m.mboxes[bid].byMsg[id]; ok {
			out = append(out, bid)
		}
	}

	return out
}

func (m *model) inAnyMailbox(id imap.InternalMessageID) bool { return len(m.mailboxesOf(id)) > 0 }

func (m *model) recentCount(b *mMbox) int {
	n := 0

	for _, e := range b.entries {
		if e.recent {
			n++
		}
	}

	return n
}

// ---- mailbox writes ----

type newMbox struct {
	remoteID           imap.MailboxID
	name               string
	flags, perm, attrs []string
	uidValidity        imap.UID
}

// createMailbox: remote id and name are unique (schema: UNIQUE on both). New mailboxes are subscribed
// (M-ns: "CreateMailbox inserts subscribed = true"; tests/lsub_test.go relies on it).
func (m *model) canCreateMailbox(n newMbox) expect {
	if m.mboxByRemote(n.remoteID) != nil || m.mboxByName(n.name) != nil {
		return expErr
	}

	return expOK
}

// applyCreateMailbox registers the mailbox under the id the database chose.
func (m *model) applyCreateMailbox(id imap.InternalMailboxID, n newMbox) *mMbox {
	b := &mMbox{
		id: id, remoteID: n.remoteID, name: n.name, uidValidity: n.uidValidity, subscribed: true,
		flags: newFlagset(n.flags...), permFlags: newFlagset(n.perm...), attrs: newFlagset(n.attrs...),
		byMsg: map[imap.InternalMessageID]*mEntry{},
	}
	m.mboxes[id] = b
	m.mboxOrder = append(m.mboxOrder, id)
	m.usedMbox[id] = struct{}{}

	// a name that exists again is no longer a deleted subscription (gluon fix 21fa39b)
	delete(m.deletedSubs, n.name)

	return b
}

func (m *model) renameMailbox(rid imap.MailboxID, name string) expect {
	b := m.mboxByRemote(rid)
	if b == nil {
		return expErr // state.Rename / connector propagate this error
	}

	if o := m.mboxByName(name); o != nil && o != b {
		return expErr
	}

	b.name = name

	delete(m.deletedSubs, name)

	return expOK
}

// addDeletedSubscription: upsert by name; the remote id is unique as well (GetDeletedSubscriptionSet is keyed by it).
func (m *model) addDeletedSubscription(name string, rid imap.MailboxID) expect {
	// a remote id has one name: an entry of the same remote id under another name is replaced (gluon fix "a deleted
	// subscription kept under another name no longer blocks deleting the mailbox")
	for n, r := range m.deletedSubs {
		if r == rid && n != name {
			delete(m.deletedSubs, n)
		}
	}

	m.deletedSubs[name] = rid

	return expOK
}

func (m *model) removeDeletedSubscription(name string) int {
	if _, ok := m.deletedSubs[name]; ok {
		delete(m.deletedSubs, name)
		return 1
	}

	return 0
}

// deleteMailbox: a missing mailbox is a documented no-op (the implementation says so explicitly and
// applyMailboxDeleted treats "not found" as success). A subscribed mailbox leaves a deleted-subscription entry
// (LSUB shows it as \Noselect). Messages stay (label semantics); membership, flags, attributes go.
func (m *model) deleteMailbox(rid imap.MailboxID) expect {
	b := m.mboxByRemote(rid)
	if b == nil {
		return expOK
	}

	if b.subscribed {
		if e := m.addDeletedSubscription(b.name, rid); e != expOK {
			return e
		}
	}

	delete(m.mboxes, b.id)

	for i, id := range m.mboxOrder {
		if id == b.id {
			m.mboxOrder = append(m.mboxOrder[:i:i], m.mboxOrder[i+1:]...)
			break
		}
	}

	m.goneMbox = append(m.goneMbox, b.id)
	m.goneMRID = append(m.goneMRID, rid)

	return expOK
}

type idPair struct {
	id  imap.InternalMessageID
	rid imap.MessageID
}

// addMessages: every message must exist and must not be a member yet, no id twice, the mailbox must exist; each gets
// the next UID in list order, \Recent set, \Deleted clear. Returns the new entries in UID order.
func (m *model) addMessages(bid imap.InternalMailboxID, pairs []idPair) (expect, []*mEntry) {
	if len(pairs) == 0 {
		return expOK, nil // "if len(messageIDs) == 0 return nil, nil" — callers pass empty lists freely
	}

	b := m.mboxes[bid]
	if b == nil {
		return expErr, nil
	}

	seen := make(map[imap.InternalMessageID]struct{}, len(pairs))

	for _, p := range pairs {
		if _, ok := m.msgs[p.id]; !ok {
			return expErr, nil
		}

		if _, ok := b.byMsg[p.id]; ok {
			return expErr, nil
		}

		if _, dup := seen[p.id]; dup {
			return expErr, nil
		}

		seen[p.id] = struct{}{}
	}

	out := make([]*mEntry, 0, len(pairs))

	for _, p := range pairs {
		b.lastUID++
		e := &mEntry{uid: imap.UID(b.lastUID), id: p.id, recent: true}
		b.entries = append(b.entries, e)
		b.byMsg[p.id] = e
		out = append(out, e)
	}

	return expOK, out
}

// removeMessages: members are removed, everything else in the list is ignored (relational DELETE ... IN).
func (m *model) removeMessages(bid imap.InternalMailboxID, ids []imap.InternalMessageID) expect {
	if len(ids) == 0 {
		return expOK
	}

	b := m.mboxes[bid]
	if b == nil {
		return expLenient
	}

	exp := expOK

	rm := make(map[imap.InternalMessageID]struct{}, len(ids))
	for _, id := range ids {
		if _, ok := b.byMsg[id]; !ok {
			exp = expLenient // callers filter with MailboxFilterContains first; non-members are never passed
		}

		rm[id] = struct{}{}
	}

	kept := b.entries[:0:0]

	for _, e := range b.entries {
		if _, ok := rm[e.id]; ok {
			delete(b.byMsg, e.id)
		} else {
			kept = append(kept, e)
		}
	}

	b.entries = kept

	return exp
}

func (m *model) clearRecentOn(bid imap.InternalMailboxID, id imap.InternalMessageID) expect {
	b := m.mboxes[bid]
	if b == nil {
		return expLenient
	}

	// a message that left the mailbox in the meantime is silently skipped (responder runs after the fact)
	if e, ok := b.byMsg[id]; ok {
		e.recent = false
	}

	return expOK
}

func (m *model) clearRecentAll(bid imap.InternalMailboxID) expect {
	b := m.mboxes[bid]
	if b == nil {
		return expLenient
	}

	for _, e := range b.entries {
		e.recent = false
	}

	return expOK
}

// setDeleted: per-mailbox \Deleted. Ids come from a session's snapshot, which may lag behind the database, so
// non-members must be ignored without error (state/updates.go passes snapshot ids unfiltered).
func (m *model) setDeleted(bid imap.InternalMailboxID, ids []imap.InternalMessageID, deleted bool) expect {
	if len(ids) == 0 {
		return expOK
	}

	b := m.mboxes[bid]
	if b == nil {
		return expLenient
	}

	for _, id := range ids {
		if e, ok := b.byMsg[id]; ok {
			e.deleted = deleted
		}
	}

	return expOK
}

func (m *model) setSubscribed(bid imap.InternalMailboxID, v bool) expect {
	b := m.mboxes[bid]
	if b == nil {
		return expLenient
	}

	b.subscribed = v

	return expOK
}

func (m *model) updateRemoteMailboxID(bid imap.InternalMailboxID, rid imap.MailboxID) expect {
	b := m.mboxes[bid]
	if b == nil {
		return expErr
	}

	if o := m.mboxByRemote(rid); o != nil && o != b {
		return expErr
	}

	b.remoteID = rid

	return expOK
}

func (m *model) setUIDValidity(bid imap.InternalMailboxID, v imap.UID) expect {
	b := m.mboxes[bid]
	if b == nil {
		return expErr
	}

	b.uidValidity = v

	return expOK
}

func (m *model) addFlagsToAll(perm bool, flags []string) expect {
	for _, id := range m.mboxOrder {
		b := m.mboxes[id]
		for _, f := range flags {
			if perm {
				b.permFlags.add(f)
			} else {
				b.flags.add(f)
			}
		}
	}

	return expOK
}

// ---- message writes ----

type newMsg struct {
	id        imap.InternalMessageID
	remoteID  imap.MessageID
	flags     []string
	date      time.Time
	size      int
	body      string
	structure string
	envelope  string
}

func (m *model) canCreateMessages(reqs []newMsg) expect {
	ids := map[imap.InternalMessageID]struct{}{}
	rids := map[imap.MessageID]struct{}{}

	for _, r := range reqs {
		if _, ok := m.msgs[r.id]; ok {
			return expErr
		}

		if _, ok := m.byRemote[r.remoteID]; ok {
			return expErr
		}

		if _, ok := ids[r.id]; ok {
			return expErr
		}

		if _, ok := rids[r.remoteID]; ok {
			return expErr
		}

		ids[r.id] = struct{}{}
		rids[r.remoteID] = struct{}{}
	}

	return expOK
}

func (m *model) createMessages(reqs []newMsg) expect {
	if e := m.canCreateMessages(reqs); e != expOK {
		return e
	}

	for _, r := range reqs {
		m.msgs[r.id] = &mMsg{id: r.id, remoteID: r.remoteID, date: r.date, size: r.size, body: r.body,
			structure: r.structure, envelope: r.envelope, flags: newFlagset(r.flags...)}
		m.msgOrder = append(m.msgOrder, r.id)
		m.byRemote[r.remoteID] = r.id
	}

	return expOK
}

func (m *model) createAndAdd(bid imap.InternalMailboxID, r newMsg) (expect, *mEntry) {
	if m.mboxes[bid] == nil {
		return expErr, nil
	}

	if e := m.createMessages([]newMsg{r}); e != expOK {
		return e, nil
	}

	_, es := m.addMessages(bid, []idPair{{r.id, r.remoteID}})

	return expOK, es[0]
}

func (m *model) markDeleted(id imap.InternalMessageID) expect {
	if mm, ok := m.msgs[id]; ok {
		mm.deleted = true
		return expOK
	}

	return expLenient // nil or "not found": applyMessageDeleted accepts both
}

func (m *model) setRemoteID(mm *mMsg, rid imap.MessageID) {
	delete(m.byRemote, mm.remoteID)
	m.goneRID = append(m.goneRID, mm.remoteID)
	mm.remoteID = rid
	m.byRemote[rid] = mm.id
}

// deleteMessages: existing ids are removed together with their flags; unknown ids are ignored (removeState computes the
// list in an earlier read; another session may have deleted some in between). Messages that are still members of a
// mailbox: not defined (callers delete only messages removed from every mailbox) -> lenient, effect = gone everywhere.
func (m *model) deleteMessages(ids []imap.InternalMessageID) expect {
	exp := expOK

	for _, id := range ids {
		mm, ok := m.msgs[id]
		if !ok {
			continue
		}

		for _, bid := range m.mailboxesOf(id) {
			exp = expLenient
			m.removeMessages(bid, []imap.InternalMessageID{id})
		}

		delete(m.msgs, id)
		delete(m.byRemote, mm.remoteID)
		m.goneMsg = append(m.goneMsg, id)
		m.goneRID = append(m.goneRID, mm.remoteID)
	}

	if len(m.msgOrder) > 0 {
		kept := m.msgOrder[:0:0]

		for _, id := range m.msgOrder {
			if _, ok := m.msgs[id]; ok {
				kept = append(kept, id)
			}
		}

		m.msgOrder = kept
	}

	return exp
}

func (m *model) updateRemoteMessageID(id imap.InternalMessageID, rid imap.MessageID) expect {
	mm, ok := m.msgs[id]
	if !ok {
		return expErr
	}

	if o := m.msgByRemote(rid); o != nil && o != mm {
		return expErr
	}

	m.setRemoteID(mm, rid)

	return expOK
}

// addFlag / removeFlag / setFlags: flags are case-insensitive (imap.FlagSet: "Flags are case-insensitive"); callers
// select the messages with a case-insensitive test and then pass the client's spelling (state/updates.go).
// Unknown message ids: never passed by callers (ids come from GetMessagesFlags) -> lenient.
func (m *model) addFlag(ids []imap.InternalMessageID, flag string) expect {
	exp := expOK

	for _, id := range ids {
		if mm, ok := m.msgs[id]; ok {
			mm.flags.add(flag)
		} else {
			exp = expLenient
		}
	}

	return exp
}

func (m *model) removeFlag(ids []imap.InternalMessageID, flag string) expect {
	for _, id := range ids {
		if mm, ok := m.msgs[id]; ok {
			mm.flags.remove(flag)
		}
	}

	return expOK
}

func (m *model) setFlags(ids []imap.InternalMessageID, flags []string) expect {
	exp := expOK

	for _, id := range ids {
		if mm, ok := m.msgs[id]; ok {
			mm.flags = newFlagset(flags...)
		} else {
			exp = expLenient
		}
	}

	return exp
}
