package c08

import (
	"context"
	"errors"
	"fmt"
	"os"
	"sort"
	"strings"

	"github.com/ProtonMail/gluon"
	"github.com/ProtonMail/gluon/db"
	"github.com/ProtonMail/gluon/imap"

	"verif/internal/ev"
)

const userID = "user-c08"

// sut is the real SQLite client under test together with the model that shadows it.
type sut struct {
	dir    string
	client db.Client
	m      *model
	hist   []string // every operation executed, printable (the reproduction recipe)
	opened int

	debug, trace bool // options of the implementation (see clientOptions)
}

var errAbort = errors.New("c08: transaction aborted by the test")

// clientOptions: the Debug() / Trace() options of the implementation for the systems created from now on (both wrap
// every operation of the interface in a forwarding layer of their own, so the interface has to behave the same).
var clientOptions struct{ debug, trace bool }

func newSUT() (*sut, error) {
	dir, err := os.MkdirTemp("", "c08-")
	if err != nil {
		return nil, err
	}

	s := &sut{dir: dir, m: newModel(), debug: clientOptions.debug, trace: clientOptions.trace}
	if err := s.open(); err != nil {
		_ = os.RemoveAll(dir)
		return nil, err
	}

	return s, nil
}

func (s *sut) open() error {
	c, isNew, err := gluon.VerifSQLiteClientInterfaceWith(s.debug, s.trace).New(s.dir, userID)
	if err != nil {
		return fmt.Errorf("New: %w", err)
	}

	if isNew != (s.opened == 0) {
		_ = c.Close()
		return fmt.Errorf("New reported isNew=%v on open #%d", isNew, s.opened+1)
	}

	if err := c.Init(context.Background(), imap.DefaultEpochUIDValidityGenerator()); err != nil {
		_ = c.Close()
		return fmt.Errorf("Init: %w", err)
	}

	s.client = c
	s.opened++

	return nil
}

func (s *sut) reopen() error {
	s.hist = append(s.hist, "== close + reopen")

	if err := s.client.Close(); err != nil {
		return fmt.Errorf("Close: %w", err)
	}

	s.client = nil

	return s.open()
}

func (s *sut) close() {
	if s.client != nil {
		_ = s.client.Close()
	}

	_ = os.RemoveAll(s.dir)
}

func (s *sut) history() string {
	return "history (in order):\n  " + strings.Join(s.hist, "\n  ")
}

// count adds to the per-method call histogram of the evidence. Rules count under "method:", the full scan under "scan:".
var methodCalls = map[string]int{}

func countCall(kind, name string) {
	ev.Class(kind+":"+name, 1)

	if kind == "method" {
		methodCalls[name]++
	}
}

// ---------------------------------------------------------------------------------------------------------------------
// comparison helpers. A mismatch is returned as an error text; nil means equal.

func sameFlags(got imap.FlagSet, want flagset) error {
	g := fromIMAP(got)
	if len(g) != len(want) {
		return fmt.Errorf("flags %q, model %q", g.spellings(), want.spellings())
	}

	for k := range want {
		if _, ok := g[k]; !ok {
			return fmt.Errorf("flags %q, model %q", g.spellings(), want.spellings())
		}
	}

	return nil
}

func sameMailbox(got *db.Mailbox, b *mMbox) error {
	if got == nil {
		return fmt.Errorf("nil mailbox, model %+v", *b)
	}

	if got.ID != b.id || got.RemoteID != b.remoteID || got.Name != b.name || got.UIDValidity != b.uidValidity || got.Subscribed != b.subscribed {
		return fmt.Errorf("mailbox {id=%v rid=%q name=%q uidv=%v sub=%v}, model {id=%v rid=%q name=%q uidv=%v sub=%v}",
			got.ID, got.RemoteID, got.Name, got.UIDValidity, got.Subscribed, b.id, b.remoteID, b.name, b.uidValidity, b.subscribed)
	}

	return nil
}

func sameMessage(got *db.Message, mm *mMsg) error {
	if got == nil {
		return fmt.Errorf("nil message")
	}

	if got.ID != mm.id || got.RemoteID != mm.remoteID || !got.Date.Equal(mm.date) || got.Size != mm.size || got.Body != mm.body ||
		got.BodyStructure != mm.structure || got.Envelope != mm.envelope || got.Deleted != mm.deleted {
		return fmt.Errorf("message {%v rid=%q date=%v size=%v body=%q bs=%q env=%q del=%v}, model {%v rid=%q date=%v size=%v body=%q bs=%q env=%q del=%v}",
			got.ID, got.RemoteID, got.Date, got.Size, got.Body, got.BodyStructure, got.Envelope, got.Deleted,
			mm.id, mm.remoteID, mm.date, mm.size, mm.body, mm.structure, mm.envelope, mm.deleted)
	}

	return nil
}

// multiset comparison of string renderings (used for all unordered slices); set=true ignores multiplicity.
func sameStrings(what string, got, want []string, set bool) error {
	g := append([]string(nil), got...)
	w := append([]string(nil), want...)
	sort.Strings(g)
	sort.Strings(w)

	if set {
		g, w = uniq(g), uniq(w)
	}

	if len(g) == len(w) {
		eq := true

		for i := range g {
			if g[i] != w[i] {
				eq = false
				break
			}
		}

		if eq {
			return nil
		}
	}

	// report the difference only (lists may be long)
	gm, wm := map[string]int{}, map[string]int{}
	for _, x := range g {
		gm[x]++
	}

	for _, x := range w {
		wm[x]++
	}

	var extra, missing []string

	for x, n := range gm {
		if n > wm[x] {
			extra = append(extra, fmt.Sprintf("%s(x%d)", x, n-wm[x]))
		}
	}

	for x, n := range wm {
		if n > gm[x] {
			missing = append(missing, fmt.Sprintf("%s(x%d)", x, n-gm[x]))
		}
	}

	sort.Strings(extra)
	sort.Strings(missing)

	return fmt.Errorf("%s: %d returned, model has %d; returned but not in model: %s; in model but not returned: %s",
		what, len(got), len(want), clip(extra), clip(missing))
}

func uniq(s []string) []string {
	out := s[:0:0]

	for i, x := range s {
		if i == 0 || x != s[i-1] {
			out = append(out, x)
		}
	}

	return out
}

func clip(s []string) string {
	if len(s) > 6 {
		return fmt.Sprintf("%v … (%d in all)", s[:6], len(s))
	}

	return fmt.Sprint(s)
}

// entryFlags is what GetFlagSet() of a snapshot row / UIDWithFlags row must yield.
func (m *model) entryFlags(e *mEntry) flagset {
	fs := m.msgs[e.id].flags.clone()
	if e.deleted {
		fs.add(imap.FlagDeleted)
	}

	if e.recent {
		fs.add(imap.FlagRecent)
	}

	return fs
}

func (m *model) sameSnapshotRow(id imap.InternalMessageID, rid imap.MessageID, uid imap.UID, recent, deleted bool, flags imap.FlagSet, e *mEntry) error {
	mm := m.msgs[e.id]
	if id != e.id || rid != mm.remoteID || uid != e.uid || recent != e.recent || deleted != e.deleted {
		return fmt.Errorf("row {%v rid=%q uid=%v recent=%v deleted=%v}, model {%v rid=%q uid=%v recent=%v deleted=%v}",
			id, rid, uid, recent, deleted, e.id, mm.remoteID, e.uid, e.recent, e.deleted)
	}

	if err := sameFlags(flags, m.entryFlags(e)); err != nil {
		return fmt.Errorf("row %v uid=%v: %w", id, uid, err)
	}

	return nil
}

// ---------------------------------------------------------------------------------------------------------------------
// outcome judging

// panicErr is what safely turns a panic of the code under test into: no argument makes a panic acceptable.
type panicErr struct{ v any }

func (p *panicErr) Error() string { return fmt.Sprintf("PANIC: %v", p.v) }

// safely runs one call of the implementation under test (never code that draws from rapid: rapid uses panics itself).
func safely[T any](f func() (T, error)) (res T, err error) {
	defer func() {
		if r := recover(); r != nil {
			err = &panicErr{r}
		}
	}()

	return f()
}

// judge decides on the error of a call given the model's expectation. It returns (violation, proceed): proceed=false
// means the call failed legitimately (the caller must not compare results; a write must abort its transaction).
func judge(what string, exp expect, err error) (error, bool) {
	var pe *panicErr
	if errors.As(err, &pe) {
		return fmt.Errorf("%s: the call panicked: %v", what, pe.v), false
	}

	switch exp {
	case expOK:
		if err != nil {
			return fmt.Errorf("%s: unexpected error: %v", what, err), false
		}

		return nil, true
	case expErr:
		if err == nil {
			return fmt.Errorf("%s: precondition fails in the model, but the call returned no error", what), false
		}

		return nil, false
	case expNotFound:
		if err == nil {
			return fmt.Errorf("%s: model has no such row, but the call returned no error", what), false
		}

		if !db.IsErrNotFound(err) {
			return fmt.Errorf("%s: model has no such row; callers test db.IsErrNotFound, got a different error: %v", what, err), false
		}

		return nil, false
	default:
		return nil, err == nil
	}
}

// ---------------------------------------------------------------------------------------------------------------------
// full scan: the database, seen through every read method, equals the model. sampleMsgs > 0 limits the per-message
// single-row reads to that many messages (bulk cases); the list reads always cover everything.

func (s *sut) fullScan(ctx context.Context, ro db.ReadOnly, sampleMsgs int) error {
	m := s.m
	c := func(n string) { countCall("scan", n) }

	// ---- mailboxes, global views
	c("GetMailboxCount")

	if n, err := ro.GetMailboxCount(ctx); err != nil || n != len(m.mboxes) {
		return fmt.Errorf("GetMailboxCount = %v, %v; model %d", n, err, len(m.mboxes))
	}

	{
		c("GetAllMailboxesWithAttr")

		all, err := ro.GetAllMailboxesWithAttr(ctx)
		if err != nil {
			return fmt.Errorf("GetAllMailboxesWithAttr: %v", err)
		}

		var got, want []string

		for _, b := range all {
			got = append(got, fmt.Sprintf("%v|%q|%q|%v|%v|%q", b.ID, b.RemoteID, b.Name, b.UIDValidity, b.Subscribed, fromIMAP(b.Attributes).keys()))
		}

		for _, b := range m.mboxes {
			want = append(want, fmt.Sprintf("%v|%q|%q|%v|%v|%q", b.id, b.remoteID, b.name, b.uidValidity, b.subscribed, b.attrs.keys()))
		}

		if err := sameStrings("GetAllMailboxesWithAttr", got, want, false); err != nil {
			return err
		}
	}

	{
		c("GetAllMailboxesAsRemoteIDs")

		all, err := ro.GetAllMailboxesAsRemoteIDs(ctx)
		if err != nil {
			return fmt.Errorf("GetAllMailboxesAsRemoteIDs: %v", err)
		}

		var got, want []string
		for _, r := range all {
			got = append(got, string(r))
		}

		for _, b := range m.mboxes {
			want = append(want, string(b.remoteID))
		}

		if err := sameStrings("GetAllMailboxesAsRemoteIDs", got, want, false); err != nil {
			return err
		}
	}

	{
		c("GetAllMailboxesNameAndRemoteID")

		all, err := ro.GetAllMailboxesNameAndRemoteID(ctx)
		if err != nil {
			return fmt.Errorf("GetAllMailboxesNameAndRemoteID: %v", err)
		}

		var got, want []string
		for _, r := range all {
			got = append(got, fmt.Sprintf("%q|%q", r.Name, r.RemoteID))
		}

		for _, b := range m.mboxes {
			want = append(want, fmt.Sprintf("%q|%q", b.name, b.remoteID))
		}

		if err := sameStrings("GetAllMailboxesNameAndRemoteID", got, want, false); err != nil {
			return err
		}
	}

	{
		c("MailboxTranslateRemoteIDs")

		var rids []imap.MailboxID

		var want []string

		for _, id := range m.mboxOrder {
			rids = append(rids, m.mboxes[id].remoteID)
			want = append(want, id.String())
		}

		if len(rids) > 0 {
			ids, err := ro.MailboxTranslateRemoteIDs(ctx, rids)
			if err != nil {
				return fmt.Errorf("MailboxTranslateRemoteIDs(all): %v", err)
			}

			var got []string
			for _, id := range ids {
				got = append(got, id.String())
			}

			if err := sameStrings("MailboxTranslateRemoteIDs(all)", got, want, false); err != nil {
				return err
			}
		}
	}

	// ---- each mailbox
	for _, bid := range m.mboxOrder {
		b := m.mboxes[bid]
		w := fmt.Sprintf("mailbox %v (%q): ", bid, b.name)

		c("MailboxExistsWithID")

		if ok, err := ro.MailboxExistsWithID(ctx, bid); err != nil {
			if !knownC08a(err) {
				return fmt.Errorf(w+"MailboxExistsWithID: %v", err)
			}
		} else if !ok {
			return fmt.Errorf(w + "MailboxExistsWithID = false")
		}

		c("MailboxExistsWithRemoteID")

		if ok, err := ro.MailboxExistsWithRemoteID(ctx, b.remoteID); err != nil || !ok {
			return fmt.Errorf(w+"MailboxExistsWithRemoteID(%q) = %v, %v", b.remoteID, ok, err)
		}

		c("MailboxExistsWithName")

		if ok, err := ro.MailboxExistsWithName(ctx, b.name); err != nil || !ok {
			return fmt.Errorf(w+"MailboxExistsWithName = %v, %v", ok, err)
		}

		c("GetMailboxIDFromRemoteID")

		if id, err := ro.GetMailboxIDFromRemoteID(ctx, b.remoteID); err != nil || id != bid {
			return fmt.Errorf(w+"GetMailboxIDFromRemoteID(%q) = %v, %v", b.remoteID, id, err)
		}

		c("GetMailboxName")

		if n, err := ro.GetMailboxName(ctx, bid); err != nil || n != b.name {
			return fmt.Errorf(w+"GetMailboxName = %q, %v", n, err)
		}

		c("GetMailboxNameWithRemoteID")

		if n, err := ro.GetMailboxNameWithRemoteID(ctx, b.remoteID); err != nil || n != b.name {
			return fmt.Errorf(w+"GetMailboxNameWithRemoteID = %q, %v", n, err)
		}

		c("GetMailboxByID")

		if g, err := ro.GetMailboxByID(ctx, bid); err != nil {
			return fmt.Errorf(w+"GetMailboxByID: %v", err)
		} else if err := sameMailbox(g, b); err != nil {
			return fmt.Errorf(w+"GetMailboxByID: %v", err)
		}

		c("GetMailboxByName")

		if g, err := ro.GetMailboxByName(ctx, b.name); err != nil {
			return fmt.Errorf(w+"GetMailboxByName: %v", err)
		} else if err := sameMailbox(g, b); err != nil {
			return fmt.Errorf(w+"GetMailboxByName: %v", err)
		}

		c("GetMailboxByRemoteID")

		if g, err := ro.GetMailboxByRemoteID(ctx, b.remoteID); err != nil {
			return fmt.Errorf(w+"GetMailboxByRemoteID: %v", err)
		} else if err := sameMailbox(g, b); err != nil {
			return fmt.Errorf(w+"GetMailboxByRemoteID: %v", err)
		}

		c("GetMailboxFlags")

		if f, err := ro.GetMailboxFlags(ctx, bid); err != nil {
			return fmt.Errorf(w+"GetMailboxFlags: %v", err)
		} else if err := sameFlags(f, b.flags); err != nil {
			return fmt.Errorf(w+"GetMailboxFlags: %v", err)
		}

		c("GetMailboxPermanentFlags")

		if f, err := ro.GetMailboxPermanentFlags(ctx, bid); err != nil {
			return fmt.Errorf(w+"GetMailboxPermanentFlags: %v", err)
		} else if err := sameFlags(f, b.permFlags); err != nil {
			return fmt.Errorf(w+"GetMailboxPermanentFlags: %v", err)
		}

		c("GetMailboxAttributes")

		if f, err := ro.GetMailboxAttributes(ctx, bid); err != nil {
			return fmt.Errorf(w+"GetMailboxAttributes: %v", err)
		} else if err := sameFlags(f, b.attrs); err != nil {
			return fmt.Errorf(w+"GetMailboxAttributes: %v", err)
		}

		c("GetMailboxRecentCount")

		if n, err := ro.GetMailboxRecentCount(ctx, bid); err != nil || n != m.recentCount(b) {
			return fmt.Errorf(w+"GetMailboxRecentCount = %v, %v; model %d", n, err, m.recentCount(b))
		}

		c("GetMailboxMessageCount")

		if n, err := ro.GetMailboxMessageCount(ctx, bid); err != nil || n != len(b.entries) {
			return fmt.Errorf(w+"GetMailboxMessageCount = %v, %v; model %d", n, err, len(b.entries))
		}

		c("GetMailboxMessageCountWithRemoteID")

		if n, err := ro.GetMailboxMessageCountWithRemoteID(ctx, b.remoteID); err != nil || n != len(b.entries) {
			return fmt.Errorf(w+"GetMailboxMessageCountWithRemoteID = %v, %v; model %d", n, err, len(b.entries))
		}

		c("GetMailboxUID")

		if u, err := ro.GetMailboxUID(ctx, bid); err != nil || uint32(u) != b.lastUID+1 {
			return fmt.Errorf(w+"GetMailboxUID (next uid) = %v, %v; model %d", u, err, b.lastUID+1)
		}

		c("GetMailboxMessageCountAndUID")

		if n, u, err := ro.GetMailboxMessageCountAndUID(ctx, bid); err != nil || n != len(b.entries) || uint32(u) != b.lastUID+1 {
			return fmt.Errorf(w+"GetMailboxMessageCountAndUID = %v, %v, %v; model %d, %d", n, u, err, len(b.entries), b.lastUID+1)
		}

		c("GetMailboxMessageIDPairs")

		if ps, err := ro.GetMailboxMessageIDPairs(ctx, bid); err != nil {
			return fmt.Errorf(w+"GetMailboxMessageIDPairs: %v", err)
		} else {
			var got, want []string
			for _, p := range ps {
				got = append(got, fmt.Sprintf("%v|%q", p.InternalID, p.RemoteID))
			}

			for _, e := range b.entries {
				want = append(want, fmt.Sprintf("%v|%q", e.id, m.msgs[e.id].remoteID))
			}

			if err := sameStrings(w+"GetMailboxMessageIDPairs", got, want, false); err != nil {
				return err
			}
		}

		c("GetMailboxMessageForNewSnapshot")

		if rows, err := ro.GetMailboxMessageForNewSnapshot(ctx, bid); err != nil {
			return fmt.Errorf(w+"GetMailboxMessageForNewSnapshot: %v", err)
		} else {
			if len(rows) != len(b.entries) {
				return fmt.Errorf(w+"GetMailboxMessageForNewSnapshot: %d rows, model %d", len(rows), len(b.entries))
			}

			for i := range rows { // ordered by UID
				r := &rows[i]
				if err := m.sameSnapshotRow(r.InternalID, r.RemoteID, r.UID, r.Recent, r.Deleted, r.GetFlagSet(), b.entries[i]); err != nil {
					return fmt.Errorf(w+"GetMailboxMessageForNewSnapshot[%d]: %v", i, err)
				}
			}
		}

		c("MailboxFilterContains")

		{ // all members plus all non-members: exactly the members come back
			pairs := make([]db.MessageIDPair, 0, len(m.msgOrder))

			var want []string

			for _, id := range m.msgOrder {
				pairs = append(pairs, db.MessageIDPair{InternalID: id, RemoteID: m.msgs[id].remoteID})

				if _, ok := b.byMsg[id]; ok {
					want = append(want, id.String())
				}
			}

			if len(pairs) > 0 {
				ids, err := ro.MailboxFilterContains(ctx, bid, pairs)
				if err != nil {
					return fmt.Errorf(w+"MailboxFilterContains(all messages): %v", err)
				}

				var got []string
				for _, id := range ids {
					got = append(got, id.String())
				}

				if err := sameStrings(w+"MailboxFilterContains(all messages)", got, want, false); err != nil {
					return err
				}
			}
		}
	}

	// ---- messages, global views
	c("GetTotalMessageCount")

	if n, err := ro.GetTotalMessageCount(ctx); err != nil || n != len(m.msgs) {
		return fmt.Errorf("GetTotalMessageCount = %v, %v; model %d", n, err, len(m.msgs))
	}

	{
		c("GetAllMessagesIDsAsMap")

		all, err := ro.GetAllMessagesIDsAsMap(ctx)
		if err != nil {
			return fmt.Errorf("GetAllMessagesIDsAsMap: %v", err)
		}

		var got, want []string
		for id := range all {
			got = append(got, id.String())
		}

		for id := range m.msgs {
			want = append(want, id.String())
		}

		if err := sameStrings("GetAllMessagesIDsAsMap", got, want, false); err != nil {
			return err
		}
	}

	{
		c("GetMessageIDsMarkedAsDelete")

		all, err := ro.GetMessageIDsMarkedAsDelete(ctx)
		if err != nil {
			return fmt.Errorf("GetMessageIDsMarkedAsDelete: %v", err)
		}

		var got, want []string
		for _, id := range all {
			got = append(got, id.String())
		}

		for id, mm := range m.msgs {
			if mm.deleted {
				want = append(want, id.String())
			}
		}

		if err := sameStrings("GetMessageIDsMarkedAsDelete", got, want, false); err != nil {
			return err
		}
	}

	if len(m.msgOrder) > 0 {
		c("GetMessagesFlags")

		all, err := ro.GetMessagesFlags(ctx, m.msgOrder)
		if err != nil {
			return fmt.Errorf("GetMessagesFlags(all): %v", err)
		}

		var got, want []string
		for _, f := range all {
			got = append(got, fmt.Sprintf("%v|%q|%q", f.ID, f.RemoteID, fromIMAP(f.FlagSet).keys()))
		}

		for _, id := range m.msgOrder {
			mm := m.msgs[id]
			want = append(want, fmt.Sprintf("%v|%q|%q", id, mm.remoteID, mm.flags.keys()))
		}

		if err := sameStrings("GetMessagesFlags(all)", got, want, false); err != nil {
			return err
		}
	}

	// ---- each message (or a spread sample of them)
	step := 1
	if sampleMsgs > 0 && len(m.msgOrder) > sampleMsgs {
		step = len(m.msgOrder) / sampleMsgs
	}

	for i := 0; i < len(m.msgOrder); i += step {
		id := m.msgOrder[i]
		mm := m.msgs[id]
		w := fmt.Sprintf("message %v: ", id)

		c("MessageExists")

		if ok, err := ro.MessageExists(ctx, id); err != nil || !ok {
			return fmt.Errorf(w+"MessageExists = %v, %v", ok, err)
		}

		c("MessageExistsWithRemoteID")

		if ok, err := ro.MessageExistsWithRemoteID(ctx, mm.remoteID); err != nil || !ok {
			return fmt.Errorf(w+"MessageExistsWithRemoteID(%q) = %v, %v", mm.remoteID, ok, err)
		}

		c("GetMessageNoEdges")

		if g, err := ro.GetMessageNoEdges(ctx, id); err != nil {
			return fmt.Errorf(w+"GetMessageNoEdges: %v", err)
		} else if err := sameMessage(g, mm); err != nil {
			return fmt.Errorf(w+"GetMessageNoEdges: %v", err)
		}

		c("GetMessageRemoteID")

		if r, err := ro.GetMessageRemoteID(ctx, id); err != nil || r != mm.remoteID {
			return fmt.Errorf(w+"GetMessageRemoteID = %q, %v; model %q", r, err, mm.remoteID)
		}

		c("GetMessageIDFromRemoteID")

		if g, err := ro.GetMessageIDFromRemoteID(ctx, mm.remoteID); err != nil || g != id {
			return fmt.Errorf(w+"GetMessageIDFromRemoteID(%q) = %v, %v", mm.remoteID, g, err)
		}

		c("GetImportedMessageData")

		if g, err := ro.GetImportedMessageData(ctx, id); err != nil {
			return fmt.Errorf(w+"GetImportedMessageData: %v", err)
		} else if err := sameMessage(&g.Message, mm); err != nil {
			return fmt.Errorf(w+"GetImportedMessageData: %v", err)
		} else if err := sameFlags(g.Flags, mm.flags); err != nil {
			return fmt.Errorf(w+"GetImportedMessageData: %v", err)
		}

		c("GetMessageDateAndSize")

		if d, sz, err := ro.GetMessageDateAndSize(ctx, id); err != nil || !d.Equal(mm.date) || sz != mm.size {
			return fmt.Errorf(w+"GetMessageDateAndSize = %v, %v, %v; model %v, %v", d, sz, err, mm.date, mm.size)
		}

		c("GetMessageDeletedFlag")

		if d, err := ro.GetMessageDeletedFlag(ctx, id); err != nil || d != mm.deleted {
			return fmt.Errorf(w+"GetMessageDeletedFlag = %v, %v; model %v", d, err, mm.deleted)
		}

		c("GetMessageMailboxIDs")

		if ids, err := ro.GetMessageMailboxIDs(ctx, id); err != nil {
			return fmt.Errorf(w+"GetMessageMailboxIDs: %v", err)
		} else {
			var got, want []string
			for _, x := range ids {
				got = append(got, x.String())
			}

			for _, x := range m.mailboxesOf(id) {
				want = append(want, x.String())
			}

			if err := sameStrings(w+"GetMessageMailboxIDs", got, want, false); err != nil {
				return err
			}
		}
	}

	// ---- things that are gone stay gone
	for _, bid := range m.goneMbox {
		c("GetMailboxByID")

		if _, err := ro.GetMailboxByID(ctx, bid); !db.IsErrNotFound(err) {
			return fmt.Errorf("deleted mailbox %v: GetMailboxByID error = %v, want not-found", bid, err)
		}
	}

	for i, id := range m.goneMsg {
		if i >= 8 {
			break
		}

		c("MessageExists")

		if ok, err := ro.MessageExists(ctx, id); err != nil || ok {
			return fmt.Errorf("deleted message %v: MessageExists = %v, %v", id, ok, err)
		}
	}

	// ---- deleted subscriptions, connector settings
	{
		c("GetDeletedSubscriptionSet")

		set, err := ro.GetDeletedSubscriptionSet(ctx)
		if err != nil {
			return fmt.Errorf("GetDeletedSubscriptionSet: %v", err)
		}

		var got, want []string

		for k, v := range set {
			if v == nil || v.RemoteID != k {
				return fmt.Errorf("GetDeletedSubscriptionSet: entry %q -> %+v", k, v)
			}

			got = append(got, fmt.Sprintf("%q|%q", v.Name, v.RemoteID))
		}

		for n, r := range m.deletedSubs {
			want = append(want, fmt.Sprintf("%q|%q", n, r))
		}

		if err := sameStrings("GetDeletedSubscriptionSet", got, want, false); err != nil {
			return err
		}
	}

	c("GetConnectorSettings")

	if v, has, err := ro.GetConnectorSettings(ctx); err != nil || v != m.settings || has != m.hasSettings {
		return fmt.Errorf("GetConnectorSettings = %q, %v, %v; model %q, %v", v, has, err, m.settings, m.hasSettings)
	}

	return nil
}

func (s *sut) scanViaRead(sampleMsgs int) error {
	ctx := context.Background()

	_, err := safely(func() (none, error) {
		return none{}, s.client.Read(ctx, func(ctx context.Context, ro db.ReadOnly) error {
			return s.fullScan(ctx, ro, sampleMsgs)
		})
	})

	return err
}
