package c08

import (
	"encoding/binary"
	"fmt"
	"strings"
	"time"

	"github.com/ProtonMail/gluon/imap"
	"github.com/google/uuid"
	"pgregory.net/rapid"

	"verif/internal/ev"
	"verif/internal/kf"
)

// Argument generators. Everything is a rapid draw or a fixed expansion of a few draws (large lists: seed + xorshift),
// so a case is a pure function of its draws.

type genCtx struct {
	t    *rapid.T
	m    *model
	bulk int // >= 0: the list argument of the operation being generated has exactly this length; -1: small lists

	// hints used by the bulk cases to aim the operation at the prepared state (zero values: no hint)
	hintMbox imap.InternalMailboxID
	hintFlag string
}

// ---- deterministic expansion ----

type xorshift uint64

func (x *xorshift) next() uint64 {
	v := uint64(*x)
	if v == 0 {
		v = 0x9E3779B97F4A7C15
	}

	v ^= v << 13
	v ^= v >> 7
	v ^= v << 17
	*x = xorshift(v)

	return v
}

func (x *xorshift) intn(n int) int { return int(x.next() % uint64(n)) }

func shuffle[T any](x *xorshift, s []T) {
	for i := len(s) - 1; i > 0; i-- {
		j := x.intn(i + 1)
		s[i], s[j] = s[j], s[i]
	}
}

// msgIDFrom makes an internal message id from two numbers (namespace, counter): readable and unique.
func msgIDFrom(ns, n uint64) imap.InternalMessageID {
	var u uuid.UUID

	binary.BigEndian.PutUint64(u[0:8], ns)
	binary.BigEndian.PutUint64(u[8:16], n)

	return imap.InternalMessageID{UUID: u}
}

func (g *genCtx) freshMsgID() imap.InternalMessageID {
	g.m.fresh++
	return msgIDFrom(0xC08, g.m.fresh)
}

func (g *genCtx) freshMsgRID() imap.MessageID {
	g.m.fresh++
	return imap.MessageID(fmt.Sprintf("m%d", g.m.fresh))
}

// mix is the splitmix64 finalizer (mix(0) == 0).
func mix(z uint64) uint64 {
	z = (z ^ (z >> 30)) * 0xbf58476d1ce4e5b9
	z = (z ^ (z >> 27)) * 0x94d049bb133111eb

	return z ^ (z >> 31)
}

// intn draws a number in [0,n) uniformly. rapid's own integer generators favour small values (good for sizes, bad for
// choosing among 69 rules or for "in 5% of the cases"), so the choice is a hash of a drawn uint64. A draw that shrinks to
// 0 selects index 0.
func (g *genCtx) intn(label string, n int) int {
	return int(mix(rapid.Uint64().Draw(g.t, label)) % uint64(n))
}

// chance is true in about percent of 100 draws; a draw that shrinks to 0 gives false (the common path).
func (g *genCtx) chance(label string, percent int) bool {
	return 99-g.intn(label, 100) < percent
}

func pick[T any](g *genCtx, label string, s []T) T { return s[g.intn(label, len(s))] }

// ---- flags ----

// IMAP atom alphabet: printable ASCII without ( ) { SP % * " \ ]. The generator favours a few letters (collisions,
// case variants) and the characters with a meaning in SQL or in gluon's own encodings.
const atomSpecial = "',?;-`_$.:[}!#&+/<=>@^|~"

type flagKind int

const (
	msgFlag     flagKind = iota // stored per message (read back through GROUP_CONCAT)
	mboxFlag                    // flags / permanent flags / attributes given at mailbox creation
	allMboxFlag                 // Add(Perm)FlagsToAllMailboxes
)

var (
	sysFlags  = []string{`\Seen`, `\Answered`, `\Flagged`, `\Deleted`, `\Draft`, `\seen`, `\SEEN`, `\Custom`, `$Forwarded`, `Forwarded`, `$forwarded`}
	attrPool  = []string{`\Noselect`, `\Noinferiors`, `\Marked`, `\Unmarked`, `\Drafts`, `\Sent`, `\Trash`, `\All`, `\noselect`}
	wordFlags = []string{"a", "A", "b", "ab", "Ab", "kw", "KW", "x-y", "a.b", "1", "NonJunk", "a,b", "it's", "a'", "'b"}
)

func (g *genCtx) steer(kind flagKind, f string) string {
	if kind == msgFlag && strings.Contains(f, ",") && kf.Listed("F-C03c") {
		ev.Excluded(1)
		f = strings.ReplaceAll(f, ",", "c")
	}

	if kind == allMboxFlag && strings.Contains(f, "'") && kf.Listed("F-C08d") {
		ev.Excluded(1)
		f = strings.ReplaceAll(f, "'", "q")
	}

	return f
}

func (g *genCtx) atom() string {
	n := rapid.IntRange(1, 5).Draw(g.t, "atomlen")
	b := make([]byte, n)

	for i := range b {
		switch k := g.intn("ck", 10); {
		case k < 4:
			b[i] = "aAbB"[g.intn("c", 4)]
		case k < 6:
			b[i] = byte(rapid.IntRange('a', 'z').Draw(g.t, "c"))
		case k < 7:
			b[i] = byte(rapid.IntRange('0', '9').Draw(g.t, "c"))
		default:
			b[i] = atomSpecial[g.intn("c", len(atomSpecial))]
		}
	}

	return string(b)
}

func (g *genCtx) flag(kind flagKind) string {
	var f string

	switch k := g.intn("flagkind", 10); {
	case k < 3:
		f = pick(g, "sys", sysFlags)
	case k < 6:
		f = pick(g, "word", wordFlags)
	case k < 9:
		f = g.atom()
	default:
		f = `\` + g.atom()
	}

	return g.steer(kind, f)
}

// flagList returns between lo and hi flags, distinct case-insensitively (an imap.FlagSet cannot hold duplicates).
func (g *genCtx) flagList(kind flagKind, lo, hi int) []string {
	n := rapid.IntRange(lo, hi).Draw(g.t, "nflags")
	fs := newFlagset()

	for tries := 0; len(fs) < n && tries < 4*hi+4; tries++ {
		fs.add(g.flag(kind))
	}

	for len(fs) < lo { // collisions only; top up deterministically
		fs.add(fmt.Sprintf("fill%d", len(fs)))
	}

	return fs.spellings()
}

func (g *genCtx) attrList() []string {
	n := rapid.IntRange(0, 2).Draw(g.t, "nattrs")
	fs := newFlagset()

	for i := 0; i < n; i++ {
		if g.chance("attrpool", 80) {
			fs.add(pick(g, "attr", attrPool))
		} else {
			fs.add(g.flag(mboxFlag))
		}
	}

	return fs.spellings()
}

// existingMsgFlag prefers a flag some message carries, in a drawn spelling (same, lower, upper).
func (g *genCtx) flagForMessages(ids []imap.InternalMessageID) string {
	if g.hintFlag != "" {
		return g.hintFlag
	}

	var have []string

	for i, id := range ids {
		if i >= 8 {
			break
		}

		if mm, ok := g.m.msgs[id]; ok {
			have = append(have, mm.flags.spellings()...)
		}
	}

	if len(have) > 0 && g.chance("useheld", 60) {
		f := pick(g, "held", have)

		switch g.intn("spelling", 4) {
		case 0:
			return strings.ToUpper(f)
		case 1:
			return strings.ToLower(f)
		default:
			return f
		}
	}

	return g.flag(msgFlag)
}

// ---- mailboxes ----

var (
	namePool = []string{"INBOX", "inbox", "Inbox", "A", "a", "A/B", "A/B/C", "Ä", "x'y", "50%", "it's", "a b", "[Gmail]/All",
		"Drafts", `"q"`, "x;--", "mailbox_message_1", "?"}
	ridPool = []string{"L1", "L2", "L3", "L4", "L5", "L6", "l1", "", "L'1", "label with space", "?", "1"}
	delims  = []string{"/", ".", "", "|"}
)

func (g *genCtx) mboxName() string {
	// existing name (conflict / lookup) or pool or random
	if len(g.m.mboxOrder) > 0 && g.chance("existingname", 20) {
		return g.m.mboxes[pick(g, "mbox", g.m.mboxOrder)].name
	}

	if g.chance("poolname", 80) {
		return pick(g, "name", namePool)
	}

	return rapid.StringN(1, 6, 12).Draw(g.t, "rndname")
}

// knownName is used by lookups: an existing mailbox name, a deleted-subscription name or something else.
func (g *genCtx) lookupName() string {
	if len(g.m.deletedSubs) > 0 && g.chance("dsname", 25) {
		names := make([]string, 0, len(g.m.deletedSubs))
		for n := range g.m.deletedSubs {
			names = append(names, n)
		}

		sortStrings(names)

		return pick(g, "ds", names)
	}

	if len(g.m.mboxOrder) > 0 && g.chance("existingname", 70) {
		return g.m.mboxes[pick(g, "mbox", g.m.mboxOrder)].name
	}

	return pick(g, "name", namePool)
}

func (g *genCtx) mboxRID(existingPercent int) imap.MailboxID {
	if len(g.m.mboxOrder) > 0 && g.chance("existingrid", existingPercent) {
		return g.m.mboxes[pick(g, "mbox", g.m.mboxOrder)].remoteID
	}

	if len(g.m.goneMRID) > 0 && g.chance("gonerid", 25) {
		return pick(g, "gone", g.m.goneMRID)
	}

	return imap.MailboxID(pick(g, "rid", ridPool))
}

// mboxID returns an internal mailbox id: an existing one with the given probability, else one that does not exist.
func (g *genCtx) mboxID(existingPercent int) imap.InternalMailboxID {
	if g.hintMbox != 0 {
		return g.hintMbox
	}

	if len(g.m.mboxOrder) > 0 && g.chance("existingmbox", existingPercent) {
		return pick(g, "mbox", g.m.mboxOrder)
	}

	if len(g.m.goneMbox) > 0 && g.chance("gonembox", 50) {
		return pick(g, "gone", g.m.goneMbox)
	}

	for _, c := range []imap.InternalMailboxID{0, 9999, 1 << 40} {
		if g.chance("oddmbox", 40) {
			if _, ok := g.m.mboxes[c]; !ok {
				return c
			}
		}
	}

	// one past the highest id ever used
	var max imap.InternalMailboxID
	for id := range g.m.usedMbox {
		if id > max {
			max = id
		}
	}

	return max + 1
}

func (g *genCtx) uidValidity() imap.UID {
	switch g.intn("uidvk", 4) {
	case 0:
		return 1
	case 1:
		return 0xFFFFFFFF
	default:
		return imap.UID(rapid.Uint32().Draw(g.t, "uidv"))
	}
}

// newMbox draws the arguments of a mailbox creation: mostly a remote id and a name that are free (the valid call),
// sometimes taken ones (failing precondition).
func (g *genCtx) newMbox() newMbox {
	n := newMbox{
		remoteID:    g.mboxRID(0),
		name:        g.mboxName(),
		flags:       g.flagList(mboxFlag, 0, 3),
		perm:        g.flagList(mboxFlag, 0, 3),
		attrs:       g.attrList(),
		uidValidity: g.uidValidity(),
	}

	if !g.chance("conflictingmbox", 7) {
		for i := 0; g.m.mboxByRemote(n.remoteID) != nil; i++ {
			g.m.fresh++
			n.remoteID = imap.MailboxID(fmt.Sprintf("L-%d", g.m.fresh))
		}

		for g.m.mboxByName(n.name) != nil {
			g.m.fresh++
			n.name = fmt.Sprintf("%s-%d", n.name, g.m.fresh)
		}
	}

	return n
}

// ---- messages ----

var (
	textPool = []string{"", "x", `("text" "plain" ("charset" "utf-8") NIL NIL "7bit" 12 1)`, "héllo ✓ é", "it's; -- ?", "line1\r\nline2",
		strings.Repeat("0123456789", 300)}
	sizePool = []int{0, 1, 1234, 1<<31 - 1, 1 << 40}
	zones    = []*time.Location{time.UTC, time.FixedZone("", 2*3600), time.FixedZone("", -(7*3600 + 1800)), time.FixedZone("X", 14*3600)}
)

func (g *genCtx) date() time.Time {
	if g.chance("zerodate", 4) {
		return time.Time{}
	}

	sec := rapid.Int64Range(0, 4102444800).Draw(g.t, "sec") // 1970 .. 2100
	ns := pick(g, "ns", []int64{0, 0, 1, 123456789, 999999999})

	return time.Unix(sec, ns).In(pick(g, "zone", zones))
}

func (g *genCtx) msgID(existingPercent int) imap.InternalMessageID {
	if len(g.m.msgOrder) > 0 && g.chance("existingmsg", existingPercent) {
		return pick(g, "msg", g.m.msgOrder)
	}

	if len(g.m.goneMsg) > 0 && g.chance("gonemsg", 50) {
		return pick(g, "gone", g.m.goneMsg)
	}

	return g.freshMsgID()
}

func (g *genCtx) msgRID(existingPercent int) imap.MessageID {
	if len(g.m.msgOrder) > 0 && g.chance("existingmrid", existingPercent) {
		return g.m.msgs[pick(g, "msg", g.m.msgOrder)].remoteID
	}

	if len(g.m.goneRID) > 0 && g.chance("gonemrid", 40) {
		return pick(g, "gone", g.m.goneRID)
	}

	if g.chance("oddmrid", 5) {
		return imap.MessageID(pick(g, "odd", []string{"", "m'1", "M1", "?"}))
	}

	return g.freshMsgRID()
}

// newMsg draws a creation request. conflictPercent: chance that the internal or the remote id is already taken.
func (g *genCtx) newMsg(conflictPercent int) newMsg {
	r := newMsg{
		id:        g.freshMsgID(),
		remoteID:  g.msgRID(0),
		flags:     g.flagList(msgFlag, 0, 3),
		date:      g.date(),
		size:      pick(g, "size", sizePool),
		body:      pick(g, "body", textPool),
		structure: pick(g, "bs", textPool),
		envelope:  pick(g, "env", textPool),
	}

	if len(g.m.msgOrder) > 0 && g.chance("conflict", conflictPercent) {
		o := g.m.msgs[pick(g, "msg", g.m.msgOrder)]
		if g.chance("conflictid", 50) {
			r.id = o.id
		} else {
			r.remoteID = o.remoteID
		}
	}

	return r
}

// plainMsg is the cheap deterministic request used to fill the bulk cases (index i of a batch).
func (g *genCtx) plainMsg(i int, flags []string) newMsg {
	id := g.freshMsgID()

	return newMsg{
		id: id, remoteID: imap.MessageID(fmt.Sprintf("b%d", g.m.fresh)), flags: flags,
		date: time.Unix(1600000000+int64(i), 0).UTC(), size: i, body: "b", structure: "s", envelope: "e",
	}
}

// ---- lists of message ids ----

type idList struct {
	ids  []imap.InternalMessageID
	desc string
	dup  bool // some id occurs twice
}

var smallLens = []int{0, 1, 1, 1, 1, 2, 2, 2, 3, 3, 5, 8}

// msgIDList builds the list argument of a message-list method.
//
//	prefer        ids the operation is "about" (members of the mailbox, messages carrying the flag, …)
//	unknownPct    chance per element (small) / chance per list (bulk) of ids that exist nowhere
//	allowDup      whether an id may occur twice
func (g *genCtx) msgIDList(prefer []imap.InternalMessageID, unknownPct int, allowDup bool) idList {
	if g.bulk >= 0 {
		return g.bulkIDList(prefer, unknownPct, false)
	}

	n := pick(g, "len", smallLens)
	out := idList{}
	seen := map[imap.InternalMessageID]struct{}{}

	for i := 0; i < n; i++ {
		var id imap.InternalMessageID

		// (a draw that shrinks to 0 gives k = 0; the rare branch sits at the high end)
		switch k := g.intn("elem", 100); {
		case k >= 100-unknownPct:
			id = g.msgID(0)
		case k < 82 && len(prefer) > 0:
			id = pick(g, "pref", prefer)
		default:
			if len(g.m.msgOrder) == 0 {
				continue // nothing exists yet; unknown ids only come in through the unknownPct branch
			}

			id = g.msgID(100)
		}

		if _, ok := seen[id]; ok {
			if !allowDup || !g.chance("keepdup", 30) {
				continue
			}

			out.dup = true
		}

		seen[id] = struct{}{}
		out.ids = append(out.ids, id)
	}

	out.desc = fmt.Sprintf("%d ids %v", len(out.ids), shortIDs(out.ids))

	return out
}

// onlyPrefer: existing ids are taken from prefer only (the rest of the list is filled with ids that exist nowhere).
func (g *genCtx) bulkIDList(prefer []imap.InternalMessageID, unknownPct int, onlyPrefer bool) idList {
	n := g.bulk
	seed := rapid.Uint64().Draw(g.t, "listseed")
	x := xorshift(seed)
	mix := g.chance("mixothers", 35)

	inPrefer := make(map[imap.InternalMessageID]struct{}, len(prefer))
	pool := append([]imap.InternalMessageID(nil), prefer...)

	for _, id := range prefer {
		inPrefer[id] = struct{}{}
	}

	var others []imap.InternalMessageID

	for _, id := range g.m.msgOrder {
		if _, ok := inPrefer[id]; !ok && !onlyPrefer {
			others = append(others, id)
		}
	}

	if g.chance("shuffled", 70) {
		shuffle(&x, pool)
		shuffle(&x, others)
	}

	if mix {
		pool = append(pool, others...)
		shuffle(&x, pool)
	} else {
		pool = append(pool, others...)
	}

	if len(pool) > n {
		pool = pool[:n]
	}

	nUnknown := 0

	for len(pool) < n { // not enough messages exist: fill with ids that exist nowhere
		pool = append(pool, g.freshMsgID())
		nUnknown++
	}

	var at []int

	if n > 0 && g.chance("unknowns", unknownPct) {
		cands := []int{0, n - 1, 999 % n, 1000 % n, 499 % n, 500 % n, x.intn(n), x.intn(n)}
		k := rapid.IntRange(1, 3).Draw(g.t, "nunknown")

		for i := 0; i < k; i++ {
			p := cands[g.intn("unknownat", len(cands))]
			pool[p] = g.freshMsgID()
			at = append(at, p)
		}
	}

	return idList{ids: pool, desc: fmt.Sprintf("%d ids (seed=%#x mix=%v filled-unknown=%d unknown-at=%v)", n, seed, mix, nUnknown, at)}
}

func shortIDs(ids []imap.InternalMessageID) []string {
	out := make([]string, len(ids))
	for i, id := range ids {
		out[i] = shortID(id)
	}

	return out
}

// shortID prints the two numbers an id was made from (ns:counter), or the uuid for foreign ids.
func shortID(id imap.InternalMessageID) string {
	return fmt.Sprintf("%x:%d", binary.BigEndian.Uint64(id.UUID[0:8]), binary.BigEndian.Uint64(id.UUID[8:16]))
}

func (g *genCtx) pairsOf(ids []imap.InternalMessageID) []idPair {
	out := make([]idPair, len(ids))

	for i, id := range ids {
		if mm, ok := g.m.msgs[id]; ok {
			out[i] = idPair{id, mm.remoteID}
		} else {
			out[i] = idPair{id, imap.MessageID("unknown-" + shortID(id))}
		}
	}

	return out
}

// members / nonMembers of a mailbox in a deterministic order.
func (g *genCtx) members(bid imap.InternalMailboxID) []imap.InternalMessageID {
	b := g.m.mboxes[bid]
	if b == nil {
		return nil
	}

	out := make([]imap.InternalMessageID, len(b.entries))
	for i, e := range b.entries {
		out[i] = e.id
	}

	return out
}

func (g *genCtx) nonMembers(bid imap.InternalMailboxID) []imap.InternalMessageID {
	b := g.m.mboxes[bid]

	var out []imap.InternalMessageID

	for _, id := range g.m.msgOrder {
		if b != nil {
			if _, ok := b.byMsg[id]; ok {
				continue
			}
		}

		out = append(out, id)
	}

	return out
}
