package c08

import (
	"context"
	"errors"
	"fmt"
	"strings"
	"time"

	"github.com/ProtonMail/gluon/db"
	"github.com/ProtonMail/gluon/imap"
	"pgregory.net/rapid"

	"verif/internal/ev"
	"verif/internal/kf"
)

// One rule per method of db.ReadOnly and db.Transaction. A rule draws its arguments from the current model (ids that
// exist and ids that do not) and returns an op; running the op calls the model and the real implementation and judges.

type op struct {
	name  string // method name
	desc  string // printable call
	write bool
	big   bool // carries a list argument > 1000
	// run returns a violation (nil if none) and whether the transaction must end (a write failed legitimately).
	run func(ctx context.Context, s *sut, ro db.ReadOnly, tx db.Transaction) (error, bool)
}

type rule struct {
	name  string
	write bool
	list  bool // takes a list argument (gets a TestBulk_<name>)
	gen   func(g *genCtx) *op
}

func rd[T any](name, desc string, call func(context.Context, db.ReadOnly) (T, error), want func(m *model) (expect, func(T) error)) *op {
	return &op{name: name, desc: desc, run: func(ctx context.Context, s *sut, ro db.ReadOnly, _ db.Transaction) (error, bool) {
		exp, check := want(s.m)
		countCall("method", name)

		got, err := safely(func() (T, error) { return call(ctx, ro) })

		if v, proceed := judge(desc, exp, err); v != nil {
			return v, false
		} else if !proceed {
			return nil, false // reads never end the transaction
		}

		if err := check(got); err != nil {
			return fmt.Errorf("%s: %w", desc, err), false
		}

		return nil, false
	}}
}

// wr builds a write op. model applies the operation to the model and says what is expected; check (optional) compares
// the returned value after a successful call.
func wr[T any](name, desc string, big bool, call func(context.Context, db.Transaction) (T, error), mod func(m *model) (expect, func(T) error)) *op {
	return &op{name: name, desc: desc, write: true, big: big, run: func(ctx context.Context, s *sut, _ db.ReadOnly, tx db.Transaction) (error, bool) {
		exp, check := mod(s.m)
		countCall("method", name)

		got, err := safely(func() (T, error) { return call(ctx, tx) })

		if v, proceed := judge(desc, exp, err); v != nil {
			return v, true
		} else if !proceed {
			return nil, true // the write failed (legitimately): the transaction ends, as every caller in gluon does
		}

		if check != nil {
			if err := check(got); err != nil {
				return fmt.Errorf("%s: %w", desc, err), true
			}
		}

		return nil, false
	}}
}

type none = struct{}

func noRes(f func(context.Context, db.Transaction) error) func(context.Context, db.Transaction) (none, error) {
	return func(ctx context.Context, tx db.Transaction) (none, error) { return none{}, f(ctx, tx) }
}

func eq[T comparable](want T) func(T) error {
	return func(got T) error {
		if got != want {
			return fmt.Errorf("returned %v, model %v", got, want)
		}

		return nil
	}
}

func strs[T fmt.Stringer](s []T) []string {
	out := make([]string, len(s))
	for i, x := range s {
		out[i] = x.String()
	}

	return out
}

func imapFlags(f []string) imap.FlagSet { return imap.NewFlagSet(f...) }

func toReq(n newMsg) *db.CreateMessageReq {
	return &db.CreateMessageReq{
		Message:     imap.Message{ID: n.remoteID, Flags: imapFlags(n.flags), Date: n.date},
		InternalID:  n.id,
		LiteralSize: n.size,
		Body:        n.body,
		Structure:   n.structure,
		Envelope:    n.envelope,
	}
}

func toPairs(ps []idPair) []db.MessageIDPair {
	out := make([]db.MessageIDPair, len(ps))
	for i, p := range ps {
		out[i] = db.MessageIDPair{InternalID: p.id, RemoteID: p.rid}
	}

	return out
}

// ---------------------------------------------------------------------------------------------------------------------
// op constructors that the bulk cases also use directly

func opCreateMailbox(n newMbox) *op {
	desc := fmt.Sprintf("CreateMailbox(rid=%q, name=%q, flags=%q, perm=%q, attrs=%q, uidv=%d)", n.remoteID, n.name, n.flags, n.perm, n.attrs, n.uidValidity)

	return wr("CreateMailbox", desc, false, func(ctx context.Context, tx db.Transaction) (*db.Mailbox, error) {
		return tx.CreateMailbox(ctx, n.remoteID, n.name, imapFlags(n.flags), imapFlags(n.perm), imapFlags(n.attrs), n.uidValidity)
	}, func(m *model) (expect, func(*db.Mailbox) error) {
		return m.canCreateMailbox(n), func(got *db.Mailbox) error { return checkCreated(m, got, n) }
	})
}

// checkCreated validates the mailbox a creating call returned and registers it in the model under the id chosen by the db.
func checkCreated(m *model, got *db.Mailbox, n newMbox) error {
	if got == nil {
		return fmt.Errorf("returned nil mailbox")
	}

	if _, used := m.usedMbox[got.ID]; used {
		return fmt.Errorf("new mailbox got internal id %v, which was already used", got.ID)
	}

	if got.ID == 0 {
		return fmt.Errorf("new mailbox got internal id 0")
	}

	b := m.applyCreateMailbox(got.ID, n)

	return sameMailbox(got, b)
}

func opGetOrCreate(name string, n newMbox, call func(context.Context, db.Transaction) (*db.Mailbox, error), desc string) *op {
	return wr(name, desc, false, call, func(m *model) (expect, func(*db.Mailbox) error) {
		if b := m.mboxByRemote(n.remoteID); b != nil {
			return expOK, func(got *db.Mailbox) error { return sameMailbox(got, b) }
		}

		return m.canCreateMailbox(n), func(got *db.Mailbox) error { return checkCreated(m, got, n) }
	})
}

func opCreateMessages(reqs []newMsg, note string) *op {
	desc := fmt.Sprintf("CreateMessages(%d reqs%s)", len(reqs), note)
	if len(reqs) <= 4 {
		var parts []string
		for _, r := range reqs {
			parts = append(parts, descMsg(r))
		}

		desc = "CreateMessages(" + strings.Join(parts, "; ") + ")"
	}

	return wr("CreateMessages", desc, len(reqs) > 1000, noRes(func(ctx context.Context, tx db.Transaction) error {
		rs := make([]*db.CreateMessageReq, len(reqs))
		for i, r := range reqs {
			rs[i] = toReq(r)
		}

		return tx.CreateMessages(ctx, rs...)
	}), func(m *model) (expect, func(none) error) { return m.createMessages(reqs), nil })
}

func descMsg(r newMsg) string {
	return fmt.Sprintf("{id=%s rid=%q flags=%q date=%s size=%d body=%.12q bs=%.12q env=%.12q}", shortID(r.id), r.remoteID, r.flags,
		r.date.Format(time.RFC3339Nano), r.size, r.body, r.structure, r.envelope)
}

func opAddMessages(bid imap.InternalMailboxID, pairs []idPair, listDesc string, lenient bool) *op {
	desc := fmt.Sprintf("AddMessagesToMailbox(mbox=%v, %s)", bid, listDesc)

	return wr("AddMessagesToMailbox", desc, len(pairs) > 1000, func(ctx context.Context, tx db.Transaction) ([]db.UIDWithFlags, error) {
		return tx.AddMessagesToMailbox(ctx, bid, toPairs(pairs))
	}, func(m *model) (expect, func([]db.UIDWithFlags) error) {
		exp, entries := m.addMessages(bid, pairs)
		if exp == expErr && lenient {
			exp = expLenient // (never reached without error: the model has not changed)
		}

		return exp, func(got []db.UIDWithFlags) error {
			if exp != expOK {
				return fmt.Errorf("call succeeded although the model rejects it")
			}

			if len(got) != len(entries) {
				return fmt.Errorf("returned %d rows, model %d", len(got), len(entries))
			}

			// state.AddMessagesToMailbox turns the rows into EXISTS responders in the order returned; the query
			// orders by UID and the model's entries are in UID order.
			for i := range got {
				r := &got[i]
				if err := m.sameSnapshotRow(r.InternalID, r.RemoteID, r.UID, r.Recent, r.Deleted, r.GetFlagSet(), entries[i]); err != nil {
					return fmt.Errorf("result[%d]: %w", i, err)
				}
			}

			return nil
		}
	})
}

// ---------------------------------------------------------------------------------------------------------------------
// the rules

func allRules() []rule {
	R := []rule{}
	add := func(name string, write, list bool, gen func(g *genCtx) *op) {
		R = append(R, rule{name: name, write: write, list: list, gen: gen})
	}

	// ================================================================ MailboxReadOps

	add("MailboxExistsWithID", false, false, func(g *genCtx) *op {
		id := g.mboxID(60)

		o := rd("MailboxExistsWithID", fmt.Sprintf("MailboxExistsWithID(%v)", id),
			func(ctx context.Context, ro db.ReadOnly) (bool, error) { return ro.MailboxExistsWithID(ctx, id) },
			func(m *model) (expect, func(bool) error) { _, ok := m.mboxes[id]; return expOK, eq(ok) })

		return tolerateKnown(o, "F-C08a", knownC08a)
	})

	add("MailboxExistsWithRemoteID", false, false, func(g *genCtx) *op {
		rid := g.mboxRID(60)

		return rd("MailboxExistsWithRemoteID", fmt.Sprintf("MailboxExistsWithRemoteID(%q)", rid),
			func(ctx context.Context, ro db.ReadOnly) (bool, error) { return ro.MailboxExistsWithRemoteID(ctx, rid) },
			func(m *model) (expect, func(bool) error) { return expOK, eq(m.mboxByRemote(rid) != nil) })
	})

	add("MailboxExistsWithName", false, false, func(g *genCtx) *op {
		name := g.lookupName()

		return rd("MailboxExistsWithName", fmt.Sprintf("MailboxExistsWithName(%q)", name),
			func(ctx context.Context, ro db.ReadOnly) (bool, error) { return ro.MailboxExistsWithName(ctx, name) },
			func(m *model) (expect, func(bool) error) { return expOK, eq(m.mboxByName(name) != nil) })
	})

	add("GetMailboxIDFromRemoteID", false, false, func(g *genCtx) *op {
		rid := g.mboxRID(70)

		return rd("GetMailboxIDFromRemoteID", fmt.Sprintf("GetMailboxIDFromRemoteID(%q)", rid),
			func(ctx context.Context, ro db.ReadOnly) (imap.InternalMailboxID, error) {
				return ro.GetMailboxIDFromRemoteID(ctx, rid)
			},
			func(m *model) (expect, func(imap.InternalMailboxID) error) {
				if b := m.mboxByRemote(rid); b != nil {
					return expOK, eq(b.id)
				}

				return expErr, nil
			})
	})

	add("GetMailboxName", false, false, func(g *genCtx) *op {
		id := g.mboxID(70)

		return rd("GetMailboxName", fmt.Sprintf("GetMailboxName(%v)", id),
			func(ctx context.Context, ro db.ReadOnly) (string, error) { return ro.GetMailboxName(ctx, id) },
			func(m *model) (expect, func(string) error) {
				if b := m.mboxes[id]; b != nil {
					return expOK, eq(b.name)
				}

				return expErr, nil
			})
	})

	add("GetMailboxNameWithRemoteID", false, false, func(g *genCtx) *op {
		rid := g.mboxRID(70)

		return rd("GetMailboxNameWithRemoteID", fmt.Sprintf("GetMailboxNameWithRemoteID(%q)", rid),
			func(ctx context.Context, ro db.ReadOnly) (string, error) {
				return ro.GetMailboxNameWithRemoteID(ctx, rid)
			},
			func(m *model) (expect, func(string) error) {
				if b := m.mboxByRemote(rid); b != nil {
					return expOK, eq(b.name)
				}

				return expErr, nil
			})
	})

	add("GetMailboxMessageIDPairs", false, false, func(g *genCtx) *op {
		id := g.mboxID(85)

		return rd("GetMailboxMessageIDPairs", fmt.Sprintf("GetMailboxMessageIDPairs(%v)", id),
			func(ctx context.Context, ro db.ReadOnly) ([]db.MessageIDPair, error) {
				return ro.GetMailboxMessageIDPairs(ctx, id)
			},
			func(m *model) (expect, func([]db.MessageIDPair) error) {
				b := m.mboxes[id]
				exp := expOK

				var want []string

				if b == nil {
					exp = expLenient
				} else {
					for _, e := range b.entries {
						want = append(want, fmt.Sprintf("%v|%q", e.id, m.msgs[e.id].remoteID))
					}
				}

				return exp, func(got []db.MessageIDPair) error {
					var g []string
					for _, p := range got {
						g = append(g, fmt.Sprintf("%v|%q", p.InternalID, p.RemoteID))
					}

					return sameStrings("pairs", g, want, false)
				}
			})
	})

	add("GetAllMailboxesWithAttr", false, false, func(g *genCtx) *op {
		return rd("GetAllMailboxesWithAttr", "GetAllMailboxesWithAttr()",
			func(ctx context.Context, ro db.ReadOnly) ([]*db.MailboxWithAttr, error) {
				return ro.GetAllMailboxesWithAttr(ctx)
			},
			func(m *model) (expect, func([]*db.MailboxWithAttr) error) {
				return expOK, func(got []*db.MailboxWithAttr) error {
					var g, w []string

					for _, b := range got {
						g = append(g, fmt.Sprintf("%v|%q|%q|%v|%v|%q", b.ID, b.RemoteID, b.Name, b.UIDValidity, b.Subscribed, fromIMAP(b.Attributes).keys()))
					}

					for _, b := range m.mboxes {
						w = append(w, fmt.Sprintf("%v|%q|%q|%v|%v|%q", b.id, b.remoteID, b.name, b.uidValidity, b.subscribed, b.attrs.keys()))
					}

					return sameStrings("mailboxes", g, w, false)
				}
			})
	})

	add("GetAllMailboxesAsRemoteIDs", false, false, func(g *genCtx) *op {
		return rd("GetAllMailboxesAsRemoteIDs", "GetAllMailboxesAsRemoteIDs()",
			func(ctx context.Context, ro db.ReadOnly) ([]imap.MailboxID, error) {
				return ro.GetAllMailboxesAsRemoteIDs(ctx)
			},
			func(m *model) (expect, func([]imap.MailboxID) error) {
				return expOK, func(got []imap.MailboxID) error {
					var g, w []string
					for _, r := range got {
						g = append(g, string(r))
					}

					for _, b := range m.mboxes {
						w = append(w, string(b.remoteID))
					}

					return sameStrings("remote ids", g, w, false)
				}
			})
	})

	getMbox := func(name string, mk func(g *genCtx) (string, func(context.Context, db.ReadOnly) (*db.Mailbox, error), func(m *model) *mMbox)) {
		add(name, false, false, func(g *genCtx) *op {
			desc, call, find := mk(g)

			return rd(name, desc, call, func(m *model) (expect, func(*db.Mailbox) error) {
				if b := find(m); b != nil {
					return expOK, func(got *db.Mailbox) error { return sameMailbox(got, b) }
				}

				return expNotFound, nil // state.go / connector_updates.go / GetOrCreateMailbox test errors.Is(err, db.ErrNotFound)
			})
		})
	}

	getMbox("GetMailboxByName", func(g *genCtx) (string, func(context.Context, db.ReadOnly) (*db.Mailbox, error), func(m *model) *mMbox) {
		name := g.lookupName()

		return fmt.Sprintf("GetMailboxByName(%q)", name),
			func(ctx context.Context, ro db.ReadOnly) (*db.Mailbox, error) { return ro.GetMailboxByName(ctx, name) },
			func(m *model) *mMbox { return m.mboxByName(name) }
	})

	getMbox("GetMailboxByID", func(g *genCtx) (string, func(context.Context, db.ReadOnly) (*db.Mailbox, error), func(m *model) *mMbox) {
		id := g.mboxID(70)

		return fmt.Sprintf("GetMailboxByID(%v)", id),
			func(ctx context.Context, ro db.ReadOnly) (*db.Mailbox, error) { return ro.GetMailboxByID(ctx, id) },
			func(m *model) *mMbox { return m.mboxes[id] }
	})

	getMbox("GetMailboxByRemoteID", func(g *genCtx) (string, func(context.Context, db.ReadOnly) (*db.Mailbox, error), func(m *model) *mMbox) {
		rid := g.mboxRID(70)

		return fmt.Sprintf("GetMailboxByRemoteID(%q)", rid),
			func(ctx context.Context, ro db.ReadOnly) (*db.Mailbox, error) {
				return ro.GetMailboxByRemoteID(ctx, rid)
			},
			func(m *model) *mMbox { return m.mboxByRemote(rid) }
	})

	// counts per mailbox; a mailbox id that does not exist: error accepted, else the empty answer
	mboxInt := func(name string, call func(context.Context, db.ReadOnly, imap.InternalMailboxID) (int, error), want func(m *model, b *mMbox) int) {
		add(name, false, false, func(g *genCtx) *op {
			id := g.mboxID(85)

			return rd(name, fmt.Sprintf("%s(%v)", name, id),
				func(ctx context.Context, ro db.ReadOnly) (int, error) { return call(ctx, ro, id) },
				func(m *model) (expect, func(int) error) {
					if b := m.mboxes[id]; b != nil {
						return expOK, eq(want(m, b))
					}

					return expLenient, eq(0)
				})
		})
	}

	mboxInt("GetMailboxRecentCount", func(ctx context.Context, ro db.ReadOnly, id imap.InternalMailboxID) (int, error) {
		return ro.GetMailboxRecentCount(ctx, id)
	}, func(m *model, b *mMbox) int { return m.recentCount(b) })

	mboxInt("GetMailboxMessageCount", func(ctx context.Context, ro db.ReadOnly, id imap.InternalMailboxID) (int, error) {
		return ro.GetMailboxMessageCount(ctx, id)
	}, func(m *model, b *mMbox) int { return len(b.entries) })

	add("GetMailboxMessageCountWithRemoteID", false, false, func(g *genCtx) *op {
		rid := g.mboxRID(80)

		return rd("GetMailboxMessageCountWithRemoteID", fmt.Sprintf("GetMailboxMessageCountWithRemoteID(%q)", rid),
			func(ctx context.Context, ro db.ReadOnly) (int, error) {
				return ro.GetMailboxMessageCountWithRemoteID(ctx, rid)
			},
			func(m *model) (expect, func(int) error) {
				if b := m.mboxByRemote(rid); b != nil {
					return expOK, eq(len(b.entries))
				}

				return expLenient, eq(0)
			})
	})

	mboxFlags := func(name string, call func(context.Context, db.ReadOnly, imap.InternalMailboxID) (imap.FlagSet, error), want func(b *mMbox) flagset) {
		add(name, false, false, func(g *genCtx) *op {
			id := g.mboxID(85)

			return rd(name, fmt.Sprintf("%s(%v)", name, id),
				func(ctx context.Context, ro db.ReadOnly) (imap.FlagSet, error) { return call(ctx, ro, id) },
				func(m *model) (expect, func(imap.FlagSet) error) {
					if b := m.mboxes[id]; b != nil {
						return expOK, func(got imap.FlagSet) error { return sameFlags(got, want(b)) }
					}

					return expLenient, func(got imap.FlagSet) error { return sameFlags(got, flagset{}) }
				})
		})
	}

	mboxFlags("GetMailboxFlags", func(ctx context.Context, ro db.ReadOnly, id imap.InternalMailboxID) (imap.FlagSet, error) {
		return ro.GetMailboxFlags(ctx, id)
	}, func(b *mMbox) flagset { return b.flags })
	mboxFlags("GetMailboxPermanentFlags", func(ctx context.Context, ro db.ReadOnly, id imap.InternalMailboxID) (imap.FlagSet, error) {
		return ro.GetMailboxPermanentFlags(ctx, id)
	}, func(b *mMbox) flagset { return b.permFlags })
	mboxFlags("GetMailboxAttributes", func(ctx context.Context, ro db.ReadOnly, id imap.InternalMailboxID) (imap.FlagSet, error) {
		return ro.GetMailboxAttributes(ctx, id)
	}, func(b *mMbox) flagset { return b.attrs })

	add("GetMailboxUID", false, false, func(g *genCtx) *op {
		id := g.mboxID(85)

		return rd("GetMailboxUID", fmt.Sprintf("GetMailboxUID(%v)", id),
			func(ctx context.Context, ro db.ReadOnly) (imap.UID, error) { return ro.GetMailboxUID(ctx, id) },
			func(m *model) (expect, func(imap.UID) error) {
				if b := m.mboxes[id]; b != nil {
					return expOK, eq(imap.UID(b.lastUID + 1))
				}

				return expLenient, eq(imap.UID(1))
			})
	})

	type cntUID struct {
		n   int
		uid imap.UID
	}

	add("GetMailboxMessageCountAndUID", false, false, func(g *genCtx) *op {
		id := g.mboxID(85)

		return rd("GetMailboxMessageCountAndUID", fmt.Sprintf("GetMailboxMessageCountAndUID(%v)", id),
			func(ctx context.Context, ro db.ReadOnly) (cntUID, error) {
				n, u, err := ro.GetMailboxMessageCountAndUID(ctx, id)
				return cntUID{n, u}, err
			},
			func(m *model) (expect, func(cntUID) error) {
				if b := m.mboxes[id]; b != nil {
					return expOK, eq(cntUID{len(b.entries), imap.UID(b.lastUID + 1)})
				}

				return expLenient, eq(cntUID{0, 1})
			})
	})

	add("GetMailboxMessageForNewSnapshot", false, false, func(g *genCtx) *op {
		id := g.mboxID(90)

		return rd("GetMailboxMessageForNewSnapshot", fmt.Sprintf("GetMailboxMessageForNewSnapshot(%v)", id),
			func(ctx context.Context, ro db.ReadOnly) ([]db.SnapshotMessageResult, error) {
				return ro.GetMailboxMessageForNewSnapshot(ctx, id)
			},
			func(m *model) (expect, func([]db.SnapshotMessageResult) error) {
				b := m.mboxes[id]
				exp := expOK

				var entries []*mEntry

				if b == nil {
					exp = expLenient
				} else {
					entries = b.entries
				}

				return exp, func(got []db.SnapshotMessageResult) error {
					if len(got) != len(entries) {
						return fmt.Errorf("%d rows, model %d", len(got), len(entries))
					}

					for i := range got { // documented order: by UID
						r := &got[i]
						if err := m.sameSnapshotRow(r.InternalID, r.RemoteID, r.UID, r.Recent, r.Deleted, r.GetFlagSet(), entries[i]); err != nil {
							return fmt.Errorf("row[%d]: %w", i, err)
						}
					}

					return nil
				}
			})
	})

	add("MailboxTranslateRemoteIDs", false, true, func(g *genCtx) *op {
		var rids []imap.MailboxID

		dup := false
		desc := ""

		if g.bulk >= 0 {
			n := g.bulk
			seed := rapid.Uint64().Draw(g.t, "listseed")
			x := xorshift(seed)

			rids = make([]imap.MailboxID, n)
			for i := range rids {
				rids[i] = imap.MailboxID(fmt.Sprintf("unknown-%d", i))
			}

			var at []int

			for _, bid := range g.m.mboxOrder {
				if n > 0 && g.chance("place", 80) {
					cands := []int{0, n - 1, 999 % n, 1000 % n, x.intn(n)}
					p := cands[g.intn("at", len(cands))]
					rids[p] = g.m.mboxes[bid].remoteID // (a later mailbox may overwrite an earlier one: fine)
					at = append(at, p)
				}
			}

			desc = fmt.Sprintf("%d rids (seed=%#x existing-at=%v)", n, seed, at)
		} else {
			n := pick(g, "len", smallLens)
			seen := map[imap.MailboxID]bool{}

			for i := 0; i < n; i++ {
				r := g.mboxRID(70)
				if seen[r] {
					dup = true
				}

				seen[r] = true
				rids = append(rids, r)
			}

			desc = fmt.Sprintf("%q", rids)
		}

		o := rd("MailboxTranslateRemoteIDs", "MailboxTranslateRemoteIDs("+desc+")",
			func(ctx context.Context, ro db.ReadOnly) ([]imap.InternalMailboxID, error) {
				return ro.MailboxTranslateRemoteIDs(ctx, rids)
			},
			func(m *model) (expect, func([]imap.InternalMailboxID) error) {
				// unknown remote ids are skipped (applyMessageMailboxesUpdated relies on that)
				var want []string

				seen := map[imap.MailboxID]bool{}
				for _, r := range rids {
					if b := m.mboxByRemote(r); b != nil && !seen[r] {
						want = append(want, b.id.String())
					}

					seen[r] = true
				}

				return expOK, func(got []imap.InternalMailboxID) error { return sameStrings("internal ids", strs(got), want, dup) }
			})
		o.big = len(rids) > 1000

		return o
	})

	add("MailboxFilterContains", false, true, func(g *genCtx) *op {
		id := g.mboxID(85)
		l := g.msgIDList(g.members(id), 15, true)
		pairs := g.pairsOf(l.ids)
		desc := fmt.Sprintf("MailboxFilterContains(mbox=%v, %s)", id, l.desc)

		o := rd("MailboxFilterContains", desc,
			func(ctx context.Context, ro db.ReadOnly) ([]imap.InternalMessageID, error) {
				return ro.MailboxFilterContains(ctx, id, toPairs(pairs))
			},
			func(m *model) (expect, func([]imap.InternalMessageID) error) {
				b := m.mboxes[id]
				exp := expOK

				var want []string

				if b == nil {
					if len(pairs) > 0 {
						exp = expLenient
					}
				} else {
					seen := map[imap.InternalMessageID]bool{}
					for _, p := range pairs {
						if _, ok := b.byMsg[p.id]; ok && !seen[p.id] {
							want = append(want, p.id.String())
						}

						seen[p.id] = true
					}
				}

				return exp, func(got []imap.InternalMessageID) error { return sameStrings("members", strs(got), want, l.dup) }
			})
		o.big = len(pairs) > 1000

		return o
	})

	add("GetMailboxCount", false, false, func(g *genCtx) *op {
		return rd("GetMailboxCount", "GetMailboxCount()",
			func(ctx context.Context, ro db.ReadOnly) (int, error) { return ro.GetMailboxCount(ctx) },
			func(m *model) (expect, func(int) error) { return expOK, eq(len(m.mboxes)) })
	})

	add("GetAllMailboxesNameAndRemoteID", false, false, func(g *genCtx) *op {
		return rd("GetAllMailboxesNameAndRemoteID", "GetAllMailboxesNameAndRemoteID()",
			func(ctx context.Context, ro db.ReadOnly) ([]db.MailboxNameAndRemoteID, error) {
				return ro.GetAllMailboxesNameAndRemoteID(ctx)
			},
			func(m *model) (expect, func([]db.MailboxNameAndRemoteID) error) {
				return expOK, func(got []db.MailboxNameAndRemoteID) error {
					var g, w []string
					for _, r := range got {
						g = append(g, fmt.Sprintf("%q|%q", r.Name, r.RemoteID))
					}

					for _, b := range m.mboxes {
						w = append(w, fmt.Sprintf("%q|%q", b.name, b.remoteID))
					}

					return sameStrings("name/remote id", g, w, false)
				}
			})
	})

	// ================================================================ MessageReadOps

	add("MessageExists", false, false, func(g *genCtx) *op {
		id := g.msgID(60)

		return rd("MessageExists", fmt.Sprintf("MessageExists(%s)", shortID(id)),
			func(ctx context.Context, ro db.ReadOnly) (bool, error) { return ro.MessageExists(ctx, id) },
			func(m *model) (expect, func(bool) error) { _, ok := m.msgs[id]; return expOK, eq(ok) })
	})

	add("MessageExistsWithRemoteID", false, false, func(g *genCtx) *op {
		rid := g.msgRID(60)

		return rd("MessageExistsWithRemoteID", fmt.Sprintf("MessageExistsWithRemoteID(%q)", rid),
			func(ctx context.Context, ro db.ReadOnly) (bool, error) { return ro.MessageExistsWithRemoteID(ctx, rid) },
			func(m *model) (expect, func(bool) error) { return expOK, eq(m.msgByRemote(rid) != nil) })
	})

	add("GetMessageNoEdges", false, false, func(g *genCtx) *op {
		id := g.msgID(75)

		return rd("GetMessageNoEdges", fmt.Sprintf("GetMessageNoEdges(%s)", shortID(id)),
			func(ctx context.Context, ro db.ReadOnly) (*db.Message, error) { return ro.GetMessageNoEdges(ctx, id) },
			func(m *model) (expect, func(*db.Message) error) {
				if mm := m.msgs[id]; mm != nil {
					return expOK, func(got *db.Message) error { return sameMessage(got, mm) }
				}

				return expErr, nil
			})
	})

	add("GetTotalMessageCount", false, false, func(g *genCtx) *op {
		return rd("GetTotalMessageCount", "GetTotalMessageCount()",
			func(ctx context.Context, ro db.ReadOnly) (int, error) { return ro.GetTotalMessageCount(ctx) },
			func(m *model) (expect, func(int) error) { return expOK, eq(len(m.msgs)) })
	})

	add("GetMessageRemoteID", false, false, func(g *genCtx) *op {
		id := g.msgID(75)

		return rd("GetMessageRemoteID", fmt.Sprintf("GetMessageRemoteID(%s)", shortID(id)),
			func(ctx context.Context, ro db.ReadOnly) (imap.MessageID, error) {
				return ro.GetMessageRemoteID(ctx, id)
			},
			func(m *model) (expect, func(imap.MessageID) error) {
				if mm := m.msgs[id]; mm != nil {
					return expOK, eq(mm.remoteID)
				}

				return expErr, nil
			})
	})

	add("GetImportedMessageData", false, false, func(g *genCtx) *op {
		id := g.msgID(75)

		return rd("GetImportedMessageData", fmt.Sprintf("GetImportedMessageData(%s)", shortID(id)),
			func(ctx context.Context, ro db.ReadOnly) (*db.MessageWithFlags, error) {
				return ro.GetImportedMessageData(ctx, id)
			},
			func(m *model) (expect, func(*db.MessageWithFlags) error) {
				if mm := m.msgs[id]; mm != nil {
					return expOK, func(got *db.MessageWithFlags) error {
						if got == nil {
							return fmt.Errorf("nil result")
						}

						if err := sameMessage(&got.Message, mm); err != nil {
							return err
						}

						return sameFlags(got.Flags, mm.flags)
					}
				}

				return expErr, nil
			})
	})

	type dateSize struct {
		d  time.Time
		sz int
	}

	add("GetMessageDateAndSize", false, false, func(g *genCtx) *op {
		id := g.msgID(75)

		return rd("GetMessageDateAndSize", fmt.Sprintf("GetMessageDateAndSize(%s)", shortID(id)),
			func(ctx context.Context, ro db.ReadOnly) (dateSize, error) {
				d, sz, err := ro.GetMessageDateAndSize(ctx, id)
				return dateSize{d, sz}, err
			},
			func(m *model) (expect, func(dateSize) error) {
				if mm := m.msgs[id]; mm != nil {
					return expOK, func(got dateSize) error {
						if !got.d.Equal(mm.date) || got.sz != mm.size {
							return fmt.Errorf("returned %v, %d; model %v, %d", got.d, got.sz, mm.date, mm.size)
						}

						return nil
					}
				}

				return expErr, nil
			})
	})

	add("GetMessageMailboxIDs", false, false, func(g *genCtx) *op {
		id := g.msgID(80)

		return rd("GetMessageMailboxIDs", fmt.Sprintf("GetMessageMailboxIDs(%s)", shortID(id)),
			func(ctx context.Context, ro db.ReadOnly) ([]imap.InternalMailboxID, error) {
				return ro.GetMessageMailboxIDs(ctx, id)
			},
			func(m *model) (expect, func([]imap.InternalMailboxID) error) {
				return expOK, func(got []imap.InternalMailboxID) error {
					return sameStrings("mailbox ids", strs(got), strs(m.mailboxesOf(id)), false)
				}
			})
	})

	add("GetMessagesFlags", false, true, func(g *genCtx) *op {
		l := g.msgIDList(nil, 15, true)
		desc := fmt.Sprintf("GetMessagesFlags(%s)", l.desc)

		o := rd("GetMessagesFlags", desc,
			func(ctx context.Context, ro db.ReadOnly) ([]db.MessageFlagSet, error) {
				return ro.GetMessagesFlags(ctx, l.ids)
			},
			func(m *model) (expect, func([]db.MessageFlagSet) error) {
				// one entry per existing message, also for messages without flags (setMessageFlags reads curFlags[0]);
				// ids that no longer exist are skipped (snapshot ids may lag behind)
				var want []string

				seen := map[imap.InternalMessageID]bool{}
				for _, id := range l.ids {
					if mm := m.msgs[id]; mm != nil && !seen[id] {
						want = append(want, fmt.Sprintf("%s|%q|%q", shortID(id), mm.remoteID, mm.flags.keys()))
					}

					seen[id] = true
				}

				return expOK, func(got []db.MessageFlagSet) error {
					var g []string
					for _, f := range got {
						g = append(g, fmt.Sprintf("%s|%q|%q", shortID(f.ID), f.RemoteID, fromIMAP(f.FlagSet).keys()))
					}

					return sameStrings("flag sets", g, want, l.dup)
				}
			})
		o.big = len(l.ids) > 1000

		return o
	})

	add("GetMessageIDsMarkedAsDelete", false, false, func(g *genCtx) *op {
		return rd("GetMessageIDsMarkedAsDelete", "GetMessageIDsMarkedAsDelete()",
			func(ctx context.Context, ro db.ReadOnly) ([]imap.InternalMessageID, error) {
				return ro.GetMessageIDsMarkedAsDelete(ctx)
			},
			func(m *model) (expect, func([]imap.InternalMessageID) error) {
				return expOK, func(got []imap.InternalMessageID) error {
					var w []string

					for id, mm := range m.msgs {
						if mm.deleted {
							w = append(w, id.String())
						}
					}

					return sameStrings("ids", strs(got), w, false)
				}
			})
	})

	add("GetMessageIDFromRemoteID", false, false, func(g *genCtx) *op {
		rid := g.msgRID(65)

		return rd("GetMessageIDFromRemoteID", fmt.Sprintf("GetMessageIDFromRemoteID(%q)", rid),
			func(ctx context.Context, ro db.ReadOnly) (imap.InternalMessageID, error) {
				return ro.GetMessageIDFromRemoteID(ctx, rid)
			},
			func(m *model) (expect, func(imap.InternalMessageID) error) {
				if mm := m.msgByRemote(rid); mm != nil {
					return expOK, eq(mm.id)
				}

				return expNotFound, nil // actionCreateMessage, applyMessagesCreated, applyMessageUpdated test db.IsErrNotFound
			})
	})

	add("GetMessageDeletedFlag", false, false, func(g *genCtx) *op {
		id := g.msgID(70)

		return rd("GetMessageDeletedFlag", fmt.Sprintf("GetMessageDeletedFlag(%s)", shortID(id)),
			func(ctx context.Context, ro db.ReadOnly) (bool, error) { return ro.GetMessageDeletedFlag(ctx, id) },
			func(m *model) (expect, func(bool) error) {
				if mm := m.msgs[id]; mm != nil {
					return expOK, eq(mm.deleted)
				}

				return expNotFound, nil // Mailbox.AppendRegular tests errors.Is(err, db.ErrNotFound)
			})
	})

	add("GetAllMessagesIDsAsMap", false, false, func(g *genCtx) *op {
		return rd("GetAllMessagesIDsAsMap", "GetAllMessagesIDsAsMap()",
			func(ctx context.Context, ro db.ReadOnly) (map[imap.InternalMessageID]struct{}, error) {
				return ro.GetAllMessagesIDsAsMap(ctx)
			},
			func(m *model) (expect, func(map[imap.InternalMessageID]struct{}) error) {
				return expOK, func(got map[imap.InternalMessageID]struct{}) error {
					var g, w []string
					for id := range got {
						g = append(g, id.String())
					}

					for id := range m.msgs {
						w = append(w, id.String())
					}

					return sameStrings("ids", g, w, false)
				}
			})
	})

	// ================================================================ subscriptions / settings (read)

	add("GetDeletedSubscriptionSet", false, false, func(g *genCtx) *op {
		return rd("GetDeletedSubscriptionSet", "GetDeletedSubscriptionSet()",
			func(ctx context.Context, ro db.ReadOnly) (map[imap.MailboxID]*db.DeletedSubscription, error) {
				return ro.GetDeletedSubscriptionSet(ctx)
			},
			func(m *model) (expect, func(map[imap.MailboxID]*db.DeletedSubscription) error) {
				return expOK, func(got map[imap.MailboxID]*db.DeletedSubscription) error {
					var g, w []string

					for k, v := range got {
						if v == nil || v.RemoteID != k {
							return fmt.Errorf("entry %q -> %+v", k, v)
						}

						g = append(g, fmt.Sprintf("%q|%q", v.Name, v.RemoteID))
					}

					for n, r := range m.deletedSubs {
						w = append(w, fmt.Sprintf("%q|%q", n, r))
					}

					return sameStrings("deleted subscriptions", g, w, false)
				}
			})
	})

	type setting struct {
		v   string
		has bool
	}

	add("GetConnectorSettings", false, false, func(g *genCtx) *op {
		return rd("GetConnectorSettings", "GetConnectorSettings()",
			func(ctx context.Context, ro db.ReadOnly) (setting, error) {
				v, has, err := ro.GetConnectorSettings(ctx)
				return setting{v, has}, err
			},
			// the bool is "a value has been stored" (internal/db_impl/sqlite3/migration_test.go; the doc comment in db/ops.go
			// says the opposite, the test and the only caller's contract (connector.IMAPStateRead.GetSettings) decide)
			func(m *model) (expect, func(setting) error) { return expOK, eq(setting{m.settings, m.hasSettings}) })
	})

	// ================================================================ MailboxWriteOps

	add("CreateMailbox", true, false, func(g *genCtx) *op { return opCreateMailbox(g.newMbox()) })

	add("GetOrCreateMailbox", true, false, func(g *genCtx) *op {
		n := g.newMbox()
		if g.chance("existing", 40) {
			n.remoteID = g.mboxRID(100)
		}

		desc := fmt.Sprintf("GetOrCreateMailbox(rid=%q, name=%q, flags=%q, perm=%q, attrs=%q, uidv=%d)", n.remoteID, n.name, n.flags, n.perm, n.attrs, n.uidValidity)

		return opGetOrCreate("GetOrCreateMailbox", n, func(ctx context.Context, tx db.Transaction) (*db.Mailbox, error) {
			return tx.GetOrCreateMailbox(ctx, n.remoteID, n.name, imapFlags(n.flags), imapFlags(n.perm), imapFlags(n.attrs), n.uidValidity)
		}, desc)
	})

	altArgs := func(g *genCtx) (newMbox, imap.Mailbox, string) {
		n := g.newMbox()
		if g.chance("existing", 40) {
			n.remoteID = g.mboxRID(100)
		}

		delim := pick(g, "delim", delims)
		parts := []string{pick(g, "part", []string{"A", "a", "INBOX", "B", "x'y", "Ä"})}

		for i, k := 0, g.intn("nparts", 3); i < k; i++ {
			parts = append(parts, pick(g, "part", []string{"B", "C", "b", "", "it's"}))
		}

		n.name = strings.Join(parts, delim)

		if g.m.mboxByName(n.name) != nil && g.m.mboxByRemote(n.remoteID) == nil && !g.chance("nameconflict", 10) {
			g.m.fresh++
			parts = append(parts, fmt.Sprintf("p%d", g.m.fresh))
			n.name = strings.Join(parts, delim)
		}

		return n, imap.Mailbox{ID: n.remoteID, Name: parts, Flags: imapFlags(n.flags), PermanentFlags: imapFlags(n.perm), Attributes: imapFlags(n.attrs)}, delim
	}

	add("GetOrCreateMailboxAlt", true, false, func(g *genCtx) *op {
		n, mb, delim := altArgs(g)
		desc := fmt.Sprintf("GetOrCreateMailboxAlt({rid=%q name=%q flags=%q perm=%q attrs=%q}, delim=%q, uidv=%d)", mb.ID, mb.Name, n.flags, n.perm, n.attrs, delim, n.uidValidity)

		return opGetOrCreate("GetOrCreateMailboxAlt", n, func(ctx context.Context, tx db.Transaction) (*db.Mailbox, error) {
			return tx.GetOrCreateMailboxAlt(ctx, mb, delim, n.uidValidity)
		}, desc)
	})

	add("CreateMailboxIfNotExists", true, false, func(g *genCtx) *op {
		n, mb, delim := altArgs(g)
		desc := fmt.Sprintf("CreateMailboxIfNotExists({rid=%q name=%q flags=%q perm=%q attrs=%q}, delim=%q, uidv=%d)", mb.ID, mb.Name, n.flags, n.perm, n.attrs, delim, n.uidValidity)

		return &op{name: "CreateMailboxIfNotExists", desc: desc, write: true,
			run: func(ctx context.Context, s *sut, _ db.ReadOnly, tx db.Transaction) (error, bool) {
				m := s.m
				existing := m.mboxByRemote(n.remoteID)
				exp := expOK

				if existing == nil {
					exp = m.canCreateMailbox(n)
				}

				countCall("method", "CreateMailboxIfNotExists")

				_, err := safely(func() (none, error) { return none{}, tx.CreateMailboxIfNotExists(ctx, mb, delim, n.uidValidity) })

				if v, proceed := judge(desc, exp, err); v != nil {
					return v, true
				} else if !proceed {
					return nil, true
				}

				if existing != nil {
					return nil, false
				}

				// the new internal id is not part of the result: look it up
				id, err := tx.GetMailboxIDFromRemoteID(ctx, n.remoteID)
				if err != nil {
					return fmt.Errorf("%s: succeeded, but GetMailboxIDFromRemoteID(%q) fails: %v", desc, n.remoteID, err), true
				}

				got := &db.Mailbox{ID: id, RemoteID: n.remoteID, Name: n.name, UIDValidity: n.uidValidity, Subscribed: true}
				if err := checkCreated(m, got, n); err != nil {
					return fmt.Errorf("%s: %w", desc, err), true
				}

				return nil, false
			}}
	})

	add("RenameMailboxWithRemoteID", true, false, func(g *genCtx) *op {
		rid, name := g.mboxRID(94), g.mboxName()

		return wr("RenameMailboxWithRemoteID", fmt.Sprintf("RenameMailboxWithRemoteID(%q, %q)", rid, name), false,
			noRes(func(ctx context.Context, tx db.Transaction) error {
				return tx.RenameMailboxWithRemoteID(ctx, rid, name)
			}),
			func(m *model) (expect, func(none) error) { return m.renameMailbox(rid, name), nil })
	})

	add("DeleteMailboxWithRemoteID", true, false, func(g *genCtx) *op {
		rid := g.mboxRID(75)

		return wr("DeleteMailboxWithRemoteID", fmt.Sprintf("DeleteMailboxWithRemoteID(%q)", rid), false,
			noRes(func(ctx context.Context, tx db.Transaction) error { return tx.DeleteMailboxWithRemoteID(ctx, rid) }),
			func(m *model) (expect, func(none) error) { return m.deleteMailbox(rid), nil })
	})

	add("AddMessagesToMailbox", true, true, func(g *genCtx) *op {
		id := g.mboxID(96)

		// mostly the valid case (existing messages that are not members yet); members / unknown ids / duplicates are
		// failing preconditions (error expected; for a duplicate the error is merely accepted)
		nm := g.nonMembers(id)
		l := g.msgIDList(nm, 3, g.chance("allowdup", 6))

		if g.bulk < 0 && !g.chance("anyway", 6) {
			// keep the valid call the common one: drop ids that are members already
			kept := l.ids[:0:0]

			for _, x := range l.ids {
				if b := g.m.mboxes[id]; b != nil {
					if _, member := b.byMsg[x]; member {
						continue
					}
				}

				kept = append(kept, x)
			}

			l.ids = kept
			l.desc = fmt.Sprintf("%d ids %v", len(l.ids), shortIDs(l.ids))
		}

		if g.bulk < 0 && g.chance("amember", 8) {
			if ms := g.members(id); len(ms) > 0 {
				l.ids = append(l.ids, pick(g, "member", ms))
				l.desc = fmt.Sprintf("%d ids %v", len(l.ids), shortIDs(l.ids))
			}
		}

		return opAddMessages(id, g.pairsOf(l.ids), l.desc, l.dup)
	})

	add("RemoveMessagesFromMailbox", true, true, func(g *genCtx) *op {
		id := g.mboxID(96)
		l := g.msgIDList(g.members(id), 8, true)

		if len(l.ids) > db.ChunkLimit && kf.Listed("F-C03a") {
			ev.Excluded(1)

			l.ids = l.ids[:db.ChunkLimit]
			l.desc += " cut to 1000 (F-C03a)"
		}

		return wr("RemoveMessagesFromMailbox", fmt.Sprintf("RemoveMessagesFromMailbox(mbox=%v, %s)", id, l.desc), len(l.ids) > 1000,
			noRes(func(ctx context.Context, tx db.Transaction) error {
				return tx.RemoveMessagesFromMailbox(ctx, id, l.ids)
			}),
			func(m *model) (expect, func(none) error) { return m.removeMessages(id, l.ids), nil })
	})

	add("ClearRecentFlagInMailboxOnMessage", true, false, func(g *genCtx) *op {
		id := g.mboxID(95)

		var mid imap.InternalMessageID
		if ms := g.members(id); len(ms) > 0 && g.chance("member", 80) {
			mid = pick(g, "member", ms)
		} else {
			mid = g.msgID(60)
		}

		return wr("ClearRecentFlagInMailboxOnMessage", fmt.Sprintf("ClearRecentFlagInMailboxOnMessage(mbox=%v, %s)", id, shortID(mid)), false,
			noRes(func(ctx context.Context, tx db.Transaction) error {
				return tx.ClearRecentFlagInMailboxOnMessage(ctx, id, mid)
			}),
			func(m *model) (expect, func(none) error) { return m.clearRecentOn(id, mid), nil })
	})

	add("ClearRecentFlagsInMailbox", true, false, func(g *genCtx) *op {
		id := g.mboxID(95)

		return wr("ClearRecentFlagsInMailbox", fmt.Sprintf("ClearRecentFlagsInMailbox(mbox=%v)", id), false,
			noRes(func(ctx context.Context, tx db.Transaction) error { return tx.ClearRecentFlagsInMailbox(ctx, id) }),
			func(m *model) (expect, func(none) error) { return m.clearRecentAll(id), nil })
	})

	add("SetMailboxMessagesDeletedFlag", true, true, func(g *genCtx) *op {
		id := g.mboxID(95)
		l := g.msgIDList(g.members(id), 15, true)
		v := g.chance("deleted", 65)

		return wr("SetMailboxMessagesDeletedFlag", fmt.Sprintf("SetMailboxMessagesDeletedFlag(mbox=%v, %s, %v)", id, l.desc, v), len(l.ids) > 1000,
			noRes(func(ctx context.Context, tx db.Transaction) error {
				return tx.SetMailboxMessagesDeletedFlag(ctx, id, l.ids, v)
			}),
			func(m *model) (expect, func(none) error) { return m.setDeleted(id, l.ids, v), nil })
	})

	add("SetMailboxSubscribed", true, false, func(g *genCtx) *op {
		id, v := g.mboxID(94), g.chance("sub", 50)

		return wr("SetMailboxSubscribed", fmt.Sprintf("SetMailboxSubscribed(mbox=%v, %v)", id, v), false,
			noRes(func(ctx context.Context, tx db.Transaction) error { return tx.SetMailboxSubscribed(ctx, id, v) }),
			func(m *model) (expect, func(none) error) { return m.setSubscribed(id, v), nil })
	})

	add("UpdateRemoteMailboxID", true, false, func(g *genCtx) *op {
		id, rid := g.mboxID(94), g.mboxRID(8)

		return wr("UpdateRemoteMailboxID", fmt.Sprintf("UpdateRemoteMailboxID(mbox=%v, %q)", id, rid), false,
			noRes(func(ctx context.Context, tx db.Transaction) error { return tx.UpdateRemoteMailboxID(ctx, id, rid) }),
			func(m *model) (expect, func(none) error) { return m.updateRemoteMailboxID(id, rid), nil })
	})

	add("SetMailboxUIDValidity", true, false, func(g *genCtx) *op {
		id, v := g.mboxID(94), g.uidValidity()

		return wr("SetMailboxUIDValidity", fmt.Sprintf("SetMailboxUIDValidity(mbox=%v, %d)", id, v), false,
			noRes(func(ctx context.Context, tx db.Transaction) error { return tx.SetMailboxUIDValidity(ctx, id, v) }),
			func(m *model) (expect, func(none) error) { return m.setUIDValidity(id, v), nil })
	})

	allFlags := func(name string, perm bool, call func(context.Context, db.Transaction, []string) error) {
		add(name, true, true, func(g *genCtx) *op {
			var flags []string

			desc := ""

			if g.bulk >= 0 {
				// n distinct flags; a few drawn ones at the chunk-relevant positions
				flags = make([]string, g.bulk)
				for i := range flags {
					flags[i] = fmt.Sprintf("bulk%d", i)
				}

				fs := newFlagset(flags...)

				for _, p := range []int{0, 999, 1000, g.bulk - 1} {
					if p >= 0 && p < g.bulk && g.chance("drawnflag", 50) {
						if f := g.flag(allMboxFlag); !fs.has(f) {
							fs.add(f)
							flags[p] = f
						}
					}
				}

				desc = fmt.Sprintf("%d flags", len(flags))
				if len(flags) > 0 {
					desc += fmt.Sprintf(" %q … %q", flags[0], flags[len(flags)-1])
				}
			} else {
				// at least one flag: the empty call is not defined (the only caller is the connector's own code)
				flags = g.flagList(allMboxFlag, 1, 3)
				desc = fmt.Sprintf("%q", flags)
			}

			if g.bulk == 0 {
				return nil // nothing to call
			}

			return wr(name, fmt.Sprintf("%s(%s)", name, desc), len(flags) > 1000,
				noRes(func(ctx context.Context, tx db.Transaction) error { return call(ctx, tx, flags) }),
				func(m *model) (expect, func(none) error) { return m.addFlagsToAll(perm, flags), nil })
		})
	}

	allFlags("AddFlagsToAllMailboxes", false, func(ctx context.Context, tx db.Transaction, f []string) error {
		return tx.AddFlagsToAllMailboxes(ctx, f...)
	})
	allFlags("AddPermFlagsToAllMailboxes", true, func(ctx context.Context, tx db.Transaction, f []string) error {
		return tx.AddPermFlagsToAllMailboxes(ctx, f...)
	})

	// ================================================================ MessageWriteOps

	add("CreateMessages", true, true, func(g *genCtx) *op {
		if g.bulk >= 0 {
			per := g.intn("flagsper", 3) // 0, 1 or 2 flags per message: the flag rows cross their own chunk limit
			f := []string{g.steer(msgFlag, g.flag(msgFlag)), "second"}[:per]
			reqs := make([]newMsg, g.bulk)

			for i := range reqs {
				reqs[i] = g.plainMsg(i, f)
			}

			note := fmt.Sprintf(", %d flag(s) each %q", per, f)

			if g.bulk > 0 && len(g.m.msgOrder) > 0 && g.chance("conflict", 20) {
				p := pick(g, "at", []int{0, g.bulk - 1, 1000 % g.bulk, 999 % g.bulk})
				reqs[p].remoteID = g.m.msgs[g.m.msgOrder[0]].remoteID
				note += fmt.Sprintf(", remote id of req[%d] taken", p)
			}

			return opCreateMessages(reqs, note)
		}

		n := pick(g, "len", []int{0, 1, 1, 1, 2, 2, 3, 5})
		reqs := make([]newMsg, n)

		for i := range reqs {
			reqs[i] = g.newMsg(3)
		}

		if n >= 2 && g.chance("dupinlist", 5) {
			reqs[n-1].remoteID = reqs[0].remoteID
		}

		return opCreateMessages(reqs, "")
	})

	type uidFlags struct {
		uid   imap.UID
		flags imap.FlagSet
	}

	add("CreateMessageAndAddToMailbox", true, false, func(g *genCtx) *op {
		id, r := g.mboxID(95), g.newMsg(4)

		return wr("CreateMessageAndAddToMailbox", fmt.Sprintf("CreateMessageAndAddToMailbox(mbox=%v, %s)", id, descMsg(r)), false,
			func(ctx context.Context, tx db.Transaction) (uidFlags, error) {
				u, f, err := tx.CreateMessageAndAddToMailbox(ctx, id, toReq(r))
				return uidFlags{u, f}, err
			},
			func(m *model) (expect, func(uidFlags) error) {
				exp, e := m.createAndAdd(id, r)

				return exp, func(got uidFlags) error {
					if got.uid != e.uid {
						return fmt.Errorf("returned uid %v, model %v", got.uid, e.uid)
					}

					return sameFlags(got.flags, m.entryFlags(e)) // the message's flags plus \Recent
				}
			})
	})

	add("MarkMessageAsDeleted", true, false, func(g *genCtx) *op {
		id := g.msgID(80)

		return wr("MarkMessageAsDeleted", fmt.Sprintf("MarkMessageAsDeleted(%s)", shortID(id)), false,
			noRes(func(ctx context.Context, tx db.Transaction) error { return tx.MarkMessageAsDeleted(ctx, id) }),
			func(m *model) (expect, func(none) error) { return m.markDeleted(id), nil })
	})

	add("MarkMessageAsDeletedAndAssignRandomRemoteID", true, false, func(g *genCtx) *op {
		// Only for messages that are in no mailbox (applyMessageUpdated removes the message from every mailbox first), or ids
		// that do not exist. For a message that is still a member the interface does not say what its remote id is afterwards.
		var free []imap.InternalMessageID

		for _, id := range g.m.msgOrder {
			if !g.m.inAnyMailbox(id) {
				free = append(free, id)
			}
		}

		var id imap.InternalMessageID
		if len(free) > 0 && g.chance("existing", 80) {
			id = pick(g, "free", free)
		} else {
			id = g.msgID(0)
		}

		return &op{name: "MarkMessageAsDeletedAndAssignRandomRemoteID", write: true,
			desc: fmt.Sprintf("MarkMessageAsDeletedAndAssignRandomRemoteID(%s)", shortID(id)),
			run: func(ctx context.Context, s *sut, _ db.ReadOnly, tx db.Transaction) (error, bool) {
				countCall("method", "MarkMessageAsDeletedAndAssignRandomRemoteID")

				_, err := safely(func() (none, error) { return none{}, tx.MarkMessageAsDeletedAndAssignRandomRemoteID(ctx, id) })
				mm := s.m.msgs[id]

				var pe *panicErr
				if errors.As(err, &pe) {
					return fmt.Errorf("MarkMessageAsDeletedAndAssignRandomRemoteID(%s): the call panicked: %v", shortID(id), pe.v), true
				}

				if mm == nil {
					return nil, err != nil // no such message: nothing to do; an error is accepted
				}

				if err != nil {
					return fmt.Errorf("MarkMessageAsDeletedAndAssignRandomRemoteID(%s): unexpected error: %v", shortID(id), err), true
				}

				// the new remote id is random: read it, require that it is new, and take it over into the model
				rid, err := tx.GetMessageRemoteID(ctx, id)
				if err != nil {
					return fmt.Errorf("GetMessageRemoteID after MarkMessageAsDeletedAndAssignRandomRemoteID: %v", err), true
				}

				if rid == mm.remoteID {
					return fmt.Errorf("MarkMessageAsDeletedAndAssignRandomRemoteID(%s): remote id still %q", shortID(id), rid), true
				}

				if o := s.m.msgByRemote(rid); o != nil {
					return fmt.Errorf("MarkMessageAsDeletedAndAssignRandomRemoteID(%s): new remote id %q belongs to %s", shortID(id), rid, shortID(o.id)), true
				}

				s.m.setRemoteID(mm, rid)
				mm.deleted = true

				return nil, false
			}}
	})

	add("MarkMessageAsDeletedWithRemoteID", true, false, func(g *genCtx) *op {
		rid := g.msgRID(80)

		return wr("MarkMessageAsDeletedWithRemoteID", fmt.Sprintf("MarkMessageAsDeletedWithRemoteID(%q)", rid), false,
			noRes(func(ctx context.Context, tx db.Transaction) error {
				return tx.MarkMessageAsDeletedWithRemoteID(ctx, rid)
			}),
			func(m *model) (expect, func(none) error) {
				if mm := m.msgByRemote(rid); mm != nil {
					return m.markDeleted(mm.id), nil
				}

				return expLenient, nil
			})
	})

	add("DeleteMessages", true, true, func(g *genCtx) *op {
		// messages that are in no mailbox (what callers delete), unknown ids, and rarely a message that is still a member
		var free []imap.InternalMessageID

		for _, id := range g.m.msgOrder {
			if !g.m.inAnyMailbox(id) {
				free = append(free, id)
			}
		}

		var l idList

		if g.bulk >= 0 {
			l = g.bulkIDList(free, 25, true)
		} else {
			n := pick(g, "len", smallLens)
			seen := map[imap.InternalMessageID]bool{}

			for i := 0; i < n; i++ {
				var id imap.InternalMessageID

				switch k := g.intn("elem", 100); {
				case k < 70 && len(free) > 0:
					id = pick(g, "free", free)
				case k < 76:
					id = g.msgID(100)
				default:
					id = g.msgID(0)
				}

				if seen[id] && !g.chance("keepdup", 30) {
					continue
				}

				seen[id] = true
				l.ids = append(l.ids, id)
			}

			l.desc = fmt.Sprintf("%d ids %v", len(l.ids), shortIDs(l.ids))
		}

		return wr("DeleteMessages", fmt.Sprintf("DeleteMessages(%s)", l.desc), len(l.ids) > 1000,
			noRes(func(ctx context.Context, tx db.Transaction) error { return tx.DeleteMessages(ctx, l.ids) }),
			func(m *model) (expect, func(none) error) { return m.deleteMessages(l.ids), nil })
	})

	add("UpdateRemoteMessageID", true, false, func(g *genCtx) *op {
		id, rid := g.msgID(92), g.msgRID(6)

		if kf.Listed("F-C08b2") && g.m.inAnyMailbox(id) {
			// the per-mailbox copy of the remote id is not updated: only messages that are in no mailbox (or unknown ids)
			ev.Excluded(1)

			id = g.freshMsgID()

			for _, x := range g.m.msgOrder {
				if !g.m.inAnyMailbox(x) {
					id = x
					break
				}
			}
		}

		o := wr("UpdateRemoteMessageID", fmt.Sprintf("UpdateRemoteMessageID(%s, %q)", shortID(id), rid), false,
			noRes(func(ctx context.Context, tx db.Transaction) error { return tx.UpdateRemoteMessageID(ctx, id, rid) }),
			func(m *model) (expect, func(none) error) { return m.updateRemoteMessageID(id, rid), nil })

		return tolerateKnown(o, "F-C08b", knownC08b)
	})

	add("AddFlagToMessages", true, true, func(g *genCtx) *op {
		l := g.msgIDList(nil, 5, true)
		flag := g.flagForMessages(l.ids)
		l.ids, flag = steerCase(g.m, l.ids, flag)

		return wr("AddFlagToMessages", fmt.Sprintf("AddFlagToMessages(%s, %q)", l.desc, flag), len(l.ids) > 1000,
			noRes(func(ctx context.Context, tx db.Transaction) error { return tx.AddFlagToMessages(ctx, l.ids, flag) }),
			func(m *model) (expect, func(none) error) { return m.addFlag(l.ids, flag), nil })
	})

	add("RemoveFlagFromMessages", true, true, func(g *genCtx) *op {
		l := g.msgIDList(nil, 10, true)
		flag := g.flagForMessages(l.ids)
		l.ids, flag = steerCase(g.m, l.ids, flag)

		return wr("RemoveFlagFromMessages", fmt.Sprintf("RemoveFlagFromMessages(%s, %q)", l.desc, flag), len(l.ids) > 1000,
			noRes(func(ctx context.Context, tx db.Transaction) error { return tx.RemoveFlagFromMessages(ctx, l.ids, flag) }),
			func(m *model) (expect, func(none) error) { return m.removeFlag(l.ids, flag), nil })
	})

	add("SetFlagsOnMessages", true, true, func(g *genCtx) *op {
		l := g.msgIDList(nil, 5, true)
		// the empty set is a legal argument (STORE FLAGS () must clear the flags); see F-C08e
		var flags []string

		if g.chance("emptyset", 12) {
			if kf.Listed("F-C08e") {
				ev.Excluded(1)

				flags = g.flagList(msgFlag, 1, 3)
			}
		} else {
			flags = g.flagList(msgFlag, 1, 3)

			if g.hintFlag != "" {
				flags = newFlagset(append([]string{g.hintFlag}, flags...)...).spellings()
			}
		}

		if kf.Listed("F-C03b") && len(l.ids) > 1 {
			// only the first id of each statement gets the flags inserted: keep a single id
			ev.Excluded(1)

			l.ids = l.ids[:1]
			l.desc = fmt.Sprintf("1 id %v (cut, F-C03b)", shortIDs(l.ids))
		}

		return wr("SetFlagsOnMessages", fmt.Sprintf("SetFlagsOnMessages(%s, %q)", l.desc, flags), len(l.ids) > 1000,
			noRes(func(ctx context.Context, tx db.Transaction) error {
				return tx.SetFlagsOnMessages(ctx, l.ids, imapFlags(flags))
			}),
			func(m *model) (expect, func(none) error) { return m.setFlags(l.ids, flags), nil })
	})

	// ================================================================ subscriptions / settings (write)

	add("AddDeletedSubscription", true, false, func(g *genCtx) *op {
		name, rid := g.lookupName(), g.mboxRID(30)

		return wr("AddDeletedSubscription", fmt.Sprintf("AddDeletedSubscription(%q, %q)", name, rid), false,
			noRes(func(ctx context.Context, tx db.Transaction) error { return tx.AddDeletedSubscription(ctx, name, rid) }),
			func(m *model) (expect, func(none) error) { return m.addDeletedSubscription(name, rid), nil })
	})

	add("RemoveDeletedSubscriptionWithName", true, false, func(g *genCtx) *op {
		name := g.lookupName()

		return wr("RemoveDeletedSubscriptionWithName", fmt.Sprintf("RemoveDeletedSubscriptionWithName(%q)", name), false,
			func(ctx context.Context, tx db.Transaction) (int, error) {
				return tx.RemoveDeletedSubscriptionWithName(ctx, name)
			},
			func(m *model) (expect, func(int) error) { return expOK, eq(m.removeDeletedSubscription(name)) })
	})

	add("StoreConnectorSettings", true, false, func(g *genCtx) *op {
		v := pick(g, "settings", []string{"", "x", `{"k":"v"}`, "it's", "héllo", strings.Repeat("s", 3000)})

		return wr("StoreConnectorSettings", fmt.Sprintf("StoreConnectorSettings(%.20q)", v), false,
			noRes(func(ctx context.Context, tx db.Transaction) error { return tx.StoreConnectorSettings(ctx, v) }),
			func(m *model) (expect, func(none) error) { m.settings, m.hasSettings = v, true; return expOK, nil })
	})

	return R
}

// steerCase: while F-C08c is listed, flags are only added to / removed from messages in the spelling they are stored in.
func steerCase(m *model, ids []imap.InternalMessageID, flag string) ([]imap.InternalMessageID, string) {
	if !kf.Listed("F-C08c") {
		return ids, flag
	}

	key := strings.ToLower(flag)
	spelling := ""
	out := ids[:0:0]
	steered := false

	for _, id := range ids {
		if mm, ok := m.msgs[id]; ok {
			if sp, has := mm.flags[key]; has {
				if spelling == "" {
					spelling = sp
				}

				if sp != spelling {
					steered = true
					continue
				}
			}
		}

		out = append(out, id)
	}

	if spelling != "" && spelling != flag {
		steered = true
		flag = spelling
	}

	if steered {
		ev.Excluded(1)
	}

	return out, flag
}

// tolerateKnown wraps an op whose method fails for every argument while a finding is listed: the listed error is accepted
// (counted as excluded), any other outcome is judged as usual.
func tolerateKnown(o *op, id string, match func(error) bool) *op {
	if !kf.Listed(id) {
		return o
	}

	inner := o.run
	o.run = func(ctx context.Context, s *sut, ro db.ReadOnly, tx db.Transaction) (error, bool) {
		v, abort := inner(ctx, s, ro, tx)
		if v != nil && match(v) {
			ev.Excluded(1)

			// a failed write ends the transaction (the runner then restores the model to the state before it)
			return nil, o.write
		}

		return v, abort
	}

	return o
}
