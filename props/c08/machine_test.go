package c08

import (
	"context"
	"errors"
	"flag"
	"fmt"
	"sort"
	"strconv"
	"sync"
	"testing"
	"time"

	"github.com/ProtonMail/gluon/db"
	"github.com/ProtonMail/gluon/imap"
	"pgregory.net/rapid"

	"verif/internal/ev"
	"verif/internal/kf"
)

func sortStrings(s []string) { sort.Strings(s) }

var (
	rules      = allRules()
	ruleByName = func() map[string]rule {
		m := map[string]rule{}
		for _, r := range rules {
			m[r.name] = r
		}

		return m
	}()
	readRules, writeRules = func() ([]rule, []rule) {
		var rs, ws []rule

		for _, r := range rules {
			if r.write {
				ws = append(ws, r)
			} else {
				rs = append(rs, r)
			}
		}

		return rs, ws
	}()
)

var needsMailbox = map[string]bool{"AddMessagesToMailbox": true, "RemoveMessagesFromMailbox": true, "ClearRecentFlagInMailboxOnMessage": true,
	"ClearRecentFlagsInMailbox": true, "SetMailboxMessagesDeletedFlag": true, "SetMailboxSubscribed": true, "UpdateRemoteMailboxID": true,
	"SetMailboxUIDValidity": true, "CreateMessageAndAddToMailbox": true, "RenameMailboxWithRemoteID": true}

// caseState is what one generated case accumulates for the evidence.
type caseState struct {
	s            *sut
	ops          int
	bigList      bool
	abortedAfter bool  // some aborted transaction had >= 1 write before the abort point
	abortWith    error // the error the transaction function returns when it aborts (drawn per transaction)
	labels       map[string]struct{}
	smallCases   bool
}

func (c *caseState) label(l string) { c.labels[l] = struct{}{} }

// drawRule picks the next method: writes somewhat more often than reads while the database is nearly empty.
func drawRule(g *genCtx, readOnly bool) rule {
	if readOnly {
		return readRules[g.intn("read", len(readRules))]
	}

	// a few methods build up state; give them extra weight so that the other rules have something to work on
	// (an empty database makes most calls fail their precondition, which ends the transaction)
	w := g.intn("kind", 100)

	switch {
	case len(g.m.mboxOrder) == 0 && w < 60:
		return ruleByName["CreateMailbox"]
	case len(g.m.msgOrder) == 0 && w < 60:
		return ruleByName[[]string{"CreateMessages", "CreateMessageAndAddToMailbox"}[g.intn("builder", 2)]]
	case w < 18:
		builders := []string{"CreateMailbox", "CreateMessages", "CreateMessages", "CreateMessageAndAddToMailbox", "AddMessagesToMailbox", "AddMessagesToMailbox"}
		return ruleByName[builders[g.intn("builder", len(builders))]]
	case w < 66:
		r := writeRules[g.intn("write", len(writeRules))]

		// no mailbox yet: most mailbox operations would only fail their precondition and end the transaction
		if len(g.m.mboxOrder) == 0 && needsMailbox[r.name] && !g.chance("anyway", 12) {
			return ruleByName["CreateMailbox"]
		}

		// a method that fails on every call while its finding is listed ends every transaction it appears in: call it less often
		if (r.name == "UpdateRemoteMessageID" && kf.Listed("F-C08b")) && !g.chance("anyway", 25) {
			return ruleByName["CreateMessages"]
		}

		return r
	}

	return readRules[g.intn("read", len(readRules))]
}

// runTx runs one transaction: the operations come from next (called inside the transaction, after the previous
// operation was applied); abortAt >= 0 makes the transaction function return an error before operation number abortAt.
// It returns a violation or nil.
func (c *caseState) runTx(next func(i int) *op, nOps, abortAt int) error {
	s := c.s
	ctx := context.Background()
	pre := s.m.clone()
	writes := 0
	aborted := false

	var viol error

	s.hist = append(s.hist, "-- begin Write")

	err := s.client.Write(ctx, func(ctx context.Context, tx db.Transaction) error {
		for i := 0; i < nOps; i++ {
			if i == abortAt {
				aborted = true
				s.hist = append(s.hist, fmt.Sprintf("-- abort (transaction function returns the error %q)", c.abortErr()))

				return c.abortErr()
			}

			o := next(i)
			if o == nil {
				continue
			}

			s.hist = append(s.hist, o.desc)
			c.ops++

			if o.big {
				c.bigList = true
			}

			v, end := o.run(ctx, s, tx, tx)
			if v != nil {
				viol = v
				return errAbort
			}

			if end {
				aborted = true
				s.hist = append(s.hist, "-- the operation failed as the model expects: abort")
				c.label("abort:failed-precondition")
				ev.Class("tx-outcome:ended-by-failed-op", 1)
				ev.Class("failed-op:"+o.name, 1)

				return c.abortErr()
			}

			if o.write {
				writes++
			}
		}

		if abortAt >= nOps {
			aborted = true
			s.hist = append(s.hist, fmt.Sprintf("-- abort (transaction function returns the error %q)", c.abortErr()))

			return c.abortErr()
		}

		return nil
	})

	if viol != nil {
		return viol
	}

	if aborted {
		if !errors.Is(err, c.abortErr()) {
			return fmt.Errorf("Write: the transaction function returned the error %q, Write returned %v", c.abortErr(), err)
		}

		pre.fresh = s.m.fresh
		s.m = pre
		c.label("tx:aborted")
		ev.Class("tx-outcome:aborted", 1)

		if writes > 0 {
			c.abortedAfter = true
			c.label("tx:aborted-after-write")
		}
	} else {
		if err != nil {
			return fmt.Errorf("Write (commit): %v", err)
		}

		s.hist = append(s.hist, "-- commit")
		c.label("tx:committed")
		ev.Class("tx-outcome:committed", 1)
	}

	return nil
}

// abortErr is the error an aborting transaction function returns: whatever it is, the transaction leaves no trace.
func (c *caseState) abortErr() error {
	if c.abortWith == nil {
		return errAbort
	}

	return c.abortWith
}

func (c *caseState) finish(t *rapid.T) {
	labels := make([]string, 0, len(c.labels))
	for l := range c.labels {
		labels = append(labels, l)
	}

	sort.Strings(labels)

	nontrivial := c.bigList || c.abortedAfter

	if !c.bigList {
		bucket := func(n int) string {
			switch {
			case n == 0:
				return "0"
			case n <= 2:
				return "1-2"
			case n <= 5:
				return "3-5"
			case n <= 10:
				return "6-10"
			}

			return ">10"
		}

		members := 0
		for _, b := range c.s.m.mboxes {
			members += len(b.entries)
		}

		ev.Class("final-state:mailboxes="+bucket(len(c.s.m.mboxes)), 1)
		ev.Class("final-state:messages="+bucket(len(c.s.m.msgs)), 1)
		ev.Class("final-state:memberships="+bucket(members), 1)
		ev.Class("case-ops="+bucket(c.ops/4)+"(x4)", 1)
	}
	ev.Case(nontrivial, ev.Hash(c.s.hist), labels...)

	if ev.WantSample() {
		h := c.s.hist
		if len(h) > 60 {
			h = append(append([]string(nil), h[:60]...), fmt.Sprintf("… (%d more)", len(c.s.hist)-60))
		}

		ev.Sample(map[string]any{"ops": h, "nontrivial": nontrivial})
	}
}

func setRapidSteps(n int) {
	if f := flag.Lookup("rapid.steps"); f != nil {
		_ = f.Value.Set(strconv.Itoa(n))
	}
}

const maxOpsSmall = 40

// TestStateMachine: small histories (<= 40 operations) over all 69 methods, several operations per transaction, drawn
// aborts, close + reopen, reads through Read (outside a transaction) as well as inside Write.
func TestStateMachine(t *testing.T) {
	ev.Checks(500, 3000)
	setRapidSteps(16)

	rapid.Check(t, func(t *rapid.T) {
		// the options of the implementation are part of the case (mostly the default: tracing every call is slow)
		switch rapid.IntRange(0, 9).Draw(t, "clientOptions") {
		case 0:
			clientOptions.debug, clientOptions.trace = true, false
		case 1:
			clientOptions.debug, clientOptions.trace = false, true
		case 2:
			clientOptions.debug, clientOptions.trace = true, true
		default:
			clientOptions.debug, clientOptions.trace = false, false
		}

		s, err := newSUT()
		if err != nil {
			t.Fatalf("VERIF-INCONCLUSIVE: cannot open the database: %v", err)
		}

		defer s.close()

		c := &caseState{s: s, labels: map[string]struct{}{}}
		g := &genCtx{t: t, m: s.m, bulk: -1}

		fail := func(v error) {
			t.Fatalf("C08 violation: %v\n%s", v, s.history())
		}

		scan := func(when string) {
			if v := s.scanViaRead(0); v != nil {
				fail(fmt.Errorf("full scan %s: database differs from the model: %w", when, v))
			}
		}

		tx := func(t *rapid.T) {
			nOps := rapid.IntRange(1, 7).Draw(t, "nops")
			abortAt := -1

			if g.chance("abort", 22) {
				abortAt = rapid.IntRange(0, nOps).Draw(t, "abortat")
			}

			// what a transaction function returns when it gives up: an error of its own, or an error of the db package
			// passed through (a lookup that found nothing is the usual reason for giving up), bare or wrapped
			c.abortWith = []error{errAbort, errAbort, db.ErrNotFound, fmt.Errorf("c08: looking up the next step: %w", db.ErrNotFound),
				context.Canceled, db.ErrTransactionFailed}[rapid.IntRange(0, 5).Draw(t, "abortwith")]

			if v := c.runTx(func(int) *op { g.m = s.m; return drawRule(g, false).gen(g) }, nOps, abortAt); v != nil {
				fail(v)
			}

			g.m = s.m

			scan("after the transaction")
		}

		read := func(t *rapid.T) {
			// reads outside a transaction (db.Client.Read: other code path, no sql.Tx)
			n := rapid.IntRange(1, 4).Draw(t, "nreads")

			s.hist = append(s.hist, "-- begin Read")

			var viol error

			err := s.client.Read(context.Background(), func(ctx context.Context, ro db.ReadOnly) error {
				for i := 0; i < n; i++ {
					o := drawRule(g, true).gen(g)
					s.hist = append(s.hist, o.desc)
					c.ops++

					if v, _ := o.run(ctx, s, ro, nil); v != nil {
						viol = v
						return nil
					}
				}

				return nil
			})
			if viol != nil {
				fail(viol)
			}

			if err != nil {
				fail(fmt.Errorf("Read returned %v although the function returned nil", err))
			}

			c.label("read-outside-tx")
			ev.Class("action:read", 1)
		}

		// several readers inside db.Client.Read at the same moment (two sessions reading at once): Read takes a shared
		// lock only, so they run side by side - on several connections of the pool, which serve the later operations too
		overlap := func(t *rapid.T) {
			k := rapid.IntRange(2, 8).Draw(t, "readers")
			want := len(s.m.mboxes)
			s.hist = append(s.hist, fmt.Sprintf("-- %d overlapping Read calls (GetMailboxCount)", k))

			var (
				wg      sync.WaitGroup
				entered = make(chan struct{}, k)
				release = make(chan struct{})
				results = make([]error, k)
			)

			for i := 0; i < k; i++ {
				i := i

				wg.Add(1)

				go func() {
					defer wg.Done()

					results[i] = s.client.Read(context.Background(), func(ctx context.Context, ro db.ReadOnly) error {
						entered <- struct{}{}
						<-release

						n, err := ro.GetMailboxCount(ctx)
						if err != nil {
							return err
						}

						if n != want {
							return fmt.Errorf("GetMailboxCount = %d, the model has %d mailboxes", n, want)
						}

						return nil
					})
				}()
			}

			// all of them are inside Read before any of them goes on (bounded: a Read that could not start is a finding)
			timeout := time.After(30 * time.Second)

			for i := 0; i < k; i++ {
				select {
				case <-entered:
				case <-timeout:
					close(release)
					fail(fmt.Errorf("%d Read calls were started, only %d got in within 30 s: readers exclude each other", k, i))
				}
			}

			close(release)
			wg.Wait()

			for _, err := range results {
				if err != nil {
					fail(fmt.Errorf("overlapping Read: %v", err))
				}
			}

			c.label("overlapping-reads")
			ev.Class("action:overlapping-reads", 1)
		}

		actions := map[string]func(*rapid.T){
			"step": func(t *rapid.T) {
				if c.ops >= maxOpsSmall {
					return
				}

				g.t, g.m = t, s.m

				switch k := g.intn("step", 100); {
				case k < 74:
					tx(t)
				case k < 84:
					read(t)
				case k < 90:
					overlap(t)
				default:
					if err := s.reopen(); err != nil {
						fail(err)
					}

					c.label("reopen")
					ev.Class("action:reopen", 1)
					scan("after close + reopen")
				}
			},
		}

		t.Repeat(actions)

		scan("at the end of the case")
		c.finish(t)

		stateMachineCases++
	})
}

// ---------------------------------------------------------------------------------------------------------------------
// bulk cases: one test per list-taking method; one generated case walks through every size class

var bulkSizes = []int{0, 1, 2, 499, 500, 501, 999, 1000, 1001, 1999, 2000, 2001, 2500}

func bulkCase(t *rapid.T, method string) {
	r := ruleByName[method]

	for _, n := range bulkSizes {
		func() {
			clientOptions.debug, clientOptions.trace = false, false

			s, err := newSUT()
			if err != nil {
				t.Fatalf("VERIF-INCONCLUSIVE: cannot open the database: %v", err)
			}

			defer s.close()

			c := &caseState{s: s, labels: map[string]struct{}{}}
			g := &genCtx{t: t, m: s.m, bulk: -1}

			fail := func(v error) {
				t.Fatalf("C08 violation (bulk %s, list length %d): %v\n%s", method, n, v, s.history())
			}

			c.label("bulk:" + method)
			c.label(fmt.Sprintf("size:%d", n))

			// ---- prepared state (committed): two or three mailboxes, n+k messages, memberships and flags that give the
			// operation something to do and something it must leave alone
			hint := g.flag(msgFlag)
			extra := rapid.IntRange(0, 5).Draw(t, "extra")
			inB := rapid.IntRange(0, 2).Draw(t, "inB")
			if method == "DeleteMessages" {
				inB = 0 // callers delete messages that are in no mailbox
			}

			var boxes []imap.InternalMailboxID

			prep := []func() *op{
				func() *op {
					return opCreateMailbox(newMbox{remoteID: "LA", name: "A", flags: []string{`\Seen`}, perm: []string{`\Seen`, `\*`}, uidValidity: 7})
				},
				func() *op {
					return opCreateMailbox(newMbox{remoteID: "LB", name: "B", attrs: []string{`\Marked`}, uidValidity: 8})
				},
				func() *op { return opCreateMailbox(newMbox{remoteID: "LC", name: "A/C", uidValidity: 9}) },
			}

			needMsgs := method != "MailboxTranslateRemoteIDs" && method != "AddFlagsToAllMailboxes" && method != "AddPermFlagsToAllMailboxes"
			total := 3

			if needMsgs && method != "CreateMessages" {
				total = n + extra
			}

			prep = append(prep, func() *op {
				boxes = append([]imap.InternalMailboxID(nil), s.m.mboxOrder...)
				reqs := make([]newMsg, total)

				for i := range reqs {
					var f []string

					switch i % 4 { // a quarter each: no flags / the hinted flag / the hinted flag and another / another
					case 1:
						f = []string{hint}
					case 2:
						f = newFlagset(hint, "other").spellings()
					case 3:
						f = []string{"other"}
					}

					reqs[i] = g.plainMsg(i, f)
				}

				return opCreateMessages(reqs, " (prepared state)")
			})

			// membership: for the methods that work on members, (almost) all messages are in A; for AddMessagesToMailbox none is;
			// some messages are also in B, which must not be touched
			memberMethods := map[string]bool{"RemoveMessagesFromMailbox": true, "SetMailboxMessagesDeletedFlag": true, "MailboxFilterContains": true,
				"GetMessagesFlags": true, "AddFlagToMessages": true, "RemoveFlagFromMessages": true, "SetFlagsOnMessages": true}

			if memberMethods[method] {
				prep = append(prep, func() *op {
					ids := append([]imap.InternalMessageID(nil), s.m.msgOrder...)
					if method == "MailboxFilterContains" || method == "SetMailboxMessagesDeletedFlag" {
						ids = ids[:len(ids)-len(ids)/5] // a fifth stays outside: non-members in the list
					}

					if len(ids) == 0 {
						return nil
					}

					return opAddMessages(boxes[0], g.pairsOf(ids), fmt.Sprintf("%d ids (prepared state)", len(ids)), false)
				})
			}

			if inB > 0 && needMsgs {
				prep = append(prep, func() *op {
					var ids []imap.InternalMessageID

					for i, id := range s.m.msgOrder {
						if i%(inB+1) == 0 {
							ids = append(ids, id)
						}
					}

					if len(ids) == 0 {
						return nil
					}

					return opAddMessages(boxes[1], g.pairsOf(ids), fmt.Sprintf("%d ids (prepared state)", len(ids)), false)
				})
			}

			if v := c.runTx(func(i int) *op { g.m = s.m; return prep[i]() }, len(prep), -1); v != nil {
				fail(v)
			}

			if len(s.m.mboxOrder) != 3 {
				fail(fmt.Errorf("prepared state: %d mailboxes", len(s.m.mboxOrder)))
			}

			c.bigList = false // only the operation under test counts

			// ---- the transaction under test: a few small operations around the bulk operation, possibly aborted
			before := rapid.IntRange(0, 2).Draw(t, "before")
			after := rapid.IntRange(0, 2).Draw(t, "after")
			nOps := before + 1 + after
			abortAt := -1

			if g.chance("abort", 20) {
				abortAt = rapid.IntRange(before+1, nOps).Draw(t, "abortat") // after the bulk operation
			}

			if v := c.runTx(func(i int) *op {
				g.m = s.m
				g.bulk, g.hintMbox, g.hintFlag = -1, 0, ""

				if i == before {
					g.bulk, g.hintMbox, g.hintFlag = n, boxes[0], hint
					defer func() { g.bulk, g.hintMbox, g.hintFlag = -1, 0, "" }()

					return r.gen(g)
				}

				return drawRule(g, false).gen(g)
			}, nOps, abortAt); v != nil {
				fail(v)
			}

			g.m = s.m

			if g.chance("reopen", 25) {
				if err := s.reopen(); err != nil {
					fail(err)
				}
			}

			if v := s.scanViaRead(24); v != nil {
				fail(fmt.Errorf("full scan after the transaction: database differs from the model: %w", v))
			}

			c.finish(t)
		}()
	}
}

func bulkTest(t *testing.T, method string) {
	ev.Checks(2, 8)
	rapid.Check(t, func(t *rapid.T) { bulkCase(t, method) })
}

func TestBulk_MailboxTranslateRemoteIDs(t *testing.T) { bulkTest(t, "MailboxTranslateRemoteIDs") }
func TestBulk_MailboxFilterContains(t *testing.T)     { bulkTest(t, "MailboxFilterContains") }
func TestBulk_GetMessagesFlags(t *testing.T)          { bulkTest(t, "GetMessagesFlags") }
func TestBulk_AddMessagesToMailbox(t *testing.T)      { bulkTest(t, "AddMessagesToMailbox") }
func TestBulk_RemoveMessagesFromMailbox(t *testing.T) { bulkTest(t, "RemoveMessagesFromMailbox") }
func TestBulk_SetMailboxMessagesDeletedFlag(t *testing.T) {
	bulkTest(t, "SetMailboxMessagesDeletedFlag")
}
func TestBulk_AddFlagsToAllMailboxes(t *testing.T)     { bulkTest(t, "AddFlagsToAllMailboxes") }
func TestBulk_AddPermFlagsToAllMailboxes(t *testing.T) { bulkTest(t, "AddPermFlagsToAllMailboxes") }
func TestBulk_CreateMessages(t *testing.T)             { bulkTest(t, "CreateMessages") }
func TestBulk_DeleteMessages(t *testing.T)             { bulkTest(t, "DeleteMessages") }
func TestBulk_AddFlagToMessages(t *testing.T)          { bulkTest(t, "AddFlagToMessages") }
func TestBulk_RemoveFlagFromMessages(t *testing.T)     { bulkTest(t, "RemoveFlagFromMessages") }
func TestBulk_SetFlagsOnMessages(t *testing.T)         { bulkTest(t, "SetFlagsOnMessages") }

// TestBulkRulesComplete: every rule that takes a list has a bulk test (guards against a forgotten method).
func TestBulkRulesComplete(t *testing.T) {
	have := map[string]bool{"MailboxTranslateRemoteIDs": true, "MailboxFilterContains": true, "GetMessagesFlags": true, "AddMessagesToMailbox": true,
		"RemoveMessagesFromMailbox": true, "SetMailboxMessagesDeletedFlag": true, "AddFlagsToAllMailboxes": true, "AddPermFlagsToAllMailboxes": true,
		"CreateMessages": true, "DeleteMessages": true, "AddFlagToMessages": true, "RemoveFlagFromMessages": true, "SetFlagsOnMessages": true}

	for _, r := range rules {
		if r.list != have[r.name] {
			t.Errorf("rule %s: list=%v, bulk test=%v", r.name, r.list, have[r.name])
		}
	}
}
