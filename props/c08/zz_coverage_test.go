package c08

import (
	"fmt"
	"sort"
	"testing"

	"verif/internal/ev"
)

// interfaceMethods lists every method of db.ReadOnly and db.Transaction (db/ops.go, ops_mailbox.go, ops_message.go,
// ops_subscription.go). TestInterfaceEnumerated (reflection) makes sure the list is complete.
var interfaceMethods = []string{
	// MailboxReadOps (25)
	"MailboxExistsWithID", "MailboxExistsWithRemoteID", "MailboxExistsWithName", "GetMailboxIDFromRemoteID", "GetMailboxName",
	"GetMailboxNameWithRemoteID", "GetMailboxMessageIDPairs", "GetAllMailboxesWithAttr", "GetAllMailboxesAsRemoteIDs", "GetMailboxByName",
	"GetMailboxByID", "GetMailboxByRemoteID", "GetMailboxRecentCount", "GetMailboxMessageCount", "GetMailboxMessageCountWithRemoteID",
	"GetMailboxFlags", "GetMailboxPermanentFlags", "GetMailboxAttributes", "GetMailboxUID", "GetMailboxMessageCountAndUID",
	"GetMailboxMessageForNewSnapshot", "MailboxTranslateRemoteIDs", "MailboxFilterContains", "GetMailboxCount", "GetAllMailboxesNameAndRemoteID",
	// MessageReadOps (13)
	"MessageExists", "MessageExistsWithRemoteID", "GetMessageNoEdges", "GetTotalMessageCount", "GetMessageRemoteID", "GetImportedMessageData",
	"GetMessageDateAndSize", "GetMessageMailboxIDs", "GetMessagesFlags", "GetMessageIDsMarkedAsDelete", "GetMessageIDFromRemoteID",
	"GetMessageDeletedFlag", "GetAllMessagesIDsAsMap",
	// SubscriptionReadOps, connector settings (2)
	"GetDeletedSubscriptionSet", "GetConnectorSettings",
	// MailboxWriteOps (16)
	"CreateMailbox", "GetOrCreateMailbox", "GetOrCreateMailboxAlt", "RenameMailboxWithRemoteID", "DeleteMailboxWithRemoteID",
	"AddMessagesToMailbox", "RemoveMessagesFromMailbox", "ClearRecentFlagInMailboxOnMessage", "ClearRecentFlagsInMailbox",
	"CreateMailboxIfNotExists", "SetMailboxMessagesDeletedFlag", "SetMailboxSubscribed", "UpdateRemoteMailboxID", "SetMailboxUIDValidity",
	"AddFlagsToAllMailboxes", "AddPermFlagsToAllMailboxes",
	// MessageWriteOps (10)
	"CreateMessages", "CreateMessageAndAddToMailbox", "MarkMessageAsDeleted", "MarkMessageAsDeletedAndAssignRandomRemoteID",
	"MarkMessageAsDeletedWithRemoteID", "DeleteMessages", "UpdateRemoteMessageID", "AddFlagToMessages", "RemoveFlagFromMessages", "SetFlagsOnMessages",
	// SubscriptionWriteOps, connector settings (3)
	"AddDeletedSubscription", "RemoveDeletedSubscriptionWithName", "StoreConnectorSettings",
}

var stateMachineCases int

// TestZ_AllMethodsCalled runs last (file order): every method of the interface was called by a rule at least once in
// this run of the package. Skipped when the state machine did not run (go test -run of a single test, replays).
func TestZ_AllMethodsCalled(t *testing.T) {
	if stateMachineCases < 200 {
		t.Skipf("the state machine ran %d cases in this process (single test, replay or scaled-down run): histogram not judged", stateMachineCases)
	}

	var missing []string

	for _, m := range interfaceMethods {
		if methodCalls[m] == 0 {
			missing = append(missing, m)
		}
	}

	sort.Strings(missing)

	if len(missing) > 0 {
		t.Fatalf("methods never called by a rule in this run (%d of %d): %v", len(missing), len(interfaceMethods), missing)
	}

	min, minName := -1, ""
	for _, m := range interfaceMethods {
		if min < 0 || methodCalls[m] < min {
			min, minName = methodCalls[m], m
		}
	}

	t.Logf("all %d methods called; least called: %s x%d", len(interfaceMethods), minName, min)
	ev.Extra("methods_total", len(interfaceMethods))
	ev.Extra("methods_called", len(interfaceMethods)-len(missing))
	ev.Extra("least_called_method", fmt.Sprintf("%s x%d", minName, min))
}
