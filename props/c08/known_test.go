package c08

import (
	"context"
	"fmt"
	"strings"
	"testing"
	"time"

	"github.com/ProtonMail/gluon/db"
	"github.com/ProtonMail/gluon/imap"

	"verif/internal/kf"
)

// Deterministic regressions of the defects this check found on the unchanged tree (minimal failing call sequences).
// Each runs against a fresh database. While the defect reproduces and is listed in known_findings.json the test prints
// the KNOWN-FINDING line and passes; if it reproduces and is not listed, it fails; once fixed it passes silently.

func knownC08a(err error) bool {
	return err != nil && kf.Listed("F-C08a") && strings.Contains(err.Error(), `near "SELEC": syntax error`)
}

func knownC08b(err error) bool {
	return err != nil && kf.Listed("F-C08b") && strings.Contains(err.Error(), "no such table: id")
}

type knownEnv struct {
	t   *testing.T
	s   *sut
	ctx context.Context
}

func newKnownEnv(t *testing.T) *knownEnv {
	clientOptions.debug, clientOptions.trace = false, false

	s, err := newSUT()
	if err != nil {
		t.Fatalf("VERIF-INCONCLUSIVE: cannot open the database: %v", err)
	}

	t.Cleanup(s.close)

	return &knownEnv{t: t, s: s, ctx: context.Background()}
}

func (e *knownEnv) write(f func(ctx context.Context, tx db.Transaction) error) error {
	_, err := safely(func() (none, error) { return none{}, e.s.client.Write(e.ctx, f) })

	return err
}

func (e *knownEnv) mustWrite(f func(ctx context.Context, tx db.Transaction) error) {
	if err := e.write(f); err != nil {
		e.t.Fatalf("setup failed: %v", err)
	}
}

func plainReq(i int, flags ...string) *db.CreateMessageReq {
	return &db.CreateMessageReq{
		Message:    imap.Message{ID: imap.MessageID(fmt.Sprintf("r%d", i)), Flags: imap.NewFlagSet(flags...), Date: time.Unix(1600000000, 0).UTC()},
		InternalID: msgIDFrom(0xF, uint64(i)), LiteralSize: 1, Body: "b", Structure: "s", Envelope: "e",
	}
}

// settle reports the outcome of a known-finding regression.
func settle(t *testing.T, id string, reproduced bool, detail string) {
	t.Helper()

	switch {
	case !reproduced:
		if kf.Listed(id) {
			t.Logf("%s is listed in known_findings.json but does not reproduce any more (entry can be removed)", id)
		}
	case kf.Report(id):
		t.Logf("%s reproduced (listed): %s", id, detail)
	default:
		t.Fatalf("C08 violation %s (not listed in known_findings.json): %s", id, detail)
	}
}

// F-C03a: RemoveMessagesFromMailbox with more than db.ChunkLimit ids.
func TestKnown_F_C03a(t *testing.T) {
	e := newKnownEnv(t)
	n := db.ChunkLimit + 1

	var mbox *db.Mailbox

	ids := make([]imap.InternalMessageID, n)
	pairs := make([]db.MessageIDPair, n)
	reqs := make([]*db.CreateMessageReq, n)

	for i := range reqs {
		reqs[i] = plainReq(i)
		ids[i] = reqs[i].InternalID
		pairs[i] = db.MessageIDPair{InternalID: reqs[i].InternalID, RemoteID: reqs[i].Message.ID}
	}

	e.mustWrite(func(ctx context.Context, tx db.Transaction) error {
		var err error
		if mbox, err = tx.CreateMailbox(ctx, "L", "A", imap.NewFlagSet(), imap.NewFlagSet(), imap.NewFlagSet(), 1); err != nil {
			return err
		}

		if err := tx.CreateMessages(ctx, reqs...); err != nil {
			return err
		}

		_, err = tx.AddMessagesToMailbox(ctx, mbox.ID, pairs)

		return err
	})

	var (
		left    int
		stillIn int
	)

	err := e.write(func(ctx context.Context, tx db.Transaction) error {
		if err := tx.RemoveMessagesFromMailbox(ctx, mbox.ID, ids); err != nil {
			return err
		}

		var err error
		if left, err = tx.GetMailboxMessageCount(ctx, mbox.ID); err != nil {
			return err
		}

		for _, id := range ids {
			mb, err := tx.GetMessageMailboxIDs(ctx, id)
			if err != nil {
				return err
			}

			stillIn += len(mb)
		}

		return nil
	})
	if err != nil {
		t.Fatalf("C08 violation: RemoveMessagesFromMailbox(%d ids) / follow-up reads: %v", n, err)
	}

	settle(t, "F-C03a", left != 0 || stillIn != 0,
		fmt.Sprintf("RemoveMessagesFromMailbox(mbox, all %d member ids): GetMailboxMessageCount = %d (want 0), %d of %d messages still list the mailbox in GetMessageMailboxIDs (want 0)", n, left, stillIn, n))
}

// F-C03b: SetFlagsOnMessages with two ids.
func TestKnown_F_C03b(t *testing.T) {
	e := newKnownEnv(t)
	r1, r2 := plainReq(1), plainReq(2)

	var got []db.MessageFlagSet

	e.mustWrite(func(ctx context.Context, tx db.Transaction) error { return tx.CreateMessages(ctx, r1, r2) })

	err := e.write(func(ctx context.Context, tx db.Transaction) error {
		if err := tx.SetFlagsOnMessages(ctx, []imap.InternalMessageID{r1.InternalID, r2.InternalID}, imap.NewFlagSet("x")); err != nil {
			return err
		}

		var err error
		got, err = tx.GetMessagesFlags(ctx, []imap.InternalMessageID{r1.InternalID, r2.InternalID})

		return err
	})
	if err != nil {
		t.Fatalf("C08 violation: SetFlagsOnMessages([m1 m2], {x}): %v", err)
	}

	bad := len(got) != 2

	var detail []string

	for _, f := range got {
		detail = append(detail, fmt.Sprintf("%s=%q", shortID(f.ID), f.FlagSet.ToSlice()))

		if !f.FlagSet.Contains("x") || f.FlagSet.Len() != 1 {
			bad = true
		}
	}

	settle(t, "F-C03b", bad, fmt.Sprintf("SetFlagsOnMessages([m1 m2], {x}) then GetMessagesFlags: %v (want {x} on both)", detail))
}

// F-C03c: a flag containing ',' (a legal atom character) read back through GROUP_CONCAT + split.
func TestKnown_F_C03c(t *testing.T) {
	e := newKnownEnv(t)
	r := plainReq(1, "a,b")

	var (
		flags  []db.MessageFlagSet
		single *db.MessageWithFlags
	)

	e.mustWrite(func(ctx context.Context, tx db.Transaction) error { return tx.CreateMessages(ctx, r) })

	if err := e.s.client.Read(e.ctx, func(ctx context.Context, ro db.ReadOnly) error {
		var err error
		if flags, err = ro.GetMessagesFlags(ctx, []imap.InternalMessageID{r.InternalID}); err != nil {
			return err
		}

		single, err = ro.GetImportedMessageData(ctx, r.InternalID)

		return err
	}); err != nil {
		t.Fatalf("C08 violation: reads after CreateMessages(flags {a,b}): %v", err)
	}

	if !single.Flags.Contains("a,b") || single.Flags.Len() != 1 {
		t.Fatalf("C08 violation: GetImportedMessageData flags = %q, stored {\"a,b\"}", single.Flags.ToSlice())
	}

	bad := len(flags) != 1 || flags[0].FlagSet.Len() != 1 || !flags[0].FlagSet.Contains("a,b")
	settle(t, "F-C03c", bad, fmt.Sprintf("message created with the single flag \"a,b\": GetMessagesFlags returns %q", flags[0].FlagSet.ToSlice()))
}

// F-C08a: MailboxExistsWithID.
func TestKnown_F_C08a(t *testing.T) {
	e := newKnownEnv(t)

	var (
		ok  bool
		err error
	)

	_ = e.s.client.Read(e.ctx, func(ctx context.Context, ro db.ReadOnly) error {
		ok, err = ro.MailboxExistsWithID(ctx, 1)
		return nil
	})

	if err == nil && ok {
		t.Fatalf("C08 violation: MailboxExistsWithID(1) = true on an empty database")
	}

	settle(t, "F-C08a", err != nil, fmt.Sprintf("MailboxExistsWithID(1) on a fresh database returns the error %q (want false, nil)", err))
}

// F-C08b: UpdateRemoteMessageID of an existing message to an unused remote id.
func TestKnown_F_C08b(t *testing.T) {
	e := newKnownEnv(t)
	r := plainReq(1)

	e.mustWrite(func(ctx context.Context, tx db.Transaction) error { return tx.CreateMessages(ctx, r) })

	var rid imap.MessageID

	err := e.write(func(ctx context.Context, tx db.Transaction) error {
		if err := tx.UpdateRemoteMessageID(ctx, r.InternalID, "new-remote-id"); err != nil {
			return err
		}

		var err error
		rid, err = tx.GetMessageRemoteID(ctx, r.InternalID)

		return err
	})

	settle(t, "F-C08b", err != nil || rid != "new-remote-id",
		fmt.Sprintf("UpdateRemoteMessageID(existing message, unused remote id): error %v, remote id afterwards %q (want nil, \"new-remote-id\")", err, rid))
}

// F-C08b2 (behind F-C08b): the remote id is also kept per mailbox; after UpdateRemoteMessageID the views of the mailbox
// (snapshot, id pairs) must show the new remote id.
func TestKnown_F_C08b2(t *testing.T) {
	e := newKnownEnv(t)
	r := plainReq(1)

	var mbox *db.Mailbox

	e.mustWrite(func(ctx context.Context, tx db.Transaction) error {
		var err error
		if mbox, err = tx.CreateMailbox(ctx, "L", "A", imap.NewFlagSet(), imap.NewFlagSet(), imap.NewFlagSet(), 1); err != nil {
			return err
		}

		_, _, err = tx.CreateMessageAndAddToMailbox(ctx, mbox.ID, r)

		return err
	})

	var (
		snap  []db.SnapshotMessageResult
		pairs []db.MessageIDPair
	)

	err := e.write(func(ctx context.Context, tx db.Transaction) error {
		if err := tx.UpdateRemoteMessageID(ctx, r.InternalID, "new-remote-id"); err != nil {
			return err
		}

		var err error
		if snap, err = tx.GetMailboxMessageForNewSnapshot(ctx, mbox.ID); err != nil {
			return err
		}

		pairs, err = tx.GetMailboxMessageIDPairs(ctx, mbox.ID)

		return err
	})
	if err != nil {
		if kf.Listed("F-C08b") || knownC08bText(err) {
			t.Skipf("hidden behind F-C08b: %v", err)
		}

		t.Fatalf("C08 violation: %v", err)
	}

	bad := len(snap) != 1 || len(pairs) != 1 || snap[0].RemoteID != "new-remote-id" || pairs[0].RemoteID != "new-remote-id"
	settle(t, "F-C08b2", bad, fmt.Sprintf("after UpdateRemoteMessageID(m, \"new-remote-id\") the mailbox still shows snapshot=%+v pairs=%+v", snap, pairs))
}

func knownC08bText(err error) bool { return strings.Contains(err.Error(), "no such table: id") }

// F-C08c: RemoveFlagFromMessages compares the flag name case-sensitively, flag sets are case-insensitive.
func TestKnown_F_C08c(t *testing.T) {
	e := newKnownEnv(t)
	r := plainReq(1, "Foo")

	e.mustWrite(func(ctx context.Context, tx db.Transaction) error { return tx.CreateMessages(ctx, r) })

	var got []db.MessageFlagSet

	err := e.write(func(ctx context.Context, tx db.Transaction) error {
		if err := tx.RemoveFlagFromMessages(ctx, []imap.InternalMessageID{r.InternalID}, "foo"); err != nil {
			return err
		}

		var err error
		got, err = tx.GetMessagesFlags(ctx, []imap.InternalMessageID{r.InternalID})

		return err
	})
	if err != nil {
		t.Fatalf("C08 violation: RemoveFlagFromMessages: %v", err)
	}

	settle(t, "F-C08c", len(got) != 1 || got[0].FlagSet.Len() != 0,
		fmt.Sprintf("message with flag \"Foo\": RemoveFlagFromMessages([m], \"foo\") leaves %q (flag sets are case-insensitive; state/updates.go selects the messages case-insensitively and passes the client's spelling)", got[0].FlagSet.ToSlice()))
}

// F-C08e: SetFlagsOnMessages with the empty flag set (what STORE FLAGS () needs) must clear the flags.
func TestKnown_F_C08e(t *testing.T) {
	e := newKnownEnv(t)
	r1, r2 := plainReq(1, "x", `\Seen`), plainReq(2, "y")

	e.mustWrite(func(ctx context.Context, tx db.Transaction) error { return tx.CreateMessages(ctx, r1, r2) })

	var got []db.MessageFlagSet

	err := e.write(func(ctx context.Context, tx db.Transaction) error {
		if err := tx.SetFlagsOnMessages(ctx, []imap.InternalMessageID{r1.InternalID, r2.InternalID}, imap.NewFlagSet()); err != nil {
			return err
		}

		var err error
		got, err = tx.GetMessagesFlags(ctx, []imap.InternalMessageID{r1.InternalID, r2.InternalID})

		return err
	})

	bad := err != nil || len(got) != 2

	for _, f := range got {
		if f.FlagSet.Len() != 0 {
			bad = true
		}
	}

	settle(t, "F-C08e", bad, fmt.Sprintf("SetFlagsOnMessages([m1 m2], {}) : error %v, flags afterwards %+v (want nil and no flags; the only caller skips the call for an empty set, so STORE FLAGS () leaves the old flags in the database)", err, got))
}

// F-C08d: Add(Perm)FlagsToAllMailboxes splice the flag names into the SQL text.
func TestKnown_F_C08d(t *testing.T) {
	reproduced := false

	var details []string

	for _, perm := range []bool{false, true} {
		e := newKnownEnv(t)

		var mbox *db.Mailbox

		e.mustWrite(func(ctx context.Context, tx db.Transaction) error {
			var err error
			mbox, err = tx.CreateMailbox(ctx, "L", "A", imap.NewFlagSet(), imap.NewFlagSet(), imap.NewFlagSet(), 1)

			return err
		})

		var got imap.FlagSet

		err := e.write(func(ctx context.Context, tx db.Transaction) error {
			var err error

			if perm {
				if err = tx.AddPermFlagsToAllMailboxes(ctx, "it's"); err != nil {
					return err
				}

				got, err = tx.GetMailboxPermanentFlags(ctx, mbox.ID)
			} else {
				if err = tx.AddFlagsToAllMailboxes(ctx, "it's"); err != nil {
					return err
				}

				got, err = tx.GetMailboxFlags(ctx, mbox.ID)
			}

			return err
		})

		if err != nil || !got.Contains("it's") || got.Len() != 1 {
			reproduced = true
		}

		details = append(details, fmt.Sprintf("perm=%v: error %v, flags afterwards %q", perm, err, got.ToSlice()))
	}

	settle(t, "F-C08d", reproduced, fmt.Sprintf("Add(Perm)FlagsToAllMailboxes(\"it's\") (' is a legal atom character): %v", details))
}
