package c08

import (
	"flag"
	"testing"

	"verif/internal/ev"
)

// Property C08: the SQLite message index (gluon's db.Client) behaves like a plain relational model.
//
// Files:
//   model_test.go    M-db, the reference model (plain Go maps), written from the meaning of the db interface
//   harness_test.go  opening the real client, comparison helpers, the full scan through every read method
//   gen_test.go      argument generators (ids that exist / do not exist, lists, flags, names)
//   rules_test.go    one rule per method of db.ReadOnly and db.Transaction (69 methods)
//   machine_test.go  TestStateMachine (small histories), TestBulk_<Method> (list lengths around the chunk limits)
//   known_test.go    deterministic regressions of the defects found (TestKnown_<id>)
//   zz_coverage_test.go  asserts that every method was called at least once in this run

const ruleText = "case contains a list argument > 1000 or an aborted transaction with >= 1 prior write"

func TestMain(m *testing.M) {
	// bound the time rapid spends minimising a failure: a defect that turns every test red must still end within the
	// driver's time budget (14 tests x 30 s default would not)
	flag.Parse()

	if f := flag.Lookup("rapid.shrinktime"); f != nil && f.Value.String() == "30s" {
		_ = f.Value.Set("12s")
	}

	ev.Main(m, "C08", "exploration", ruleText,
		"a write operation that returns an error ends its transaction (every caller in gluon propagates the error, which rolls back); "+
			"the state inside a transaction after a failed write is not judged",
		"arguments no caller in /repo ever passes and the interface does not define (non-existent mailbox id for the per-mailbox "+
			"tables, non-member / non-existent ids in write lists, DeleteMessages of a message that is still in a mailbox, "+
			"pairs whose remote id does not belong to the internal id, empty flag lists for Add*FlagsToAllMailboxes) "+
			"are either not generated or judged leniently: an error is accepted, silent corruption is not",
		"migration from old schema versions is out of scope")
}
