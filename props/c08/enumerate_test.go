package c08

import (
	"reflect"
	"sort"
	"testing"

	"github.com/ProtonMail/gluon/db"
)

// TestInterfaceEnumerated: the rule table covers exactly the method set of db.Transaction (which embeds db.ReadOnly).
func TestInterfaceEnumerated(t *testing.T) {
	typ := reflect.TypeOf((*db.Transaction)(nil)).Elem()
	inIface := map[string]bool{}

	for i := 0; i < typ.NumMethod(); i++ {
		inIface[typ.Method(i).Name] = true
	}

	ro := reflect.TypeOf((*db.ReadOnly)(nil)).Elem()
	for i := 0; i < ro.NumMethod(); i++ {
		if !inIface[ro.Method(i).Name] {
			t.Errorf("db.ReadOnly method %s is not part of db.Transaction", ro.Method(i).Name)
		}
	}

	listed := map[string]bool{}
	for _, m := range interfaceMethods {
		listed[m] = true
	}

	var problems []string

	for m := range inIface {
		if !listed[m] {
			problems = append(problems, "interface method without rule: "+m)
		}
	}

	for m := range listed {
		if !inIface[m] {
			problems = append(problems, "listed method not in the interface: "+m)
		}
	}

	for _, m := range interfaceMethods {
		r, ok := ruleByName[m]
		if !ok {
			problems = append(problems, "no rule for "+m)
			continue
		}

		if _, isRead := ro.MethodByName(m); isRead == r.write {
			problems = append(problems, "rule "+m+": read/write classification differs from the interface")
		}
	}

	if len(rules) != len(interfaceMethods) {
		problems = append(problems, "rule count differs from method count")
	}

	sort.Strings(problems)

	for _, p := range problems {
		t.Error(p)
	}
}
