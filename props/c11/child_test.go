package c11

import (
	"bufio"
	"bytes"
	"context"
	"fmt"
	"os"
	"os/exec"
	"path/filepath"
	"runtime/debug"
	"strings"
	"testing"
	"time"
)

// Deep nesting can kill the process in a way recover() cannot catch (stack exhaustion is a fatal error), and a loop
// that spins without reading cannot be stopped in-process. Such inputs run in a child: this test binary re-executed
// with -test.run=^TestChildLoop$. The child appends "START <hash>" to a journal before it parses the input and
// "DONE <hash> <verdict>" afterwards, so a crash is attributed to its input and becomes a test failure of the parent.
const (
	childEnvInput   = "C11_CHILD_INPUT"   // input file
	childEnvJournal = "C11_CHILD_JOURNAL" // journal path
	childEnvServer  = "C11_CHILD_SERVER"  // (wire_child_test.go) file to which the child server writes its address
)

const childMaxStack = 16 << 20

func journalAppend(path, line string) {
	f, err := os.OpenFile(path, os.O_APPEND|os.O_CREATE|os.O_WRONLY|os.O_SYNC, 0o644)
	if err != nil {
		fmt.Fprintf(os.Stderr, "journal: %v\n", err)
		os.Exit(4)
	}

	_, _ = f.WriteString(line + "\n")
	_ = f.Close()
}

// TestChildLoop is the child side. Without the environment it does nothing.
func TestChildLoop(t *testing.T) {
	in, journal := os.Getenv(childEnvInput), os.Getenv(childEnvJournal)
	if in == "" || journal == "" {
		t.Skip("child mode only")
	}

	b, err := os.ReadFile(in)
	if err != nil {
		t.Fatalf("child: %v", err)
	}

	h := fmt.Sprintf("%016x", hashBytes(b))
	journalAppend(journal, "START "+h)

	// The parsers bound their recursion by a nesting limit, so no input needs a large stack. With the runtime's default
	// of 1 GB an unbounded recursion only shows on inputs of many megabytes; with this cap it shows at some ten thousand
	// levels ("grows without bound" is the clause, the stack is the resource).
	debug.SetMaxStack(childMaxStack)

	res := runLoop(b, loopOpts{})

	end := 0
	if n := len(res.Iters); n > 0 {
		end = res.Iters[n-1].End
	}

	acc := 0

	for _, it := range res.Iters {
		if it.Accepted {
			acc++
		}
	}

	status := "ok"
	if res.Exit == exitPanic {
		status = "panic"
	}

	journalAppend(journal, fmt.Sprintf("DONE %s %s exit=%s iters=%d accepted=%d end=%d alloc=%d posteof=%d err=%q panic=%q", h, status, res.Exit, len(res.Iters), acc, end, res.Alloc,
		res.PostEOFReads, res.ExitErr, strings.ReplaceAll(truncate(res.Panic, 2000), "\n", " | ")))
}

func truncate(s string, n int) string {
	if len(s) <= n {
		return s
	}

	return s[:n] + "..."
}

type childVerdict struct {
	status   string // ok | panic | crash | timeout | not-run
	detail   string
	elapsed  time.Duration
	exit     string
	iters    int
	accepted int
	end      int
	alloc    uint64
}

// runChildLoop runs the loop over one input in a child process with a time budget.
func runChildLoop(input []byte, d time.Duration) childVerdict {
	dir, err := os.MkdirTemp("", "c11-child-")
	if err != nil {
		return childVerdict{status: "not-run", detail: err.Error()}
	}

	defer os.RemoveAll(dir)

	inPath, journal := filepath.Join(dir, "input"), filepath.Join(dir, "journal")
	if err := os.WriteFile(inPath, input, 0o644); err != nil {
		return childVerdict{status: "not-run", detail: err.Error()}
	}

	ctx, cancel := context.WithTimeout(context.Background(), d)
	defer cancel()

	cmd := exec.CommandContext(ctx, os.Args[0], "-test.run=^TestChildLoop$", "-test.count=1", "-test.timeout=0")
	cmd.Env = append(os.Environ(), childEnvInput+"="+inPath, childEnvJournal+"="+journal, "VERIF_PARTS_DIR=")

	var out bytes.Buffer

	cmd.Stdout, cmd.Stderr = &out, &out
	start := time.Now()
	runErr := cmd.Run()

	v := childVerdict{status: "not-run", elapsed: time.Since(start), detail: truncate(out.String(), 2000)}
	h := fmt.Sprintf("%016x", hashBytes(input))
	started := false

	if jf, err := os.Open(journal); err == nil {
		sc := bufio.NewScanner(jf)
		sc.Buffer(make([]byte, 1<<20), 1<<24)

		for sc.Scan() {
			f := strings.SplitN(sc.Text(), " ", 4)
			if len(f) < 2 || f[1] != h {
				continue
			}

			switch f[0] {
			case "START":
				started = true
			case "DONE":
				if len(f) == 4 {
					v.status, v.detail = f[2], f[3]
					_, _ = fmt.Sscanf(f[3], "exit=%s iters=%d accepted=%d end=%d alloc=%d", &v.exit, &v.iters, &v.accepted, &v.end, &v.alloc)
				}
			}
		}

		jf.Close()
	}

	if v.status == "not-run" && started {
		if ctx.Err() != nil {
			v.status, v.detail = "timeout", fmt.Sprintf("killed after %v", d)
		} else if strings.Contains(fmt.Sprint(runErr), "signal: killed") || strings.Contains(out.String(), "out of memory") || strings.Contains(out.String(), "cannot allocate memory") {
			// killed from outside (memory pressure on a shared machine): says nothing about the input
			v.status, v.detail = "not-run", fmt.Sprintf("child killed (%v): %s", runErr, truncate(out.String(), 500))
		} else {
			v.status = "crash"
			v.detail = fmt.Sprintf("child died (%v) while running the loop on this input; output:\n%s", runErr, crashSummary(out.String()))
		}
	}

	return v
}

// crashSummary keeps the lines that say why the runtime gave up.
func crashSummary(out string) string {
	var keep []string

	lines := strings.Split(out, "\n")
	for i, l := range lines {
		if strings.HasPrefix(l, "fatal error:") || strings.HasPrefix(l, "runtime:") || strings.HasPrefix(l, "panic:") || strings.Contains(l, "goroutine stack exceeds") {
			keep = append(keep, l)
		}

		if strings.HasPrefix(l, "goroutine ") && strings.Contains(l, "[running]") && i+14 < len(lines) {
			keep = append(keep, lines[i:i+14]...)
			break
		}
	}

	if len(keep) == 0 {
		return truncate(out, 3000)
	}

	// not at line start, so that the driver does not mistake the quoted child output for a crash of this binary
	return "  | " + strings.Join(keep, "\n  | ")
}
