package c11

import (
	"bufio"
	"bytes"
	"errors"
	"fmt"
	"hash/fnv"
	"io"
	"os"
	"path/filepath"
	"runtime"
	"runtime/debug"
	"strings"
	"time"

	"github.com/ProtonMail/gluon/imap/command"
	"github.com/ProtonMail/gluon/rfcparser"
)

// ---------------------------------------------------------------------------------------------------------------------
// The loop of internal/session/command.go startCommandReader, line by line, over a reader that ends at a given point.
// Wiring as in session.New: connection -> bufio.Reader -> command.InputCollector -> rfcparser.Scanner ->
// command.NewParserWithLiteralContinuationCb. What the session goroutine does with each result is recorded instead
// of sent: an error becomes `response.Bad(res.command.Tag)`, a command is dispatched under `res.command.Tag`.
// ---------------------------------------------------------------------------------------------------------------------

// how the loop ended
const (
	exitEOFToken   = "eof-token"      // parserError.IsEOF()
	exitConsumeEOF = "consume-eof"    // ConsumeInvalidInput returned an error (end of stream while skipping the line)
	exitNonParser  = "non-parser-err" // Parse returned an error that is not *rfcparser.Error: the session is dropped
	exitTLS        = "tls-header"     // the TLS handshake detection
	exitPanic      = "panic"
	exitSpin       = "spin"  // kept reading after the end of the stream (see endReader)
	exitAbort      = "abort" // stopped by the watchdog
	exitIterCap    = "iteration-cap"
)

type iteration struct {
	Start, End int    // the bytes input[Start:End] were taken from the connection during this Parse (+ line skip)
	Accepted   bool   // Parse returned no error
	Tag        string // command.Tag as handed to the session goroutine (the tag of the BAD / of the command's result)
	ParsedTag  string // parser.LastParsedTag()
	Cmd        string // parser.LastParsedCommand()
	Err        string
	Payload    command.Payload
	Conts      int // continuation requests issued during this iteration
}

type loopResult struct {
	Iters        []iteration
	Exit         string
	ExitErr      string
	Panic        string
	Consumed     int // bytes taken from the reader
	PostEOFReads int
	Alloc        uint64 // bytes allocated (TotalAlloc delta) by the loop
	Elapsed      time.Duration
	Mismatch     string // the input collector's bytes differ from the stream (harness self-check)
	// set when the loop was unwound (spin / abort / panic): the Parse call in flight had consumed input[InFlightStart:InFlightStart+len(InFlight)]
	InFlightStart int
	InFlight      []byte
}

type spinSentinel struct{}
type abortSentinel struct{}

// endReader hands out data in chunks and then reports the end of the stream. A terminating loop asks at most a few
// times after it has been told that the stream is over; a loop that asks spinLimit times more is spinning. That is a
// deterministic verdict (no clock involved); the reader then unwinds the goroutine with a panic so that the spin does
// not outlive the case.
type endReader struct {
	data      []byte
	pos       int
	sizes     []int
	turn      int
	postEOF   int
	spinLimit int
	abort     *bool
}

func (r *endReader) Read(p []byte) (int, error) {
	if r.abort != nil && *r.abort {
		panic(abortSentinel{})
	}

	if r.pos >= len(r.data) {
		r.postEOF++
		if r.postEOF > r.spinLimit {
			panic(spinSentinel{})
		}

		return 0, io.EOF
	}

	n := 0
	if len(r.sizes) > 0 {
		n = r.sizes[r.turn%len(r.sizes)]
		r.turn++
	}

	if n <= 0 || n > len(r.data)-r.pos {
		n = len(r.data) - r.pos
	}

	if n > len(p) {
		n = len(p)
	}

	copy(p, r.data[r.pos:r.pos+n])
	r.pos += n

	return n, nil
}

type loopOpts struct {
	sizes     []int // chunk sizes handed out by the connection (cycled; 0 = all that is left)
	spinLimit int   // default 1000
	keep      bool  // keep payloads
	maxIters  int   // 0 = len(input)+16 (every iteration but the last consumes >= 1 byte)
	abort     *bool
	noMem     bool
}

var tlsHeaders = [][]byte{
	{0x16, 0x03, 0x01}, {0x16, 0x03, 0x02}, {0x16, 0x03, 0x03}, {0x16, 0x03, 0x04}, {0x16, 0x00, 0x00},
}

// runLoop is startCommandReader. It must be called on a goroutine of its own if a watchdog is wanted.
func runLoop(input []byte, o loopOpts) (res loopResult) {
	if o.spinLimit == 0 {
		o.spinLimit = 1000
	}

	if o.maxIters == 0 {
		o.maxIters = len(input) + 16
	}

	var m0, m1 runtime.MemStats

	if !o.noMem {
		runtime.ReadMemStats(&m0)
	}

	start := time.Now()

	r := &endReader{data: input, sizes: o.sizes, spinLimit: o.spinLimit, abort: o.abort}
	collector := command.NewInputCollector(bufio.NewReader(r))
	scanner := rfcparser.NewScannerWithReader(collector)

	conts := 0
	parser := command.NewParserWithLiteralContinuationCb(scanner, func() error {
		conts++
		return nil
	})

	offset := 0

	defer func() {
		if x := recover(); x != nil {
			res.InFlightStart = offset
			res.InFlight = append([]byte(nil), collector.Bytes()...)

			switch x.(type) {
			case spinSentinel:
				res.Exit = exitSpin
			case abortSentinel:
				res.Exit = exitAbort
			default:
				res.Exit = exitPanic
				res.Panic = fmt.Sprintf("%v\n%s", x, debug.Stack())
			}
		}

		res.Consumed = r.pos
		res.PostEOFReads = r.postEOF
		res.Elapsed = time.Since(start)

		if !o.noMem {
			runtime.ReadMemStats(&m1)
			res.Alloc = m1.TotalAlloc - m0.TotalAlloc
		}
	}()

	for n := 0; ; n++ {
		if n >= o.maxIters {
			res.Exit = exitIterCap
			return res
		}

		collector.Reset()

		conts = 0

		cmd, err := parser.Parse()

		it := iteration{Start: offset, Accepted: err == nil, Tag: cmd.Tag, ParsedTag: parser.LastParsedTag(), Cmd: parser.LastParsedCommand()}
		if o.keep {
			it.Payload = cmd.Payload
		}

		finish := func() {
			b := collector.Bytes()
			it.End = offset + len(b)
			it.Conts = conts

			if it.End > len(input) || !bytes.Equal(b, input[offset:it.End]) {
				if res.Mismatch == "" {
					res.Mismatch = fmt.Sprintf("iteration %d: the collector holds %d bytes that are not input[%d:%d]", n, len(b), offset, it.End)
				}

				it.End = min(it.End, len(input))
			}

			offset = it.End
			res.Iters = append(res.Iters, it)
		}

		if err != nil {
			it.Err = err.Error()

			var parserError *rfcparser.Error
			if !errors.As(err, &parserError) {
				finish()

				res.Exit, res.ExitErr = exitNonParser, err.Error()

				return res
			}

			if parserError.IsEOF() {
				finish()

				res.Exit, res.ExitErr = exitEOFToken, err.Error()

				return res
			}

			if err := parser.ConsumeInvalidInput(); err != nil {
				finish()

				res.Exit, res.ExitErr = exitConsumeEOF, err.Error()

				return res
			}

			for _, h := range tlsHeaders {
				if bytes.HasPrefix(collector.Bytes(), h) {
					finish()

					res.Exit = exitTLS

					return res
				}
			}
		}

		// (*command.StartTLS is answered by the reader goroutine itself; for the loop it is a command like any other)
		finish()
	}
}

// runLoopWatched runs the loop on its own goroutine with a wall-clock watchdog (for loops that spin without reading).
// timedOut: the budget passed; the loop was asked to stop at its next read and given a second to do so.
func runLoopWatched(input []byte, o loopOpts, budget time.Duration) (res loopResult, timedOut bool) {
	abort := false
	o.abort = &abort
	done := make(chan loopResult, 1)

	go func() { done <- runLoop(input, o) }()

	select {
	case res = <-done:
		return res, false
	case <-time.After(budget):
	}

	abort = true //nolint (a racy flag is good enough to stop a runaway loop)

	select {
	case res = <-done:
	case <-time.After(2 * time.Second):
		res.Exit = exitAbort
	}

	return res, true
}

func loopBudget(n int) time.Duration {
	return 30*time.Second + time.Duration(n/(256<<10))*time.Second
}

// ---------------------------------------------------------------------------------------------------------------------
// helpers
// ---------------------------------------------------------------------------------------------------------------------

func hashBytes(b []byte) uint64 {
	h := fnv.New64a()
	_, _ = h.Write(b)

	return h.Sum64()
}

// escaped writes bytes the way a Go string literal would (printable ASCII kept), truncated to max bytes of input.
func escaped(b []byte, max int) string {
	var sb strings.Builder

	n := len(b)
	if max > 0 && n > max {
		n = max
	}

	for _, c := range b[:n] {
		switch {
		case c == '\r':
			sb.WriteString(`\r`)
		case c == '\n':
			sb.WriteString(`\n`)
		case c == '\t':
			sb.WriteString(`\t`)
		case c == '\\':
			sb.WriteString(`\\`)
		case c == '"':
			sb.WriteString(`\"`)
		case c >= 0x20 && c < 0x7f:
			sb.WriteByte(c)
		default:
			fmt.Fprintf(&sb, `\x%02x`, c)
		}
	}

	if n < len(b) {
		fmt.Fprintf(&sb, "...(+%d bytes)", len(b)-n)
	}

	return sb.String()
}

// runs summarises long inputs: "(" x 1000000 instead of a megabyte of parentheses.
func summarise(b []byte) string {
	if len(b) <= 600 {
		return escaped(b, 0)
	}

	return escaped(b[:300], 0) + fmt.Sprintf(" ...(%d bytes)... ", len(b)-400) + escaped(b[len(b)-100:], 0)
}

func saveFound(b []byte, label string) string {
	p := filepath.Join(foundDir(), fmt.Sprintf("%s-%016x.bin", label, hashBytes(b)))
	_ = os.WriteFile(p, b, 0o644)

	return p
}

func min(a, b int) int {
	if a < b {
		return a
	}

	return b
}

func max(a, b int) int {
	if a > b {
		return a
	}

	return b
}
