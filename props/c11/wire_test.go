package c11

import (
	"bufio"
	"bytes"
	"errors"
	"fmt"
	"io"
	"net"
	"os"
	"reflect"
	"regexp"
	"runtime"
	"strconv"
	"strings"
	"sync"
	"testing"
	"time"
	"unicode/utf8"

	"github.com/ProtonMail/gluon/events"
	"github.com/ProtonMail/gluon/imap/command"
	"pgregory.net/rapid"

	"verif/internal/bed"
	"verif/internal/ev"
	"verif/internal/imapc"
	"verif/internal/kf"
)

// ---------------------------------------------------------------------------------------------------------------------
// Layer B: drawn streams on raw TCP connections to a real server (internal/bed: in-process, loopback TCP, recording
// panic handler).
//
// What a "complete command line" is on the wire (see also the assumptions given to ev.Main):
//   - a CRLF-terminated line of the line-accountable class, or a well-formed command together with its literals
//     (one `+` continuation request per literal, then one tagged completion);
//   - an accepted IDLE (authenticated) is answered by `+`; the line that follows it - whatever it is - ends the IDLE
//     and the pair gets one completion carrying the IDLE's tag (OK for DONE; BAD / NO otherwise, handle_idle.go);
//   - STARTTLS (no TLS configured: NO) is answered by the reader goroutine, also while an IDLE is pending;
//   - LOGOUT is answered by BYE + tagged OK and the connection is closed;
//   - internal/session/session.go maxSessionError = 20: after 20 consecutive lines rejected by the parser the session
//     is closed (after the 20th BAD). A command the parser accepts resets the count (whatever its own result is).
// ---------------------------------------------------------------------------------------------------------------------

const maxSessionError = 20 // internal/session/session.go

const (
	wireUser = "verif-c11-user"
	wirePass = "verif-c11-secret-password"
)

var wireWatchdog = 15 * time.Second

type completion struct {
	Tag    string
	Status string
	Text   string
	Raw    string
}

type expectation struct {
	Unit   int
	Tag    string
	HasTag bool
	What   string
}

type connPlan struct {
	Auth    string // none | auth | selected
	S       *stream
	Send    []byte
	HeadLen int // not Full, not Closes: the accountable head Send[:HeadLen] is sent and answered before the rest goes out
	Expects []expectation
	Conts   int
	Full    bool   // the whole stream is accountable and leaves the session open: DONE (if idling) + probe follow
	Closes  string // "" | logout | error-limit
	IdleTag string // an IDLE is pending at the end of the accountable part
	IdleHas bool   // ... and its line starts with a valid tag
	Abrupt  string // fin | rst (how the client ends a connection that is not Full)
	Linger  bool
	Chunks  []int
	Labels  []string
	Rejects int
	Accepts int
}

type connResult struct {
	Transcript  []string
	Completions []completion
	Conts       int
	Bye         bool
	Closed      bool // the server closed the connection
	TimedOut    string
	Violation   string
	ProbeOK     bool
}

// classify one unit with the parser (the same code the server runs): accepted or rejected, and as what.
func classifyUnit(b []byte) (accepted bool, payload command.Payload) {
	res := runLoop(b, loopOpts{keep: true, noMem: true, spinLimit: 50})
	if len(res.Iters) == 0 {
		return false, nil
	}

	return res.Iters[0].Accepted, res.Iters[0].Payload
}

// buildPlan derives what the server owes for the stream.
func buildPlan(x *gen, s *stream, auth string) *connPlan {
	p := &connPlan{Auth: auth, S: s}
	input := s.bytes()
	authed := auth != "none"
	off, errs := 0, 0
	idlePending := false
	complete := true

	for i, u := range s.Units {
		b := off + len(u.B)
		if !u.Accountable || b > len(input) {
			complete = false
			break
		}

		off = b
		accepted, payload := classifyUnit(u.B)

		if u.Kind == unitValid {
			p.Conts += u.Literals
		}

		if _, tls := payload.(*command.StartTLS); tls && accepted {
			// STARTTLS is answered by the reader goroutine itself (session/command.go): it never reaches the session
			// goroutine, so it neither ends a pending IDLE nor touches the error count.
			p.Accepts++
			p.Expects = append(p.Expects, expectation{Unit: i, Tag: u.Tag, HasTag: u.HasTag, What: "NO (TLS is unavailable)"})

			continue
		}

		if idlePending {
			// this line ends the IDLE: one completion for the pair, with the IDLE's tag
			idlePending = false
			p.Expects = append(p.Expects, expectation{Unit: i, Tag: p.IdleTag, HasTag: p.IdleHas, What: "the completion of IDLE, ended by this line"})
			p.IdleTag = ""

			continue
		}

		if !accepted && hasTLSHeader(u.B) {
			// documented: "TLS Handshake detected while not running with TLS/SSL" - the reader returns, no response
			complete = false
			off -= len(u.B)

			break
		}

		if !accepted {
			p.Rejects++
			errs++
			p.Expects = append(p.Expects, expectation{Unit: i, Tag: u.Tag, HasTag: u.HasTag, What: "BAD"})

			if errs >= maxSessionError {
				p.Closes = "error-limit"
				break
			}

			continue
		}

		p.Accepts++
		errs = 0

		switch pl := payload.(type) {
		case *command.Logout:
			p.Expects = append(p.Expects, expectation{Unit: i, Tag: u.Tag, HasTag: u.HasTag, What: "BYE + OK"})
			p.Closes = "logout"
		case *command.Idle:
			if authed {
				idlePending = true
				p.IdleTag, p.IdleHas = u.Tag, u.HasTag
				p.Conts++
			} else {
				p.Expects = append(p.Expects, expectation{Unit: i, Tag: u.Tag, HasTag: u.HasTag, What: "NO (not authenticated)"})
			}
		case *command.Login:
			if pl.UserID == wireUser && pl.Password == wirePass {
				authed = true
			}

			p.Expects = append(p.Expects, expectation{Unit: i, Tag: u.Tag, HasTag: u.HasTag, What: "completion"})
		default:
			p.Expects = append(p.Expects, expectation{Unit: i, Tag: u.Tag, HasTag: u.HasTag, What: "completion"})
		}

		if p.Closes != "" {
			break
		}
	}

	switch {
	case p.Closes != "":
		p.Send = input[:off]
	case complete && off == len(input):
		p.Full = true
		p.Send = append([]byte(nil), input...)

		if idlePending {
			p.Send = append(p.Send, "DONE\r\n"...)
			p.Expects = append(p.Expects, expectation{Unit: -1, Tag: p.IdleTag, HasTag: p.IdleHas, What: "OK IDLE (DONE sent by the harness)"})
		}

		p.Send = append(p.Send, "ZZ9PROBE0 NOOP\r\n"...)
	default:
		// The accountable head goes out first and is answered before the damaged rest follows: what the rest makes the
		// server do (20 errors, LOGOUT: close) must not race with the answers to the head - a server that closes with
		// unread input resets the connection, and a reset may destroy responses the client has not read yet.
		p.Send = input
		p.HeadLen = min(off, len(input))
		p.Abrupt = pickOf(x, "abrupt", []string{"fin", "rst"})

		// F-C11a (while listed): a reset may discard what the server has not read yet, so the server can see any
		// prefix of the stream - also one that ends inside a quoted string. Streams with a '"' end with FIN only.
		if p.Abrupt == "rst" && kf.Listed(kfQuotedEOF) && bytes.IndexByte(input, '"') >= 0 {
			p.Abrupt = "fin"
			x.excluded++
		}
		p.Linger = x.chance("linger", 1, 2)
	}

	p.Chunks = chunkSizes(x.t)

	return p
}

func hasTLSHeader(b []byte) bool {
	for _, h := range tlsHeaders {
		if bytes.HasPrefix(b, h) {
			return true
		}
	}

	return false
}

// payloadStrings collects the string values of a parsed command.
func payloadStrings(p command.Payload) []string {
	var out []string

	var walk func(v reflect.Value, depth int)
	walk = func(v reflect.Value, depth int) {
		if !v.IsValid() || depth > 200 {
			return
		}

		switch v.Kind() {
		case reflect.String:
			out = append(out, v.String())
		case reflect.Ptr, reflect.Interface:
			if !v.IsNil() {
				walk(v.Elem(), depth+1)
			}
		case reflect.Struct:
			for i := 0; i < v.NumField(); i++ {
				walk(v.Field(i), depth+1)
			}
		case reflect.Slice:
			if v.Type().Elem().Kind() == reflect.Uint8 {
				return
			}

			for i := 0; i < v.Len(); i++ {
				walk(v.Index(i), depth+1)
			}
		}
	}

	walk(reflect.ValueOf(p), 0)

	return out
}

func isFetch(p command.Payload) bool {
	switch x := p.(type) {
	case *command.Fetch:
		return true
	case *command.UID:
		return isFetch(x.Command)
	}

	return false
}

// wireAvoid tells why a command must not reach the in-process server: (kf id or "C13", reason), "" if it may.
func wireAvoid(p command.Payload) (string, bool) {
	switch x := p.(type) {
	case *command.StartTLS:
		// F-C11c: STARTTLS without TLS ends the connection without a response
		return kfStartTLS, kf.Listed(kfStartTLS)
	case *command.List:
		// F-C11h: invalid UTF-8 in the reference / pattern panics in regexp.MustCompile (state/match.go)
		return kfListUTF8, kf.Listed(kfListUTF8) && !utf8.ValidString(x.Mailbox+x.ListMailbox)
	case *command.LSub:
		return kfListUTF8, kf.Listed(kfListUTF8) && !utf8.ValidString(x.Mailbox+x.LSubMailbox)
	}

	if isFetch(p) {
		// Not a C11 matter (response framing, C13): FETCH echoes the header field names of a section as they are; with
		// CR / LF in a name the response cannot be split into lines by any client, the harness reader included.
		for _, s := range payloadStrings(p) {
			if strings.ContainsAny(s, "\r\n") {
				return "C13-echo", true
			}
		}
	}

	return "", false
}

// sanitizeWire rewrites what the wire layer cannot send to its in-process server while a finding is listed: the
// stream is read as the server will read it (layer A's loop), and the unit in which an offending command starts is
// replaced by a NOOP.
func sanitizeWire(x *gen, s *stream) {
	for i, u := range s.Units {
		if u.Kind == unitBigLit && kf.Listed(kfLiteralSize) {
			s.Units[i] = noopUnit(fmt.Sprintf("st%d", i))
			x.excluded++
		}
	}

	for round := 0; round < 12; round++ {
		res := runLoop(s.bytes(), loopOpts{keep: true, noMem: true, spinLimit: 50})
		hit := -1

		for _, it := range res.Iters {
			if !it.Accepted {
				continue
			}

			if _, avoid := wireAvoid(it.Payload); avoid {
				hit = it.Start
				break
			}
		}

		if hit < 0 {
			return
		}

		off := 0

		for i, u := range s.Units {
			if hit < off+len(u.B) {
				s.Units[i] = noopUnit(fmt.Sprintf("st%d", i))
				x.excluded++

				break
			}

			off += len(u.B)
		}
	}
}

func noopUnit(tag string) unit {
	return unit{B: []byte(tag + " NOOP\r\n"), Kind: unitValid, Label: "valid", Cmd: command.Command{Tag: tag, Payload: &command.Noop{}}, Accountable: true, Tag: tag, HasTag: true}
}

// ---------------------------------------------------------------------------------------------------------------------
// raw client
// ---------------------------------------------------------------------------------------------------------------------

var litTail = regexp.MustCompile(`\{(\d+)\}\r\n$`)

type rawConn struct {
	c   net.Conn
	r   *bufio.Reader
	log []string
}

func dialRaw(addr string) (*rawConn, error) {
	c, err := net.DialTimeout("tcp", addr, 10*time.Second)
	if err != nil {
		return nil, err
	}

	return &rawConn{c: c, r: bufio.NewReaderSize(c, 1<<16)}, nil
}

var errWatchdog = errors.New("watchdog")

// next reads one response (a line, with the data of the literals it announces).
func (rc *rawConn) next(d time.Duration) (string, error) {
	_ = rc.c.SetReadDeadline(time.Now().Add(d))

	var sb strings.Builder

	for {
		line, err := rc.r.ReadString('\n')
		sb.WriteString(line)

		if err != nil {
			var ne net.Error
			if errors.As(err, &ne) && ne.Timeout() {
				return sb.String(), errWatchdog
			}

			return sb.String(), err
		}

		m := litTail.FindStringSubmatch(line)
		if m == nil {
			break
		}

		n, _ := strconv.Atoi(m[1])
		buf := make([]byte, n)

		if _, err := io.ReadFull(rc.r, buf); err != nil {
			return sb.String(), err
		}

		sb.Write(buf)
	}

	s := sb.String()
	rc.log = append(rc.log, "S: "+escaped([]byte(s), 200))

	return s, nil
}

func parseCompletion(resp string) (completion, bool) {
	line := strings.TrimRight(resp, "\r\n")

	sp := strings.IndexByte(line, ' ')
	if sp < 0 {
		return completion{}, false
	}

	tag, rest := line[:sp], line[sp+1:]
	status, text, _ := strings.Cut(rest, " ")

	switch status {
	case "OK", "NO", "BAD":
		return completion{Tag: tag, Status: status, Text: text, Raw: line}, true
	}

	return completion{}, false
}

func (rc *rawConn) write(b []byte, chunks []int) {
	turn := 0

	for len(b) > 0 {
		n := 0
		if len(chunks) > 0 {
			n = chunks[turn%len(chunks)]
			turn++
		}

		if n <= 0 || n > len(b) {
			n = len(b)
		}

		// byte-sized chunks only for the first kilobyte (one syscall per chunk)
		if n < 64 && len(b) > 1024 {
			n = len(b)
		}

		_ = rc.c.SetWriteDeadline(time.Now().Add(wireWatchdog))

		if _, err := rc.c.Write(b[:n]); err != nil {
			return // the server has closed: the reader sees it
		}

		b = b[n:]
	}
}

// cmd sends one harness command and waits for its tagged completion.
func (rc *rawConn) cmd(tag, text string, budget time.Duration) (completion, error) {
	rc.log = append(rc.log, "C: "+tag+" "+text)

	if _, err := rc.c.Write([]byte(tag + " " + text + "\r\n")); err != nil {
		return completion{}, err
	}

	for {
		resp, err := rc.next(budget)
		if err != nil {
			return completion{}, err
		}

		if c, ok := parseCompletion(resp); ok && c.Tag == tag {
			return c, nil
		}
	}
}

// runConn plays one plan against the server.
func runConn(addr string, p *connPlan, budget time.Duration) (res connResult) {
	rc, err := dialRaw(addr)
	if err != nil {
		res.TimedOut = "dial: " + err.Error()
		return res
	}

	defer func() {
		res.Transcript = rc.log
		_ = rc.c.Close()
	}()

	if g, err := rc.next(budget); err != nil || !strings.HasPrefix(g, "* OK") {
		res.TimedOut = fmt.Sprintf("greeting: %q %v", g, err)
		return res
	}

	if p.Auth != "none" {
		if c, err := rc.cmd("H1", fmt.Sprintf("LOGIN %s %s", wireUser, wirePass), budget); err != nil || c.Status != "OK" {
			res.TimedOut = fmt.Sprintf("harness LOGIN: %+v %v", c, err)
			return res
		}
	}

	if p.Auth == "selected" {
		if c, err := rc.cmd("H2", "SELECT INBOX", budget); err != nil || c.Status != "OK" {
			res.TimedOut = fmt.Sprintf("harness SELECT: %+v %v", c, err)
			return res
		}
	}

	first, rest := p.Send, []byte(nil)
	if !p.Full && p.Closes == "" {
		first, rest = p.Send[:p.HeadLen], p.Send[p.HeadLen:]
	}

	rc.log = append(rc.log, fmt.Sprintf("C: (%d bytes, chunks %v) %s", len(first), p.Chunks, summarise(first)))

	var wg sync.WaitGroup

	send := func(b []byte) {
		wg.Add(1)

		go func() {
			defer wg.Done()

			rc.write(b, p.Chunks)
		}()
	}

	send(first)

	defer wg.Wait()

	closedErr := func(err error) bool {
		return errors.Is(err, io.EOF) || strings.Contains(err.Error(), "reset by peer") || strings.Contains(err.Error(), "broken pipe")
	}

	lenient := false // behind the accountable head of a stream the responses may echo the damage: not judged

	// read responses until cond says stop
	read := func(stop func() bool, d time.Duration) {
		for !stop() {
			resp, err := rc.next(d)
			if err != nil {
				if err == errWatchdog {
					res.TimedOut = fmt.Sprintf("no response within %v (after %d completions, %d continuation requests)", d, len(res.Completions), res.Conts)
				} else if closedErr(err) {
					res.Closed = true
				} else {
					res.TimedOut = "read: " + err.Error()
				}

				return
			}

			switch {
			case strings.HasPrefix(resp, "+ ") || strings.HasPrefix(resp, "+\r"):
				res.Conts++
			case strings.HasPrefix(resp, "* "):
				if strings.HasPrefix(resp, "* BYE") {
					res.Bye = true
				}
			default:
				c, ok := parseCompletion(resp)
				if !ok && lenient {
					continue
				}

				if !ok {
					res.Violation = fmt.Sprintf("the server sent a line that is neither an untagged response, a continuation request nor a completion: %s", escaped([]byte(resp), 300))
					return
				}

				if c.Tag == "ZZ9PROBE0" {
					res.ProbeOK = c.Status == "OK"
					if !res.ProbeOK {
						res.Violation = fmt.Sprintf("usability: the well-formed `ZZ9PROBE0 NOOP` behind the stream is answered %q", c.Raw)
					}

					return
				}

				res.Completions = append(res.Completions, c)
			}
		}
	}

	switch {
	case p.Full:
		read(func() bool { return false }, budget) // until the probe's completion (or the end of the connection)

		if res.TimedOut == "" && res.Violation == "" && !res.ProbeOK {
			res.Violation = "usability: the server closed the connection; the stream has neither LOGOUT nor 20 consecutive rejected lines, and `ZZ9PROBE0 NOOP` was not answered"
		}
	case p.Closes != "":
		read(func() bool { return len(res.Completions) >= len(p.Expects) }, budget)

		if res.TimedOut == "" && res.Violation == "" && !res.Closed {
			// the session must be closed now: a probe is either not answered (end of connection) or the limit is not enforced
			rc.log = append(rc.log, "C: ZZ9PROBE0 NOOP")
			_, _ = rc.c.Write([]byte("ZZ9PROBE0 NOOP\r\n"))

			read(func() bool { return false }, budget)

			if res.ProbeOK {
				if p.Closes == "logout" {
					res.Violation = "the session is still answering after LOGOUT was completed"
				} else {
					res.Violation = fmt.Sprintf("the session is still answering after %d consecutive lines rejected by the parser (internal/session maxSessionError = %d: the session is closed)", maxSessionError, maxSessionError)
				}
			}
		}
	default:
		// the accountable head of the stream must be answered; then the rest goes out and the client goes away mid-stream
		read(func() bool { return len(res.Completions) >= len(p.Expects) }, budget)

		if res.TimedOut == "" && !res.Closed && res.Violation == "" && len(rest) > 0 {
			wg.Wait()

			rc.log = append(rc.log, fmt.Sprintf("C: (%d bytes) %s", len(rest), summarise(rest)))

			send(rest)
		}

		if p.Linger && res.TimedOut == "" && !res.Closed && res.Violation == "" {
			n := len(res.Completions)
			lenient = true

			read(func() bool { return false }, 30*time.Millisecond)

			res.Completions = res.Completions[:n] // what follows the accountable head is not judged
			res.TimedOut = ""
		}

		tc, _ := rc.c.(*net.TCPConn)

		switch {
		case p.Abrupt == "rst" && tc != nil:
			_ = tc.SetLinger(0) // reset: what the server has not read yet may be lost
		case tc != nil && res.TimedOut == "" && !res.Closed && res.Violation == "":
			// orderly end of the client's side (FIN): everything sent reaches the server, then the end of the stream.
			// (Closing with unread responses would turn into a reset.) The server must let go of the connection.
			wg.Wait()

			_ = tc.CloseWrite()
			n := len(res.Completions)
			lenient = true

			read(func() bool { return false }, budget)

			res.Completions = res.Completions[:n] // what follows the accountable head is not judged
			res.ProbeOK = false

			if res.TimedOut != "" {
				res.TimedOut = "the server did not close the connection after the client's FIN: " + res.TimedOut
			}
		}
	}

	if res.Violation != "" || res.TimedOut != "" {
		return res
	}

	// exactly one completion per complete line, in order, with the line's tag
	n := len(p.Expects)
	if len(res.Completions) < n {
		e := p.Expects[len(res.Completions)]
		what := "the harness DONE"

		if e.Unit >= 0 {
			what = fmt.Sprintf("unit %d %s", e.Unit, summarise(p.S.Units[e.Unit].B))
		}

		state := "the probe behind the stream was answered first"
		if res.Closed {
			state = "the server closed the connection"
		}

		res.Violation = fmt.Sprintf("line accounting: %d complete lines, %d completions: no completion for %s (expected: %s); %s", n, len(res.Completions), what, e.What, state)

		return res
	}

	if len(res.Completions) > n {
		res.Violation = fmt.Sprintf("line accounting: %d complete lines but %d completions; surplus: %q", n, len(res.Completions), res.Completions[n].Raw)
		return res
	}

	// Every line's tag must come back on exactly one completion. The order is not judged: RFC 3501 5.5 lets a server
	// complete pipelined commands out of order (gluon's reader goroutine answers STARTTLS itself, ahead of the session
	// goroutine).
	used := make([]bool, len(res.Completions))

	find := func(pred func(c completion) bool) bool {
		for i, c := range res.Completions {
			if !used[i] && pred(c) {
				used[i] = true
				return true
			}
		}

		return false
	}

	for _, e := range p.Expects {
		if !e.HasTag {
			continue
		}

		if find(func(c completion) bool { return c.Tag == e.Tag }) {
			continue
		}

		if kf.Listed(kfTagLost) && find(func(c completion) bool {
			return c.Tag == "" && (strings.Contains(c.Text, "expected CR") || strings.Contains(c.Text, "expected LF after CR"))
		}) {
			continue
		}

		var got []string
		for _, c := range res.Completions {
			got = append(got, c.Raw)
		}

		res.Violation = fmt.Sprintf("tag: no completion carries the tag %q of unit %d %s; completions received: %q", e.Tag, e.Unit, summarise(p.S.Units[max(e.Unit, 0)].B), got)

		return res
	}

	if (p.Full || p.Closes != "") && res.Conts != p.Conts {
		res.Violation = fmt.Sprintf("continuation requests: %d sent by the server, the stream has %d literals / IDLEs", res.Conts, p.Conts)
	}

	if p.Closes == "logout" && !res.Bye {
		res.Violation = "LOGOUT completed without BYE"
	}

	return res
}

// ---------------------------------------------------------------------------------------------------------------------
// one case
// ---------------------------------------------------------------------------------------------------------------------

type wireCase struct {
	plans []*connPlan
}

type wireOutcome struct {
	violation    string
	inconclusive string
	timedOut     string
	results      []connResult
	sent         int
}

var seedMsg = []byte("From: a@example.com\r\nTo: b@example.com\r\nSubject: seed\r\nDate: Mon, 7 Feb 1994 21:52:25 -0800\r\n\r\nhello world\r\n")

func playWire(wc *wireCase, budget time.Duration) (out wireOutcome) {
	b, err := bed.Start(bed.Options{ClientTimeout: budget}, bed.UserSpec{Name: wireUser, Pass: wirePass})
	if err != nil {
		out.inconclusive = "bed: " + err.Error()
		return out
	}

	defer b.Destroy()

	watch := b.Server.AddWatcher(events.SessionAdded{}, events.SessionRemoved{})
	added, removed := 0, 0

	drain := func(d time.Duration) bool { // until every session that was added has been removed
		deadline := time.After(d)

		for {
			if added > 0 && removed >= added {
				return true
			}

			select {
			case e := <-watch:
				switch e.(type) {
				case events.SessionAdded:
					added++
				case events.SessionRemoved:
					removed++
				}
			case <-deadline:
				return false
			}
		}
	}

	// the untouched second session
	ctl, err := b.Login("ctl", b.Users[0])
	if err != nil {
		out.inconclusive = "control session: " + err.Error()
		return out
	}

	for i := 0; i < 3; i++ {
		if r := ctl.DoParts(imapc.T("APPEND INBOX "), imapc.L(seedMsg)); !r.OK() {
			out.inconclusive = "seeding INBOX: " + r.String()
			return out
		}
	}

	ctlCheck := func(when string) bool {
		r := ctl.Cmd("NOOP")
		if r.OK() {
			return true
		}

		if errors.Is(r.Err, imapc.ErrTimeout) {
			out.timedOut = "the untouched second session got no answer to NOOP " + when
		} else {
			out.violation = fmt.Sprintf("the untouched second session is affected: NOOP %s -> %s", when, r)
		}

		return false
	}

	out.results = make([]connResult, len(wc.plans))

	var wg sync.WaitGroup

	for i, p := range wc.plans {
		out.sent += len(p.Send)

		wg.Add(1)

		go func(i int, p *connPlan) {
			defer wg.Done()

			out.results[i] = runConn(b.Addr, p, budget)
		}(i, p)
	}

	if !ctlCheck("while the streams are being sent") {
		wg.Wait()
		return out
	}

	wg.Wait()

	for i, r := range out.results {
		if r.Violation != "" && out.violation == "" {
			out.violation = fmt.Sprintf("connection %d: %s", i, r.Violation)
		}

		if r.TimedOut != "" && out.timedOut == "" {
			out.timedOut = fmt.Sprintf("connection %d: %s", i, r.TimedOut)
		}
	}

	if err := b.CheckPanics(); err != nil && !strings.HasPrefix(out.violation, "crash") {
		out.violation = "crash: " + err.Error()
	}

	if out.violation != "" || out.timedOut != "" {
		return out
	}

	if !ctlCheck("after the streams") {
		return out
	}

	ctl.Logout()

	// every session must end once its client is gone (a reader that spins never lets go)
	if !drain(budget) {
		dump := sessionGoroutines()

		if !drain(2 * budget) {
			out.violation = fmt.Sprintf("non-termination: %d of %d sessions have not ended %v after all clients had disconnected (re-checked after %v)\ngoroutines of the sessions that are left (taken after %v):\n%s", added-removed, added, 3*budget, budget, budget, dump)
		} else {
			out.inconclusive = fmt.Sprintf("sessions took more than %v to end after the clients had disconnected", budget)
		}
	}

	if err := b.CheckPanics(); err != nil {
		out.violation = "crash: " + err.Error()
	}

	return out
}

// sessionGoroutines returns the stacks of the goroutines that run session code.
func sessionGoroutines() string {
	buf := make([]byte, 4<<20)
	buf = buf[:runtime.Stack(buf, true)]

	var keep []string

	for _, g := range strings.Split(string(buf), "\n\n") {
		if strings.Contains(g, "gluon/internal/session.") || strings.Contains(g, "gluon/internal/state.") {
			keep = append(keep, g)
		}
	}

	return strings.Join(keep, "\n\n")
}

func (wc *wireCase) describe(out wireOutcome) string {
	var sb strings.Builder

	for i, p := range wc.plans {
		fmt.Fprintf(&sb, "connection %d (state before the stream: %s; full=%v closes=%q abrupt=%q linger=%v; %d completions and %d continuation requests owed):\n%s", i, p.Auth, p.Full, p.Closes, p.Abrupt, p.Linger, len(p.Expects), p.Conts, p.S.describe())

		if i < len(out.results) {
			for _, l := range out.results[i].Transcript {
				sb.WriteString("    " + l + "\n")
			}
		}
	}

	return sb.String()
}

// Live heap the whole wire test may add (after GC): fixed part + per byte sent (vconn keeps appended messages).
const (
	wireHeapFixed   = 8 << 20
	wireHeapPerByte = 4
)

func liveHeap() uint64 {
	var m runtime.MemStats

	runtime.GC()
	runtime.GC()
	runtime.ReadMemStats(&m)

	return m.HeapAlloc
}

// TestWire: the wire layer.
func TestWire(t *testing.T) {
	ev.Checks(350, 1250)

	var (
		heap0     uint64
		cases     int
		totalSent int
	)

	// The servers of all earlier cases are closed: nothing of them may be left. Checked every 25 cases and at the end.
	heapCheck := func() string {
		heap1 := liveHeap()
		budget := uint64(wireHeapFixed) + wireHeapPerByte*uint64(totalSent)

		if os.Getenv("C11_CALIBRATE") != "" {
			t.Logf("live heap: %d -> %d (+%d) after %d cases, %d bytes sent; budget %d", heap0, heap1, int64(heap1)-int64(heap0), cases, totalSent, budget)
		}

		if heap1 > heap0 && heap1-heap0 > budget {
			return fmt.Sprintf("VERIF-VIOLATION C11: memory: the live heap of the server process grew by %d bytes over %d streams carrying %d bytes in total (budget %d + %d per byte = %d); the servers of all these cases are closed, nothing of them should be left",
				heap1-heap0, cases-3, totalSent, wireHeapFixed, wireHeapPerByte, budget)
		}

		return ""
	}

	rapid.Check(t, func(t *rapid.T) {
		if cases == 3 {
			heap0 = liveHeap() // after warm-up (sqlite, goroutine pools, rapid's own buffers)
			totalSent = 0
		}

		cases++

		if cases > 3 && cases%25 == 0 {
			if msg := heapCheck(); msg != "" {
				t.Fatalf("%s", msg)
			}
		}

		x := newGen(t, true)
		wc := &wireCase{}

		var all []byte

		for i, n := 0, pickOf(x, "connections", []int{1, 1, 1, 2, 3}); i < n; i++ {
			auth := pickOf(x, "auth", []string{"none", "auth", "selected"})

			s := &stream{Cut: -1}

			switch x.n("stream-class", 0, 9) {
			case 0:
				// many rejected lines in a row: the error limit
				k := pickOf(x, "errors", []int{19, 20, 20, 21, 25})
				for j := 0; j < k; j++ {
					var u unit
					if x.chance("err-soup", 1, 2) {
						u = x.steer(x.soup(), j == 0)
					}

					if !u.Accountable {
						u = unit{B: []byte(fmt.Sprintf("e%d BOGUS\r\n", j)), Kind: unitSoup, Label: "soup", Accountable: true, Tag: fmt.Sprintf("e%d", j), HasTag: true}
					}

					s.Units = append(s.Units, u)
				}

				if x.chance("err-tail", 1, 2) {
					s.Units = append(s.Units, x.valid("NOOP"))
				}

				x.finish(s, false)
			case 1:
				// IDLE and what ends it
				s.Units = append(s.Units, x.valid("IDLE"))

				switch x.n("idle-end", 0, 3) {
				case 0:
					s.Units = append(s.Units, x.valid("DONE"))
				case 1:
					s.Units = append(s.Units, x.steer(x.mutate(), false))
				case 2:
					s.Units = append(s.Units, x.valid(""))
				}

				for j, k := 0, x.n("idle-tail", 0, 2); j < k; j++ {
					s.Units = append(s.Units, x.steer(x.unit(), false))
				}

				x.finish(s, false)
			default:
				s = x.stream(8)
			}

			p := buildPlan(x, s, auth)
			wc.plans = append(wc.plans, p)
			all = append(all, p.Send...)
			all = append(all, 0)
		}

		// the stream of a connection the client leaves is also what layer A judges: never hand the in-process server a
		// stream on which the reader loop is known (by layer A's oracle) to spin or crash
		for _, p := range wc.plans {
			res, timedOut := runLoopWatched(p.Send, loopOpts{}, loopBudget(len(p.Send)))
			if v := judgeGlobal(p.Send, res, timedOut); v.violation != "" || v.inconclusive != "" {
				conclude(t, v, func() string { return "stream (not sent to the server):\n" + p.S.describe() })
			}
		}

		out := playWire(wc, wireWatchdog)

		if out.timedOut != "" {
			// re-check rule (§1.6): the same case once more with the doubled budget
			out2 := playWire(wc, 2*wireWatchdog)
			if out2.timedOut != "" {
				// a handler that is stuck (or spins) stays behind in this process and in the server it belongs to: every
				// shrinking attempt would wait for it again, so the run ends here (see abortRun)
				abortRun(fmt.Sprintf("VERIF-VIOLATION C11: no answer: %s; on re-check with the doubled budget: %s\n%s", out.timedOut, out2.timedOut, wc.describe(out2)))
			}

			if out2.violation == "" {
				t.Fatalf("VERIF-INCONCLUSIVE: %s (answered on re-check)\n%s", out.timedOut, wc.describe(out))
			}

			out = out2
		}

		if out.violation != "" {
			t.Fatalf("VERIF-VIOLATION C11: %s\n%s", out.violation, wc.describe(out))
		}

		if out.inconclusive != "" {
			t.Fatalf("VERIF-INCONCLUSIVE: %s\n%s", out.inconclusive, wc.describe(out))
		}

		totalSent += out.sent

		// evidence
		labels := []string{"B:wire", fmt.Sprintf("B:connections=%d", len(wc.plans))}
		nontrivial := false
		seen := map[string]bool{}

		add := func(l string) {
			if !seen[l] {
				seen[l] = true
				labels = append(labels, l)
			}
		}

		for _, p := range wc.plans {
			add("B:state=" + p.Auth)

			switch {
			case p.Full:
				add("B:end=probe")
			case p.Closes != "":
				add("B:end=" + p.Closes)
			default:
				add("B:end=abrupt-" + p.Abrupt)

				if len(p.Send) > 0 && !bytes.HasSuffix(p.Send, []byte("\r\n")) {
					nontrivial = true

					add("ends-inside-token")
				}
			}

			if p.Rejects > 0 && p.Accepts > 0 || p.Full && p.Rejects > 0 {
				// a rejected line and a later accepted one (at least the probe)
				nontrivial = true

				add("rejected-then-accepted")
			}

			for _, u := range p.S.Units {
				add("unit:" + u.Label)
			}

			if p.S.Cut >= 0 {
				add("cut:" + p.S.CutIn)
			}

			ev.Class("B:accounted-lines", len(p.Expects))
		}

		ev.Case(nontrivial, hashBytes(all), labels...)
		ev.Excluded(x.excluded)

		if ev.WantSample() {
			var conns []map[string]any
			for _, p := range wc.plans {
				conns = append(conns, map[string]any{"state": p.Auth, "bytes": escaped(p.Send, 300), "len": len(p.Send), "owed": len(p.Expects)})
			}

			ev.Sample(map[string]any{"layer": "B:wire", "connections": conns})
		}
	})

	if cases > 3 && !t.Failed() {
		if msg := heapCheck(); msg != "" {
			t.Fatalf("%s", msg)
		}
	}
}

// judgeGlobal applies the stream-independent part of layer A's oracle (panic, spin, time).
func judgeGlobal(input []byte, res loopResult, timedOut bool) verdict {
	switch res.Exit {
	case exitPanic, exitSpin, exitAbort, exitIterCap:
		return judge(nil, input, res, timedOut)
	}

	if timedOut {
		return judge(nil, input, res, timedOut)
	}

	return verdict{}
}
