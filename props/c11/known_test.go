package c11

import (
	"fmt"
	"strings"
	"testing"
	"time"

	"verif/internal/bed"
	"verif/internal/kf"
)

// Regressions of the known findings of C11 (minimal inputs). While an input still fails and its id is listed in
// /verif/known_findings.json the test prints the KNOWN-FINDING line and passes; it fails if the input fails and the id
// is not listed; it is silent once the input passes (after a fix the generators cover the region again: every
// steering switch is guarded by kf.Listed).

func known(t *testing.T, id string, reproduces bool, detail string) {
	t.Helper()

	if !reproduces {
		return
	}

	if kf.Report(id) {
		t.Logf("%s still reproduces: %s", id, detail)
		return
	}

	t.Errorf("VERIF-VIOLATION C11: %s (not listed in known_findings.json): %s", id, detail)
}

// F-C11a: the stream ends inside a quoted string. rfcparser.IsQuotedChar is !IsQuotedSpecial, which is true for the
// EOF token; ParseQuoted's loop then advances for ever (every Advance yields EOF again) and appends a NUL byte per
// round: the reader goroutine spins and its buffer grows without bound after the client has gone.
func TestKnown_F_C11a(t *testing.T) {
	input := []byte("A1 LOGIN \"abc")

	res := runLoop(input, loopOpts{spinLimit: 1000})
	spins := res.Exit == exitSpin

	if spins {
		spins = runLoop(input, loopOpts{spinLimit: 200000, noMem: true}).Exit == exitSpin
	}

	known(t, kfQuotedEOF, spins, fmt.Sprintf("input %q: after the end of the stream the command reader loop kept reading (200000 reads answered with EOF) without returning; first run allocated %d bytes in 1000 rounds", input, res.Alloc))
}

// F-C11b: garbage behind a complete command. command.Parser.Parse returns Command{} (tag dropped) for the two errors of
// its final CRLF check, so the session answers " BAD ..." with an empty tag.
func TestKnown_F_C11b(t *testing.T) {
	input := []byte("A1 NOOP x\r\nA2 NOOP\r\n")
	res := runLoop(input, loopOpts{})

	rep := len(res.Iters) >= 1 && !res.Iters[0].Accepted && res.Iters[0].Tag == "" && res.Iters[0].ParsedTag == "A1"
	detail := ""

	if rep {
		detail = fmt.Sprintf("input %q: the line starts with the tag A1, Parse returns the error %q with Command.Tag = %q: the session sends %q", input, res.Iters[0].Err, res.Iters[0].Tag, " BAD "+res.Iters[0].Err)
	}

	known(t, kfTagLost, rep, detail)
}

// F-C11e: a quoted string may contain CR and LF for gluon (IsQuotedChar), RFC 3501 excludes them (TEXT-CHAR). A complete
// line with an unbalanced quote is not answered; the following lines disappear into the string.
func TestKnown_F_C11e(t *testing.T) {
	first := "A1 LOGIN \"abc\r\n"
	input := []byte(first + "A2 NOOP\" x\r\nA3 NOOP\r\n")
	res := runLoop(input, loopOpts{})

	rep := len(res.Iters) >= 1 && res.Iters[0].End > len(first)
	detail := ""

	if rep {
		detail = fmt.Sprintf("input %q: the first Parse consumed %q (two lines) and answered once (accepted=%v); the complete line %q got no completion of its own and the well-formed %q was never executed",
			input, input[:res.Iters[0].End], res.Iters[0].Accepted, first, "A2 NOOP")
	}

	known(t, kfQuotedCRLF, rep, detail)
}

// F-C11f: rfcparser.Parser.MakeError stamps the error with previousToken, which is the initial EOF token while the
// first token of a connection is being looked at; startCommandReader takes parserError.IsEOF() for the end of the
// stream and returns: the connection is closed without any response.
func TestKnown_F_C11f(t *testing.T) {
	input := []byte("(\r\nA2 NOOP\r\n")
	res := runLoop(input, loopOpts{})

	end := 0
	if n := len(res.Iters); n > 0 {
		end = res.Iters[n-1].End
	}

	rep := res.Exit == exitEOFToken && end < len(input)

	known(t, kfFirstLineEOF, rep, fmt.Sprintf("input %q: the loop returns after %d of %d bytes with %q taken for the end of the stream: no BAD, connection closed, %q never executed (the same line as second line of a connection is answered BAD)",
		input, end, len(input), res.ExitErr, "A2 NOOP"))
}

// F-C11g: a literal size at or above the 30 MiB cap (or one that wraps to a negative int) is reported with fmt.Errorf,
// not as *rfcparser.Error: startCommandReader returns and the connection is closed without BAD (or BYE).
func TestKnown_F_C11g(t *testing.T) {
	for _, input := range []string{"A1 LOGIN {31457280}\r\nA2 NOOP\r\n", "A1 LOGIN {9223372036854775808}\r\nA2 NOOP\r\n"} {
		res := runLoop([]byte(input), loopOpts{})

		end := 0
		if n := len(res.Iters); n > 0 {
			end = res.Iters[n-1].End
		}

		rep := res.Exit == exitNonParser && end < len(input) && res.ExitErr != "EOF"

		known(t, kfLiteralSize, rep, fmt.Sprintf("input %q: Parse returns the non-parser error %q; the reader goroutine returns after %d of %d bytes: no tagged BAD for A1, connection closed", input, res.ExitErr, end, len(input)))

		if rep {
			return
		}
	}
}

// F-C11d: parseSearchKey recurses once per "(" / NOT / OR without a depth limit. About 2.5 million levels exhaust the
// 1 GB goroutine stack: "fatal error: stack overflow", which no panic handler can catch - the process exits.
// The parser runs before the authentication check, so an unauthenticated client can do this with 3 MB.
func TestKnown_F_C11d(t *testing.T) {
	input := nestLine("A1", "SEARCH ", "(", "", "", 3000000, false, "")
	cv := runChildLoop(input, 180*time.Second)

	switch cv.status {
	case "crash":
		// the same bytes against a real server process, from a client that has not logged in
		wire := "(wire confirmation not run)"
		if detail, fatal, err := wireCrash(input, 120*time.Second); err != nil {
			wire = "(wire confirmation not run: " + err.Error() + ")"
		} else if fatal {
			wire = "wire: " + detail
		} else {
			wire = "wire: the server process survived the same bytes " + detail
		}

		known(t, kfRecursion, true, fmt.Sprintf("input \"A1 SEARCH \" + 3000000 x \"(\" (%d bytes): the process running the command reader loop died after %v:\n%s\n%s", len(input), cv.elapsed, cv.detail, wire))
	case "ok", "panic":
		// no crash (a recovered panic / an error is fine here)
	default:
		t.Fatalf("VERIF-INCONCLUSIVE: F-C11d regression: child %s: %s", cv.status, cv.detail)
	}
}

// wire regressions ----------------------------------------------------------------------------------------------------

func wireExchange(t *testing.T, login bool, send string) (lines []string, closed bool, panics error) {
	t.Helper()

	b, err := bed.Start(bed.Options{}, bed.UserSpec{Name: wireUser, Pass: wirePass})
	if err != nil {
		t.Fatalf("VERIF-INCONCLUSIVE: bed: %v", err)
	}

	defer b.Destroy()

	rc, err := dialRaw(b.Addr)
	if err != nil {
		t.Fatalf("VERIF-INCONCLUSIVE: dial: %v", err)
	}

	defer rc.c.Close()

	if _, err := rc.next(wireWatchdog); err != nil {
		t.Fatalf("VERIF-INCONCLUSIVE: greeting: %v", err)
	}

	if login {
		if c, err := rc.cmd("H1", "LOGIN "+wireUser+" "+wirePass, wireWatchdog); err != nil || c.Status != "OK" {
			t.Fatalf("VERIF-INCONCLUSIVE: login: %+v %v", c, err)
		}
	}

	_, _ = rc.c.Write([]byte(send + "ZZ9PROBE0 NOOP\r\n"))

	for {
		l, err := rc.next(wireWatchdog)
		if err != nil {
			closed = err != errWatchdog
			break
		}

		lines = append(lines, strings.TrimRight(l, "\r\n"))

		if strings.HasPrefix(l, "ZZ9PROBE0 ") {
			break
		}
	}

	return lines, closed, b.CheckPanics()
}

// F-C11c: handleStartTLS returns response.No(tag) *as its error* when no TLS configuration is set; nothing is sent, the
// reader goroutine returns and the connection is closed.
func TestKnown_F_C11c(t *testing.T) {
	lines, closed, _ := wireExchange(t, false, "A1 STARTTLS\r\n")

	answered := false

	for _, l := range lines {
		if strings.HasPrefix(l, "A1 ") {
			answered = true
		}
	}

	known(t, kfStartTLS, closed && !answered, fmt.Sprintf("sent \"A1 STARTTLS\\r\\nZZ9PROBE0 NOOP\\r\\n\" to a server without TLS configuration: the server closed the connection; responses received: %q (no completion tagged A1, the NOOP not executed)", lines))
}

// F-C11h: LIST / LSUB build a regular expression from reference + pattern with regexp.MustCompile; bytes that are not
// valid UTF-8 make it panic in the command's goroutine (process exit under the default panic handler).
func TestKnown_F_C11h(t *testing.T) {
	for _, send := range []string{"A1 LIST \"\xff\" \"*\"\r\n", "A1 LSUB \"\" \"\xff%\"\r\n"} {
		lines, _, panics := wireExchange(t, true, send)

		if panics != nil {
			known(t, kfListUTF8, true, fmt.Sprintf("sent %q after LOGIN: %v; responses: %q", send, truncate(panics.Error(), 600), lines))
			return
		}
	}
}
