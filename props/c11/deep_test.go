package c11

import (
	"fmt"
	"strings"
	"testing"
	"time"

	"pgregory.net/rapid"

	"verif/internal/ev"
	"verif/internal/kf"
)

// recursionLevels: how many levels of parseSearchKey recursion one repetition of the opening costs.
func recursionLevels(open string) int {
	return strings.Count(open, "(") + strings.Count(open, "NOT") + strings.Count(open, "OR")
}

// While F-C11d is listed, the recursive shapes stay below the depth at which the 1 GB goroutine stack is exhausted
// (about 2.5 million levels of "(", measured; TestKnown_F_C11d keeps the crashing input under watch).
const listedRecursionCap = 800000

func childBudget(n int) time.Duration { return 60*time.Second + time.Duration(n/(1<<20))*4*time.Second }

// TestLoopDeep: very deep nesting, run in a child process (a stack overflow is fatal and cannot be recovered).
func TestLoopDeep(t *testing.T) {
	ev.Checks(40, 60)

	rapid.Check(t, func(t *rapid.T) {
		x := newGen(t, false)
		deepCase(t, x, pickOf(x, "nest-shape", nestShapes), pickOf(x, "nest-prefix", nestPrefixes))
	})
}

// TestLoopDeepSearchMatrix: every recursive shape of the search key grammar under every SEARCH prefix (the other
// parameters are drawn), so that each recursion path of parseSearchKey / handleSearchKey is driven deep in every run.
func TestLoopDeepSearchMatrix(t *testing.T) {
	for _, sh := range nestShapes {
		if recursionLevels(sh.open) == 0 {
			continue
		}

		for _, prefix := range nestPrefixes {
			if !strings.Contains(prefix, "SEARCH") {
				continue
			}

			sh, prefix := sh, prefix

			t.Run(strings.TrimSpace(prefix)+"/"+strings.TrimSpace(sh.open), func(t *testing.T) {
				ev.Checks(2, 4)
				rapid.Check(t, func(t *rapid.T) { deepCase(t, newGen(t, false), sh, prefix) })
			})
		}
	}
}

func deepCase(t *rapid.T, x *gen, sh struct{ open, close, leaf string }, prefix string) {
	maxBytes := ev.Pick(1<<20, 32<<20)

	{
		closed := x.chance("nest-closed", 1, 2)
		term := pickOf(x, "term", []string{"\r\n", "\r\n", "", "\r"})
		size := pickOf(x, "size", []int{maxBytes / 16, maxBytes / 4, maxBytes / 2, maxBytes})

		per := len(sh.open)
		if closed {
			per += len(sh.close)
		}

		depth := size / per
		excluded := 0

		if lv := recursionLevels(sh.open); lv > 0 && strings.Contains(prefix, "SEARCH") && kf.Listed(kfRecursion) && depth*lv > listedRecursionCap {
			depth = listedRecursionCap / lv
			excluded++
		}

		input := nestLine("D1", prefix, sh.open, sh.leaf, sh.close, depth, closed, term)
		input = append(input, "D2 NOOP\r\n"...)

		if kf.Listed(kfQuotedEOF) && recursionLevels(sh.open) == 0 {
			var changed bool
			if input, changed = steerQuotedEOF(input); changed {
				excluded++
			}
		}

		d := childBudget(len(input))
		cv := runChildLoop(input, d)

		desc := func() string {
			return fmt.Sprintf("input: tag D1, %q, then %d x %q, leaf %q, closed=%v (%d x %q), terminator %q, then \"D2 NOOP\\r\\n\" (%d bytes): %s",
				prefix, depth, sh.open, sh.leaf, closed, depth, sh.close, term, len(input), summarise(input))
		}

		labels := []string{"A:deep", "deep:" + sh.open, fmt.Sprintf("deep-size:%dMiB", len(input)>>20)}

		if cv.status == "timeout" {
			p := saveFound(input, "deep-slow")
			cv2 := runChildLoop(input, 2*d)

			if cv2.status == "timeout" {
				t.Fatalf("VERIF-VIOLATION C11: non-termination: the loop exceeded %v and then %v in a child process (saved as %s)\n%s", d, 2*d, p, desc())
			}

			t.Fatalf("VERIF-INCONCLUSIVE: the loop exceeded the time budget %v once, %s in %v on re-check (saved as %s)\n%s", d, cv2.status, cv2.elapsed, p, desc())
		}

		switch cv.status {
		case "ok":
		case "not-run":
			t.Fatalf("VERIF-INCONCLUSIVE: the child process did not reach the input: %s", cv.detail)
		default:
			p := saveFound(input, "deep-"+cv.status)
			t.Fatalf("VERIF-VIOLATION C11: %s of the process running the command reader loop (saved as %s):\n%s\n%s", cv.status, p, cv.detail, desc())
		}

		if cv.exit == exitSpin {
			t.Fatalf("VERIF-VIOLATION C11: non-termination (the loop goes on reading after the end of the stream)\n%s", desc())
		}

		if budget := memBudget(input, cv.iters); cv.alloc > budget {
			t.Fatalf("VERIF-VIOLATION C11: memory: the loop allocated %d bytes on %d bytes of input in %d iterations (budget %d)\n%s", cv.alloc, len(input), cv.iters, budget, desc())
		}

		// the trailing well-formed NOOP must be accepted when the deep line is complete
		if term == "\r\n" && cv.accepted == 0 && cv.exit != exitNonParser && cv.exit != exitTLS {
			t.Fatalf("VERIF-VIOLATION C11: usability: after the complete deep line no command was accepted, not even the trailing NOOP (%s)\n%s", cv.detail, desc())
		}

		// ends inside a token, or a rejected line followed by an accepted one (the last iteration is the end of the stream)
		nontrivial := term != "\r\n" || (cv.accepted >= 1 && cv.iters-cv.accepted >= 2)
		ev.Case(nontrivial, hashBytes(input), labels...)
		ev.Excluded(excluded)

		if ev.WantSample() {
			ev.Sample(map[string]any{"layer": "A:deep", "bytes": escaped(input, 300), "len": len(input), "child": cv.detail})
		}
	}
}
