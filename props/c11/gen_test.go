package c11

import (
	"bytes"
	"fmt"
	"strconv"
	"strings"

	"github.com/ProtonMail/gluon/imap/command"
	"pgregory.net/rapid"

	"verif/internal/ev"
	"verif/internal/kf"
	"verif/props/c10"
)

// ---------------------------------------------------------------------------------------------------------------------
// Known findings of C11 (ids of /verif/known_findings.json). See known_test.go for the regressions.
// ---------------------------------------------------------------------------------------------------------------------
const (
	kfQuotedEOF    = "F-C11a" // end of stream inside a quoted string: ParseQuoted spins for ever, appending NUL bytes
	kfTagLost      = "F-C11b" // error at the final CRLF check of command.Parser.Parse: the BAD carries an empty tag
	kfStartTLS     = "F-C11c" // STARTTLS without TLS configured: connection closed, no tagged response
	kfRecursion    = "F-C11d" // unbounded recursion in parseSearchKey: stack exhaustion (fatal)
	kfQuotedCRLF   = "F-C11e" // a quoted string runs across CR LF: the line is not answered, following lines are swallowed
	kfFirstLineEOF = "F-C11f" // an error on the first token of a connection is taken for the end of the stream: silent close
	kfLiteralSize  = "F-C11g" // literal size >= 30 MiB (or wrapped negative): non-parser error, silent close
	kfListUTF8     = "F-C11h" // LIST / LSUB with invalid UTF-8 in reference or pattern: regexp.MustCompile panics (state/match.go)
)

// ---------------------------------------------------------------------------------------------------------------------
// RFC 3501 character classes needed to say what "the line's tag" is (RFC classes, not gluon's).
// ---------------------------------------------------------------------------------------------------------------------

func isTagByte(b byte) bool {
	// tag = 1*<any ASTRING-CHAR except "+">; ASTRING-CHAR = ATOM-CHAR / resp-specials
	if b <= 0x20 || b >= 0x7f {
		return false
	}

	return !strings.ContainsRune("(){%*\"\\+", rune(b))
}

// lineTag returns the tag of a line: 1*tag-char followed by SP. A first word DONE (any case) is not a tag: gluon's
// parser reserves it for the untagged DONE line of RFC 2177 (imap/command/parser.go "Done command does not have a tag").
func lineTag(line []byte) (string, bool) {
	i := 0
	for i < len(line) && isTagByte(line[i]) {
		i++
	}

	if i == 0 || i >= len(line) || line[i] != ' ' {
		return "", false
	}

	if strings.EqualFold(string(line[:i]), "done") {
		return "", false
	}

	return string(line[:i]), true
}

// ---------------------------------------------------------------------------------------------------------------------
// Units and streams
// ---------------------------------------------------------------------------------------------------------------------

type unitKind int

const (
	unitValid   unitKind = iota // an unmodified command of the C10 generator (may contain literals)
	unitMutated                 // a C10 command after a structure-aware mutation
	unitSoup                    // a line made of hostile tokens
	unitRaw                     // raw bytes
	unitNest                    // deep nesting
	unitBigLit                  // a valid command whose first literal announces a hostile size; ends behind the header line
)

type unit struct {
	B        []byte
	Kind     unitKind
	Label    string          // mutation kind
	Cmd      command.Command // unitValid
	Literals int             // unitValid: number of literals (continuation requests expected)
	// Accountable: the unit is exactly one complete command line of the line-accountable class, so exactly one
	// iteration / completion must answer it.
	Accountable bool
	Tag         string
	HasTag      bool
}

type stream struct {
	Units  []unit
	Cut    int // the stream ends after Cut bytes (-1: not cut)
	CutIn  string
	Labels []string
}

func (s *stream) bytes() []byte {
	var b []byte
	for _, u := range s.Units {
		b = append(b, u.B...)
	}

	if s.Cut >= 0 && s.Cut < len(b) {
		b = b[:s.Cut]
	}

	return b
}

// accountableLine: one line, CRLF-terminated, no other CR / LF, no '{'. A line that starts with "*" is left out:
// gluon takes "*" for a tag (its atom class does not exclude the list wildcards) and answers "* OK ..." / "* BAD ...",
// which on the wire cannot be told from an untagged response.
func accountableLine(b []byte) bool {
	n := len(b)
	if n < 2 || b[n-2] != '\r' || b[n-1] != '\n' {
		return false
	}

	if b[0] == '*' {
		return false
	}

	return !bytes.ContainsAny(b[:n-2], "\r\n{")
}

type gen struct {
	t        *rapid.T
	g        *c10.Gen
	wire     bool // layer B: bounded sizes, no commands that the wire layer cannot account for
	maxNest  int
	maxAtom  int
	excluded int
}

func newGen(t *rapid.T, wire bool) *gen {
	g := c10.NewGen(t)
	g.MaxLiteral = 2000
	g.MaxSet = 20

	x := &gen{t: t, g: g, wire: wire, maxNest: ev.Pick(3000, 20000), maxAtom: 5000}
	if wire {
		x.maxNest = 2000
	}

	return x
}

func (x *gen) n(label string, lo, hi int) int { return rapid.IntRange(lo, hi).Draw(x.t, label) }
func (x *gen) chance(label string, num, den int) bool {
	return rapid.IntRange(0, den-1).Draw(x.t, label) < num
}

func pickOf[T any](x *gen, label string, xs []T) T { return xs[x.n(label, 0, len(xs)-1)] }

// valid draws an unmodified command.
func (x *gen) valid(name string) unit {
	var c command.Command
	if name == "" {
		c = x.g.Command()
	} else {
		c = x.g.Named(name)
	}

	enc, _ := c10.Encode(c10.RapidSrc{T: x.t}, c, c10.Avoid{})
	tag, has := lineTag(enc.Bytes)

	// A valid command is accountable as a whole: line(s) + the data of its literals.
	return unit{B: enc.Bytes, Kind: unitValid, Label: "valid", Cmd: c, Literals: enc.Literals, Accountable: true, Tag: tag, HasTag: has}
}

// ---------------------------------------------------------------------------------------------------------------------
// Lexer for *valid* encoded commands (the mutations work on its tokens)
// ---------------------------------------------------------------------------------------------------------------------

type tokKind int

const (
	tWord tokKind = iota
	tNumber
	tPunct
	tSP
	tQuoted
	tLitHdr
	tLitBody
	tCRLF
)

var tokKindNames = []string{"word", "number", "punct", "sp", "quoted", "lithdr", "litbody", "crlf"}

type tok struct {
	b    []byte
	kind tokKind
}

func isDigit(b byte) bool { return b >= '0' && b <= '9' }
func isAlpha(b byte) bool { return b >= 'a' && b <= 'z' || b >= 'A' && b <= 'Z' }

func lex(b []byte) []tok {
	var out []tok

	for i := 0; i < len(b); {
		c := b[i]

		switch {
		case c == '"':
			j := i + 1
			for j < len(b) && b[j] != '"' {
				if b[j] == '\\' {
					j++
				}

				j++
			}

			j = min(j+1, len(b))
			out = append(out, tok{b[i:j], tQuoted})
			i = j
		case c == '{':
			j := i + 1
			for j < len(b) && isDigit(b[j]) {
				j++
			}

			if j > i+1 && j+2 < len(b)+1 && bytes.HasPrefix(b[j:], []byte("}\r\n")) {
				n, err := strconv.Atoi(string(b[i+1 : j]))
				j += 3

				if err != nil || n < 0 || n > len(b) {
					n = len(b)
				}

				out = append(out, tok{b[i:j], tLitHdr})
				e := min(j+n, len(b))
				out = append(out, tok{b[j:e], tLitBody})
				i = e
			} else {
				out = append(out, tok{b[i : i+1], tPunct})
				i++
			}
		case isDigit(c):
			j := i
			for j < len(b) && isDigit(b[j]) {
				j++
			}

			out = append(out, tok{b[i:j], tNumber})
			i = j
		case isAlpha(c):
			j := i
			for j < len(b) && isAlpha(b[j]) {
				j++
			}

			out = append(out, tok{b[i:j], tWord})
			i = j
		case c == '\r' && i+1 < len(b) && b[i+1] == '\n':
			out = append(out, tok{b[i : i+2], tCRLF})
			i += 2
		case c == ' ':
			out = append(out, tok{b[i : i+1], tSP})
			i++
		default:
			out = append(out, tok{b[i : i+1], tPunct})
			i++
		}
	}

	return out
}

func join(ts []tok) []byte {
	var b []byte
	for _, t := range ts {
		b = append(b, t.b...)
	}

	return b
}

// ---------------------------------------------------------------------------------------------------------------------
// Hostile material
// ---------------------------------------------------------------------------------------------------------------------

var hostileTokens = []string{
	"(", ")", "((", "))", "()", "[", "]", "<", ">", "{", "}", "{}", "{5}", "{0}", "{5+}", "{-1}", "{a}", "\"", "\"\"", "\"\\", "\\", "\\\"", "*", "%", "+", ":", ",", ".",
	"NIL", "nil", "DONE", "done", "NOT", "OR", "ALL", "UID", "CHARSET", "BODY[", "BODY[]", "BODY.PEEK[", "BODY[1.2.3", "BODY[]<0.", "<0.0>", "<1>", "1:*", "*:*", "1:", ":1", "1,", ",1", "1,,2",
	"FLAGS", "(FLAGS", "\\Seen", "\\", "\\*", "+FLAGS", "-FLAGS.SILENT", "INBOX", "inbox", "\"INBOX\"", "~", "&", "&-", "&AOk-", "=", "==",
	"\x00", "\x01", "\x07", "\x08", "\t", "\x0b", "\x0c", "\x1b", "\x1c", "\x1d", "\x1e", "\x1f", "\x7f", "\x80", "\xff", "\xc3\xa9", "\xe2\x98\x83", "\xfe\xff",
	// charsets: supported, registered with IANA but not implemented, unknown
	"UTF-8", "US-ASCII", "UTF-7", "utf-7", "UTF-32", "ISO-2022-KR", "ISO-10646-UCS-2", "BOCU-1", "x-unknown",
	"", " ", "  ", "0", "00", "1", "4294967295", "4294967296", "9223372036854775807", "9223372036854775808", "18446744073709551615", "18446744073709551616", "18446744073709551617",
	"1-Jan-2020", "\"1-Jan-2020\"", "32-Jan-2020", "1-Foo-2020", "\" 1-Jan-2020 00:00:00 +0000\"", "\"01-Jan-2020 25:61:61 +9999\"",
	"LOGIN", "STARTTLS", "IDLE", "LOGOUT", "APPEND", "FETCH", "SEARCH", "STORE",
}

// bigNumber draws a number of 1..40 digits, with the boundaries of the integer types in mind.
func (x *gen) bigNumber(label string) string {
	switch x.n(label+"-class", 0, 5) {
	case 0:
		return pickOf(x, label, []string{"0", "1", "2147483647", "2147483648", "4294967295", "4294967296", "4294967297", "9223372036854775807", "9223372036854775808",
			"18446744073709551615", "18446744073709551616", "18446744073709551617", "99999999999999999999", "0000000000000000000000000000000000000001",
			"9999999999999999999999999999999999999999", "31457279", "31457280", "31457281"})
	case 1:
		return strconv.Itoa(x.n(label, 0, 1<<31))
	default:
		d := x.n(label+"-digits", 1, 40)
		bs := rapid.SliceOfN(rapid.ByteRange('0', '9'), d, d).Draw(x.t, label)

		return string(bs)
	}
}

// wrapInt is what rfcparser.ParseNumber makes of a digit string (silent wrap-around, candidate F-C16a).
func wrapInt(digits string) int {
	n := 0
	for i := 0; i < len(digits); i++ {
		n = n*10 + int(digits[i]-'0')
	}

	return n
}

const literalCap = 30 * 1024 * 1024

// In-process, a literal size that gluon would accept must stay allocatable: with the 30 MiB cap gone (sensitivity
// run) a multi-terabyte allocation would kill the test process (out of memory: exit 2) instead of failing the case.
const maxInProcessLiteral = 3 << 30

// hostileLiteralSize draws the digits of a literal size at and beyond the cap.
func (x *gen) hostileLiteralSize() string {
	for {
		var s string

		switch x.n("litsize-class", 0, 3) {
		case 0:
			s = pickOf(x, "litsize", []string{"31457280", "31457281", "33554432", "99999999", "1000000000", "2147483647", "2147483648", "3000000000",
				"9223372036854775808", "18446744073709551615", "99999999999999999999", "18446744073740980224"})
		case 1:
			s = strconv.Itoa(x.n("litsize", literalCap, maxInProcessLiteral))
		default:
			s = x.bigNumber("litsize")
		}

		// at or beyond the cap in gluon's reading of the digits (or wrapped to a negative size), yet allocatable
		if v := wrapInt(s); v > maxInProcessLiteral || (v >= 0 && v < literalCap) {
			continue
		}

		return s
	}
}

func (x *gen) longAtom(label string) []byte {
	n := pickOf(x, label+"-len", []int{64, 255, 1024, 4095, 4096, 4097, x.maxAtom})
	return bytes.Repeat([]byte{pickOf(x, label+"-char", []byte("aA1-._/x"))}, n)
}

func (x *gen) hostileToken(label string) []byte {
	switch x.n(label+"-class", 0, 9) {
	case 0:
		return []byte(x.bigNumber(label))
	case 1:
		return x.longAtom(label)
	case 2:
		return []byte{byte(x.n(label+"-byte", 0, 255))}
	default:
		return []byte(pickOf(x, label, hostileTokens))
	}
}

// ---------------------------------------------------------------------------------------------------------------------
// Mutations
// ---------------------------------------------------------------------------------------------------------------------

var mutationKinds = []string{"tokdel", "tokdup", "tokswap", "tokrepl", "tokins", "bignum", "bytes", "crlf", "trailing", "quote", "tagmut", "longatom"}

// mutate applies 1..3 mutations to an encoded valid command.
func (x *gen) mutate() unit {
	base := x.valid("")
	ts := lex(base.B)
	label := ""

	k := 1
	if x.chance("mut-more", 1, 4) {
		k = x.n("mut-count", 2, 3)
	}

	for i := 0; i < k; i++ {
		kind := pickOf(x, "mutation", mutationKinds)
		ts = x.apply(kind, ts)

		if label == "" {
			label = kind
		}
	}

	b := join(ts)
	tag, has := lineTag(b)

	return unit{B: b, Kind: unitMutated, Label: label, Accountable: accountableLine(b), Tag: tag, HasTag: has}
}

func (x *gen) apply(kind string, ts []tok) []tok {
	if len(ts) == 0 {
		return ts
	}

	// the final CRLF stays in place unless the mutation is about line ends
	last := len(ts)
	if ts[last-1].kind == tCRLF {
		last--
	}

	idx := func(label string) int {
		if last <= 0 {
			return 0
		}

		return x.n(label, 0, last-1)
	}

	cp := func() []tok { return append([]tok(nil), ts...) }

	switch kind {
	case "tokdel":
		i := idx("del-at")
		out := cp()

		return append(out[:i], out[i+1:]...)
	case "tokdup":
		i := idx("dup-at")
		out := append([]tok(nil), ts[:i+1]...)
		reps := 1
		if x.chance("dup-many", 1, 5) {
			reps = x.n("dup-reps", 2, 200)
		}

		for r := 0; r < reps; r++ {
			out = append(out, ts[i])
		}

		return append(out, ts[i+1:]...)
	case "tokswap":
		i, j := idx("swap-a"), idx("swap-b")
		out := cp()
		out[i], out[j] = out[j], out[i]

		return out
	case "tokrepl":
		i := idx("repl-at")
		out := cp()
		out[i] = tok{x.hostileToken("repl"), tPunct}

		return out
	case "tokins":
		i := idx("ins-at")
		out := append([]tok(nil), ts[:i]...)
		out = append(out, tok{x.hostileToken("ins"), tPunct})
		if x.chance("ins-sp", 1, 2) {
			out = append(out, tok{[]byte(" "), tSP})
		}

		return append(out, ts[i:]...)
	case "bignum":
		var nums []int

		for i, t := range ts {
			if t.kind == tNumber {
				nums = append(nums, i)
			}
		}

		out := cp()
		if len(nums) == 0 {
			i := idx("num-at")
			out[i] = tok{[]byte(x.bigNumber("num")), tNumber}

			return out
		}

		i := pickOf(x, "num-at", nums)
		out[i] = tok{[]byte(x.bigNumber("num")), tNumber}

		return out
	case "bytes":
		b := join(ts[:last])
		for r := x.n("byte-muts", 1, 4); r > 0 && len(b) > 0; r-- {
			p := x.n("byte-at", 0, len(b)-1)

			var v byte

			switch x.n("byte-class", 0, 3) {
			case 0:
				v = byte(x.n("byte", 0, 31))
			case 1:
				v = byte(x.n("byte", 127, 255))
			default:
				v = byte(x.n("byte", 0, 255))
			}

			switch x.n("byte-op", 0, 2) {
			case 0:
				b[p] = v
			case 1:
				b = append(b[:p], append([]byte{v}, b[p:]...)...)
			default:
				b = append(b[:p], b[p+1:]...)
			}
		}

		return append([]tok{{b, tPunct}}, ts[last:]...)
	case "crlf":
		// line-end damage: bare LF, bare CR, CR CR LF, LF CR, none, or a line end in the middle
		out := cp()
		form := pickOf(x, "crlf-form", []string{"\n", "\r", "\r\r\n", "\n\r", "", "\r\n\r\n", " \r\n", "\r \n"})

		if x.chance("crlf-mid", 1, 3) {
			i := idx("crlf-at")
			out = append(append(append([]tok(nil), ts[:i]...), tok{[]byte(form), tPunct}), ts[i:]...)

			return out
		}

		if last < len(ts) {
			out[last] = tok{[]byte(form), tPunct}
		}

		return out
	case "trailing":
		// garbage behind a complete command
		out := append([]tok(nil), ts[:last]...)
		if x.chance("trail-sp", 3, 4) {
			out = append(out, tok{[]byte(" "), tSP})
		}

		out = append(out, tok{x.hostileToken("trail"), tPunct})

		return append(out, ts[last:]...)
	case "quote":
		// an unbalanced quote: drop one end of a quoted string, or add a lone quote
		out := cp()

		var qs []int

		for i, t := range ts {
			if t.kind == tQuoted && len(t.b) >= 2 {
				qs = append(qs, i)
			}
		}

		if len(qs) > 0 && x.chance("quote-existing", 2, 3) {
			i := pickOf(x, "quote-at", qs)
			if x.chance("quote-end", 1, 2) {
				out[i] = tok{ts[i].b[:len(ts[i].b)-1], tPunct}
			} else {
				out[i] = tok{ts[i].b[1:], tPunct}
			}

			return out
		}

		i := idx("quote-at")
		out = append(append(append([]tok(nil), ts[:i]...), tok{[]byte("\""), tPunct}), ts[i:]...)

		return out
	case "tagmut":
		// the tag is everything up to the first SP
		sp := 0
		for sp < len(ts) && ts[sp].kind != tSP {
			sp++
		}

		repl := pickOf(x, "tag", []string{"", "+", "*", "(", "a(b", "\x00", "\x7f", "\xff", "DONE", "done", "a+", "\"a\"", "{1}", "a b", " ", "1", "]", "a\\", "%"})
		if x.chance("tag-long", 1, 6) {
			repl = string(x.longAtom("tag"))
		}

		return append([]tok{{[]byte(repl), tPunct}}, ts[min(sp, len(ts)):]...)
	case "longatom":
		i := idx("long-at")
		out := cp()
		out[i] = tok{x.longAtom("long"), tWord}

		return out
	}

	return ts
}

// soup builds a line from hostile tokens.
func (x *gen) soup() unit {
	var b []byte

	if x.chance("soup-tag", 3, 4) {
		b = append(b, x.g.Tag()...)
		b = append(b, ' ')
	}

	if x.chance("soup-cmd", 2, 3) {
		b = append(b, pickOf(x, "soup-cmd", c10.CommandNames)...)
		b = append(b, ' ')
	}

	for i, n := 0, x.n("soup-len", 0, 12); i < n; i++ {
		b = append(b, x.hostileToken("soup")...)
		if x.chance("soup-sp", 4, 5) {
			b = append(b, ' ')
		}
	}

	b = append(b, '\r', '\n')
	tag, has := lineTag(b)

	return unit{B: b, Kind: unitSoup, Label: "soup", Accountable: accountableLine(b), Tag: tag, HasTag: has}
}

var nestPrefixes = []string{"SEARCH ", "UID SEARCH ", "SEARCH CHARSET UTF-8 ", "SEARCH NOT ", "SEARCH OR ALL ", "FETCH 1 ", "FETCH 1 (BODY[", "STORE 1 FLAGS ", "ID ", "APPEND x ",
	"LIST ", "STATUS x ", "SEARCH HEADER ", "FETCH 1 BODY[HEADER.FIELDS ", "UID FETCH 1:* "}

// nest builds one command line with depth levels of nesting. Closed or not, terminated or not.
func nestLine(tag, prefix, open, leaf, close string, depth int, closed bool, term string) []byte {
	var sb bytes.Buffer

	sb.Grow(len(tag) + len(prefix) + depth*(len(open)+len(close)) + 16)
	sb.WriteString(tag)
	sb.WriteByte(' ')
	sb.WriteString(prefix)

	for i := 0; i < depth; i++ {
		sb.WriteString(open)
	}

	sb.WriteString(leaf)

	if closed {
		for i := 0; i < depth; i++ {
			sb.WriteString(close)
		}
	}

	sb.WriteString(term)

	return sb.Bytes()
}

var nestShapes = []struct{ open, close, leaf string }{
	{"(", ")", "ALL"}, {"NOT ", "", "ALL"}, {"OR ALL ", "", "ALL"}, {"OR (", ") ALL", "ALL"}, {"(NOT ", ")", "SEEN"}, {"[", "]", "1"}, {"1.", "", "1]"},
	{"((", "))", "1"}, {"(", ")", ""}, {"OR ", "", "ALL ALL"}, {"1,", "", "1"}, {"1:", "", "1"}, {"<", ">", "1"}, {"\"", "\"", "x"}, {"\\", "", "x"}, {"BODY[", "]", ""},
}

func (x *gen) nestDepth() int {
	switch x.n("nest-class", 0, 3) {
	case 0:
		return x.n("nest-depth", 1, 64)
	case 1:
		return x.n("nest-depth", 64, 1024)
	default:
		return x.n("nest-depth", 1024, x.maxNest)
	}
}

func (x *gen) nest() unit {
	sh := pickOf(x, "nest-shape", nestShapes)
	prefix := pickOf(x, "nest-prefix", nestPrefixes)
	closed := x.chance("nest-closed", 2, 3)
	term := "\r\n"

	b := nestLine(x.g.Tag(), prefix, sh.open, sh.leaf, sh.close, x.nestDepth(), closed, term)
	tag, has := lineTag(b)

	return unit{B: b, Kind: unitNest, Label: "nest", Accountable: accountableLine(b), Tag: tag, HasTag: has}
}

// bigLiteral: a valid command cut behind its first literal header, whose size is replaced by a hostile one. This is
// what a client following RFC 3501 sends before it waits for the continuation request: a complete line.
func (x *gen) bigLiteral() (unit, bool) {
	for try := 0; try < 8; try++ {
		base := x.valid(pickOf(x, "biglit-cmd", []string{"APPEND", "LOGIN", "SEARCH", "LIST", "CREATE", "SELECT"}))
		ts := lex(base.B)

		for i, t := range ts {
			if t.kind == tLitHdr {
				hdr := "{" + x.hostileLiteralSize() + "}\r\n"
				b := append(join(ts[:i]), hdr...)
				tag, has := lineTag(b)

				return unit{B: b, Kind: unitBigLit, Label: "biglit", Accountable: true, Tag: tag, HasTag: has}, true
			}
		}
	}

	return unit{}, false
}

func (x *gen) raw() unit {
	var b []byte

	switch x.n("raw-class", 0, 3) {
	case 0:
		b = rapid.SliceOfN(rapid.Byte(), 0, 300).Draw(x.t, "raw")
	case 1:
		b = rapid.SliceOfN(rapid.SampledFrom([]byte("aA1 \r\n\r\n(){}\"\\*%[]<>.:,+-\x00\x7f\x80\xff")), 0, 300).Draw(x.t, "raw")
	case 2:
		b = c10.Expand(pickOf(x, "raw-size", []int{100, 4095, 4096, 4097, 20000}), uint64(x.n("raw-seed", 0, 1<<30)), x.n("raw-kind", 0, 2))
	default:
		b = []byte(strings.Repeat(pickOf(x, "raw-rep", []string{"\r\n", "\n", "\r", " ", "a ", "a\r\n", "\"", "{1}\r\n", "(", "\x00", "A NOOP\r\n", "DONE\r\n", "\"\r\n"}), x.n("raw-reps", 1, 3000)))
	}

	return unit{B: b, Kind: unitRaw, Label: "raw"}
}

// ---------------------------------------------------------------------------------------------------------------------
// Steering around listed known findings (generator side)
// ---------------------------------------------------------------------------------------------------------------------

// steer rewrites a unit so that it stays outside the region of the listed known findings that would otherwise end
// the case at once; it counts what it changed.
func (x *gen) steer(u unit, first bool) unit {
	if u.Kind == unitValid {
		return u
	}

	// F-C11e: while listed, a '"' in a damaged line may open a quoted string that runs across the line end.
	if kf.Listed(kfQuotedCRLF) && u.Accountable && bytes.IndexByte(u.B, '"') >= 0 {
		u.Accountable = false
		x.excluded++
	}

	return u
}

func (x *gen) steerStart(s *stream) {
	// F-C11f: while listed, the first byte of a connection must be able to start a tag.
	if kf.Listed(kfFirstLineEOF) && len(s.Units) > 0 {
		b := s.Units[0].B
		if len(b) == 0 || !gluonTagStart(b[0]) {
			lead := unit{B: []byte("lead NOOP\r\n"), Kind: unitValid, Label: "valid", Cmd: command.Command{Tag: "lead", Payload: &command.Noop{}}, Accountable: true, Tag: "lead", HasTag: true}
			s.Units = append([]unit{lead}, s.Units...)
			x.excluded++
		}
	}
}

// gluonTagStart: bytes that gluon's parseTag accepts as the first byte of a line (IsAStringChar except '+').
func gluonTagStart(b byte) bool {
	if b <= 0x20 {
		return false
	}

	return !strings.ContainsRune("(){\"\\+", rune(b))
}

// ---------------------------------------------------------------------------------------------------------------------
// Streams
// ---------------------------------------------------------------------------------------------------------------------

func (x *gen) unit() unit {
	switch x.n("unit-class", 0, 19) {
	case 0, 1, 2, 3, 4, 5:
		return x.valid("")
	case 6, 7, 8, 9, 10, 11, 12:
		return x.mutate()
	case 13, 14:
		return x.soup()
	case 15:
		return x.nest()
	case 16:
		if u, ok := x.bigLiteral(); ok {
			return u
		}

		return x.soup()
	case 17:
		return x.raw()
	case 18:
		return x.appendHostile()
	default:
		return x.valid("NOOP")
	}
}

// hostileMessages: small message literals whose header values the message parsers stumble over (a comment, quoted
// string, group or domain literal that is never closed; an empty boundary; an embedded message). A well-formed APPEND
// that carries one of them is a complete command: it is answered, whatever the answer is.
var hostileMessages = []string{
	"From: a@b.c (unfinished\r\nDate: Mon, 7 Feb 1994 21:52:25 -0800 (PST)\r\n\r\nx\r\n", "From: a@b.c\r\nDate: Mon, 7 Feb 1994 21:52:25 -0800 (PST)\r\nTo: other@example.com (unfinished\r\n\r\nx\r\n", "From: a@b.c\r\nDate: Mon, 7 Feb 1994 21:52:25 -0800 (PST)\r\nCc: x@y (a (b (c\r\n\r\n",
	"From: \"never closed <a@b.c>\r\nDate: Mon, 7 Feb 1994 21:52:25 -0800 (PST)\r\n\r\n", "From: a@b.c\r\nDate: Mon, 7 Feb 1994 21:52:25 -0800 (PST)\r\nBcc: group: x@y, z@w\r\n\r\n", "From: <a@b.c\r\nDate: Mon, 7 Feb 1994 21:52:25 -0800 (PST)\r\nSender: ((((((\r\n\r\n",
	"From: a@b.c\r\nDate: Mon, 7 Feb 1994 21:52:25 -0800 (PST)\r\nReply-To: a@[1.2.3\r\nDate: (((\r\n\r\n", "From: a@b.c\r\nDate: Mon, 7 Feb 1994 21:52:25 -0800 (PST)\r\nContent-Type: multipart/mixed; boundary=\"\r\n\r\n--\r\n",
	"From: a@b.c\r\nDate: Mon, 7 Feb 1994 21:52:25 -0800 (PST)\r\nContent-Type: message/rfc822\r\n\r\nTo: x (y\r\n", "From: a@b.c\r\nDate: Mon, 7 Feb 1994 21:52:25 -0800 (PST)\r\nTo: \\\r\n\r\n", "From: a@b.c\r\nDate: Mon, 7 Feb 1994 21:52:25 -0800 (PST)\r\nSubject: =?utf-8?q?=\r\nTo: (\r\n\r\n",
}

func (x *gen) appendHostile() unit {
	c := command.Command{Tag: x.g.Tag(), Payload: &command.Append{Mailbox: "INBOX", Literal: []byte(pickOf(x, "hostile-message", hostileMessages))}}

	enc, _ := c10.Encode(c10.RapidSrc{T: x.t}, c, c10.Avoid{})
	tag, has := lineTag(enc.Bytes)

	return unit{B: enc.Bytes, Kind: unitValid, Label: "append-hostile-message", Cmd: c, Literals: enc.Literals, Accountable: true, Tag: tag, HasTag: has}
}

// stream draws a command stream: valid commands with damaged ones in between, possibly cut at a drawn point.
func (x *gen) stream(maxUnits int) *stream {
	s := &stream{Cut: -1}

	n := x.n("units", 1, maxUnits)
	for i := 0; i < n; i++ {
		s.Units = append(s.Units, x.steer(x.unit(), i == 0))
	}

	x.finish(s, true)

	return s
}

// finish applies the steering of the listed findings and (possibly) ends the stream at a drawn point.
func (x *gen) finish(s *stream, mayCut bool) {
	x.steerStart(s)

	if x.wire {
		sanitizeWire(x, s)
	}

	if mayCut && x.chance("cut", 1, 3) {
		x.cut(s)
	}

	x.steerEnd(s)
}

// cut ends the stream at a drawn point: inside a token of a drawn class of a drawn unit (usually the last).
func (x *gen) cut(s *stream) {
	ui := len(s.Units) - 1
	if x.chance("cut-unit-any", 1, 4) {
		ui = x.n("cut-unit", 0, len(s.Units)-1)
	}

	base := 0
	for i := 0; i < ui; i++ {
		base += len(s.Units[i].B)
	}

	u := s.Units[ui]
	if len(u.B) == 0 {
		return
	}

	ts := lex(u.B)
	want := tokKind(x.n("cut-class", 0, int(tCRLF)+1)) // +1: anywhere

	var cands []int

	off := make([]int, len(ts)+1)
	for i, t := range ts {
		off[i+1] = off[i] + len(t.b)

		if int(want) <= int(tCRLF) && t.kind == want && len(t.b) > 0 {
			cands = append(cands, i)
		}
	}

	pos, in := 0, "any"

	if len(cands) > 0 {
		i := pickOf(x, "cut-token", cands)
		in = tokKindNames[ts[i].kind]

		if i == 0 || (i <= 2 && ts[i].kind != tSP && off[i] < len(u.B) && !bytes.Contains(u.B[:off[i]], []byte(" "))) {
			in = "tag"
		}

		switch {
		case len(ts[i].b) > 1 && x.chance("cut-inside", 4, 5):
			pos = off[i] + x.n("cut-off", 1, len(ts[i].b)-1)
		case x.chance("cut-before", 1, 2):
			pos = off[i]
			in += "-before"
		default:
			pos = off[i+1]
			in += "-after"
		}
	} else {
		pos = x.n("cut-pos", 0, len(u.B))
	}

	s.Cut = base + pos
	s.CutIn = in

}

// steerEnd: F-C11a: while listed, the stream must not end inside a quoted string: it is ended in front of the quote.
func (x *gen) steerEnd(s *stream) {
	if kf.Listed(kfQuotedEOF) {
		if b, changed := steerQuotedEOF(s.bytes()); changed {
			s.Cut = len(b)
			s.CutIn = "steered-quote"
			x.excluded++
		}
	}
}

// steerQuotedEOF (F-C11a, while listed): if the loop spins at the end of b and the Parse call in flight has read a
// '"', the stream is ended in front of that quote instead; repeated until the loop ends. The predicate is exact: only
// streams that really run into the finding are changed.
func steerQuotedEOF(b []byte) ([]byte, bool) {
	changed := false

	for bytes.IndexByte(b, '"') >= 0 {
		res := runLoop(b, loopOpts{noMem: true, spinLimit: 200})
		if res.Exit != exitSpin {
			break
		}

		q := bytes.LastIndexByte(res.InFlight, '"')
		if q < 0 {
			break // not this finding: left to the oracle
		}

		b = b[:res.InFlightStart+q]
		changed = true
	}

	return b, changed
}

func (s *stream) describe() string {
	var sb strings.Builder

	for i, u := range s.Units {
		fmt.Fprintf(&sb, "  unit %d [%s acc=%v tag=%q]: %s\n", i, u.Label, u.Accountable, u.Tag, summarise(u.B))
	}

	if s.Cut >= 0 {
		fmt.Fprintf(&sb, "  stream ends after %d bytes (inside: %s)\n", s.Cut, s.CutIn)
	}

	return sb.String()
}
