// Package c11 decides property C11: arbitrary client bytes never crash, hang or bloat the server; every complete
// command line is answered by exactly one completion carrying the line's tag; the session stays usable (or is closed
// after the documented number of consecutive errors); other sessions are unaffected.
// See /verif/DESIGN.md "### C11". Layer A (loop_test.go, layera_test.go, child_test.go) runs the exact loop of
// internal/session.startCommandReader in-process; layer B (wire_test.go) talks to a real server over loopback TCP.
package c11

import (
	"os"
	"path/filepath"
	"testing"

	"verif/internal/ev"
)

const rule = "stream contains >= 1 line the parser rejects and >= 1 later accepted line, or ends inside a token"

func TestMain(m *testing.M) {
	if os.Getenv(childEnvInput) != "" || os.Getenv(childEnvServer) != "" {
		// child mode (crash-prone inputs / child server): no evidence part of its own
		os.Unsetenv("VERIF_PARTS_DIR")
	}

	ev.Main(m, "C11", "exploration", rule,
		"a 'complete command line' is a CRLF-terminated line together with the data of its well-formed literals; the line that follows an accepted IDLE belongs to the IDLE command (it ends it) and the pair is answered by one tagged completion",
		"line accounting is judged on the line-accountable class only: lines without '{' and without bare CR / LF (RFC 3501 leaves the framing after a rejected literal header to the client)",
		"deep nesting runs in a child process whose goroutine stack is capped at 16 MiB (the parsers bound their recursion at 100 levels, so no input needs more): an unbounded recursion shows as a fatal stack overflow at some ten thousand levels instead of millions; every recursive search-key shape is driven deep under every SEARCH prefix in every run",
		"layer B also cuts the client off in the other direction (TestWireCutMidResponse): the connection is reset while the server is still writing an answer far larger than the socket buffers; the session must end, the other session goes on and Close returns",
		"memory growth is decided against a linear budget c*len(input)+k (+ the 30 MiB literal cap for one pending literal), not proved",
		"STARTTLS with TLS configured is not exercised (the shared test bed has no TLS option); without TLS it is an ordinary command line")
}

func verifRoot() string {
	if r := os.Getenv("VERIF_ROOT"); r != "" {
		return r
	}

	return "/verif"
}

func foundDir() string {
	d := filepath.Join(verifRoot(), "replays", "c11", "found")
	_ = os.MkdirAll(d, 0o755)

	return d
}

func replayDir() string { return filepath.Join(verifRoot(), "replays", "c11") }
