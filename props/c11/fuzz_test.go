package c11

import (
	"bytes"
	"os"
	"path/filepath"
	"strings"
	"testing"

	"github.com/ProtonMail/gluon/imap/command"

	"verif/internal/ev"
	"verif/internal/kf"
	"verif/props/c10"
)

// hostile constants (also the seeds of the native fuzz targets)
var hostileStreams = []string{
	"", "\r\n", "\n", "\r", " ", "A1", "A1 ", "A1 NOOP", "A1 NOOP\r", "A1 NOOP\n", "A1 NOOP\r\n", "A1 NOOP x\r\nA2 NOOP\r\n", "(\r\nA2 NOOP\r\n",
	"A1 LOGIN \"abc", "A1 LOGIN \"abc\r\nA2 NOOP\r\n", "A1 LOGIN \"a\\", "A1 LOGIN \"a\\\"", "A1 LOGIN {3}\r\nab", "A1 LOGIN {3", "A1 LOGIN {", "A1 LOGIN {3}\r", "A1 LOGIN {3}",
	"A1 LOGIN {31457280}\r\nA2 NOOP\r\n", "A1 LOGIN {31457279}\r\n", "A1 LOGIN {9223372036854775808}\r\n", "A1 LOGIN {18446744073709551617}\r\nab c\r\n", "A1 LOGIN {0}\r\n {0}\r\n\r\n",
	"A1 APPEND INBOX (\\Seen) \" 1-Jan-2020 00:00:00 +0000\" {5}\r\nabcde\r\n", "A1 FETCH 1:* (BODY[HEADER.FIELDS (a b)]<0.1> FLAGS)\r\n", "A1 FETCH 99999999999999999999 FLAGS\r\n",
	"A1 FETCH 1 BODY[1.2.3.4.5.6.7.8.9.MIME]<4294967295.4294967295>\r\n", "A1 UID FETCH *:* FAST\r\n", "A1 STORE 1,2,,3 +FLAGS (\\Seen)\r\n", "A1 SEARCH ((((((((ALL\r\n",
	"A1 SEARCH NOT NOT NOT NOT (OR ALL (NOT ALL))\r\n", "A1 SEARCH CHARSET {1}\r\nx ALL\r\n", "A1 SEARCH CHARSET UTF-7 ALL\r\n", "A1 UID SEARCH CHARSET utf-32 SUBJECT x\r\n", "A1 NOOP\x1f\r\n", "A1 SEARCH OR\r\n", "A1 SEARCH ()\r\n", "A1 SEARCH BEFORE 32-Foo-99999\r\n",
	"A1 IDLE\r\nDONE\r\n", "DONE\r\n", "done x\r\n", "A1 IDLE\r\nA2 NOOP\r\n", "A1 STARTTLS\r\nA2 NOOP\r\n", "\x16\x03\x01\x00\xa5\x01\x00\x00\xa1\x03\x03", "A1 \x16\x03\x01\r\n",
	"A1 ID (\"a\" NIL \"b\" \"c\")\r\n", "A1 ID (", "A1 ID NIL\r\n", "A1 LIST \"\" {1}\r\n*\r\n", "A1 LIST (((\r\n", "A1 STATUS x (MESSAGES MESSAGES", "A1 UID\r\n", "A1 UID UID UID\r\n",
	"\x00\x00\x00", "\xff\xfe\xfd\r\n", "A\x00 NOOP\r\n", "A1 NOOP\x00\r\n", "A1 SELECT \"\x00\"\r\n", "A1 SELECT &AOk-\r\n", "+ NOOP\r\n", "* NOOP\r\n", "a]b[ NOOP\r\n",
	"A1 LOGOUT\r\nA2 NOOP\r\n", "A1 CREATE \"a\r\nb\"\r\n", "A1 RENAME a\r\n", "A1 COPY 1:* \r\n", "A1 MOVE * *\r\n", "A1 UID EXPUNGE 1:2:3\r\n",
}

func replayFiles() [][]byte {
	var out [][]byte

	names, _ := filepath.Glob(filepath.Join(replayDir(), "*.bin"))
	for _, n := range names {
		if b, err := os.ReadFile(n); err == nil {
			out = append(out, b)
		}
	}

	return out
}

// c10Samples: a deterministic sample of valid commands from the C10 generator's canonical encoder.
func c10Samples() [][]byte {
	var out [][]byte

	src := &c10.XorSrc{X: 0x9e3779b97f4a7c15}

	fixed := []command.Command{
		{Tag: "a1", Payload: &command.Login{UserID: "user", Password: "pass word"}},
		{Tag: "a2", Payload: &command.Select{Mailbox: "INBOX"}},
		{Tag: "a3", Payload: &command.Append{Mailbox: "Sent Items", Flags: []string{`\Seen`}, Literal: []byte("From: a@b\r\n\r\nhi\r\n")}},
		{Tag: "a4", Payload: &command.List{Mailbox: "", ListMailbox: "*"}},
		{Tag: "a5", Payload: &command.Create{Mailbox: "a/b/c"}},
		{Tag: "a6", Payload: &command.Rename{From: "a", To: "b"}},
		{Tag: "a7", Payload: &command.Idle{}},
		{Payload: &command.Done{}},
		{Tag: "a8", Payload: &command.Logout{}},
	}

	for _, c := range fixed {
		for i := 0; i < 3; i++ {
			enc, _ := c10.Encode(src, c, c10.Avoid{})
			out = append(out, enc.Bytes)
		}
	}

	return out
}

func fuzzFilter(input []byte) ([]byte, int) {
	excluded := 0

	if len(input) > 1<<20 {
		input = input[:1<<20]
	}

	if kf.Listed(kfFirstLineEOF) && len(input) > 0 && !gluonTagStart(input[0]) {
		input = append([]byte("lead NOOP\r\n"), input...)
		excluded++
	}

	if kf.Listed(kfQuotedEOF) {
		var changed bool
		if input, changed = steerQuotedEOF(input); changed {
			excluded++
		}
	}

	// F-C11d (while listed): a megabyte of input cannot reach the crashing depth; nothing to steer.
	// In-process safety (see maxInProcessLiteral): literal sizes that gluon would accept beyond 3 GiB are not run.
	for _, m := range litHeaderRe.FindAllSubmatch(input, -1) {
		if v := wrapInt(string(m[1])); v > maxInProcessLiteral {
			return nil, excluded
		}
	}

	return input, excluded
}

func fuzzOne(t *testing.T, layer string, input []byte, sizes []int) {
	input, excluded := fuzzFilter(input)
	if input == nil {
		return
	}

	res, timedOut := runLoopWatched(input, loopOpts{sizes: sizes}, loopBudget(len(input)))
	v := judge(nil, input, res, timedOut)
	v.excluded += excluded

	record(layer, nil, input, v, "exit:"+res.Exit)
	conclude(t, v, func() string {
		return "input (" + layer + "): " + summarise(input) + "\niterations:\n" + describeIters(input, res)
	})
}

// FuzzLoop: raw bytes through the command reader loop.
func FuzzLoop(f *testing.F) {
	for _, s := range hostileStreams {
		f.Add([]byte(s), uint8(0))
	}

	for _, b := range c10Samples() {
		f.Add(b, uint8(1))
	}

	for _, b := range replayFiles() {
		f.Add(b, uint8(0))
	}

	f.Fuzz(func(t *testing.T, input []byte, chunk uint8) {
		var sizes []int
		if chunk > 0 {
			sizes = []int{int(chunk)}
		}

		fuzzOne(t, "A:fuzz", input, sizes)
	})
}

// FuzzLoopLines: the fuzzer's bytes are spliced as one line between well-formed commands, so that what follows a
// damaged line is looked at as well: the NOOP behind it must be accepted with its tag whenever the line is of the
// line-accountable class.
func FuzzLoopLines(f *testing.F) {
	for _, s := range hostileStreams {
		f.Add([]byte(strings.TrimSuffix(s, "\r\n")))
	}

	for _, b := range c10Samples() {
		f.Add([]byte(strings.TrimSuffix(string(b), "\r\n")))
	}

	f.Fuzz(func(t *testing.T, line []byte) {
		if len(line) > 1<<16 {
			return
		}

		mid := append(append([]byte(nil), line...), '\r', '\n')
		tag, has := lineTag(mid)
		s := &stream{Cut: -1, Units: []unit{
			{B: []byte("f1 NOOP\r\n"), Kind: unitValid, Label: "valid", Accountable: true, Tag: "f1", HasTag: true},
			{B: mid, Kind: unitMutated, Label: "fuzz-line", Accountable: accountableLine(mid), Tag: tag, HasTag: has},
			{B: []byte("f2 NOOP\r\n"), Kind: unitValid, Label: "valid", Accountable: true, Tag: "f2", HasTag: true},
		}}

		excluded := 0

		if kf.Listed(kfQuotedCRLF) && s.Units[1].Accountable && strings.Contains(string(mid), `"`) {
			s.Units[1].Accountable = false
			excluded++
		}

		input, ex2 := fuzzFilter(s.bytes())
		if input == nil || len(input) != len(s.bytes()) {
			return
		}

		res, timedOut := runLoopWatched(input, loopOpts{}, loopBudget(len(input)))
		v := judge(s, input, res, timedOut)
		v.excluded += excluded + ex2

		record("A:fuzz-lines", s, input, v, "exit:"+res.Exit)
		conclude(t, v, func() string {
			return "stream:\n" + s.describe() + "iterations:\n" + describeIters(input, res)
		})
	})
}

// TestCalibration prints the observed memory maxima of the loop (development aid: C11_CALIBRATE=1; always passes).
// Last run: long single lines <= 44 bytes allocated per input byte above the fixed part (sequence sets, nested search
// keys); short lines <= 530 bytes per iteration (rejected: error values; accepted: ~400 for `DONE`); fixed part ~8 KiB.
func TestCalibration(t *testing.T) {
	if os.Getenv("C11_CALIBRATE") == "" {
		t.Skip("set C11_CALIBRATE=1")
	}

	var maxPerByte, maxPerIter float64

	var worstValid, worstIter string

	measure := func(input []byte) {
		res := runLoop(input, loopOpts{})
		if len(input) < 64 || bytes.IndexByte(input, '{') >= 0 {
			return
		}

		rej := 0

		for _, it := range res.Iters {
			if !it.Accepted {
				rej++
			}
		}

		if 2*rej < len(res.Iters)+2 {
			if r := (float64(res.Alloc) - 9000) / float64(len(input)); r > maxPerByte {
				maxPerByte, worstValid = r, summarise(input)
			}
		} else if r := (float64(res.Alloc) - 9000 - 50*float64(len(input))) / float64(rej); r > maxPerIter {
			maxPerIter, worstIter = r, summarise(input)
		}
	}

	for _, s := range hostileStreams {
		measure([]byte(strings.Repeat(s, 40)))
	}

	for _, b := range c10Samples() {
		measure(bytes.Repeat(b, 40))
	}

	for _, b := range replayFiles() {
		measure(b)
	}

	for _, rep := range []string{"1,", "1:2,", "(", "NOT ", "OR ALL ", "a ", "\n", "x\n", "\r\n", "a\r\n", "A NOOP\r\n", "A B\r\n"} {
		measure(append([]byte("A1 FETCH "), strings.Repeat(rep, 20000)...))
		measure([]byte(strings.Repeat(rep, 20000)))
		measure(append([]byte("A1 SEARCH "), strings.Repeat(rep, 20000)...))
	}

	t.Logf("valid / single-line input: max %.1f bytes allocated per input byte: %s", maxPerByte, worstValid)
	t.Logf("rejected lines: max %.1f bytes per iteration (above 50 per byte): %s", maxPerIter, worstIter)

	_ = ev.Tier()
}
