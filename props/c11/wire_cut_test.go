package c11

import (
	"bytes"
	"fmt"
	"net"
	"os"
	"strings"
	"testing"
	"time"

	"github.com/ProtonMail/gluon/events"
	"github.com/ProtonMail/gluon/imap"
	"pgregory.net/rapid"

	"verif/internal/bed"
	"verif/internal/ev"
	"verif/internal/kf"
)

var _ = kf.Listed

// "cut off by a disconnect" in the other direction: the client vanishes while the server is still writing the answer
// to a command with many (large) responses. The session must end all the same - its goroutines, its socket and its
// state may not stay - the other session goes on, and Close returns.
func TestWireCutMidResponse(t *testing.T) {
	ev.Checks(6, 40)
	ev.ShrinkTime(5 * time.Second)

	defer ev.ShrinkTime(30 * time.Second)

	rapid.Check(t, func(t *rapid.T) {
		// mostly: far more than the socket buffers take (only then a write of the server fails while the command is
		// still producing responses), and more responses outstanding than any channel in between buffers
		n := rapid.SampledFrom([]int{48, 96, 48, 12, 300}).Draw(t, "messages")
		size := rapid.SampledFrom([]int{524288, 262144, 524288, 4096, 200}).Draw(t, "size")

		if n*size > 32<<20 {
			size = (32 << 20) / n
		}

		item := rapid.SampledFrom([]string{"(BODY.PEEK[])", "(BODY.PEEK[] FLAGS)", "RFC822", "(BODY.PEEK[])", "(FLAGS UID)", "(ENVELOPE BODYSTRUCTURE)"}).Draw(t, "item")
		cmdText := rapid.SampledFrom([]string{"FETCH 1:* ", "UID FETCH 1:* "}).Draw(t, "cmd") + item
		readLines := rapid.IntRange(0, 3).Draw(t, "readLines")
		budget := 10 * time.Second

		b, err := bed.Start(bed.Options{ClientTimeout: budget}, bed.UserSpec{Name: wireUser, Pass: wirePass})
		if err != nil {
			t.Fatalf("VERIF-INCONCLUSIVE: bed: %v", err)
		}

		stopped := false

		defer func() {
			if !stopped {
				b.Destroy()
			}
		}()

		u := b.Users[0]

		// the messages arrive through one connector update
		body := bytes.Repeat([]byte("0123456789abcdef0123456789abcdef0123456789abcdef0123456789abcde\r\n"), size/65+1)

		var mcs []*imap.MessageCreated

		for i := 0; i < n; i++ {
			lit := append([]byte(fmt.Sprintf("From: a@example.com\r\nTo: b@example.com\r\nSubject: cut %d\r\nDate: Mon, 7 Feb 1994 21:52:25 -0800\r\n\r\n", i)), body[:size]...)

			_, mc, err := u.Conn.NewRemoteMessage(lit, imap.NewFlagSet(), time.Unix(1600000000, 0), u.Inbox.ID)
			if err != nil {
				t.Fatalf("harness: %v", err)
			}

			mcs = append(mcs, mc)
		}

		if d := b.DeliverNow(u, imap.NewMessagesCreated(false, mcs...)); d[0].Err != nil {
			t.Fatalf("harness: seeding INBOX: %v", d[0].Err)
		}

		ctl, err := b.Login("ctl", u)
		if err != nil {
			t.Fatalf("VERIF-INCONCLUSIVE: control session: %v", err)
		}

		watch := b.Server.AddWatcher(events.SessionAdded{}, events.SessionRemoved{})
		added, removed := 0, 0

		drain := func(d time.Duration) bool {
			deadline := time.After(d)

			for {
				if added > 0 && removed >= added {
					return true
				}

				select {
				case e := <-watch:
					switch e.(type) {
					case events.SessionAdded:
						added++
					case events.SessionRemoved:
						removed++
					}
				case <-deadline:
					return false
				}
			}
		}

		rc, err := dialRaw(b.Addr)
		if err != nil {
			t.Fatalf("VERIF-INCONCLUSIVE: dial: %v", err)
		}

		if _, err := rc.next(budget); err != nil {
			t.Fatalf("VERIF-INCONCLUSIVE: greeting: %v", err)
		}

		for i, c := range []string{fmt.Sprintf("LOGIN %s %s", wireUser, wirePass), "SELECT INBOX"} {
			if cpl, err := rc.cmd(fmt.Sprintf("P%d", i), c, budget); err != nil || cpl.Status != "OK" {
				t.Fatalf("VERIF-INCONCLUSIVE: %s: %v %v", c, cpl, err)
			}
		}

		if _, err := rc.c.Write([]byte("X1 " + cmdText + "\r\n")); err != nil {
			t.Fatalf("VERIF-INCONCLUSIVE: write: %v", err)
		}

		for i := 0; i < readLines; i++ {
			_ = rc.c.SetReadDeadline(time.Now().Add(budget))

			if _, err := rc.r.ReadString('\n'); err != nil {
				break
			}
		}

		// the client vanishes: RST, not FIN
		if tc, ok := rc.c.(*net.TCPConn); ok {
			_ = tc.SetLinger(0)
		}

		_ = rc.c.Close()

		desc := fmt.Sprintf("%d messages of %d bytes in INBOX; X1 %s; the client reads %d line(s) of the answer and resets the connection", n, size, cmdText, readLines)

		if r := ctl.Cmd("NOOP"); !r.OK() {
			t.Fatalf("VERIF-VIOLATION C11: the untouched second session is affected: NOOP -> %s\n%s", r, desc)
		}

		if !drain(budget) {
			dump := sessionGoroutines()

			if !drain(2 * budget) {
				// the session that is stuck would also keep Server.Close from returning, for every shrinking attempt again
				abortRun(fmt.Sprintf("VERIF-VIOLATION C11: non-termination: the session has not ended %v after its client had reset the connection in the middle of the answer\n%s\ngoroutines of the session (taken after %v):\n%s", 3*budget, desc, budget, dump))
			}

			t.Fatalf("VERIF-INCONCLUSIVE: the session took more than %v to end after the reset\n%s", budget, desc)
		}

		if r := ctl.Cmd("NOOP"); !r.OK() {
			t.Fatalf("VERIF-VIOLATION C11: the untouched second session is affected after the reset: NOOP -> %s\n%s", r, desc)
		}

		ctl.Logout()

		if err := b.CheckPanics(); err != nil {
			t.Fatalf("VERIF-VIOLATION C11: crash: %v\n%s", err, desc)
		}

		stopped = true

		if err := b.Stop(); err != nil && strings.Contains(err.Error(), "did not return") {
			t.Fatalf("VERIF-VIOLATION C11: %v\n%s", err, desc)
		}

		b.Destroy()

		ev.Case(n >= 12, ev.Hash(n, size, cmdText, readLines), "B:cut-mid-response", fmt.Sprintf("cut-messages:%d", n))

		if ev.WantSample() {
			ev.Sample(map[string]any{"layer": "B:cut-mid-response", "scenario": desc})
		}
	})
}

// abortRun ends the test binary at once with the given verdict (a panic in a goroutine of its own is not recovered by
// rapid): the stuck session cannot be removed, and every further attempt would wait for it again.
func abortRun(msg string) {
	fmt.Fprintln(os.Stderr, msg)

	go func() { panic(msg) }()

	select {}
}
