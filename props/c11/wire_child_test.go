package c11

import (
	"bytes"
	"fmt"
	"net"
	"os"
	"os/exec"
	"path/filepath"
	"strings"
	"testing"
	"time"

	"verif/internal/bed"
)

// A server in a child process: for inputs that are expected to kill it (the observation is the exit status).
// The child is this test binary re-executed with -test.run=^TestChildServer$; it writes its address to the file named
// by C11_CHILD_SERVER and serves until it is killed.
func TestChildServer(t *testing.T) {
	path := os.Getenv(childEnvServer)
	if path == "" {
		t.Skip("child mode only")
	}

	b, err := bed.Start(bed.Options{}, bed.UserSpec{Name: wireUser, Pass: wirePass})
	if err != nil {
		t.Fatalf("child server: %v", err)
	}

	defer b.Destroy()

	// bed records panics instead of dying; a real embedder (default handler) dies. Stack exhaustion is fatal anyway.
	if err := os.WriteFile(path+".tmp", []byte(b.Addr), 0o644); err != nil {
		t.Fatalf("child server: %v", err)
	}

	_ = os.Rename(path+".tmp", path)

	time.Sleep(10 * time.Minute) // the parent kills the child when it is done
}

type childServer struct {
	cmd  *exec.Cmd
	out  *bytes.Buffer
	Addr string
	dir  string
	done chan error
}

func startChildServer() (*childServer, error) {
	dir, err := os.MkdirTemp("", "c11-server-")
	if err != nil {
		return nil, err
	}

	path := filepath.Join(dir, "addr")
	cs := &childServer{out: &bytes.Buffer{}, dir: dir, done: make(chan error, 1)}
	cs.cmd = exec.Command(os.Args[0], "-test.run=^TestChildServer$", "-test.count=1", "-test.timeout=0")
	cs.cmd.Env = append(os.Environ(), childEnvServer+"="+path, "VERIF_PARTS_DIR=")
	cs.cmd.Stdout, cs.cmd.Stderr = cs.out, cs.out

	if err := cs.cmd.Start(); err != nil {
		os.RemoveAll(dir)
		return nil, err
	}

	go func() { cs.done <- cs.cmd.Wait() }()

	for i := 0; i < 600; i++ {
		if b, err := os.ReadFile(path); err == nil && len(b) > 0 {
			cs.Addr = string(b)
			return cs, nil
		}

		select {
		case err := <-cs.done:
			os.RemoveAll(dir)
			return nil, fmt.Errorf("child server ended at once: %v\n%s", err, truncate(cs.out.String(), 2000))
		case <-time.After(50 * time.Millisecond):
		}
	}

	cs.stop()

	return nil, fmt.Errorf("child server did not come up")
}

func (cs *childServer) stop() {
	_ = cs.cmd.Process.Kill()

	select {
	case <-cs.done:
	case <-time.After(10 * time.Second):
	}

	os.RemoveAll(cs.dir)
}

// sendAndWatch writes the bytes on a fresh, unauthenticated connection and reports whether the server process died
// within the budget (and what it printed).
func (cs *childServer) sendAndWatch(b []byte, budget time.Duration) (died bool, exit error, output string, err error) {
	c, err := net.DialTimeout("tcp", cs.Addr, 10*time.Second)
	if err != nil {
		return false, nil, "", err
	}

	defer c.Close()

	go func() {
		buf := make([]byte, 4096)
		for {
			if _, err := c.Read(buf); err != nil {
				return
			}
		}
	}()

	_ = c.SetWriteDeadline(time.Now().Add(budget))
	_, _ = c.Write(b)

	select {
	case exit = <-cs.done:
		cs.done <- exit
		return true, exit, cs.out.String(), nil
	case <-time.After(budget):
		return false, nil, "", nil
	}
}

// wireCrash: does the input kill a real server process when sent by a client that has not logged in?
func wireCrash(input []byte, budget time.Duration) (string, bool, error) {
	cs, err := startChildServer()
	if err != nil {
		return "", false, err
	}

	defer cs.stop()

	died, exit, out, err := cs.sendAndWatch(input, budget)
	if err != nil {
		return "", false, err
	}

	if !died {
		return "", false, nil
	}

	return fmt.Sprintf("server process exited (%v) after %d bytes from an unauthenticated client:\n%s", exit, len(input), crashSummary(out)), strings.Contains(out, "stack overflow") || strings.Contains(out, "fatal error") || strings.Contains(out, "panic:"), nil
}
