package c11

import (
	"fmt"
	"regexp"
	"strings"
	"testing"

	"pgregory.net/rapid"

	"verif/internal/ev"
	"verif/internal/kf"
)

// ---------------------------------------------------------------------------------------------------------------------
// Oracle of layer A
// ---------------------------------------------------------------------------------------------------------------------

// Memory budget of the loop: linear in the input. Calibrated on valid and rejected input (TestCalibration prints the
// observed maxima): the parser allocates < 50 bytes per input byte on the densest valid constructs (sequence sets,
// nested search keys), < 600 bytes per iteration on short lines (error values of rejected lines, the command value
// of accepted ones), ~8 KiB fixed (parser, 4 KiB bufio buffer).
const (
	memPerByte = 64
	memPerIter = 1024
	memFixed   = 64 << 10
)

var litHeaderRe = regexp.MustCompile(`\{([0-9]+)\}`)

// pendingLiteral: the largest literal size below the cap that the input announces (in gluon's reading of the digits).
// One announced literal may be allocated without its data ever arriving (the stream ends): the cap bounds it.
func pendingLiteral(input []byte) uint64 {
	best := 0

	for _, m := range litHeaderRe.FindAllSubmatch(input, -1) {
		if v := wrapInt(string(m[1])); v > best && v < literalCap {
			best = v
		}
	}

	return uint64(best)
}

func memBudget(input []byte, iters int) uint64 {
	// literal data is held twice (the literal, and the input collector's copy of the bytes read), amortised append
	// growth on top: covered by memPerByte.
	return memPerByte*uint64(len(input)) + memPerIter*uint64(iters) + memFixed + 2*pendingLiteral(input)
}

type verdict struct {
	violation    string
	inconclusive string
	excluded     int
	rejected     int
	accepted     int
	rejThenAcc   bool
	endsInToken  bool
	accountedFor int // units checked against iterations
}

func (v *verdict) fail(format string, a ...any) {
	if v.violation == "" {
		v.violation = fmt.Sprintf(format, a...)
	}
}

// judge applies the oracle to one run. units may be nil (raw input: global oracles only).
func judge(s *stream, input []byte, res loopResult, timedOut bool) (v verdict) {
	seenRej := false

	for _, it := range res.Iters {
		if it.Accepted {
			v.accepted++

			if seenRej {
				v.rejThenAcc = true
			}
		} else if it.End > it.Start && it.End <= len(input) && it.End > 0 && input[it.End-1] == '\n' {
			// a rejected *line* (the last, partial iteration at the end of the stream is not a line)
			v.rejected++
			seenRej = true
		}
	}

	v.endsInToken = len(input) > 0 && !strings.HasSuffix(string(input[max(0, len(input)-2):]), "\r\n")

	end := 0
	if n := len(res.Iters); n > 0 {
		end = res.Iters[n-1].End
	}

	if res.Exit == exitConsumeEOF {
		// ReadBytes('\n') ran into the end of the stream (the collector does not record the bytes of a failed read)
		end = len(input)
	}

	switch res.Exit {
	case exitPanic:
		v.fail("the command reader loop panicked (gluon's default panic handler does not recover: process exit): %s", res.Panic)
		return v
	case exitSpin:
		// re-check rule (§1.6), deterministic form: allow 100 times as many reads after the end of the stream
		res2 := runLoop(input, loopOpts{spinLimit: 100000, noMem: true})
		if res2.Exit == exitSpin {
			v.fail("non-termination: after the end of the stream the loop went on reading (%d and then %d more reads, each answered with EOF) without returning", res.PostEOFReads, res2.PostEOFReads)
		} else {
			v.inconclusive = fmt.Sprintf("the loop read %d times after the end of the stream, but ended (%s) within %d reads on re-check", res.PostEOFReads, res2.Exit, res2.PostEOFReads)
		}

		return v
	case exitAbort:
		timedOut = true
	case exitIterCap:
		v.fail("the loop ran %d iterations on %d bytes of input (every Parse but the last must consume at least one byte)", len(res.Iters), len(input))
		return v
	}

	if timedOut {
		// re-check rule (§1.6): once more, in a child process that can be killed, with the doubled budget
		p := saveFound(input, "loop-slow")
		b := 2 * loopBudget(len(input))
		cv := runChildLoop(input, b)

		switch cv.status {
		case "timeout":
			v.fail("non-termination: the loop did not return within %v and, re-run in a child process, not within %v either (input saved as %s)", loopBudget(len(input)), b, p)
		default:
			v.inconclusive = fmt.Sprintf("the loop exceeded its time budget %v once; on re-check in a child: %s after %v (input saved as %s)", loopBudget(len(input)), cv.status, cv.elapsed, p)
		}

		return v
	}

	if res.Mismatch != "" {
		v.fail("input accounting: %s", res.Mismatch)
		return v
	}

	switch res.Exit {
	case exitEOFToken, exitConsumeEOF:
		if end != len(input) {
			if kf.Listed(kfFirstLineEOF) && len(res.Iters) == 1 && res.Exit == exitEOFToken {
				v.excluded++ // should have been steered; tolerated only in raw input
			} else {
				v.fail("the loop took the error %q for the end of the stream and returned after %d of %d bytes: the connection is dropped with %d bytes unanswered (exit: %s)",
					res.ExitErr, end, len(input), len(input)-end, res.Exit)
			}
		}
	case exitNonParser:
		// io.EOF inside a literal body is the end of the stream; anything else drops the session without an answer
		if !(res.ExitErr == "EOF" && end == len(input)) {
			if kf.Listed(kfLiteralSize) && (strings.Contains(res.ExitErr, "literal size exceeds maximum size") || strings.Contains(res.ExitErr, "invalid literal size")) {
				v.excluded++
			} else {
				v.fail("Parse returned the non-parser error %q after %d of %d bytes: the reader goroutine returns and the connection is dropped without any response (not even BAD) to the line", res.ExitErr, end, len(input))
			}
		}
	case exitTLS:
		// documented: "TLS Handshake detected while not running with TLS/SSL" closes the connection
	}

	if budget := memBudget(input, len(res.Iters)); res.Alloc > budget {
		v.fail("memory: the loop allocated %d bytes on %d bytes of input in %d iterations; budget %d*len + %d*iterations + %d + 2*pending literal (%d) = %d",
			res.Alloc, len(input), len(res.Iters), memPerByte, memPerIter, memFixed, pendingLiteral(input), budget)
	}

	if s == nil || v.violation != "" {
		return v
	}

	// line accounting: unit i must be answered by iteration i, byte for byte, while the units are accountable
	off := 0

	for i, u := range s.Units {
		a, b := off, off+len(u.B)
		off = b

		if !u.Accountable || b > len(input) {
			break
		}

		if i >= len(res.Iters) {
			if res.Exit == exitNonParser || res.Exit == exitTLS || end != len(input) {
				break // already judged above (or tolerated as a listed finding)
			}

			v.fail("line accounting: unit %d (%s) %s was never handed to the session: %d iterations", i, u.Label, summarise(u.B), len(res.Iters))

			break
		}

		if i == len(res.Iters)-1 && (res.Exit == exitNonParser || res.Exit == exitTLS || res.Exit == exitEOFToken) {
			break // the iteration that ended the loop: judged above
		}

		it := res.Iters[i]
		if it.Start != a || it.End != b {
			if it.End > b && kf.Listed(kfQuotedCRLF) && strings.Contains(string(u.B), `"`) {
				v.excluded++
				break
			}

			v.fail("line accounting: the complete line of unit %d (%s) is input[%d:%d] = %s, but iteration %d consumed input[%d:%d] = %s (accepted=%v err=%q): one completion for what is not exactly one line",
				i, u.Label, a, b, summarise(u.B), i, it.Start, it.End, summarise(input[it.Start:min(it.End, len(input))]), it.Accepted, it.Err)

			break
		}

		if u.Kind == unitValid && !it.Accepted {
			v.fail("usability: the well-formed command of unit %d %s is rejected (%s) after the preceding lines", i, summarise(u.B), it.Err)
			break
		}

		if u.Kind == unitValid && it.Conts != u.Literals {
			v.fail("unit %d %s: %d continuation requests for %d literals", i, summarise(u.B), it.Conts, u.Literals)
			break
		}

		if u.HasTag && it.Tag != u.Tag {
			if kf.Listed(kfTagLost) && it.Tag == "" && it.ParsedTag == u.Tag && (strings.Contains(it.Err, "expected CR") || strings.Contains(it.Err, "expected LF after CR")) {
				v.excluded++
			} else {
				v.fail("tag: the line of unit %d (%s) %s starts with the tag %q, but its completion (accepted=%v, err=%q) is sent with the tag %q", i, u.Label, summarise(u.B), u.Tag, it.Accepted, it.Err, it.Tag)
				break
			}
		}

		v.accountedFor++
	}

	return v
}

// ---------------------------------------------------------------------------------------------------------------------
// Properties
// ---------------------------------------------------------------------------------------------------------------------

func chunkSizes(t *rapid.T) []int {
	switch rapid.IntRange(0, 4).Draw(t, "chunking") {
	case 0:
		return []int{1}
	case 1:
		return rapid.SliceOfN(rapid.IntRange(1, 9), 1, 5).Draw(t, "chunks")
	case 2:
		return rapid.SliceOfN(rapid.SampledFrom([]int{1, 2, 3, 7, 100, 4095, 4096, 4097, 0}), 1, 4).Draw(t, "chunks")
	default:
		return []int{0}
	}
}

func record(layer string, s *stream, input []byte, v verdict, extra ...string) {
	labels := append([]string{layer}, extra...)

	if s != nil {
		seen := map[string]bool{}

		for _, u := range s.Units {
			l := "unit:" + u.Label
			if !seen[l] {
				seen[l] = true
				labels = append(labels, l)
			}
		}

		if s.Cut >= 0 {
			labels = append(labels, "cut:"+s.CutIn)
		}

		if v.accountedFor > 0 {
			ev.Class("accounted-lines", v.accountedFor)
		}
	}

	if v.rejThenAcc {
		labels = append(labels, "rejected-then-accepted")
	}

	if v.endsInToken {
		labels = append(labels, "ends-inside-token")
	}

	ev.Case(v.rejThenAcc || v.endsInToken, hashBytes(input), labels...)

	if v.excluded > 0 {
		ev.Excluded(v.excluded)
	}

	if ev.WantSample() {
		ev.Sample(map[string]any{"layer": layer, "bytes": escaped(input, 300), "len": len(input), "labels": labels})
	}
}

func conclude(t interface {
	Fatalf(string, ...any)
}, v verdict, describe func() string) {
	if v.violation != "" {
		t.Fatalf("VERIF-VIOLATION C11: %s\n%s", v.violation, describe())
	}

	if v.inconclusive != "" {
		t.Fatalf("VERIF-INCONCLUSIVE: %s\n%s", v.inconclusive, describe())
	}
}

// TestLoopMutated: valid command streams with structure-aware damage, cut at a drawn point.
func TestLoopMutated(t *testing.T) {
	ev.Checks(12000, 60000)

	rapid.Check(t, func(t *rapid.T) {
		x := newGen(t, false)
		s := x.stream(6)
		sizes := chunkSizes(t)
		input := s.bytes()

		res, timedOut := runLoopWatched(input, loopOpts{sizes: sizes}, loopBudget(len(input)))
		v := judge(s, input, res, timedOut)
		v.excluded += x.excluded

		record("A:mutated", s, input, v, "exit:"+res.Exit)
		conclude(t, v, func() string {
			return fmt.Sprintf("stream (%d bytes, chunk sizes %v, loop exit %s):\n%sbytes: %s\niterations:\n%s", len(input), sizes, res.Exit, s.describe(), summarise(input), describeIters(input, res))
		})
	})
}

// TestLoopRaw: raw bytes.
func TestLoopRaw(t *testing.T) {
	ev.Checks(5000, 30000)

	rapid.Check(t, func(t *rapid.T) {
		x := newGen(t, false)

		var input []byte

		for i, n := 0, rapid.IntRange(1, 3).Draw(t, "parts"); i < n; i++ {
			if rapid.IntRange(0, 3).Draw(t, "part-class") == 0 {
				input = append(input, x.soup().B...)
			} else {
				input = append(input, x.raw().B...)
			}
		}

		excluded := 0

		if kf.Listed(kfFirstLineEOF) && (len(input) > 0 && !gluonTagStart(input[0])) {
			input = append([]byte("lead NOOP\r\n"), input...)
			excluded++
		}

		if kf.Listed(kfQuotedEOF) {
			var changed bool
			if input, changed = steerQuotedEOF(input); changed {
				excluded++
			}
		}

		sizes := chunkSizes(t)
		res, timedOut := runLoopWatched(input, loopOpts{sizes: sizes}, loopBudget(len(input)))
		v := judge(nil, input, res, timedOut)
		v.excluded += excluded

		record("A:raw", nil, input, v, "exit:"+res.Exit)
		conclude(t, v, func() string {
			return fmt.Sprintf("raw input (%d bytes, chunk sizes %v, loop exit %s): %s\niterations:\n%s", len(input), sizes, res.Exit, summarise(input), describeIters(input, res))
		})
	})
}

func describeIters(input []byte, res loopResult) string {
	var sb strings.Builder

	for i, it := range res.Iters {
		if i >= 12 {
			fmt.Fprintf(&sb, "  ... %d more\n", len(res.Iters)-i)
			break
		}

		fmt.Fprintf(&sb, "  %d: input[%d:%d] %s -> accepted=%v tag=%q parsedTag=%q cmd=%q err=%q\n", i, it.Start, it.End, summarise(input[min(it.Start, len(input)):min(it.End, len(input))]), it.Accepted, it.Tag, it.ParsedTag, it.Cmd, it.Err)
	}

	return sb.String()
}
