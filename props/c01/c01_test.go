package c01

import (
	"strings"
	"testing"
	"time"

	"github.com/ProtonMail/gluon"
	"pgregory.net/rapid"

	"verif/internal/bed"
	"verif/internal/ev"
	"verif/internal/kf"
	"verif/internal/mach"
)

// lateLowerUID recognises the listed finding through the verif instrumentation: a message that was announced to
// this session by EXISTS (i.e. as the last message) has been sorted into the middle of its view, or the session's own
// addition was refused because a higher UID had entered the view first. From then on sequence numbers of client and
// server differ, whatever the symptom of the first mismatch is.
func lateLowerUID(s *mach.Sess) bool { return gluon.VerifOutOfOrderInserts(s.StateID) > 0 }

// probe compares one session's Mirror with what the server answers to that session.
func probe(t *rapid.T, w *mach.World, s *mach.Sess, rec *mach.Rec) {
	if s.Dead || s.Idling != nil || s.Selected == "" || rec.Stop {
		return
	}

	problems := func() bool { return len(s.Mirror.Problems) > 0 }

	_, err := s.Probe(s.CompareWithMirror)
	if (err != nil || problems()) && lateLowerUID(s) && kf.Report(mach.KfLateLowerUID) {
		w.Label("known:" + mach.KfLateLowerUID)
		rec.Stop = true

		return
	}

	if err != nil {
		t.Fatalf("C01 violated in session %s (mailbox %s): %v\nhistory:\n%s", s.Name, s.Selected, err, w.Bed.Hist)
	}

	if problems() {
		t.Fatalf("C01 response stream violation in %s: %v\nhistory:\n%s", s.Name, s.Mirror.Problems, w.Bed.Hist)
	}

	if s.Foreign > 0 {
		rec.Nontrivial = true
		s.Foreign = 0
	}

	w.Label("probe")
}

func run(t *rapid.T, deterministic bool) {
	nBoxes := rapid.IntRange(1, 3).Draw(t, "nBoxes")
	cfg := mach.Config{
		NSess:         rapid.IntRange(1, 4).Draw(t, "nSess"),
		Boxes:         []string{"INBOX", "A", "B"}[:nBoxes],
		Deterministic: deterministic,
		Prefill:       3,
		Opts:          bed.Options{DisableParallelism: rapid.Bool().Draw(t, "noParallel")},
	}

	if rapid.Bool().Draw(t, "idleBulk") {
		cfg.Opts.IdleBulk = 10 * time.Millisecond
	}

	w := mach.NewWorld(t, cfg)
	defer w.Close()

	rec := &mach.Rec{}
	rec.Op("cfg sess=%d boxes=%d det=%v bulk=%v nopar=%v", cfg.NSess, nBoxes, deterministic, cfg.Opts.IdleBulk, cfg.Opts.DisableParallelism)

	w.SelectAll(t, rec, 0)

	panics := func() {
		if err := w.Bed.CheckPanics(); err != nil {
			t.Fatalf("C01: %v\nhistory:\n%s", err, w.Bed.Hist)
		}
	}

	t.Repeat(w.Actions(rec, mach.Hooks{
		Weights: map[string]int{"store": 2, "fetch": 1, "release": 2, "expunge": 1},
		Invariant: func(t *rapid.T) {
			panics()

			for _, s := range w.S {
				if rapid.IntRange(0, 2).Draw(t, "probe?") > 0 {
					probe(t, w, s, rec)
				}
			}
		},
	}))

	if rec.Stop {
		ev.Case(false, 0, "known-finding-hit")
		return
	}

	// final: quiescence, then every session must still agree with its own Mirror
	w.EndIdles()
	w.ReleaseAll()

	for _, s := range w.S {
		probe(t, w, s, rec)
	}

	panics()

	labels := []string{}
	for l := range w.Labels {
		labels = append(labels, l)
	}

	if rec.Stop {
		labels = append(labels, "known-finding-hit")
	}

	ev.Case(rec.Nontrivial && !rec.Stop, ev.Hash(strings.Join(rec.Ops, ";")), labels...)

	for l, n := range w.Labels {
		ev.Class("n:"+l, n)
	}

	if ev.WantSample() {
		ev.Sample(rec.Ops)
	}
}

func TestC01Deterministic(t *testing.T) {
	ev.Checks(250, 1500)
	rapid.Check(t, func(t *rapid.T) { run(t, true) })
}

func TestC01Racy(t *testing.T) {
	ev.Checks(60, 700)
	rapid.Check(t, func(t *rapid.T) { run(t, false) })
}
