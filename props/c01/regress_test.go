package c01

import (
	"testing"
	"time"

	"github.com/ProtonMail/gluon/imap"

	"verif/internal/bed"
	"verif/internal/imapc"
	"verif/internal/kf"
	"verif/internal/mach"
)

// Plain regression checks (no rapid): shrunk failures of the C01 machine frozen as scripts.

func scriptBed(t *testing.T, prefill int) (*bed.Bed, *bed.User) {
	t.Helper()

	b, err := bed.Start(bed.Options{}, bed.UserSpec{Name: "user", Pass: "pass"})
	if err != nil {
		t.Fatal(err)
	}

	t.Cleanup(b.Destroy)

	u := b.Users[0]

	for i := 0; i < prefill; i++ {
		_, mc, err := u.Conn.NewRemoteMessage(mach.Msg("p"+string(rune('a'+i)), ""), imap.NewFlagSet(), time.Unix(1600000000, 0), u.Inbox.ID)
		if err != nil {
			t.Fatal(err)
		}

		if d := b.DeliverNow(u, imap.NewMessagesCreated(false, mc)); d[0].Err != nil {
			t.Fatal(d[0].Err)
		}
	}

	return b, u
}

func login(t *testing.T, b *bed.Bed, u *bed.User, name string) *bed.Session {
	t.Helper()

	s, err := b.Login(name, u)
	if err != nil {
		t.Fatal(err)
	}

	t.Cleanup(s.Logout)

	return s
}

func must(t *testing.T, b *bed.Bed, s *bed.Session, cmd string) {
	t.Helper()

	if r := s.Do(cmd); !r.OK() {
		t.Fatalf("%s: %v\n%s", cmd, r, b.Hist)
	}
}

// fixed: CLOSE with a pending addition, two removals and another addition (EXISTS 3, suppressed EXPUNGEs, EXISTS 2)
// panicked in response.Merge ("consecutive exists must be non-decreasing"), i.e. crashed the server.
func TestRegress_CloseWithPendingAddRemoveAdd(t *testing.T) {
	b, u := scriptBed(t, 2)
	s0, s1 := login(t, b, u, "s0"), login(t, b, u, "s1")

	s0.Select("INBOX", false)
	s1.Select("INBOX", false)
	s0.GateClose()

	if r := s1.DoParts(imapc_T("APPEND INBOX "), imapc_L(mach.Msg("b", ""))); !r.OK() {
		t.Fatal(r)
	}

	must(t, b, s1, `STORE 1:2 +FLAGS (\Deleted)`)
	must(t, b, s1, `EXPUNGE`)

	if r := s1.DoParts(imapc_T("APPEND INBOX "), imapc_L(mach.Msg("c", ""))); !r.OK() {
		t.Fatal(r)
	}

	s0.Release(-1)

	if err := b.Barrier(u); err != nil {
		t.Fatal(err)
	}

	r := s0.Unselect(true)
	if err := b.CheckPanics(); err != nil {
		t.Fatalf("C01 (crash): %v\n%s", err, b.Hist)
	}

	if !r.OK() {
		t.Fatalf("CLOSE: %v\n%s", r, b.Hist)
	}

	s0.Select("INBOX", false)

	if _, err := s0.Probe(s0.CompareWithMirror); err != nil || len(s0.Mirror.Msgs) != 2 {
		t.Fatalf("after CLOSE + SELECT: %v, mirror %s\n%s", err, s0.Mirror.String(), b.Hist)
	}
}

// known C01-late-lower-uid: the session appends to its own selected mailbox while the EXISTS of an earlier addition
// by the connector is still queued for it.
func TestKnown_C01_late_lower_uid(t *testing.T) {
	b, u := scriptBed(t, 1)
	s0 := login(t, b, u, "s0")

	s0.Select("INBOX", false)

	if _, err := s0.Probe(s0.CompareWithMirror); err != nil {
		t.Fatal(err)
	}

	s0.GateClose()

	// connector adds UID 2 (held back), then the session itself appends UID 3
	_, mc, _ := u.Conn.NewRemoteMessage(mach.Msg("x", ""), imap.NewFlagSet(), time.Unix(1600000000, 0), u.Inbox.ID)
	b.DeliverNow(u, imap.NewMessagesCreated(false, mc))

	if r := s0.DoParts(imapc_T("APPEND INBOX "), imapc_L(mach.Msg("y", ""))); !r.OK() {
		t.Fatal(r)
	}

	if _, err := s0.Probe(s0.CompareWithMirror); err != nil {
		t.Fatalf("before release: %v", err)
	}

	s0.Release(-1)

	if err := b.Barrier(u); err != nil {
		t.Fatal(err)
	}

	must(t, b, s0, "NOOP")

	_, err := s0.Probe(s0.CompareWithMirror)
	if err == nil {
		return // no longer reproduces
	}

	if !kf.Report(mach.KfLateLowerUID) {
		t.Fatalf("C01 violated (late lower UID, not listed as known): %v\n%s", err, b.Hist)
	}
}

func imapc_T(s string) imapc.Part { return imapc.T(s) }
func imapc_L(b []byte) imapc.Part { return imapc.L(b) }
