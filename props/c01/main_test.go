package c01

import (
	"testing"

	"verif/internal/ev"
)

func TestMain(m *testing.M) {
	ev.Main(m, "C01", "exploration",
		"rapid state machine: 1-4 sessions of one user on 1-3 mailboxes plus connector updates; per-session update gate decides when queued updates reach a session; after every step a drawn subset of sessions is probed (UID FETCH 1:* (FLAGS INTERNALDATE)) and compared with the Mirror built from untagged EXISTS/EXPUNGE/FETCH only. Non-trivial: a case in which at least one snapshot change from another party (other session or connector) reached a probed session between two of its probes; distinct by hash of the drawn operation sequence.",
		"the verif gate only delays delivery of queued updates per session (FIFO kept): a schedule Go's select could produce",
		"probe = UID FETCH in the same session; it flushes non-expunge responders, which are applied after the comparison")
}
