package c07

import (
	"testing"

	"verif/internal/ev"
)

func TestMain(m *testing.M) {
	ev.Main(m, "C07", "fault_enumeration",
		"per case: a drawn pre-state (built from acknowledged operations on a live server, compared with the reference model) and one operation out of APPEND, COPY, MOVE, EXPUNGE, CREATE (implicit parents), DELETE, RENAME (inferiors / INBOX), SUBSCRIBE/UNSUBSCRIBE, connector MessagesCreated (batch), MessageUpdated (new literal), MessageDeleted, MessageMailboxesUpdated. A counting run through pass-through wrappers of store.Store, db.Client.Read/Write, every db.ReadOnly/db.Transaction method and the commit numbers the operation's steps. One ev.Case per (pre-state, operation, boundary, mode): mode error = the step returns an error (in process), kill-before / kill-after = a child process running server and operation SIGKILLs itself at the boundary, count = clean run + Close + reopen. Oracle: response NO/error-ack (OK only for steps gluon documents as survivable, then complete); all mailboxes (LIST, LSUB, UIDVALIDITY, UIDNEXT, UIDs, flags, exact bytes) jointly equal the model's BEFORE or AFTER state while serving and after restart (only AFTER if acknowledged); after every start no message row is marked deleted, every store file has a row, the row count equals the model's live messages, the C04 ledger holds and a further APPEND gets a fresh UID. Non-trivial: the fault lies strictly inside the operation (at least one step performed before it and at least one after it); distinct by hash of (pre-state operations, operation, step, mode).",
		"message identity through the X-Verif-Marker header",
		"step boundaries are those of the public store.Store and db.Client/db.Transaction interfaces; SQL statements inside one Transaction method cannot fail separately from outside internal/",
		"a process kill leaves the OS page cache intact: power loss (un-synced pages, torn writes) is out of reach",
		"UIDVALIDITY generator floor carried across process restarts while C04-uidvalidity-generator-restart is listed")
}
