package c07

import (
	"fmt"
	"sort"
	"strings"

	"verif/internal/mach"
)

// Reference model (M-box + M-ns of DESIGN.md §2, restricted to what C07 needs). It computes, for every operation, the
// state AFTER from the state BEFORE. Flags are shared per message, \Deleted is per (mailbox, message). UIDs are
// predicted (a mailbox's UIDNEXT is consumed by every (re-)addition); UIDVALIDITY of a mailbox created by the operation
// is unknown (0) and only checked relationally.

const recoveryName = "Recovered Messages"

// Op is one operation, fully written out (JSON-encodable: it is handed to the crash child).
type Op struct {
	Kind    string     `json:"kind"`
	Box     string     `json:"box,omitempty"`     // selected / target mailbox
	Dst     string     `json:"dst,omitempty"`     // COPY/MOVE destination, RENAME new name
	Pos     []int      `json:"pos,omitempty"`     // 1-based positions in Box (ascending) for COPY/MOVE/STORE
	Flags   []string   `json:"flags,omitempty"`   // APPEND / STORE / connector flags
	Markers []string   `json:"markers,omitempty"` // new messages (APPEND: 1, MessagesCreated: n, MessageUpdated: 1)
	Boxes   [][]string `json:"boxes,omitempty"`   // mailboxes of each new message / of the updated message
	Target  string     `json:"target,omitempty"`  // marker of the existing message a connector update refers to
	On      bool       `json:"on,omitempty"`      // SUBSCRIBE (true) / UNSUBSCRIBE (false); STORE +/-
	// MessagesCreated only: messages the server already has, announced again in the same batch (a re-sync), each with
	// the mailboxes it is announced in (the ones it is in already, possibly one more)
	Known      []string   `json:"known,omitempty"`
	KnownBoxes [][]string `json:"known_boxes,omitempty"`
	// remote ids, filled in when the operation is generated (the remote side is prepared before the run)
	RemoteIDs      []string `json:"remote_ids,omitempty"`
	KnownRemoteIDs []string `json:"known_remote_ids,omitempty"`
}

func (o Op) String() string {
	switch o.Kind {
	case "APPEND":
		return fmt.Sprintf("APPEND %s (%s) <%s>", o.Box, strings.Join(o.Flags, " "), o.Markers[0])
	case "COPY", "MOVE":
		return fmt.Sprintf("%s %s:%v -> %s", o.Kind, o.Box, o.Pos, o.Dst)
	case "STORE":
		return fmt.Sprintf("STORE %s:%v %v (%s)", o.Box, o.Pos, o.On, strings.Join(o.Flags, " "))
	case "FAILAPPEND":
		return fmt.Sprintf("APPEND %s (%s) <%s> refused by the connector (kept in the recovery mailbox)", o.Box, strings.Join(o.Flags, " "), o.Markers[0])
	case "EXPUNGE", "CREATE", "DELETE":
		return o.Kind + " " + o.Box
	case "RENAME":
		return fmt.Sprintf("RENAME %s %s", o.Box, o.Dst)
	case "SUBSCRIBE":
		if o.On {
			return "SUBSCRIBE " + o.Box
		}

		return "UNSUBSCRIBE " + o.Box
	case "MessagesCreated":
		if len(o.Known) > 0 {
			return fmt.Sprintf("connector MessagesCreated %v in %v flags %v, and again the known %v in %v", o.Markers, o.Boxes, o.Flags, o.Known, o.KnownBoxes)
		}

		return fmt.Sprintf("connector MessagesCreated %v in %v flags %v", o.Markers, o.Boxes, o.Flags)
	case "MessageUpdated":
		return fmt.Sprintf("connector MessageUpdated %s -> new literal %s in %v flags %v", o.Target, o.Markers[0], o.Boxes[0], o.Flags)
	case "MessageDeleted":
		return "connector MessageDeleted " + o.Target
	case "MessageMailboxesUpdated":
		return fmt.Sprintf("connector MessageMailboxesUpdated %s -> %v flags %v", o.Target, o.Boxes[0], o.Flags)
	}

	return o.Kind
}

type sMsg struct {
	Marker        string
	Flags         []string // lower-case, sorted, without \deleted and \recent
	MarkedDeleted bool     // marked for deferred deletion (gone after the next start)
}

type sEntry struct {
	UID     uint32
	Marker  string
	Deleted bool
}

type sBox struct {
	Validity   uint32 // 0 = created by the operation under test: value unknown
	UIDNext    uint32
	Subscribed bool
	Entries    []sEntry
}

type State struct {
	Boxes       map[string]*sBox
	DeletedSubs map[string]bool
	Msgs        map[string]*sMsg
	Recovery    []string            // markers of the messages in the recovery mailbox, in UID order
	RecFlags    map[string][]string // their flags (carried along when a message is copied/moved out)
}

func newState() *State {
	return &State{Boxes: map[string]*sBox{}, DeletedSubs: map[string]bool{}, Msgs: map[string]*sMsg{}, RecFlags: map[string][]string{}}
}

func (s *State) clone() *State {
	c := newState()

	for n, b := range s.Boxes {
		nb := *b
		nb.Entries = append([]sEntry(nil), b.Entries...)
		c.Boxes[n] = &nb
	}

	for n := range s.DeletedSubs {
		c.DeletedSubs[n] = true
	}

	for k, m := range s.Msgs {
		nm := *m
		nm.Flags = append([]string(nil), m.Flags...)
		c.Msgs[k] = &nm
	}

	c.Recovery = append([]string(nil), s.Recovery...)

	for k, f := range s.RecFlags {
		c.RecFlags[k] = append([]string(nil), f...)
	}

	return c
}

func literalOf(marker string) []byte { return mach.Msg(marker, "c07") }

func normFlags(flags []string) (shared []string, deleted bool) {
	seen := map[string]bool{}

	for _, f := range flags {
		f = strings.ToLower(f)

		switch {
		case f == `\deleted`:
			deleted = true
		case f == `\recent` || seen[f]:
		default:
			seen[f] = true
			shared = append(shared, f)
		}
	}

	sort.Strings(shared)

	if shared == nil {
		shared = []string{}
	}

	return shared, deleted
}

func superiors(name string) []string {
	parts := strings.Split(name, "/")

	var res []string
	for i := 1; i < len(parts); i++ {
		res = append(res, strings.Join(parts[:i], "/"))
	}

	return res
}

func (b *sBox) index(marker string) int {
	for i, e := range b.Entries {
		if e.Marker == marker {
			return i
		}
	}

	return -1
}

func (b *sBox) remove(marker string) {
	if i := b.index(marker); i >= 0 {
		b.Entries = append(b.Entries[:i:i], b.Entries[i+1:]...)
	}
}

func (b *sBox) push(marker string, deleted bool) uint32 {
	uid := b.UIDNext
	b.UIDNext++
	b.Entries = append(b.Entries, sEntry{UID: uid, Marker: marker, Deleted: deleted})

	return uid
}

// readd is gluon's (re-)addition: messages already in the mailbox are removed first, then all are added in order
// (tests/copy_test.go TestCopySameMBox, tests/move_test.go TestMoveDuplicate).
func (b *sBox) readd(markers []string) {
	for _, m := range markers {
		b.remove(m)
	}

	for _, m := range markers {
		b.push(m, false)
	}
}

func (s *State) boxNames() []string {
	var res []string
	for n := range s.Boxes {
		res = append(res, n)
	}

	sort.Strings(res)

	return res
}

func (s *State) boxesOf(marker string) []string {
	var res []string

	for _, n := range s.boxNames() {
		if s.Boxes[n].index(marker) >= 0 {
			res = append(res, n)
		}
	}

	return res
}

func (s *State) createBox(name string) {
	s.Boxes[name] = &sBox{UIDNext: 1, Subscribed: true}

	// a name that exists again drops the record of its deleted subscription (repair 21fa39b)
	delete(s.DeletedSubs, name)
}

// apply returns the state after the operation (the receiver is not changed).
func (s *State) apply(o Op) *State {
	a := s.clone()

	switch o.Kind {
	case "APPEND":
		shared, del := normFlags(o.Flags)
		a.Msgs[o.Markers[0]] = &sMsg{Marker: o.Markers[0], Flags: shared}
		a.Boxes[o.Box].push(o.Markers[0], del)

	case "FAILAPPEND":
		shared, _ := normFlags(o.Flags)
		a.Recovery = append(a.Recovery, o.Markers[0])
		a.RecFlags[o.Markers[0]] = shared

	case "COPY", "MOVE":
		if o.Box == recoveryName {
			// out of the recovery mailbox: every message is imported as a *new* message (new ids) carrying the
			// recovered one's flags; MOVE also removes the recovered one (marked for deletion)
			// (state.actionCopyMessagesOutOfRecoveryMailbox / actionMoveMessagesOutOfRecoveryMailbox)
			gone := map[string]bool{}

			for _, p := range o.Pos {
				m := a.Recovery[p-1]
				a.Msgs[m] = &sMsg{Marker: m, Flags: append([]string{}, a.RecFlags[m]...)}
				a.Boxes[o.Dst].push(m, false)
				gone[m] = true
			}

			if o.Kind == "MOVE" {
				var keep []string

				for _, m := range a.Recovery {
					if !gone[m] {
						keep = append(keep, m)
					} else {
						delete(a.RecFlags, m)
					}
				}

				a.Recovery = keep
			}

			break
		}

		var mk []string
		for _, p := range o.Pos {
			mk = append(mk, a.Boxes[o.Box].Entries[p-1].Marker)
		}

		if o.Kind == "MOVE" {
			for _, m := range mk {
				a.Boxes[o.Box].remove(m)
			}
		}

		a.Boxes[o.Dst].readd(mk)

	case "STORE":
		shared, del := normFlags(o.Flags)

		for _, p := range o.Pos {
			e := &a.Boxes[o.Box].Entries[p-1]
			m := a.Msgs[e.Marker]
			set := map[string]bool{}

			for _, f := range m.Flags {
				set[f] = true
			}

			for _, f := range shared {
				if o.On {
					set[f] = true
				} else {
					delete(set, f)
				}
			}

			m.Flags = []string{}
			for f := range set {
				m.Flags = append(m.Flags, f)
			}

			sort.Strings(m.Flags)

			if del {
				e.Deleted = o.On
			}
		}

	case "EXPUNGE":
		b := a.Boxes[o.Box]

		var keep []sEntry

		for _, e := range b.Entries {
			if !e.Deleted {
				keep = append(keep, e)
			}
		}

		b.Entries = keep

	case "CREATE":
		for _, n := range append(superiors(o.Box), o.Box) {
			if a.Boxes[n] == nil {
				a.createBox(n)
			}
		}

	case "DELETE":
		if a.Boxes[o.Box].Subscribed {
			a.DeletedSubs[o.Box] = true
		}

		delete(a.Boxes, o.Box)

	case "RENAME":
		for _, n := range superiors(o.Dst) {
			if a.Boxes[n] == nil {
				a.createBox(n)
			}
		}

		if o.Box == "INBOX" {
			// RENAME INBOX: a new mailbox receives the messages, INBOX stays (RFC 3501 6.3.5, state.renameInbox)
			a.createBox(o.Dst)

			var mk []string
			for _, e := range a.Boxes["INBOX"].Entries {
				mk = append(mk, e.Marker)
			}

			a.Boxes["INBOX"].Entries = nil
			a.Boxes[o.Dst].readd(mk)

			break
		}

		for _, n := range a.boxNames() {
			if n == o.Box || strings.HasPrefix(n, o.Box+"/") {
				nn := o.Dst + strings.TrimPrefix(n, o.Box)
				a.Boxes[nn] = a.Boxes[n]
				delete(a.Boxes, n)
				delete(a.DeletedSubs, nn) // as for createBox
			}
		}

	case "SUBSCRIBE":
		a.Boxes[o.Box].Subscribed = o.On

	case "MessagesCreated":
		shared, _ := normFlags(o.Flags)

		// the batch lists the first known message in front of the new ones and further known ones behind them
		// (buildUpdate); within a mailbox the messages are added in the order of the batch
		addKnown := func(i int) {
			// a known message keeps its flags and enters the announced mailboxes it is not in yet
			// (connector_updates.go applyMessagesCreated: MailboxFilterContains)
			for _, bn := range o.KnownBoxes[i] {
				if a.Boxes[bn].index(o.Known[i]) < 0 {
					a.Boxes[bn].push(o.Known[i], false)
				}
			}
		}

		if len(o.Known) > 0 {
			addKnown(0)
		}

		for i, m := range o.Markers {
			a.Msgs[m] = &sMsg{Marker: m, Flags: append([]string{}, shared...)}

			for _, bn := range o.Boxes[i] {
				if a.Boxes[bn].index(m) < 0 {
					a.Boxes[bn].push(m, false)
				}
			}
		}

		for i := 1; i < len(o.Known); i++ {
			addKnown(i)
		}

	case "MessageUpdated":
		for _, bn := range a.boxesOf(o.Target) {
			a.Boxes[bn].remove(o.Target)
		}

		a.Msgs[o.Target].MarkedDeleted = true

		shared, _ := normFlags(o.Flags)
		a.Msgs[o.Markers[0]] = &sMsg{Marker: o.Markers[0], Flags: shared}

		for _, bn := range o.Boxes[0] {
			a.Boxes[bn].push(o.Markers[0], false)
		}

	case "MessageDeleted":
		for _, bn := range a.boxesOf(o.Target) {
			a.Boxes[bn].remove(o.Target)
		}

		a.Msgs[o.Target].MarkedDeleted = true

	case "MessageMailboxesUpdated":
		want := map[string]bool{}

		for _, bn := range o.Boxes[0] {
			want[bn] = true

			if a.Boxes[bn].index(o.Target) < 0 {
				a.Boxes[bn].push(o.Target, false)
			}
		}

		for _, bn := range a.boxesOf(o.Target) {
			if !want[bn] {
				a.Boxes[bn].remove(o.Target)
			}
		}

		a.Msgs[o.Target].Flags, _ = normFlags(o.Flags)

	default:
		panic("model: unknown operation " + o.Kind)
	}

	return a
}

// withRecovered is the state with one more message in the recovery mailbox (a failed APPEND is kept there:
// state.Mailbox.Append, tests/recovery_mailbox_test.go).
func (s *State) withRecovered(marker string) *State {
	a := s.clone()
	a.Recovery = append(a.Recovery, marker)
	a.RecFlags[marker] = []string{}

	return a
}

// liveMessages is the number of message rows the database must hold after a start: every message the model knows
// that is not marked for deletion (whether or not it is in a mailbox) plus the recovered ones.
func (s *State) liveMessages() int {
	n := len(s.Recovery)

	for _, m := range s.Msgs {
		if !m.MarkedDeleted {
			n++
		}
	}

	return n
}

func (s *State) flagsAt(box string, i int) []string {
	e := s.Boxes[box].Entries[i]
	res := append([]string{}, s.Msgs[e.Marker].Flags...)

	if e.Deleted {
		res = append(res, `\deleted`)
	}

	sort.Strings(res)

	return res
}

func (s *State) describe() string {
	var sb strings.Builder

	for _, n := range s.boxNames() {
		b := s.Boxes[n]
		fmt.Fprintf(&sb, "  %s (uidvalidity=%d uidnext=%d subscribed=%v):", n, b.Validity, b.UIDNext, b.Subscribed)

		for i, e := range b.Entries {
			fmt.Fprintf(&sb, " %d=%s%v", e.UID, e.Marker, s.flagsAt(n, i))
		}

		sb.WriteString("\n")
	}

	if len(s.DeletedSubs) > 0 {
		var ds []string
		for n := range s.DeletedSubs {
			ds = append(ds, n)
		}

		sort.Strings(ds)
		fmt.Fprintf(&sb, "  deleted-but-subscribed: %v\n", ds)
	}

	if len(s.Recovery) > 0 {
		fmt.Fprintf(&sb, "  recovery mailbox: %v\n", s.Recovery)
	}

	return sb.String()
}
