// Package c07 decides property C07 (acknowledged state survives restart, crashes and failing storage steps) by fault
// enumeration: every call of the public message-store interface (store.Store) and of the public database interface
// (db.Client.Read/Write, every method of db.ReadOnly / db.Transaction, the commit of a write transaction) that an
// operation performs is a numbered *step*; the check re-runs the operation once per step and fault kind.
//
// This file holds the step controller and the hand-written wrappers (store, db client); dbwrap_gen.go holds the
// generated wrappers of the ~110 db.ReadOnly / db.Transaction methods (generator: props/c07/gen).
package c07

import (
	"context"
	"errors"
	"io"
	"os"
	"sync"
	"syscall"

	"github.com/ProtonMail/gluon/db"
	"github.com/ProtonMail/gluon/imap"
	"github.com/ProtonMail/gluon/store"
)

// ErrInjected is the error returned by a step chosen for error injection.
var ErrInjected = errors.New("c07: injected failure of a storage/database step")

// Mode of a run.
type Mode int

const (
	ModeCount      Mode = iota // pass through, record the trace
	ModeError                  // step Target returns ErrInjected instead of being performed
	ModeKillBefore             // the process SIGKILLs itself when step Target is about to be performed
	ModeKillAfter              // the process SIGKILLs itself when step Target has just been performed
)

func (m Mode) String() string {
	return [...]string{"count", "error", "kill-before", "kill-after"}[m]
}

// Ctl numbers the steps performed while it is armed and acts on step Target according to Mode.
// Steps of concurrent goroutines (parallel store writes of a batch) are numbered in order of arrival.
type Ctl struct {
	mu     sync.Mutex
	armed  bool
	mode   Mode
	target int
	n      int
	trace  []string
	fired  bool
	// OnKill is called (with the lock held) just before the process kills itself; the child uses it to leave a note.
	OnKill func(step int, name string, mode Mode)
}

// Arm starts numbering steps from 0.
func (c *Ctl) Arm(mode Mode, target int) {
	if c == nil {
		return
	}

	c.mu.Lock()
	defer c.mu.Unlock()

	c.armed, c.mode, c.target, c.n, c.trace, c.fired = true, mode, target, 0, nil, false
}

// Disarm stops numbering and returns the trace of step names and whether the target step was reached.
func (c *Ctl) Disarm() (trace []string, fired bool) {
	if c == nil {
		return nil, false
	}

	c.mu.Lock()
	defer c.mu.Unlock()

	c.armed = false

	return append([]string(nil), c.trace...), c.fired
}

func kill() {
	_ = syscall.Kill(os.Getpid(), syscall.SIGKILL)

	select {} // never continue past the boundary
}

// Enter is called before a step is performed. It returns the number of the step (-1 when not armed) and the error
// to return instead of performing the step.
func (c *Ctl) Enter(kind, name string) (int, error) {
	if c == nil {
		return -1, nil
	}

	c.mu.Lock()
	defer c.mu.Unlock()

	if !c.armed {
		return -1, nil
	}

	step := c.n
	c.n++
	c.trace = append(c.trace, kind+"."+name)

	if step != c.target {
		return step, nil
	}

	switch c.mode {
	case ModeError:
		c.fired = true
		return step, ErrInjected

	case ModeKillBefore:
		c.fired = true

		if c.OnKill != nil {
			c.OnKill(step, kind+"."+name, c.mode)
		}

		kill()
	}

	return step, nil
}

// Leave is called after step `step` was performed.
func (c *Ctl) Leave(step int) {
	if c == nil || step < 0 {
		return
	}

	c.mu.Lock()
	defer c.mu.Unlock()

	if c.armed && c.mode == ModeKillAfter && step == c.target {
		c.fired = true

		if c.OnKill != nil {
			c.OnKill(step, c.trace[step], c.mode)
		}

		kill()
	}
}

// ---- message store ----

// StoreBuilder wraps a store.Builder: the stores it builds report every call as a step of kind "store".
type StoreBuilder struct {
	In store.Builder
	C  *Ctl
}

func (b *StoreBuilder) New(dir, userID string, passphrase []byte) (store.Store, error) {
	st, err := b.In.New(dir, userID, passphrase)
	if err != nil {
		return nil, err
	}

	return &storeWrap{in: st, c: b.C}, nil
}

func (b *StoreBuilder) Delete(dir, userID string) error { return b.In.Delete(dir, userID) }

type storeWrap struct {
	in store.Store
	c  *Ctl
}

func (s *storeWrap) Get(id imap.InternalMessageID) ([]byte, error) {
	step, err := s.c.Enter("store", "Get")
	if err != nil {
		return nil, err
	}

	b, err := s.in.Get(id)
	s.c.Leave(step)

	return b, err
}

func (s *storeWrap) Set(id imap.InternalMessageID, r io.Reader) error {
	step, err := s.c.Enter("store", "Set")
	if err != nil {
		return err
	}

	err = s.in.Set(id, r)
	s.c.Leave(step)

	return err
}

func (s *storeWrap) Delete(ids ...imap.InternalMessageID) error {
	step, err := s.c.Enter("store", "Delete")
	if err != nil {
		return err
	}

	err = s.in.Delete(ids...)
	s.c.Leave(step)

	return err
}

func (s *storeWrap) List() ([]imap.InternalMessageID, error) {
	step, err := s.c.Enter("store", "List")
	if err != nil {
		return nil, err
	}

	ids, err := s.in.List()
	s.c.Leave(step)

	return ids, err
}

func (s *storeWrap) Close() error { return s.in.Close() }

// ---- database ----

// DBInterface wraps a db.ClientInterface: the clients it builds report Read, Write, every ReadOnly / Transaction
// method and the commit of every write transaction as steps.
type DBInterface struct {
	In db.ClientInterface
	C  *Ctl
}

func (d *DBInterface) New(path, userID string) (db.Client, bool, error) {
	cl, isNew, err := d.In.New(path, userID)
	if err != nil {
		return nil, false, err
	}

	return &clientWrap{in: cl, c: d.C}, isNew, nil
}

func (d *DBInterface) Delete(path, userID string) error { return d.In.Delete(path, userID) }

type clientWrap struct {
	in db.Client
	c  *Ctl
}

func (c *clientWrap) Init(ctx context.Context, g imap.UIDValidityGenerator) error {
	return c.in.Init(ctx, g)
}

func (c *clientWrap) Close() error { return c.in.Close() }

// Read: step "db.Read" (beginning the read), then the steps of the callback.
func (c *clientWrap) Read(ctx context.Context, op func(context.Context, db.ReadOnly) error) error {
	step, err := c.c.Enter("db", "Read")
	if err != nil {
		return err
	}

	c.c.Leave(step)

	return c.in.Read(ctx, func(ctx context.Context, ro db.ReadOnly) error {
		return op(ctx, &roWrap{in: ro, c: c.c})
	})
}

// Write: step "db.Write" (beginning the transaction), the steps of the callback and, if the callback succeeds, the
// step "db.commit": it is entered before the callback returns to the real client ("before commit": an injected error
// makes the real client roll back, as a failing COMMIT does) and left after the real Write returned ("after commit").
func (c *clientWrap) Write(ctx context.Context, op func(context.Context, db.Transaction) error) error {
	step, err := c.c.Enter("db", "Write")
	if err != nil {
		return err
	}

	c.c.Leave(step)

	commit := -1

	err = c.in.Write(ctx, func(ctx context.Context, tx db.Transaction) error {
		if err := op(ctx, &txWrap{in: tx, c: c.c}); err != nil {
			return err
		}

		var cerr error

		commit, cerr = c.c.Enter("db", "commit")

		return cerr
	})

	if err == nil {
		c.c.Leave(commit)
	}

	return err
}
