package c07

import "testing"

// Scripted cases (no draws) kept from the development of the check: each one once made the oracle or the harness
// stumble. They run all boundaries in all modes.

// The deletion of a message that is in no mailbox changes nothing a client can see: BEFORE and AFTER differ only in
// the message row (a kill after the commit must be judged against AFTER).
func TestRegress_DeleteOfMessageInNoMailbox(t *testing.T) {
	runScripted(t,
		[]Op{
			{Kind: "APPEND", Box: "INBOX", Flags: []string{`\Deleted`}, Markers: []string{"m1"}},
			{Kind: "CREATE", Box: "A"},
			{Kind: "DELETE", Box: "A"},
			{Kind: "EXPUNGE", Box: "INBOX"},
		}, nil,
		Op{Kind: "MessageDeleted", Target: "m1"})
}

// RENAME with inferiors, followed by a connector batch into a renamed inferior (the remote side is only told about the
// renamed mailbox itself) and a message pending deletion in the pre-state.
func TestRegress_BatchIntoRenamedInferior(t *testing.T) {
	runScripted(t,
		[]Op{
			{Kind: "CREATE", Box: "A/x"},
			{Kind: "APPEND", Box: "A/x", Flags: []string{`\Seen`}, Markers: []string{"m1"}},
			{Kind: "APPEND", Box: "INBOX", Markers: []string{"m2"}},
			{Kind: "RENAME", Box: "A", Dst: "B/c"},
		},
		&Op{Kind: "MessageDeleted", Target: "m2"},
		Op{Kind: "MessagesCreated", Markers: []string{"m3", "m4"}, Boxes: [][]string{{"B/c/x", "INBOX"}, {"B/c/x"}}, Flags: []string{`\Flagged`}})
}

// A refused APPEND is kept in the recovery mailbox (also when its first transaction had committed).
func TestRegress_AppendKeptInRecoveryMailbox(t *testing.T) {
	runScripted(t,
		[]Op{{Kind: "CREATE", Box: "D"}}, nil,
		Op{Kind: "APPEND", Box: "D", Flags: []string{`\Deleted`}, Markers: []string{"m1"}})
}
