package c07

import (
	"bytes"
	"context"
	"encoding/json"
	"errors"
	"fmt"
	"os"
	"os/exec"
	"path/filepath"
	"syscall"
	"testing"
	"time"

	"github.com/ProtonMail/gluon/imap"

	"verif/internal/bed"
	"verif/internal/vconn"
)

// The crash child: this test binary re-executed with -test.run=^TestC07Child$ and C07_JOB pointing at a job file.
// It starts a server on the (restored) directories, performs the operation and SIGKILLs itself at the boundary.
const childEnvJob = "C07_JOB"

type childJob struct {
	Dir      string         `json:"dir"`
	UserID   string         `json:"user_id"`
	Snap     vconn.Snapshot `json:"snap"`
	Op       Op             `json:"op"`
	Mode     int            `json:"mode"`
	Target   int            `json:"target"`
	Floor    uint32         `json:"floor"`
	UseFloor bool           `json:"use_floor"`
	Result   string         `json:"result"`
	Note     string         `json:"note"`
}

func TestC07Child(t *testing.T) {
	path := os.Getenv(childEnvJob)
	if path == "" {
		t.Skip("child mode only")
	}

	raw, err := os.ReadFile(path)
	if err != nil {
		t.Fatalf("child: %v", err)
	}

	var job childJob
	if err := json.Unmarshal(raw, &job); err != nil {
		t.Fatalf("child: %v", err)
	}

	ctl := &Ctl{OnKill: func(step int, name string, mode Mode) {
		_ = os.WriteFile(job.Note, []byte(fmt.Sprintf("%d %s %s", step, name, mode)), 0o600)
	}}

	var gen imap.UIDValidityGenerator
	if job.UseFloor {
		gen = newFloorGen(job.Floor)
	}

	u := &bed.User{Name: userName, Pass: userPass, ID: job.UserID, Conn: vconn.FromSnapshot(job.Snap)}

	waitPort()

	b, err := bed.Attach(bedOptions(ctl, gen), job.Dir, u)
	if err != nil {
		t.Fatalf("child: attach: %v", err)
	}

	out := execOp(b, u, job.Op, ctl, Mode(job.Mode), job.Target)

	enc, _ := json.Marshal(out)
	if err := os.WriteFile(job.Result, enc, 0o600); err != nil {
		t.Fatalf("child: %v", err)
	}

	if err := b.Stop(); err != nil {
		t.Fatalf("child: stop: %v", err)
	}
}

type childResult struct {
	killed bool
	out    *Outcome
	note   string
	detail string
}

func runChild(c *caseEnv, job childJob) childResult {
	c.nWork++
	jdir := filepath.Join(c.dir, fmt.Sprintf("job%d", c.nWork))

	if err := os.MkdirAll(jdir, 0o700); err != nil {
		c.inconclusive("%v", err)
	}

	defer os.RemoveAll(jdir)

	job.Result, job.Note = filepath.Join(jdir, "result.json"), filepath.Join(jdir, "note")
	jpath := filepath.Join(jdir, "job.json")

	enc, err := json.Marshal(job)
	if err != nil {
		c.inconclusive("%v", err)
	}

	if err := os.WriteFile(jpath, enc, 0o600); err != nil {
		c.inconclusive("%v", err)
	}

	exe, err := os.Executable()
	if err != nil {
		exe = os.Args[0]
	}

	ctx, cancel := context.WithTimeout(context.Background(), 300*time.Second)
	defer cancel()

	cmd := exec.CommandContext(ctx, exe, "-test.run=^TestC07Child$", "-test.count=1", "-test.timeout=0", "-test.v")
	cmd.Env = append(os.Environ(), childEnvJob+"="+jpath, "VERIF_PARTS_DIR=")
	cmd.Dir = jdir

	var buf bytes.Buffer

	cmd.Stdout, cmd.Stderr = &buf, &buf
	runErr := cmd.Run()

	res := childResult{}

	if note, err := os.ReadFile(job.Note); err == nil {
		res.note = string(note)
	}

	if raw, err := os.ReadFile(job.Result); err == nil {
		var out Outcome
		if json.Unmarshal(raw, &out) == nil {
			res.out = &out
		}
	}

	var ee *exec.ExitError
	if errors.As(runErr, &ee) {
		if ws, ok := ee.Sys().(syscall.WaitStatus); ok && ws.Signaled() && ws.Signal() == syscall.SIGKILL && ctx.Err() == nil && res.note != "" {
			res.killed = true
		}
	}

	tail := buf.String()
	if len(tail) > 3000 {
		tail = tail[len(tail)-3000:]
	}

	res.detail = fmt.Sprintf("exit: %v, note %q, result %+v, watchdog fired: %v, output:\n  | %s", runErr, res.note, res.out, ctx.Err() != nil,
		string(bytes.ReplaceAll([]byte(tail), []byte("\n"), []byte("\n  | "))))

	return res
}
