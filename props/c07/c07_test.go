package c07

import (
	"fmt"
	"io"
	"net"
	"os"
	"path/filepath"
	"sort"
	"strings"
	"sync"
	"testing"
	"time"

	"github.com/ProtonMail/gluon/imap"
	"pgregory.net/rapid"

	"verif/internal/bed"
	"verif/internal/ev"
	"verif/internal/kf"
	"verif/internal/vconn"
)

// kfEpochRestart: gluon's default UIDVALIDITY generator keeps its last value only in memory (listed under C04). While
// it is listed, every server start of a case (in this process or in a crash child) uses a generator whose floor
// travels with the case.
const kfEpochRestart = "C04-uidvalidity-generator-restart"

// toleratedOK lists, per operation, the steps whose failure gluon deliberately survives: the operation is still
// acknowledged OK (and must then be complete). Source: the code's own comments / log-only error handling.
var toleratedOK = map[string]map[string]string{
	// connector_updates.go applyMessageUpdated: `onDiskLiteral, err := user.store.Get(...)`: the error is only logged
	// ("failed to retrieve literal from cache") and the update is applied as a literal change.
	"MessageUpdated": {"store.Get": "applyMessageUpdated only logs a failing cache read"},
}

func copyDir(src, dst string) error {
	return filepath.Walk(src, func(p string, info os.FileInfo, err error) error {
		if err != nil {
			return err
		}

		rel, _ := filepath.Rel(src, p)
		target := filepath.Join(dst, rel)

		if info.IsDir() {
			return os.MkdirAll(target, 0o700)
		}

		if !info.Mode().IsRegular() {
			return nil
		}

		in, err := os.Open(p)
		if err != nil {
			return err
		}

		defer in.Close()

		out, err := os.OpenFile(target, os.O_CREATE|os.O_WRONLY|os.O_TRUNC, 0o600)
		if err != nil {
			return err
		}

		if _, err := io.Copy(out, in); err != nil {
			out.Close()
			return err
		}

		return out.Close()
	})
}

// waitPort waits until the machine hands out a listening port (many checks run on this machine at once and this one
// opens thousands of connections; running out of ports is not a property of the server). Bounded; never a verdict.
func waitPort() {
	for try := 0; try < 600; try++ {
		l, err := net.Listen("tcp", "127.0.0.1:0")
		if err == nil {
			_ = l.Close()
			return
		}

		time.Sleep(500 * time.Millisecond)
	}
}

// startErr reports a failure to (re)start a server: out of ports is inconclusive, anything else violates the property
// (the server must come up on whatever a crash left behind).
func (c *caseEnv) startErr(when string, err error) {
	if transient(err) {
		c.inconclusive("%s: %v", when, err)
	}

	c.fail("%s: the server does not start on the directories: %v", when, err)
}

func (c *caseEnv) restart(b *bed.Bed, when string) {
	waitPort()

	if err := b.Restart(); err != nil {
		c.startErr(when+": restart", err)
	}
}

// ---- the C04 ledger (re-implemented compactly: the original lives in props/c04's test files) ----

type lkey struct {
	box      string
	validity uint32
}

type ledger struct {
	uids       map[lkey]map[uint32]string
	maxUID     map[lkey]uint32
	uidNext    map[lkey]uint32
	validities map[string][]uint32
}

func newLedger() *ledger {
	return &ledger{uids: map[lkey]map[uint32]string{}, maxUID: map[lkey]uint32{}, uidNext: map[lkey]uint32{}, validities: map[string][]uint32{}}
}

func (l *ledger) clone() *ledger {
	c := newLedger()

	for k, m := range l.uids {
		c.uids[k] = map[uint32]string{}
		for u, mk := range m {
			c.uids[k][u] = mk
		}
	}

	for k, v := range l.maxUID {
		c.maxUID[k] = v
	}

	for k, v := range l.uidNext {
		c.uidNext[k] = v
	}

	for k, v := range l.validities {
		c.validities[k] = append([]uint32(nil), v...)
	}

	return c
}

// feed records an observation. renamed maps a mailbox name to the name its UID history continues from (RENAME keeps
// UIDVALIDITY and UIDs: the history moves with the mailbox).
func (l *ledger) feed(o *Obs, after string) error {
	for name, b := range o.Boxes {
		k := lkey{name, b.Validity}

		if vs := l.validities[name]; len(vs) == 0 || vs[len(vs)-1] != b.Validity {
			for _, old := range vs {
				if b.Validity <= old {
					return fmt.Errorf("%s: mailbox %s has UIDVALIDITY %d, it had %d before (all values %v)", after, name, b.Validity, old, vs)
				}
			}

			l.validities[name] = append(vs, b.Validity)
		}

		if l.uids[k] == nil {
			l.uids[k] = map[uint32]string{}
		}

		prevMax, newMax := l.maxUID[k], l.maxUID[k]

		for _, m := range b.Msgs {
			if known, seen := l.uids[k][m.UID]; seen {
				if known != m.Marker {
					return fmt.Errorf("%s: mailbox %s (UIDVALIDITY %d) UID %d now denotes %s, it denoted %s before (UID reused)", after, name, b.Validity, m.UID, m.Marker, known)
				}

				continue
			}

			if m.UID <= prevMax {
				return fmt.Errorf("%s: mailbox %s (UIDVALIDITY %d): new UID %d (%s) is not above the highest UID seen before (%d)", after, name, b.Validity, m.UID, m.Marker, prevMax)
			}

			l.uids[k][m.UID] = m.Marker

			if m.UID > newMax {
				newMax = m.UID
			}
		}

		l.maxUID[k] = newMax

		if b.UIDNext <= newMax {
			return fmt.Errorf("%s: mailbox %s (UIDVALIDITY %d): UIDNEXT %d is not above the highest UID %d", after, name, b.Validity, b.UIDNext, newMax)
		}

		if old := l.uidNext[k]; b.UIDNext < old {
			return fmt.Errorf("%s: mailbox %s (UIDVALIDITY %d): UIDNEXT decreased from %d to %d", after, name, b.Validity, old, b.UIDNext)
		}

		l.uidNext[k] = b.UIDNext
	}

	return nil
}

// ---- one case: a pre-state, an operation, its boundaries ----

type caseEnv struct {
	t        failer
	kind     string
	dir      string // scratch root of the case
	pre      string // copy of the stopped bed's directory
	userID   string
	snap     vconn.Snapshot
	gen      *floorGen
	setup    []Op
	op       Op
	before   *State
	after    *State
	led      *ledger
	trace    []string
	nWork    int
	lastBed  *bed.Bed
	scripted bool
}

func (c *caseEnv) describeCase() string {
	var sb strings.Builder

	sb.WriteString("pre-state built by:\n")

	for _, o := range c.setup {
		sb.WriteString("  " + o.String() + "\n")
	}

	fmt.Fprintf(&sb, "operation: %s\nstate BEFORE:\n%sstate AFTER:\n%s", c.op, c.before.describe(), c.after.describe())

	if c.trace != nil {
		fmt.Fprintf(&sb, "steps of the operation (%d):", len(c.trace))

		for i, s := range c.trace {
			fmt.Fprintf(&sb, " %d:%s", i, s)
		}

		sb.WriteString("\n")
	}

	return sb.String()
}

func (c *caseEnv) fail(format string, a ...any) {
	verdict := fmt.Sprintf("C07 violated: "+format, a...)
	hist := ""

	if c.lastBed != nil {
		lines := c.lastBed.Hist.Lines()
		if len(lines) > 120 {
			lines = append([]string{fmt.Sprintf("... (%d earlier lines)", len(lines)-120)}, lines[len(lines)-120:]...)
		}

		hist = "history of the last server:\n  " + strings.Join(lines, "\n  ") + "\n"
	}

	// the verdict is repeated at the end: the driver shows the tail of the output
	first := verdict
	if i := strings.Index(first, "\n"); i >= 0 {
		first = first[:i]
	}

	c.t.Fatalf("%s\n%s%s%s", verdict, hist, c.describeCase(), first)
}

// inconclusiveErr ends a case without a verdict. The marker line is printed and the case is abandoned *without*
// failing the test: the driver maps "exit 0 + VERIF-INCONCLUSIVE in the output" to its exit code 2 (a failing test
// would be reported as a violation, because with -test.v the marker precedes the --- FAIL line).
type inconclusiveErr struct{}

func inconclusive(format string, a ...any) {
	fmt.Printf("VERIF-INCONCLUSIVE: "+format+"\n", a...)
	panic(inconclusiveErr{})
}

func (c *caseEnv) inconclusive(format string, a ...any) {
	inconclusive(format+"\n%s", append(a, c.describeCase())...)
}

func (c *caseEnv) uidGen() imap.UIDValidityGenerator {
	if c.gen == nil {
		return nil
	}

	return c.gen
}

// restore makes a fresh working copy of the pre-state directories.
func (c *caseEnv) restore() string {
	c.nWork++
	w := filepath.Join(c.dir, fmt.Sprintf("w%d", c.nWork))

	if err := copyDir(c.pre, w); err != nil {
		c.inconclusive("restoring the pre-state: %v", err)
	}

	return w
}

// attach starts a server on the working copy. afterChild: the remote side is the one the killed child left behind: ids
// it may have handed out are not handed out again, and it holds the message of an APPEND (the connector's
// CreateMessage precedes gluon's own storing).
func (c *caseEnv) attach(w string, ctl *Ctl, afterChild bool) (*bed.Bed, *bed.User) {
	snap := c.snap

	if afterChild {
		if c.op.Kind == "APPEND" {
			snap.Messages = append(append([]vconn.SnapMessage{}, snap.Messages...), vconn.SnapMessage{
				ID: fmt.Sprintf("msg-%d", snap.NextMsg+1), Literal: literalOf(c.op.Markers[0]), Date: fixedDate,
			})
		}

		snap.NextMsg += 16
		snap.NextMbox += 16
	}

	u := &bed.User{Name: userName, Pass: userPass, ID: c.userID, Conn: vconn.FromSnapshot(snap)}

	waitPort()

	b, err := bed.Attach(bedOptions(ctl, c.uidGen()), w, u)
	if err != nil {
		c.startErr("start on the working copy", err)
	}

	c.lastBed = b

	// what every start promises, whatever the directories looked like
	o := &Obs{Boxes: map[string]*oBox{}, DBAll: map[string]bool{}, DBInBox: map[string]bool{}}
	if err := diskAndDB(b, u, o); err != nil {
		c.fail("after the start: %v", err)
	}

	if err := checkStart(o); err != nil {
		c.fail("start of the server on the restored directories: %v", err)
	}

	return b, u
}

func (c *caseEnv) observe(b *bed.Bed, u *bed.User, when string) *Obs {
	o, err := observe(b, u)
	if err != nil {
		c.fail("%s: %v", when, err)
	}

	if err := checkRowsHaveFiles(o); err != nil {
		c.fail("%s: %v", when, err)
	}

	for _, bx := range o.Boxes {
		if c.gen != nil {
			c.gen.raise(bx.Validity)
		}
	}

	return o
}

type named struct {
	name string
	st   *State
}

// settle returns the allowed states the observation equals (several when the operation does not change what a client
// sees, e.g. the deletion of a message that is in no mailbox). persisted: the observation was made right after a start,
// so the disk/database part of the oracle (checkPersisted) takes part in the decision.
func (c *caseEnv) settle(o *Obs, allowed []named, persisted bool, when string) []named {
	var (
		res   []named
		diffs []string
	)

	for _, a := range allowed {
		err := match(o, a.st)
		if err == nil && persisted {
			err = checkPersisted(o, a.st)
		}

		if err == nil {
			res = append(res, a)
			continue
		}

		diffs = append(diffs, fmt.Sprintf("  not %s: %v", a.name, err))
	}

	if len(res) == 0 {
		c.fail("%s: the observed state is none of the allowed states\n%s\nobserved:\n%s", when, strings.Join(diffs, "\n"), o.describe())
	}

	return res
}

// afterStart checks what must hold after a start of the server on the directories: the state is one of `allowed` (as a
// client sees it), nothing is left over, the ledger holds, and the server accepts new messages under fresh UIDs.
// It returns the state found.
func (c *caseEnv) afterStart(b *bed.Bed, u *bed.User, allowed []named, led *ledger, when string) named {
	o := c.observe(b, u, when)
	want := c.settle(o, allowed, true, when)[0]

	if err := led.feed(o, when); err != nil {
		c.fail("%v", err)
	}

	// follow-up: a new message gets a UID that was never used
	box := c.op.Box
	if want.st.Boxes[box] == nil {
		box = "INBOX"
	}

	probe := Op{Kind: "APPEND", Box: box, Markers: []string{"probe"}}
	if out := execOp(b, u, probe, nil, ModeCount, -1); out.Status != "OK" {
		c.fail("%s: the server refuses a new message: %+v", when, out)
	}

	o2 := c.observe(b, u, when+", after a further APPEND")
	if err := match(o2, want.st.apply(probe)); err != nil {
		c.fail("%s, after a further APPEND to %s: %v\nobserved:\n%s", when, box, err, o2.describe())
	}

	if err := led.feed(o2, when+", after a further APPEND"); err != nil {
		c.fail("%v", err)
	}

	return want
}

func stepKind(name string) string {
	switch {
	case name == "db.commit":
		return "commit"
	case strings.HasPrefix(name, "store."):
		return "store"
	default:
		return "db"
	}
}

// position is the number of steps performed before the fault.
func position(mode Mode, step int) int {
	if mode == ModeKillAfter {
		return step + 1
	}

	return step
}

func (c *caseEnv) record(mode Mode, step int, extra ...string) {
	if c.scripted {
		return // evidence counts generated cases only
	}

	name := "-"
	if step >= 0 && step < len(c.trace) {
		name = c.trace[step]
	}

	nontrivial := false

	if mode != ModeCount {
		p := position(mode, step)
		nontrivial = p > 0 && p < len(c.trace)
	}

	var setup []string
	for _, o := range c.setup {
		setup = append(setup, o.String())
	}

	labels := append([]string{"op:" + c.kind, "mode:" + mode.String()}, extra...)

	if c.op.Box == recoveryName {
		labels = append(labels, "source:recovery-mailbox")
	}

	if c.op.Kind == "RENAME" && c.op.Box == "INBOX" {
		labels = append(labels, "rename:INBOX")
	}

	if c.op.Kind == "RENAME" {
		for n := range c.before.Boxes {
			if strings.HasPrefix(n, c.op.Box+"/") {
				labels = append(labels, "rename:with-inferiors")
				break
			}
		}
	}

	if len(c.before.Recovery) > 0 {
		labels = append(labels, "pre-state:recovered-messages")
	}

	for _, m := range c.before.Msgs {
		if m.MarkedDeleted {
			labels = append(labels, "pre-state:message-pending-deletion")
			break
		}
	}
	if mode != ModeCount {
		labels = append(labels, "boundary:"+stepKind(name))
	}

	ev.Case(nontrivial, ev.Hash(strings.Join(setup, ";"), c.op.String(), step, mode), labels...)
}

// cleanRun is the base case (c) and the counting run: the operation is acknowledged, the state is AFTER, also after a
// clean Close + reopen.
func (c *caseEnv) cleanRun(live bool) {
	w := c.restore()
	defer os.RemoveAll(w)

	ctl := &Ctl{}
	b, u := c.attach(w, ctl, false)

	defer b.Destroy()

	out := execOp(b, u, c.op, ctl, ModeCount, -1)
	if out.Err != "" {
		c.inconclusive("clean run: %s", out.Err)
	}

	c.trace = out.Trace

	if out.Status != "OK" {
		c.fail("clean run: the operation is refused: %s %s", out.Status, out.Text)
	}

	led := c.led.clone()
	want := named{"AFTER", c.after}

	// live = false: Close follows the acknowledgement directly (no session ends in between, so nothing but Close and
	// the next start can clean up)
	if live {
		o := c.observe(b, u, "clean run, after the acknowledged operation")
		if err := match(o, want.st); err != nil {
			c.fail("clean run: after the acknowledged operation the state is not the AFTER state: %v\nobserved:\n%s", err, o.describe())
		}

		if err := led.feed(o, "clean run"); err != nil {
			c.fail("%v", err)
		}
	}

	c.restart(b, "clean run")

	c.afterStart(b, u, []named{want}, led, "clean run, after Close and reopen")

	if live {
		c.record(ModeCount, -1, "clean:observed-then-reopened")
	} else {
		c.record(ModeCount, -2, "clean:reopened-at-once")
	}

	if len(c.trace) == 0 {
		c.fail("clean run: the operation performed no store or database step")
	}
}

// errorRun is mode (a): step `step` returns an error.
func (c *caseEnv) errorRun(step int) {
	w := c.restore()
	defer os.RemoveAll(w)

	ctl := &Ctl{}
	b, u := c.attach(w, ctl, false)

	defer b.Destroy()

	out := execOp(b, u, c.op, ctl, ModeError, step)
	if out.Err != "" || strings.Contains(out.Text, "watchdog timeout") {
		// the harness could not run the operation to its end (no login, watchdog): a crash of the server is a verdict,
		// anything else is not
		if err := b.CheckPanics(); err != nil {
			c.fail("error injected at step %d (%s): %v", step, c.trace[step], err)
		}

		c.inconclusive("error run at step %d (%s): %s %s", step, c.trace[step], out.Err, out.Text)
	}

	when := fmt.Sprintf("error injected at step %d (%s)", step, c.trace[step])

	var (
		allowed []named
		labels  []string
	)

	before, after := named{"BEFORE", c.before}, named{"AFTER", c.after}

	switch {
	case !out.Fired:
		// the run took fewer steps than the counting run: nothing was injected
		labels = append(labels, "not-reached")

		if out.Status != "OK" {
			c.fail("%s: the step was not reached and the operation is refused: %s %s", when, out.Status, out.Text)
		}

		allowed = []named{after}

	case len(out.Trace) <= step || out.Trace[step] != c.trace[step]:
		labels = append(labels, "trace-diverged")
		allowed = []named{before, after}

		if out.Status == "OK" {
			allowed = []named{after}
		}

	case out.Status == "OK":
		why, ok := toleratedOK[c.op.Kind][c.trace[step]]
		if !ok {
			c.fail("%s: the operation is acknowledged OK although the step failed (not a step whose failure gluon documents as survivable)", when)
		}

		labels = append(labels, "tolerated:"+why)
		allowed = []named{after}

	case out.Status == "NO" || out.Status == "BAD":
		allowed = []named{before, after}

		if c.op.Kind == "APPEND" {
			// a refused APPEND is kept in the recovery mailbox
			m := c.op.Markers[0]
			allowed = append(allowed, named{"BEFORE+recovered", c.before.withRecovered(m)}, named{"AFTER+recovered", c.after.withRecovered(m)})
		}

	default:
		c.fail("%s: no tagged response (%q %s): the client got neither OK nor NO", when, out.Status, out.Text)
	}

	led := c.led.clone()
	o := c.observe(b, u, when+", server still running")
	cands := c.settle(o, allowed, false, when+", server still running")

	if err := led.feed(o, when); err != nil {
		c.fail("%v", err)
	}

	c.restart(b, when)

	got := c.afterStart(b, u, cands, led, when+", after restart")
	c.record(ModeError, step, append(labels, "outcome:"+out.Status+"/"+got.name)...)
}

// killRun is mode (b): a child process runs the server and the operation and kills itself at the boundary.
func (c *caseEnv) killRun(mode Mode, step int) {
	w := c.restore()
	defer os.RemoveAll(w)

	floor := uint32(0)
	if c.gen != nil {
		floor = c.gen.get()

		ev.Excluded(1)
	}

	res := runChild(c, childJob{Dir: w, UserID: c.userID, Snap: c.snap, Op: c.op, Mode: int(mode), Target: step, Floor: floor, UseFloor: c.gen != nil})

	when := fmt.Sprintf("process killed %s step %d (%s)", map[Mode]string{ModeKillBefore: "before", ModeKillAfter: "after"}[mode], step, c.trace[step])
	before, after := named{"BEFORE", c.before}, named{"AFTER", c.after}

	var (
		allowed []named
		labels  []string
	)

	switch {
	case res.killed:
		allowed = []named{before, after}

		if res.note != "" && !strings.HasPrefix(res.note, fmt.Sprintf("%d %s ", step, c.trace[step])) {
			labels = append(labels, "trace-diverged")
		}

	case res.out != nil && res.out.Err == "" && res.out.Status == "OK":
		// the boundary was not reached: the child finished the operation and closed the server
		labels = append(labels, "not-reached")
		allowed = []named{after}

	default:
		c.inconclusive("%s: the child neither killed itself nor finished: %s", when, res.detail)
	}

	b, u := c.attach(w, &Ctl{}, true)
	defer b.Destroy()

	led := c.led.clone()
	o := c.observe(b, u, when+", after restart")
	got := c.settle(o, allowed, true, when+", after restart")[0]

	if err := led.feed(o, when); err != nil {
		c.fail("%v", err)
	}

	// the same checks once more after a clean restart of the recovered directories
	c.restart(b, when+" (second restart)")

	c.afterStart(b, u, []named{got}, led, when+", after a second (clean) restart")
	c.record(mode, step, append(labels, "outcome:"+got.name)...)
}

// ---- boundaries per operation (evidence) ----

var (
	statMu     sync.Mutex
	boundStats = map[string]*struct{ Min, Max, Cases, Steps int }{}
	allDone    = true
	anyCase    bool
)

func noteBoundaries(kind string, n int, exhaustive bool) {
	statMu.Lock()
	defer statMu.Unlock()

	s := boundStats[kind]
	if s == nil {
		s = &struct{ Min, Max, Cases, Steps int }{Min: n, Max: n}
		boundStats[kind] = s
	}

	if n < s.Min {
		s.Min = n
	}

	if n > s.Max {
		s.Max = n
	}

	s.Cases++
	s.Steps += n
	anyCase = true

	if !exhaustive {
		allDone = false
	}

	m := map[string]any{}
	for k, v := range boundStats {
		m[k] = map[string]int{"min_steps": v.Min, "max_steps": v.Max, "pre_states": v.Cases, "steps_total": v.Steps}
	}

	ev.Extra("boundaries_per_op", m) // of this shard (the driver keeps one shard's map); the sums below are over all shards
	ev.Extra("pairs."+kind, boundStats[kind].Cases)
	ev.Extra("steps."+kind, boundStats[kind].Steps)
	ev.Extra("exhaustive", allDone && anyCase && ev.Thorough())
}

// runCase draws a pre-state and an operation of the kind, then enumerates the operation's boundaries.
// failer is what a case needs from *rapid.T / *testing.T.
type failer interface {
	Fatalf(format string, args ...any)
}

// builder builds the pre-state of a case on a live server, operation by operation, the model following along.
type builder struct {
	c    *caseEnv
	b    *bed.Bed
	u    *bed.User
	g    *opGen
	st   *State
	base string
}

func newCase(t failer, kind string) (*caseEnv, func()) {
	dir, err := os.MkdirTemp("", "c07-")
	if err != nil {
		inconclusive("%v", err)
	}

	c := &caseEnv{t: t, kind: kind, dir: dir, pre: filepath.Join(dir, "pre"), led: newLedger()}

	if kf.Listed(kfEpochRestart) {
		c.gen = newFloorGen(0)
	}

	return c, func() { _ = os.RemoveAll(dir) }
}

func newBuilder(c *caseEnv) *builder {
	bd := &builder{c: c, base: filepath.Join(c.dir, "base")}

	opts := bedOptions(&Ctl{}, c.uidGen())
	opts.Dir = bd.base

	waitPort()

	b, err := bed.Start(opts, bed.UserSpec{Name: userName, Pass: userPass})
	if err != nil {
		inconclusive("bed: %v", err)
	}

	c.lastBed = b
	bd.b, bd.u = b, b.Users[0]
	c.userID = bd.u.ID
	bd.g = &opGen{b: b, u: bd.u, conn: bd.u.Conn}

	bd.st = newState()
	bd.st.createBox("INBOX")
	c.before, c.after = bd.st, bd.st

	o0 := c.observe(b, bd.u, "setup")
	bd.st.Boxes["INBOX"].Validity = o0.Boxes["INBOX"].Validity

	return bd
}

// run performs a setup operation: it must be acknowledged.
func (bd *builder) run(o Op) {
	if err := bd.g.prepareRemote(&o); err != nil {
		inconclusive("%v", err)
	}

	out := execOp(bd.b, bd.u, o, nil, ModeCount, -1)
	if out.Status != "OK" {
		bd.c.before, bd.c.after = bd.st, bd.st
		bd.c.fail("setup operation %s is refused on a healthy server: %+v", o, out)
	}

	bd.st = bd.st.apply(o)
	bd.c.setup = append(bd.c.setup, o)
}

// checkPreState: the pre-state as a client sees it must be the model's (everything acknowledged so far is there);
// mailboxes created during the setup get their UIDVALIDITY from this observation.
func (bd *builder) checkPreState() {
	c := bd.c
	o1 := c.observe(bd.b, bd.u, "pre-state")

	for n, bx := range bd.st.Boxes {
		if ob := o1.Boxes[n]; ob != nil && bx.Validity == 0 {
			bx.Validity = ob.Validity
		}
	}

	c.before, c.after = bd.st, bd.st

	if err := match(o1, bd.st); err != nil {
		c.fail("the pre-state differs from the model after acknowledged operations only: %v\nobserved:\n%s", err, o1.describe())
	}

	if err := c.led.feed(o1, "pre-state"); err != nil {
		c.fail("%v", err)
	}
}

// freeze fixes the operation under test, stops the setup server and keeps a copy of its directories.
func (bd *builder) freeze(op *Op) {
	c := bd.c

	if err := bd.g.prepareRemote(op); err != nil {
		inconclusive("%v", err)
	}

	c.op = *op
	c.before = bd.st
	c.after = bd.st.apply(*op)
	c.snap = bd.u.Conn.Snapshot()

	if err := bd.b.Stop(); err != nil {
		inconclusive("stopping the setup server: %v", err)
	}

	if err := copyDir(bd.base, c.pre); err != nil {
		inconclusive("%v", err)
	}

	_ = os.RemoveAll(bd.base)
}

func swallowInconclusive() {
	if r := recover(); r != nil {
		if _, ok := r.(inconclusiveErr); !ok {
			panic(r)
		}
	}
}

// runCase draws a pre-state and an operation of the kind, then enumerates the operation's boundaries.
func runCase(t *rapid.T, kind string) {
	defer swallowInconclusive()

	c, cleanup := newCase(t, kind)
	defer cleanup()

	// every operation kind runs under the same rapid seed: shift the draw stream so that the kinds see different
	// pre-states
	// (and so do the shards: rapid seeds its i-th iteration with seed+i(i+1)/2, the driver seeds shard k with
	// VERIF_SEED*1000+k, so that without the shift neighbouring shards would repeat each other's cases)
	shard, _ := ev.Shard()
	for i := 0; i < len(kind)%7+7*shard; i++ {
		rapid.Uint64().Draw(t, "salt")
	}

	// ---- build the pre-state on a live server ----
	bd := newBuilder(c)
	defer bd.b.Destroy()

	nSetup := rapid.IntRange(2, 9).Draw(t, "nSetup")
	for i := 0; i < nSetup; i++ {
		k := pick(t, "setupKind", setupKinds)

		o := bd.g.gen(t, bd.st, k)
		if o == nil {
			// not possible in this state: do something that is (no rejection)
			if o = bd.g.gen(t, bd.st, []string{"APPEND", "CREATE", "MessagesCreated"}[i%3]); o == nil {
				continue
			}
		}

		bd.run(*o)
	}

	// RENAME: half of the pre-states are made to hold a mailbox with an inferior
	hasParent := false

	for _, n := range bd.st.boxNames() {
		if len(superiors(n)) > 0 && bd.st.Boxes[superiors(n)[len(superiors(n))-1]] != nil {
			hasParent = true
		}
	}

	if kind == "RENAME" && !hasParent && rapid.Bool().Draw(t, "makeInferior") {
		for _, o := range bd.g.ensure(bd.st, kind) {
			bd.run(o)
		}
	}

	op := bd.g.gen(t, bd.st, kind)
	if op == nil {
		for _, o := range bd.g.ensure(bd.st, kind) {
			bd.run(o)
		}

		if op = bd.g.gen(t, bd.st, kind); op == nil {
			inconclusive("generator cannot build a %s operation in state\n%s", kind, bd.st.describe())
		}
	}

	bd.checkPreState()

	// optionally leave a message that is only marked for deletion in the pre-state (no session ends after it)
	if live := bd.st.liveMarkers(); len(live) > 1 && rapid.IntRange(0, 2).Draw(t, "pendingDelete") == 0 {
		// positions of COPY/MOVE/STORE refer to the state the operation was generated in: only delete messages that
		// are not in the mailbox the operation reads positions from, and not the operation's own target
		var ok []string

		known := map[string]bool{}
		for _, m := range op.Known {
			known[m] = true // (a batch that announces this message again counts on the server still having it)
		}

		for _, m := range live {
			if m != op.Target && !known[m] && (op.Box == "" || bd.st.Boxes[op.Box] == nil || bd.st.Boxes[op.Box].index(m) < 0) {
				ok = append(ok, m)
			}
		}

		if len(ok) > 0 {
			bd.run(Op{Kind: "MessageDeleted", Target: pick(t, "pendingTarget", ok)})
		}
	}

	bd.freeze(op)

	// ---- (c) + counting ----
	c.cleanRun(true)
	c.cleanRun(false)

	n := len(c.trace)
	steps := make([]int, n)

	for i := range steps {
		steps[i] = i
	}

	exhaustive := ev.Thorough()

	if !exhaustive {
		if max := 8; n > max {
			perm := rapid.Permutation(steps).Draw(t, "boundaries")
			steps = append([]int{}, perm[:max]...)
			sort.Ints(steps)
		}
	}

	noteBoundaries(kind, n, exhaustive)

	for _, i := range steps {
		c.errorRun(i)

		if exhaustive {
			c.killRun(ModeKillBefore, i)
			c.killRun(ModeKillAfter, i)
		} else if rapid.Bool().Draw(t, "killAfter") {
			c.killRun(ModeKillAfter, i)
		} else {
			c.killRun(ModeKillBefore, i)
		}
	}

	if ev.WantSample() {
		var setup []string
		for _, o := range c.setup {
			setup = append(setup, o.String())
		}

		ev.Sample(map[string]any{"pre_state_ops": setup, "operation": c.op.String(), "steps": c.trace, "boundaries_run": steps,
			"modes": "error + kill (child process) at each boundary, clean run"})
	}
}

// runScripted is runCase without draws: a fixed pre-state and operation, all boundaries, all modes (regressions).
func runScripted(t failer, setup []Op, pending *Op, op Op) {
	defer swallowInconclusive()

	c, cleanup := newCase(t, op.Kind)
	defer cleanup()

	c.scripted = true

	bd := newBuilder(c)
	defer bd.b.Destroy()

	for _, o := range setup {
		bd.run(o)
	}

	bd.checkPreState()

	if pending != nil {
		bd.run(*pending)
	}

	bd.freeze(&op)

	c.cleanRun(true)
	c.cleanRun(false)

	for i := range c.trace {
		c.errorRun(i)
		c.killRun(ModeKillBefore, i)
		c.killRun(ModeKillAfter, i)
	}
}

func TestC07FaultEnumeration(t *testing.T) {
	// the twelve operations of the property plus STORE (flags are part of the acknowledged state)
	kinds := append(append([]string{}, opKinds...), "STORE")

	// development: VERIF_C07_KINDS=APPEND,COPY restricts the operations
	if only := os.Getenv("VERIF_C07_KINDS"); only != "" {
		kinds = strings.Split(only, ",")
	}

	for _, kind := range kinds {
		kind := kind

		t.Run(kind, func(t *testing.T) {
			ev.Checks(2, 3)
			rapid.Check(t, func(rt *rapid.T) { runCase(rt, kind) })
		})
	}
}
