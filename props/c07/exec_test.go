package c07

import (
	"context"
	"fmt"
	"os"
	"regexp"
	"sort"
	"strconv"
	"strings"
	"sync"
	"time"

	"github.com/ProtonMail/gluon"
	"github.com/ProtonMail/gluon/db"
	"github.com/ProtonMail/gluon/imap"
	"github.com/ProtonMail/gluon/store"

	"verif/internal/bed"
	"verif/internal/imapc"
	"verif/internal/mach"
	"verif/internal/vconn"
)

const (
	userName = "user"
	userPass = "pass"
)

var fixedDate = time.Date(2021, 3, 4, 5, 6, 7, 0, time.UTC)

// floorGen is a UIDVALIDITY generator that never returns a value at or below `floor`: the floor travels with the
// case (parent process -> crash child -> parent), which keeps the generator "persistent" across process restarts.
// It wraps gluon's default generator. Used while C04-uidvalidity-generator-restart is listed.
type floorGen struct {
	mu    sync.Mutex
	in    imap.UIDValidityGenerator
	floor uint32
}

func newFloorGen(floor uint32) *floorGen {
	return &floorGen{in: imap.DefaultEpochUIDValidityGenerator(), floor: floor}
}

func (g *floorGen) Generate() (imap.UID, error) {
	g.mu.Lock()
	defer g.mu.Unlock()

	v, err := g.in.Generate()
	if err != nil {
		return 0, err
	}

	if uint32(v) <= g.floor {
		v = imap.UID(g.floor + 1)
	}

	g.floor = uint32(v)

	return v, nil
}

func (g *floorGen) raise(v uint32) {
	g.mu.Lock()
	defer g.mu.Unlock()

	if v > g.floor {
		g.floor = v
	}
}

func (g *floorGen) get() uint32 {
	g.mu.Lock()
	defer g.mu.Unlock()

	return g.floor
}

// bedOptions: real on-disk store and real SQLite client, both behind the step wrappers of ctl.
func bedOptions(ctl *Ctl, gen imap.UIDValidityGenerator) bed.Options {
	o := bed.Options{
		StoreBuilder:  &StoreBuilder{In: &store.OnDiskStoreBuilder{}, C: ctl},
		DBClient:      &DBInterface{In: gluon.VerifSQLiteClientInterface(), C: ctl},
		ClientTimeout: 120 * time.Second,
	}

	if gen != nil {
		o.UIDGen = func() imap.UIDValidityGenerator { return gen }
	}

	return o
}

// sess is a plain client connection. end() sends LOGOUT and then reads until the server closes the connection: gluon
// closes it only after the session's state has been released (session.done: ReleaseState -> user.removeState, which
// purges messages marked for deletion), so that no store or database activity of an ended session can fall into the
// armed window of the next operation. The server being the one that closes first also keeps the client's port out of
// TIME_WAIT (the enumeration opens many thousands of connections).
type sess struct {
	*imapc.Client
}

func transient(err error) bool {
	if err == nil {
		return false
	}

	msg := err.Error()

	return strings.Contains(msg, "address already in use") || strings.Contains(msg, "cannot assign requested address")
}

func login(b *bed.Bed, u *bed.User, name string) (*sess, error) {
	var (
		c   *imapc.Client
		err error
	)

	for try := 0; ; try++ {
		c, err = imapc.Dial(b.Addr, name, b.Hist, b.Opts.ClientTimeout)
		if err == nil || !transient(err) || try > 240 {
			break
		}

		time.Sleep(500 * time.Millisecond) // the machine is out of ports: not a property of the server
	}

	if err != nil {
		return nil, err
	}

	if r := c.Cmdf("LOGIN %s %s", bed.Quote(u.Name), bed.Quote(u.Pass)); !r.OK() {
		c.Close()
		return nil, fmt.Errorf("login refused: %v", r)
	}

	return &sess{c}, nil
}

func (s *sess) end() {
	if r := s.Cmd("LOGOUT"); r.Err == nil {
		for {
			if _, err := s.ReadResponse(); err != nil {
				break
			}
		}
	}

	s.Close()
}

func (s *sess) Do(cmd string) *imapc.Result { return s.Cmd(cmd) }

func (s *sess) DoParts(parts ...imapc.Part) *imapc.Result { return s.CmdParts(parts...) }

// Outcome of running one operation.
type Outcome struct {
	Status string   `json:"status"` // OK / NO / BAD ; connector updates: OK = acknowledged without error, NO = with error
	Text   string   `json:"text"`
	Trace  []string `json:"trace"`
	Fired  bool     `json:"fired"`
	Err    string   `json:"err,omitempty"` // harness problem (could not log in, update not acknowledged within the watchdog)
}

func seqSet(pos []int) string {
	parts := make([]string, len(pos))
	for i, p := range pos {
		parts[i] = strconv.Itoa(p)
	}

	return strings.Join(parts, ",")
}

// remoteBox returns the remote id of the mailbox with this name. It is read from gluon's database, not from the
// remote model: a RENAME renames the inferiors locally ("so we don't wait for update") while vconn, like any connector,
// is only told about the renamed mailbox itself.
func remoteBox(b *bed.Bed, u *bed.User, name string) (imap.MailboxID, error) {
	ctx, cancel := context.WithTimeout(context.Background(), 60*time.Second)
	defer cancel()

	var id imap.MailboxID

	err := b.Server.VerifDBRead(ctx, u.ID, func(ctx context.Context, ro db.ReadOnly) error {
		mb, err := ro.GetMailboxByName(ctx, name)
		if err != nil {
			return err
		}

		id = mb.RemoteID

		return nil
	})
	if err != nil {
		return "", fmt.Errorf("harness: remote id of mailbox %q: %w", name, err)
	}

	return id, nil
}

func remoteBoxes(b *bed.Bed, u *bed.User, names []string) ([]imap.MailboxID, error) {
	var res []imap.MailboxID

	for _, n := range names {
		id, err := remoteBox(b, u, n)
		if err != nil {
			return nil, err
		}

		res = append(res, id)
	}

	return res, nil
}

// remoteIDOf finds the remote message whose literal carries the marker.
func remoteIDOf(conn *vconn.Conn, marker string) string {
	var id string

	conn.Lock(func() {
		for _, m := range conn.Messages {
			if mach.MarkerOf(string(m.Literal)) == marker {
				id = string(m.ID)
			}
		}
	})

	return id
}

// buildUpdate turns a connector operation into the update to deliver.
func buildUpdate(b *bed.Bed, u *bed.User, o Op) (imap.Update, error) {
	flags := imap.NewFlagSetFromSlice(o.Flags)

	switch o.Kind {
	case "MessagesCreated":
		var ms []*imap.MessageCreated

		for i, marker := range o.Markers {
			lit := literalOf(marker)

			parsed, err := imap.NewParsedMessage(lit)
			if err != nil {
				return nil, err
			}

			boxes, err := remoteBoxes(b, u, o.Boxes[i])
			if err != nil {
				return nil, err
			}

			ms = append(ms, &imap.MessageCreated{
				Message:       imap.Message{ID: imap.MessageID(o.RemoteIDs[i]), Flags: flags.Clone(), Date: fixedDate},
				Literal:       lit,
				MailboxIDs:    boxes,
				ParsedMessage: parsed,
			})
		}

		for i, marker := range o.Known {
			lit := literalOf(marker)

			parsed, err := imap.NewParsedMessage(lit)
			if err != nil {
				return nil, err
			}

			boxes, err := remoteBoxes(b, u, o.KnownBoxes[i])
			if err != nil {
				return nil, err
			}

			known := &imap.MessageCreated{
				Message:       imap.Message{ID: imap.MessageID(o.KnownRemoteIDs[i]), Flags: flags.Clone(), Date: fixedDate},
				Literal:       lit,
				MailboxIDs:    boxes,
				ParsedMessage: parsed,
			}

			// the first known one in front of the new ones, further ones behind
			if i == 0 {
				ms = append([]*imap.MessageCreated{known}, ms...)
			} else {
				ms = append(ms, known)
			}
		}

		return imap.NewMessagesCreated(false, ms...), nil

	case "MessageUpdated":
		lit := literalOf(o.Markers[0])

		parsed, err := imap.NewParsedMessage(lit)
		if err != nil {
			return nil, err
		}

		boxes, err := remoteBoxes(b, u, o.Boxes[0])
		if err != nil {
			return nil, err
		}

		return imap.NewMessageUpdated(imap.Message{ID: imap.MessageID(o.RemoteIDs[0]), Flags: flags, Date: fixedDate}, lit, boxes, parsed, false), nil

	case "MessageDeleted":
		return imap.NewMessagesDeleted(imap.MessageID(o.RemoteIDs[0])), nil

	case "MessageMailboxesUpdated":
		boxes, err := remoteBoxes(b, u, o.Boxes[0])
		if err != nil {
			return nil, err
		}

		return imap.NewMessageMailboxesUpdated(imap.MessageID(o.RemoteIDs[0]), boxes, flags), nil
	}

	return nil, fmt.Errorf("harness: %s is not a connector operation", o.Kind)
}

func isConnectorOp(kind string) bool {
	switch kind {
	case "MessagesCreated", "MessageUpdated", "MessageDeleted", "MessageMailboxesUpdated":
		return true
	}

	return false
}

// execOp performs the operation against the bed. The controller is armed exactly around the operation itself (the
// command after LOGIN/SELECT, or the delivery of the update), so that step numbers are a function of the operation.
func execOp(b *bed.Bed, u *bed.User, o Op, ctl *Ctl, mode Mode, target int) Outcome {
	if isConnectorOp(o.Kind) {
		up, err := buildUpdate(b, u, o)
		if err != nil {
			return Outcome{Err: err.Error()}
		}

		ctl.Arm(mode, target)
		d := b.DeliverNow(u, up)
		trace, fired := ctl.Disarm()

		out := Outcome{Trace: trace, Fired: fired, Status: "OK"}

		switch {
		case !d[0].Acked:
			out.Status, out.Err = "", fmt.Sprintf("update not acknowledged: %v", d[0].Err)
		case d[0].Err != nil:
			out.Status, out.Text = "NO", d[0].Err.Error()
		}

		return out
	}

	s, err := login(b, u, "op")
	if err != nil {
		return Outcome{Err: "login: " + err.Error()}
	}

	defer s.end()

	switch o.Kind {
	case "COPY", "MOVE", "STORE", "EXPUNGE":
		if r := s.Cmdf("SELECT %s", bed.Quote(o.Box)); !r.OK() {
			return Outcome{Err: fmt.Sprintf("SELECT %s: %v", o.Box, r)}
		}
	}

	var r *imapc.Result

	ctl.Arm(mode, target)

	switch o.Kind {
	case "FAILAPPEND":
		u.Conn.Lock(func() {
			u.Conn.Fail = func(method string, _ int) error {
				if method == "CreateMessage" {
					return vconn.ErrInjected
				}

				return nil
			}
		})

		r = s.DoParts(imapc.T(fmt.Sprintf("APPEND %s (%s) ", bed.Quote(o.Box), strings.Join(o.Flags, " "))), imapc.L(literalOf(o.Markers[0])))

		u.Conn.Lock(func() { u.Conn.Fail = nil })

		if r.Status == "NO" {
			r.Status = "OK" // the expected outcome of this setup operation
		} else if r.Status == "OK" {
			r.Status = "NO"
		}
	case "APPEND":
		r = s.DoParts(imapc.T(fmt.Sprintf("APPEND %s (%s) ", bed.Quote(o.Box), strings.Join(o.Flags, " "))), imapc.L(literalOf(o.Markers[0])))
	case "COPY", "MOVE":
		r = s.Do(fmt.Sprintf("%s %s %s", o.Kind, seqSet(o.Pos), bed.Quote(o.Dst)))
	case "STORE":
		sign := "+"
		if !o.On {
			sign = "-"
		}

		r = s.Do(fmt.Sprintf("STORE %s %sFLAGS.SILENT (%s)", seqSet(o.Pos), sign, strings.Join(o.Flags, " ")))
	case "EXPUNGE":
		r = s.Do("EXPUNGE")
	case "CREATE", "DELETE":
		r = s.Do(o.Kind + " " + bed.Quote(o.Box))
	case "RENAME":
		r = s.Do(fmt.Sprintf("RENAME %s %s", bed.Quote(o.Box), bed.Quote(o.Dst)))
	case "SUBSCRIBE":
		verb := "SUBSCRIBE"
		if !o.On {
			verb = "UNSUBSCRIBE"
		}

		r = s.Do(verb + " " + bed.Quote(o.Box))
	default:
		ctl.Disarm()
		return Outcome{Err: "harness: unknown operation " + o.Kind}
	}

	trace, fired := ctl.Disarm()
	out := Outcome{Status: r.Status, Text: strings.TrimSpace(r.Code + " " + r.Text), Trace: trace, Fired: fired}

	if r.Err != nil {
		out.Text += " transport: " + r.Err.Error()
	}

	return out
}

// ---- observation ----

type oMsg struct {
	UID    uint32
	Marker string
	Flags  []string
	Body   string
	ID     string // internal id from the X-Pm-Gluon-Id line ("" if the body has none)
}

type oBox struct {
	Validity, UIDNext uint32
	Msgs              []oMsg
}

// Obs is everything a client (LIST, LSUB, fresh views with bodies) and the disk show.
type Obs struct {
	Boxes    map[string]*oBox // selectable mailboxes
	NoSelect []string
	Subs     []string
	Files    []string // names of the files in the user's store directory
	DBAll    map[string]bool
	DBMarked []string
	DBInBox  map[string]bool
}

var idLine = regexp.MustCompile(`^X-Pm-Gluon-Id: ([0-9a-fA-F-]{36})\r\n`)

func listNames(r *imapc.Result, keyword string) (sel, nosel []string) {
	for _, u := range r.Untagged {
		if u.Keyword() != keyword || len(u.Tokens) < 4 {
			continue
		}

		name := u.Tokens[3].Str
		ns := false

		for _, a := range u.Tokens[1].Items {
			if strings.EqualFold(a.Str, `\Noselect`) {
				ns = true
			}
		}

		if ns {
			nosel = append(nosel, name)
		} else {
			sel = append(sel, name)
		}
	}

	sort.Strings(sel)
	sort.Strings(nosel)

	return sel, nosel
}

// diskAndDB reads the store directory and the message tables (no session involved).
func diskAndDB(b *bed.Bed, u *bed.User, o *Obs) error {
	ents, err := os.ReadDir(b.StoreDir(u))
	if err != nil && !os.IsNotExist(err) {
		return err
	}

	for _, e := range ents {
		o.Files = append(o.Files, e.Name())
	}

	sort.Strings(o.Files)

	ctx, cancel := context.WithTimeout(context.Background(), 60*time.Second)
	defer cancel()

	err = b.Server.VerifDBRead(ctx, u.ID, func(ctx context.Context, ro db.ReadOnly) error {
		all, err := ro.GetAllMessagesIDsAsMap(ctx)
		if err != nil {
			return err
		}

		for id := range all {
			o.DBAll[id.String()] = true
		}

		marked, err := ro.GetMessageIDsMarkedAsDelete(ctx)
		if err != nil {
			return err
		}

		for _, id := range marked {
			o.DBMarked = append(o.DBMarked, id.String())
		}

		boxes, err := ro.GetAllMailboxesWithAttr(ctx)
		if err != nil {
			return err
		}

		for _, mb := range boxes {
			pairs, err := ro.GetMailboxMessageIDPairs(ctx, mb.ID)
			if err != nil {
				return err
			}

			for _, p := range pairs {
				o.DBInBox[p.InternalID.String()] = true
			}
		}

		return nil
	})
	if err != nil {
		return fmt.Errorf("database read: %w", err)
	}

	sort.Strings(o.DBMarked)

	return nil
}

func observe(b *bed.Bed, u *bed.User) (*Obs, error) {
	if err := b.CheckPanics(); err != nil {
		return nil, err
	}

	o := &Obs{Boxes: map[string]*oBox{}, DBAll: map[string]bool{}, DBInBox: map[string]bool{}}

	// disk and database first: a session that ends purges messages marked for deletion (user.removeState), and
	// the property speaks of what the *start* of the server leaves behind
	if err := diskAndDB(b, u, o); err != nil {
		return nil, err
	}

	s, err := login(b, u, "obs")
	if err != nil {
		return nil, fmt.Errorf("the server does not serve a new session: %w", err)
	}

	defer s.end()

	rl := s.Do(`LIST "" "*"`)
	rs := s.Do(`LSUB "" "*"`)

	if !rl.OK() || !rs.OK() {
		return nil, fmt.Errorf("LIST / LSUB refused: %v / %v", rl, rs)
	}

	var sel []string

	sel, o.NoSelect = listNames(rl, "LIST")
	subSel, subNo := listNames(rs, "LSUB")
	o.Subs = append(subSel, subNo...)
	sort.Strings(o.Subs)

	for _, name := range sel {
		ob, err := examine(s, name)
		if err != nil {
			return nil, err
		}

		o.Boxes[name] = ob
	}

	return o, nil
}

// examine reads a mailbox through EXAMINE + UID FETCH 1:* (FLAGS RFC822.SIZE BODY.PEEK[]) (no \\Recent is cleared, no
// flag is set): what any client that opens the mailbox now sees.
func examine(s *sess, name string) (*oBox, error) {
	r := s.Cmdf("EXAMINE %s", bed.Quote(name))
	if !r.OK() {
		return nil, fmt.Errorf("mailbox %s is listed but cannot be examined: %v", name, r)
	}

	ob := &oBox{}
	count := -1

	for _, un := range r.Untagged {
		if n, kw, k := un.Num(); k && kw == "EXISTS" {
			count = int(n)
		}

		if un.Status == "OK" {
			if f := strings.Fields(un.Code); len(f) == 2 {
				v, _ := strconv.ParseUint(f[1], 10, 32)

				switch strings.ToUpper(f[0]) {
				case "UIDVALIDITY":
					ob.Validity = uint32(v)
				case "UIDNEXT":
					ob.UIDNext = uint32(v)
				}
			}
		}
	}

	fr := s.Cmd("UID FETCH 1:* (FLAGS RFC822.SIZE BODY.PEEK[])")
	if !fr.OK() {
		return nil, fmt.Errorf("mailbox %s is listed but its messages cannot be fetched: %v", name, fr)
	}

	type row struct {
		seq uint32
		m   oMsg
	}

	var rows []row

	for _, un := range fr.Untagged {
		n, kw, k := un.Num()
		if !k || kw != "FETCH" {
			continue
		}

		it, k := imapc.FetchItems(un)
		if !k {
			return nil, fmt.Errorf("mailbox %s: malformed FETCH response %s", name, un.Raw)
		}

		uid, _ := strconv.ParseUint(it["UID"].Str, 10, 32)
		body := it["BODY[]"].Str
		size, _ := strconv.Atoi(it["RFC822.SIZE"].Str)

		if size != len(body) {
			return nil, fmt.Errorf("mailbox %s UID %d: RFC822.SIZE %d but BODY[] has %d bytes", name, uid, size, len(body))
		}

		m := oMsg{UID: uint32(uid), Flags: imapc.WithoutFlag(imapc.FlagSet(it["FLAGS"]), `\recent`), Body: body, Marker: mach.MarkerOf(body)}
		if g := idLine.FindStringSubmatch(body); g != nil {
			m.ID = g[1]
		}

		rows = append(rows, row{n, m})
	}

	sort.Slice(rows, func(i, j int) bool { return rows[i].seq < rows[j].seq })

	for i, rw := range rows {
		if rw.seq != uint32(i+1) {
			return nil, fmt.Errorf("mailbox %s: sequence numbers not dense: %d at position %d", name, rw.seq, i+1)
		}

		if i > 0 && rows[i-1].m.UID >= rw.m.UID {
			return nil, fmt.Errorf("mailbox %s: UIDs not ascending: %d then %d", name, rows[i-1].m.UID, rw.m.UID)
		}

		ob.Msgs = append(ob.Msgs, rw.m)
	}

	if count >= 0 && count != len(ob.Msgs) {
		return nil, fmt.Errorf("mailbox %s: EXISTS %d but %d messages fetched", name, count, len(ob.Msgs))
	}

	if b := s.Cmd("UNSELECT"); !b.OK() {
		return nil, fmt.Errorf("mailbox %s: UNSELECT refused: %v", name, b)
	}

	return ob, nil
}

func (o *Obs) describe() string {
	var sb strings.Builder

	var names []string
	for n := range o.Boxes {
		names = append(names, n)
	}

	sort.Strings(names)

	for _, n := range names {
		b := o.Boxes[n]
		fmt.Fprintf(&sb, "  %s (uidvalidity=%d uidnext=%d):", n, b.Validity, b.UIDNext)

		for _, m := range b.Msgs {
			fmt.Fprintf(&sb, " %d=%s%v", m.UID, m.Marker, m.Flags)
		}

		sb.WriteString("\n")
	}

	fmt.Fprintf(&sb, "  \\Noselect: %v\n  LSUB: %v\n  store files: %d, message rows: %d (marked deleted: %d)\n", o.NoSelect, o.Subs, len(o.Files), len(o.DBAll), len(o.DBMarked))

	return sb.String()
}

func sameStrings(a, b []string) bool {
	if len(a) != len(b) {
		return false
	}

	for i := range a {
		if a[i] != b[i] {
			return false
		}
	}

	return true
}

// match compares an observation with a model state; nil = equal (two-sided: nothing missing, nothing invented).
func match(o *Obs, s *State) error {
	// mailboxes
	want := s.boxNames()
	if len(s.Recovery) > 0 {
		want = append(want, recoveryName)
		sort.Strings(want)
	}

	var have []string
	for n := range o.Boxes {
		have = append(have, n)
	}

	sort.Strings(have)

	if !sameStrings(have, want) {
		return fmt.Errorf("mailboxes: LIST shows %v, expected %v", have, want)
	}

	// \Noselect names: superiors of existing mailboxes that do not exist themselves
	ns := map[string]bool{}

	for _, n := range s.boxNames() {
		for _, sup := range superiors(n) {
			if s.Boxes[sup] == nil {
				ns[sup] = true
			}
		}
	}

	var wantNS []string
	for n := range ns {
		wantNS = append(wantNS, n)
	}

	sort.Strings(wantNS)

	if !sameStrings(o.NoSelect, wantNS) {
		return fmt.Errorf("\\Noselect names: LIST shows %v, expected %v", o.NoSelect, wantNS)
	}

	// subscriptions
	subs := map[string]bool{}

	for n, b := range s.Boxes {
		if b.Subscribed {
			subs[n] = true
		}
	}

	for n := range s.DeletedSubs {
		subs[n] = true
	}

	if len(s.Recovery) > 0 {
		subs[recoveryName] = true // the recovery mailbox is created subscribed and listed while it holds messages
	}

	var wantSubs []string
	for n := range subs {
		wantSubs = append(wantSubs, n)
	}

	sort.Strings(wantSubs)

	if !sameStrings(o.Subs, wantSubs) {
		return fmt.Errorf("subscriptions: LSUB shows %v, expected %v", o.Subs, wantSubs)
	}

	// contents
	for _, n := range s.boxNames() {
		sb, ob := s.Boxes[n], o.Boxes[n]

		if sb.Validity != 0 && ob.Validity != sb.Validity {
			return fmt.Errorf("mailbox %s: UIDVALIDITY %d, expected %d", n, ob.Validity, sb.Validity)
		}

		if ob.Validity == 0 {
			return fmt.Errorf("mailbox %s: UIDVALIDITY 0", n)
		}

		if ob.UIDNext != sb.UIDNext {
			return fmt.Errorf("mailbox %s: UIDNEXT %d, expected %d", n, ob.UIDNext, sb.UIDNext)
		}

		if len(ob.Msgs) != len(sb.Entries) {
			return fmt.Errorf("mailbox %s: %d messages, expected %d", n, len(ob.Msgs), len(sb.Entries))
		}

		for i, e := range sb.Entries {
			m := ob.Msgs[i]

			if m.UID != e.UID || m.Marker != e.Marker {
				return fmt.Errorf("mailbox %s position %d: UID %d is message %q, expected UID %d message %q", n, i+1, m.UID, m.Marker, e.UID, e.Marker)
			}

			if wf := s.flagsAt(n, i); !sameStrings(m.Flags, wf) {
				return fmt.Errorf("mailbox %s UID %d (%s): flags %v, expected %v", n, m.UID, m.Marker, m.Flags, wf)
			}

			if body := idLine.ReplaceAllString(m.Body, ""); body != string(literalOf(e.Marker)) || m.ID == "" {
				return fmt.Errorf("mailbox %s UID %d (%s): fetched bytes differ from the stored message (id line present: %v):\n got %q\nwant %q", n, m.UID, m.Marker, m.ID != "", m.Body, literalOf(e.Marker))
			}
		}
	}

	if len(s.Recovery) > 0 {
		ob := o.Boxes[recoveryName]

		var got []string
		for _, m := range ob.Msgs {
			got = append(got, m.Marker)

			if body := idLine.ReplaceAllString(m.Body, ""); body != string(literalOf(m.Marker)) {
				return fmt.Errorf("recovery mailbox UID %d (%s): fetched bytes differ from the message handed to APPEND", m.UID, m.Marker)
			}
		}

		if !sameStrings(got, s.Recovery) {
			return fmt.Errorf("recovery mailbox holds %v, expected %v", got, s.Recovery)
		}
	}

	return nil
}

// checkStart is the part of checkPersisted that needs no model: right after a start of the server no message is
// marked for deletion any more and every store file has a message row.
func checkStart(o *Obs) error {
	if len(o.DBMarked) > 0 {
		return fmt.Errorf("after the start %d message(s) are still marked for deletion in the database: %v", len(o.DBMarked), o.DBMarked)
	}

	for _, f := range o.Files {
		if !o.DBAll[f] {
			return fmt.Errorf("left-over: store file %s belongs to no message of the database (files %v)", f, o.Files)
		}
	}

	return nil
}

// checkRowsHaveFiles: the bytes of every message that is not marked for deletion are in the store (read from the disk
// before any FETCH of the observation: a FETCH would download a missing literal from the connector again and so hide
// that the server no longer had it).
func checkRowsHaveFiles(o *Obs) error {
	have := map[string]bool{}
	for _, f := range o.Files {
		have[f] = true
	}

	marked := map[string]bool{}
	for _, id := range o.DBMarked {
		marked[id] = true
	}

	for id := range o.DBAll {
		if !marked[id] && !have[id] {
			return fmt.Errorf("message bytes lost: the message row %s has no file in the store (%d rows, %d files)", id, len(o.DBAll), len(o.Files))
		}
	}

	return nil
}

// checkPersisted is the part of the oracle that only holds after a start of the server (newUser removes messages
// marked for deletion and store files without a database row): no left-overs, nothing retrievable that was deleted.
func checkPersisted(o *Obs, s *State) error {
	if err := checkStart(o); err != nil {
		return err
	}

	if want := s.liveMessages(); len(o.DBAll) != want {
		return fmt.Errorf("the database holds %d message rows after the start, the model has %d live messages (a message that was deleted is still there, or one was lost); rows in a mailbox: %d", len(o.DBAll), want, len(o.DBInBox))
	}

	// every message a client can see has a row
	for n, b := range o.Boxes {
		for _, m := range b.Msgs {
			if m.ID != "" && (!o.DBAll[m.ID] || !o.DBInBox[m.ID]) {
				return fmt.Errorf("mailbox %s UID %d: internal id %s has no row / mailbox entry in the database", n, m.UID, m.ID)
			}
		}
	}

	return nil
}
