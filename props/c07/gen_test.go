package c07

import (
	"fmt"
	"sort"
	"strings"

	"github.com/ProtonMail/gluon/imap"
	"pgregory.net/rapid"

	"verif/internal/bed"
	"verif/internal/vconn"
)

// The twelve operations of the property's quantifier.
var opKinds = []string{
	"APPEND", "COPY", "MOVE", "EXPUNGE", "CREATE", "DELETE", "RENAME", "SUBSCRIBE",
	"MessagesCreated", "MessageUpdated", "MessageDeleted", "MessageMailboxesUpdated",
}

// setupKinds: what a pre-state is built from (the twelve plus STORE).
var setupKinds = append(append([]string{}, opKinds...), "STORE", "STORE", "APPEND", "APPEND", "CREATE", "MessagesCreated", "FAILAPPEND")

var namePool = []string{"A", "B", "A/x", "A/x/y", "B/c", "C/d/e", "D", "A/z"}

var appendFlagChoices = [][]string{{}, {`\Seen`}, {`\Flagged`, `\Seen`}, {`\Deleted`}, {`\Answered`}, {"kw1"}}
var storeFlagChoices = [][]string{{`\Deleted`}, {`\Deleted`}, {`\Seen`}, {`\Flagged`}, {`\Deleted`, `\Seen`}, {"kw2"}}
var connFlagChoices = [][]string{{}, {`\Seen`}, {`\Flagged`}, {`\Seen`, `\Answered`}}

// opGen constructs operations that are valid in the given model state (no rejection: arguments are built from the
// state). It also prepares the remote side (vconn) for connector operations.
type opGen struct {
	b       *bed.Bed
	u       *bed.User
	conn    *vconn.Conn
	nMarker int
}

func (g *opGen) marker() string {
	g.nMarker++
	return fmt.Sprintf("m%d", g.nMarker)
}

func pick[T any](t *rapid.T, label string, xs []T) T {
	return xs[rapid.IntRange(0, len(xs)-1).Draw(t, label)]
}

// subset draws a non-empty ascending subset of 1..n (a range or scattered positions).
func subset(t *rapid.T, n int) []int {
	if rapid.Bool().Draw(t, "range") {
		lo := rapid.IntRange(1, n).Draw(t, "lo")
		hi := rapid.IntRange(lo, n).Draw(t, "hi")

		var res []int
		for p := lo; p <= hi; p++ {
			res = append(res, p)
		}

		return res
	}

	var res []int

	for p := 1; p <= n; p++ {
		if rapid.Bool().Draw(t, "in") {
			res = append(res, p)
		}
	}

	if len(res) == 0 {
		res = []int{rapid.IntRange(1, n).Draw(t, "one")}
	}

	return res
}

func (s *State) nonEmptyBoxes() []string {
	var res []string

	for _, n := range s.boxNames() {
		if len(s.Boxes[n].Entries) > 0 {
			res = append(res, n)
		}
	}

	return res
}

func (s *State) liveMarkers() []string {
	var res []string

	for m, msg := range s.Msgs {
		if !msg.MarkedDeleted {
			res = append(res, m)
		}
	}

	sort.Slice(res, func(i, j int) bool {
		if len(res[i]) != len(res[j]) {
			return len(res[i]) < len(res[j])
		}

		return res[i] < res[j]
	})

	return res
}

func (s *State) freeNames(avoidUnder string) []string {
	var res []string

	for _, n := range namePool {
		if s.Boxes[n] != nil {
			continue
		}

		if avoidUnder != "" && (n == avoidUnder || strings.HasPrefix(n, avoidUnder+"/")) {
			continue
		}

		res = append(res, n)
	}

	return res
}

func drawBoxes(t *rapid.T, s *State, min, max int) []string {
	names := s.boxNames()
	if max > len(names) {
		max = len(names)
	}

	n := rapid.IntRange(min, max).Draw(t, "nBoxes")
	perm := rapid.Permutation(names).Draw(t, "boxes")

	return append([]string{}, perm[:n]...)
}

// gen returns an operation of the kind that is valid in state s, or nil if the state admits none.
func (g *opGen) gen(t *rapid.T, s *State, kind string) *Op {
	switch kind {
	case "APPEND":
		return &Op{Kind: kind, Box: pick(t, "box", s.boxNames()), Flags: pick(t, "flags", appendFlagChoices), Markers: []string{g.marker()}}

	case "FAILAPPEND":
		return &Op{Kind: kind, Box: pick(t, "box", s.boxNames()), Flags: pick(t, "flags", connFlagChoices), Markers: []string{g.marker()}}

	case "COPY", "MOVE":
		// out of the recovery mailbox (messages not imported before: an import creates a new message each time)
		var rec []int

		for i, m := range s.Recovery {
			if s.Msgs[m] == nil {
				rec = append(rec, i+1)
			}
		}

		if len(rec) > 0 && rapid.IntRange(0, 2).Draw(t, "fromRecovery") > 0 {
			n := rapid.IntRange(1, len(rec)).Draw(t, "nRec")

			return &Op{Kind: kind, Box: recoveryName, Dst: pick(t, "dst", s.boxNames()), Pos: append([]int{}, rec[:n]...)}
		}

		src := s.nonEmptyBoxes()
		if len(src) == 0 || len(s.Boxes) < 2 {
			return nil
		}

		box := pick(t, "src", src)

		var dsts []string

		for _, n := range s.boxNames() {
			if n != box {
				dsts = append(dsts, n)
			}
		}

		return &Op{Kind: kind, Box: box, Dst: pick(t, "dst", dsts), Pos: subset(t, len(s.Boxes[box].Entries))}

	case "STORE":
		src := s.nonEmptyBoxes()
		if len(src) == 0 {
			return nil
		}

		box := pick(t, "box", src)

		return &Op{Kind: kind, Box: box, Pos: subset(t, len(s.Boxes[box].Entries)), Flags: pick(t, "flags", storeFlagChoices), On: rapid.IntRange(0, 3).Draw(t, "on") > 0}

	case "EXPUNGE":
		var cands []string

		for _, n := range s.boxNames() {
			for _, e := range s.Boxes[n].Entries {
				if e.Deleted {
					cands = append(cands, n)
					break
				}
			}
		}

		if len(cands) == 0 {
			return nil
		}

		return &Op{Kind: kind, Box: pick(t, "box", cands)}

	case "CREATE":
		free := s.freeNames("")
		if len(free) == 0 {
			return nil
		}

		return &Op{Kind: kind, Box: pick(t, "name", free)}

	case "DELETE":
		var cands []string

		for _, n := range s.boxNames() {
			if n != "INBOX" {
				cands = append(cands, n)
			}
		}

		if len(cands) == 0 {
			return nil
		}

		return &Op{Kind: kind, Box: pick(t, "name", cands)}

	case "RENAME":
		names := s.boxNames()

		old := pick(t, "old", names)
		if old == "INBOX" && rapid.IntRange(0, 2).Draw(t, "inboxToo") > 0 && len(names) > 1 {
			old = names[(sort.SearchStrings(names, "INBOX")+1)%len(names)]
		}

		// prefer a mailbox that has inferiors (they are renamed along with it)
		var parents []string

		for _, n := range names {
			for _, e := range names {
				if strings.HasPrefix(e, n+"/") {
					parents = append(parents, n)
					break
				}
			}
		}

		if len(parents) > 0 && rapid.IntRange(0, 2).Draw(t, "withInferiors") > 0 {
			old = pick(t, "parent", parents)
		}

		var cands []string

	next:
		for _, n := range s.freeNames(old) {
			// no existing mailbox may sit at or below the new name (its inferiors would collide)
			for _, e := range names {
				if strings.HasPrefix(e, n+"/") {
					continue next
				}
			}

			cands = append(cands, n)
		}

		if len(cands) == 0 {
			return nil
		}

		return &Op{Kind: kind, Box: old, Dst: pick(t, "new", cands)}

	case "SUBSCRIBE":
		var cands []string

		for _, n := range s.boxNames() {
			if !s.DeletedSubs[n] {
				cands = append(cands, n)
			}
		}

		if len(cands) == 0 {
			return nil
		}

		box := pick(t, "box", cands)

		return &Op{Kind: kind, Box: box, On: !s.Boxes[box].Subscribed}

	case "MessagesCreated":
		n := rapid.IntRange(1, 3).Draw(t, "batch")
		o := &Op{Kind: kind, Flags: pick(t, "flags", connFlagChoices)}

		for i := 0; i < n; i++ {
			o.Markers = append(o.Markers, g.marker())
			o.Boxes = append(o.Boxes, drawBoxes(t, s, 1, 2))
		}

		// half of the batches announce messages again that the server has already (a re-sync)
		var known []string

		recovered := map[string]bool{}
		for _, m := range s.Recovery {
			recovered[m] = true
		}

		for _, m := range s.liveMarkers() {
			if !recovered[m] && remoteIDOf(g.conn, m) != "" && len(s.boxesOf(m)) > 0 {
				known = append(known, m)
			}
		}

		if len(known) > 0 && rapid.Bool().Draw(t, "withKnown") {
			for i, k := 0, rapid.IntRange(1, 2).Draw(t, "nKnown"); i < k && len(known) > 0; i++ {
				j := rapid.IntRange(0, len(known)-1).Draw(t, "known")
				m := known[j]
				known = append(known[:j:j], known[j+1:]...)

				boxes := s.boxesOf(m)
				if rapid.IntRange(0, 2).Draw(t, "oneMore") == 0 {
					for _, bn := range drawBoxes(t, s, 1, 1) {
						if s.Boxes[bn].index(m) < 0 {
							boxes = append(boxes, bn)
						}
					}
				}

				o.Known = append(o.Known, m)
				o.KnownBoxes = append(o.KnownBoxes, boxes)
			}
		}

		return o

	case "MessageUpdated":
		live := s.liveMarkers()
		if len(live) == 0 {
			return nil
		}

		return &Op{Kind: kind, Target: pick(t, "target", live), Markers: []string{g.marker()}, Boxes: [][]string{drawBoxes(t, s, 1, 2)}, Flags: pick(t, "flags", connFlagChoices)}

	case "MessageDeleted":
		live := s.liveMarkers()
		if len(live) == 0 {
			return nil
		}

		return &Op{Kind: kind, Target: pick(t, "target", live)}

	case "MessageMailboxesUpdated":
		live := s.liveMarkers()
		if len(live) == 0 {
			return nil
		}

		return &Op{Kind: kind, Target: pick(t, "target", live), Boxes: [][]string{drawBoxes(t, s, 0, 2)}, Flags: pick(t, "flags", connFlagChoices)}
	}

	panic("gen: unknown kind " + kind)
}

// prepareRemote makes the remote side ready for a connector operation (the remote knows a message before it tells
// gluon about it) and fills in the remote ids.
func (g *opGen) prepareRemote(o *Op) error {
	switch o.Kind {
	case "MessagesCreated":
		for i, m := range o.Markers {
			boxes, err := remoteBoxes(g.b, g.u, o.Boxes[i])
			if err != nil {
				return err
			}

			rm, _, err := g.conn.NewRemoteMessage(literalOf(m), imap.NewFlagSetFromSlice(o.Flags), fixedDate, boxes...)
			if err != nil {
				return err
			}

			o.RemoteIDs = append(o.RemoteIDs, string(rm.ID))
		}

		for i, m := range o.Known {
			id := remoteIDOf(g.conn, m)
			if id == "" {
				return fmt.Errorf("harness: the remote side does not know message %s", m)
			}

			boxes, err := remoteBoxes(g.b, g.u, o.KnownBoxes[i])
			if err != nil {
				return err
			}

			g.conn.Lock(func() {
				for _, bid := range boxes {
					g.conn.Messages[imap.MessageID(id)].Boxes[bid] = true
				}
			})

			o.KnownRemoteIDs = append(o.KnownRemoteIDs, id)
		}

	case "MessageUpdated", "MessageDeleted", "MessageMailboxesUpdated":
		id := remoteIDOf(g.conn, o.Target)
		if id == "" {
			return fmt.Errorf("harness: the remote side does not know message %s", o.Target)
		}

		o.RemoteIDs = []string{id}

		if o.Kind == "MessageUpdated" {
			g.conn.Lock(func() { g.conn.Messages[imap.MessageID(id)].Literal = literalOf(o.Markers[0]) })
		}
	}

	return nil
}

// ensure returns setup operations after which an operation of the kind is possible in s.
func (g *opGen) ensure(s *State, kind string) []Op {
	switch kind {
	case "COPY", "MOVE":
		var ops []Op

		if len(s.Boxes) < 2 {
			for _, n := range namePool {
				if s.Boxes[n] == nil {
					ops = append(ops, Op{Kind: "CREATE", Box: n})
					break
				}
			}
		}

		if len(s.nonEmptyBoxes()) == 0 {
			ops = append(ops, Op{Kind: "APPEND", Box: "INBOX", Flags: []string{`\Seen`}, Markers: []string{g.marker()}})
		}

		return ops

	case "EXPUNGE":
		return []Op{
			{Kind: "APPEND", Box: "INBOX", Flags: []string{`\Deleted`}, Markers: []string{g.marker()}},
			{Kind: "APPEND", Box: "INBOX", Markers: []string{g.marker()}},
		}

	case "RENAME":
		// a mailbox with an inferior
		for _, n := range []string{"A/x", "B/c", "C/d/e", "A/z", "A/x/y"} {
			if s.Boxes[n] == nil {
				return []Op{{Kind: "CREATE", Box: n}}
			}
		}

	case "DELETE":
		for _, n := range []string{"A/x", "B/c", "D", "A/z", "C/d/e"} {
			if s.Boxes[n] == nil {
				return []Op{{Kind: "CREATE", Box: n}}
			}
		}

	case "CREATE":
		return []Op{{Kind: "DELETE", Box: pickFirstNonInbox(s)}}

	case "STORE", "MessageUpdated", "MessageDeleted", "MessageMailboxesUpdated":
		return []Op{{Kind: "APPEND", Box: "INBOX", Flags: []string{`\Seen`}, Markers: []string{g.marker()}}}
	}

	return nil
}

func pickFirstNonInbox(s *State) string {
	for _, n := range s.boxNames() {
		if n != "INBOX" {
			return n
		}
	}

	return ""
}
