package c07

import (
	"fmt"
	"testing"
	"time"

	"github.com/ProtonMail/gluon/imap"
	"pgregory.net/rapid"

	"verif/internal/bed"
	"verif/internal/ev"
	"verif/internal/mach"
)

// Left-overs in bulk: the clean-up at the start of the server (and the one at the end of the last session) removes the
// messages marked for deletion with list-taking statements that are split into batches of db.ChunkLimit. N messages
// are created through one connector update, a drawn part of them is deleted by the connector (with no session open
// they stay "marked for deletion"), the server is restarted: nothing marked may be left, every store file has a row,
// the survivors are all there.
func TestC07BulkLeftovers(t *testing.T) {
	ev.Checks(3, 12)
	ev.ShrinkTime(5 * time.Second)

	defer ev.ShrinkTime(30 * time.Second)

	rapid.Check(t, func(t *rapid.T) {
		n := rapid.SampledFrom([]int{999, 1000, 1001, 1500, 2001, 2500}).Draw(t, "n")
		keep := rapid.SampledFrom([]int{0, 0, 1, 7}).Draw(t, "keep")
		viaSession := rapid.Bool().Draw(t, "viaSession")

		b, err := bed.Start(bed.Options{}, bed.UserSpec{Name: "user", Pass: "pass"})
		if err != nil {
			t.Fatalf("VERIF-INCONCLUSIVE: bed: %v", err)
		}

		defer b.Destroy()

		u := b.Users[0]

		var (
			mcs []*imap.MessageCreated
			ids []imap.MessageID
		)

		for i := 0; i < n; i++ {
			m, mc, err := u.Conn.NewRemoteMessage(mach.Msg(fmt.Sprintf("b%d", i), ""), imap.NewFlagSet(), time.Unix(1600000000, 0), u.Inbox.ID)
			if err != nil {
				t.Fatalf("harness: %v", err)
			}

			mcs = append(mcs, mc)
			ids = append(ids, m.ID)
		}

		if d := b.DeliverNow(u, imap.NewMessagesCreated(false, mcs...)); d[0].Err != nil {
			t.Fatalf("C07 violated: MessagesCreated of %d messages refused: %v", n, d[0].Err)
		}

		gone := n - keep

		// with a session that has the mailbox selected while the connector deletes, the purge is (also) the business of
		// the end of that session (user.removeState); without, of the next start alone
		var s *bed.Session

		if viaSession {
			if s, err = b.Login("s", u); err != nil {
				t.Fatalf("harness: %v", err)
			}

			s.Select("INBOX", false)
		}

		for _, id := range ids[:gone] {
			if d := b.DeliverNow(u, imap.NewMessagesDeleted(id)); d[0].Err != nil {
				t.Fatalf("C07 violated: MessageDeleted refused: %v", d[0].Err)
			}
		}

		if s != nil {
			s.Do("NOOP")
			s.Logout()
		}

		if err := b.Restart(); err != nil {
			t.Fatalf("C07 violated: the server does not start again: %v", err)
		}

		o := &Obs{Boxes: map[string]*oBox{}, DBAll: map[string]bool{}, DBInBox: map[string]bool{}}
		if err := diskAndDB(b, u, o); err != nil {
			t.Fatalf("harness: %v", err)
		}

		if len(o.DBMarked) > 0 {
			t.Fatalf("C07 violated: %d messages created, %d removed (a session had the mailbox selected meanwhile: %v), restart: %d message(s) are still marked for deletion in the database", n, gone, viaSession, len(o.DBMarked))
		}

		if err := checkStart(o); err != nil {
			t.Fatalf("C07 violated: %d messages created, %d removed (a session had the mailbox selected meanwhile: %v), restart: %v", n, gone, viaSession, err)
		}

		if len(o.DBAll) != keep || len(o.Files) != keep {
			t.Fatalf("C07 violated: %d messages created, %d removed (a session had the mailbox selected meanwhile: %v), restart: %d message rows and %d store files, expected %d each", n, gone, viaSession, len(o.DBAll), len(o.Files), keep)
		}

		fresh, _, _, ok, err := b.FreshView(u, "INBOX", false)
		if err != nil || !ok || len(fresh) != keep {
			t.Fatalf("C07 violated: after the restart INBOX shows %d messages (err %v), expected %d", len(fresh), err, keep)
		}

		ev.Case(gone > 1000, ev.Hash(n, keep, viaSession), "bulk-leftovers", fmt.Sprintf("bulk-n:%d", n))
	})
}
