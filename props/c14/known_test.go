package c14

import (
	"fmt"
	"strings"
	"testing"
	"time"

	"verif/internal/bed"
	"verif/internal/imapc"
	"verif/internal/kf"
)

// Scripted regressions of the genuine defects found by the C14 machine (minimal failing inputs). Each one passes
// silently when the defect no longer reproduces, prints the KNOWN-FINDING line when it reproduces and is listed in
// known_findings.json, and fails when it reproduces without being listed.

type script struct {
	t     *testing.T
	b     *bed.Bed
	s     *bed.Session
	delim string
}

func newScript(t *testing.T, delim string) *script {
	t.Helper()

	opt := bed.Options{Delimiter: delim}
	if delim == "" {
		opt.Delimiter = bed.FlatDelimiter
	}

	b, err := startBed(opt)
	if err != nil {
		t.Fatalf("VERIF-INCONCLUSIVE: harness: cannot start the server: %v", err)
	}

	t.Cleanup(b.Destroy)

	s, err := login(b, "s0")
	if err != nil {
		t.Fatalf("VERIF-INCONCLUSIVE: harness: cannot log in: %v", err)
	}

	return &script{t: t, b: b, s: s, delim: delim}
}

// cmd sends a command; panicked=true if a gluon goroutine panicked instead of answering.
func (c *script) cmd(text string) (r *imapc.Result, panicked bool) {
	done := make(chan *imapc.Result, 1)

	go func() { done <- c.s.Do(text) }()

	tick := time.NewTicker(2 * time.Millisecond)
	defer tick.Stop()

	for {
		select {
		case r := <-done:
			return r, len(c.b.Panics.Get()) > 0
		case <-tick.C:
			if len(c.b.Panics.Get()) > 0 {
				c.s.Client.Close()
				return <-done, true
			}
		}
	}
}

func (c *script) must(text string) {
	c.t.Helper()

	if r, _ := c.cmd(text); !r.OK() {
		c.t.Fatalf("harness: %s: %v\n%s", text, r, c.b.Hist)
	}
}

func (c *script) list(verb, ref, pattern string) map[string]bool {
	c.t.Helper()

	r, _ := c.cmd(verb + " " + q(ref) + " " + q(pattern))
	if !r.OK() {
		c.t.Fatalf("%s: %v\n%s", r.Cmd, r, c.b.Hist)
	}

	res, err := parseList(r, verb, c.delim)
	if err != nil {
		c.t.Fatalf("%s: %v\n%s", r.Cmd, err, c.b.Hist)
	}

	return res
}

func (c *script) done() {
	if len(c.b.Panics.Get()) == 0 {
		c.s.Logout()
	}
}

func firstLine(s string) string {
	if i := strings.IndexByte(s, '\n'); i >= 0 {
		return s[:i]
	}

	return s
}

// verdict implements the known-finding protocol for a list of reproduced manifestations.
func verdict(t *testing.T, id string, reproduced []string) {
	t.Helper()

	if len(reproduced) == 0 {
		return
	}

	if !kf.Report(id) {
		t.Fatalf("C14 violated (%s, not listed as known):\n  %s", id, strings.Join(reproduced, "\n  "))
	}
}

// `%` in a LIST/LSUB pattern is translated to the character class [^<delimiter>]* without escaping the delimiter
// (internal/state/match.go:149): with the delimiter `\` or the empty delimiter the expression does not compile and
// regexp.MustCompile panics in the session goroutine.
func TestKnown_C14_percent_delimiter_class(t *testing.T) {
	var hit []string

	for _, delim := range []string{`\`, ""} {
		for _, verb := range []string{"LIST", "LSUB"} {
			c := newScript(t, delim)

			if _, panicked := c.cmd(verb + ` "" "%"`); panicked {
				hit = append(hit, fmt.Sprintf("delimiter %q: %s \"\" \"%%\" -> panic: %s", delim, verb, firstLine(c.b.Panics.Get()[0])))
			}

			c.done()
		}
	}

	verdict(t, kfPercentClass, hit)
}

// An empty mailbox name with the empty delimiter: session.decodeMailboxName indexes the result of
// strings.SplitAfterN("", "", 2), which is empty (internal/session/session.go:321). `LIST "" ""` is the command every
// client uses to learn the hierarchy delimiter.
func TestKnown_C14_empty_name_empty_delimiter(t *testing.T) {
	var hit []string

	for _, text := range []string{`LIST "" ""`, `LSUB "" ""`, `CREATE ""`, `SUBSCRIBE ""`} {
		c := newScript(t, "")

		if _, panicked := c.cmd(text); panicked {
			hit = append(hit, fmt.Sprintf("delimiter \"\": %s -> panic: %s", text, firstLine(c.b.Panics.Get()[0])))
		}

		c.done()
	}

	verdict(t, kfEmptyNameFlat, hit)
}

// LIST/LSUB fold "inbox" to INBOX in every piece between delimiters of reference+pattern (state.canon,
// internal/state/match.go:196) and in the mailbox name argument before it is appended to the reference
// (session.handleList -> decodeMailboxName), instead of in the first hierarchy level of the interpreted name only:
// existing mailboxes cannot be listed by their exact name, others are reported for a name that differs in case; with
// the empty delimiter the pieces are single characters and `LIST "" inbox` does not find INBOX.
func TestKnown_C14_list_inbox_fold_per_level(t *testing.T) {
	var hit []string

	{
		c := newScript(t, "/")
		c.must(`CREATE "a/inbox"`)
		c.must(`CREATE "b/INBOX"`)
		c.must(`CREATE "ainbox/x"`)

		if got := c.list("LIST", "", "a/inbox"); !same(got, map[string]bool{"a/inbox": false}) {
			hit = append(hit, fmt.Sprintf(`(a) delimiter "/", mailbox a/inbox exists: LIST "" "a/inbox" answered%s`, show(got)))
		}

		if got := c.list("LIST", "", "b/inbox"); len(got) != 0 {
			hit = append(hit, fmt.Sprintf(`(a) delimiter "/", only b/INBOX exists: LIST "" "b/inbox" answered%s`, show(got)))
		}

		if got := c.list("LIST", "a", "inbox/x"); !same(got, map[string]bool{"ainbox/x": false}) {
			hit = append(hit, fmt.Sprintf(`(c) delimiter "/", mailbox ainbox/x exists: LIST "a" "inbox/x" answered%s`, show(got)))
		}

		c.done()
	}

	{
		c := newScript(t, "")

		if got := c.list("LIST", "", "inbox"); !same(got, map[string]bool{"INBOX": false}) {
			hit = append(hit, fmt.Sprintf(`(b) delimiter "": LIST "" "inbox" answered%s`, show(got)))
		}

		c.done()
	}

	verdict(t, kfInboxPerLevel, hit)
}

// The reference argument of LIST/LSUB is used as received (internal/session/handle_list.go:23, handle_lsub.go:23: only
// the mailbox name argument is decoded from modified UTF-7).
func TestKnown_C14_list_reference_not_decoded(t *testing.T) {
	var hit []string

	c := newScript(t, "/")
	c.must("CREATE " + q("é/x"))
	c.must("CREATE " + q("a&b/y"))

	if got := c.list("LIST", "é/", "%"); !same(got, map[string]bool{"é/x": false}) {
		hit = append(hit, fmt.Sprintf(`mailbox é/x exists: LIST "&AOk-/" "%%" answered%s`, show(got)))
	}

	if got := c.list("LSUB", "a&b/", "*"); !same(got, map[string]bool{"a&b/y": false}) {
		hit = append(hit, fmt.Sprintf(`mailbox a&b/y exists: LSUB "a&-b/" "*" answered%s`, show(got)))
	}

	if got := c.list("LIST", "é/x", ""); !same(got, map[string]bool{"é/": true}) {
		hit = append(hit, fmt.Sprintf(`LIST "&AOk-/x" "" answered%s`, show(got)))
	}

	c.done()
	verdict(t, kfRefNotDecoded, hit)
}

// A subscribed mailbox that a client deletes leaves a row in deleted_subscriptions (RFC 3501 6.3.6: the subscription
// outlives the mailbox). Nothing removes the row when a mailbox of that name comes into existence again (CREATE,
// RENAME onto it, MailboxCreated/MailboxUpdated): LSUB then reports the existing mailbox with \Noselect
// (state.List appends the deleted subscription after the mailbox and getMatches keeps the last of equal names,
// internal/state/state.go:150, match.go:38), and UNSUBSCRIBE clears the mailbox's flag only, so the name stays in LSUB.
func TestKnown_C14_stale_deleted_subscription(t *testing.T) {
	var hit []string

	c := newScript(t, "/")
	c.must(`CREATE "foo"`)
	c.must(`DELETE "foo"`)
	c.must(`CREATE "foo"`)

	if got := c.list("LSUB", "", "foo"); !same(got, map[string]bool{"foo": false}) {
		hit = append(hit, fmt.Sprintf(`CREATE foo, DELETE foo, CREATE foo: LSUB "" "foo" answered%s (the mailbox exists and can be selected)`, show(got)))
	}

	c.must(`UNSUBSCRIBE "foo"`)

	if got := c.list("LSUB", "", "*"); !same(got, map[string]bool{"INBOX": false}) {
		hit = append(hit, fmt.Sprintf(`... UNSUBSCRIBE foo -> OK: LSUB "" "*" answered%s`, show(got)))
	}

	c.done()
	verdict(t, kfStaleDeletedSub, hit)
}

// CREATE refuses every name below the recovery mailbox (tests/recovery_mailbox_test.go
// TestRecoveryMBoxCanNotBeCreated, "Recovered Messages/sub"; the mailbox is advertised with \Noinferiors), RENAME only
// compares the two names themselves with the recovery name (internal/state/state.go:347).
func TestKnown_C14_rename_under_recovery(t *testing.T) {
	var hit []string

	c := newScript(t, "/")
	c.must(`CREATE "x"`)

	if r, _ := c.cmd(`CREATE "Recovered Messages/sub"`); r.OK() {
		t.Fatalf("C14 violated: CREATE below the recovery mailbox accepted\n%s", c.b.Hist)
	}

	if r, _ := c.cmd(`RENAME "x" "Recovered Messages/sub"`); r.OK() {
		hit = append(hit, fmt.Sprintf(`RENAME x "Recovered Messages/sub" -> OK; LIST "" "*" then answers%s`, show(c.list("LIST", "", "*"))))
	}

	c.done()
	verdict(t, kfRenameRecovery, hit)
}

// RENAME renames the inferiors one by one in descending name order (internal/state/state.go:418-437, listInferiors
// sorts and reverses): when a subtree moves up onto the name of a missing superior and a new name of one inferior is
// the old name of another that has not been renamed yet, the statement fails with the UNIQUE constraint of the
// mailboxes table and RENAME is refused, although no two names collide in the result.
func TestKnown_C14_rename_subtree_upwards(t *testing.T) {
	var hit []string

	for _, tc := range []struct {
		create   []string
		del      string
		from, to string
		want     map[string]bool
	}{
		{[]string{"a/b/b/b"}, "a", "a/b", "a", map[string]bool{"INBOX": false, "a": false, "a/b": false, "a/b/b": false}},
		{[]string{"a/b/b/c", "a/b/c"}, "a", "a/b", "a", map[string]bool{"INBOX": false, "a": false, "a/b": false, "a/b/c": false, "a/c": false}},
		{[]string{"x/a/a", "x/a/b"}, "x", "x/a", "x", map[string]bool{"INBOX": false, "x": false, "x/a": false, "x/b": false}},
	} {
		c := newScript(t, "/")

		for _, n := range tc.create {
			c.must("CREATE " + q(n))
		}

		c.must("DELETE " + q(tc.del))

		r, _ := c.cmd("RENAME " + q(tc.from) + " " + q(tc.to))
		if !r.OK() {
			hit = append(hit, fmt.Sprintf("CREATE %q, DELETE %q, RENAME %q %q answered %s %q", tc.create, tc.del, tc.from, tc.to, r.Status, r.Text))
		} else if got := c.list("LIST", "", "*"); !same(got, tc.want) {
			hit = append(hit, fmt.Sprintf("CREATE %q, DELETE %q, RENAME %q %q: LIST \"\" \"*\" answered%s, expected%s", tc.create, tc.del, tc.from, tc.to, show(got), show(tc.want)))
		}

		c.done()
	}

	verdict(t, kfRenameUpwards, hit)
}
