package c14

import (
	"flag"
	"fmt"
	"sort"
	"strings"
	"testing"
	"time"
	"unicode/utf8"

	"github.com/ProtonMail/gluon/imap"
	"github.com/emersion/go-imap/utf7"
	"pgregory.net/rapid"

	"verif/internal/bed"
	"verif/internal/ev"
	"verif/internal/imapc"
	"verif/internal/kf"
	"verif/internal/model/ns"
)

// recoveryID is ids.GluonInternalRecoveryMailboxRemoteID (gluon/internal/ids, not importable from here).
const recoveryID = "GLUON-INTERNAL-RECOVERY-MBOX"

// Known findings of C14 (see known_test.go for the scripted regressions and the steering predicates).
const (
	kfPercentClass    = "C14-percent-delimiter-class"    // `%` with delimiter `\` or "" : regexp does not compile, panic
	kfInboxPerLevel   = "C14-list-inbox-fold-per-level"  // LIST folds "inbox" at every level / never with "" delimiter
	kfRefNotDecoded   = "C14-list-reference-not-decoded" // LIST/LSUB reference is not decoded from modified UTF-7
	kfStaleDeletedSub = "C14-stale-deleted-subscription" // re-created name keeps its "deleted but subscribed" row
	kfRenameRecovery  = "C14-rename-under-recovery"      // RENAME may create inferiors of the recovery mailbox
	kfEmptyNameFlat   = "C14-empty-name-empty-delimiter" // empty mailbox name with the "" delimiter: index out of range, panic
	kfRenameUpwards   = "C14-rename-subtree-upwards"     // inferiors renamed one by one collide with not yet renamed ones
	maxSteps          = 25
	inboxSpellings    = 4
	recoverySpellings = 3
)

var delims = []string{"/", ".", "|", `\`, "^", "]", ""}

// segment alphabet: common short ones first (they are drawn more often: collisions, shared prefixes a/ab/A),
// then inbox spellings, spaces, regexp metacharacters, non-ASCII (sent in modified UTF-7), '&', quoted specials,
// list wildcards as ordinary name characters, the recovery name.
var baseSegs = []string{
	"a", "b", "a", "b", "ab", "A", "c",
	"inbox", "INBOX", "iNbOx", "inboxx",
	"x y", "a.b", "a+b", "aXb", "(c)", "[d]", "c|d", "^e", "e$", "b\\c", "]", "{f}", "a?",
	"é", "日本", "a&b", `q"r`, "p%q", "s*t", "a/b",
	ns.Recovery, "recovered messages",
}

func segments(delim string) []string {
	var res []string

	for _, s := range baseSegs {
		if delim == "" || !strings.Contains(s, delim) {
			res = append(res, s)
		}
	}

	return res
}

var enc = utf7.Encoding

func toUTF7(s string) string {
	r, err := enc.NewEncoder().String(s)
	if err != nil {
		panic(err)
	}

	return r
}

// q is a mailbox name (or pattern) as the client writes it: modified UTF-7 in a quoted string.
func q(name string) string { return bed.Quote(toUTF7(name)) }

type world struct {
	t     *rapid.T
	b     *bed.Bed
	u     *bed.User
	sess  []*bed.Session
	m     *ns.Model
	delim string
	segs  []string

	ops    []string
	labels map[string]int
	steps  int
	ntOp   bool // a RENAME moved an inferior or a DELETE left a \Noselect parent
	ntPat  bool // a queried pattern had a wildcard next to a delimiter
	failed bool
	idle   bool
}

// do sends a command. A panic of a gluon goroutine (recorded by the bed's panic handler; the default handler would
// have ended the process) leaves the session without an answer: the panic itself, not the time that passed, ends the
// wait.
func (w *world) do(s *bed.Session, cmd string) *imapc.Result {
	done := make(chan *imapc.Result, 1)

	go func() { done <- s.Do(cmd) }()

	tick := time.NewTicker(2 * time.Millisecond)
	defer tick.Stop()

	for {
		select {
		case r := <-done:
			return r
		case <-tick.C:
			if len(w.b.Panics.Get()) > 0 {
				w.op("%s: %s -> no answer (panic)", s.Name, cmd)
				s.Client.Close()
				<-done
				w.panics()
			}
		}
	}
}

func (w *world) op(format string, a ...any) { w.ops = append(w.ops, fmt.Sprintf(format, a...)) }
func (w *world) label(l string)             { w.labels[l]++ }

func (w *world) dump() string {
	var sb strings.Builder

	fmt.Fprintf(&sb, "delimiter %q; mailboxes:", w.delim)

	for _, n := range w.m.Names() {
		b := w.m.Boxes[n]
		fmt.Fprintf(&sb, " %q(id=%s sub=%v hidden=%v)", n, b.ID, b.Subscribed, b.Hidden)
	}

	fmt.Fprintf(&sb, "; deleted-but-subscribed: %q", w.m.DeletedSubNames())

	return sb.String()
}

func (w *world) fail(format string, a ...any) {
	w.t.Helper()
	w.failed = true
	w.t.Fatalf("C14 violated: %s\nmodel (after the last operation): %s\noperations:\n  %s\nhistory:\n%s",
		fmt.Sprintf(format, a...), w.dump(), strings.Join(w.ops, "\n  "), w.b.Hist)
}

func (w *world) panics() {
	if err := w.b.CheckPanics(); err != nil {
		w.fail("%v", err)
	}
}

func (w *world) draw(n int, label string) int { return rapid.IntRange(0, n-1).Draw(w.t, label) }

func (w *world) pick(list []string, label string) string { return list[w.draw(len(list), label)] }

func (w *world) session() *bed.Session { return w.sess[w.draw(len(w.sess), "session")] }

// joiner: the character put between drawn segments (in a flat namespace an ordinary character).
func (w *world) joiner() string {
	if w.delim == "" {
		return "/"
	}

	return w.delim
}

func (w *world) seg(label string) string { return w.pick(w.segs, label) }

func (w *world) fresh(label string) string {
	depth := []int{1, 1, 2, 2, 2, 3, 3, 4, 5}[w.draw(9, label+"/depth")]
	if w.delim == "" && depth > 2 {
		depth = 2
	}

	parts := make([]string, depth)
	for i := range parts {
		// repeated levels (a/b/b/b): moving such a subtree maps names onto names of the same subtree
		if i > 0 && w.draw(3, label+"/repeat") == 0 {
			parts[i] = parts[i-1]
			continue
		}

		parts[i] = w.seg(label + "/seg")
	}

	return strings.Join(parts, w.joiner())
}

// pool: every name the model knows in some role: mailboxes, \Noselect parents, deleted-but-subscribed names.
func (w *world) pool() []string {
	set := map[string]bool{}

	for n := range w.m.Boxes {
		set[n] = true

		for _, s := range w.m.Superiors(n) {
			set[s] = true
		}
	}

	for n := range w.m.DeletedSubs {
		set[n] = true
	}

	res := make([]string, 0, len(set))
	for n := range set {
		res = append(res, n)
	}

	sort.Strings(res)

	return res
}

// respell writes the case-insensitive parts of a name in a drawn spelling.
func (w *world) respell(name, label string) string {
	parts := w.m.Split(name)

	switch {
	case parts[0] == ns.Inbox:
		parts[0] = []string{"INBOX", "inbox", "Inbox", "iNbOx"}[w.draw(inboxSpellings, label+"/inbox")]
	case name == ns.Recovery:
		return []string{ns.Recovery, "recovered messages", "RECOVERED MESSAGES"}[w.draw(recoverySpellings, label+"/recovery")]
	}

	return strings.Join(parts, w.delim)
}

// name draws a mailbox name argument: mostly related to what exists.
func (w *world) name(label string) string {
	pool := w.pool()

	switch c := w.draw(10, label+"/how"); {
	case c <= 4:
		return w.respell(w.pick(pool, label+"/known"), label)
	case c <= 6:
		return w.respell(w.pick(pool, label+"/parent"), label) + w.joiner() + w.seg(label+"/seg")
	case c == 7:
		return w.pick(pool, label+"/prefix") + w.seg(label+"/seg") // shares a prefix without being an inferior
	default:
		return w.fresh(label)
	}
}

// existing draws an existing mailbox, preferring those with inferiors.
func (w *world) existing(label string) string {
	var all, ordinary, parents []string

	for _, n := range w.m.Names() {
		all = append(all, n)

		if n == ns.Inbox || n == ns.Recovery {
			continue
		}

		ordinary = append(ordinary, n)

		if len(w.m.Inferiors(n)) > 0 {
			parents = append(parents, n)
		}
	}

	switch c := w.draw(8, label+"/class"); {
	case c <= 3 && len(parents) > 0:
		return w.pick(parents, label+"/parent")
	case c <= 6 && len(ordinary) > 0:
		return w.pick(ordinary, label+"/ordinary")
	}

	return w.pick(all, label+"/any")
}

func (w *world) trailing(name, label string) string {
	if w.delim != "" && w.draw(6, label+"/trailing") == 0 {
		return name + w.delim
	}

	return name
}

// ---- client commands ----

func (w *world) check(kind string, s *bed.Session, r *imapc.Result, out ns.Outcome) {
	w.panics()

	if r.Err != nil || r.Bye {
		w.fail("%s: connection lost: %v", r.Cmd, r)
	}

	w.op("%s: %s -> %s (model: ok=%v %s)", s.Name, r.Cmd, r.Status, out.OK, out.Why)
	w.label(fmt.Sprintf("op:%s:%s", kind, r.Status))

	want := "NO"
	if out.OK {
		want = "OK"
	}

	if r.Status != want {
		w.fail("%s answered %s %q, the reference model says %s (%s)", r.Cmd, r.Status, r.Text, want, out.Why)
	}

	if out.MovedInferiors > 0 {
		w.ntOp = true
		w.label("rename-moved-inferiors")
	}

	if out.LeftNoselect {
		w.ntOp = true
		w.label("delete-left-noselect")
	}

	w.syncRemote()
}

// steerStaleSub: known finding C14-stale-deleted-subscription. Names that are about to come into existence while they
// are still on the deleted-but-subscribed list are unsubscribed first (a legal client command that empties the
// region of the finding).
func (w *world) steerStaleSub(apply func(m *ns.Model)) {
	if len(w.m.DeletedSubs) == 0 || !kf.Listed(kfStaleDeletedSub) {
		return
	}

	trial := clone(w.m)
	apply(trial)

	var hit []string

	for n := range w.m.DeletedSubs {
		if _, ok := trial.Boxes[n]; ok {
			hit = append(hit, n)
		}
	}

	sort.Strings(hit)

	for _, n := range hit {
		s := w.sess[0]
		r := w.do(s, "UNSUBSCRIBE "+q(n))
		out := w.m.Unsubscribe(n)
		w.check("unsubscribe", s, r, out)
		ev.Excluded(1)
		w.label("steer:stale-deleted-sub")
	}
}

func clone(m *ns.Model) *ns.Model {
	c := ns.New(m.Delim)

	for n, b := range m.Boxes {
		bb := *b
		c.Boxes[n] = &bb
	}

	for n := range m.DeletedSubs {
		c.DeletedSubs[n] = true
	}

	return c
}

func (w *world) create() {
	var name string

	switch c := w.draw(10, "create/how"); {
	case c <= 2:
		name = w.fresh("create")
	case c <= 5:
		name = w.respell(w.pick(w.pool(), "create/parent"), "create") + w.joiner() + w.fresh("create")
	default:
		name = w.name("create")
	}

	if w.delim != "" {
		switch w.draw(12, "create/shape") {
		case 0:
			name = w.delim + name
			w.label("create:leading-delim")
		case 1:
			name = name + w.delim + w.delim + w.seg("create/seg")
			w.label("create:doubled-delim")
		case 2, 3:
			name += w.delim
			w.label("create:trailing-delim")
		}
	}

	w.steerStaleSub(func(m *ns.Model) { m.Create(name) })

	s := w.session()
	r := w.do(s, "CREATE "+q(name))
	w.check("create", s, r, w.m.Create(name))
}

func (w *world) delete() {
	var name string

	if w.draw(3, "delete/how") == 0 {
		name = w.name("delete")
	} else {
		n := w.existing("delete")
		name = w.respell(n, "delete")
	}

	name = w.trailing(name, "delete")

	s := w.session()
	r := w.do(s, "DELETE "+q(name))
	w.check("delete", s, r, w.m.Delete(name))
}

func (w *world) rename() {
	var from string

	if w.draw(4, "rename/how") == 0 {
		from = w.trailing(w.name("rename/from"), "rename/from")
	} else {
		n := w.existing("rename/from")
		from = w.respell(n, "rename/from")
	}

	// the target is well-formed (no leading, doubled or trailing delimiter)
	var to string

	pool := w.pool()
	j := w.joiner()

	sup := w.m.Superiors(w.m.Canon(strings.TrimSuffix(from, w.joiner())))

	var free []string // superiors of the source that are not mailboxes (visible as \Noselect only)

	for _, n := range sup {
		if _, ok := w.m.Boxes[n]; !ok {
			free = append(free, n)
		}
	}

	switch c := w.draw(13, "rename/to"); {
	case c >= 11 && len(free) > 0:
		to = w.pick(free, "rename/to/free-superior") // the subtree moves up onto a \Noselect name
	case c >= 10 && len(sup) > 0:
		to = w.pick(sup, "rename/to/superior")
	case c <= 3:
		to = w.fresh("rename/to")
	case c == 4:
		to = w.pick(pool, "rename/to/parent") + j + w.seg("rename/to/seg")
	case c == 5:
		parts := w.m.Split(from)
		to = w.fresh("rename/to") + j + parts[len(parts)-1]
	case c == 6:
		to = w.respell(w.pick(pool, "rename/to/known"), "rename/to")
	case c == 7:
		to = strings.TrimSuffix(from, w.joiner()) + j + w.seg("rename/to/seg") // own inferior
	case c == 8:
		to = w.respell(ns.Recovery, "rename/to") + j + w.seg("rename/to/seg")
	default:
		to = w.seg("rename/to/seg")
	}

	if w.delim != "" {
		to = strings.TrimSuffix(to, w.delim)
	}

	// Targets that merely begin with the recovery name (other spelling, longer word) are left out: CREATE refuses
	// them (a prefix test), for RENAME neither gluon's tests nor the property say anything.
	if ns.UnderRecovery(to) && !w.m.BelowRecovery(to) && !strings.EqualFold(to, ns.Recovery) {
		to = "zz" + to
	}

	if w.m.BelowRecovery(to) && kf.Listed(kfRenameRecovery) {
		ev.Excluded(1)
		w.label("steer:rename-under-recovery")

		to = "z" + to
	}

	// known finding C14-rename-subtree-upwards: the new name of an inferior is the present name of another inferior
	if kf.Listed(kfRenameUpwards) && w.delim != "" {
		o, n := w.m.Canon(from), w.m.Canon(to)
		infs := w.m.Inferiors(o)

		for _, inf := range infs {
			target := n + strings.TrimPrefix(inf, o)
			if _, isBox := w.m.Boxes[target]; isBox && target != inf && strings.HasPrefix(target, o+w.delim) {
				ev.Excluded(1)
				w.label("steer:rename-upwards")

				to = "z" + to

				break
			}
		}
	}

	w.steerStaleSub(func(m *ns.Model) { m.Rename(from, to) })

	s := w.session()
	r := w.do(s, "RENAME "+q(from)+" "+q(to))
	w.check("rename", s, r, w.m.Rename(from, to))
}

func (w *world) subscribe(un bool) {
	var name string

	var cand []string // names whose subscription state the command would change

	for _, n := range w.m.Names() {
		if w.m.Boxes[n].Subscribed == un {
			cand = append(cand, n)
		}
	}

	switch c := w.draw(8, "sub/how"); {
	case c == 0:
		name = w.name("sub")
	case c == 1 && len(w.m.DeletedSubs) > 0:
		name = w.pick(w.m.DeletedSubNames(), "sub/deleted")
	case c <= 5 && len(cand) > 0:
		name = w.respell(w.pick(cand, "sub/cand"), "sub")
	default:
		n := w.existing("sub")
		name = w.respell(n, "sub")
	}

	name = w.trailing(name, "sub")
	s := w.session()

	if un {
		r := w.do(s, "UNSUBSCRIBE "+q(name))
		w.check("unsubscribe", s, r, w.m.Unsubscribe(name))
	} else {
		r := w.do(s, "SUBSCRIBE "+q(name))
		w.check("subscribe", s, r, w.m.Subscribe(name))
	}
}

// ---- connector updates ----

// syncRemote keeps vconn's remote model in step with the reference model: ids of mailboxes that gluon created through
// the connector are learned by name; renamed inferiors (gluon renames them locally only) and leftovers of refused
// commands are corrected.
func (w *world) syncRemote() {
	var orphans []string // names the connector was asked to create that the model does not expect

	w.u.Conn.Lock(func() {
		known := map[string]string{} // id -> name

		for n, b := range w.m.Boxes {
			if b.ID != "" {
				known[b.ID] = n
			}
		}

		ids := make([]string, 0, len(w.u.Conn.Mailboxes))
		for id := range w.u.Conn.Mailboxes {
			ids = append(ids, string(id))
		}

		sort.Strings(ids)

		for _, id := range ids {
			rm := w.u.Conn.Mailboxes[imap.MailboxID(id)]

			if _, ok := known[id]; ok {
				continue
			}

			n := strings.Join(rm.Name, w.delim)
			if b, ok := w.m.Boxes[n]; ok && b.ID == "" {
				b.ID = id
				known[id] = n

				continue
			}

			orphans = append(orphans, n)

			delete(w.u.Conn.Mailboxes, imap.MailboxID(id)) // leftover of a refused or rolled back command
		}

		for id, n := range known {
			if rm, ok := w.u.Conn.Mailboxes[imap.MailboxID(id)]; ok {
				rm.Name = w.m.Split(n)
			}
		}
	})

	for n, b := range w.m.Boxes {
		if b.ID == "" {
			w.fail("after the last operation mailbox %q exists according to the reference model, but the server never asked the connector to create it (it asked for %q)", n, orphans)
		}
	}
}

// connName draws a name for a connector-side creation or rename. The remote never spells INBOX differently and does
// not create inferiors of the recovery mailbox.
func (w *world) connName(label string) string {
	for try := 0; ; try++ {
		var n string

		pool := w.pool()

		switch c := w.draw(8, label+"/how"); {
		case c <= 1:
			n = w.pick(pool, label+"/parent") + w.joiner() + w.seg(label+"/seg")
		case c == 2:
			n = w.pick(pool, label+"/known") // existing name (refused: names are unique), \Noselect parent or deleted name
		default:
			n = w.fresh(label)
		}

		first := w.m.Split(n)[0]
		if (strings.EqualFold(first, ns.Inbox) && (first != ns.Inbox || n == ns.Inbox)) || ns.UnderRecovery(n) {
			if try < 20 {
				continue
			}

			n = "conn" + fmt.Sprint(w.steps)
		}

		return n
	}
}

func (w *world) deliver(kind string, up imap.Update, ok bool) {
	d := w.b.DeliverNow(w.u, up)[0]
	w.panics()

	if !d.Acked {
		w.t.Fatalf("VERIF-INCONCLUSIVE: connector update %s not acknowledged within the watchdog\nhistory:\n%s", d.Update, w.b.Hist)
	}

	w.op("connector: %s -> err=%v (model: ok=%v)", d.Update, d.Err, ok)
	w.label(fmt.Sprintf("op:%s:ok=%v", kind, d.Err == nil))

	if (d.Err == nil) != ok {
		w.fail("connector update %s: error %v, the reference model says ok=%v", d.Update, d.Err, ok)
	}

	w.syncRemote()
}

func (w *world) connCreate() {
	if w.draw(12, "connCreate/recovery") == 0 {
		up := imap.NewMailboxCreated(imap.Mailbox{ID: recoveryID, Name: []string{ns.Recovery}, Flags: w.u.Conn.Flags, PermanentFlags: w.u.Conn.PermFlags, Attributes: w.u.Conn.Attrs})
		w.deliver("connCreate-recovery", up, w.m.ConnCreate(recoveryID, ns.Recovery, recoveryID))

		return
	}

	name := w.connName("connCreate")

	w.steerStaleSub(func(m *ns.Model) { m.ConnCreate("trial", name, recoveryID) })

	rm, up := w.u.Conn.SeedMailbox(w.m.Split(name)...)
	ok := w.m.ConnCreate(string(rm.ID), name, recoveryID)
	w.deliver("connCreate", up, ok)
}

// remoteBoxes: mailboxes the remote may rename or delete (never INBOX, never the recovery mailbox).
func (w *world) remoteBoxes() []string {
	var res []string

	for _, n := range w.m.Names() {
		if n != ns.Inbox && n != ns.Recovery {
			res = append(res, n)
		}
	}

	return res
}

func (w *world) connRename() {
	boxes := w.remoteBoxes()
	if len(boxes) == 0 {
		w.connCreate()
		return
	}

	if w.draw(12, "connRename/special") == 0 {
		id := []string{recoveryID, "mb-unknown"}[w.draw(2, "connRename/which")]
		w.deliver("connRename-special", imap.NewMailboxUpdated(imap.MailboxID(id), []string{"zz"}), w.m.ConnRename(id, "zz", recoveryID))

		return
	}

	from := w.pick(boxes, "connRename/from")
	id := w.m.Boxes[from].ID
	to := w.connName("connRename/to")

	// sometimes the new name differs from the current one in letter case only (mailbox names other than INBOX are
	// case-sensitive: that is a rename like any other)
	if w.draw(5, "connRename/caseOnly") == 0 {
		if alt := flipLetterCase(from, w.draw(4, "connRename/which")); alt != from {
			to = alt
		}
	}

	w.steerStaleSub(func(m *ns.Model) { m.ConnRename(id, to, recoveryID) })

	ok := w.m.ConnRename(id, to, recoveryID)
	w.deliver("connRename", imap.NewMailboxUpdated(imap.MailboxID(id), w.m.Split(to)), ok)
}

func (w *world) connDelete() {
	boxes := w.remoteBoxes()
	if len(boxes) == 0 {
		w.connCreate()
		return
	}

	if w.draw(12, "connDelete/special") == 0 {
		id := []string{recoveryID, "mb-unknown"}[w.draw(2, "connDelete/which")]
		w.deliver("connDelete-special", imap.NewMailboxDeleted(imap.MailboxID(id)), w.m.ConnDelete(id, recoveryID))

		return
	}

	n := w.existing("connDelete")
	if n == ns.Inbox || n == ns.Recovery {
		n = w.pick(boxes, "connDelete/which")
	}

	if infs := w.m.Inferiors(n); len(infs) > 0 {
		w.label("connDelete-left-noselect")
	}

	id := w.m.Boxes[n].ID
	w.deliver("connDelete", imap.NewMailboxDeleted(imap.MailboxID(id)), w.m.ConnDelete(id, recoveryID))
}

// ---- LIST / LSUB ----

// parseList turns the untagged responses of a LIST / LSUB command into name -> has \Noselect.
func parseList(r *imapc.Result, kw, delim string) (map[string]bool, error) {
	res := map[string]bool{}

	for _, u := range r.Untagged {
		if u.Keyword() != kw {
			return nil, fmt.Errorf("unexpected untagged response %q", u.Raw)
		}

		if len(u.Tokens) != 4 || u.Tokens[1].Kind != imapc.List || u.Tokens[3].Kind == imapc.List {
			return nil, fmt.Errorf("malformed response %q", u.Raw)
		}

		// hierarchy delimiter (RFC 3501 7.2.2): the configured one, NIL in a flat namespace
		d := u.Tokens[2]
		if (delim == "" && !d.IsNil()) || (delim != "" && (d.Kind != imapc.Quoted || d.Str != delim)) {
			return nil, fmt.Errorf("response %q reports hierarchy delimiter %s, configured is %q", u.Raw, d, delim)
		}

		name, err := enc.NewDecoder().String(u.Tokens[3].Str)
		if err != nil {
			return nil, fmt.Errorf("name in %q is not valid modified UTF-7: %v", u.Raw, err)
		}

		nosel := false

		for _, a := range u.Tokens[1].Items {
			if strings.EqualFold(a.Str, `\Noselect`) {
				nosel = true
			}
		}

		if _, dup := res[name]; dup {
			return nil, fmt.Errorf("name %q reported twice (names are unique)", name)
		}

		res[name] = nosel
	}

	return res, nil
}

func (w *world) parse(r *imapc.Result, kw string) map[string]bool {
	res, err := parseList(r, kw, w.delim)
	if err != nil {
		w.fail("%s: %v", r.Cmd, err)
	}

	return res
}

func show(m map[string]bool) string {
	names := make([]string, 0, len(m))
	for n := range m {
		names = append(names, n)
	}

	sort.Strings(names)

	var sb strings.Builder

	for _, n := range names {
		fmt.Fprintf(&sb, " %q", n)

		if m[n] {
			sb.WriteString(`(\Noselect)`)
		}
	}

	if sb.Len() == 0 {
		return " (nothing)"
	}

	return sb.String()
}

func same(a, b map[string]bool) bool {
	if len(a) != len(b) {
		return false
	}

	for n, v := range a {
		if bv, ok := b[n]; !ok || bv != v {
			return false
		}
	}

	return true
}

// query issues LIST and LSUB with the reference and pattern and compares both with the model.
func (w *world) query(s *bed.Session, ref, pattern string) {
	for _, verb := range []string{"LIST", "LSUB"} {
		r := w.do(s, verb+" "+q(ref)+" "+q(pattern))
		w.panics()

		if r.Err != nil || r.Bye {
			w.fail("%s: connection lost: %v", r.Cmd, r)
		}

		if !r.OK() {
			w.fail("%s answered %s %q", r.Cmd, r.Status, r.Text)
		}

		got := w.parse(r, verb)

		if pattern == "" {
			root, defined := w.m.Root(ref)
			want := map[string]bool{root: true}

			switch {
			case !defined:
				// flat namespace with a reference: only the shape is asserted
				if len(got) > 1 {
					w.fail("%s: %d responses to an empty mailbox name:%s", r.Cmd, len(got), show(got))
				}
			case verb == "LSUB" && len(got) == 0:
				// RFC 3501 defines the empty mailbox name for LIST only
			case !same(got, want):
				w.fail("%s (empty mailbox name: root of the reference) answered%s, RFC 3501 6.3.8 says%s", r.Cmd, show(got), show(want))
			}

			continue
		}

		var want map[string]bool
		if verb == "LIST" {
			want = w.m.List(ref, pattern)
		} else {
			want = w.m.Lsub(ref, pattern)
		}

		if !same(got, want) {
			w.fail("%s answered%s\n   the reference model (interpreted pattern %q) says%s", r.Cmd, show(got), w.m.CanonPattern(ref, pattern), show(want))
		}
	}
}

func runes(s string) []string {
	var res []string
	for _, r := range s {
		res = append(res, string(r))
	}

	return res
}

// wildLevel rewrites one hierarchy level of a pattern.
func (w *world) wildLevel(level string) string {
	rs := runes(level)
	cut := 0

	if len(rs) > 1 {
		cut = 1 + w.draw(len(rs)-1, "pat/cut")
	}

	prefix, suffix := strings.Join(rs[:cut], ""), strings.Join(rs[cut:], "")

	switch w.draw(14, "pat/level") {
	case 0, 1, 2, 3, 4, 5:
		return level
	case 6:
		return "%"
	case 7:
		return "*"
	case 8:
		return prefix + "%"
	case 9:
		return "%" + suffix
	case 10:
		return prefix + "*"
	case 11:
		return "*" + suffix
	case 12:
		return prefix + []string{"%", "*"}[w.draw(2, "pat/mid")] + suffix
	default:
		return []string{"%%", "**", "%*", "*%"}[w.draw(4, "pat/doubled")]
	}
}

func isWild(c byte) bool { return c == '%' || c == '*' }

// drawQuery draws reference and pattern.
func (w *world) drawQuery() (ref, pattern string) {
	pool := w.pool()

	switch c := w.draw(14, "query/kind"); {
	case c == 0:
		return "", "*"
	case c == 1:
		return "", "%"
	case c == 2:
		// empty mailbox name: root of the reference
		if w.delim == "" && kf.Listed(kfEmptyNameFlat) {
			ev.Excluded(1)
			w.label("steer:empty-name-flat")

			return "", "*"
		}

		switch w.draw(4, "query/ref") {
		case 0:
			ref = ""
		case 1:
			ref = w.pick(pool, "query/refname")
		case 2:
			ref = w.pick(pool, "query/refname") + w.delim
		default:
			ref = w.delim + w.fresh("query/refname")
		}

		if toUTF7(ref) != ref && kf.Listed(kfRefNotDecoded) {
			ev.Excluded(1)
			w.label("steer:ref-not-decoded")

			ref = ""
		}

		return ref, ""
	}

	// a pattern derived from a name
	var base string

	switch c := w.draw(8, "pat/base"); {
	case c <= 3:
		base = w.respell(w.pick(pool, "pat/known"), "pat")
	case c <= 5:
		base = w.respell(w.pick(pool, "pat/parent"), "pat") + w.joiner() + w.seg("pat/seg")
	default:
		base = w.fresh("pat")
	}

	levels := w.m.Split(base)
	for i := range levels {
		levels[i] = w.wildLevel(levels[i])
	}

	switch w.draw(8, "pat/struct") {
	case 0:
		if len(levels) > 1 {
			levels = levels[:len(levels)-1]
		}
	case 1:
		levels = append(levels, "%")
	case 2:
		levels = append(levels, "*")
	case 3:
		levels = append(levels, w.seg("pat/seg"))
	}

	if w.delim != "" {
		switch w.draw(20, "pat/edge") {
		case 0, 1:
			levels = append(levels, "") // trailing delimiter
		case 2:
			levels = append([]string{""}, levels...) // leading delimiter
		}
	}

	// known finding C14-list-inbox-fold-per-level (a): "inbox" below the first level is folded to INBOX by LIST
	if w.delim != "" && kf.Listed(kfInboxPerLevel) {
		for i := 1; i < len(levels); i++ {
			if strings.EqualFold(levels[i], ns.Inbox) && levels[i] != ns.Inbox {
				levels[i] = ns.Inbox

				ev.Excluded(1)
				w.label("steer:inbox-level")
			}
		}
	}

	full := strings.Join(levels, w.delim)

	// known finding C14-list-inbox-fold-per-level (b): with the empty delimiter LIST never folds "inbox"
	if w.delim == "" && strings.EqualFold(full, ns.Inbox) && full != ns.Inbox && kf.Listed(kfInboxPerLevel) {
		full = ns.Inbox

		ev.Excluded(1)
		w.label("steer:inbox-flat")
	}

	// split into reference (no wildcards) and mailbox name (not empty)
	limit := len(full) - 1

	for i := 0; i < len(full); i++ {
		if isWild(full[i]) {
			limit = i
			break
		}
	}

	var after, before, mid []int // split positions: after a delimiter, before a delimiter, anywhere

	for i := 1; i <= limit; i++ {
		if !utf8.RuneStart(full[i]) {
			continue
		}

		mid = append(mid, i)

		if w.delim != "" {
			if full[i-1] == w.delim[0] {
				after = append(after, i)
			}

			if full[i] == w.delim[0] {
				before = append(before, i)
			}
		}
	}

	cut := 0

	switch c := w.draw(10, "query/split"); {
	case c <= 2:
	case c <= 6 && len(after) > 0:
		cut = after[w.draw(len(after), "query/after")]
		w.label("ref:name+delim")
	case c == 7 && len(before) > 0:
		cut = before[w.draw(len(before), "query/before")]
		w.label("ref:name")
	case c == 8 && len(mid) > 0:
		cut = mid[w.draw(len(mid), "query/mid")]
		w.label("ref:mid-level")
	}

	ref, pattern = full[:cut], full[cut:]

	if ref != "" && toUTF7(ref) != ref && kf.Listed(kfRefNotDecoded) {
		ev.Excluded(1)
		w.label("steer:ref-not-decoded")

		ref, pattern = "", full
	}

	// known finding C14-list-inbox-fold-per-level (c): the mailbox name argument alone is folded before it is appended
	// to a reference that does not end with the delimiter
	if ref != "" && w.delim != "" && !strings.HasSuffix(ref, w.delim) && kf.Listed(kfInboxPerLevel) {
		if i := strings.Index(pattern, w.delim); i >= 0 && strings.EqualFold(pattern[:i], ns.Inbox) && pattern[:i] != ns.Inbox {
			ev.Excluded(1)
			w.label("steer:inbox-level")

			ref, pattern = "", full
		}
	}

	return ref, pattern
}

func (w *world) classify(ref, pattern string) {
	full := ref + pattern

	switch {
	case pattern == "":
		w.label("pat:empty")
	case !strings.ContainsAny(pattern, "%*"):
		w.label("pat:no-wildcard")
	case pattern == "*" || pattern == "%":
		w.label("pat:single-wildcard")
	}

	if ref == "" {
		w.label("ref:empty")
	}

	if strings.HasSuffix(pattern, "%") {
		w.label("pat:trailing-%")
	}

	for _, d := range []string{"%%", "**", "%*", "*%"} {
		if strings.Contains(pattern, d) {
			w.label("pat:doubled-wildcard")
			break
		}
	}

	if toUTF7(full) != full {
		w.label("pat:utf7")
	}

	if w.delim == "" {
		return
	}

	for i := 0; i < len(full); i++ {
		if isWild(full[i]) && ((i > 0 && full[i-1] == w.delim[0]) || (i+1 < len(full) && full[i+1] == w.delim[0])) {
			w.label("pat:wildcard-next-to-delim")
			w.ntPat = true

			break
		}
	}
}

func (w *world) step(f func()) func(*rapid.T) {
	return func(t *rapid.T) {
		if w.steps >= maxSteps {
			w.idle = true // step limit reached: the rest of the drawn steps are no-ops
			return
		}

		w.steps++
		f()
	}
}

// socketTrouble recognises resource exhaustion of the machine (many checks run side by side: loopback ports in
// TIME_WAIT, descriptors); it says nothing about the server under test.
func socketTrouble(err error) bool {
	if err == nil {
		return false
	}

	for _, m := range []string{"address already in use", "cannot assign requested address", "too many open files", "connection refused", "i/o timeout"} {
		if strings.Contains(err.Error(), m) {
			return true
		}
	}

	return false
}

// startBed starts a server; when the machine is out of loopback ports it waits and tries again.
func startBed(opt bed.Options) (b *bed.Bed, err error) {
	for try := 0; try < 100; try++ {
		if b, err = bed.Start(opt, bed.UserSpec{Name: "user", Pass: "pass"}); !socketTrouble(err) {
			return b, err
		}

		time.Sleep(200 * time.Millisecond)
	}

	return nil, err
}

func login(b *bed.Bed, name string) (s *bed.Session, err error) {
	for try := 0; try < 100; try++ {
		if s, err = b.Login(name, b.Users[0]); !socketTrouble(err) {
			return s, err
		}

		time.Sleep(200 * time.Millisecond)
	}

	return nil, err
}

func run(t *rapid.T) {
	di := rapid.IntRange(0, len(delims)-1).Draw(t, "delimiter")
	delim := delims[di]
	nSess := rapid.IntRange(1, 2).Draw(t, "sessions")

	opt := bed.Options{Delimiter: delim}
	if delim == "" {
		opt.Delimiter = bed.FlatDelimiter
	}

	b, err := startBed(opt)
	if err != nil {
		t.Fatalf("VERIF-INCONCLUSIVE: harness: cannot start the server: %v", err)
	}

	defer b.Destroy()

	w := &world{t: t, b: b, u: b.Users[0], m: ns.New(delim), delim: delim, segs: segments(delim), labels: map[string]int{}}
	w.m.Boxes[ns.Inbox] = &ns.Box{ID: string(w.u.Inbox.ID), Subscribed: true}
	w.m.Boxes[ns.Recovery] = &ns.Box{ID: recoveryID, Subscribed: true, Hidden: true}
	w.op("delimiter %q, %d session(s)", delim, nSess)

	for i := 0; i < nSess; i++ {
		s, err := login(b, fmt.Sprintf("s%d", i))
		if err != nil {
			t.Fatalf("VERIF-INCONCLUSIVE: harness: cannot log in: %v\nhistory:\n%s", err, b.Hist)
		}

		defer func() {
			if w.failed {
				s.Client.Close()
			} else {
				s.Logout()
			}
		}()

		w.sess = append(w.sess, s)
	}

	actions := map[string]func(*rapid.T){
		"create":      w.step(w.create),
		"create2":     w.step(w.create),
		"create3":     w.step(w.create),
		"delete":      w.step(w.delete),
		"delete2":     w.step(w.delete),
		"rename":      w.step(w.rename),
		"rename2":     w.step(w.rename),
		"rename3":     w.step(w.rename),
		"subscribe":   w.step(func() { w.subscribe(false) }),
		"unsubscribe": w.step(func() { w.subscribe(true) }),
		"connCreate":  w.step(w.connCreate),
		"connRename":  w.step(w.connRename),
		"connDelete":  w.step(w.connDelete),
		"": func(t *rapid.T) {
			if w.idle {
				return
			}

			ref, pattern := w.drawQuery()

			// known finding C14-percent-delimiter-class
			if (w.delim == `\` || w.delim == "") && strings.Contains(pattern, "%") && kf.Listed(kfPercentClass) {
				pattern = strings.ReplaceAll(pattern, "%", "*")

				ev.Excluded(1)
				w.label("steer:percent-class")
			}

			w.classify(ref, pattern)
			w.op("query %q %q", ref, pattern)
			w.query(w.session(), ref, pattern)
		},
	}

	// a drawn number of initial CREATEs (they count as steps) so that short cases also start from a hierarchy
	for i, n := 0, rapid.IntRange(0, 3).Draw(t, "prefill"); i < n; i++ {
		w.steps++
		w.create()
	}

	t.Repeat(actions)

	// final: the whole namespace and the whole subscription list
	w.query(w.sess[0], "", "*")

	labels := []string{fmt.Sprintf("delimiter:%q", delim), fmt.Sprintf("sessions:%d", nSess)}
	for l := range w.labels {
		labels = append(labels, l)
	}

	ev.Case(w.ntOp && w.ntPat, ev.Hash(strings.Join(w.ops, ";")), labels...)

	for l, n := range w.labels {
		ev.Class("n:"+l, n)
	}

	if ev.WantSample() {
		ev.Sample(w.ops)
	}
}

// setSteps sets the average number of machine steps per case (the hard limit is maxSteps).
func setSteps(n int) {
	if f := flag.Lookup("rapid.steps"); f != nil {
		_ = f.Value.Set(fmt.Sprint(n))
	}
}

func TestC14Namespace(t *testing.T) {
	ev.Checks(700, 3000)
	setSteps(14)
	rapid.Check(t, run)
}

// flipLetterCase changes the case of the k-th ASCII letter of the last name component (k counted modulo their number).
func flipLetterCase(name string, k int) string {
	start := strings.LastIndexAny(name, "/.") + 1

	var letters []int

	for i := start; i < len(name); i++ {
		if c := name[i]; c >= 'a' && c <= 'z' || c >= 'A' && c <= 'Z' {
			letters = append(letters, i)
		}
	}

	if len(letters) == 0 {
		return name
	}

	b := []byte(name)
	b[letters[k%len(letters)]] ^= 0x20

	return string(b)
}
