package c14

import (
	"testing"

	"verif/internal/ev"
)

func TestMain(m *testing.M) {
	ev.Main(m, "C14", "exploration",
		"rapid state machine per drawn hierarchy delimiter (/ . | \\ ^ ] and the empty delimiter): 1-2 sessions of one user issue CREATE/DELETE/RENAME/SUBSCRIBE/UNSUBSCRIBE over names of depth 1-5 built from drawn segments (inbox in several cases, spaces, regex metacharacters, modified UTF-7, the recovery name; trailing delimiter, for CREATE also leading/doubled delimiter) and the connector delivers MailboxCreated/Updated/Deleted; the tagged result of every command and, after every step, the result sets (name, has \\Noselect) of LIST and LSUB with a drawn reference and pattern are compared with the reference model M-ns (recursive RFC 3501 6.3.8 matcher). Non-trivial: the history contains a RENAME that moved >= 1 inferior or a DELETE that left a \\Noselect parent, and >= 1 queried pattern has a wildcard adjacent to a hierarchy delimiter; distinct by hash of delimiter, operations and queries.",
		"reference + mailbox name are interpreted by plain concatenation and INBOX folding of the first hierarchy level, as gluon's tests document (TestListRef, TestListInbox)",
		"the root name answered for an empty pattern in a flat namespace and the answer of LSUB to an empty pattern are not asserted (RFC 3501 does not define them)",
		"sessions stay in authenticated state (no mailbox selected); hidden / hidden-if-empty visibility only through the always empty recovery mailbox")
}
