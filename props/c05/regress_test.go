package c05

import (
	"testing"
	"time"

	"github.com/ProtonMail/gluon/imap"

	"verif/internal/bed"
	"verif/internal/ev"
	"verif/internal/imapc"
	"verif/internal/kf"
	"verif/internal/mach"
)

// fixed: the tagged OK of IDLE could overtake untagged responses pushed during IDLE (they are written by a separate
// goroutine), so an EXPUNGE reached the client after "OK IDLE", i.e. in the middle of its next FETCH/STORE/SEARCH.
// Schedule dependent: repeated rounds, each with a removal pushed right before DONE.
func TestRegress_IdleDoneOvertakesPushedExpunge(t *testing.T) {
	rounds := ev.Pick(150, 1500)

	for _, bulk := range []time.Duration{0, 5 * time.Millisecond} {
		b, err := bed.Start(bed.Options{IdleBulk: bulk}, bed.UserSpec{Name: "user", Pass: "pass"})
		if err != nil {
			t.Fatal(err)
		}

		u := b.Users[0]

		s, err := b.Login("idler", u)
		if err != nil {
			t.Fatal(err)
		}

		s.Select("INBOX", false)

		for i := 0; i < rounds; i++ {
			m, mc, err := u.Conn.NewRemoteMessage(mach.Msg("x", ""), imap.NewFlagSet(), time.Unix(1600000000, 0), u.Inbox.ID)
			if err != nil {
				t.Fatal(err)
			}

			b.DeliverNow(u, imap.NewMessagesCreated(false, mc))

			if err := b.Barrier(u); err != nil {
				t.Fatal(err)
			}

			s.Do("NOOP")

			res, ok := s.Client.IdleStart()
			if !ok {
				t.Fatalf("IDLE refused: %v", res)
			}

			b.DeliverNow(u, imap.NewMessagesDeleted(m.ID))

			if err := b.Barrier(u); err != nil {
				t.Fatal(err)
			}

			s.Client.IdleDone(res)

			// nothing may follow the tagged OK
			r, err := s.Client.TryReadResponse(2*bulk + 3*time.Millisecond)
			if err != nil {
				t.Fatal(err)
			}

			if r != nil {
				t.Fatalf("C05 violated (round %d, idle bulk %v): untagged response %q arrived after the tagged OK of IDLE\n%s", i, bulk, r.Raw, tail(b.Hist, 12))
			}

			sawExpunge := false

			for _, un := range res.Untagged {
				if _, kw, ok := un.Num(); ok && kw == "EXPUNGE" {
					sawExpunge = true
				}
			}

			if !sawExpunge {
				t.Fatalf("C05 violated (round %d): removal pushed during IDLE was not announced before OK IDLE\n%s", i, tail(b.Hist, 12))
			}
		}

		s.Logout()
		b.Destroy()
	}
}

func tail(h *imapc.History, n int) string {
	l := h.Lines()
	if len(l) > n {
		l = l[len(l)-n:]
	}

	out := ""
	for _, x := range l {
		out += x + "\n"
	}

	return out
}

// known C02-own-removal-overtakes-queued-addition.
func TestKnown_C02_own_removal_overtakes_queued_addition(t *testing.T) {
	b, err := bed.Start(bed.Options{}, bed.UserSpec{Name: "user", Pass: "pass"})
	if err != nil {
		t.Fatal(err)
	}

	defer b.Destroy()

	u := b.Users[0]

	s, err := b.Login("s", u)
	if err != nil {
		t.Fatal(err)
	}

	defer s.Logout()

	if r := s.Do("CREATE A"); !r.OK() {
		t.Fatal(r)
	}

	m, mc, _ := u.Conn.NewRemoteMessage(mach.Msg("g", ""), imap.NewFlagSet(), time.Unix(1600000000, 0), u.Inbox.ID)
	b.DeliverNow(u, imap.NewMessagesCreated(false, mc))

	s.Select("INBOX", false)
	s.GateClose()

	b.DeliverNow(u, imap.NewMessageMailboxesUpdated(m.ID, nil, imap.NewFlagSet()))
	b.DeliverNow(u, imap.NewMessageMailboxesUpdated(m.ID, []imap.MailboxID{u.Inbox.ID}, imap.NewFlagSet()))

	if r := s.Do("MOVE 1 A"); !r.OK() {
		t.Fatal(r)
	}

	s.Release(-1)

	if err := b.Barrier(u); err != nil {
		t.Fatal(err)
	}

	s.Do("NOOP")

	var view []bed.PMsg

	if _, err := s.Probe(func(m []bed.PMsg) error { view = m; return nil }); err != nil {
		t.Fatal(err)
	}

	fresh, _, _, _, err := b.FreshView(u, "INBOX", false)
	if err != nil {
		t.Fatal(err)
	}

	if len(view) == len(fresh) {
		return // no longer reproduces
	}

	if !kf.Report(mach.KfOwnRemovalOvertakes) {
		t.Fatalf("C05/C02 violated (own removal overtakes queued addition, not listed as known): session sees %v, a new session sees %v\n%s", view, fresh, b.Hist)
	}
}
