package c05

import (
	"testing"

	"verif/internal/ev"
)

func TestMain(m *testing.M) {
	ev.Main(m, "C05", "exploration",
		"rapid state machine (rule set of C01/C02) weighted towards other parties removing and re-adding messages of a session's mailbox and towards the session's next command being FETCH/STORE/SEARCH/COPY (must hold removals back) or NOOP/CHECK/EXPUNGE/MOVE/STATUS/APPEND/IDLE/CLOSE (must announce). Wire monitor: (1) no EXPUNGE between a FETCH/STORE/SEARCH (or UID form) and its tagged result; (2) if such a command's OK carries no [EXPUNGEISSUED], an immediately following NOOP (no update can reach the session in between: gate closed) announces no EXPUNGE; (3) at quiescence + NOOP the session's view equals the authoritative mailbox (no removed message left, removed-and-re-added message present once under its new UID); (4) no view ever holds the same message (marker) twice. Non-trivial: a case in which at least one removal was held back across a FETCH/STORE/SEARCH (its OK carried [EXPUNGEISSUED]); distinct by hash of the operation sequence.",
		"clause (2) is checked in deterministic mode only (needs the closed gate)")
}
