package c05

import (
	"strings"
	"testing"
	"time"

	"github.com/ProtonMail/gluon"
	"pgregory.net/rapid"

	"verif/internal/bed"
	"verif/internal/ev"
	"verif/internal/imapc"
	"verif/internal/kf"
	"verif/internal/mach"
)

func lateLowerUID(s *mach.Sess) bool { return gluon.VerifOutOfOrderInserts(s.StateID) > 0 }

func hasExpunge(r *imapc.Result) bool {
	for _, u := range r.Untagged {
		if _, kw, ok := u.Num(); ok && kw == "EXPUNGE" {
			return true
		}
	}

	return false
}

func expungeIssued(r *imapc.Result) bool {
	return strings.Contains(strings.ToUpper(r.Code), "EXPUNGEISSUED")
}

// markers fetches the marker header of every message of the session's view (answered from the view itself).
func markers(s *mach.Sess) (map[uint32]string, *imapc.Result) {
	r := s.Do("UID FETCH 1:* (BODY.PEEK[HEADER.FIELDS (X-Verif-Marker)])")
	res := map[uint32]string{}

	if !r.OK() {
		return res, r
	}

	for _, u := range r.Untagged {
		if n, kw, ok := u.Num(); ok && kw == "FETCH" {
			if items, ok := imapc.FetchItems(u); ok {
				for k, v := range items {
					if strings.HasPrefix(k, "BODY[HEADER.FIELDS") {
						res[n] = mach.MarkerOf(v.Str)
					}
				}
			}
		}
	}

	return res, r
}

func run(t *rapid.T, deterministic bool) {
	nBoxes := rapid.IntRange(1, 2).Draw(t, "nBoxes")
	cfg := mach.Config{
		NSess:         rapid.IntRange(2, 3).Draw(t, "nSess"),
		Boxes:         []string{"INBOX", "A"}[:nBoxes],
		Deterministic: deterministic,
		Prefill:       4,
		Opts:          bed.Options{DisableParallelism: rapid.Bool().Draw(t, "noParallel")},
	}

	if rapid.Bool().Draw(t, "idleBulk") {
		cfg.Opts.IdleBulk = 10 * time.Millisecond
	}

	w := mach.NewWorld(t, cfg)
	defer w.Close()

	rec := &mach.Rec{}
	rec.Op("cfg sess=%d boxes=%d det=%v", cfg.NSess, nBoxes, deterministic)

	w.SelectAll(t, rec, 0)

	fail := func(s *mach.Sess, format string, a ...any) {
		if lateLowerUID(s) && kf.Report(mach.KfLateLowerUID) {
			rec.Stop = true
			return
		}

		t.Fatalf("C05 violated in session "+s.Name+": "+format+"\nhistory:\n%s", append(a, w.Bed.Hist)...)
	}

	onCmd := func(t *rapid.T, s *mach.Sess, kind string, r *imapc.Result) {
		switch kind {
		case "fetch", "store", "search":
			// (1) never an EXPUNGE while answering these
			if hasExpunge(r) {
				fail(s, "EXPUNGE response sent during %q", r.Cmd)
				return
			}

			if !r.OK() {
				return
			}

			w.Label("monitored:" + kind)

			if expungeIssued(r) {
				rec.Nontrivial = true
				w.Label("held-back")
			}

			// (2) a command that held removals back says so
			if deterministic && s.Selected != "" && !s.Dead && rapid.Bool().Draw(t, "followUp") {
				n := s.Do("NOOP")
				if hasExpunge(n) && !expungeIssued(r) {
					fail(s, "%q was answered OK without [EXPUNGEISSUED] although removals were pending: the following NOOP announced EXPUNGE", r.Cmd)
					return
				}

				w.Label("followup-noop")
			}

		case "copy":
			if hasExpunge(r) {
				fail(s, "EXPUNGE response sent during %q", r.Cmd)
			}

		case "move", "noop", "check", "expunge":
			// (3) every removal is announced by the next command that permits it: with the gate closed nothing new
			// reaches the session between two of its commands, so a NOOP right behind such a command (answered OK) has
			// no removal left to announce. (A MOVE / EXPUNGE announces its own removals itself.)
			if deterministic && s.Selected != "" && !s.Dead && r.OK() && rapid.IntRange(0, 2).Draw(t, "followUp") == 0 {
				n := s.Do("NOOP")
				if n.OK() && hasExpunge(n) {
					fail(s, "%q permits EXPUNGE responses, yet it left removals unannounced: the NOOP right behind it (nothing was released to the session in between) sent EXPUNGE", r.Cmd)
					return
				}

				w.Label("followup-noop-after-" + kind)
			}
		}
	}

	quiesce := func(t *rapid.T) {
		if rec.Stop {
			return
		}

		w.EndIdles()
		w.ReleaseAll()

		for _, s := range w.FreeSelected(false) {
			w.Noop(s)

			// (3) every removal has been announced by now, re-added messages are there once, under their new UID
			diff, err := w.QuiescentUIDDiff(s)
			if err != nil {
				t.Fatalf("harness: %v\nhistory:\n%s", err, w.Bed.Hist)
			}

			if diff != "" {
				fail(s, "after quiescence and NOOP: %s", diff)
				return
			}

			if len(s.Mirror.Problems) > 0 {
				fail(s, "response stream: %v", s.Mirror.Problems)
				return
			}

			// (4) no message twice
			mk, r := markers(s)
			if hasExpunge(r) {
				fail(s, "EXPUNGE response sent during %q", r.Cmd)
				return
			}

			seen := map[string]uint32{}

			for seq, m := range mk {
				if m == "" {
					continue
				}

				if other, dup := seen[m]; dup {
					fail(s, "message %s is in the view twice (seq %d and %d)", m, other, seq)
					return
				}

				seen[m] = seq
			}

			w.Label("quiescent-check")
		}
	}

	t.Repeat(w.Actions(rec, mach.Hooks{
		OnCmd: onCmd,
		Weights: map[string]int{
			"store": 2, "fetch": 2, "search": 2, "expunge": 2, "move": 2, "copy": 1, "connBoxes": 2, "connDelete": 1, "release": 3,
		},
		Extra: map[string]func(*rapid.T){
			"quiesce": func(t *rapid.T) { quiesce(t); rec.Op("quiesce") },
		},
		Invariant: func(t *rapid.T) {
			if err := w.Bed.CheckPanics(); err != nil {
				t.Fatalf("C05: %v\nhistory:\n%s", err, w.Bed.Hist)
			}
		},
	}))

	quiesce(t)

	if rec.Stop {
		ev.Case(false, 0, "known-finding-hit")
		return
	}

	labels := []string{}
	for l := range w.Labels {
		labels = append(labels, l)
	}

	ev.Case(rec.Nontrivial, ev.Hash(strings.Join(rec.Ops, ";")), labels...)

	if ev.WantSample() {
		ev.Sample(rec.Ops)
	}
}

func TestC05Deterministic(t *testing.T) {
	ev.Checks(250, 1500)
	rapid.Check(t, func(t *rapid.T) { run(t, true) })
}

func TestC05Racy(t *testing.T) {
	ev.Checks(50, 400)
	rapid.Check(t, func(t *rapid.T) { run(t, false) })
}
