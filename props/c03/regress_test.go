package c03

import (
	"strings"
	"testing"

	"verif/internal/bed"
	"verif/internal/imapc"
	"verif/internal/mach"
)

// fixed: APPEND with (\Deleted) stored \Deleted among the flags shared by all copies of the message instead of the
// per-mailbox flag: it showed up in every mailbox the message was copied to and STORE -FLAGS (\Deleted) could not
// clear it for a newly opened session.
func TestRegress_AppendDeletedIsPerMailbox(t *testing.T) {
	b, err := bed.Start(bed.Options{}, bed.UserSpec{Name: "user", Pass: "pass"})
	if err != nil {
		t.Fatal(err)
	}

	defer b.Destroy()

	u := b.Users[0]

	s, err := b.Login("s", u)
	if err != nil {
		t.Fatal(err)
	}

	defer s.Logout()

	for _, cmd := range []string{"CREATE A"} {
		if r := s.Do(cmd); !r.OK() {
			t.Fatal(r)
		}
	}

	if r := s.DoParts(imapc.T(`APPEND INBOX (\Deleted \Seen) `), imapc.L(mach.Msg("d", ""))); !r.OK() {
		t.Fatal(r)
	}

	s.Select("INBOX", false)

	for _, cmd := range []string{"COPY 1 A", `STORE 1 -FLAGS (\Deleted)`} {
		if r := s.Do(cmd); !r.OK() {
			t.Fatal(r)
		}
	}

	for box, want := range map[string]string{"INBOX": `\seen`, "A": `\seen`} {
		fresh, _, _, _, err := b.FreshView(u, box, false)
		if err != nil || len(fresh) != 1 {
			t.Fatalf("%s: %v %v", box, fresh, err)
		}

		if got := strings.Join(fresh[0].Flags, " "); got != want {
			t.Fatalf("C03 violated: %s holds the message with flags [%s], want [%s] (\\Deleted is per mailbox)\n%s", box, got, want, b.Hist)
		}
	}
}
