package c03

import (
	"fmt"
	"sort"
	"strings"
)

// M-box: the reference model of DESIGN.md §2. Flags are shared per message, \Deleted is per (mailbox, message).

type mMsg struct {
	marker string
	bytes  []byte
	flags  map[string]bool // lower-cased, without \deleted and \recent
}

type mEntry struct {
	marker  string
	deleted bool
}

type mBox struct {
	entries []mEntry
}

type model struct {
	msgs  map[string]*mMsg
	boxes map[string]*mBox
}

func newModel(boxes []string) *model {
	m := &model{msgs: map[string]*mMsg{}, boxes: map[string]*mBox{}}
	for _, b := range boxes {
		m.boxes[b] = &mBox{}
	}

	return m
}

func lowerSet(flags []string) map[string]bool {
	s := map[string]bool{}
	for _, f := range flags {
		s[strings.ToLower(f)] = true
	}

	return s
}

func (m *model) appendMsg(box, marker string, b []byte, flags []string) {
	fs := lowerSet(flags)
	del := fs[`\deleted`]
	delete(fs, `\deleted`)
	delete(fs, `\recent`)

	m.msgs[marker] = &mMsg{marker: marker, bytes: b, flags: fs}
	m.boxes[box].entries = append(m.boxes[box].entries, mEntry{marker: marker, deleted: del})
}

func (b *mBox) index(marker string) int {
	for i, e := range b.entries {
		if e.marker == marker {
			return i
		}
	}

	return -1
}

func (b *mBox) remove(marker string) {
	if i := b.index(marker); i >= 0 {
		b.entries = append(b.entries[:i:i], b.entries[i+1:]...)
	}
}

// add (re)adds the markers to the mailbox in the given order: a message that is already there is removed first and
// gets a new place at the end (tests/copy_test.go TestCopySameMBox, tests/move_test.go TestMoveDuplicate).
func (m *model) add(box string, markers []string) {
	b := m.boxes[box]

	for _, mk := range markers {
		b.remove(mk)
	}

	for _, mk := range markers {
		b.entries = append(b.entries, mEntry{marker: mk})
	}
}

func (m *model) copyTo(src string, pos []int, dst string) {
	var mk []string
	for _, p := range pos {
		mk = append(mk, m.boxes[src].entries[p].marker)
	}

	m.add(dst, mk)
}

func (m *model) moveTo(src string, pos []int, dst string) {
	var mk []string
	for _, p := range pos {
		mk = append(mk, m.boxes[src].entries[p].marker)
	}

	if src != dst {
		for _, k := range mk {
			m.boxes[src].remove(k)
		}
	}

	m.add(dst, mk)
}

func (m *model) store(box string, pos []int, op string, flags []string) {
	fs := lowerSet(flags)
	b := m.boxes[box]

	for _, p := range pos {
		e := &b.entries[p]
		msg := m.msgs[e.marker]

		switch op {
		case "+":
			for f := range fs {
				if f == `\deleted` {
					e.deleted = true
				} else {
					msg.flags[f] = true
				}
			}
		case "-":
			for f := range fs {
				if f == `\deleted` {
					e.deleted = false
				} else {
					delete(msg.flags, f)
				}
			}
		default:
			msg.flags = map[string]bool{}

			for f := range fs {
				if f != `\deleted` {
					msg.flags[f] = true
				}
			}

			e.deleted = fs[`\deleted`]
		}
	}
}

// expunge removes the entries marked \Deleted (restricted to the given positions if pos != nil).
func (m *model) expunge(box string, pos []int) {
	b := m.boxes[box]
	in := map[int]bool{}

	for _, p := range pos {
		in[p] = true
	}

	var keep []mEntry

	for i, e := range b.entries {
		if e.deleted && (pos == nil || in[i]) {
			continue
		}

		keep = append(keep, e)
	}

	b.entries = keep
}

func (m *model) flagsOf(box string, i int) []string {
	e := m.boxes[box].entries[i]
	res := []string{}

	for f := range m.msgs[e.marker].flags {
		res = append(res, f)
	}

	if e.deleted {
		res = append(res, `\deleted`)
	}

	sort.Strings(res)

	return res
}

func (m *model) describe(box string) string {
	var sb strings.Builder
	for i, e := range m.boxes[box].entries {
		fmt.Fprintf(&sb, "%s%v ", e.marker, m.flagsOf(box, i))
	}

	return sb.String()
}
