package c03

import (
	"testing"

	"verif/internal/ev"
)

func TestMain(m *testing.M) {
	ev.Main(m, "C03", "exploration",
		"model-based rapid state machine: 1-3 sessions on 2-4 mailboxes issue APPEND, STORE (+/-/= with flag names in mixed case, keywords over the atom alphabet, case-duplicates), EXPUNGE, UID EXPUNGE, CLOSE, COPY, MOVE (incl. destination = source, destination already holding the message, missing destination, invalid sequence numbers, read-only sessions, MOVE by a session whose view is behind because another session removed messages it still shows); after every command a fresh view of every mailbox (markers, flags, bytes) is compared with the reference model M-box; a second family creates N messages in one connector update for N on both sides of the statement batching limits (1,2,499,500,501,999,1000,1001,1500,2001) and applies one STORE/COPY/MOVE/EXPUNGE to 1:* or a sub-range. Non-trivial: a case containing a COPY/MOVE whose destination already held >= 1 of the messages, or a set operation over > 500 messages, or a refused command, or a MOVE addressing a message that its mailbox no longer holds; distinct by hash of the operation sequence.",
		"except for the MOVE-from-a-stale-view action, a session is brought up to date (barrier + NOOP) before each of its commands, so message sets are resolved against a current view; stale views are otherwise the subject of C01/C02/C05/C16",
		"connector policy silent (a connector cannot represent keywords); \\Recent is ignored; message identity through the X-Verif-Marker header")
}
