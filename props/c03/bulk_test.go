package c03

import (
	"fmt"
	"testing"

	"pgregory.net/rapid"

	"verif/internal/bed"
	"verif/internal/ev"
	"verif/internal/mach"
)

// Batch sizes on both sides of db.ChunkLimit (1000) and ChunkLimit/2 (500, used by two-parameter statements).
var bulkSizes = []int{1, 2, 499, 500, 501, 999, 1000, 1001, 1500, 2001}

var bulkOps = []string{"EXPUNGE", "STORE=", "STORE+", "STORE-", "COPY", "MOVE", "UIDEXPUNGE", "COPYSAME", "MOVEDUP"}

// bulk creates n messages through ONE connector update, then applies ONE set command to positions lo..hi (1-based).
func bulk(t *rapid.T, n int, op string, lo, hi int) {
	boxes := []string{"INBOX", "A"}
	w := mach.NewWorld(t, mach.Config{NSess: 1, Boxes: boxes, Opts: bed.Options{}})

	defer w.Close()

	e := &env{t: t, w: w, m: newModel(boxes), rec: &mach.Rec{}, boxes: boxes}
	pattern := [][]string{{}, {`\Seen`}, {`\Flagged`, `\Seen`}, {`\Answered`}}

	e.connCreate("INBOX", n, func(i int) []string { return pattern[i%len(pattern)] })

	s := w.S[0]
	w.Barrier()

	if r := s.Select("INBOX", false); !r.OK() {
		t.Fatalf("select: %v", r)
	}

	if len(s.Mirror.Msgs) != n {
		e.fail("SELECT after a connector batch of %d messages reports %d EXISTS", n, len(s.Mirror.Msgs))
	}

	set := fmt.Sprintf("%d:%d", lo, hi)
	if lo == 1 && hi == n {
		set = "1:*"
	}

	var pos []int
	for p := lo; p <= hi; p++ {
		pos = append(pos, p-1)
	}

	do := func(cmd string) {
		if r := s.Do(cmd); !r.OK() {
			e.fail("%q over %d messages refused: %v", cmd, len(pos), r)
		}
	}

	switch op {
	case "EXPUNGE", "UIDEXPUNGE":
		do("STORE " + set + ` +FLAGS.SILENT (\Deleted)`)
		e.m.store("INBOX", pos, "+", []string{`\Deleted`})
		e.compareAll("STORE +FLAGS.SILENT \\Deleted on " + set)

		if op == "EXPUNGE" {
			do("EXPUNGE")
		} else {
			do("UID EXPUNGE 1:*")
		}

		e.m.expunge("INBOX", nil)
	case "STORE=":
		do("STORE " + set + ` FLAGS.SILENT (\Flagged bulk,kw)`)
		e.m.store("INBOX", pos, "", []string{`\Flagged`, `bulk,kw`})
	case "STORE+":
		do("STORE " + set + ` +FLAGS.SILENT (\Draft kw2)`)
		e.m.store("INBOX", pos, "+", []string{`\Draft`, `kw2`})
	case "STORE-":
		do("STORE " + set + ` -FLAGS.SILENT (\seen)`)
		e.m.store("INBOX", pos, "-", []string{`\Seen`})
	case "COPY":
		do("COPY " + set + " A")
		e.m.copyTo("INBOX", pos, "A")
	case "MOVE":
		do("MOVE " + set + " A")
		e.m.moveTo("INBOX", pos, "A")
	case "COPYSAME":
		do("COPY " + set + " INBOX")
		e.m.copyTo("INBOX", pos, "INBOX")
	case "MOVEDUP": // destination already holds all of them
		do("COPY 1:* A")
		e.m.copyTo("INBOX", allPos(n), "A")
		do("MOVE " + set + " A")
		e.m.moveTo("INBOX", pos, "A")
	}

	e.compareAll(fmt.Sprintf("%s on %s of %d messages", op, set, n))

	big := len(pos) > 500
	ev.Case(big, ev.Hash("bulk", n, op, lo, hi), "bulk:"+op, fmt.Sprintf("bulk-n:%d", n))

	if ev.WantSample() {
		ev.Sample(fmt.Sprintf("bulk: %d messages in one connector update, then %s on %s", n, op, set))
	}
}

func allPos(n int) []int {
	p := make([]int, n)
	for i := range p {
		p[i] = i
	}

	return p
}

// TestC03BulkMatrix runs every batch size once for EXPUNGE and once for a STORE on the whole mailbox (quick) and the
// full size x operation matrix (thorough, spread over the shards).
func TestC03BulkMatrix(t *testing.T) {
	ops := []string{"EXPUNGE", "STORE="}
	if ev.Thorough() {
		ops = bulkOps
	}

	sh, nsh := ev.Shard()
	i := 0

	for _, n := range bulkSizes {
		for _, op := range ops {
			i++

			if i%nsh != sh {
				continue
			}

			n, op := n, op

			t.Run(fmt.Sprintf("%s-%d", op, n), func(t *testing.T) {
				ev.Checks(1, 1)
				rapid.Check(t, func(t *rapid.T) { bulk(t, n, op, 1, n) })
			})
		}
	}
}

// TestC03BulkDrawn draws size, operation and sub-range.
func TestC03BulkDrawn(t *testing.T) {
	ev.Checks(6, 40)
	rapid.Check(t, func(t *rapid.T) {
		n := bulkSizes[rapid.IntRange(2, len(bulkSizes)-1).Draw(t, "size")]
		op := bulkOps[rapid.IntRange(0, len(bulkOps)-1).Draw(t, "op")]
		lo := rapid.IntRange(1, n).Draw(t, "lo")
		hi := rapid.IntRange(lo, n).Draw(t, "hi")

		if rapid.Bool().Draw(t, "whole") {
			lo, hi = 1, n
		}

		bulk(t, n, op, lo, hi)
	})
}
