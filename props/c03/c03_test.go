package c03

import (
	"fmt"
	"regexp"
	"strings"
	"testing"
	"time"

	"github.com/ProtonMail/gluon/imap"
	"pgregory.net/rapid"

	"verif/internal/bed"
	"verif/internal/ev"
	"verif/internal/imapc"
	"verif/internal/kf"
	"verif/internal/mach"
)

// flag vocabulary: system flags in mixed case, keywords over the atom alphabet ('[' is left to C10: the harness
// tokenizer reads it as a section bracket), duplicates differing only in case.
var vocab = []string{
	`\Seen`, `\seen`, `\SEEN`, `\Flagged`, `\FLAGGED`, `\Answered`, `\Draft`, `\Deleted`, `\DELETED`, `\deleted`,
	`kw`, `KW`, `Kw`, `a,b`, `a,B`, `$x`, `x.y`, `it's`, `semi;colon`, `plus+`, `caret^`, `til~de`, `hash#`, `amp&`, `eq=`, `q?`,
	`bang!`, `at@`, `pipe|`, `ang<>`, `slash/`, `co:lon`, `NonJunk`, `$MDNSent`,
}

var idHeader = regexp.MustCompile(`^X-Pm-Gluon-Id: [0-9a-fA-F-]{36}\r\n`)

type env struct {
	t     *rapid.T
	w     *mach.World
	m     *model
	rec   *mach.Rec
	boxes []string
	uids  map[string]map[uint32]string // mailbox -> UID -> marker, learned from the authoritative views
}

func (e *env) fail(format string, a ...any) {
	e.t.Fatalf("C03 violated: "+format+"\nhistory:\n%s", append(a, e.w.Bed.Hist)...)
}

func (e *env) learnUID(box string, uid uint32, marker string) {
	if e.uids == nil {
		e.uids = map[string]map[uint32]string{}
	}

	if e.uids[box] == nil {
		e.uids[box] = map[uint32]string{}
	}

	e.uids[box][uid] = marker
}

// compareAll compares the authoritative content of every mailbox with the model.
func (e *env) compareAll(after string) {
	if err := e.w.Bed.CheckPanics(); err != nil {
		e.fail("%v", err)
	}

	for _, box := range e.boxes {
		fresh, _, _, ok, err := e.w.Fresh(box, true)
		if err != nil {
			e.t.Fatalf("harness: fresh view of %s: %v\nhistory:\n%s", box, err, e.w.Bed.Hist)
		}

		if !ok {
			e.fail("after %s: mailbox %s can not be examined", after, box)
		}

		want := e.m.boxes[box].entries
		if len(fresh) != len(want) {
			e.fail("after %s: mailbox %s holds %d messages %v, the model holds %d: %s", after, box, len(fresh), markersOf(fresh), len(want), e.m.describe(box))
		}

		for i, f := range fresh {
			e.learnUID(box, f.UID, f.Marker)

			if f.Marker != want[i].marker {
				e.fail("after %s: mailbox %s position %d holds %s, the model %s (server %v, model %s)", after, box, i+1, f.Marker, want[i].marker, markersOf(fresh), e.m.describe(box))
			}

			if wf := e.m.flagsOf(box, i); !imapc.SameFlags(f.Flags, wf) {
				e.fail("after %s: mailbox %s message %s (uid %d) has flags %v, the model %v", after, box, f.Marker, f.UID, f.Flags, wf)
			}

			msg := e.m.msgs[f.Marker]
			loc := idHeader.FindStringIndex(f.Body)

			if loc == nil || f.Body[loc[1]:] != string(msg.bytes) {
				e.fail("after %s: mailbox %s message %s: bytes differ from what was stored (+ id header line):\n%q\nwant (after the id header)\n%q", after, box, f.Marker, f.Body, msg.bytes)
			}

			if f.Size != len(f.Body) {
				e.fail("after %s: mailbox %s message %s: RFC822.SIZE %d but BODY[] has %d bytes", after, box, f.Marker, f.Size, len(f.Body))
			}
		}
	}
}

func markersOf(f []mach.FreshMsg) []string {
	r := make([]string, len(f))
	for i, m := range f {
		r[i] = m.Marker
	}

	return r
}

// sync brings a session up to date: everything queued is processed and flushed; its view then equals the model.
func (e *env) sync(s *mach.Sess) {
	e.w.Barrier()

	if s.Selected == "" {
		return
	}

	s.Do("NOOP")

	view, err := e.w.View(s)
	if err != nil {
		e.t.Fatalf("harness: %v\nhistory:\n%s", err, e.w.Bed.Hist)
	}

	if want := len(e.m.boxes[s.Selected].entries); len(view) != want {
		e.fail("session %s, up to date after barrier + NOOP, sees %d messages in %s, the model holds %d", s.Name, len(view), s.Selected, want)
	}
}

func pick[T any](t *rapid.T, label string, xs []T) T {
	return xs[rapid.IntRange(0, len(xs)-1).Draw(t, label)]
}

func drawFlags(t *rapid.T, min, max int) []string {
	n := rapid.IntRange(min, max).Draw(t, "nflags")
	res := make([]string, 0, n)

	for i := 0; i < n; i++ {
		res = append(res, vocab[rapid.IntRange(0, len(vocab)-1).Draw(t, "flag")])
	}

	return res
}

func (e *env) connCreate(box string, n int, flagsOf func(i int) []string) {
	var mcs []*imap.MessageCreated

	for i := 0; i < n; i++ {
		marker := e.w.NewMarker()
		flags := flagsOf(i)
		body := mach.Msg(marker, "remote")

		_, mc, err := e.w.U.Conn.NewRemoteMessage(body, imap.NewFlagSetFromSlice(flags), time.Date(2020, 1, 2, 3, 4, 5, 0, time.UTC), e.w.RemoteBox(box))
		if err != nil {
			e.t.Fatalf("harness: %v", err)
		}

		mcs = append(mcs, mc)
		e.m.appendMsg(box, marker, body, flags)
	}

	if d := e.w.Bed.DeliverNow(e.w.U, imap.NewMessagesCreated(false, mcs...)); d[0].Err != nil {
		e.fail("connector MessagesCreated of %d messages refused: %v", n, d[0].Err)
	}
}

func run(t *rapid.T) {
	nBoxes := rapid.IntRange(2, 4).Draw(t, "nBoxes")
	boxes := []string{"INBOX", "A", "B", "C"}[:nBoxes]
	cfg := mach.Config{
		NSess: rapid.IntRange(1, 3).Draw(t, "nSess"),
		Boxes: boxes,
		Opts:  bed.Options{DisableParallelism: rapid.Bool().Draw(t, "noParallel")},
	}

	w := mach.NewWorld(t, cfg)
	defer w.Close()

	e := &env{t: t, w: w, m: newModel(boxes), rec: &mach.Rec{}, boxes: boxes}
	e.rec.Op("cfg sess=%d boxes=%d", cfg.NSess, nBoxes)

	for _, box := range boxes {
		if n := rapid.IntRange(0, 3).Draw(t, "prefill"); n > 0 {
			e.connCreate(box, n, func(int) []string {
				return mach.DrawFlags(t, "cflag", []string{`\Seen`, `\Flagged`}, 0)
			})
		}
	}

	for _, s := range w.S {
		box := w.PickBox(t)
		ro := rapid.IntRange(0, 5).Draw(t, "ro") == 0

		w.Barrier()

		if r := s.Select(box, ro); !r.OK() {
			t.Fatalf("select: %v", r)
		}

		e.rec.Op("%s select %s ro=%v", s.Name, box, ro)
	}

	e.compareAll("setup")

	dupDest, refused, staleMove, staleTried, unionSet := false, false, false, false, false

	pickDst := func(t *rapid.T) (string, bool) {
		if rapid.IntRange(0, 7).Draw(t, "missing") == 0 {
			return "Nope", false
		}

		return w.PickBox(t), true
	}

	t.Repeat(map[string]func(*rapid.T){
		"append": func(t *rapid.T) {
			s := w.PickSess(t, w.Free())
			e.sync(s)

			dst, exists := pickDst(t)
			flags := drawFlags(t, 0, 3)
			marker := w.NewMarker()
			body := mach.Msg(marker, "")
			fl := ""

			if len(flags) > 0 {
				fl = "(" + strings.Join(flags, " ") + ") "
			}

			r := s.DoParts(imapc.T("APPEND "+bed.Quote(dst)+" "+fl), imapc.L(body))
			e.rec.Op("%s APPEND %s %s%s -> %s", s.Name, dst, fl, marker, r.Status)

			switch {
			case !exists:
				refused = true

				if r.Status != "NO" || !strings.Contains(strings.ToUpper(r.Code), "TRYCREATE") {
					e.fail("APPEND to a missing mailbox answered %s [%s], want NO [TRYCREATE]", r.Status, r.Code)
				}
			case !r.OK():
				e.fail("valid APPEND refused: %v", r)
			default:
				e.m.appendMsg(dst, marker, body, flags)
			}

			e.compareAll(r.Cmd)
		},
		"store": func(t *rapid.T) {
			s := w.PickSess(t, w.FreeSelected(false))
			e.sync(s)

			rg := w.DrawRange(t, s)
			if rg == nil {
				t.Skip("empty view")
			}

			op := []string{"+", "-", ""}[rapid.IntRange(0, 2).Draw(t, "op")]
			silent := ""

			if rapid.Bool().Draw(t, "silent") {
				silent = ".SILENT"
			}

			flags := drawFlags(t, 0, 4)
			recent := rapid.IntRange(0, 11).Draw(t, "recent") == 0

			if recent {
				flags = append(flags, `\Recent`)
			}

			r := s.Do(fmt.Sprintf("%sSTORE %s %sFLAGS%s (%s)", rg.Prefix(), rg.Text, op, silent, strings.Join(flags, " ")))
			if silent != "" {
				s.Mirror.ForgetFlags(rg.Pos...)
			}

			e.rec.Op("%s %s -> %s", s.Name, r.Cmd, r.Status)

			switch {
			case s.ReadOnly || recent:
				refused = true

				if r.OK() {
					e.fail("%q accepted (read-only session: %v, \\Recent given: %v)", r.Cmd, s.ReadOnly, recent)
				}
			case !r.OK():
				e.fail("valid STORE refused: %v", r)
			default:
				e.m.store(s.Selected, rg.Pos, op, flags)
			}

			e.compareAll(r.Cmd)
		},
		"expunge": func(t *rapid.T) {
			s := w.PickSess(t, w.FreeSelected(false))
			e.sync(s)

			var (
				r   *imapc.Result
				pos []int
			)

			if rg := w.DrawRange(t, s); rg != nil && rg.UID && rapid.Bool().Draw(t, "uidexpunge") {
				r = s.Do("UID EXPUNGE " + rg.Text)
				pos = rg.Pos
			} else {
				r = s.Do("EXPUNGE")
			}

			e.rec.Op("%s %s -> %s", s.Name, r.Cmd, r.Status)

			switch {
			case s.ReadOnly:
				refused = true

				if r.OK() {
					e.fail("%q accepted in a read-only session", r.Cmd)
				}
			case !r.OK():
				e.fail("valid EXPUNGE refused: %v", r)
			default:
				if pos == nil {
					e.m.expunge(s.Selected, nil)
				} else {
					e.m.expunge(s.Selected, pos)
				}
			}

			e.compareAll(r.Cmd)
		},
		"close": func(t *rapid.T) {
			s := w.PickSess(t, w.FreeSelected(false))
			e.sync(s)

			box, ro := s.Selected, s.ReadOnly
			closeCmd := rapid.Bool().Draw(t, "close")
			r := s.Unselect(closeCmd)
			e.rec.Op("%s %s -> %s", s.Name, r.Cmd, r.Status)

			if !r.OK() {
				e.fail("%s refused: %v", r.Cmd, r)
			}

			if closeCmd && !ro {
				e.m.expunge(box, nil)
			}

			e.compareAll(r.Cmd)
		},
		"select": func(t *rapid.T) {
			s := w.PickSess(t, w.Free())
			w.Barrier()

			box := w.PickBox(t)
			r := s.Select(box, rapid.IntRange(0, 4).Draw(t, "ro") == 0)
			e.rec.Op("%s %s -> %s", s.Name, r.Cmd, r.Status)

			if !r.OK() {
				e.fail("SELECT refused: %v", r)
			}
		},
		"copymove": func(t *rapid.T) {
			s := w.PickSess(t, w.FreeSelected(false))
			e.sync(s)

			rg := w.DrawRange(t, s)
			if rg == nil {
				t.Skip("empty view")
			}

			// one time in three the set is a union of several elements in any order: the messages are taken in the order
			// of the set (a message named twice counts where it is named first), and that is the order in which the
			// destination receives them
			if n := len(s.Mirror.Msgs); n >= 2 && rapid.IntRange(0, 2).Draw(t, "union") == 0 {
				var (
					parts []string
					pos   []int
					seen  = map[int]bool{}
				)

				for i, k := 0, rapid.IntRange(2, 3).Draw(t, "elements"); i < k; i++ {
					lo := rapid.IntRange(1, n).Draw(t, "ulo")
					hi := lo

					if rapid.Bool().Draw(t, "urange") {
						hi = rapid.IntRange(lo, n).Draw(t, "uhi")
					}

					if lo == hi {
						parts = append(parts, fmt.Sprint(lo))
					} else if rapid.Bool().Draw(t, "urev") {
						parts = append(parts, fmt.Sprintf("%d:%d", hi, lo))
					} else {
						parts = append(parts, fmt.Sprintf("%d:%d", lo, hi))
					}

					for p := lo; p <= hi; p++ {
						if !seen[p] {
							seen[p] = true

							pos = append(pos, p-1)
						}
					}
				}

				rg = &mach.Range{Text: strings.Join(parts, ","), Pos: pos}
				unionSet = true
			}

			move := rapid.Bool().Draw(t, "move")
			dst, exists := pickDst(t)
			verb := "COPY"

			if move {
				verb = "MOVE"
			}

			if exists {
				for _, p := range rg.Pos {
					if e.m.boxes[dst].index(e.m.boxes[s.Selected].entries[p].marker) >= 0 {
						dupDest = true
					}
				}
			}

			r := s.Do(fmt.Sprintf("%s%s %s %s", rg.Prefix(), verb, rg.Text, bed.Quote(dst)))
			e.rec.Op("%s %s -> %s", s.Name, r.Cmd, r.Status)

			switch {
			case s.ReadOnly:
				// gluon refuses COPY as well in a read-only session (documented in handle_copy.go)
				refused = true

				if r.OK() {
					e.fail("%s accepted in a read-only session", verb)
				}
			case !exists:
				refused = true

				if r.Status != "NO" || !strings.Contains(strings.ToUpper(r.Code), "TRYCREATE") {
					e.fail("%s to a missing mailbox answered %s [%s], want NO [TRYCREATE]", verb, r.Status, r.Code)
				}
			case !r.OK():
				e.fail("valid %s refused: %v", verb, r)
			case move:
				e.m.moveTo(s.Selected, rg.Pos, dst)
			default:
				e.m.copyTo(s.Selected, rg.Pos, dst)

				// A copy onto the selected mailbox leaves the session's own re-additions pending behind its held-back
				// expunges; a higher UID that enters the view before they are flushed produces the listed finding
				// (late lower UID). Every other action flushes first anyway, the stale MOVE does not.
				if strings.EqualFold(dst, s.Selected) && kf.Listed(mach.KfLateLowerUID) {
					ev.Excluded(1)
					s.Do("NOOP")
				}
			}

			e.compareAll(r.Cmd)
		},
		// MOVE by a session whose view is behind: another session has removed messages it still shows (their EXPUNGE
		// is only sent with the next command that permits it). The command addresses what the view holds; only the
		// addressed messages the mailbox still holds can move (actionMoveMessages filters on the source mailbox), the
		// others are gone and stay gone.
		"staleMove": func(t *rapid.T) {
			s := w.PickSess(t, w.FreeSelected(false))
			if s.ReadOnly {
				t.Skip("read-only")
			}

			// mostly: let another session remove messages of that mailbox first (its view is current, the model follows)
			var others []*mach.Sess

			for _, o := range w.Free() {
				if o != s {
					others = append(others, o)
				}
			}

			if len(others) > 0 && rapid.IntRange(0, 3).Draw(t, "removeFirst") != 0 {
				o := pick(t, "other", others)
				src := s.Selected

				if !strings.EqualFold(o.Selected, src) || o.ReadOnly {
					w.Barrier()

					if r := o.Select(src, false); !r.OK() {
						e.fail("SELECT refused: %v", r)
					}

					e.rec.Op("%s select %s ro=false", o.Name, src)
				}

				e.sync(o)

				for i, k := 0, rapid.IntRange(1, 2).Draw(t, "removals"); i < k && len(o.Mirror.Msgs) > 0; i++ {
					p := rapid.IntRange(1, len(o.Mirror.Msgs)).Draw(t, "victim")

					if rapid.Bool().Draw(t, "byMove") {
						to := w.PickBox(t)
						if strings.EqualFold(to, src) {
							continue
						}

						r := o.Do(fmt.Sprintf("MOVE %d %s", p, bed.Quote(to)))
						e.rec.Op("%s %s -> %s", o.Name, r.Cmd, r.Status)

						if !r.OK() {
							e.fail("valid MOVE refused: %v", r)
						}

						e.m.moveTo(src, []int{p - 1}, to)
					} else {
						r := o.Do(fmt.Sprintf(`STORE %d +FLAGS (\Deleted)`, p))
						e.m.store(src, []int{p - 1}, "+", []string{`\Deleted`})

						r2 := o.Do("EXPUNGE")
						e.rec.Op("%s %s; EXPUNGE -> %s %s", o.Name, r.Cmd, r.Status, r2.Status)

						if !r.OK() || !r2.OK() {
							e.fail("valid STORE / EXPUNGE refused: %v %v", r, r2)
						}

						e.m.expunge(src, nil)
					}

					e.compareAll("removal by " + o.Name)
				}
			}

			// every queued update reaches the session (in order); pending EXPUNGEs are not flushed by UID FETCH
			w.Barrier()

			view, err := w.View(s)
			if err != nil {
				t.Fatalf("harness: %v\nhistory:\n%s", err, w.Bed.Hist)
			}

			rg := w.DrawRange(t, s)
			if rg == nil || len(view) != len(s.Mirror.Msgs) {
				t.Skip("empty view")
			}

			dst := w.PickBox(t)
			src := s.Selected

			var live []string

			gone := 0

			for _, p := range rg.Pos {
				mk, ok := e.uids[src][view[p].UID]
				if !ok {
					t.Fatalf("harness: UID %d of %s was never seen in an authoritative view\nhistory:\n%s", view[p].UID, src, w.Bed.Hist)
				}

				if e.m.boxes[src].index(mk) >= 0 {
					live = append(live, mk)
				} else {
					gone++
				}
			}

			staleTried = true

			if gone > 0 {
				staleMove = true
			}

			r := s.Do(fmt.Sprintf("%sMOVE %s %s", rg.Prefix(), rg.Text, bed.Quote(dst)))
			e.rec.Op("%s %s (view behind by %d of %d addressed) -> %s", s.Name, r.Cmd, gone, len(rg.Pos), r.Status)

			if !r.OK() {
				e.fail("valid MOVE refused: %v", r)
			}

			if src != dst {
				for _, mk := range live {
					e.m.boxes[src].remove(mk)
				}
			}

			e.m.add(dst, live)
			e.compareAll(r.Cmd)
		},
		// \Deleted is a flag of the message *in one mailbox*, every other flag belongs to the message: a message is copied,
		// its original is marked \Deleted, another session changes a shared flag through the copy, and the first session
		// (which has heard of that change) expunges - a sequence the independent actions produce only rarely.
		"crossBoxDeleted": func(t *rapid.T) {
			if len(w.S) < 2 {
				t.Skip("one session only")
			}

			var cands []*mach.Sess

			for _, s := range w.FreeSelected(false) {
				if !s.ReadOnly {
					cands = append(cands, s)
				}
			}

			s := w.PickSess(t, cands)
			e.sync(s)

			if len(s.Mirror.Msgs) == 0 {
				t.Skip("empty view")
			}

			var others []*mach.Sess

			for _, o := range w.Free() {
				if o != s {
					others = append(others, o)
				}
			}

			o := w.PickSess(t, others)
			src := s.Selected

			var dsts []string

			for _, b := range boxes {
				if !strings.EqualFold(b, src) {
					dsts = append(dsts, b)
				}
			}

			dst := pick(t, "dst", dsts)
			p := rapid.IntRange(1, len(s.Mirror.Msgs)).Draw(t, "p")

			step := func(x *mach.Sess, cmd string) {
				r := x.Do(cmd)
				e.rec.Op("%s %s -> %s", x.Name, r.Cmd, r.Status)

				if !r.OK() {
					e.fail("valid %q refused: %v", cmd, r)
				}
			}

			step(s, fmt.Sprintf("COPY %d %s", p, bed.Quote(dst)))
			e.m.copyTo(src, []int{p - 1}, dst)

			if kf.Listed(mach.KfLateLowerUID) && strings.EqualFold(dst, s.Selected) {
				s.Do("NOOP")
			}

			step(s, fmt.Sprintf(`STORE %d +FLAGS (\Deleted)`, p))
			e.m.store(src, []int{p - 1}, "+", []string{`\Deleted`})
			e.compareAll("COPY + STORE \\Deleted")

			w.Barrier()

			if r := o.Select(dst, false); !r.OK() {
				e.fail("SELECT refused: %v", r)
			}

			e.rec.Op("%s select %s ro=false", o.Name, dst)
			e.sync(o)

			q := len(o.Mirror.Msgs) // the copy is the last message of the destination
			flag := pick(t, "flag", []string{`\Flagged`, `\Seen`, `\Answered`, "kw"})
			op := pick(t, "op", []string{"+", "-", ""})

			step(o, fmt.Sprintf("STORE %d %sFLAGS (%s)", q, op, flag))
			e.m.store(dst, []int{q - 1}, op, []string{flag})
			e.compareAll("STORE through the copy")

			e.sync(s)

			if rapid.Bool().Draw(t, "close") {
				r := s.Unselect(true)
				e.rec.Op("%s %s -> %s", s.Name, r.Cmd, r.Status)

				if !r.OK() {
					e.fail("CLOSE refused: %v", r)
				}
			} else {
				step(s, "EXPUNGE")
			}

			e.m.expunge(src, nil)
			e.compareAll("EXPUNGE after a flag change through the copy in " + dst)
		},
		"badseq": func(t *rapid.T) {
			s := w.PickSess(t, w.FreeSelected(false))
			e.sync(s)

			n := len(s.Mirror.Msgs) + rapid.IntRange(1, 3).Draw(t, "beyond")
			set := fmt.Sprint(n)

			if len(s.Mirror.Msgs) > 0 && rapid.Bool().Draw(t, "range") {
				set = fmt.Sprintf("1:%d", n)
			}

			cmd := []string{
				"STORE " + set + ` +FLAGS (\Deleted \Seen)`,
				"COPY " + set + " " + bed.Quote(w.PickBox(t)),
				"MOVE " + set + " " + bed.Quote(w.PickBox(t)),
			}[rapid.IntRange(0, 2).Draw(t, "cmd")]

			r := s.Do(cmd)
			e.rec.Op("%s %s -> %s", s.Name, r.Cmd, r.Status)
			refused = true

			if r.OK() {
				e.fail("%q accepted although the view has only %d messages", cmd, len(s.Mirror.Msgs))
			}

			if !s.ReadOnly && r.Status != "BAD" {
				e.fail("%q answered %s, want BAD (sequence number beyond the view)", cmd, r.Status)
			}

			e.compareAll(r.Cmd)
		},
		"connCreate": func(t *rapid.T) {
			box := w.PickBox(t)
			e.connCreate(box, rapid.IntRange(1, 3).Draw(t, "n"), func(int) []string {
				return mach.DrawFlags(t, "cflag", []string{`\Seen`, `\Flagged`, `\Answered`}, 0)
			})
			e.rec.Op("conn create in %s", box)
			e.compareAll("connector MessagesCreated")
		},
	})

	labels := []string{}
	for l := range w.Labels {
		labels = append(labels, l)
	}

	if dupDest {
		labels = append(labels, "dup-destination")
	}

	if refused {
		labels = append(labels, "refused-command")
	}

	if staleMove {
		labels = append(labels, "move-from-stale-view")
	}

	if staleTried {
		labels = append(labels, "move-without-sync")
	}

	if unionSet {
		labels = append(labels, "union-set")
	}

	ev.Case(dupDest || refused || staleMove, ev.Hash(strings.Join(e.rec.Ops, ";")), labels...)

	if ev.WantSample() {
		ev.Sample(e.rec.Ops)
	}
}

func TestC03Machine(t *testing.T) {
	ev.Checks(90, 700)
	rapid.Check(t, run)
}
