package c04

import (
	"testing"

	"verif/internal/ev"
)

func TestMain(m *testing.M) {
	ev.Main(m, "C04", "exploration",
		"rapid state machine: APPEND, COPY, MOVE (ranges and out-of-order unions), connector MessagesCreated / MessageMailboxesUpdated, STORE \\Deleted + EXPUNGE biased to the highest UID, failing commands, MOVE from a view that is behind (COPYUID pairing), DELETE + re-CREATE of the same name, DELETE + RENAME INBOX onto the same name, connector UIDValidityBumped and server RESTART (new gluon.New on the same directories with a fresh default UIDVALIDITY generator). Oracle: a ledger keyed by (mailbox name, UIDVALIDITY) fed by every observation (APPENDUID, COPYUID, fresh views with markers, UIDNEXT): a (name, validity, uid) never denotes two messages, new UIDs exceed every UID ever recorded, UIDNEXT exceeds every recorded UID and never decreases, APPENDUID/COPYUID pairs are where the messages are found, and a new UIDVALIDITY of a name exceeds every earlier one. A second property draws the age of the epoch of imap.EpochUIDValidityGenerator over 0 .. 2^33 seconds (biased to the 32-bit boundary): a generator started later hands out a larger value or refuses, values are the seconds since the epoch, one instance grows strictly (non-trivial there: an age within 100000 s of 2^32 or beyond). Non-trivial: history with (expunge of the highest UID or delete/re-create or bump) followed by a new assignment, or a restart between two assignments; distinct by hash of the operation sequence.",
		"message identity through the X-Verif-Marker header",
		"clean restarts only; crash points are C07's subject")
}
