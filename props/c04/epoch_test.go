package c04

import (
	"fmt"
	"testing"
	"time"

	"github.com/ProtonMail/gluon/imap"
	"pgregory.net/rapid"

	"verif/internal/ev"
)

// The epoch UIDVALIDITY generator over its whole range. An application may choose any epoch
// (imap.NewEpochUIDValidityGenerator); the value handed out is the number of seconds since it, and that number has to
// fit a 32-bit UIDVALIDITY. A server that is restarted gets a new generator instance with the same epoch, so the only
// thing that keeps the UIDVALIDITY of a name growing across restarts is that a generator started LATER hands out a
// LARGER value - or refuses. Drawn: two ages of the epoch (seconds, anywhere in 0 .. 2^33, biased to the 32-bit
// boundary), further apart than the number of values drawn from the first generator. Oracle: the generator of the older epoch returns an error or a value above
// the one of the younger epoch; a value handed out lies in [age, age+10] (the clock moves on between the draw and the
// call; ten seconds allow for a busy machine); successive calls on one instance grow strictly or fail.
func TestC04EpochGeneratorRange(t *testing.T) {
	ev.Checks(400, 4000)

	const cap32 = int64(0xFFFFFFFF)

	age := func(t *rapid.T, label string) int64 {
		switch rapid.IntRange(0, 3).Draw(t, label+"-class") {
		case 0:
			return rapid.Int64Range(0, 1<<33).Draw(t, label)
		case 1:
			return cap32 + rapid.Int64Range(-12, 12).Draw(t, label)
		case 2:
			return rapid.Int64Range(0, 100).Draw(t, label)
		default:
			return rapid.Int64Range(cap32-100000, cap32+100000).Draw(t, label)
		}
	}

	rapid.Check(t, func(t *rapid.T) {
		a1 := age(t, "age1")
		a2 := age(t, "age2")

		if a1 > a2 {
			a1, a2 = a2, a1
		}

		chain := rapid.IntRange(1, 4).Draw(t, "chain")

		// values handed out within one second run ahead of the clock (one per call): the later generator is started
		// when the clock has caught up with them (a restart sooner than that is the listed finding
		// C04-uidvalidity-generator-restart, not this property's subject)
		if gap := int64(chain) + 12; a2-a1 < gap {
			a2 = a1 + gap
		}

		gen := func(a int64) ([]imap.UID, error) {
			g := imap.NewEpochUIDValidityGenerator(time.Now().Add(-time.Duration(a) * time.Second))

			var vs []imap.UID

			for i := 0; i < chain; i++ {
				v, err := g.Generate()
				if err != nil {
					return vs, err
				}

				if len(vs) > 0 && v <= vs[len(vs)-1] {
					t.Fatalf("C04 violated: one generator (epoch %d s ago) handed out %d after %d", a, v, vs[len(vs)-1])
				}

				vs = append(vs, v)
			}

			return vs, nil
		}

		v1, err1 := gen(a1)
		v2, err2 := gen(a2)

		for _, c := range []struct {
			a   int64
			vs  []imap.UID
			err error
		}{{a1, v1, err1}, {a2, v2, err2}} {
			if c.a > cap32+1 && len(c.vs) > 0 {
				t.Fatalf("C04 violated: epoch %d s ago (more than 32 bits of seconds): the generator handed out %v instead of refusing", c.a, c.vs)
			}

			if len(c.vs) > 0 && (int64(c.vs[0]) < c.a || int64(c.vs[0]) > c.a+10) && !(c.a == 0 && c.vs[0] == 1) {
				t.Fatalf("C04 violated: epoch %d s ago: first value %d is not the number of seconds since the epoch", c.a, c.vs[0])
			}

			if c.a < cap32-20 && c.err != nil {
				t.Fatalf("C04 violated: epoch %d s ago: the generator refuses although the value fits: %v", c.a, c.err)
			}
		}

		if len(v1) > 0 && len(v2) > 0 && v2[0] <= v1[len(v1)-1] {
			t.Fatalf("C04 violated: UIDVALIDITY goes backwards across a restart: the generator started %d s after the epoch handed out %v, the one started %d s after it hands out %v", a1, v1, a2, v2)
		}

		class := "inside"

		switch {
		case a2 > cap32:
			class = "beyond-32-bits"
		case a2 > cap32-100:
			class = "at-the-boundary"
		}

		ev.Case(a2 > cap32-100000, ev.Hash(fmt.Sprint(a1, a2, chain)), "epoch:"+class, fmt.Sprintf("chain:%d", chain))

		if ev.WantSample() {
			ev.Sample(map[string]any{"age1_s": a1, "age2_s": a2, "chain": chain, "values1": fmt.Sprint(v1), "values2": fmt.Sprint(v2)})
		}
	})
}
