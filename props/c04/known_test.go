package c04

import (
	"testing"

	"verif/internal/bed"
	"verif/internal/kf"
)

// known C04-uidvalidity-generator-restart.
func TestKnown_C04_uidvalidity_generator_restart(t *testing.T) {
	b, err := bed.Start(bed.Options{}, bed.UserSpec{Name: "user", Pass: "pass"})
	if err != nil {
		t.Fatal(err)
	}

	defer b.Destroy()

	u := b.Users[0]
	validity := func() uint32 {
		_, v, _, ok, err := b.FreshView(u, "A", false)
		if err != nil || !ok {
			t.Fatalf("fresh view: %v %v", ok, err)
		}

		return v
	}

	do := func(cmds ...string) {
		s, err := b.Login("s", u)
		if err != nil {
			t.Fatal(err)
		}

		defer s.Logout()

		for _, c := range cmds {
			if r := s.Do(c); !r.OK() {
				t.Fatalf("%s: %v", c, r)
			}
		}
	}

	// several values generated within the same second: they run ahead of the clock
	do("CREATE X1", "CREATE X2", "CREATE X3", "CREATE X4", "CREATE X5", "CREATE A")
	before := validity()

	if err := b.Restart(); err != nil {
		t.Fatal(err)
	}

	do("DELETE A", "CREATE A")

	after := validity()
	if after > before {
		return // not reproduced (e.g. the clock moved on far enough)
	}

	if !kf.Report(kfEpochRestart) {
		t.Fatalf("C04 violated (not listed as known): mailbox A re-created after a restart has UIDVALIDITY %d, it had %d before\n%s", after, before, b.Hist)
	}
}
