package c04

import (
	"fmt"
	"strconv"
	"strings"
	"testing"
	"time"

	"github.com/ProtonMail/gluon/imap"
	"pgregory.net/rapid"

	"verif/internal/bed"
	"verif/internal/ev"
	"verif/internal/imapc"
	"verif/internal/kf"
	"verif/internal/mach"
)

// kfEpochRestart: the default UIDVALIDITY generator keeps its last value only in memory.
const kfEpochRestart = "C04-uidvalidity-generator-restart"

type key struct {
	box      string
	validity uint32
}

type ledger struct {
	uids       map[key]map[uint32]string // uid -> marker
	maxUID     map[key]uint32
	uidNext    map[key]uint32
	validities map[string][]uint32 // per name, in order of first observation
}

func newLedger() *ledger {
	return &ledger{uids: map[key]map[uint32]string{}, maxUID: map[key]uint32{}, uidNext: map[key]uint32{}, validities: map[string][]uint32{}}
}

type env struct {
	t      *rapid.T
	b      *bed.Bed
	u      *bed.User
	boxes  []string
	sess   []*bed.Session
	l      *ledger
	ops    []string
	nMark  int
	labels map[string]bool
	// for the non-triviality rule
	armed, nontrivial bool
}

func (e *env) op(format string, a ...any) { e.ops = append(e.ops, fmt.Sprintf(format, a...)) }

func (e *env) fail(format string, a ...any) {
	e.t.Fatalf("C04 violated: "+format+"\nhistory:\n%s", append(a, e.b.Hist)...)
}

func (e *env) marker() string { e.nMark++; return "m" + strconv.Itoa(e.nMark) }

// observe reads every mailbox through a fresh session and feeds the ledger.
func (e *env) observe(after string) map[string][]mach.FreshMsg {
	if err := e.b.CheckPanics(); err != nil {
		e.fail("%v", err)
	}

	res := map[string][]mach.FreshMsg{}

	for _, box := range e.boxes {
		msgs, validity, next, ok, err := e.b.FreshView(e.u, box, true)
		if err != nil {
			e.t.Fatalf("harness: fresh view of %s: %v\nhistory:\n%s", box, err, e.b.Hist)
		}

		if !ok {
			continue // currently deleted
		}

		k := key{box, validity}

		// (5) UIDVALIDITY of a name only grows
		vs := e.l.validities[box]
		if len(vs) == 0 || vs[len(vs)-1] != validity {
			for _, old := range vs {
				if validity <= old {
					e.fail("after %s: mailbox %s has UIDVALIDITY %d, it had %d before (all values: %v)", after, box, validity, old, vs)
				}
			}

			e.l.validities[box] = append(vs, validity)
		}

		if e.l.uids[k] == nil {
			e.l.uids[k] = map[uint32]string{}
		}

		prevMax := e.l.maxUID[k]
		newMax := prevMax

		for _, m := range msgs {
			marker := mach.MarkerOf(m.Body)
			fm := mach.FreshMsg{FreshMsg: m, Marker: marker}
			res[box] = append(res[box], fm)

			if known, seen := e.l.uids[k][m.UID]; seen {
				// (1) a UID denotes one message forever
				if known != marker {
					e.fail("after %s: mailbox %s (UIDVALIDITY %d) UID %d now denotes %s, it denoted %s before", after, box, validity, m.UID, marker, known)
				}

				continue
			}

			// (2) new UIDs exceed every UID ever recorded
			if m.UID <= prevMax {
				e.fail("after %s: mailbox %s (UIDVALIDITY %d): new UID %d (%s) is not above the highest UID ever seen (%d)", after, box, validity, m.UID, marker, prevMax)
			}

			e.l.uids[k][m.UID] = marker

			if m.UID > newMax {
				newMax = m.UID
			}

			if e.armed {
				e.nontrivial = true
			}
		}

		e.l.maxUID[k] = newMax

		// (3) UIDNEXT
		if next <= newMax {
			e.fail("after %s: mailbox %s (UIDVALIDITY %d): UIDNEXT %d is not above the highest UID ever assigned (%d)", after, box, validity, next, newMax)
		}

		if old := e.l.uidNext[k]; next < old {
			e.fail("after %s: mailbox %s (UIDVALIDITY %d): UIDNEXT decreased from %d to %d", after, box, validity, old, next)
		}

		e.l.uidNext[k] = next
	}

	return res
}

func (e *env) login(i int) {
	s, err := e.b.Login(fmt.Sprintf("s%d", i), e.u)
	if err != nil {
		e.t.Fatalf("harness: login: %v\nhistory:\n%s", err, e.b.Hist)
	}

	for len(e.sess) <= i {
		e.sess = append(e.sess, nil)
	}

	e.sess[i] = s
}

// revive replaces sessions that were disconnected (BYE after delete / bump, or restart).
func (e *env) revive() {
	for i, s := range e.sess {
		if s == nil || s.Dead {
			if s != nil {
				s.Logout()
			}

			e.login(i)
		}
	}
}

func (e *env) barrier() {
	if err := e.b.Barrier(e.u); err != nil {
		panic(fmt.Sprintf("VERIF-INCONCLUSIVE: barrier: %v", err))
	}
}

// ready brings a session to a selected, up-to-date state and returns its view (UIDs learned by a probe).
func (e *env) ready(t *rapid.T, s *bed.Session) []bed.PMsg {
	e.barrier()

	if s.Selected == "" {
		box := e.boxes[rapid.IntRange(0, len(e.boxes)-1).Draw(t, "selbox")]
		if r := s.Select(box, false); !r.OK() {
			return nil
		}
	} else {
		s.Do("NOOP")
	}

	if s.Dead {
		return nil
	}

	var view []bed.PMsg

	if _, err := s.Probe(func(m []bed.PMsg) error { view = m; return nil }); err != nil {
		return nil
	}

	return view
}

func (e *env) remoteBox(name string) imap.MailboxID {
	if name == "INBOX" {
		return e.u.Inbox.ID
	}

	if mb := e.u.Conn.MailboxByName(name, "/"); mb != nil {
		return mb.ID
	}

	return ""
}

func parseUIDSet(s string) []uint32 {
	var res []uint32

	for _, part := range strings.Split(s, ",") {
		if a, b, ok := strings.Cut(part, ":"); ok {
			x, _ := strconv.ParseUint(a, 10, 32)
			y, _ := strconv.ParseUint(b, 10, 32)

			if x <= y {
				for u := x; u <= y; u++ {
					res = append(res, uint32(u))
				}
			} else {
				for u := x; u >= y && u > 0; u-- {
					res = append(res, uint32(u))
				}
			}
		} else if part != "" {
			x, _ := strconv.ParseUint(part, 10, 32)
			res = append(res, uint32(x))
		}
	}

	return res
}

func copyUID(r *imapc.Result) (uint32, []uint32, []uint32, bool) {
	codes := []string{r.Code}
	for _, u := range r.Untagged {
		codes = append(codes, u.Code)
	}

	for _, c := range codes {
		f := strings.Fields(c)
		if len(f) == 4 && strings.EqualFold(f[0], "COPYUID") {
			v, _ := strconv.ParseUint(f[1], 10, 32)
			return uint32(v), parseUIDSet(f[2]), parseUIDSet(f[3]), true
		}
	}

	return 0, nil, nil, false
}

func findUID(msgs []mach.FreshMsg, uid uint32) (string, bool) {
	for _, m := range msgs {
		if m.UID == uid {
			return m.Marker, true
		}
	}

	return "", false
}

func run(t *rapid.T) {
	nBoxes := rapid.IntRange(2, 3).Draw(t, "nBoxes")
	boxes := []string{"INBOX", "A", "B"}[:nBoxes]

	opts := bed.Options{}

	if kf.Listed(kfEpochRestart) {
		// Steer away from the listed finding: the restarted server keeps the generator instance (and with it the last
		// value handed out) instead of getting a fresh default one. TestKnown_C04_uidvalidity_generator_restart
		// exercises the fresh default.
		gen := imap.DefaultEpochUIDValidityGenerator()
		opts.UIDGen = func() imap.UIDValidityGenerator { return gen }
	}

	b, err := bed.Start(opts, bed.UserSpec{Name: "user", Pass: "pass"})
	if err != nil {
		t.Fatalf("bed: %v", err)
	}

	defer b.Destroy()

	e := &env{t: t, b: b, u: b.Users[0], boxes: boxes, l: newLedger(), labels: map[string]bool{}}

	nSess := rapid.IntRange(1, 2).Draw(t, "nSess")
	for i := 0; i < nSess; i++ {
		e.login(i)
	}

	defer func() {
		for _, s := range e.sess {
			if s != nil {
				s.Logout()
			}
		}
	}()

	for _, box := range boxes[1:] {
		if r := e.sess[0].Do("CREATE " + box); !r.OK() {
			t.Fatalf("create: %v", r)
		}
	}

	e.observe("setup")

	restarts := 0
	pickSess := func(t *rapid.T) *bed.Session {
		e.revive()
		return e.sess[rapid.IntRange(0, len(e.sess)-1).Draw(t, "sess")]
	}

	t.Repeat(map[string]func(*rapid.T){
		"append": func(t *rapid.T) {
			s := pickSess(t)
			e.barrier()

			box := boxes[rapid.IntRange(0, len(boxes)-1).Draw(t, "box")]
			marker := e.marker()
			r := s.DoParts(imapc.T("APPEND "+box+" "), imapc.L(mach.Msg(marker, "")))
			e.op("%s APPEND %s %s -> %s [%s]", s.Name, box, marker, r.Status, r.Code)

			views := e.observe(r.Cmd)

			if r.OK() {
				// (4) APPENDUID
				f := strings.Fields(r.Code)
				if len(f) != 3 || !strings.EqualFold(f[0], "APPENDUID") {
					e.fail("APPEND answered OK without APPENDUID: [%s]", r.Code)
				}

				v, _ := strconv.ParseUint(f[1], 10, 32)
				uid, _ := strconv.ParseUint(f[2], 10, 32)

				if vs := e.l.validities[box]; uint32(v) != vs[len(vs)-1] {
					e.fail("APPENDUID names UIDVALIDITY %d, mailbox %s has %d", v, box, vs[len(vs)-1])
				}

				if got, ok := findUID(views[box], uint32(uid)); !ok || got != marker {
					e.fail("APPENDUID announced UID %d for %s in %s, found there: %q (present: %v)", uid, marker, box, got, ok)
				}
			}
		},
		"copymove": func(t *rapid.T) {
			s := pickSess(t)

			view := e.ready(t, s)
			if len(view) == 0 {
				t.Skip("empty or dead")
			}

			src := s.Selected
			before := e.observe("pre-copy")[src]
			move := rapid.Bool().Draw(t, "move")
			dst := boxes[rapid.IntRange(0, len(boxes)-1).Draw(t, "dst")]

			if rapid.IntRange(0, 9).Draw(t, "missing") == 0 {
				dst = "Nope"
			}

			// a range, or an out-of-order union of two single numbers
			var (
				set  string
				want []uint32 // source UIDs in the order RFC 4315 pairs them
			)

			lo := rapid.IntRange(1, len(view)).Draw(t, "lo")
			hi := rapid.IntRange(lo, len(view)).Draw(t, "hi")
			uidMode := rapid.Bool().Draw(t, "uid")
			num := func(p int) uint32 {
				if uidMode {
					return view[p-1].UID
				}

				return uint32(p)
			}

			if hi > lo && rapid.IntRange(0, 2).Draw(t, "union") == 0 {
				set = fmt.Sprintf("%d,%d", num(hi), num(lo))
				want = []uint32{view[hi-1].UID, view[lo-1].UID}
				e.labels["out-of-order-set"] = true
			} else {
				set = fmt.Sprintf("%d:%d", num(lo), num(hi))
				for p := lo; p <= hi; p++ {
					want = append(want, view[p-1].UID)
				}
			}

			verb, prefix := "COPY", ""
			if move {
				verb = "MOVE"
			}

			if uidMode {
				prefix = "UID "
			}

			r := s.Do(fmt.Sprintf("%s%s %s %s", prefix, verb, set, dst))
			e.op("%s %s -> %s [%s]", s.Name, r.Cmd, r.Status, r.Code)

			views := e.observe(r.Cmd)

			if !r.OK() {
				return
			}

			validity, srcUIDs, dstUIDs, ok := copyUID(r)
			if !ok {
				e.fail("%s answered OK without COPYUID", r.Cmd)
			}

			if vs := e.l.validities[dst]; validity != vs[len(vs)-1] {
				e.fail("COPYUID names UIDVALIDITY %d, mailbox %s has %d", validity, dst, vs[len(vs)-1])
			}

			if len(srcUIDs) != len(dstUIDs) || len(srcUIDs) != len(want) {
				e.fail("%s: COPYUID lists %d source and %d destination UIDs for %d messages", r.Cmd, len(srcUIDs), len(dstUIDs), len(want))
			}

			// (4) the i-th source UID's message is found under the i-th destination UID
			for i := range srcUIDs {
				srcMarker, ok := findUID(before, srcUIDs[i])
				if !ok {
					e.fail("%s: COPYUID source UID %d was not in %s", r.Cmd, srcUIDs[i], src)
				}

				if got, ok := findUID(views[dst], dstUIDs[i]); !ok || got != srcMarker {
					if kf.Listed(kfCopyUIDOrder) && e.labels["out-of-order-set"] && kf.Report(kfCopyUIDOrder) {
						e.labels["known-hit"] = true
						return
					}

					e.fail("%s: COPYUID pairs source UID %d (%s) with destination UID %d, but %s holds %q there", r.Cmd, srcUIDs[i], srcMarker, dstUIDs[i], dst, got)
				}
			}

			// the source set is exactly the selected messages
			seen := map[uint32]bool{}
			for _, u := range srcUIDs {
				seen[u] = true
			}

			for _, u := range want {
				if !seen[u] {
					e.fail("%s: source UID %d missing from COPYUID %v", r.Cmd, u, srcUIDs)
				}
			}
		},
		"expungeHighest": func(t *rapid.T) {
			s := pickSess(t)

			view := e.ready(t, s)
			if len(view) == 0 {
				t.Skip("empty or dead")
			}

			n := len(view)
			if rapid.IntRange(0, 3).Draw(t, "notHighest") == 0 {
				n = rapid.IntRange(1, len(view)).Draw(t, "n")
			}

			s.Do(fmt.Sprintf(`STORE %d +FLAGS.SILENT (\Deleted)`, n))
			r := s.Do("EXPUNGE")
			e.op("%s expunge seq %d of %d -> %s", s.Name, n, len(view), r.Status)

			if r.OK() && n == len(view) {
				e.armed = true
				e.labels["expunged-highest"] = true
			}

			e.observe(r.Cmd)
		},
		"failing": func(t *rapid.T) {
			s := pickSess(t)

			view := e.ready(t, s)
			if s.Dead || s.Selected == "" {
				t.Skip("dead")
			}

			cmd := []string{
				fmt.Sprintf("COPY %d INBOX", len(view)+1),
				fmt.Sprintf("MOVE %d:%d A", 1, len(view)+2),
				"COPY 1 Nope",
				"UID COPY 999999 A",
			}[rapid.IntRange(0, 3).Draw(t, "cmd")]

			r := s.Do(cmd)
			e.op("%s %s -> %s", s.Name, cmd, r.Status)
			e.observe(r.Cmd)
		},
		"connCreate": func(t *rapid.T) {
			box := boxes[rapid.IntRange(0, len(boxes)-1).Draw(t, "box")]

			rid := e.remoteBox(box)
			if rid == "" {
				t.Skip("no such remote mailbox")
			}

			marker := e.marker()

			_, mc, err := e.u.Conn.NewRemoteMessage(mach.Msg(marker, "remote"), imap.NewFlagSet(), time.Date(2020, 1, 2, 3, 4, 5, 0, time.UTC), rid)
			if err != nil {
				t.Fatalf("harness: %v", err)
			}

			d := e.b.DeliverNow(e.u, imap.NewMessagesCreated(false, mc))
			e.op("conn create %s in %s err=%v", marker, box, d[0].Err)
			e.observe("connector MessagesCreated")
		},
		"connBoxes": func(t *rapid.T) {
			var ids []imap.MessageID

			e.u.Conn.Lock(func() {
				for id := range e.u.Conn.Messages {
					ids = append(ids, id)
				}
			})

			if len(ids) == 0 {
				t.Skip("no remote message")
			}

			// deterministic order
			for i := range ids {
				for j := i + 1; j < len(ids); j++ {
					if len(ids[j]) < len(ids[i]) || (len(ids[j]) == len(ids[i]) && ids[j] < ids[i]) {
						ids[i], ids[j] = ids[j], ids[i]
					}
				}
			}

			id := ids[rapid.IntRange(0, len(ids)-1).Draw(t, "msg")]

			var in []imap.MailboxID

			for _, box := range boxes {
				if rapid.Bool().Draw(t, "in:"+box) {
					if rid := e.remoteBox(box); rid != "" {
						in = append(in, rid)
					}
				}
			}

			d := e.b.DeliverNow(e.u, imap.NewMessageMailboxesUpdated(id, in, imap.NewFlagSet()))
			e.op("conn %s err=%v", d[0].Update, d[0].Err)
			e.observe("connector MessageMailboxesUpdated")
		},
		"deleteRecreate": func(t *rapid.T) {
			s := pickSess(t)
			e.barrier()

			box := boxes[rapid.IntRange(1, len(boxes)-1).Draw(t, "box")]
			r1 := s.Do("DELETE " + box)
			e.observe(r1.Cmd)

			// sessions that had the mailbox selected are told to disconnect with their next command
			for _, x := range e.sess {
				if x != nil && !x.Dead && strings.EqualFold(x.Selected, box) {
					x.Do("NOOP")
					x.Dead = true
				}
			}

			e.revive()

			s = e.sess[0]
			r2 := s.Do("CREATE " + box)
			e.op("delete %s -> %s, create -> %s", box, r1.Status, r2.Status)

			if r1.OK() && !r2.OK() {
				e.fail("CREATE %s after DELETE refused: %v", box, r2)
			}

			if r1.OK() {
				e.armed = true
				e.labels["delete-recreate"] = true
			}

			e.observe(r2.Cmd)
		},
		// the name comes back through RENAME INBOX (which creates the target and moves the messages of INBOX there)
		"deleteRenameInbox": func(t *rapid.T) {
			s := pickSess(t)
			e.barrier()

			box := boxes[rapid.IntRange(1, len(boxes)-1).Draw(t, "box")]
			r1 := s.Do("DELETE " + box)
			e.observe(r1.Cmd)

			for _, x := range e.sess {
				if x != nil && !x.Dead && strings.EqualFold(x.Selected, box) {
					x.Do("NOOP")
					x.Dead = true
				}
			}

			e.revive()

			s = e.sess[0]
			r2 := s.Do("RENAME INBOX " + box)
			e.op("delete %s -> %s, rename INBOX %s -> %s", box, r1.Status, box, r2.Status)

			if r1.OK() && !r2.OK() {
				e.fail("RENAME INBOX %s after DELETE %s refused: %v", box, box, r2)
			}

			if r1.OK() {
				e.armed = true
				e.labels["rename-inbox-onto-former-name"] = true
			}

			e.observe(r2.Cmd)
		},
		"bump": func(t *rapid.T) {
			d := e.b.DeliverNow(e.u, imap.NewUIDValidityBumped())
			e.op("conn UIDValidityBumped err=%v", d[0].Err)

			if d[0].Err != nil {
				e.fail("UIDValidityBumped refused: %v", d[0].Err)
			}

			e.barrier()

			// sessions with a selection are told to re-login
			for _, s := range e.sess {
				if s != nil && !s.Dead && s.Selected != "" {
					s.Do("NOOP")
				}
			}

			e.revive()
			e.armed = true
			e.labels["bump"] = true
			e.observe("UIDValidityBumped")
		},
		"restart": func(t *rapid.T) {
			if restarts >= 3 {
				t.Skip("enough restarts")
			}

			restarts++

			for _, s := range e.sess {
				if s != nil {
					s.Logout()
				}
			}

			if kf.Listed(kfEpochRestart) {
				// steer away: keep the UIDVALIDITY generator across the restart (see TestKnown for the finding itself)
				ev.Excluded(1)
			}

			if err := e.b.Restart(); err != nil {
				e.fail("restart: %v", err)
			}

			for i := range e.sess {
				e.sess[i] = nil
			}

			e.revive()
			e.op("restart")
			e.armed = true
			e.labels["restart"] = true
			e.observe("restart")
		},
	})

	e.observe("end")

	labels := []string{}
	for l := range e.labels {
		labels = append(labels, l)
	}

	ev.Case(e.nontrivial, ev.Hash(strings.Join(e.ops, ";")), labels...)

	if ev.WantSample() {
		ev.Sample(e.ops)
	}
}

const kfCopyUIDOrder = "C04-copyuid-sorted-independently"

func TestC04Ledger(t *testing.T) {
	ev.Checks(120, 900)
	rapid.Check(t, run)
}
