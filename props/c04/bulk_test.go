package c04

import (
	"fmt"
	"testing"
	"time"

	"github.com/ProtonMail/gluon/imap"
	"pgregory.net/rapid"

	"verif/internal/bed"
	"verif/internal/ev"
	"verif/internal/mach"
)

// COPYUID in bulk: the UIDs of a multi-message addition are read back from the index in batches of db.ChunkLimit.
// N messages (on both sides of the limit) arrive through one connector update, then one COPY / MOVE of all of them (or
// of a drawn tail) into another mailbox: COPYUID must list every message, and each destination UID must hold the
// message its source UID held.
func TestC04BulkCopyUID(t *testing.T) {
	ev.Checks(3, 14)
	ev.ShrinkTime(5 * time.Second)

	defer ev.ShrinkTime(30 * time.Second)

	rapid.Check(t, func(t *rapid.T) {
		n := rapid.SampledFrom([]int{999, 1000, 1001, 1500, 2001, 2003}).Draw(t, "n")
		verb := rapid.SampledFrom([]string{"COPY", "UID COPY", "MOVE", "UID MOVE"}).Draw(t, "verb")
		from := rapid.SampledFrom([]int{1, 1, 2, 998}).Draw(t, "from")

		b, err := bed.Start(bed.Options{}, bed.UserSpec{Name: "user", Pass: "pass"})
		if err != nil {
			t.Fatalf("VERIF-INCONCLUSIVE: bed: %v", err)
		}

		defer b.Destroy()

		u := b.Users[0]

		s, err := b.Login("s", u)
		if err != nil {
			t.Fatalf("VERIF-INCONCLUSIVE: login: %v", err)
		}

		if r := s.Do("CREATE A"); !r.OK() {
			t.Fatalf("harness: %v", r)
		}

		if r := s.Do("CREATE B"); !r.OK() {
			t.Fatalf("harness: %v", r)
		}

		boxA := u.Conn.MailboxByName("A", "/")
		if boxA == nil {
			t.Fatalf("harness: the connector does not know mailbox A")
		}

		var mcs []*imap.MessageCreated

		for i := 0; i < n; i++ {
			_, mc, err := u.Conn.NewRemoteMessage(mach.Msg(fmt.Sprintf("b%d", i), ""), imap.NewFlagSet(), time.Unix(1600000000, 0), boxA.ID)
			if err != nil {
				t.Fatalf("harness: %v", err)
			}

			mcs = append(mcs, mc)
		}

		if d := b.DeliverNow(u, imap.NewMessagesCreated(false, mcs...)); d[0].Err != nil {
			t.Fatalf("C04 violated: MessagesCreated of %d messages refused: %v", n, d[0].Err)
		}

		before, _, _, ok, err := b.FreshView(u, "A", true)
		if err != nil || !ok || len(before) != n {
			t.Fatalf("C04 violated: after one connector update with %d messages mailbox A shows %d (err %v)", n, len(before), err)
		}

		markerOf := map[uint32]string{}
		for _, m := range before {
			markerOf[m.UID] = mach.MarkerOf(m.Body)
		}

		s.Select("A", false)

		set := fmt.Sprintf("%d:*", from)
		if verb[0] == 'U' {
			set = fmt.Sprintf("%d:*", before[from-1].UID)
		}

		r := s.Do(fmt.Sprintf("%s %s B", verb, set))
		if !r.OK() {
			t.Fatalf("C04 violated: %s of %d messages refused: %v", verb, n-from+1, r)
		}

		want := n - from + 1

		_, srcUIDs, dstUIDs, okc := copyUID(r)
		if !okc {
			t.Fatalf("C04 violated: %s %s B answered OK without COPYUID", verb, set)
		}

		if len(srcUIDs) != want || len(dstUIDs) != want {
			t.Fatalf("C04 violated: %s %s B concerns %d messages, COPYUID lists %d source and %d destination UIDs", verb, set, want, len(srcUIDs), len(dstUIDs))
		}

		after, _, _, ok, err := b.FreshView(u, "B", true)
		if err != nil || !ok || len(after) != want {
			t.Fatalf("C04 violated: after %s %s B the destination shows %d messages, expected %d (err %v)", verb, set, len(after), want, err)
		}

		at := map[uint32]string{}
		for _, m := range after {
			at[m.UID] = mach.MarkerOf(m.Body)
		}

		for i := range srcUIDs {
			if at[dstUIDs[i]] == "" || at[dstUIDs[i]] != markerOf[srcUIDs[i]] {
				t.Fatalf("C04 violated: %s %s B: COPYUID pairs source UID %d (%s) with destination UID %d, where the destination holds %q", verb, set, srcUIDs[i], markerOf[srcUIDs[i]], dstUIDs[i], at[dstUIDs[i]])
			}
		}

		ev.Case(want > 1000, ev.Hash(n, verb, from), "bulk-copyuid", fmt.Sprintf("bulk-n:%d", n))
	})
}
