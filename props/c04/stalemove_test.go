package c04

import (
	"fmt"
	"strings"
	"testing"

	"pgregory.net/rapid"

	"verif/internal/bed"
	"verif/internal/ev"
	"verif/internal/mach"
)

// COPYUID of a MOVE issued from a view that is behind: another session has moved away / expunged some of the
// addressed messages, the EXPUNGEs have not been sent to the moving session yet. Only the messages the mailbox
// still holds move; COPYUID must pair exactly those with the UIDs they are then found under.
func staleMove(t *rapid.T) {
	boxes := []string{"INBOX", "A", "B"}
	w := mach.NewWorld(t, mach.Config{NSess: 2, Boxes: boxes, Prefill: 0})

	defer w.Close()

	var ops []string

	op := func(format string, a ...any) { ops = append(ops, fmt.Sprintf(format, a...)) }
	fail := func(format string, a ...any) {
		t.Fatalf("C04 violated: "+format+"\nops:\n  %s\nhistory:\n%s", append(a, strings.Join(ops, "\n  "), w.Bed.Hist)...)
	}

	src := "A"
	n := rapid.IntRange(2, 6).Draw(t, "n")

	for i := 0; i < n; i++ {
		w.ConnCreate(t, src)
	}

	w.Barrier()

	mover, other := w.S[0], w.S[1]

	for _, s := range w.S {
		if r := s.Select(src, false); !r.OK() {
			t.Fatalf("harness: select: %v", r)
		}
	}

	before, _, _, _, err := w.Fresh(src, true)
	if err != nil || len(before) != n {
		t.Fatalf("harness: fresh view of %s: %v (%d messages)", src, err, len(before))
	}

	markerOf := map[uint32]string{}
	for _, m := range before {
		markerOf[m.UID] = m.Marker
	}

	// the other session removes a drawn subset: MOVE to a third mailbox, MOVE to the later destination, or expunge
	gone := map[string]bool{}
	dst := []string{"INBOX", "B", "A"}[rapid.IntRange(0, 2).Draw(t, "dst")]
	k := rapid.IntRange(0, n).Draw(t, "removed")

	for i := 0; i < k; i++ {
		view, err := w.View(other)
		if err != nil {
			t.Fatalf("harness: %v", err)
		}

		if len(view) == 0 {
			break
		}

		p := rapid.IntRange(1, len(view)).Draw(t, "victim")
		uid := view[p-1].UID

		var r interface{ OK() bool }

		switch how := rapid.IntRange(0, 2).Draw(t, "how"); how {
		case 0:
			r = other.Do(fmt.Sprintf("MOVE %d INBOX", p))
			op("other MOVE %d (uid %d, %s) INBOX", p, uid, markerOf[uid])
		case 1:
			to := dst
			if to == src {
				to = "B"
			}

			r = other.Do(fmt.Sprintf("MOVE %d %s", p, bed.Quote(to)))
			op("other MOVE %d (uid %d, %s) %s", p, uid, markerOf[uid], to)
		default:
			other.Do(fmt.Sprintf(`STORE %d +FLAGS.SILENT (\Deleted)`, p))
			r = other.Do("EXPUNGE")
			op("other expunges %d (uid %d, %s)", p, uid, markerOf[uid])
		}

		if !r.OK() {
			t.Fatalf("harness: removal refused\nhistory:\n%s", w.Bed.Hist)
		}

		gone[markerOf[uid]] = true
	}

	// everything queued reaches the mover; its pending EXPUNGEs are not flushed by UID FETCH
	w.Barrier()

	view, err := w.View(mover)
	if err != nil {
		t.Fatalf("harness: %v", err)
	}

	if len(view) != n {
		t.Fatalf("harness: the mover's view holds %d messages, expected the %d of the stale view\nhistory:\n%s", len(view), n, w.Bed.Hist)
	}

	rg := w.DrawRange(t, mover)
	if rg == nil {
		t.Fatalf("harness: no range")
	}

	var wantSrc []uint32

	for _, p := range rg.Pos {
		if !gone[markerOf[view[p].UID]] {
			wantSrc = append(wantSrc, view[p].UID)
		}
	}

	r := mover.Do(fmt.Sprintf("%sMOVE %s %s", rg.Prefix(), rg.Text, bed.Quote(dst)))
	op("mover %s -> %s [%s] (addressed %d, still there %d)", r.Cmd, r.Status, r.Code, len(rg.Pos), len(wantSrc))

	if !r.OK() {
		fail("valid MOVE refused: %v", r)
	}

	after, _, _, _, err := w.Fresh(dst, true)
	if err != nil {
		t.Fatalf("harness: %v", err)
	}

	_, srcUIDs, dstUIDs, ok := copyUID(r)

	switch {
	case len(wantSrc) == 0:
		if ok && len(dstUIDs) > 0 {
			fail("%s: nothing was left to move, yet COPYUID %v -> %v", r.Cmd, srcUIDs, dstUIDs)
		}
	case !ok:
		fail("%s moved %d messages and answered OK without COPYUID", r.Cmd, len(wantSrc))
	default:
		if len(srcUIDs) != len(dstUIDs) || len(srcUIDs) != len(wantSrc) {
			fail("%s: COPYUID lists %d source and %d destination UIDs (%v -> %v), %d messages %v were still there to be moved", r.Cmd, len(srcUIDs), len(dstUIDs), srcUIDs, dstUIDs, len(wantSrc), wantSrc)
		}

		for i := range srcUIDs {
			mk, known := markerOf[srcUIDs[i]]
			if !known || gone[mk] {
				fail("%s: COPYUID source UID %d (%s) was not in %s any more", r.Cmd, srcUIDs[i], mk, src)
			}

			if got, found := findUID(after, dstUIDs[i]); !found || got != mk {
				fail("%s: COPYUID pairs source UID %d (%s) with destination UID %d, but %s holds %q there", r.Cmd, srcUIDs[i], mk, dstUIDs[i], dst, got)
			}
		}
	}

	partial := len(wantSrc) > 0 && len(wantSrc) < len(rg.Pos)
	classes := []string{"stale-move"}

	if partial {
		classes = append(classes, "stale-move-partial")
	}

	if len(wantSrc) == 0 {
		classes = append(classes, "stale-move-nothing-left")
	}

	if dst == src {
		classes = append(classes, "stale-move-onto-itself")
	}

	ev.Case(len(wantSrc) < len(rg.Pos), ev.Hash(strings.Join(ops, ";")), classes...)

	if ev.WantSample() {
		ev.Sample(ops)
	}
}

func TestC04StaleMoveCopyUID(t *testing.T) {
	ev.Checks(60, 600)
	rapid.Check(t, staleMove)
}
