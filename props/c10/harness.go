package c10

import (
	"bufio"
	"fmt"

	"github.com/ProtonMail/gluon/imap/command"
	"github.com/ProtonMail/gluon/rfcparser"
)

// Stream is what a client sends: one or more encoded commands, with the points at which a real client stops sending
// until the server has reacted.
type Stream struct {
	Data  []byte
	Cmds  []Encoded
	Ends  []int  // end offset of each command inside Data
	Wait  []bool // Wait[i]: the client sends command i+1 only after command i has been parsed (not pipelined)
	gates []gate
}

type gateKind int

const (
	gateContinuation gateKind = iota // opened by the literal continuation callback
	gateResponse                     // opened when Parse has returned the command that ends here
)

type gate struct {
	off  int
	kind gateKind
}

// NewStream concatenates the encoded commands. wait[i] tells whether the client waits for the response to command i
// before it sends the rest (the last command always ends the stream).
func NewStream(cmds []Encoded, wait []bool) *Stream {
	s := &Stream{Cmds: cmds, Wait: wait}

	for i, c := range cmds {
		base := len(s.Data)

		for _, g := range c.Gates {
			s.gates = append(s.gates, gate{off: base + g, kind: gateContinuation})
		}

		s.Data = append(s.Data, c.Bytes...)
		s.Ends = append(s.Ends, len(s.Data))

		if i == len(cmds)-1 || (i < len(wait) && wait[i]) {
			s.gates = append(s.gates, gate{off: len(s.Data), kind: gateResponse})
		}
	}

	return s
}

// Pad is an endless reader of bytes that end every construct of the grammar (see chunkReader.Read).
type Pad struct{ turn int }

func (p *Pad) Read(b []byte) (int, error) {
	for i := range b {
		b[i] = "\"\r\n"[p.turn%3]
		p.turn++
	}

	return len(b), nil
}

// chunkReader hands out the stream in chunks of the given sizes (cycled; 0 = everything available). It never hands
// out a byte behind a closed gate: a Read that arrives at a closed gate is a read that would block forever on a
// real connection, because the client is waiting for the server at that point.
type chunkReader struct {
	s      *Stream
	pos    int
	opened int // number of gates opened
	sizes  []int
	turn   int

	padTurn int

	blockedAt  int // offset of the first Read that hit a closed gate (-1: none)
	extraConts int // continuation callbacks without a pending literal
}

func (r *chunkReader) Read(p []byte) (int, error) {
	limit := len(r.s.Data)
	if r.opened < len(r.s.gates) {
		limit = r.s.gates[r.opened].off
	}

	if r.pos >= limit {
		if r.blockedAt < 0 {
			r.blockedAt = r.pos
		}

		// The case is lost (Check reports the block). What follows only has to make the parser come back: an EOF
		// inside a quoted string makes this parser spin for ever (that is C11's finding, not C10's), so the reader
		// goes on with bytes that end every construct - a quote, then line ends.
		p[0] = "\"\r\n"[r.padTurn%3]
		r.padTurn++

		return 1, nil
	}

	n := r.sizes[r.turn%len(r.sizes)]
	r.turn++

	if n <= 0 || n > limit-r.pos {
		n = limit - r.pos
	}

	if n > len(p) {
		n = len(p)
	}

	copy(p, r.s.Data[r.pos:r.pos+n])
	r.pos += n

	return n, nil
}

// open opens the next gate if it is of the given kind (and, for off >= 0, lies at that offset).
func (r *chunkReader) open(kind gateKind, off int) bool {
	if r.opened < len(r.s.gates) && r.s.gates[r.opened].kind == kind && (off < 0 || r.s.gates[r.opened].off == off) {
		r.opened++

		return true
	}

	return false
}

// Parsed is the outcome of one Parse call.
type Parsed struct {
	Cmd           command.Command
	Err           error
	Consumed      []byte // the bytes the parser took from the connection during this call (the session's input collector)
	Continuations int    // literal continuation requests issued during this call
	BlockedAt     int    // >= 0: during this call the parser asked for bytes the client could not have sent yet (stream offset)
	Panic         any
}

// Result is the outcome of running a stream through the parser.
type Result struct {
	Parsed     []Parsed
	ExtraConts int // continuation requests without a pending literal
}

// Run parses the commands of the stream one after the other with one parser, wired as internal/session does it:
// connection -> bufio.Reader -> command.InputCollector -> rfcparser.Scanner -> command.Parser with a literal
// continuation callback.
func Run(s *Stream, sizes []int) Result {
	if len(sizes) == 0 {
		sizes = []int{0}
	}

	r := &chunkReader{s: s, sizes: sizes, blockedAt: -1}
	collector := command.NewInputCollector(bufio.NewReader(r))
	scanner := rfcparser.NewScannerWithReader(collector)

	conts := 0
	parser := command.NewParserWithLiteralContinuationCb(scanner, func() error {
		conts++

		if !r.open(gateContinuation, -1) {
			r.extraConts++
		}

		return nil
	})

	var res Result

	for i := range s.Cmds {
		collector.Reset()

		conts = 0

		var p Parsed

		r.blockedAt = -1

		func() {
			defer func() {
				if x := recover(); x != nil {
					p.Panic = x
					p.Err = fmt.Errorf("panic: %v", x)
				}
			}()

			p.Cmd, p.Err = parser.Parse()
		}()

		p.Consumed = append([]byte(nil), collector.Bytes()...)
		p.Continuations = conts
		p.BlockedAt = r.blockedAt
		res.Parsed = append(res.Parsed, p)

		if p.Err != nil || p.BlockedAt >= 0 {
			break // the stream is out of step from here on
		}

		r.open(gateResponse, s.Ends[i])
	}

	res.ExtraConts = r.extraConts

	return res
}
