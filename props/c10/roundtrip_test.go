package c10

import (
	"testing"

	"github.com/ProtonMail/gluon/imap/command"
	"pgregory.net/rapid"

	"verif/internal/ev"
	"verif/internal/kf"
)

func avoid() Avoid {
	return Avoid{LBracket: kf.Listed(FindingLBracket), EmptyLiteral: kf.Listed(FindingEmptyLiteral), ListLiteral: kf.Listed(FindingListLiteral)}
}

func newGen(t *rapid.T) *Gen {
	g := NewGen(t)
	g.Avoid = avoid()
	g.MaxLiteral = ev.Pick(20000, 70000)

	return g
}

func encode(t *rapid.T, c command.Command) Encoded {
	enc, excluded := Encode(RapidSrc{T: t}, c, avoid())
	if excluded > 0 {
		ev.Excluded(excluded)
	}

	return enc
}

// drawChunks draws how the connection delivers the bytes: whole, byte by byte, fixed small pieces, or a cycle of
// drawn sizes.
func drawChunks(t *rapid.T) []int {
	switch rapid.IntRange(0, 4).Draw(t, "chunk-mode") {
	case 0:
		return []int{0}
	case 1:
		return []int{1}
	case 2:
		return []int{rapid.IntRange(2, 9).Draw(t, "chunk-size")}
	default:
		return rapid.SliceOfN(rapid.IntRange(1, 80), 1, 8).Draw(t, "chunk-sizes")
	}
}

// verify is the oracle for one command of a stream (see Check in oracle.go).
func verify(t *rapid.T, want command.Command, enc Encoded, chunks []int, res Result, i int) {
	if msg := Check(want, enc, chunks, res, i); msg != "" {
		t.Fatalf("%s", msg)
	}
}

func record(c command.Command, encs ...Encoded) {
	in := Describe(c)
	labels := append([]string{"cmd:" + in.Name}, in.Labels...)

	var lits, quoted, atoms int

	var all [][]byte

	for _, e := range encs {
		lits, quoted, atoms = lits+e.Literals, quoted+e.Quoted, atoms+e.Atoms
		all = append(all, e.Bytes)
	}

	if lits > 0 {
		labels = append(labels, "enc:literal")
	}

	if quoted > 0 {
		labels = append(labels, "enc:quoted")
	}

	if atoms > 0 {
		labels = append(labels, "enc:atom")
	}

	nontrivial := lits > 0 || in.SearchDepth >= 3 || in.HasPartial
	if nontrivial {
		labels = append(labels, "nontrivial")
	}

	ev.Case(nontrivial, ev.Hash(all), labels...)

	if ev.WantSample() {
		ev.Sample(map[string]string{"command": Clip(encs[0].Bytes), "ast": Dump(c.Payload)})
	} else {
		ev.Sample(nil) // keeps the thinning counter of the recorder moving
	}
}

// roundTrip is the property: the command is written twice with independent encoding choices and chunkings; each
// writing must parse to exactly the AST, and therefore to the same payload.
func roundTrip(draw func(g *Gen) command.Command) func(t *rapid.T) {
	return func(t *rapid.T) {
		g := newGen(t)
		cmd := draw(g)

		if g.Excluded > 0 {
			ev.Excluded(g.Excluded)
		}

		enc1, chunks1 := encode(t, cmd), drawChunks(t)
		enc2, chunks2 := encode(t, cmd), drawChunks(t)

		record(cmd, enc1, enc2)

		res1 := Run(NewStream([]Encoded{enc1}, nil), chunks1)
		verify(t, cmd, enc1, chunks1, res1, 0)

		res2 := Run(NewStream([]Encoded{enc2}, nil), chunks2)
		verify(t, cmd, enc2, chunks2, res2, 0)

		// metamorphic relation (implied by the two checks above; kept explicit so that it also holds the comparator to account)
		if d := Diff(res1.Parsed[0].Cmd, res2.Parsed[0].Cmd); d != "" {
			t.Fatalf("two writings of one command parse differently at %s\n  first  %s\n  second %s", d, Clip(enc1.Bytes), Clip(enc2.Bytes))
		}
	}
}

func anyCommand(g *Gen) command.Command { return g.Command() }

// TestAllCommands: every command form the parser supports, all argument kinds.
func TestAllCommands(t *testing.T) {
	ev.Checks(70000, 520000)
	rapid.Check(t, roundTrip(anyCommand))
}

// TestEveryForm: the forms drawn uniformly (so that the rarely drawn simple commands get their share too).
func TestEveryForm(t *testing.T) {
	ev.Checks(20000, 150000)
	rapid.Check(t, roundTrip(func(g *Gen) command.Command {
		return g.Named(rapid.SampledFrom(CommandNames).Draw(g.T, "form"))
	}))
}

// TestSearchTrees: SEARCH / UID SEARCH with key trees of a forced depth 1..6.
func TestSearchTrees(t *testing.T) {
	ev.Checks(40000, 300000)
	rapid.Check(t, roundTrip(func(g *Gen) command.Command {
		var p command.Payload = g.Search(g.n("min-depth", 1, g.MaxDepth))
		if g.chance("uid", 1, 3) {
			p = &command.UID{Command: p}
		}

		return command.Command{Tag: g.Tag(), Payload: p}
	}))
}

// TestFetch: FETCH / UID FETCH (attributes, macros, sections, partials).
func TestFetch(t *testing.T) {
	ev.Checks(30000, 225000)
	rapid.Check(t, roundTrip(func(g *Gen) command.Command {
		var p command.Payload = g.Fetch()
		if g.chance("uid", 1, 3) {
			p = &command.UID{Command: p}
		}

		return command.Command{Tag: g.Tag(), Payload: p}
	}))
}

var stringForms = []string{"LOGIN", "SELECT", "EXAMINE", "CREATE", "DELETE", "RENAME", "SUBSCRIBE", "UNSUBSCRIBE", "LIST", "LSUB", "STATUS",
	"APPEND", "ID", "COPY", "UID MOVE", "STORE"}

// TestStringArguments: the commands whose arguments are astrings / strings / mailboxes / patterns / flags.
func TestStringArguments(t *testing.T) {
	ev.Checks(30000, 225000)
	rapid.Check(t, roundTrip(func(g *Gen) command.Command {
		return g.Named(rapid.SampledFrom(stringForms).Draw(g.T, "form"))
	}))
}

// TestPipelined: two to four commands on one connection and one parser; for each boundary the client either waits
// for the response or sends the next command right behind (so a chunk can span commands).
func TestPipelined(t *testing.T) {
	ev.Checks(15000, 110000)
	rapid.Check(t, func(t *rapid.T) {
		g := newGen(t)
		n := rapid.IntRange(2, 4).Draw(t, "commands")

		cmds := make([]command.Command, n)
		encs := make([]Encoded, n)
		wait := make([]bool, n)

		for i := range cmds {
			cmds[i] = g.Command()
			encs[i] = encode(t, cmds[i])
			wait[i] = rapid.Bool().Draw(t, "wait")
			record(cmds[i], encs[i])
		}

		if g.Excluded > 0 {
			ev.Excluded(g.Excluded)
		}

		chunks := drawChunks(t)
		res := Run(NewStream(encs, wait), chunks)

		for i := range cmds {
			verify(t, cmds[i], encs[i], chunks, res, i)
		}
	})
}

// FuzzRoundTrip drives the same property from coverage-guided byte strings.
func FuzzRoundTrip(f *testing.F) {
	for seed := uint64(1); seed <= 8; seed++ {
		f.Add(Expand(2048, seed, 1))
	}

	f.Fuzz(rapid.MakeFuzz(roundTrip(anyCommand)))
}
