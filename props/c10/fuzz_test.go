package c10

import (
	"bufio"
	"bytes"
	"hash/fnv"
	"io"
	"reflect"
	"regexp"
	"strings"
	"testing"
	"time"

	"github.com/ProtonMail/gluon/imap/command"
	"github.com/ProtonMail/gluon/rfcparser"
)

// inDomain tells whether a payload that came out of the parser can be written as a valid RFC 3501 command by the
// encoder (the parser also accepts things outside the grammar: numbers beyond 32 bit, NUL bytes, day 0, zone +9999,
// atoms with '{' ...; those are C11 / C16 matters, not C10's).
func inDomain(c command.Command) bool {
	if _, done := c.Payload.(*command.Done); !done {
		if len(c.Tag) == 0 || !all(c.Tag, &isTagChar) || strings.EqualFold(c.Tag, "done") {
			return false
		}
	}

	flagOK := func(f string) bool {
		if strings.HasPrefix(f, `\`) {
			return IsAtom(f[1:]) && !strings.EqualFold(f, `\Recent`)
		}

		return IsAtom(f)
	}

	ok := true

	var walk func(v reflect.Value)
	walk = func(v reflect.Value) {
		if !ok || !v.IsValid() {
			return
		}

		if v.Type() == timeType {
			t := v.Interface().(time.Time)
			_, off := t.Zone()

			if t.Year() < 0 || t.Year() > 9999 || off <= -100*3600 || off >= 100*3600 || off%60 != 0 {
				ok = false
			}

			return
		}

		switch x := v.Interface().(type) {
		case *command.Store:
			for _, f := range x.Flags {
				ok = ok && flagOK(f)
			}
		case *command.Append:
			for _, f := range x.Flags {
				ok = ok && flagOK(f)
			}
		case *command.List:
			ok = ok && !(avoid().ListLiteral && !IsQuotable(x.ListMailbox)) // F-C10c: only a literal could carry it
		case *command.LSub:
			ok = ok && !(avoid().ListLiteral && !IsQuotable(x.LSubMailbox))
		case *command.SearchKeyKeyword:
			ok = ok && IsAtom(x.Value)
		case *command.SearchKeyUnkeyword:
			ok = ok && IsAtom(x.Value)
		}

		switch v.Kind() {
		case reflect.Ptr, reflect.Interface:
			if !v.IsNil() {
				walk(v.Elem())
			}
		case reflect.Struct:
			for i := 0; i < v.NumField(); i++ {
				walk(v.Field(i))
			}
		case reflect.Slice:
			if v.Type().Elem().Kind() == reflect.Uint8 {
				ok = ok && !bytes.Contains(v.Bytes(), []byte{0})

				return
			}

			for i := 0; i < v.Len(); i++ {
				walk(v.Index(i))
			}
		case reflect.Map:
			for _, k := range v.MapKeys() {
				walk(k)
				walk(v.MapIndex(k))
			}
		case reflect.String:
			ok = ok && IsLiteralable(v.String())
		case reflect.Int, reflect.Int64:
			ok = ok && v.Int() >= 0 && v.Int() <= 4294967295
		}
	}

	walk(reflect.ValueOf(c.Payload))

	return ok
}

var hugeLiteral = regexp.MustCompile(`\{[0-9]{6,}`)

// FuzzReparse goes the other way round: arbitrary bytes; whatever the parser accepts (and the grammar can express)
// is written out again by the encoder - canonically and with pseudo-random choices derived from the input - and
// must parse to the same command. It reaches accepted inputs which the generator does not produce.
func FuzzReparse(f *testing.F) {
	for _, s := range []string{
		"A654 FETCH 2:4 (FLAGS BODY[HEADER.FIELDS (DATE FROM)])\r\n",
		"A655 FETCH 1 BODY.PEEK[4.2.2.1.MIME]<0.2048>\r\n",
		"A285 SEARCH OR (2:4 DELETED) UID 7:*,*:3 HEADER X-Y \"\"\r\n",
		"A284 SEARCH CHARSET UTF-8 TEXT {6}\r\nXXXXXX\r\n",
		"A282 SEARCH FLAGGED SINCE 1-Feb-1994 NOT FROM \"Smith\"\r\n",
		"A003 APPEND saved-messages (\\Seen) \" 7-Feb-1994 21:52:25 -0800\" {5}\r\nhello\r\n",
		"A003 STORE 2:4 +FLAGS.SILENT (\\Deleted $x)\r\n",
		"a023 ID (\"name\" \"sodr\" \"vendor\" NIL)\r\n",
		"a LOGIN {1}\r\nu \"p\\\"w\"\r\n",
		"a UID MOVE 42:69 foo\r\n", "a LIST \"\" %\r\n", "a STATUS x (UNSEEN)\r\n", "DONE\r\n", "a UID EXPUNGE 1\r\n", "a ID NIL\r\n",
	} {
		f.Add([]byte(s))
	}

	f.Fuzz(func(t *testing.T, data []byte) {
		if hugeLiteral.Match(data) {
			return
		}

		// the input is followed by padding that ends every construct: an EOF inside a quoted string makes the parser
		// spin for ever (C11's finding). Inputs that are not complete commands (the parser read into the padding) are dropped.
		collector := command.NewInputCollector(bufio.NewReader(io.MultiReader(bytes.NewReader(data), &Pad{})))

		first, err := command.NewParser(rfcparser.NewScannerWithReader(collector)).Parse()
		if err != nil || first.Payload == nil || len(collector.Bytes()) > len(data) || !inDomain(first) {
			return
		}

		h := fnv.New64a()
		_, _ = h.Write(data)

		for _, src := range []Src{FixedSrc{}, &XorSrc{X: h.Sum64() | 1}} {
			enc, _ := Encode(src, first, avoid())
			chunks := []int{src.Intn(9, "chunk"), 1 + src.Intn(40, "chunk")}

			if msg := Check(first, enc, chunks, Run(NewStream([]Encoded{enc}, nil), chunks), 0); msg != "" {
				t.Fatalf("accepted input %s\nparsed as %s\nbut its valid writing does not parse back: %s", Clip(data), Dump(first.Payload), msg)
			}
		}
	})
}
