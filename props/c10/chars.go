// Package c10 holds the grammar-based generator, the encoder and the parse harness of property C10
// ("every valid IMAP command parses to exactly the command that was written"). The non-test files are importable
// (C11 builds its structure-aware mutations on top of the same generator and encoder).
package c10

import "strings"

// Character classes of RFC 3501 section 9 (formal syntax). These are the RFC's classes, not gluon's.
//
//	CHAR            = %x01-7F
//	CHAR8           = %x01-ff
//	TEXT-CHAR       = <any CHAR except CR and LF>
//	atom-specials   = "(" / ")" / "{" / SP / CTL / list-wildcards / quoted-specials / resp-specials
//	ATOM-CHAR       = <any CHAR except atom-specials>
//	ASTRING-CHAR    = ATOM-CHAR / resp-specials
//	list-char       = ATOM-CHAR / list-wildcards / resp-specials
//	tag             = 1*<any ASTRING-CHAR except "+">
var (
	isAtomChar    [256]bool
	isAStringChar [256]bool
	isListChar    [256]bool
	isTagChar     [256]bool
	isTextChar    [256]bool // legal inside a quoted string (quoted-specials need the backslash)
)

// Alphabets for drawing (strings of all members of a class).
var (
	atomAlphabet    string
	astringAlphabet string
	listAlphabet    string
	tagAlphabet     string
)

func init() {
	for b := 0x21; b <= 0x7e; b++ {
		isAtomChar[b] = !strings.ContainsRune("(){%*\"\\]", rune(b))
		isAStringChar[b] = isAtomChar[b] || b == ']'
		isListChar[b] = isAStringChar[b] || b == '%' || b == '*'
		isTagChar[b] = isAStringChar[b] && b != '+'
	}

	for b := 0x01; b <= 0x7f; b++ {
		isTextChar[b] = b != '\r' && b != '\n'
	}

	for b := 0; b < 256; b++ {
		if isAtomChar[b] {
			atomAlphabet += string(rune(b))
		}

		if isAStringChar[b] {
			astringAlphabet += string(rune(b))
		}

		if isListChar[b] {
			listAlphabet += string(rune(b))
		}

		if isTagChar[b] {
			tagAlphabet += string(rune(b))
		}
	}
}

func all(s string, class *[256]bool) bool {
	for i := 0; i < len(s); i++ {
		if !class[s[i]] {
			return false
		}
	}

	return true
}

// IsAtom tells whether s is an RFC 3501 atom.
func IsAtom(s string) bool { return len(s) > 0 && all(s, &isAtomChar) }

// IsAStringAtom tells whether s can be written as the unquoted form of an astring.
func IsAStringAtom(s string) bool { return len(s) > 0 && all(s, &isAStringChar) }

// IsListAtom tells whether s can be written as the unquoted form of a list-mailbox.
func IsListAtom(s string) bool { return len(s) > 0 && all(s, &isListChar) }

// IsQuotable tells whether s can be written as a quoted string.
func IsQuotable(s string) bool { return all(s, &isTextChar) }

// IsLiteralable tells whether s can be written as a literal (CHAR8: no NUL).
func IsLiteralable(s string) bool { return !strings.Contains(s, "\x00") }
