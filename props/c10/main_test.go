package c10

import (
	"testing"

	"verif/internal/ev"
)

const rule = "command contains >= 1 literal-encoded argument, or a search-key tree of depth >= 3, or a body section with a partial"

func TestMain(m *testing.M) {
	ev.Main(m, "C10", "exploration", rule)
}
