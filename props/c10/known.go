package c10

// Known findings of C10 (ids of /verif/known_findings.json). While an id is listed, the generator and the encoder
// steer away from its region and count the cases (excluded_known); TestKnown_<id> keeps the minimal input under watch.
const (
	// FindingLBracket: rfcparser.IsAtomChar treats '[' as an atom-special (RFC 3501: atom-specials are
	// ( ) { SP CTL % * " \ ] - '[' is an ATOM-CHAR), so a tag, flag keyword, astring or list-mailbox that contains '['
	// and is written without quotes is rejected.
	FindingLBracket = "F-C10a"
	// FindingEmptyLiteral: rfcparser.ParseLiteral rejects {0} ("invalid literal size"); RFC 3501: literal = "{" number "}" CRLF *CHAR8.
	FindingEmptyLiteral = "F-C10b"
	// FindingListLiteral: command.parseListMailbox tries the unquoted form first and '{' counts as a list-char
	// (IsAtomChar omits '{' from the atom-specials), so a list-mailbox written as a literal is taken as the atom "{n}":
	// no continuation request is sent and the literal's bytes are read as the next command.
	FindingListLiteral = "F-C10c"
)

// Avoid holds the switches of the listed known findings.
type Avoid struct {
	LBracket     bool // F-C10a: never write a value containing '[' as a bare atom
	EmptyLiteral bool // F-C10b: never write {0}
	ListLiteral  bool // F-C10c: never write a list-mailbox as a literal
}
