package c10

import (
	"strings"
	"time"

	"github.com/ProtonMail/gluon/imap/command"
	"pgregory.net/rapid"
)

// Gen draws command ASTs (command.Command values whose payloads are gluon's own payload structs) from the grammar
// of RFC 3501 (+ RFC 2971 ID, RFC 4315 UID EXPUNGE, RFC 6851 MOVE, RFC 2177 IDLE/DONE, RFC 3691 UNSELECT) restricted
// to the commands gluon's parser knows. Every choice is a rapid draw.
type Gen struct {
	T *rapid.T

	MaxDepth   int // maximum depth of a search-key tree (leaf = 1)
	MaxSet     int // maximum number of members of a sequence set
	MaxLiteral int // maximum size of an APPEND body

	// switches of listed known findings (see known.go); when set, the region is avoided and Excluded counts it
	Avoid    Avoid
	Excluded int

	budget int // remaining node budget of the search tree being drawn
}

// NewGen returns a generator with the default bounds.
func NewGen(t *rapid.T) *Gen {
	return &Gen{T: t, MaxDepth: 6, MaxSet: 50, MaxLiteral: 20000}
}

func (g *Gen) n(label string, lo, hi int) int { return rapid.IntRange(lo, hi).Draw(g.T, label) }

func (g *Gen) chance(label string, num, den int) bool { return g.n(label, 0, den-1) < num }

func pick[T any](g *Gen, label string, xs []T) T { return xs[g.n(label, 0, len(xs)-1)] }

func bytesOf(alphabet string, lo, hi int) *rapid.Generator[[]byte] {
	return rapid.SliceOfN(rapid.SampledFrom([]byte(alphabet)), lo, hi)
}

const (
	letters  = "abcdefghijklmnopqrstuvwxyzABCDEFGHIJKLMNOPQRSTUVWXYZ"
	digits   = "0123456789"
	wordish  = letters + digits + "-_."
	spacey   = letters + digits + "      .,:;-_()[]{}%*<>@!?/+=#'"
	ctlChars = "\x01\x02\x07\x08\t\x0b\x0c\x0e\x1b\x1f\x7f"
)

var (
	genWord = bytesOf(wordish, 1, 10)
	// set in init (they need the class tables of chars.go)
	genAtom, genAStringAtm, genListAtom, genTagChars *rapid.Generator[[]byte]

	genSpacey   = bytesOf(spacey, 1, 24)
	genQSpecial = bytesOf(letters+"\"\"\"\\\\\\ ", 1, 12)
	genCRLF     = bytesOf("ab \r\n\r\n", 1, 10)
	genCtl      = bytesOf(letters+ctlChars+" ", 1, 10)
	genChar8    = rapid.SliceOfN(rapid.ByteRange(1, 255), 0, 24)
	genUTF8     = rapid.SampledFrom([]string{"héllo", "wörld ☃", "日本語", "Ünïcödé mailbox", "\xff\xfe", "naïve café", " ", "é"})
)

func init() {
	genAtom = bytesOf(atomAlphabet, 1, 10)
	genAStringAtm = bytesOf(astringAlphabet, 1, 10)
	genListAtom = bytesOf(listAlphabet, 1, 10)
	genTagChars = bytesOf(tagAlphabet, 1, 8)
}

// tricky strings: values that look like syntax
var tricky = []string{
	"NIL", "nil", "INBOX", "inbox", "{3}", "{3}\r\nabc", "{0}", "{1+}", "(", ")", "()", "*", "%", "]", "[", "[]", "\\", "\"",
	"\\\"", "\"\"", "\\Seen", "a b", "\r\n", "\r", "\n", " ", "  ", "+", "DONE", "done", "BODY[]", "BODY[TEXT]<0.1>", "1:*",
	"CHARSET", "charset", "CC", "OR", "NOT", "UID", "ALL", "1", "0", "4294967296", "a\\b", "a\"b", "~", "}", "{", "a]b", "a[b",
	"A1 NOOP\r\n", "x\r\nA2 LOGOUT", "&AOk-", "&", "user@example.com", "p@ss w0rd!", "\t",
}

// lbr applies the F-C10a switch to a value that will be written as a bare atom.
func (g *Gen) lbr(s string) string {
	if g.Avoid.LBracket && strings.Contains(s, "[") {
		g.Excluded++

		return strings.ReplaceAll(s, "[", "_")
	}

	return s
}

// Text draws an arbitrary string value (any CHAR8 bytes, including the empty string).
func (g *Gen) Text(label string) string {
	switch g.n(label+"-class", 0, 13) {
	case 0, 1, 2:
		return string(genAStringAtm.Draw(g.T, label))
	case 3:
		return string(genWord.Draw(g.T, label))
	case 4, 5:
		return string(genSpacey.Draw(g.T, label))
	case 6:
		return string(genQSpecial.Draw(g.T, label))
	case 7:
		return genUTF8.Draw(g.T, label)
	case 8:
		return string(genCRLF.Draw(g.T, label))
	case 9:
		return ""
	case 10:
		return pick(g, label, tricky)
	case 11:
		return string(genChar8.Draw(g.T, label))
	case 12:
		return string(genCtl.Draw(g.T, label))
	default:
		// long value, constructed from (size class, seed)
		size := pick(g, label+"-size", []int{65, 255, 256, 1000, 1023, 1024, 1025, 4095, 4096, 4097})
		return string(Expand(size, uint64(g.n(label+"-seed", 0, 1<<30)), g.n(label+"-kind", 0, 2)))
	}
}

// Expand builds size bytes from a seed: kind 0 = printable text, 1 = any CHAR8, 2 = message-like lines.
// It is a fixed function (xorshift), so a large value costs three draws.
func Expand(size int, seed uint64, kind int) []byte {
	x := seed*2685821657736338717 + 88172645463325252
	next := func() uint64 {
		x ^= x << 13
		x ^= x >> 7
		x ^= x << 17

		return x
	}

	out := make([]byte, size)

	for i := range out {
		r := next()

		switch kind {
		case 0:
			out[i] = byte(0x20 + r%0x5f)
		case 1:
			out[i] = byte(1 + r%255)
		default:
			switch {
			case i%64 == 62:
				out[i] = '\r'
			case i%64 == 63:
				out[i] = '\n'
			default:
				out[i] = byte(0x20 + r%0x5f)
			}
		}
	}

	return out
}

// Tag draws a tag: 1*<any ASTRING-CHAR except "+">. The tag "DONE" (any case) is not drawn: gluon's parser is
// stateless with respect to IDLE and reserves that word for the untagged DONE line.
func (g *Gen) Tag() string {
	var tag string

	switch g.n("tag-class", 0, 5) {
	case 0, 1:
		tag = pick(g, "tag", []string{"A001", "a1", "1", "tag", "A.1", "x-7", "0", "T", "abcd.efgh", "UID", "NOOP", "a]", "]"})
	case 2, 3:
		tag = string(bytesOf(letters+digits, 1, 6).Draw(g.T, "tag"))
	default:
		tag = string(genTagChars.Draw(g.T, "tag"))
	}

	if strings.EqualFold(tag, "done") {
		tag += "1"
	}

	return g.lbr(tag)
}

// Num draws a 32-bit number (nz: 1..2^32-1, otherwise 0..2^32-1).
func (g *Gen) Num(label string, nz bool) int {
	lo := 0
	if nz {
		lo = 1
	}

	switch g.n(label+"-class", 0, 5) {
	case 0, 1:
		return g.n(label, lo, 20)
	case 2:
		return g.n(label, lo, 70000)
	case 3:
		return pick(g, label, []int{1, 9, 10, 99, 100, 65535, 65536, 999999999, 1000000000, 2147483647, 2147483648, 4294967294, 4294967295})
	default:
		return g.n(label, lo, 4294967295)
	}
}

func (g *Gen) seqNum(label string) command.SeqNum {
	return command.SeqNum(g.Num(label, true))
}

func (g *Gen) seqRange() command.SeqRange {
	switch g.n("range-kind", 0, 10) {
	case 0, 1, 2, 3:
		n := g.seqNum("seq")
		return command.SeqRange{Begin: n, End: n}
	case 4:
		return command.SeqRange{Begin: command.SeqNumValueAsterisk, End: command.SeqNumValueAsterisk}
	case 5, 6, 7:
		return command.SeqRange{Begin: g.seqNum("seq-begin"), End: g.seqNum("seq-end")} // either order
	case 8, 9:
		return command.SeqRange{Begin: g.seqNum("seq-begin"), End: command.SeqNumValueAsterisk}
	default:
		return command.SeqRange{Begin: command.SeqNumValueAsterisk, End: g.seqNum("seq-end")}
	}
}

// SeqSet draws a sequence set: numbers 1..2^32-1, '*', ranges in either order, unions of up to MaxSet members.
func (g *Gen) SeqSet() []command.SeqRange {
	n := 1

	switch g.n("set-size-class", 0, 9) {
	case 6, 7:
		n = g.n("set-size", 2, 4)
	case 8:
		n = g.n("set-size", 5, 15)
	case 9:
		n = g.n("set-size", 16, g.MaxSet)
	}

	set := make([]command.SeqRange, n)
	for i := range set {
		set[i] = g.seqRange()
	}

	return set
}

func (g *Gen) civil() (int, time.Month, int) {
	var year int

	switch g.n("year-class", 0, 8) {
	case 7:
		year = g.n("year", 0, 9999)
	case 8:
		year = pick(g, "year", []int{0, 1, 99, 100, 999, 1000, 1582, 1900, 1969, 1970, 2000, 2038, 2100, 9999})
	default:
		year = g.n("year", 1990, 2035)
	}

	month := time.Month(g.n("month", 1, 12))
	last := time.Date(year, month+1, 0, 0, 0, 0, 0, time.UTC).Day()
	day := g.n("day", 1, last)

	return year, month, day
}

// Date draws a calendar day (the value of a search date: midnight UTC, as the parser builds it).
func (g *Gen) Date() time.Time {
	y, m, d := g.civil()

	return time.Date(y, m, d, 0, 0, 0, 0, time.UTC)
}

// DateTime draws a date-time with a zone of +-hhmm.
func (g *Gen) DateTime() time.Time {
	y, m, d := g.civil()
	hh, mm, ss := g.n("hour", 0, 23), g.n("min", 0, 59), g.n("sec", 0, 59)

	var zh, zm int

	switch g.n("zone-class", 0, 4) {
	case 0:
	case 1, 2:
		zh, zm = g.n("zone-h", 0, 14), pick(g, "zone-m", []int{0, 0, 30, 45})
	default:
		zh, zm = g.n("zone-h", 0, 23), g.n("zone-m", 0, 59)
	}

	off := zh*3600 + zm*60
	if g.chance("zone-neg", 1, 2) {
		off = -off
	}

	return time.Date(y, m, d, hh, mm, ss, 0, time.FixedZone("zone", off))
}

func (g *Gen) caseMix(label, s string) string {
	switch g.n(label+"-case", 0, 3) {
	case 0:
		return s
	case 1:
		return strings.ToLower(s)
	case 2:
		return strings.ToUpper(s)
	default:
		b := []byte(s)
		mask := g.n(label+"-mask", 0, 1<<16-1)

		for i := range b {
			if mask>>(i%16)&1 == 1 && (b[i] >= 'A' && b[i] <= 'Z' || b[i] >= 'a' && b[i] <= 'z') {
				b[i] ^= 0x20
			}
		}

		return string(b)
	}
}

var (
	systemFlags = []string{`\Seen`, `\Answered`, `\Flagged`, `\Deleted`, `\Draft`}
	keywords    = []string{"$Forwarded", "$MDNSent", "$Junk", "$NotJunk", "NonJunk", "Junk", "$Label1", "work", "todo", "a,b", "recent", "NIL", "x}"}
)

// Keyword draws a flag-keyword (an atom).
func (g *Gen) Keyword(label string) string {
	if g.chance(label+"-known", 1, 2) {
		return g.caseMix(label, pick(g, label, keywords))
	}

	return g.lbr(string(genAtom.Draw(g.T, label)))
}

// Flag draws a flag as it may be written in STORE / APPEND: a system flag (any letter case), a flag-extension or a
// keyword. "\Recent" is excluded by the grammar.
func (g *Gen) Flag() string {
	switch g.n("flag-class", 0, 9) {
	case 0, 1, 2, 3, 4:
		return g.caseMix("flag", pick(g, "flag", systemFlags))
	case 5:
		ext := g.lbr(string(genAtom.Draw(g.T, "flag-ext")))
		if strings.EqualFold(ext, "recent") {
			ext += "x"
		}

		return `\` + ext
	default:
		return g.Keyword("flag-keyword")
	}
}

func (g *Gen) flags(lo int) []string {
	n := lo

	switch g.n("flags-class", 0, 3) {
	case 1, 2:
		n = g.n("flags-n", lo, 3)
	case 3:
		n = g.n("flags-n", lo, 8)
	}

	if n == 0 {
		return nil
	}

	out := make([]string, n)
	for i := range out {
		out[i] = g.Flag()
	}

	return out
}

// Mailbox draws a mailbox name in its normalised form (any case variant of INBOX is "INBOX").
func (g *Gen) Mailbox(label string) string {
	var name string

	switch g.n(label+"-class", 0, 9) {
	case 0, 1:
		name = "INBOX"
	case 2, 3, 4:
		delim := pick(g, label+"-delim", []string{"/", ".", "/", "\\"})
		parts := make([]string, g.n(label+"-levels", 1, 4))

		for i := range parts {
			parts[i] = pick(g, label+"-part", []string{"INBOX", "Inbox", "Sent", "Sent Items", "Drafts", "Archive", "2024", "Folders", "Labels",
				"[Gmail]", "All Mail", "&AOk-t&AOk-", "a", "B", "x y", "Trash", "f%", "f*", "\"q\"", "né"})
		}

		name = strings.Join(parts, delim)
	case 5:
		// near misses of INBOX, incl. names that only a Unicode case mapping turns into it (U+0131 dotless i upper-cases
		// to I, U+0130 lower-cases to i + combining dot): only the ASCII spellings of INBOX are INBOX
		name = pick(g, label, []string{"", "inboxx", "INBO", "INBOX ", " INBOX", "INBOX/", "~user/mail", "#news.comp.mail", "#shared/x",
			"\u0131nbox", "\u0131NBOX", "\u0130NBOX", "\u0130nbox"})
	default:
		name = g.Text(label)
	}

	if strings.EqualFold(name, "INBOX") {
		name = "INBOX"
	}

	return name
}

// ListPattern draws the list-mailbox argument of LIST / LSUB.
func (g *Gen) ListPattern(label string) string {
	p := g.listPattern(label)
	if g.Avoid.ListLiteral && !IsQuotable(p) {
		// only a literal could carry this value
		g.Excluded++

		return "*"
	}

	return p
}

func (g *Gen) listPattern(label string) string {
	switch g.n(label+"-class", 0, 7) {
	case 0, 1:
		return pick(g, label, []string{"*", "%", "", "INBOX", "inbox", "%/%", "*/*", "INBOX/*", "INBOX.%", "Folders/%", "*Sent*", "[Gmail]/%", "%]", "a b/*"})
	case 2, 3:
		return string(genListAtom.Draw(g.T, label))
	case 4:
		return string(bytesOf(letters+"%*/. ", 1, 12).Draw(g.T, label))
	default:
		return g.Text(label)
	}
}

var headerNames = []string{"Subject", "From", "To", "Cc", "Bcc", "Date", "Message-ID", "In-Reply-To", "References", "Content-Type",
	"X-Custom-Header", "X-Pm-Internal-Id", "received", "DKIM-Signature", "List-Unsubscribe", "x"}

// HeaderName draws a header-fld-name (an astring).
func (g *Gen) HeaderName(label string) string {
	if g.chance(label+"-known", 3, 4) {
		return g.caseMix(label, pick(g, label, headerNames))
	}

	return g.Text(label)
}

// ---------------------------------------------------------------------------------------------------------------------
// search keys

var leafKinds = []string{
	"All", "Answered", "BCC", "Before", "Body", "CC", "Deleted", "Flagged", "From", "Keyword", "New", "Old", "On", "Recent", "Seen",
	"Since", "Subject", "Text", "To", "Unanswered", "Undeleted", "Unflagged", "Unkeyword", "Unseen", "Draft", "Header", "Larger",
	"SentBefore", "SentOn", "SentSince", "Smaller", "UID", "Undraft", "SeqSet",
}

func (g *Gen) leafKey() command.SearchKey {
	switch pick(g, "key-kind", leafKinds) {
	case "All":
		return &command.SearchKeyAll{}
	case "Answered":
		return &command.SearchKeyAnswered{}
	case "BCC":
		return &command.SearchKeyBCC{Value: g.Text("bcc")}
	case "Before":
		return &command.SearchKeyBefore{Value: g.Date()}
	case "Body":
		return &command.SearchKeyBody{Value: g.Text("body")}
	case "CC":
		return &command.SearchKeyCC{Value: g.Text("cc")}
	case "Deleted":
		return &command.SearchKeyDeleted{}
	case "Flagged":
		return &command.SearchKeyFlagged{}
	case "From":
		return &command.SearchKeyFrom{Value: g.Text("from")}
	case "Keyword":
		return &command.SearchKeyKeyword{Value: g.Keyword("keyword")}
	case "New":
		return &command.SearchKeyNew{}
	case "Old":
		return &command.SearchKeyOld{}
	case "On":
		return &command.SearchKeyOn{Value: g.Date()}
	case "Recent":
		return &command.SearchKeyRecent{}
	case "Seen":
		return &command.SearchKeySeen{}
	case "Since":
		return &command.SearchKeySince{Value: g.Date()}
	case "Subject":
		return &command.SearchKeySubject{Value: g.Text("subject")}
	case "Text":
		return &command.SearchKeyText{Value: g.Text("text")}
	case "To":
		return &command.SearchKeyTo{Value: g.Text("to")}
	case "Unanswered":
		return &command.SearchKeyUnanswered{}
	case "Undeleted":
		return &command.SearchKeyUndeleted{}
	case "Unflagged":
		return &command.SearchKeyUnflagged{}
	case "Unkeyword":
		return &command.SearchKeyUnkeyword{Value: g.Keyword("unkeyword")}
	case "Unseen":
		return &command.SearchKeyUnseen{}
	case "Draft":
		return &command.SearchKeyDraft{}
	case "Header":
		return &command.SearchKeyHeader{Field: g.HeaderName("header-field"), Value: g.Text("header-value")}
	case "Larger":
		return &command.SearchKeyLarger{Value: g.Num("larger", false)}
	case "SentBefore":
		return &command.SearchKeySentBefore{Value: g.Date()}
	case "SentOn":
		return &command.SearchKeySentOn{Value: g.Date()}
	case "SentSince":
		return &command.SearchKeySentSince{Value: g.Date()}
	case "Smaller":
		return &command.SearchKeySmaller{Value: g.Num("smaller", false)}
	case "UID":
		return &command.SearchKeyUID{SeqSet: g.SeqSet()}
	case "Undraft":
		return &command.SearchKeyUndraft{}
	default:
		return &command.SearchKeySeqSet{SeqSet: g.SeqSet()}
	}
}

// SearchKey draws a key of depth exactly `depth` if force is set, of depth <= depth otherwise.
func (g *Gen) SearchKey(depth int, force bool) command.SearchKey {
	g.budget--

	if depth <= 1 || (!force && (g.budget <= 0 || !g.chance("key-composite", 2, 5))) {
		return g.leafKey()
	}

	sub := func(force bool) command.SearchKey {
		if force {
			return g.SearchKey(depth-1, true)
		}

		return g.SearchKey(g.n("sub-depth", 1, depth-1), false)
	}

	switch g.n("composite-kind", 0, 2) {
	case 0:
		return &command.SearchKeyNot{Key: sub(force)}
	case 1:
		deepFirst := g.chance("or-deep-first", 1, 2)
		return &command.SearchKeyOr{Key1: sub(force && deepFirst), Key2: sub(force && !deepFirst)}
	default:
		n := g.n("list-len", 1, 4)
		deep := g.n("list-deep", 0, n-1)
		keys := make([]command.SearchKey, n)

		for i := range keys {
			keys[i] = sub(force && i == deep)
		}

		return &command.SearchKeyList{Keys: keys}
	}
}

// Search draws a SEARCH payload. minDepth > 0 forces a tree of at least that depth.
func (g *Gen) Search(minDepth int) *command.Search {
	g.budget = 40

	s := &command.Search{}

	if g.chance("charset", 1, 3) {
		if g.chance("charset-known", 4, 5) {
			s.Charset = g.caseMix("charset", pick(g, "charset", []string{"UTF-8", "US-ASCII", "ISO-8859-1", "utf8", "KOI8-R", "x", "UTF-7", "UTF-32", "ISO-2022-KR", "BOCU-1"}))
		} else {
			s.Charset = g.Text("charset")
		}
	}

	n := 1

	switch g.n("keys-class", 0, 3) {
	case 2:
		n = g.n("keys-n", 2, 3)
	case 3:
		n = g.n("keys-n", 2, 8)
	}

	deep := g.n("keys-deep", 0, n-1)
	s.Keys = make([]command.SearchKey, n)

	for i := range s.Keys {
		if minDepth > 0 && i == deep {
			s.Keys[i] = g.SearchKey(minDepth, true)
		} else {
			s.Keys[i] = g.SearchKey(g.n("key-depth", 1, g.MaxDepth), false)
		}
	}

	return s
}

// ---------------------------------------------------------------------------------------------------------------------
// fetch

func (g *Gen) headerList() []string {
	n := 1

	switch g.n("fields-class", 0, 3) {
	case 1, 2:
		n = g.n("fields-n", 1, 4)
	case 3:
		n = g.n("fields-n", 1, 12)
	}

	out := make([]string, n)
	for i := range out {
		out[i] = g.HeaderName("field")
	}

	return out
}

func (g *Gen) msgText(allowMIME bool) command.BodySection {
	hi := 4
	if allowMIME {
		hi = 5
	}

	switch g.n("section-text", 0, hi) {
	case 0:
		return &command.BodySectionHeader{}
	case 1:
		return &command.BodySectionText{}
	case 2, 3, 4:
		return &command.BodySectionHeaderFields{Negate: g.chance("fields-not", 1, 2), Fields: g.headerList()}
	default:
		return &command.BodySectionMIME{}
	}
}

// Section draws the section of BODY[...]: nil for the empty section.
func (g *Gen) Section() command.BodySection {
	switch g.n("section-kind", 0, 5) {
	case 0:
		return nil
	case 1, 2:
		return g.msgText(false)
	default:
		path := make([]int, g.n("part-levels", 1, 5))

		for i := range path {
			if g.chance("part-big", 1, 8) {
				path[i] = g.Num("part", true)
			} else {
				path[i] = g.n("part", 1, 12)
			}
		}

		part := &command.BodySectionPart{Part: path}
		if g.chance("part-text", 2, 3) {
			part.Section = g.msgText(true)
		}

		return part
	}
}

var simpleAttrs = []func() command.FetchAttribute{
	func() command.FetchAttribute { return &command.FetchAttributeEnvelope{} },
	func() command.FetchAttribute { return &command.FetchAttributeFlags{} },
	func() command.FetchAttribute { return &command.FetchAttributeInternalDate{} },
	func() command.FetchAttribute { return &command.FetchAttributeRFC822{} },
	func() command.FetchAttribute { return &command.FetchAttributeRFC822Header{} },
	func() command.FetchAttribute { return &command.FetchAttributeRFC822Size{} },
	func() command.FetchAttribute { return &command.FetchAttributeRFC822Text{} },
	func() command.FetchAttribute { return &command.FetchAttributeBody{} },
	func() command.FetchAttribute { return &command.FetchAttributeBodyStructure{} },
	func() command.FetchAttribute { return &command.FetchAttributeUID{} },
}

func (g *Gen) fetchAttr() command.FetchAttribute {
	if g.chance("attr-section", 2, 5) {
		att := &command.FetchAttributeBodySection{Peek: g.chance("peek", 1, 2), Section: g.Section()}
		if g.chance("partial", 2, 5) {
			att.Partial = &command.BodySectionPartial{Offset: int64(g.Num("partial-offset", false)), Count: int64(g.Num("partial-count", true))}
		}

		return att
	}

	return pick(g, "attr", simpleAttrs)()
}

// Fetch draws a FETCH payload: a macro, one attribute, or a list of attributes.
func (g *Gen) Fetch() *command.Fetch {
	f := &command.Fetch{SeqSet: g.SeqSet()}

	switch g.n("fetch-class", 0, 9) {
	case 0:
		f.Attributes = []command.FetchAttribute{pick(g, "macro", []func() command.FetchAttribute{
			func() command.FetchAttribute { return &command.FetchAttributeAll{} },
			func() command.FetchAttribute { return &command.FetchAttributeFull{} },
			func() command.FetchAttribute { return &command.FetchAttributeFast{} },
		})()}
	case 1, 2, 3:
		f.Attributes = []command.FetchAttribute{g.fetchAttr()}
	default:
		f.Attributes = make([]command.FetchAttribute, g.n("attrs-n", 1, 8))
		for i := range f.Attributes {
			f.Attributes[i] = g.fetchAttr()
		}
	}

	return f
}

// ---------------------------------------------------------------------------------------------------------------------
// the other commands

func (g *Gen) Store() *command.Store {
	s := &command.Store{
		SeqSet: g.SeqSet(),
		Action: pick(g, "store-action", []command.StoreAction{command.StoreActionAddFlags, command.StoreActionRemFlags, command.StoreActionSetFlags}),
		Silent: g.chance("silent", 1, 2),
	}
	s.Flags = g.flags(0)

	return s
}

func (g *Gen) Status() *command.Status {
	atts := make([]command.StatusAttribute, g.n("status-n", 1, 6))
	for i := range atts {
		atts[i] = command.StatusAttribute(g.n("status-att", 0, 4))
	}

	return &command.Status{Mailbox: g.Mailbox("mailbox"), Attributes: atts}
}

func (g *Gen) Append() *command.Append {
	a := &command.Append{Mailbox: g.Mailbox("mailbox")}

	if g.chance("append-flags", 1, 2) {
		a.Flags = g.flags(0)
	}

	if g.chance("append-date", 1, 2) {
		a.DateTime = g.DateTime()
	}

	switch g.n("body-class", 0, 7) {
	case 0, 1, 2:
		a.Literal = []byte(pick(g, "body", []string{
			"From: a@b.c\r\nSubject: hi\r\n\r\nbody\r\n",
			"To: x@y\r\nDate: Mon, 7 Feb 1994 21:52:25 -0800\r\n\r\n",
			"x", "\r\n", "\r\n\r\n", "A2 NOOP\r\n", "{5}\r\nabcde", ")", "\"", " ",
			// header values the message parsers stumble over: a comment / quoted string / group / bracket that is never
			// closed, in fields the APPEND validation and the envelope builder read
			"From: a@b.c (unfinished\r\nDate: Mon, 7 Feb 1994 21:52:25 -0800 (PST)\r\n\r\nx\r\n", "From: a@b.c\r\nDate: Mon, 7 Feb 1994 21:52:25 -0800 (PST)\r\nTo: other@example.com (unfinished\r\n\r\nx\r\n", "From: \"never closed <a@b.c>\r\nDate: Mon, 7 Feb 1994 21:52:25 -0800 (PST)\r\n\r\n",
			"From: a@b.c\r\nDate: Mon, 7 Feb 1994 21:52:25 -0800 (PST)\r\nCc: group: x@y, z@w\r\n\r\n", "From: <a@b.c\r\nDate: Mon, 7 Feb 1994 21:52:25 -0800 (PST)\r\nSender: ((((((\r\n\r\n", "From: a@b.c\r\nDate: Mon, 7 Feb 1994 21:52:25 -0800 (PST)\r\nReply-To: a@[1.2.3\r\nDate: (((\r\n\r\n",
			"From: a@b.c\r\nDate: Mon, 7 Feb 1994 21:52:25 -0800 (PST)\r\nContent-Type: multipart/mixed; boundary=\"\r\n\r\n--\r\n", "From: a@b.c\r\nDate: Mon, 7 Feb 1994 21:52:25 -0800 (PST)\r\nContent-Type: message/rfc822\r\n\r\nTo: x (y\r\n",
		}))
	case 3, 4:
		a.Literal = rapid.SliceOfN(rapid.ByteRange(1, 255), 1, 48).Draw(g.T, "body")
	case 5:
		if g.Avoid.EmptyLiteral {
			g.Excluded++
			a.Literal = []byte("x")
		} else {
			a.Literal = []byte{}
		}
	default:
		sizes := []int{100, 1000, 4094, 4095, 4096, 4097, 8192, 8193, g.MaxLiteral}
		a.Literal = Expand(pick(g, "body-size", sizes), uint64(g.n("body-seed", 0, 1<<30)), g.n("body-kind", 0, 2))
	}

	return a
}

// ID draws the ID command: NIL, or a list of up to 30 pairs with distinct field names (RFC 2971 forbids repeats).
func (g *Gen) ID() command.Payload {
	if g.chance("id-nil", 1, 5) {
		return &command.IDGet{}
	}

	n := 0

	switch g.n("id-class", 0, 4) {
	case 1, 2, 3:
		n = g.n("id-n", 1, 4)
	case 4:
		n = g.n("id-n", 5, 30)
	}

	values := map[string]string{}
	seen := map[string]bool{}

	for i := 0; i < n; i++ {
		var key string
		if g.chance("id-key-known", 2, 3) {
			key = pick(g, "id-key", []string{"name", "version", "os", "os-version", "vendor", "support-url", "address", "date", "command", "arguments", "environment"})
		} else {
			key = g.Text("id-key")
			if len(key) > 30 {
				key = key[:30]
			}
		}

		if seen[strings.ToLower(key)] {
			continue
		}

		seen[strings.ToLower(key)] = true

		if g.chance("id-value-empty", 1, 4) {
			values[key] = "" // written as NIL or as an empty string (encoder's choice)
		} else {
			v := g.Text("id-value")
			if len(v) > 1024 {
				v = v[:1024]
			}

			values[key] = v
		}
	}

	return &command.IDSet{Values: values}
}

// CommandNames lists every command form the parser supports (34 forms).
var CommandNames = []string{
	"CAPABILITY", "NOOP", "LOGOUT", "STARTTLS", "CHECK", "CLOSE", "EXPUNGE", "UNSELECT", "IDLE", "DONE",
	"LOGIN", "SELECT", "EXAMINE", "CREATE", "DELETE", "RENAME", "SUBSCRIBE", "UNSUBSCRIBE", "LIST", "LSUB", "STATUS", "APPEND", "ID",
	"FETCH", "STORE", "COPY", "MOVE", "SEARCH", "UID FETCH", "UID STORE", "UID COPY", "UID MOVE", "UID SEARCH", "UID EXPUNGE",
}

var weighted = func() []string {
	w := map[string]int{"FETCH": 5, "UID FETCH": 4, "SEARCH": 5, "UID SEARCH": 4, "STORE": 3, "UID STORE": 2, "APPEND": 4, "LOGIN": 3,
		"LIST": 3, "LSUB": 2, "STATUS": 2, "ID": 3, "RENAME": 2, "COPY": 2, "SELECT": 2, "CREATE": 2}

	var out []string

	for _, n := range CommandNames {
		k := w[n]
		if k == 0 {
			k = 1
		}

		for i := 0; i < k; i++ {
			out = append(out, n)
		}
	}

	return out
}()

// Payload draws the payload of the named command form.
func (g *Gen) Payload(name string) command.Payload {
	switch name {
	case "CAPABILITY":
		return &command.Capability{}
	case "NOOP":
		return &command.Noop{}
	case "LOGOUT":
		return &command.Logout{}
	case "STARTTLS":
		return &command.StartTLS{}
	case "CHECK":
		return &command.Check{}
	case "CLOSE":
		return &command.Close{}
	case "EXPUNGE":
		return &command.Expunge{}
	case "UNSELECT":
		return &command.Unselect{}
	case "IDLE":
		return &command.Idle{}
	case "DONE":
		return &command.Done{}
	case "LOGIN":
		return &command.Login{UserID: g.Text("user"), Password: g.Text("password")}
	case "SELECT":
		return &command.Select{Mailbox: g.Mailbox("mailbox")}
	case "EXAMINE":
		return &command.Examine{Mailbox: g.Mailbox("mailbox")}
	case "CREATE":
		return &command.Create{Mailbox: g.Mailbox("mailbox")}
	case "DELETE":
		return &command.Delete{Mailbox: g.Mailbox("mailbox")}
	case "RENAME":
		return &command.Rename{From: g.Mailbox("from"), To: g.Mailbox("to")}
	case "SUBSCRIBE":
		return &command.Subscribe{Mailbox: g.Mailbox("mailbox")}
	case "UNSUBSCRIBE":
		return &command.Unsubscribe{Mailbox: g.Mailbox("mailbox")}
	case "LIST":
		return &command.List{Mailbox: g.Mailbox("reference"), ListMailbox: g.ListPattern("pattern")}
	case "LSUB":
		return &command.LSub{Mailbox: g.Mailbox("reference"), LSubMailbox: g.ListPattern("pattern")}
	case "STATUS":
		return g.Status()
	case "APPEND":
		return g.Append()
	case "ID":
		return g.ID()
	case "FETCH":
		return g.Fetch()
	case "STORE":
		return g.Store()
	case "COPY":
		return &command.Copy{SeqSet: g.SeqSet(), Mailbox: g.Mailbox("mailbox")}
	case "MOVE":
		return &command.Move{SeqSet: g.SeqSet(), Mailbox: g.Mailbox("mailbox")}
	case "SEARCH":
		return g.Search(0)
	case "UID FETCH":
		return &command.UID{Command: g.Fetch()}
	case "UID STORE":
		return &command.UID{Command: g.Store()}
	case "UID COPY":
		return &command.UID{Command: &command.Copy{SeqSet: g.SeqSet(), Mailbox: g.Mailbox("mailbox")}}
	case "UID MOVE":
		return &command.UID{Command: &command.Move{SeqSet: g.SeqSet(), Mailbox: g.Mailbox("mailbox")}}
	case "UID SEARCH":
		return &command.UID{Command: g.Search(0)}
	case "UID EXPUNGE":
		return &command.UIDExpunge{SeqSet: g.SeqSet()}
	}

	panic("c10: unknown command form " + name)
}

// Named draws a whole command of the given form.
func (g *Gen) Named(name string) command.Command {
	p := g.Payload(name)
	if _, done := p.(*command.Done); done {
		return command.Command{Payload: p} // DONE carries no tag
	}

	return command.Command{Tag: g.Tag(), Payload: p}
}

// Command draws a command of any supported form (forms with a rich grammar are drawn more often).
func (g *Gen) Command() command.Command {
	return g.Named(pick(g, "command", weighted))
}
