package c10

import (
	"fmt"
	"sort"
	"strconv"
	"strings"
	"time"

	"github.com/ProtonMail/gluon/imap/command"
	"pgregory.net/rapid"
)

// Src is the source of the encoder's choices.
type Src interface {
	// Intn returns a value in [0, n).
	Intn(n int, label string) int
}

// RapidSrc draws the encoder's choices from rapid.
type RapidSrc struct{ T *rapid.T }

func (r RapidSrc) Intn(n int, label string) int {
	if n <= 1 {
		return 0
	}

	return rapid.IntRange(0, n-1).Draw(r.T, label)
}

// FixedSrc always takes choice 0: the canonical encoding (upper-case keywords, atom where legal, else quoted, else literal).
type FixedSrc struct{}

func (FixedSrc) Intn(int, string) int { return 0 }

// XorSrc is a deterministic pseudo-random source (for the native fuzz target, where the choices are a function of the input).
type XorSrc struct{ X uint64 }

func (s *XorSrc) Intn(n int, _ string) int {
	if n <= 1 {
		return 0
	}

	s.X ^= s.X << 13
	s.X ^= s.X >> 7
	s.X ^= s.X << 17

	return int(s.X % uint64(n))
}

// Encoded is one command written out as bytes.
type Encoded struct {
	Bytes []byte
	Gates []int // offsets just behind the CRLF of each literal header: the client waits there for the continuation
	// how the string arguments were written
	Atoms, Quoted, Literals int
}

// Enc turns a command AST into bytes. Independently per token it chooses the letter case of keywords, the form of
// each string (atom / quoted / literal) and between equivalent spellings (n vs n:n, leading zeros of a number,
// one or two digit days, quoted or bare dates, NIL or "" ...).
type Enc struct {
	S Src

	Avoid    Avoid // switches of the listed known findings
	Excluded int

	out Encoded
}

// Encode writes one command.
func Encode(s Src, c command.Command, avoid Avoid) (Encoded, int) {
	e := &Enc{S: s, Avoid: avoid}
	e.command(c)

	return e.out, e.Excluded
}

func (e *Enc) raw(s string)    { e.out.Bytes = append(e.out.Bytes, s...) }
func (e *Enc) sp()             { e.out.Bytes = append(e.out.Bytes, ' ') }
func (e *Enc) crlf()           { e.out.Bytes = append(e.out.Bytes, '\r', '\n') }
func (e *Enc) n(k int) int     { return e.S.Intn(k, "enc") }
func (e *Enc) coin() bool      { return e.S.Intn(2, "enc") == 1 }
func isLetter(b byte) bool     { return b >= 'A' && b <= 'Z' || b >= 'a' && b <= 'z' }
func (e *Enc) rare(k int) bool { return e.S.Intn(k, "enc") == k-1 }

// kw writes a keyword (given in upper case) with a drawn letter case.
func (e *Enc) kw(s string) {
	switch e.S.Intn(4, "kw-case") {
	case 0:
		e.raw(s)
	case 1:
		e.raw(strings.ToLower(s))
	default:
		mask := e.S.Intn(1<<16, "kw-mask")
		b := []byte(s)

		for i := range b {
			if mask>>(i%16)&1 == 1 && isLetter(b[i]) {
				b[i] ^= 0x20
			}
		}

		e.out.Bytes = append(e.out.Bytes, b...)
	}
}

// foldCase rewrites the letters of s with a drawn case (for INBOX, which the parser folds).
func (e *Enc) foldCase(s string) string {
	start := len(e.out.Bytes)
	e.kw(strings.ToUpper(s))
	v := string(e.out.Bytes[start:])
	e.out.Bytes = e.out.Bytes[:start]

	return v
}

// number writes a number; `number` of the RFC admits leading zeros, nz-number does not.
func (e *Enc) number(v int, leadingZeros bool) {
	if leadingZeros && e.rare(8) {
		e.raw(strings.Repeat("0", 1+e.n(3)))
	}

	e.raw(strconv.Itoa(v))
}

func (e *Enc) quoted(s string) {
	e.out.Quoted++
	e.out.Bytes = append(e.out.Bytes, '"')

	for i := 0; i < len(s); i++ {
		if s[i] == '"' || s[i] == '\\' {
			e.out.Bytes = append(e.out.Bytes, '\\')
		}

		e.out.Bytes = append(e.out.Bytes, s[i])
	}

	e.out.Bytes = append(e.out.Bytes, '"')
}

func (e *Enc) literal(s string) {
	e.out.Literals++
	e.raw("{")
	e.number(len(s), true)
	e.raw("}\r\n")
	e.out.Gates = append(e.out.Gates, len(e.out.Bytes))
	e.raw(s)
}

type strCtx int

const (
	ctxAString strCtx = iota // atom form: 1*ASTRING-CHAR
	ctxList                  // atom form: 1*list-char
	ctxString                // no atom form (string = quoted / literal)
)

// str writes a string argument in one of its legal forms.
func (e *Enc) str(s string, ctx strCtx) {
	const (
		fAtom = iota
		fQuoted
		fLiteral
	)

	var forms []int

	if ctx == ctxAString && IsAStringAtom(s) || ctx == ctxList && IsListAtom(s) {
		forms = append(forms, fAtom, fAtom)
	}

	if IsQuotable(s) {
		forms = append(forms, fQuoted, fQuoted)
	}

	if IsLiteralable(s) {
		forms = append(forms, fLiteral)
		if len(s) > 0 {
			forms = append(forms, fLiteral)
		}
	}

	if len(forms) == 0 {
		panic(fmt.Sprintf("c10: value %q has no legal encoding", s))
	}

	form := forms[e.S.Intn(len(forms), "string-form")]

	// listed known findings: steer away (every value concerned is quotable; Gen.ListPattern sees to that for F-C10c)
	if form == fAtom && e.Avoid.LBracket && strings.Contains(s, "[") || form == fLiteral && e.Avoid.EmptyLiteral && len(s) == 0 ||
		form == fLiteral && e.Avoid.ListLiteral && ctx == ctxList && IsQuotable(s) {
		e.Excluded++
		form = fQuoted
	}

	switch form {
	case fAtom:
		e.out.Atoms++
		e.raw(s)
	case fQuoted:
		e.quoted(s)
	default:
		e.literal(s)
	}
}

func (e *Enc) astring(s string) { e.str(s, ctxAString) }

// mailbox writes a mailbox name; "INBOX" is written in a drawn letter case.
func (e *Enc) mailbox(s string) {
	if s == "INBOX" {
		s = e.foldCase(s)
	}

	e.astring(s)
}

func (e *Enc) seqNum(n command.SeqNum) {
	if n.IsAsterisk() {
		e.raw("*")
	} else {
		e.number(int(n), false)
	}
}

func (e *Enc) seqSet(set []command.SeqRange) {
	for i, r := range set {
		if i > 0 {
			e.raw(",")
		}

		e.seqNum(r.Begin)

		if r.Begin != r.End || e.rare(4) { // n and n:n are the same member
			e.raw(":")
			e.seqNum(r.End)
		}
	}
}

var months = []string{"", "JAN", "FEB", "MAR", "APR", "MAY", "JUN", "JUL", "AUG", "SEP", "OCT", "NOV", "DEC"}

// date writes a search date: date-day is 1*2DIGIT, the whole may be quoted.
func (e *Enc) date(t time.Time) {
	y, m, d := t.Date()
	q := e.coin()

	if q {
		e.raw(`"`)
	}

	if d < 10 && e.coin() {
		e.raw("0")
	}

	e.raw(strconv.Itoa(d))
	e.raw("-")
	e.kw(months[m])
	e.raw("-")
	e.raw(fmt.Sprintf("%04d", y))

	if q {
		e.raw(`"`)
	}
}

// dateTime writes a date-time: date-day-fixed is (SP DIGIT) / 2DIGIT.
func (e *Enc) dateTime(t time.Time) {
	y, m, d := t.Date()
	hh, mm, ss := t.Clock()
	_, off := t.Zone()

	e.raw(`"`)

	if d < 10 {
		if e.coin() {
			e.raw(" ")
		} else {
			e.raw("0")
		}
	}

	e.raw(strconv.Itoa(d))
	e.raw("-")
	e.kw(months[m])
	e.raw(fmt.Sprintf("-%04d %02d:%02d:%02d ", y, hh, mm, ss))

	sign := "+"

	if off < 0 || off == 0 && e.rare(4) {
		sign, off = "-", -off
	}

	e.raw(fmt.Sprintf("%s%02d%02d\"", sign, off/3600, off%3600/60))
}

func (e *Enc) flagList(flags []string) {
	e.raw("(")
	e.raw(strings.Join(flags, " "))
	e.raw(")")
}

func (e *Enc) section(s command.BodySection) {
	switch s := s.(type) {
	case nil:
	case *command.BodySectionHeader:
		e.kw("HEADER")
	case *command.BodySectionText:
		e.kw("TEXT")
	case *command.BodySectionMIME:
		e.kw("MIME")
	case *command.BodySectionHeaderFields:
		if s.Negate {
			e.kw("HEADER.FIELDS.NOT")
		} else {
			e.kw("HEADER.FIELDS")
		}

		e.raw(" (")

		for i, f := range s.Fields {
			if i > 0 {
				e.sp()
			}

			e.astring(f)
		}

		e.raw(")")
	case *command.BodySectionPart:
		for i, p := range s.Part {
			if i > 0 {
				e.raw(".")
			}

			e.number(p, false)
		}

		if s.Section != nil {
			e.raw(".")
			e.section(s.Section)
		}
	default:
		panic(fmt.Sprintf("c10: unknown section %T", s))
	}
}

func (e *Enc) fetchAttr(a command.FetchAttribute) {
	switch a := a.(type) {
	case *command.FetchAttributeAll:
		e.kw("ALL")
	case *command.FetchAttributeFull:
		e.kw("FULL")
	case *command.FetchAttributeFast:
		e.kw("FAST")
	case *command.FetchAttributeEnvelope:
		e.kw("ENVELOPE")
	case *command.FetchAttributeFlags:
		e.kw("FLAGS")
	case *command.FetchAttributeInternalDate:
		e.kw("INTERNALDATE")
	case *command.FetchAttributeRFC822:
		e.kw("RFC822")
	case *command.FetchAttributeRFC822Header:
		e.kw("RFC822.HEADER")
	case *command.FetchAttributeRFC822Size:
		e.kw("RFC822.SIZE")
	case *command.FetchAttributeRFC822Text:
		e.kw("RFC822.TEXT")
	case *command.FetchAttributeBody:
		e.kw("BODY")
	case *command.FetchAttributeBodyStructure:
		e.kw("BODYSTRUCTURE")
	case *command.FetchAttributeUID:
		e.kw("UID")
	case *command.FetchAttributeBodySection:
		if a.Peek {
			e.kw("BODY.PEEK")
		} else {
			e.kw("BODY")
		}

		e.raw("[")
		e.section(a.Section)
		e.raw("]")

		if a.Partial != nil {
			e.raw("<")
			e.number(int(a.Partial.Offset), true)
			e.raw(".")
			e.number(int(a.Partial.Count), false)
			e.raw(">")
		}
	default:
		panic(fmt.Sprintf("c10: unknown fetch attribute %T", a))
	}
}

func isMacro(a command.FetchAttribute) bool {
	switch a.(type) {
	case *command.FetchAttributeAll, *command.FetchAttributeFull, *command.FetchAttributeFast:
		return true
	}

	return false
}

func (e *Enc) searchKey(k command.SearchKey) {
	str := func(name, v string) {
		e.kw(name)
		e.sp()
		e.astring(v)
	}
	date := func(name string, t time.Time) {
		e.kw(name)
		e.sp()
		e.date(t)
	}

	switch k := k.(type) {
	case *command.SearchKeyAll:
		e.kw("ALL")
	case *command.SearchKeyAnswered:
		e.kw("ANSWERED")
	case *command.SearchKeyBCC:
		str("BCC", k.Value)
	case *command.SearchKeyBefore:
		date("BEFORE", k.Value)
	case *command.SearchKeyBody:
		str("BODY", k.Value)
	case *command.SearchKeyCC:
		str("CC", k.Value)
	case *command.SearchKeyDeleted:
		e.kw("DELETED")
	case *command.SearchKeyFlagged:
		e.kw("FLAGGED")
	case *command.SearchKeyFrom:
		str("FROM", k.Value)
	case *command.SearchKeyKeyword:
		e.kw("KEYWORD")
		e.sp()
		e.raw(k.Value)
	case *command.SearchKeyNew:
		e.kw("NEW")
	case *command.SearchKeyOld:
		e.kw("OLD")
	case *command.SearchKeyOn:
		date("ON", k.Value)
	case *command.SearchKeyRecent:
		e.kw("RECENT")
	case *command.SearchKeySeen:
		e.kw("SEEN")
	case *command.SearchKeySince:
		date("SINCE", k.Value)
	case *command.SearchKeySubject:
		str("SUBJECT", k.Value)
	case *command.SearchKeyText:
		str("TEXT", k.Value)
	case *command.SearchKeyTo:
		str("TO", k.Value)
	case *command.SearchKeyUnanswered:
		e.kw("UNANSWERED")
	case *command.SearchKeyUndeleted:
		e.kw("UNDELETED")
	case *command.SearchKeyUnflagged:
		e.kw("UNFLAGGED")
	case *command.SearchKeyUnkeyword:
		e.kw("UNKEYWORD")
		e.sp()
		e.raw(k.Value)
	case *command.SearchKeyUnseen:
		e.kw("UNSEEN")
	case *command.SearchKeyDraft:
		e.kw("DRAFT")
	case *command.SearchKeyHeader:
		e.kw("HEADER")
		e.sp()
		e.astring(k.Field)
		e.sp()
		e.astring(k.Value)
	case *command.SearchKeyLarger:
		e.kw("LARGER")
		e.sp()
		e.number(k.Value, true)
	case *command.SearchKeyNot:
		e.kw("NOT")
		e.sp()
		e.searchKey(k.Key)
	case *command.SearchKeyOr:
		e.kw("OR")
		e.sp()
		e.searchKey(k.Key1)
		e.sp()
		e.searchKey(k.Key2)
	case *command.SearchKeySentBefore:
		date("SENTBEFORE", k.Value)
	case *command.SearchKeySentOn:
		date("SENTON", k.Value)
	case *command.SearchKeySentSince:
		date("SENTSINCE", k.Value)
	case *command.SearchKeySmaller:
		e.kw("SMALLER")
		e.sp()
		e.number(k.Value, true)
	case *command.SearchKeyUID:
		e.kw("UID")
		e.sp()
		e.seqSet(k.SeqSet)
	case *command.SearchKeyUndraft:
		e.kw("UNDRAFT")
	case *command.SearchKeyList:
		e.raw("(")

		for i, sub := range k.Keys {
			if i > 0 {
				e.sp()
			}

			e.searchKey(sub)
		}

		e.raw(")")
	case *command.SearchKeySeqSet:
		e.seqSet(k.SeqSet)
	default:
		panic(fmt.Sprintf("c10: unknown search key %T", k))
	}
}

var statusNames = map[command.StatusAttribute]string{
	command.StatusAttributeMessages: "MESSAGES", command.StatusAttributeRecent: "RECENT", command.StatusAttributeUIDNext: "UIDNEXT",
	command.StatusAttributeUIDValidity: "UIDVALIDITY", command.StatusAttributeUnseen: "UNSEEN",
}

func (e *Enc) mbox1(name, mailbox string) {
	e.kw(name)
	e.sp()
	e.mailbox(mailbox)
}

func (e *Enc) payload(p command.Payload) {
	switch p := p.(type) {
	case *command.Capability:
		e.kw("CAPABILITY")
	case *command.Noop:
		e.kw("NOOP")
	case *command.Logout:
		e.kw("LOGOUT")
	case *command.StartTLS:
		e.kw("STARTTLS")
	case *command.Check:
		e.kw("CHECK")
	case *command.Close:
		e.kw("CLOSE")
	case *command.Expunge:
		e.kw("EXPUNGE")
	case *command.Unselect:
		e.kw("UNSELECT")
	case *command.Idle:
		e.kw("IDLE")
	case *command.Login:
		e.kw("LOGIN")
		e.sp()
		e.astring(p.UserID)
		e.sp()
		e.astring(p.Password)
	case *command.Select:
		e.mbox1("SELECT", p.Mailbox)
	case *command.Examine:
		e.mbox1("EXAMINE", p.Mailbox)
	case *command.Create:
		e.mbox1("CREATE", p.Mailbox)
	case *command.Delete:
		e.mbox1("DELETE", p.Mailbox)
	case *command.Subscribe:
		e.mbox1("SUBSCRIBE", p.Mailbox)
	case *command.Unsubscribe:
		e.mbox1("UNSUBSCRIBE", p.Mailbox)
	case *command.Rename:
		e.mbox1("RENAME", p.From)
		e.sp()
		e.mailbox(p.To)
	case *command.List:
		e.mbox1("LIST", p.Mailbox)
		e.sp()
		e.str(p.ListMailbox, ctxList)
	case *command.LSub:
		e.mbox1("LSUB", p.Mailbox)
		e.sp()
		e.str(p.LSubMailbox, ctxList)
	case *command.Status:
		e.mbox1("STATUS", p.Mailbox)
		e.raw(" (")

		for i, a := range p.Attributes {
			if i > 0 {
				e.sp()
			}

			e.kw(statusNames[a])
		}

		e.raw(")")
	case *command.Append:
		e.mbox1("APPEND", p.Mailbox)
		e.sp()

		if len(p.Flags) > 0 || e.rare(4) { // "()" and no flag list are the same
			e.flagList(p.Flags)
			e.sp()
		}

		if p.HasDateTime() {
			e.dateTime(p.DateTime)
			e.sp()
		}

		e.literal(string(p.Literal))
	case *command.IDGet:
		e.kw("ID")
		e.sp()
		e.kw("NIL")
	case *command.IDSet:
		e.kw("ID")
		e.raw(" (")

		keys := make([]string, 0, len(p.Values))
		for k := range p.Values {
			keys = append(keys, k)
		}

		sort.Strings(keys)

		// drawn order of the pairs (Fisher-Yates over the sorted keys)
		for i := len(keys) - 1; i > 0; i-- {
			j := e.S.Intn(i+1, "id-order")
			keys[i], keys[j] = keys[j], keys[i]
		}

		for i, k := range keys {
			if i > 0 {
				e.sp()
			}

			e.str(k, ctxString)
			e.sp()

			if v := p.Values[k]; v == "" && e.coin() {
				e.kw("NIL") // the payload has no separate representation for NIL: it is the empty value
			} else {
				e.str(v, ctxString)
			}
		}

		e.raw(")")
	case *command.Fetch:
		e.kw("FETCH")
		e.sp()
		e.seqSet(p.SeqSet)
		e.sp()

		bare := len(p.Attributes) == 1 && (isMacro(p.Attributes[0]) || !e.coin())
		if !bare {
			e.raw("(")
		}

		for i, a := range p.Attributes {
			if i > 0 {
				e.sp()
			}

			e.fetchAttr(a)
		}

		if !bare {
			e.raw(")")
		}
	case *command.Store:
		e.kw("STORE")
		e.sp()
		e.seqSet(p.SeqSet)
		e.sp()

		switch p.Action {
		case command.StoreActionAddFlags:
			e.raw("+")
		case command.StoreActionRemFlags:
			e.raw("-")
		}

		if p.Silent {
			e.kw("FLAGS.SILENT")
		} else {
			e.kw("FLAGS")
		}

		e.sp()

		if len(p.Flags) == 0 || !e.coin() {
			e.flagList(p.Flags)
		} else {
			e.raw(strings.Join(p.Flags, " "))
		}
	case *command.Copy:
		e.kw("COPY")
		e.sp()
		e.seqSet(p.SeqSet)
		e.sp()
		e.mailbox(p.Mailbox)
	case *command.Move:
		e.kw("MOVE")
		e.sp()
		e.seqSet(p.SeqSet)
		e.sp()
		e.mailbox(p.Mailbox)
	case *command.Search:
		e.kw("SEARCH")

		if p.Charset != "" {
			e.sp()
			e.kw("CHARSET")
			e.sp()
			e.astring(p.Charset)
		}

		for _, k := range p.Keys {
			e.sp()
			e.searchKey(k)
		}
	case *command.UID:
		e.kw("UID")
		e.sp()
		e.payload(p.Command)
	case *command.UIDExpunge:
		e.kw("UID")
		e.sp()
		e.kw("EXPUNGE")
		e.sp()
		e.seqSet(p.SeqSet)
	default:
		panic(fmt.Sprintf("c10: unknown payload %T", p))
	}
}

func (e *Enc) command(c command.Command) {
	if _, ok := c.Payload.(*command.Done); ok {
		e.kw("DONE")
		e.crlf()

		return
	}

	e.raw(c.Tag)
	e.sp()
	e.payload(c.Payload)
	e.crlf()
}
