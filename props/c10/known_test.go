package c10

import (
	"fmt"
	"testing"
	"time"

	"github.com/ProtonMail/gluon/imap/command"

	"verif/internal/kf"
)

// L marks a part of a hand-written command that is sent as a literal.
type L string

// written builds the bytes of one hand-written command from raw text parts and literal parts.
func written(parts ...any) Encoded {
	var e Encoded

	for _, p := range parts {
		switch p := p.(type) {
		case string:
			e.Bytes = append(e.Bytes, p...)
		case L:
			e.Bytes = append(e.Bytes, fmt.Sprintf("{%d}\r\n", len(p))...)
			e.Gates = append(e.Gates, len(e.Bytes))
			e.Literals++
			e.Bytes = append(e.Bytes, p...)
		}
	}

	e.Bytes = append(e.Bytes, '\r', '\n')

	return e
}

type fixed struct {
	want command.Command
	enc  Encoded
}

func cmd(tag string, p command.Payload) command.Command { return command.Command{Tag: tag, Payload: p} }

// failures runs each hand-written command (whole and byte by byte) and returns the oracle's messages.
func failures(cases []fixed) []string {
	var out []string

	for _, c := range cases {
		for _, chunks := range [][]int{{0}, {1}} {
			if msg := Check(c.want, c.enc, chunks, Run(NewStream([]Encoded{c.enc}, nil), chunks), 0); msg != "" {
				out = append(out, msg)

				break
			}
		}
	}

	return out
}

// known is the regression of a known finding: while the minimal inputs still fail and the id is listed, it prints the
// KNOWN-FINDING line and passes; it fails if they fail and the id is not listed; it is silent once they pass.
func known(t *testing.T, id string, cases []fixed) {
	msgs := failures(cases)
	if len(msgs) == 0 {
		return
	}

	if kf.Report(id) {
		t.Logf("%s still reproduces (%d of %d inputs), first: %s", id, len(msgs), len(cases), msgs[0])

		return
	}

	for _, m := range msgs {
		t.Errorf("%s (not listed in known_findings.json): %s", id, m)
	}
}

// F-C10a: '[' is an ATOM-CHAR of RFC 3501, gluon's IsAtomChar rejects it.
func TestKnown_F_C10a(t *testing.T) {
	one := []command.SeqRange{{Begin: 1, End: 1}}

	known(t, FindingLBracket, []fixed{
		{cmd("[", &command.Noop{}), written("[ NOOP")},
		{cmd("A1", &command.Select{Mailbox: "[Gmail]/Trash"}), written("A1 SELECT [Gmail]/Trash")},
		{cmd("A1", &command.List{Mailbox: "", ListMailbox: "[Gmail]/%"}), written(`A1 LIST "" [Gmail]/%`)},
		{cmd("A1", &command.Login{UserID: "a[b", Password: "c"}), written("A1 LOGIN a[b c")},
		{cmd("A1", &command.Store{SeqSet: one, Action: command.StoreActionSetFlags, Flags: []string{"a[b"}}), written("A1 STORE 1 FLAGS (a[b)")},
		{cmd("A1", &command.Search{Keys: []command.SearchKey{&command.SearchKeyKeyword{Value: "a[b"}}}), written("A1 SEARCH KEYWORD a[b")},
	})
}

// F-C10b: the zero-length literal {0} is a literal of RFC 3501, gluon rejects it.
func TestKnown_F_C10b(t *testing.T) {
	known(t, FindingEmptyLiteral, []fixed{
		{cmd("A1", &command.Login{UserID: "u", Password: ""}), written("A1 LOGIN u ", L(""))},
		{cmd("A1", &command.Select{Mailbox: ""}), written("A1 SELECT ", L(""))},
		{cmd("A1", &command.IDSet{Values: map[string]string{"name": ""}}), written(`A1 ID ("name" `, L(""), ")")},
		{cmd("A1", &command.Append{Mailbox: "x", Literal: []byte{}}), written("A1 APPEND x ", L(""))},
	})
}

// F-C10c: a list-mailbox written as a literal is taken as the atom "{n}".
func TestKnown_F_C10c(t *testing.T) {
	known(t, FindingListLiteral, []fixed{
		{cmd("A1", &command.List{Mailbox: "", ListMailbox: "*"}), written(`A1 LIST "" `, L("*"))},
		{cmd("A1", &command.LSub{Mailbox: "INBOX", LSubMailbox: "a b/%"}), written(`A1 LSUB inbox `, L("a b/%"))},
	})
}

// TestExamples: commands written by hand from the examples of RFC 3501 / 2971 / 4315 / 6851 with the AST they denote.
// It anchors the encoder (the canonical writing of the AST must be the RFC's text) and the oracle to something that
// does not come out of the generator.
func TestExamples(t *testing.T) {
	date := func(y int, m time.Month, d int) time.Time { return time.Date(y, m, d, 0, 0, 0, 0, time.UTC) }
	set := func(r ...command.SeqNum) []command.SeqRange {
		var out []command.SeqRange
		for i := 0; i < len(r); i += 2 {
			out = append(out, command.SeqRange{Begin: r[i], End: r[i+1]})
		}

		return out
	}

	cases := []struct {
		fixed
		canonical string // "" if the RFC's spelling is not the canonical one of the encoder
	}{
		{fixed{cmd("abcd", &command.Capability{}), written("abcd CAPABILITY")}, "abcd CAPABILITY\r\n"},
		{fixed{cmd("a001", &command.Login{UserID: "SMITH", Password: "SESAME"}), written("a001 LOGIN SMITH SESAME")}, "a001 LOGIN SMITH SESAME\r\n"},
		{fixed{cmd("A142", &command.Select{Mailbox: "INBOX"}), written("A142 SELECT INBOX")}, "A142 SELECT INBOX\r\n"},
		{fixed{cmd("A142", &command.Select{Mailbox: "INBOX"}), written("A142 select \"iNbOx\"")}, ""},
		{fixed{cmd("A932", &command.Examine{Mailbox: "blurdybloop"}), written("A932 EXAMINE blurdybloop")}, "A932 EXAMINE blurdybloop\r\n"},
		{fixed{cmd("A003", &command.Create{Mailbox: "owatagusiam/"}), written("A003 CREATE owatagusiam/")}, "A003 CREATE owatagusiam/\r\n"},
		{fixed{cmd("A683", &command.Rename{From: "blurdybloop", To: "sarasoop"}), written("A683 RENAME blurdybloop sarasoop")}, "A683 RENAME blurdybloop sarasoop\r\n"},
		{fixed{cmd("A002", &command.Subscribe{Mailbox: "#news.comp.mail.mime"}), written("A002 SUBSCRIBE #news.comp.mail.mime")}, "A002 SUBSCRIBE #news.comp.mail.mime\r\n"},
		{fixed{cmd("A101", &command.List{Mailbox: "", ListMailbox: ""}), written(`A101 LIST "" ""`)}, "A101 LIST \"\" \"\"\r\n"},
		{fixed{cmd("A102", &command.List{Mailbox: "#news.comp.mail.misc", ListMailbox: ""}), written(`A102 LIST #news.comp.mail.misc ""`)}, ""},
		{fixed{cmd("A202", &command.List{Mailbox: "~/Mail/", ListMailbox: "%"}), written(`A202 LIST ~/Mail/ %`)}, "A202 LIST ~/Mail/ %\r\n"},
		{fixed{cmd("A002", &command.LSub{Mailbox: "#news.", LSubMailbox: "comp.mail.*"}), written(`A002 LSUB "#news." "comp.mail.*"`)}, ""},
		{fixed{cmd("A042", &command.Status{Mailbox: "blurdybloop", Attributes: []command.StatusAttribute{command.StatusAttributeUIDNext, command.StatusAttributeMessages}}),
			written("A042 STATUS blurdybloop (UIDNEXT MESSAGES)")}, "A042 STATUS blurdybloop (UIDNEXT MESSAGES)\r\n"},
		{fixed{cmd("A003", &command.Append{Mailbox: "saved-messages", Flags: []string{`\Seen`}, Literal: []byte("Date: Mon, 7 Feb 1994 21:52:25 -0800 (PST)\r\n\r\nHello\r\n")}),
			written(`A003 APPEND saved-messages (\Seen) `, L("Date: Mon, 7 Feb 1994 21:52:25 -0800 (PST)\r\n\r\nHello\r\n"))}, ""},
		{fixed{cmd("A004", &command.Append{Mailbox: "x", DateTime: time.Date(1994, 2, 7, 21, 52, 25, 0, time.FixedZone("", -8*3600)), Literal: []byte("m")}),
			written(`A004 APPEND x " 7-Feb-1994 21:52:25 -0800" `, L("m"))}, ""},
		{fixed{cmd("A282", &command.Search{Keys: []command.SearchKey{&command.SearchKeyFlagged{}, &command.SearchKeySince{Value: date(1994, 2, 1)},
			&command.SearchKeyNot{Key: &command.SearchKeyFrom{Value: "Smith"}}}}), written(`A282 SEARCH FLAGGED SINCE 1-Feb-1994 NOT FROM "Smith"`)}, ""},
		{fixed{cmd("A284", &command.Search{Charset: "UTF-8", Keys: []command.SearchKey{&command.SearchKeyText{Value: "XXXXXX"}}}),
			written(`A284 SEARCH CHARSET UTF-8 TEXT `, L("XXXXXX"))}, ""},
		{fixed{cmd("A285", &command.Search{Keys: []command.SearchKey{&command.SearchKeyOr{
			Key1: &command.SearchKeyList{Keys: []command.SearchKey{&command.SearchKeySeqSet{SeqSet: set(2, 4)}, &command.SearchKeyDeleted{}}},
			Key2: &command.SearchKeyUID{SeqSet: set(7, 0, 0, 3)}}, &command.SearchKeyHeader{Field: "X-Y", Value: ""}}}),
			written(`A285 SEARCH OR (2:4 DELETED) UID 7:*,*:3 HEADER X-Y ""`)}, "A285 SEARCH OR (2:4 DELETED) UID 7:*,*:3 HEADER X-Y \"\"\r\n"},
		{fixed{cmd("A654", &command.Fetch{SeqSet: set(2, 4), Attributes: []command.FetchAttribute{&command.FetchAttributeFlags{},
			&command.FetchAttributeBodySection{Section: &command.BodySectionHeaderFields{Fields: []string{"DATE", "FROM"}}}}}),
			written("A654 FETCH 2:4 (FLAGS BODY[HEADER.FIELDS (DATE FROM)])")}, "A654 FETCH 2:4 (FLAGS BODY[HEADER.FIELDS (DATE FROM)])\r\n"},
		{fixed{cmd("A655", &command.Fetch{SeqSet: set(1, 1), Attributes: []command.FetchAttribute{
			&command.FetchAttributeBodySection{Peek: true, Section: &command.BodySectionPart{Part: []int{4, 2, 2, 1}, Section: &command.BodySectionMIME{}},
				Partial: &command.BodySectionPartial{Offset: 0, Count: 2048}}}}),
			written("A655 FETCH 1 BODY.PEEK[4.2.2.1.MIME]<0.2048>")}, "A655 FETCH 1 BODY.PEEK[4.2.2.1.MIME]<0.2048>\r\n"},
		{fixed{cmd("A656", &command.Fetch{SeqSet: set(1, 0), Attributes: []command.FetchAttribute{&command.FetchAttributeFast{}}}),
			written("A656 FETCH 1:* FAST")}, "A656 FETCH 1:* FAST\r\n"},
		{fixed{cmd("A003", &command.Store{SeqSet: set(2, 4), Action: command.StoreActionAddFlags, Flags: []string{`\Deleted`}}),
			written(`A003 STORE 2:4 +FLAGS (\Deleted)`)}, "A003 STORE 2:4 +FLAGS (\\Deleted)\r\n"},
		{fixed{cmd("A003", &command.Store{SeqSet: set(2, 2), Action: command.StoreActionRemFlags, Silent: true, Flags: []string{`\Seen`, "$Junk"}}),
			written(`A003 STORE 2 -flags.silent \Seen $Junk`)}, ""},
		{fixed{cmd("A003", &command.Copy{SeqSet: set(2, 4), Mailbox: "MEETING"}), written("A003 COPY 2:4 MEETING")}, "A003 COPY 2:4 MEETING\r\n"},
		{fixed{cmd("a", &command.UID{Command: &command.Move{SeqSet: set(42, 69), Mailbox: "foo"}}), written("a UID MOVE 42:69 foo")}, "a UID MOVE 42:69 foo\r\n"},
		{fixed{cmd("A003", &command.UIDExpunge{SeqSet: set(3000, 3002)}), written("A003 UID EXPUNGE 3000:3002")}, "A003 UID EXPUNGE 3000:3002\r\n"},
		{fixed{cmd("A999", &command.UID{Command: &command.Fetch{SeqSet: set(4827313, 4828442), Attributes: []command.FetchAttribute{&command.FetchAttributeFlags{}}}}),
			written("A999 UID FETCH 4827313:4828442 FLAGS")}, "A999 UID FETCH 4827313:4828442 FLAGS\r\n"},
		{fixed{cmd("a023", &command.IDSet{Values: map[string]string{"name": "sodr", "version": "19.34", "vendor": ""}}),
			written(`a023 ID ("name" "sodr" "version" "19.34" "vendor" NIL)`)}, ""},
		{fixed{cmd("a042", &command.IDGet{}), written("a042 ID NIL")}, "a042 ID NIL\r\n"},
		{fixed{cmd("A001", &command.Idle{}), written("A001 IDLE")}, "A001 IDLE\r\n"},
		{fixed{cmd("", &command.Done{}), written("DONE")}, "DONE\r\n"},
		{fixed{cmd("a", &command.StartTLS{}), written("a STARTTLS")}, "a STARTTLS\r\n"},
		{fixed{cmd("a", &command.Unselect{}), written("a unselect")}, ""},
	}

	for _, c := range cases {
		if msgs := failures([]fixed{c.fixed}); len(msgs) > 0 {
			t.Errorf("%s", msgs[0])
		}

		if c.canonical != "" {
			if enc, _ := Encode(FixedSrc{}, c.want, Avoid{}); string(enc.Bytes) != c.canonical {
				t.Errorf("encoder: canonical writing of %s is %q, the RFC writes %q", Dump(c.want.Payload), enc.Bytes, c.canonical)
			}
		}
	}
}
