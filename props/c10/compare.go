package c10

import (
	"fmt"
	"reflect"
	"strings"
	"time"

	"github.com/ProtonMail/gluon/imap/command"
)

var timeType = reflect.TypeOf(time.Time{})

// Diff compares a parsed value with the AST it was written from and returns a description of the first difference
// ("" if none). It is deep equality of the payload structs with these normalisations only:
//   - a nil slice / map equals an empty one (APPEND without a flag list and with "()" mean the same);
//   - time.Time values are compared by instant, zone offset and civil fields (not by the *Location pointer).
//
// Dynamic types must be identical everywhere (a *SearchKeyTo is never equal to a *SearchKeyCC with the same value).
func Diff(want, got any) string {
	return diff("", reflect.ValueOf(want), reflect.ValueOf(got))
}

func diff(path string, w, g reflect.Value) string {
	if !w.IsValid() || !g.IsValid() {
		if w.IsValid() != g.IsValid() {
			return fmt.Sprintf("%s: want %s, got %s", path, show(w), show(g))
		}

		return ""
	}

	if w.Type() != g.Type() {
		return fmt.Sprintf("%s: want type %s, got type %s (want %s, got %s)", path, w.Type(), g.Type(), show(w), show(g))
	}

	if w.Type() == timeType {
		wt, gt := w.Interface().(time.Time), g.Interface().(time.Time)
		_, wo := wt.Zone()
		_, go_ := gt.Zone()

		if !wt.Equal(gt) || wo != go_ || wt.Format(time.RFC3339Nano) != gt.Format(time.RFC3339Nano) {
			return fmt.Sprintf("%s: want time %s, got %s", path, wt.Format(time.RFC3339Nano), gt.Format(time.RFC3339Nano))
		}

		return ""
	}

	switch w.Kind() {
	case reflect.Ptr, reflect.Interface:
		if w.IsNil() || g.IsNil() {
			if w.IsNil() != g.IsNil() {
				return fmt.Sprintf("%s: want %s, got %s", path, show(w), show(g))
			}

			return ""
		}

		return diff(path, w.Elem(), g.Elem())

	case reflect.Struct:
		for i := 0; i < w.NumField(); i++ {
			if d := diff(path+"."+w.Type().Field(i).Name, w.Field(i), g.Field(i)); d != "" {
				return d
			}
		}

		return ""

	case reflect.Slice, reflect.Array:
		if w.Len() != g.Len() {
			return fmt.Sprintf("%s: want %d elements, got %d (want %s, got %s)", path, w.Len(), g.Len(), show(w), show(g))
		}

		for i := 0; i < w.Len(); i++ {
			if d := diff(fmt.Sprintf("%s[%d]", path, i), w.Index(i), g.Index(i)); d != "" {
				return d
			}
		}

		return ""

	case reflect.Map:
		if w.Len() != g.Len() {
			return fmt.Sprintf("%s: want %d entries, got %d (want %s, got %s)", path, w.Len(), g.Len(), show(w), show(g))
		}

		for _, k := range w.MapKeys() {
			gv := g.MapIndex(k)
			if !gv.IsValid() {
				return fmt.Sprintf("%s: key %s missing (got %s)", path, show(k), show(g))
			}

			if d := diff(fmt.Sprintf("%s[%s]", path, show(k)), w.MapIndex(k), gv); d != "" {
				return d
			}
		}

		return ""

	case reflect.String:
		if w.String() != g.String() {
			return fmt.Sprintf("%s: want %q, got %q", path, w.String(), g.String())
		}

		return ""

	case reflect.Bool:
		if w.Bool() != g.Bool() {
			return fmt.Sprintf("%s: want %v, got %v", path, w.Bool(), g.Bool())
		}

		return ""

	case reflect.Int, reflect.Int8, reflect.Int16, reflect.Int32, reflect.Int64:
		if w.Int() != g.Int() {
			return fmt.Sprintf("%s: want %d, got %d", path, w.Int(), g.Int())
		}

		return ""

	case reflect.Uint, reflect.Uint8, reflect.Uint16, reflect.Uint32, reflect.Uint64:
		if w.Uint() != g.Uint() {
			return fmt.Sprintf("%s: want %d, got %d", path, w.Uint(), g.Uint())
		}

		return ""
	}

	panic("c10: Diff: unsupported kind " + w.Kind().String())
}

func show(v reflect.Value) string {
	if !v.IsValid() {
		return "<nil>"
	}

	return Dump(v.Interface())
}

// Dump prints a payload with pointers followed (the %v of the payload structs prints addresses).
func Dump(v any) string {
	var b strings.Builder

	dump(&b, reflect.ValueOf(v))

	return b.String()
}

func dump(b *strings.Builder, v reflect.Value) {
	if !v.IsValid() {
		b.WriteString("nil")

		return
	}

	if v.Type() == timeType {
		b.WriteString(v.Interface().(time.Time).Format(time.RFC3339))

		return
	}

	switch v.Kind() {
	case reflect.Ptr, reflect.Interface:
		if v.IsNil() {
			b.WriteString("nil")

			return
		}

		dump(b, v.Elem())
	case reflect.Struct:
		b.WriteString(strings.TrimPrefix(v.Type().String(), "command."))
		b.WriteString("{")

		for i := 0; i < v.NumField(); i++ {
			if i > 0 {
				b.WriteString(" ")
			}

			b.WriteString(v.Type().Field(i).Name + ":")
			dump(b, v.Field(i))
		}

		b.WriteString("}")
	case reflect.Slice:
		if v.Type().Elem().Kind() == reflect.Uint8 {
			bs := v.Bytes()
			if len(bs) > 80 {
				fmt.Fprintf(b, "%q...(%d bytes)", bs[:80], len(bs))
			} else {
				fmt.Fprintf(b, "%q", bs)
			}

			return
		}

		b.WriteString("[")

		for i := 0; i < v.Len(); i++ {
			if i > 0 {
				b.WriteString(" ")
			}

			dump(b, v.Index(i))
		}

		b.WriteString("]")
	case reflect.Map:
		b.WriteString("map[")

		keys := v.MapKeys()
		strs := make([]string, len(keys))

		for i, k := range keys {
			strs[i] = fmt.Sprintf("%q:%q", k.Interface(), v.MapIndex(k).Interface())
		}

		sortStrings(strs)
		b.WriteString(strings.Join(strs, " "))
		b.WriteString("]")
	case reflect.String:
		s := v.String()
		if len(s) > 80 {
			fmt.Fprintf(b, "%q...(%d bytes)", s[:80], len(s))
		} else {
			fmt.Fprintf(b, "%q", s)
		}
	default:
		fmt.Fprintf(b, "%v", v.Interface())
	}
}

func sortStrings(s []string) {
	for i := 1; i < len(s); i++ {
		for j := i; j > 0 && s[j] < s[j-1]; j-- {
			s[j], s[j-1] = s[j-1], s[j]
		}
	}
}

// ---------------------------------------------------------------------------------------------------------------------
// description of an AST (labels for the evidence histogram, non-triviality)

// Info describes the shape of a command.
type Info struct {
	Name        string   // command form, e.g. "UID FETCH"
	Labels      []string // distinct class labels: key:<kind>, att:<kind>, sect:<kind>, ...
	SearchDepth int      // depth of the deepest search-key tree (0: no search)
	HasPartial  bool
}

// Describe walks a command AST.
func Describe(c command.Command) Info {
	in := Info{}
	seen := map[string]bool{}
	add := func(l string) {
		if !seen[l] {
			seen[l] = true
			in.Labels = append(in.Labels, l)
		}
	}

	var key func(k command.SearchKey) int
	key = func(k command.SearchKey) int {
		add("key:" + strings.TrimPrefix(reflect.TypeOf(k).Elem().Name(), "SearchKey"))

		d := 0

		switch k := k.(type) {
		case *command.SearchKeyNot:
			d = key(k.Key)
		case *command.SearchKeyOr:
			d = max(key(k.Key1), key(k.Key2))
		case *command.SearchKeyList:
			for _, s := range k.Keys {
				d = max(d, key(s))
			}
		}

		return d + 1
	}

	var section func(s command.BodySection, prefix string)
	section = func(s command.BodySection, prefix string) {
		switch s := s.(type) {
		case nil:
			add(prefix + "empty")
		case *command.BodySectionPart:
			add(fmt.Sprintf("sect:part-levels-%d", min(len(s.Part), 3)))

			if s.Section == nil {
				add("sect:part-only")
			} else {
				section(s.Section, "sect:part.")
			}
		case *command.BodySectionHeaderFields:
			if s.Negate {
				add(prefix + "HeaderFieldsNot")
			} else {
				add(prefix + "HeaderFields")
			}
		default:
			add(prefix + strings.TrimPrefix(reflect.TypeOf(s).Elem().Name(), "BodySection"))
		}
	}

	var payload func(p command.Payload) string
	payload = func(p command.Payload) string {
		switch p := p.(type) {
		case *command.UID:
			return "UID " + payload(p.Command)
		case *command.UIDExpunge:
			return "UID EXPUNGE"
		case *command.IDGet:
			add("id:nil")

			return "ID"
		case *command.IDSet:
			add(fmt.Sprintf("id:pairs-%d", min(len(p.Values), 3)))

			return "ID"
		case *command.LSub:
			return "LSUB"
		case *command.StartTLS:
			return "STARTTLS"
		case *command.Search:
			if p.Charset != "" {
				add("search:charset")
			}

			for _, k := range p.Keys {
				in.SearchDepth = max(in.SearchDepth, key(k))
			}

			add(fmt.Sprintf("search:depth-%d", in.SearchDepth))

			return "SEARCH"
		case *command.Fetch:
			if len(p.Attributes) > 1 {
				add("fetch:list")
			}

			for _, a := range p.Attributes {
				add("att:" + strings.TrimPrefix(reflect.TypeOf(a).Elem().Name(), "FetchAttribute"))

				if bs, ok := a.(*command.FetchAttributeBodySection); ok {
					section(bs.Section, "sect:")

					if bs.Peek {
						add("att:BodySection.Peek")
					}

					if bs.Partial != nil {
						in.HasPartial = true

						add("att:BodySection.Partial")
					}
				}
			}

			return "FETCH"
		case *command.Store:
			add(fmt.Sprintf("store:action-%d-silent-%v", p.Action, p.Silent))

			return "STORE"
		case *command.Append:
			if len(p.Flags) > 0 {
				add("append:flags")
			}

			if p.HasDateTime() {
				add("append:date")
			}

			return "APPEND"
		default:
			return strings.ToUpper(reflect.TypeOf(p).Elem().Name())
		}
	}

	in.Name = payload(c.Payload)

	return in
}
