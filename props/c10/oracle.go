package c10

import (
	"bytes"
	"fmt"
	"strconv"

	"github.com/ProtonMail/gluon/imap/command"
)

// Clip quotes bytes for a message (long inputs are cut).
func Clip(b []byte) string {
	if len(b) > 1500 {
		return fmt.Sprintf("%q...(%d bytes)", b[:1500], len(b))
	}

	return strconv.Quote(string(b))
}

// Check is the oracle for command i of a stream that was run through the parser: it returns "" if the parser
// returned exactly the command that was written, else a description with everything needed to reproduce.
//
//   - no error, no panic;
//   - the parser never asked the connection for bytes which the client cannot have sent yet (it would hang);
//   - tag equal, payload deep-equal to the AST (normalisations: see Diff; INBOX and NIL are handled by the generator:
//     the AST holds the folded name / the empty value);
//   - the parser consumed exactly the bytes of the command (what the session logs as the command);
//   - one continuation request per literal, none else.
func Check(want command.Command, enc Encoded, chunks []int, res Result, i int) string {
	ctx := fmt.Sprintf("\n  input  %s\n  chunks %v\n  want   tag=%q %s", Clip(enc.Bytes), chunks, want.Tag, Dump(want.Payload))

	if i >= len(res.Parsed) {
		return fmt.Sprintf("command %d of the stream was not reached (an earlier command failed)%s", i, ctx)
	}

	p := res.Parsed[i]

	switch {
	case p.Panic != nil:
		return fmt.Sprintf("parser panicked: %v%s", p.Panic, ctx)
	case p.BlockedAt >= 0:
		return fmt.Sprintf("parser would hang: it asked the connection for more bytes at stream offset %d, where the client is still "+
			"waiting for the server (continuation request or response); err=%v got=%s%s", p.BlockedAt, p.Err, Dump(p.Cmd.Payload), ctx)
	case p.Err != nil:
		return fmt.Sprintf("valid command rejected: %v%s", p.Err, ctx)
	case p.Cmd.Tag != want.Tag:
		return fmt.Sprintf("tag: want %q, got %q%s", want.Tag, p.Cmd.Tag, ctx)
	}

	if d := Diff(want.Payload, p.Cmd.Payload); d != "" {
		return fmt.Sprintf("parsed command differs from the written one at payload%s%s\n  got    %s", d, ctx, Dump(p.Cmd.Payload))
	}

	if !bytes.Equal(p.Consumed, enc.Bytes) {
		return fmt.Sprintf("parser consumed other bytes than those of the command: consumed %s%s", Clip(p.Consumed), ctx)
	}

	if p.Continuations != enc.Literals || res.ExtraConts != 0 {
		return fmt.Sprintf("continuation requests: want %d (one per literal), got %d (+%d without a literal)%s",
			enc.Literals, p.Continuations, res.ExtraConts, ctx)
	}

	return ""
}
