package c18

import (
	"fmt"
	"sort"
	"strings"
	"testing"
	"time"

	"github.com/ProtonMail/gluon/imap/command"
	"pgregory.net/rapid"

	"verif/internal/ev"
	"verif/internal/imapc"
	"verif/internal/kf"
	"verif/internal/mach"
	"verif/props/c10"
)

// KfFailedSelect: a SELECT/EXAMINE that fails while a mailbox is selected leaves that mailbox selected (see known_test.go).
const KfFailedSelect = "C18-failed-select-keeps-selection"

// credential sets: distinct passwords; names/passwords that differ only in letter case, that are prefixes of each
// other, that are each other's password, that need quoting with escapes or a literal.
var credSets = [][]cred{
	{{"alice", "pass-A"}, {"bob", "pass-B"}, {"carol", "pass-C"}},
	{{"User", "Secret"}, {"user", "secret"}, {"USER2", "SECRET2"}},
	{{`a"b`, `p\w "x"`}, {"a b", " lead"}, {"ünï", "pässwörd"}},
	{{"al", "pw"}, {"ali", "pw1"}, {"alice", "pw12"}},
	{{"x1", "y1"}, {"y1", "x1"}, {"x1y1", "y1x1"}},
}

type machine struct {
	t *rapid.T
	w *world
	g *c10.Gen

	avoid      c10.Avoid
	jailBudget int
	armed      int // times the third consecutive failure was reached

	refusedEffective int
	nAppend          int
}

func (m *machine) n(label string, lo, hi int) int { return rapid.IntRange(lo, hi).Draw(m.t, label) }
func (m *machine) chance(label string, num, den int) bool {
	return m.n(label, 0, den-1) < num
}

func pick[T any](m *machine, label string, xs []T) T { return xs[m.n(label, 0, len(xs)-1)] }

// ---------------------------------------------------------------------------------------------------------------------
// credentials

func flipCase(s string) string {
	b := []byte(s)
	for i := range b {
		if b[i] >= 'A' && b[i] <= 'Z' || b[i] >= 'a' && b[i] <= 'z' {
			b[i] ^= 0x20
		}
	}

	return string(b)
}

var credKinds = []string{"right", "right", "right", "wrong-pass", "other-users-pass", "unknown-user-valid-pass", "empty-pass", "empty-user",
	"both-empty", "case-user", "case-pass", "pass-prefix", "pass-extended", "user-extended", "swapped", "random"}

func (m *machine) drawCred(kind string) (cred, string) {
	cs := m.w.creds
	i := m.n("cred-user", 0, len(cs)-1)
	j := (i + 1 + m.n("cred-other", 0, len(cs)-2)) % len(cs)

	if kind == "" {
		kind = pick(m, "cred-kind", credKinds)
	}

	u, p := cs[i].User, cs[i].Pass

	switch kind {
	case "right":
	case "wrong-pass":
		p = pick(m, "cred-garbage", []string{"wrong", "password", "x", "*", "NIL", `""`, "pass"})
	case "other-users-pass":
		p = cs[j].Pass
	case "unknown-user-valid-pass":
		u = pick(m, "cred-nobody", []string{"nobody", "root", "admin", "*", "%", "INBOX"})
	case "empty-pass":
		p = ""
	case "empty-user":
		u = ""
	case "both-empty":
		u, p = "", ""
	case "case-user":
		u = flipCase(u)
	case "case-pass":
		p = flipCase(p)
	case "pass-prefix":
		p = p[:len(p)-1]
	case "pass-extended":
		p += pick(m, "cred-ext", []string{" ", "x", "\t", "\r\n", "1"})
	case "user-extended":
		u += pick(m, "cred-ext", []string{" ", "x", "@example.com", "\r\n", "2"})
	case "swapped":
		u, p = p, u
	default:
		u, p = m.g.Text("cred-user-text"), m.g.Text("cred-pass-text")
	}

	return cred{u, p}, kind
}

// authenticates returns the index of the user whose exact credentials these are, or -1.
func (m *machine) authenticates(c cred) int {
	for i, k := range m.w.creds {
		if k.User == c.User && k.Pass == c.Pass {
			return i
		}
	}

	return -1
}

// ---------------------------------------------------------------------------------------------------------------------
// commands

var anyNames = func() []string {
	var out []string

	for _, n := range c10.CommandNames {
		if n != "STARTTLS" && n != "DONE" && n != "LOGIN" {
			out = append(out, n)
		}
	}

	return out
}()

func (m *machine) poolName() string { return pick(m, "pool-name", m.w.pool) }

func (m *machine) validSet() []command.SeqRange {
	one := func(n int) command.SeqRange { return command.SeqRange{Begin: command.SeqNum(n), End: command.SeqNum(n)} }
	star := command.SeqNumValueAsterisk

	switch m.n("set", 0, 6) {
	case 0, 1:
		return []command.SeqRange{one(1)}
	case 2, 3:
		return []command.SeqRange{{Begin: 1, End: star}}
	case 4:
		return []command.SeqRange{{Begin: star, End: star}}
	case 5:
		return []command.SeqRange{{Begin: 1, End: 2}}
	default:
		return []command.SeqRange{one(1), one(2)}
	}
}

func (m *machine) nextMarker(c *conn) string {
	m.nAppend++

	if c.user < 0 {
		return fmt.Sprintf("vmk-anon-%d", 1000+m.nAppend)
	}

	return marker(c.user, 1000+m.nAppend)
}

func (m *machine) revealingAttrs() []command.FetchAttribute {
	switch m.n("fetch-attrs", 0, 4) {
	case 0:
		return []command.FetchAttribute{&command.FetchAttributeUID{}, &command.FetchAttributeFlags{},
			&command.FetchAttributeBodySection{Peek: true, Section: &command.BodySectionHeaderFields{Fields: []string{"X-Verif-Marker"}}}}
	case 1:
		return []command.FetchAttribute{&command.FetchAttributeEnvelope{}}
	case 2:
		return []command.FetchAttribute{&command.FetchAttributeRFC822{}}
	case 3:
		return []command.FetchAttribute{&command.FetchAttributeBodySection{Section: &command.BodySectionText{}}, &command.FetchAttributeUID{}}
	default:
		return []command.FetchAttribute{&command.FetchAttributeAll{}}
	}
}

// retarget replaces the arguments of a drawn command by ones that would be effective if the command were allowed:
// mailbox names that exist (for this or another user), valid sets, a valid message with a marker.
//
// exec tells that the state model admits the command, so that gluon will execute it: then every argument is replaced
// (plain flags, attributes and search keys), because what gluon does with arbitrary arguments of an admitted command
// is the subject of C11/C13/C14/C16. For a command that is refused anyway the rest of C10's draw is kept.
func (m *machine) retarget(c *conn, p command.Payload, exec bool) {
	switch p := p.(type) {
	case *command.Select:
		p.Mailbox = m.poolName()
	case *command.Examine:
		p.Mailbox = m.poolName()
	case *command.Delete:
		p.Mailbox = m.poolName()
	case *command.Subscribe:
		p.Mailbox = m.poolName()
	case *command.Unsubscribe:
		p.Mailbox = m.poolName()
	case *command.Create:
		if m.chance("create-new", 2, 3) {
			p.Mailbox = pick(m, "new-name", newNames)
		} else {
			p.Mailbox = m.poolName()
		}
	case *command.Rename:
		p.From = m.poolName()
		p.To = pick(m, "new-name", newNames)
	case *command.List:
		p.Mailbox = ""
		p.ListMailbox = pick(m, "pattern", []string{"*", "%", "Only*", "Sub/%", "Common", "INBOX", "*/*", "Duo"})
	case *command.LSub:
		p.Mailbox = ""
		p.LSubMailbox = pick(m, "pattern", []string{"*", "%", "Only*", "Sub/%", "Common", "INBOX"})
	case *command.Status:
		p.Mailbox = m.poolName()
	case *command.Append:
		p.Mailbox = m.poolName()
		p.Literal = mach.Msg(m.nextMarker(c), "appended")
		p.Flags = nil

		if m.chance("append-flags", 1, 2) {
			p.Flags = []string{pick(m, "append-flag", plainFlags)}
		}

		if exec {
			p.DateTime = time.Time{}
		}
	case *command.Fetch:
		p.SeqSet = m.validSet()

		if exec || m.chance("fetch-revealing", 2, 3) {
			p.Attributes = m.revealingAttrs()
		}
	case *command.Store:
		p.SeqSet = m.validSet()

		if exec {
			p.Flags = []string{pick(m, "store-flag", plainFlags)}
		}
	case *command.Copy:
		p.SeqSet = m.validSet()
		p.Mailbox = m.poolName()
	case *command.Move:
		p.SeqSet = m.validSet()
		p.Mailbox = m.poolName()
	case *command.Search:
		if exec || m.chance("search-simple", 2, 3) {
			p.Charset = ""
			p.Keys = []command.SearchKey{pick(m, "search-key", []command.SearchKey{&command.SearchKeyAll{},
				&command.SearchKeySubject{Value: "vmk"}, &command.SearchKeyHeader{Field: "X-Verif-Marker", Value: "u"}, &command.SearchKeyUnseen{}})}
		}
	case *command.UIDExpunge:
		p.SeqSet = m.validSet()
	case *command.UID:
		m.retarget(c, p.Command, exec)
	}
}

var plainFlags = []string{`\Seen`, `\Flagged`, `\Deleted`, `\Answered`, `\Draft`, "$Forwarded", "work"}

// drawCommand draws any command form with a payload of C10's generator; `effective` tells whether its arguments
// were retargeted (or it has none).
func (m *machine) drawCommand(c *conn) (name string, p command.Payload, effective bool) {
	// a third of the draws follow the connection's state, so that deep states are reached often
	if m.chance("guided", 1, 2) {
		switch c.state.class() {
		case clNoSel:
			name = pick(m, "guided-nosel", []string{"SELECT", "EXAMINE", "SELECT", "EXAMINE", "APPEND", "LIST"})
		case clSel:
			name = pick(m, "guided-sel", []string{"CLOSE", "UNSELECT", "FETCH", "UID FETCH", "STORE", "COPY", "SELECT", "EXPUNGE"})
		}
	}

	if name == "" {
		name = pick(m, "command", anyNames)
	}

	p = m.g.Payload(name)

	if _, noArgs := map[string]bool{"CAPABILITY": true, "NOOP": true, "LOGOUT": true, "CHECK": true, "CLOSE": true, "EXPUNGE": true,
		"UNSELECT": true, "IDLE": true, "ID": true}[name]; noArgs {
		return name, p, true
	}

	// Raw arguments of C10's generator (any bytes, any numbers) are kept only where the state model refuses the
	// command whatever its arguments are; a command that will be executed always gets effective arguments: what
	// gluon does with arbitrary arguments of an admitted command is the subject of C11/C13/C14/C16, not of C18.
	cls := c.state.class()
	refusedAnyway := cls == clNotAuth || cls == clGone || (categories[name] == catSelected && cls == clNoSel && !c.uncertain)

	if !refusedAnyway || m.chance("retarget", 4, 5) {
		m.retarget(c, p, !refusedAnyway)

		// own mailboxes are the ones worth selecting when the connection is authenticated
		if c.user >= 0 && (name == "SELECT" || name == "EXAMINE") && m.chance("own-box", 2, 3) {
			own := m.w.base[c.user]
			names := []string{"INBOX"}

			for _, b := range own.Boxes {
				if b.Selectable {
					names = append(names, b.Name)
				}
			}

			sort.Strings(names)

			switch p := p.(type) {
			case *command.Select:
				p.Mailbox = pick(m, "own-name", names)
			case *command.Examine:
				p.Mailbox = pick(m, "own-name", names)
			}
		}

		return name, p, true
	}

	return name, p, false
}

func mailboxArg(p command.Payload) string {
	switch p := p.(type) {
	case *command.Select:
		return p.Mailbox
	case *command.Examine:
		return p.Mailbox
	case *command.Status:
		return p.Mailbox
	}

	return ""
}

func (m *machine) encode(tag string, p command.Payload) c10.Encoded {
	enc, excluded := c10.Encode(c10.RapidSrc{T: m.t}, command.Command{Tag: tag, Payload: p}, m.avoid)
	if excluded > 0 {
		ev.Excluded(excluded)
	}

	return enc
}

// ---------------------------------------------------------------------------------------------------------------------
// steps

func (m *machine) tag(c *conn) string {
	c.nTag++

	return fmt.Sprintf("%s.%d", c.name, c.nTag)
}

// login sends a LOGIN with the given credentials on the connection and judges it.
func (m *machine) login(c *conn, cr cred, kind string) {
	w := m.w
	want := m.authenticates(cr)
	cls := c.state.class()

	// budget of jail episodes: when it is used up the third consecutive failure is avoided by a successful login
	// of the harness (a fresh view) in front of it
	if cls == clNotAuth && want < 0 && w.fails == 2 {
		if m.armed >= m.jailBudget {
			w.label("steer:jail-avoided")
			w.observe(m.n("steer-user", 0, len(w.creds)-1))
		} else {
			m.armed++
		}
	}

	tag := m.tag(c)
	enc := m.encode(tag, &command.Login{UserID: cr.User, Password: cr.Pass})
	res, tS, tR := w.send(c, tag, enc, false)

	w.label("cmd:LOGIN@" + c.state.String())
	w.label("cred:" + kind)

	switch {
	case enc.Literals > 0:
		w.label("cred-enc:literal")
	case enc.Quoted > 0:
		w.label("cred-enc:quoted")
	default:
		w.label("cred-enc:atoms")
	}

	if c.state == stLoggedOut {
		m.afterLogout(c, res, "LOGIN")
		return
	}

	m.scan(c, res, "LOGIN")

	if res.Bye && (cls == clSel || c.uncertain) {
		// the selected mailbox went away (deleted by a session of the same user): the server ends the session with
		// BYE and closes, without a tagged response
		w.label("bye:selected-mailbox-gone")
		c.enter(stDead)

		return
	}

	if res.Err != nil {
		w.transport("LOGIN on "+c.name, res.Err)
	}

	if cls != clNotAuth {
		// a second LOGIN is refused whatever the credentials are, and the session keeps its identity
		if res.OK() || res.Status == "" {
			w.fatalf("C18 violated: LOGIN on %s, which is already authenticated as user %d (state %s), was answered %q (credentials %q/%q, kind %s)", c.name, c.user, c.state, res.Status, cr.User, cr.Pass, kind)
		}

		m.refusedEffective++
		w.label("refused:second-login")
		m.noData(c, res, "LOGIN")

		if m.chance("verify-second-login", 1, 4) {
			w.verifyViews(-1, "a second LOGIN was refused")
		}

		return
	}

	if res.Status == "BAD" {
		// A failed login is answered NO; BAD would mean that the command was rejected before the credential check
		// and perhaps not counted by the server. The model is brought back in step by a successful login (it resets
		// both counters; if it comes after a third failure it is still subject to the lower bound).
		w.label("jail:resync-after-bad")

		if want >= 0 {
			w.fatalf("C18 violated: LOGIN with the exact credentials of user %d (%q %q) was answered BAD %s", want, cr.User, cr.Pass, res.Text)
		}

		c.enter(stFailedLogin)
		w.observe(0)

		return
	}

	w.loginAttempt(tS, tR, res.OK(), "connection")

	if res.OK() != (want >= 0) {
		if res.OK() {
			w.fatalf("C18 violated: LOGIN %q %q (kind %s) authenticated although these are nobody's exact credentials (users: %q)", cr.User, cr.Pass, kind, w.creds)
		}

		w.fatalf("C18 violated: LOGIN with the exact credentials of user %d (%q %q) was answered %s %s", want, cr.User, cr.Pass, res.Status, res.Text)
	}

	if res.OK() {
		c.user = want
		c.enter(stAuth)
		w.label("login:ok")

		return
	}

	m.refusedEffective++
	c.enter(stFailedLogin)
	w.label("login:refused")
	m.noData(c, res, "LOGIN")

	if m.chance("verify-failed-login", 1, 4) {
		w.verifyViews(-1, "a LOGIN failed")
	}
}

// scan looks for markers of other users in everything the connection was told.
func (m *machine) scan(c *conn, res *imapc.Result, name string) {
	if bad := foreignMarkers(res, c.user); len(bad) > 0 {
		m.w.fatalf("C18 violated (isolation): %s on %s (authenticated as user %d, state %s) was told about messages with markers %q", name, c.name, c.user, c.state, bad)
	}
}

// noData: a refused command returns no data.
func (m *machine) noData(c *conn, res *imapc.Result, name string, allowed ...string) {
next:
	for _, r := range dataResponses(res) {
		for _, a := range allowed {
			if r.Tag == "*" && r.Keyword() == a {
				continue next
			}
		}

		m.w.fatalf("C18 violated: %s on %s in state %s returned data: %s", name, c.name, c.state, r.Raw)
	}
}

func (m *machine) afterLogout(c *conn, res *imapc.Result, name string) {
	w := m.w
	c.afterOut++
	w.label("after-logout:" + name)

	if res.Status != "" || len(dataResponses(res)) > 0 {
		w.fatalf("C18 violated: %s on %s after LOGOUT was answered: %v", name, c.name, res)
	}

	m.refusedEffective++

	if m.chance("verify-after-logout", 1, 3) {
		w.verifyViews(-1, "a command was sent after LOGOUT")
	}
}

// own checks that what a session was told about names belongs to its user.
func (m *machine) ownNames(c *conn, res *imapc.Result, kw string) {
	w := m.w
	names, _ := listNames(res, kw)

	if len(names) == 0 {
		return
	}

	snap := w.current(c.user)

	for _, n := range names {
		if !snap.knows(n, "/") {
			w.fatalf("C18 violated (isolation): %s on %s (user %d) reported the name %q, which is not one of the user's names\nfresh view of the user:\n  %s", kw, c.name, c.user, n, snap)
		}
	}
}

// command sends any command and judges it against the protocol-state model.
func (m *machine) command(c *conn) {
	w := m.w
	name, p, eff := m.drawCommand(c)
	cat := categories[name]
	st := c.state
	cls := st.class()

	tag := m.tag(c)
	enc := m.encode(tag, p)
	res, _, _ := w.send(c, tag, enc, name == "IDLE")

	w.label("cmd:" + name + "@" + st.String())

	if !eff {
		w.label("args:raw")
	}

	if st == stLoggedOut {
		m.afterLogout(c, res, name)
		return
	}

	m.scan(c, res, name)

	if res.Bye && (name != "LOGOUT" || res.Err != nil) {
		// legitimate only for a session whose selected mailbox went away
		if cls != clSel && !c.uncertain {
			w.fatalf("C18: %s on %s in state %s: the server ended the session: %v", name, c.name, st, res)
		}

		w.label("bye:selected-mailbox-gone")
		c.enter(stDead)
		w.dirty[c.user] = true

		return
	}

	if res.Err != nil {
		w.transport(name+" on "+c.name, res.Err)
	}

	refused := func(why string) {
		if res.Status != "NO" && res.Status != "BAD" {
			w.fatalf("C18 violated: %s on %s in state %s (%s) must be refused, it was answered %s %s", name, c.name, st, why, res.Status, res.Text)
		}

		m.noData(c, res, name)
		w.label("refused:" + why)

		if eff {
			m.refusedEffective++
		}

		if m.chance("verify-refused", 1, 2) {
			w.verifyViews(-1, fmt.Sprintf("%s on %s in state %s was refused", name, c.name, st))
		}
	}

	mustOK := func() {
		if !res.OK() {
			w.fatalf("C18 violated: %s (any-state command) on %s in state %s was answered %s %s", name, c.name, st, res.Status, res.Text)
		}
	}

	switch {
	case cat == catAny:
		mustOK()

		switch name {
		case "CAPABILITY":
			m.noDataUnlessSelected(c, res, name, "CAPABILITY")
		case "ID":
			m.noDataUnlessSelected(c, res, name, "ID")
		case "LOGOUT":
			if !res.Bye {
				w.fatalf("C18: LOGOUT on %s without BYE: %v", c.name, res)
			}

			c.enter(stLoggedOut)
		default:
			m.noDataUnlessSelected(c, res, name)
		}

	case cls == clNotAuth:
		refused("not-authenticated")

	case cat == catSelected && cls == clNoSel:
		if c.uncertain {
			w.label("unjudged:selection-uncertain")
			w.dirty[c.user] = true

			return
		}

		refused("no-mailbox-selected")

	default:
		m.allowed(c, name, p, eff, res)
	}
}

// noDataUnlessSelected: outside the selected state an any-state command returns only its own data.
func (m *machine) noDataUnlessSelected(c *conn, res *imapc.Result, name string, allowed ...string) {
	if c.state.class() != clSel {
		m.noData(c, res, name, allowed...)
	}
}

var readOnlyCommands = map[string]bool{"LIST": true, "LSUB": true, "STATUS": true, "SEARCH": true, "UID SEARCH": true, "CHECK": true,
	"SELECT": true, "EXAMINE": true, "UNSELECT": true, "IDLE": true}

// allowed handles a command that the state model lets through: its status is the business of other properties; here
// the state transitions are tracked and what the session is told is checked against its own user's account.
func (m *machine) allowed(c *conn, name string, p command.Payload, eff bool, res *imapc.Result) {
	w := m.w
	cls := c.state.class()

	w.label("allowed:" + strings.ToLower(res.Status))

	if !readOnlyCommands[name] {
		w.dirty[c.user] = true
	}

	switch name {
	case "SELECT", "EXAMINE":
		if res.OK() {
			c.uncertain = false
			c.selPool = ""

			if name == "SELECT" {
				c.enter(stSelRW)
			} else {
				c.enter(stSelRO)
			}

			if eff {
				c.selPool = mailboxArg(p)
				m.ownBox(c, name, c.selPool, res)
			}

			break
		}

		// RFC 3501 6.3.1: "if a mailbox is selected and a SELECT command that fails is attempted, no mailbox is selected"
		c.selPool = ""

		if cls == clSel && kf.Listed(KfFailedSelect) {
			ev.Excluded(1)
			w.label("steer:unselect-after-failed-select")

			tag := m.tag(c)

			r, _, _ := w.send(c, tag, m.encode(tag, &command.Unselect{}), false)
			if r.Bye {
				c.enter(stDead)
				return
			}

			if r.Err != nil {
				w.transport("UNSELECT on "+c.name, r.Err)
			}
		}

		c.uncertain = false
		c.enter(stAfterFailedSelect)

	case "CLOSE", "UNSELECT":
		switch {
		case res.OK() && name == "CLOSE":
			c.uncertain = false
			c.enter(stAfterClose)
		case res.OK():
			c.uncertain = false
			c.enter(stAfterUnselect)
		default:
			c.uncertain = true
		}

		c.selPool = ""

	case "LIST":
		m.ownNames(c, res, "LIST")
	case "LSUB":
		m.ownNames(c, res, "LSUB")
	case "STATUS":
		if res.OK() && eff {
			m.ownBox(c, name, mailboxArg(p), res)
		}
	}

	// writes of a session change only its own user's fresh views
	if !readOnlyCommands[name] && m.chance("verify-others", 1, 4) {
		w.verifyViews(c.user, fmt.Sprintf("%s was sent on %s, a session of user %d", name, c.name, c.user))
	}
}

// ownBox: a mailbox that a session could select / examine / query is a mailbox of its own user, with that user's
// number of messages.
func (m *machine) ownBox(c *conn, name, mbox string, res *imapc.Result) {
	w := m.w
	snap := w.current(c.user)
	box := snap.box(mbox)

	if box == nil {
		w.fatalf("C18 violated (isolation): %s %q succeeded on %s (user %d), but the user has no such mailbox\nfresh view of the user:\n  %s", name, mbox, c.name, c.user, snap)
	}

	for _, u := range res.Untagged {
		if n, kw, ok := u.Num(); ok && kw == "EXISTS" && box.Selectable && int(n) != len(box.Msgs) {
			w.fatalf("C18 violated (isolation): %s %q on %s (user %d) announced %d messages, the user's mailbox holds %d\nfresh view of the user:\n  %s", name, mbox, c.name, c.user, n, len(box.Msgs), snap)
		}
	}
}

// jailBurst drives the server-wide failure counter to three with failing attempts on drawn connections and then
// makes the next attempt: right or wrong credentials on a connection, or a fresh view of the harness.
func (m *machine) jailBurst() {
	w := m.w

	if m.armed >= m.jailBudget {
		return
	}

	w.label("jail:burst")

	unauth := func() *conn {
		var cands []*conn

		for _, c := range w.conns {
			if c.state.class() == clNotAuth {
				cands = append(cands, c)
			}
		}

		if len(cands) == 0 || (len(w.conns) < 6 && m.chance("burst-new-conn", 1, 3)) {
			return w.dial()
		}

		return pick(m, "burst-conn", cands)
	}

	// optionally an interleaved success first: failures before it must not count
	if w.fails > 0 && w.fails < 3 && m.chance("burst-success-first", 1, 3) {
		w.label("jail:success-between")
		w.observe(m.n("burst-observe", 0, len(w.creds)-1))
	}

	for m.armed < m.jailBudget {
		for guard := 0; w.fails < 3 && guard < 4; guard++ {
			kind := pick(m, "burst-kind", []string{"wrong-pass", "other-users-pass", "unknown-user-valid-pass", "empty-pass", "case-pass", "pass-prefix"})
			cr, kind := m.drawCred(kind)

			if m.authenticates(cr) >= 0 {
				cr.Pass += "~"
			}

			m.login(unauth(), cr, kind)
		}

		// with budget left the attempt after the jail preferably fails and the next episode follows at once: three
		// more failures in a row (the held-back one included) without any success in between
		if m.armed < m.jailBudget && m.chance("burst-chain", 2, 3) {
			w.label("jail:chained")

			cr, kind := m.drawCred("wrong-pass")
			m.login(unauth(), cr, kind)

			continue
		}

		switch m.n("burst-next", 0, 3) {
		case 0:
			cr, kind := m.drawCred("right")
			m.login(unauth(), cr, kind)
		case 1:
			cr, kind := m.drawCred("wrong-pass")
			m.login(unauth(), cr, kind)
		case 2:
			w.observe(m.n("burst-observe", 0, len(w.creds)-1))
		default:
			// left to whatever comes next (at the latest the final fresh views)
		}

		break
	}
}

func run(t *rapid.T) {
	set := rapid.IntRange(0, len(credSets)-1).Draw(t, "cred-set")
	nUsers := rapid.IntRange(2, 3).Draw(t, "users")
	perBox := rapid.IntRange(1, 2).Draw(t, "per-box")

	// the user IDs: made up by the server, or chosen by the application - then sometimes IDs that differ in letter case
	// only, or where one is a prefix of another (they name the users' database files and store directories)
	userIDs = [][]string{nil, nil, {"q7Jx2mPa", "q7jx2mPa", "Q7JX2MPA"}, {"user", "user1", "user10"}, {"a.b", "a_b", "A.B"}}[rapid.IntRange(0, 4).Draw(t, "userIDs")]

	w := newWorld(t, credSets[set][:nUsers], perBox)
	defer w.close()

	g := c10.NewGen(t)
	g.MaxDepth, g.MaxSet, g.MaxLiteral = 3, 17, 1500
	g.Avoid = c10.Avoid{LBracket: kf.Listed(c10.FindingLBracket), EmptyLiteral: kf.Listed(c10.FindingEmptyLiteral), ListLiteral: kf.Listed(c10.FindingListLiteral)}

	m := &machine{t: t, w: w, g: g, avoid: g.Avoid}

	switch rapid.IntRange(0, 19).Draw(t, "jail-budget") {
	case 18:
		m.jailBudget = 1
	case 19:
		m.jailBudget = 2
	}

	steps := rapid.IntRange(4, 20).Draw(t, "steps")

	for i := 0; i < steps; i++ {
		// connection: an existing one or a new one
		var c *conn

		if len(w.conns) == 0 || (len(w.conns) < 4 && m.chance("new-conn", 1, 5)) {
			c = w.dial()
		} else {
			c = w.conns[m.n("conn", 0, len(w.conns)-1)]
		}

		if c.state == stDead || c.afterOut >= 2 {
			if len(w.conns) >= 8 {
				continue
			}

			c = w.dial()
		}

		cls := c.state.class()

		loginWeight := 1
		if cls == clNotAuth {
			loginWeight = 6
		}

		switch x := m.n("action", 0, 9+loginWeight); {
		case x == 0 && m.jailBudget > 0:
			m.jailBurst()
		case x <= 9:
			m.command(c)
		default:
			kind := ""
			if cls == clNotAuth && m.chance("login-right", 3, 5) {
				kind = "right"
			}

			cr, kind := m.drawCred(kind)
			m.login(c, cr, kind)
		}

		if err := w.b.CheckPanics(); err != nil {
			w.fatalf("C18 (crash): %v", err)
		}
	}

	w.verifyViews(-1, "the case ended (every change of a user's account so far was made by a session of that user)")

	if err := w.b.CheckPanics(); err != nil {
		w.fatalf("C18 (crash): %v", err)
	}

	// evidence
	maxStates := 0

	for _, c := range w.conns {
		n := 0

		for s := range c.visited {
			if s != stDead {
				n++
			}
		}

		maxStates = max(maxStates, n)

		for s := range c.visited {
			w.label("state:" + s.String())
		}
	}

	nontrivial := (maxStates >= 3 && m.refusedEffective >= 1) || w.episodes > 0

	labels := []string{fmt.Sprintf("users:%d", nUsers), fmt.Sprintf("cred-set:%d", set), fmt.Sprintf("states-visited:%d", maxStates)}
	if w.episodes > 0 {
		labels = append(labels, "case:jail-episode")
	}

	if maxStates >= 3 && m.refusedEffective >= 1 {
		labels = append(labels, "case:3-states+refusal")
	}

	ev.Case(nontrivial, ev.Hash(strings.Join(w.sent, "\n")), labels...)

	for l, n := range w.labels {
		ev.Class(l, n)
	}

	ev.Class("n:fresh-views", w.nObserved)
	ev.Class("n:login-attempts", len(w.attempts))

	if ev.WantSample() {
		ev.Sample(map[string]any{"users": w.creds, "sent": w.sent, "jail_episodes": w.episodes})
	}
}

func TestC18Machine(t *testing.T) {
	ev.Checks(300, 1500)
	rapid.Check(t, run)
}
