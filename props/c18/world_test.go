package c18

import (
	"os"
	"sync"
	"fmt"
	"regexp"
	"sort"
	"strconv"
	"strings"
	"time"

	"github.com/ProtonMail/gluon/imap"

	"verif/internal/bed"
	"verif/internal/imapc"
	"verif/internal/mach"
	"verif/props/c10"
)

// Jail is the configured login jail time of every bed of this package.
const Jail = 300 * time.Millisecond

// failf is how the world reports: *rapid.T and *testing.T both satisfy it.
type failer interface {
	Fatalf(format string, args ...any)
	Logf(format string, args ...any)
}

// ---------------------------------------------------------------------------------------------------------------------
// protocol states

type pstate int

const (
	stNotAuth pstate = iota
	stFailedLogin
	stAuth
	stSelRW
	stSelRO
	stAfterClose
	stAfterUnselect
	stAfterFailedSelect // RFC 3501 6.3.1: a failed SELECT/EXAMINE leaves no mailbox selected
	stLoggedOut
	stDead // BYE without LOGOUT (selected mailbox deleted by the user) or connection lost
)

var stateNames = map[pstate]string{
	stNotAuth: "not-authenticated", stFailedLogin: "after-failed-login", stAuth: "authenticated", stSelRW: "selected-rw",
	stSelRO: "selected-ro", stAfterClose: "after-close", stAfterUnselect: "after-unselect", stAfterFailedSelect: "after-failed-select",
	stLoggedOut: "after-logout", stDead: "dead",
}

func (s pstate) String() string { return stateNames[s] }

type sclass int

const (
	clNotAuth sclass = iota
	clNoSel
	clSel
	clGone
)

func (s pstate) class() sclass {
	switch s {
	case stNotAuth, stFailedLogin:
		return clNotAuth
	case stAuth, stAfterClose, stAfterUnselect, stAfterFailedSelect:
		return clNoSel
	case stSelRW, stSelRO:
		return clSel
	default:
		return clGone
	}
}

// command categories of RFC 3501 section 6 (+ the extensions gluon implements)
type ccat int

const (
	catAny ccat = iota
	catLogin
	catAuth
	catSelected
)

var categories = map[string]ccat{
	"CAPABILITY": catAny, "NOOP": catAny, "LOGOUT": catAny, "ID": catAny,
	"LOGIN":  catLogin,
	"SELECT": catAuth, "EXAMINE": catAuth, "CREATE": catAuth, "DELETE": catAuth, "RENAME": catAuth, "SUBSCRIBE": catAuth,
	"UNSUBSCRIBE": catAuth, "LIST": catAuth, "LSUB": catAuth, "STATUS": catAuth, "APPEND": catAuth, "IDLE": catAuth,
	"CHECK": catSelected, "CLOSE": catSelected, "EXPUNGE": catSelected, "UNSELECT": catSelected, "FETCH": catSelected,
	"STORE": catSelected, "COPY": catSelected, "MOVE": catSelected, "SEARCH": catSelected, "UID FETCH": catSelected,
	"UID STORE": catSelected, "UID COPY": catSelected, "UID MOVE": catSelected, "UID SEARCH": catSelected, "UID EXPUNGE": catSelected,
}

// ---------------------------------------------------------------------------------------------------------------------
// world

type cred struct{ User, Pass string }

type conn struct {
	idx  int
	name string
	cl   *imapc.Client

	state     pstate
	user      int    // index of the user the connection authenticated as, -1 before
	selPool   string // name (from the pool) of the selected mailbox, "" if none / not from the pool
	uncertain bool   // a CLOSE/UNSELECT/SELECT outcome left the selection undetermined: selected-state commands are not judged
	visited   map[pstate]bool
	nTag      int
	afterOut  int // commands sent after LOGOUT
}

func (c *conn) enter(s pstate) {
	c.state = s
	c.visited[s] = true
}

type attempt struct {
	send, recv time.Time
	ok         bool
	who        string
}

type world struct {
	t     failer
	b     *bed.Bed
	creds []cred
	conns []*conn

	pool []string // mailbox names that exist for at least one user at the start, plus names for CREATE/RENAME

	base  []*userSnap
	dirty []bool

	// jail model: consecutive failures since the last success or the last served jail
	fails     int
	third     time.Time // send time of the third consecutive failure (valid while fails == 3)
	episodes  int
	attempts  []attempt
	nObserved int

	labels map[string]int
	sent   []string // written-out case: every command line sent, with the connection

	// crash watch: a panic of a gluon goroutine leaves its client without an answer; the watcher then closes the
	// harness connections so that the blocked read returns at once instead of after the client watchdog
	mu      sync.Mutex
	tracked []*imapc.Client
	stop    chan struct{}
}

func (w *world) track(cl *imapc.Client) {
	w.mu.Lock()
	defer w.mu.Unlock()

	w.tracked = append(w.tracked, cl)
}

func (w *world) untrack(cl *imapc.Client) {
	w.mu.Lock()
	defer w.mu.Unlock()

	for i, c := range w.tracked {
		if c == cl {
			w.tracked = append(w.tracked[:i], w.tracked[i+1:]...)
			return
		}
	}
}

func (w *world) watch() {
	tick := time.NewTicker(20 * time.Millisecond)
	defer tick.Stop()

	for {
		select {
		case <-w.stop:
			return
		case <-tick.C:
			if len(w.b.Panics.Get()) == 0 {
				continue
			}

			w.mu.Lock()
			for _, c := range w.tracked {
				_ = c.Conn().Close()
			}
			w.mu.Unlock()

			return
		}
	}
}

func (w *world) label(l string) { w.labels[l]++ }

func (w *world) fatalf(format string, args ...any) {
	w.t.Fatalf("%s\nhistory:\n%s", fmt.Sprintf(format, args...), w.b.Hist)
}

// seeded layout: name -> users (indices) that own a mailbox of that name
var layout = []struct {
	name  string
	path  []string
	users []int
}{
	{"Common", []string{"Common"}, []int{0, 1, 2}},
	{"OnlyA", []string{"OnlyA"}, []int{0}},
	{"OnlyB", []string{"OnlyB"}, []int{1}},
	{"OnlyC", []string{"OnlyC"}, []int{2}},
	{"Duo", []string{"Duo"}, []int{0, 1}},
	{"Sub", []string{"Sub"}, []int{1, 2}},
	{"Sub/Deep", []string{"Sub", "Deep"}, []int{1, 2}},
}

var newNames = []string{"New1", "Common/kid", "OnlyA/x", "Fresh"}

func marker(user int, n int) string { return fmt.Sprintf("vmk-u%d-%d", user, n) }

var markerRE = regexp.MustCompile(`vmk-(u\d+|anon)-\d+`)

// newWorld starts a bed with the given users and seeds, through the connectors, per user: INBOX and the mailboxes
// of the layout, each with counts[i] messages carrying the user's marker.
// userIDs: nil lets the server make the user IDs up; otherwise the IDs the application chooses (Server.LoadUser).
var userIDs []string

func newWorld(t failer, creds []cred, perBox int) *world {
	specs := make([]bed.UserSpec, len(creds))
	for i, c := range creds {
		specs[i] = bed.UserSpec{Name: c.User, Pass: c.Pass}

		if i < len(userIDs) {
			specs[i].ID = userIDs[i]
		}
	}

	b, err := bed.Start(bed.Options{LoginJail: Jail, ClientTimeout: 30 * time.Second}, specs...)
	if err != nil {
		t.Fatalf("bed: %v", err)
	}

	w := &world{t: t, b: b, creds: creds, labels: map[string]int{}, stop: make(chan struct{})}

	go w.watch()
	w.base = make([]*userSnap, len(creds))
	w.dirty = make([]bool, len(creds))

	seen := map[string]bool{"INBOX": true}
	w.pool = []string{"INBOX"}

	for ui, u := range b.Users {
		want := &userSnap{}
		n := 0

		var created []*imap.MessageCreated

		add := func(name string, box imap.MailboxID) {
			bs := boxSnap{Name: name}

			for k := 0; k < perBox+(len(name)+ui)%2; k++ {
				n++
				mk := marker(ui, n)

				_, mc, err := u.Conn.NewRemoteMessage(mach.Msg(mk, ""), imap.NewFlagSet(), time.Unix(1600000000, 0), box)
				if err != nil {
					t.Fatalf("seed: %v", err)
				}

				created = append(created, mc)
				bs.Msgs = append(bs.Msgs, msgSnap{Marker: mk})
			}

			want.Boxes = append(want.Boxes, bs)
		}

		add("INBOX", u.Inbox.ID)

		for _, l := range layout {
			for _, o := range l.users {
				if o != ui {
					continue
				}

				mb, up := u.Conn.SeedMailbox(l.path...)
				if d := b.DeliverNow(u, up); d[0].Err != nil {
					t.Fatalf("seed mailbox: %v", d[0].Err)
				}

				add(l.name, mb.ID)

				if !seen[l.name] {
					seen[l.name] = true
					w.pool = append(w.pool, l.name)
				}
			}
		}

		// one update carries all messages of the user (in order: UIDs ascend in marker order within each mailbox)
		if d := b.DeliverNow(u, imap.NewMessagesCreated(false, created...)); d[0].Err != nil {
			t.Fatalf("seed: %v", d[0].Err)
		}

		sort.Slice(want.Boxes, func(i, j int) bool { return want.Boxes[i].Name < want.Boxes[j].Name })

		// the baseline must be exactly what was seeded: this also validates the observer and the mapping of
		// credentials to users before anything is judged with them
		got := w.observe(ui)
		w.base[ui] = got

		if g, e := got.content(), want.content(); g != e {
			w.fatalf("C18 violated (isolation at start): a new session of user %d (%q) sees\n  %s\nbut its account was seeded with\n  %s", ui, creds[ui].User, g, e)
		}
	}

	// users that the layout gives no mailbox "OnlyC" etc. when there are only two users: their names stay in the pool
	// on purpose (a name that exists for nobody).
	for _, l := range layout {
		if !seen[l.name] {
			w.pool = append(w.pool, l.name)
		}
	}

	return w
}

func (w *world) close() {
	select {
	case <-w.stop:
	default:
		close(w.stop)
	}

	for _, c := range w.conns {
		c.cl.Close()
	}

	w.b.Destroy()
}

// dial opens a new connection (state: not authenticated).
func (w *world) dial() *conn {
	idx := len(w.conns)

	s, err := w.b.Dial(fmt.Sprintf("c%d", idx))
	if err != nil {
		w.fatalf("harness: dial: %v", err)
	}

	w.track(s.Client)

	c := &conn{idx: idx, name: s.Name, cl: s.Client, user: -1, visited: map[pstate]bool{}}
	c.enter(stNotAuth)
	w.conns = append(w.conns, c)

	return c
}

// ---------------------------------------------------------------------------------------------------------------------
// wire

func printable(b []byte) string {
	s := strings.TrimSuffix(string(b), "\r\n")
	if len(s) > 300 {
		s = s[:200] + fmt.Sprintf("…[%d bytes]…", len(s)-250) + s[len(s)-50:]
	}

	return strconv.Quote(s)
}

// send writes an encoded command (pausing at every literal for the continuation request) and collects the responses
// up to the tagged one. For IDLE the continuation request is answered with DONE.
func (w *world) send(c *conn, tag string, enc c10.Encoded, idle bool) (res *imapc.Result, tSend, tRecv time.Time) {
	res = &imapc.Result{Cmd: printable(enc.Bytes), Tag: tag}
	w.b.Hist.Add("%s: C: %s", c.name, res.Cmd)
	w.sent = append(w.sent, c.name+" "+res.Cmd)

	defer func() { tRecv = time.Now() }()

	collect := func(r *imapc.Response) {
		if r.Tag == "*" && r.Status == "BYE" {
			res.Bye = true
		}

		res.Untagged = append(res.Untagged, r)
	}

	tagged := func(r *imapc.Response) bool {
		if r.Tag != tag {
			return false
		}

		res.Status, res.Code, res.Text = r.Status, r.Code, r.Text
		res.Untagged = append(res.Untagged, r) // kept for the marker scan; Status != "" and Tag != "*"

		return true
	}

	tSend = time.Now()
	pos := 0

	for _, g := range enc.Gates {
		if err := c.cl.Send(enc.Bytes[pos:g]); err != nil {
			res.Err = err
			return
		}

		pos = g

		for {
			r, err := c.cl.ReadResponse()
			if err != nil {
				res.Err = err
				return
			}

			if r.Tag == "+" {
				break
			}

			if tagged(r) {
				return
			}

			collect(r)
		}
	}

	if err := c.cl.Send(enc.Bytes[pos:]); err != nil {
		res.Err = err
		return
	}

	doneSent := false

	for {
		r, err := c.cl.ReadResponse()
		if err != nil {
			res.Err = err
			return
		}

		if r.Tag == "+" && idle && !doneSent {
			doneSent = true

			w.b.Hist.Add("%s: C: DONE", c.name)

			if err := c.cl.Send([]byte("DONE\r\n")); err != nil {
				res.Err = err
				return
			}

			continue
		}

		if tagged(r) {
			return
		}

		collect(r)
	}
}

// tokensText returns the text of every string token of a response (literals are abbreviated in Raw).
func tokensText(ts []imapc.Token, out *[]string) {
	for _, t := range ts {
		if t.Kind == imapc.List {
			tokensText(t.Items, out)
		} else {
			*out = append(*out, t.Str)
		}
	}
}

// foreignMarkers returns the markers in the responses that do not belong to the given user (-1: nobody's do).
func foreignMarkers(res *imapc.Result, user int) []string {
	var texts, bad []string

	for _, r := range res.Untagged {
		texts = append(texts, r.Raw)
		tokensText(r.Tokens, &texts)
	}

	own := fmt.Sprintf("u%d", user)

	for _, s := range texts {
		for _, m := range markerRE.FindAllStringSubmatch(s, -1) {
			if user < 0 || m[1] != own {
				bad = append(bad, m[0])
			}
		}
	}

	return bad
}

// dataResponses returns the untagged responses that are not status responses (and not the tagged one).
func dataResponses(res *imapc.Result) []*imapc.Response {
	var out []*imapc.Response

	for _, r := range res.Untagged {
		if r.Tag == res.Tag && r.Status != "" {
			continue
		}

		if r.Tag == "*" && r.Status != "" {
			continue
		}

		out = append(out, r)
	}

	return out
}

// ---------------------------------------------------------------------------------------------------------------------
// fresh views

type msgSnap struct {
	UID    uint32
	Flags  string
	Marker string
	Size   string
}

type boxSnap struct {
	Name        string
	Attrs       string
	Selectable  bool
	UIDValidity string
	UIDNext     string
	Msgs        []msgSnap
}

type userSnap struct {
	Boxes []boxSnap // sorted by name
	Lsub  []string  // sorted
}

// String is the full canonical form (compared for "unchanged").
func (s *userSnap) String() string {
	var sb strings.Builder

	for _, b := range s.Boxes {
		fmt.Fprintf(&sb, "%q(%s) uidvalidity=%s uidnext=%s:", b.Name, b.Attrs, b.UIDValidity, b.UIDNext)

		for _, m := range b.Msgs {
			fmt.Fprintf(&sb, " %d/%s/%s/%s", m.UID, m.Marker, m.Flags, m.Size)
		}

		sb.WriteString("\n  ")
	}

	fmt.Fprintf(&sb, "lsub=%q", s.Lsub)

	return sb.String()
}

// content is names + markers in order (what the seeding determines).
func (s *userSnap) content() string {
	var sb strings.Builder

	for _, b := range s.Boxes {
		fmt.Fprintf(&sb, "%q:", b.Name)

		for _, m := range b.Msgs {
			sb.WriteString(" " + m.Marker)
		}

		sb.WriteString("; ")
	}

	return sb.String()
}

func (s *userSnap) box(name string) *boxSnap {
	for i := range s.Boxes {
		if s.Boxes[i].Name == name {
			return &s.Boxes[i]
		}
	}

	return nil
}

// knows tells whether a name reported by LIST/LSUB to a session of this user is one of the user's names: a mailbox,
// a subscription, a superior of one of them (RFC 3501 6.3.8: "%" also yields superior levels), or the empty name.
func (s *userSnap) knows(name, delim string) bool {
	if name == "" {
		return true
	}

	match := func(have string) bool {
		return have == name || strings.HasPrefix(have, name+delim) || strings.HasPrefix(have, strings.TrimSuffix(name, delim)+delim)
	}

	for _, b := range s.Boxes {
		if match(b.Name) {
			return true
		}
	}

	for _, l := range s.Lsub {
		if match(l) {
			return true
		}
	}

	return false
}

func listNames(res *imapc.Result, kw string) (names []string, attrs []string) {
	for _, r := range res.Untagged {
		if r.Tag != "*" || r.Keyword() != kw || len(r.Tokens) < 4 {
			continue
		}

		var as []string
		for _, a := range r.Tokens[1].Items {
			// \Marked / \Unmarked follow \Recent, which a SELECT of the user's own sessions clears
			if l := strings.ToLower(a.Str); l != `\marked` && l != `\unmarked` {
				as = append(as, l)
			}
		}

		sort.Strings(as)

		names = append(names, r.Tokens[3].Str)
		attrs = append(attrs, strings.Join(as, " "))
	}

	return
}

func loginParts(c cred) []imapc.Part {
	arg := func(s string) imapc.Part {
		if c10.IsQuotable(s) {
			return imapc.T(bed.Quote(s))
		}

		return imapc.Ls(s)
	}

	return []imapc.Part{imapc.T("LOGIN "), arg(c.User), imapc.T(" "), arg(c.Pass)}
}

// observe is the fresh view of one user: a new connection logs in with the user's exact credentials, lists and
// examines everything and logs out. The login is an ordinary LOGIN attempt of the server-wide sequence: it is
// handed to the jail model (and, if it is the attempt after three failures, judged by it).
func (w *world) observe(user int) *userSnap {
	w.nObserved++

	cl, err := imapc.Dial(w.b.Addr, "obs", obsHist(w), 30*time.Second)
	if err != nil {
		w.fatalf("harness: observer dial: %v", err)
	}

	w.track(cl)

	defer func() {
		w.untrack(cl)
		cl.Close()
	}()

	w.b.Hist.Add("obs: fresh view of user %d (%q)", user, w.creds[user].User)

	t0 := time.Now()
	r := cl.CmdParts(loginParts(w.creds[user])...)
	t1 := time.Now()

	if r.Err != nil {
		w.transport("observer LOGIN", r.Err)
	}

	w.loginAttempt(t0, t1, r.OK(), "observer")

	if !r.OK() {
		w.fatalf("C18 violated: the exact credentials of user %d (%q) were refused: %v", user, w.creds[user].User, r)
	}

	must := func(cmd string) *imapc.Result {
		r := cl.Cmd(cmd)
		if r.Err != nil {
			w.transport("observer "+cmd, r.Err)
		}

		if !r.OK() {
			w.fatalf("harness: observer of user %d: %v", user, r)
		}

		return r
	}

	snap := &userSnap{}
	names, attrs := listNames(must(`LIST "" "*"`), "LIST")

	for i, n := range names {
		snap.Boxes = append(snap.Boxes, boxSnap{Name: n, Attrs: attrs[i], Selectable: !strings.Contains(attrs[i], `\noselect`)})
	}

	sort.Slice(snap.Boxes, func(i, j int) bool { return snap.Boxes[i].Name < snap.Boxes[j].Name })

	snap.Lsub, _ = listNames(must(`LSUB "" "*"`), "LSUB")
	sort.Strings(snap.Lsub)

	for i := range snap.Boxes {
		bs := &snap.Boxes[i]
		if !bs.Selectable {
			continue
		}

		ex := must("EXAMINE " + bed.Quote(bs.Name))
		count := -1

		for _, u := range ex.Untagged {
			if n, kw, ok := u.Num(); ok && kw == "EXISTS" {
				count = int(n)
			}

			if f := strings.Fields(u.Code); u.Status == "OK" && len(f) == 2 {
				switch strings.ToUpper(f[0]) {
				case "UIDVALIDITY":
					bs.UIDValidity = f[1]
				case "UIDNEXT":
					bs.UIDNext = f[1]
				}
			}
		}

		// the marker is also the Subject: ENVELOPE is answered from the database, without reading the message file
		fr := must("UID FETCH 1:* (FLAGS RFC822.SIZE ENVELOPE)")

		type row struct {
			seq uint32
			m   msgSnap
		}

		var rows []row

		for _, u := range fr.Untagged {
			n, kw, ok := u.Num()
			if !ok || kw != "FETCH" {
				continue
			}

			it, ok := imapc.FetchItems(u)
			if !ok {
				w.fatalf("harness: observer: malformed FETCH %s", u.Raw)
			}

			uid, _ := strconv.ParseUint(it["UID"].Str, 10, 32)
			m := msgSnap{UID: uint32(uid), Size: it["RFC822.SIZE"].Str,
				Flags: strings.Join(imapc.WithoutFlag(imapc.FlagSet(it["FLAGS"]), `\recent`), " ")}

			if env := it["ENVELOPE"]; len(env.Items) > 1 {
				m.Marker = env.Items[1].Str
			}

			rows = append(rows, row{n, m})
		}

		sort.Slice(rows, func(i, j int) bool { return rows[i].seq < rows[j].seq })

		for _, rw := range rows {
			bs.Msgs = append(bs.Msgs, rw.m)
		}

		if count != len(bs.Msgs) {
			w.fatalf("harness: observer of user %d: %q EXISTS %d but %d messages fetched", user, bs.Name, count, len(bs.Msgs))
		}
	}

	cl.Cmd("LOGOUT")

	// whatever else is true: an account only ever holds messages with its own user's markers
	own := fmt.Sprintf("vmk-u%d-", user)

	for _, b := range snap.Boxes {
		for _, m := range b.Msgs {
			if !strings.HasPrefix(m.Marker, own) {
				w.fatalf("C18 violated (isolation): mailbox %q of user %d (%q) holds a message with marker %q\nview: %s", b.Name, user, w.creds[user].User, m.Marker, snap)
			}
		}
	}

	return snap
}

// transport handles a connection error of a harness connection: a recorded panic is a crash, a timeout is inconclusive.
func (w *world) transport(what string, err error) {
	if p := w.b.CheckPanics(); p != nil {
		w.fatalf("C18 violated (crash): %v", p)
	}

	if err == imapc.ErrTimeout {
		w.fatalf("VERIF-INCONCLUSIVE: %s: no answer within the client watchdog", what)
	}

	w.fatalf("C18: %s: connection failed: %v", what, err)
}

// verifyViews compares the fresh views of every user except `actor` (who was allowed to change its own account;
// -1 = nobody was) with the views taken before.
func (w *world) verifyViews(actor int, why string) {
	for u := range w.creds {
		if u == actor {
			w.dirty[u] = true
			continue
		}

		snap := w.observe(u)

		if w.dirty[u] {
			w.base[u], w.dirty[u] = snap, false
			continue
		}

		if a, b := w.base[u].String(), snap.String(); a != b {
			w.fatalf("C18 violated: %s, but the fresh view of user %d (%q) changed\nbefore:\n  %s\nafter:\n  %s", why, u, w.creds[u].User, a, b)
		}
	}
}

// current returns an up-to-date fresh view of the user.
func (w *world) current(u int) *userSnap {
	if w.dirty[u] {
		w.base[u], w.dirty[u] = w.observe(u), false
	}

	return w.base[u]
}

// ---------------------------------------------------------------------------------------------------------------------
// jail model

// loginAttempt feeds one LOGIN attempt that reached the credential check (sent on a not authenticated connection)
// to the model of gluon's documented counter: three consecutive failures (server-wide) arm the jail; the next attempt,
// whatever its credentials, is answered no earlier than send(3rd failure) + jail, and counting starts again.
func (w *world) loginAttempt(send, recv time.Time, ok bool, who string) {
	w.attempts = append(w.attempts, attempt{send, recv, ok, who})

	if w.fails == 3 {
		w.episodes++
		w.label("jail:episode")
		w.label("jail:next-by-" + who)

		if ok {
			w.label("jail:next-ok")
		} else {
			w.label("jail:next-fails")
		}

		if d := recv.Sub(w.third); d < Jail {
			w.fatalf("C18 violated (login jail): three consecutive LOGIN attempts failed, the third was sent at T; the next attempt (%s, ok=%v) was answered at T+%v, earlier than the jail time %v", who, ok, d, Jail)
		}

		w.fails = 0
	}

	if ok {
		w.fails = 0
		return
	}

	w.fails++

	if w.fails == 3 {
		w.third = send
	}
}

func obsHist(w *world) *imapc.History {
	if os.Getenv("C18_OBS_HIST") != "" {
		return w.b.Hist
	}

	return nil
}
