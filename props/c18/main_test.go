package c18

import (
	"testing"

	"verif/internal/ev"
)

func TestMain(m *testing.M) {
	ev.Main(m, "C18", "exploration",
		"rapid state machine: one server (login jail 300 ms) with 2-3 users (distinct passwords, overlapping mailbox names, per-user message markers) and up to 4 connections, each tracked through the protocol states {not authenticated, after failed LOGIN, authenticated, selected rw, selected ro, after CLOSE, after UNSELECT, after failed SELECT, after LOGOUT}; every step sends any command of C10's grammar generator (arguments retargeted to existing mailboxes of every user and valid sets) or a LOGIN with a drawn credential pair in a drawn encoding; oracle = protocol-state model for the status, marker/name scan of everything a session is told, fresh views (new login + LIST/LSUB + EXAMINE/UID FETCH of every mailbox) of ALL users compared before/after, server-wide model of the login failure counter with a lower time bound for the attempt after three failures. Non-trivial: a case in which one connection visited >= 3 protocol states and >= 1 command with effective arguments was refused by the state model, or a case with a jail episode; distinct by hash of the sent bytes.",
		"fresh views are taken by logging in: these logins are part of the server-wide sequence of LOGIN attempts and are fed to the jail model like every other attempt",
		"the jail bound is a lower bound only: response(next attempt) >= send(3rd consecutive failure) + jail, measured with the monotonic clock; no upper bound is asserted",
		"STARTTLS is not sent (no TLS configured: candidate finding of C11); DONE is sent only to end an IDLE")
}
