package c18

import (
	"testing"
	"time"
)

func TestTimingDebug(t *testing.T) {
	t0 := time.Now()
	w := newWorld(t, credSets[0], 1)
	t.Logf("newWorld: %v (observes %d)", time.Since(t0), w.nObserved)

	t0 = time.Now()
	for i := 0; i < 300; i++ {
		w.observe(i % 3)
	}
	t.Logf("observe avg: %v", time.Since(t0)/300)

	t0 = time.Now()
	w.close()
	t.Logf("close: %v", time.Since(t0))
}

var dbgObs, dbgCases, dbgAttempts, dbgEpisodes, dbgSent int

func TestTimingMachine(t *testing.T) {
	t0 := time.Now()
	TestC18Machine(t)
	t.Logf("cases=%d obs=%d attempts=%d episodes=%d sent=%d wall=%v", dbgCases, dbgObs, dbgAttempts, dbgEpisodes, dbgSent, time.Since(t0))
}

func TestTimingBed(t *testing.T) {
	for k := 0; k < 3; k++ {
		t0 := time.Now()
		b, err := bedStart()
		if err != nil {
			t.Fatal(err)
		}
		t.Logf("bed.Start 3 users: %v", time.Since(t0))
		b.Destroy()
	}
}
