package c18

import (
	"fmt"
	"regexp"
	"sort"
	"strings"
	"testing"
	"time"

	"verif/internal/imapc"
	"verif/internal/kf"
	"verif/props/c10"
)

// Plain scripts (no rapid): the documented behaviour of gluon's own tests (tests/state_test.go, login_test.go,
// multi_user_test.go) with the oracles of this package, and the regression of the listed finding.

// cmd sends a command given as text; literals are written as {n}\r\n inside the text.
func (w *world) cmd(c *conn, text string) *imapc.Result {
	c.nTag++
	tag := fmt.Sprintf("%s.%d", c.name, c.nTag)
	enc := c10.Encoded{Bytes: []byte(tag + " " + text + "\r\n")}

	for _, loc := range literalRE.FindAllIndex(enc.Bytes, -1) {
		enc.Gates = append(enc.Gates, loc[1])
	}

	res, _, _ := w.send(c, tag, enc, strings.EqualFold(text, "IDLE"))
	if res.Err != nil && c.state != stLoggedOut {
		w.transport(text, res.Err)
	}

	return res
}

var literalRE = regexp.MustCompile(`\{\d+\}\r\n`)

func (w *world) loginAs(c *conn, u int) {
	t0 := time.Now()
	r := w.cmd(c, fmt.Sprintf("LOGIN %q %q", w.creds[u].User, w.creds[u].Pass))
	w.loginAttempt(t0, time.Now(), r.OK(), "script")

	if !r.OK() {
		w.fatalf("login of user %d: %v", u, r)
	}

	c.user = u
	c.enter(stAuth)
}

func scriptWorld(t *testing.T, set int) *world {
	t.Helper()

	userIDs = nil

	w := newWorld(t, credSets[set], 1)
	t.Cleanup(w.close)

	return w
}

func refused(r *imapc.Result) bool { return r.Status == "NO" || r.Status == "BAD" }

const anonMsg = "From: a@b.c\r\nDate: Mon, 02 Jan 2006 15:04:05 +0000\r\nSubject: vmk-anon-1\r\nX-Verif-Marker: vmk-anon-1\r\n\r\nx\r\n"

var (
	authCommands = []string{"SELECT INBOX", "EXAMINE INBOX", "CREATE Fresh", "DELETE Common", "RENAME Common Fresh", "SUBSCRIBE Common",
		"UNSUBSCRIBE Common", `LIST "" *`, `LSUB "" *`, "STATUS INBOX (MESSAGES)", "IDLE",
		fmt.Sprintf("APPEND INBOX {%d}\r\n%s", len(anonMsg), anonMsg)}
	selCommands = []string{"CHECK", "CLOSE", "EXPUNGE", "UID EXPUNGE 1", "UNSELECT", "SEARCH ALL", "FETCH 1 (UID)", `STORE 1 +FLAGS (\Deleted)`,
		"COPY 1 Common", "MOVE 1 Common", "UID COPY 1 Common", "UID MOVE 1 Common", "UID FETCH 1 (FLAGS)", `UID STORE 1 FLAGS (\Seen)`, "UID SEARCH ALL"}
)

// Before LOGIN, after a failed LOGIN, and (for the selected-state commands) after LOGIN, after CLOSE and after UNSELECT:
// refused, no data, nothing changes for anybody.
func TestScriptGating(t *testing.T) {
	w := scriptWorld(t, 0)

	try := func(c *conn, cmds []string) {
		for _, text := range cmds {
			r := w.cmd(c, text)
			if !refused(r) || len(dataResponses(r)) > 0 {
				w.fatalf("C18 violated: %q in state %s must be refused without data: %v", text, c.state, r)
			}

			if bad := foreignMarkers(r, c.user); len(bad) > 0 {
				w.fatalf("C18 violated: %q in state %s leaked %q", text, c.state, bad)
			}
		}

		w.verifyViews(-1, "only refused commands were sent in state "+c.state.String())
	}

	c := w.dial()
	try(c, append(append([]string{}, authCommands...), selCommands...))

	for _, text := range []string{"CAPABILITY", "NOOP", `ID ("name" "x")`, "ID NIL"} {
		if r := w.cmd(c, text); !r.OK() {
			w.fatalf("C18 violated: %q before LOGIN: %v", text, r)
		}
	}

	t0 := time.Now()
	r := w.cmd(c, `LOGIN alice wrong`)
	w.loginAttempt(t0, time.Now(), r.OK(), "script")

	if !refused(r) {
		w.fatalf("C18 violated: wrong password authenticated: %v", r)
	}

	c.enter(stFailedLogin)
	try(c, append(append([]string{}, authCommands...), selCommands...))

	w.loginAs(c, 0)
	try(c, selCommands)

	for _, second := range []string{`LOGIN alice pass-A`, `LOGIN bob pass-B`, `LOGIN bob wrong`} {
		if r := w.cmd(c, second); !refused(r) {
			w.fatalf("C18 violated: second LOGIN answered %v", r)
		}
	}

	for _, leave := range []string{"CLOSE", "UNSELECT"} {
		if r := w.cmd(c, "SELECT Common"); !r.OK() {
			w.fatalf("SELECT: %v", r)
		}

		if r := w.cmd(c, leave); !r.OK() {
			w.fatalf("%s: %v", leave, r)
		}

		try(c, selCommands)
	}

	// still alice: a second LOGIN with bob's credentials did not switch the user
	r = w.cmd(c, `LIST "" *`)
	names, _ := listNames(r, "LIST")

	sort.Strings(names)

	if got, want := strings.Join(names, ","), "Common,Duo,INBOX,OnlyA"; got != want {
		w.fatalf("C18 violated: session of alice lists %q, want %q", got, want)
	}

	if r := w.cmd(c, "LOGOUT"); !r.OK() || !r.Bye {
		w.fatalf("LOGOUT: %v", r)
	}

	c.enter(stLoggedOut)

	if r := w.cmd(c, "SELECT INBOX"); r.Status != "" {
		w.fatalf("C18 violated: command after LOGOUT answered: %v", r)
	}

	w.verifyViews(-1, "nothing but refused commands, SELECT, CLOSE and UNSELECT were sent")
}

// A session sees and affects only the mailboxes of the user it authenticated as.
func TestScriptIsolation(t *testing.T) {
	for set := range credSets {
		w := scriptWorld(t, set)

		for u := range w.creds {
			c := w.dial()
			w.loginAs(c, u)

			own := w.base[u]

			for _, l := range layout {
				mine := own.box(l.name) != nil

				for _, verb := range []string{"SELECT", "EXAMINE", "STATUS"} {
					text := fmt.Sprintf("%s %q", verb, l.name)
					if verb == "STATUS" {
						text += " (MESSAGES)"
					}

					r := w.cmd(c, text)
					if r.OK() != mine {
						w.fatalf("C18 violated (isolation): user %d, %s: %v (own mailbox: %v)", u, text, r, mine)
					}

					if bad := foreignMarkers(r, u); len(bad) > 0 {
						w.fatalf("C18 violated (isolation): %s leaked %q", text, bad)
					}

					if !r.OK() || verb == "STATUS" {
						continue
					}

					f := w.cmd(c, "FETCH 1:* (UID ENVELOPE BODY.PEEK[])")
					if !f.OK() {
						w.fatalf("FETCH: %v", f)
					}

					if bad := foreignMarkers(f, u); len(bad) > 0 {
						w.fatalf("C18 violated (isolation): user %d fetched markers %q from %q", u, bad, l.name)
					}

					if n := len(dataResponses(f)); n != len(own.box(l.name).Msgs) {
						w.fatalf("C18 violated (isolation): user %d fetched %d messages from %q, holds %d", u, n, l.name, len(own.box(l.name).Msgs))
					}

					if s := w.cmd(c, "SEARCH SUBJECT vmk-u"); !s.OK() {
						w.fatalf("SEARCH: %v", s)
					}

					w.cmd(c, "UNSELECT")
				}
			}

			r := w.cmd(c, `LIST "" *`)
			names, _ := listNames(r, "LIST")

			for _, n := range names {
				if own.box(n) == nil {
					w.fatalf("C18 violated (isolation): user %d is told about mailbox %q", u, n)
				}
			}

			if len(names) != len(own.Boxes) {
				w.fatalf("C18 violated: user %d lists %q, owns %d mailboxes", u, names, len(own.Boxes))
			}

			// writes: into own account only
			other := (u + 1) % len(w.creds)
			foreign := []string{"OnlyA", "OnlyB", "OnlyC"}[other]

			msg := fmt.Sprintf("From: a@b.c\r\nDate: Mon, 02 Jan 2006 15:04:05 +0000\r\nSubject: %s\r\nX-Verif-Marker: %s\r\n\r\nx\r\n", marker(u, 900), marker(u, 900))
			if r := w.cmd(c, fmt.Sprintf("APPEND %s {%d}\r\n%s", foreign, len(msg), msg)); r.OK() {
				w.fatalf("C18 violated (isolation): user %d appended to %q of user %d: %v", u, foreign, other, r)
			}

			w.verifyViews(-1, fmt.Sprintf("user %d read its own mailboxes and was refused elsewhere", u))

			if r := w.cmd(c, fmt.Sprintf("APPEND Common {%d}\r\n%s", len(msg), msg)); !r.OK() {
				w.fatalf("APPEND: %v", r)
			}

			for _, text := range []string{"CREATE " + foreign, "SELECT Common", `STORE 1:* +FLAGS (\Deleted \Seen)`, "EXPUNGE", "COPY 1:* INBOX", "CLOSE",
				"DELETE " + foreign, "RENAME Common Gone", "UNSUBSCRIBE INBOX"} {
				w.cmd(c, text)
			}

			w.verifyViews(u, fmt.Sprintf("only user %d wrote", u))
			w.cmd(c, "LOGOUT")
		}

		w.close()
	}
}

// Only exact pairs authenticate.
func TestScriptCredentials(t *testing.T) {
	for set := range credSets {
		w := scriptWorld(t, set)

		var tries []cred

		for i, a := range w.creds {
			for j, b := range w.creds {
				if i != j {
					tries = append(tries, cred{a.User, b.Pass})
				}
			}

			tries = append(tries, cred{a.User, ""}, cred{"", a.Pass}, cred{"", ""}, cred{flipCase(a.User), a.Pass}, cred{a.User, flipCase(a.Pass)},
				cred{strings.ToUpper(a.User), strings.ToUpper(a.Pass)}, cred{strings.ToLower(a.User), strings.ToLower(a.Pass)},
				cred{a.User, a.Pass[:len(a.Pass)-1]}, cred{a.User, a.Pass + " "}, cred{a.User + " ", a.Pass}, cred{a.Pass, a.User},
				cred{"nobody", a.Pass}, cred{a.User, "x"}, cred{a.User[:1], a.Pass}, cred{"*", a.Pass}, cred{a.User, "*"}, cred{"%", "%"})
		}

		exact := func(c cred) int {
			for i, k := range w.creds {
				if k == c {
					return i
				}
			}

			return -1
		}

		c := w.dial()

		for _, cr := range tries {
			if exact(cr) >= 0 {
				continue
			}

			// keep the failure counter below three: this script is not about the jail
			if w.fails == 2 {
				w.observe(0)
			}

			t0 := time.Now()
			r := c.cl.CmdParts(loginParts(cr)...)
			w.loginAttempt(t0, time.Now(), r.OK(), "script")

			if r.Err != nil {
				w.transport("LOGIN", r.Err)
			}

			if !refused(r) {
				w.fatalf("C18 violated: LOGIN %q %q authenticated (users %q): %v", cr.User, cr.Pass, w.creds, r)
			}
		}

		w.verifyViews(-1, "only failing LOGINs were sent")
		w.close()
	}
}

// The jail: lower bound only.
func TestScriptJail(t *testing.T) {
	w := scriptWorld(t, 0)

	conns := []*conn{w.dial(), w.dial(), w.dial()}

	attempt := func(c *conn, user, pass string) bool {
		t0 := time.Now()
		r := w.cmd(c, fmt.Sprintf("LOGIN %q %q", user, pass))
		w.loginAttempt(t0, time.Now(), r.OK(), "script")

		return r.OK()
	}

	// failures before a success do not count: F F S F F | F -> jail -> next
	attempt(conns[0], "alice", "x")
	attempt(conns[1], "bob", "pass-A")
	w.observe(1)
	attempt(conns[2], "carol", "")
	attempt(conns[0], "alice", "pass-a")
	attempt(conns[1], "nobody", "pass-B")

	if w.fails != 3 {
		t.Fatalf("script: model counter %d", w.fails)
	}

	// the next attempt has the right credentials and comes from another connection: it is held back all the same
	if !attempt(conns[2], "carol", "pass-C") {
		w.fatalf("C18 violated: exact credentials refused after the jail")
	}

	// a second episode on the same server; the attempt after it fails
	attempt(conns[0], "alice", "x")
	attempt(conns[0], "alice", "y")
	attempt(conns[1], "alice", "z")
	attempt(conns[1], "alice", "pass-A ")

	// and a third, served by a fresh view
	attempt(conns[0], "alice", "x")
	attempt(conns[0], "alice", "y")
	w.observe(0)

	if w.episodes != 3 {
		t.Fatalf("script: %d jail episodes judged, want 3", w.episodes)
	}
}

// known: RFC 3501 6.3.1 "if a mailbox is selected and a SELECT command that fails is attempted, no mailbox is
// selected" - gluon keeps the previous mailbox selected, so commands that need a selected mailbox are accepted
// although the session has none.
func TestKnown_C18_failed_select_keeps_selection(t *testing.T) {
	w := scriptWorld(t, 0)
	c := w.dial()
	w.loginAs(c, 0)

	var repro []string

	for _, failing := range []string{"SELECT NoSuchBox", "EXAMINE NoSuchBox", "SELECT OnlyB", "SELECT &", "EXAMINE {3}\r\n&-&"} {
		if r := w.cmd(c, "SELECT Common"); !r.OK() {
			w.fatalf("SELECT: %v", r)
		}

		if r := w.cmd(c, failing); !refused(r) {
			w.fatalf("C18: %s: %v", failing, r)
		}

		for _, text := range []string{"FETCH 1 (UID)", "CHECK", `STORE 1 +FLAGS (\Flagged)`, "CLOSE"} {
			if r := w.cmd(c, text); r.OK() {
				repro = append(repro, fmt.Sprintf("%s after failed %q", text, failing))
			}
		}
	}

	if len(repro) == 0 {
		return // no longer reproduces
	}

	if !kf.Report(KfFailedSelect) {
		w.fatalf("C18 violated (not listed as known): after a failed SELECT/EXAMINE no mailbox is selected (RFC 3501 6.3.1), but these commands were accepted: %q", repro)
	}
}
