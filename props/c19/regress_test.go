package c19

import (
	"encoding/json"
	"os"
	"os/exec"
	"path/filepath"
	"strings"
	"testing"
)

// fixed (see known_findings.json): the EXISTS responder of a new message is shared by all states of the user; the state
// that gets \Recent used the responder's flag set itself as the flag set of its snapshot entry, and FETCH BODY[] adds
// \Seen to that set in place while the other sessions' flushes read it: data race on a Go map.
func TestRegress_SharedExistsFlagSet(t *testing.T) {
	var sc scenario

	sc.NUsers, sc.Teardown = 1, "logout-close"

	writer := script{Box: "INBOX"}
	for i := 0; i < 8; i++ {
		writer.Steps = append(writer.Steps, step{Kind: "append", Text: "INBOX"}, step{Kind: "cmd", Text: "FETCH 1:* BODY[]"})
	}

	writer.Steps = append(writer.Steps, step{Kind: "logout"})
	sc.Scripts = append(sc.Scripts, writer)

	for k := 0; k < 3; k++ {
		reader := script{Box: "INBOX"}
		for i := 0; i < 24; i++ {
			reader.Steps = append(reader.Steps, step{Kind: "cmd", Text: "NOOP"})
		}

		reader.Steps = append(reader.Steps, step{Kind: "logout"})
		sc.Scripts = append(sc.Scripts, reader)
	}

	for round := 0; round < 6; round++ {
		dir, err := os.MkdirTemp("", "c19-regress-")
		if err != nil {
			t.Fatalf("harness: %v", err)
		}

		raw, _ := json.Marshal(sc)
		if err := os.WriteFile(filepath.Join(dir, "scenario.json"), raw, 0o644); err != nil {
			t.Fatalf("harness: %v", err)
		}

		cmd := exec.Command(os.Args[0], "-test.run=^TestChildScenario$", "-test.count=1", "-test.timeout=600s")
		cmd.Env = append(os.Environ(),
			"C19_SCENARIO="+filepath.Join(dir, "scenario.json"),
			"C19_OUTCOME="+filepath.Join(dir, "outcome.json"),
			"GORACE=log_path="+filepath.Join(dir, "race")+" halt_on_error=0 history_size=3",
			"VERIF_PARTS_DIR=", "TMPDIR="+dir)

		output, _ := cmd.CombinedOutput()

		var races []string

		logs, _ := filepath.Glob(filepath.Join(dir, "race.*"))
		for _, l := range logs {
			b, _ := os.ReadFile(l)
			races = append(races, splitRaceReports(string(b))...)
		}

		races = append(races, splitRaceReports(string(output))...)
		os.RemoveAll(dir)

		for _, r := range races {
			if strings.Contains(r, "targetedExists") && strings.Contains(r, "FlagSet") {
				t.Fatalf("C19 violated: data race (round %d)\n%s", round, r)
			}
		}
	}
}

// fixed (see known_findings.json): a session that ends while more updates are queued for it than its update channel
// buffers (32) left the goroutine of the queue behind for ever (State.Close closed the queue without discarding).
// Found by the contention family; schedule dependent, so the scenario is repeated a few times.
func TestRegress_QueueOfClosedStateLeaks(t *testing.T) {
	var sc scenario

	sc.NUsers, sc.Teardown, sc.Seed, sc.NoParallel = 1, "logout-close", 120, true

	for k := 0; k < 3; k++ {
		writer := script{Box: "INBOX"}
		for i := 0; i < 24; i++ {
			writer.Steps = append(writer.Steps, step{Kind: "cmd", Text: []string{`STORE 1:* FLAGS (\Flagged)`, `STORE 1:* FLAGS (\Answered kw)`, `STORE 1:* +FLAGS (\Draft)`}[i%3]})
		}

		writer.Steps = append(writer.Steps, step{Kind: "logout"})
		sc.Scripts = append(sc.Scripts, writer)
	}

	// readers that leave early, in the middle of the traffic
	for k := 0; k < 8; k++ {
		reader := script{Box: "INBOX"}
		for i := 0; i < k%3; i++ {
			reader.Steps = append(reader.Steps, step{Kind: "cmd", Text: "FETCH 1:* BODY.PEEK[]"})
		}

		reader.Steps = append(reader.Steps, step{Kind: "logout"})
		sc.Scripts = append(sc.Scripts, reader)
	}

	for round := 0; round < 4; round++ {
		dir, err := os.MkdirTemp("", "c19-regress-")
		if err != nil {
			t.Fatalf("harness: %v", err)
		}

		raw, _ := json.Marshal(sc)
		if err := os.WriteFile(filepath.Join(dir, "scenario.json"), raw, 0o644); err != nil {
			t.Fatalf("harness: %v", err)
		}

		cmd := exec.Command(os.Args[0], "-test.run=^TestChildScenario$", "-test.count=1", "-test.timeout=600s")
		cmd.Env = append(os.Environ(),
			"C19_SCENARIO="+filepath.Join(dir, "scenario.json"),
			"C19_OUTCOME="+filepath.Join(dir, "outcome.json"),
			"GORACE=log_path="+filepath.Join(dir, "race")+" halt_on_error=0 history_size=3",
			"VERIF_PARTS_DIR=", "TMPDIR="+dir)

		_, _ = cmd.CombinedOutput()

		var out outcome

		ob, err := os.ReadFile(filepath.Join(dir, "outcome.json"))
		os.RemoveAll(dir)

		if err != nil || json.Unmarshal(ob, &out) != nil {
			continue
		}

		for _, p := range out.Problems {
			if strings.Contains(p, "still alive") && strings.Contains(p, "NewQueuedChannel") {
				t.Fatalf("%s (round %d)", p, round)
			}
		}
	}
}
