package c19

import (
	"testing"

	"verif/internal/ev"
)

func TestMain(m *testing.M) {
	ev.Main(m, "C19", "exploration",
		"rapid draws a scenario: 2-12 sessions with a script each (message and namespace commands on shared and distinct mailboxes, IDLE, a literal left half-sent), connections that never log in and stay open (optionally with a LOGIN left in its literal), a connector update stream (which in half of the scenarios goes on offering updates during the teardown) and a teardown (LOGOUT, abrupt close in any protocol state incl. IDLE and mid-literal, RemoveUser with live sessions, Close while commands are in flight); the scripts run truly concurrently (one goroutine per session, update gate open), the binary is built with -race. Oracle: no data-race report, no recorded panic, every client call / RemoveUser / Close returns within the watchdog (on expiry the goroutine dump must show gluon goroutines blocked for >= 1 minute to count as a deadlock, else the run is inconclusive), after Close has returned - the context given to Serve still alive, the clients that never logged in still connected - no goroutine with a gluon frame is left, and a fresh server on the same directories opens and reads every mailbox. Non-trivial: a scenario in which >= 2 sessions overlapped in time on the same mailbox and >= 1 teardown happened while another session still had commands to run; distinct by hash of the drawn scenario.",
		"only interleavings the Go scheduler produces are seen; failures are not shrinkable (the replay file is the scenario plus the race / deadlock report)")
}
