package c19

import (
	"context"
	"encoding/json"
	"fmt"
	"net"
	"os"
	"os/exec"
	"path/filepath"
	"regexp"
	"runtime"
	"sort"
	"strings"
	"sync"
	"sync/atomic"
	"testing"
	"time"

	"github.com/ProtonMail/gluon/imap"
	"pgregory.net/rapid"

	"verif/internal/bed"
	"verif/internal/ev"
	"verif/internal/imapc"
	"verif/internal/kf"
	"verif/internal/mach"
)

const watchdog = 90 * time.Second

// step kinds of a session script
type step struct {
	Kind string // cmd, append, idle, halfliteral, abort, abort-idle, abort-reset, wait-writers, logout
	Text string

	DelayUS int `json:",omitempty"` // abort-reset: microseconds between the command and the reset
}

type script struct {
	User  int
	Box   string
	Steps []step

	// NoLogin: the connection never authenticates (CAPABILITY / NOOP only, optionally a LOGIN left in the middle of its
	// literal) and stays open until the server ends it.
	NoLogin     bool
	HalfLiteral bool

	// Writer: the steps "wait-writers" of the other scripts wait until every script marked so has ended.
	Writer bool
}

type scenario struct {
	NUsers     int
	Scripts    []script
	Updates    []string // connector stream: create:<box>, flag, delete, bump, mboxcreate, noop
	Teardown   string   // logout-close, close, removeuser-close, removeuser-files
	NoParallel bool
	IdleBulk   time.Duration
	StreamOn   bool // the connector goes on offering updates during the teardown
	Seed       int  // messages in INBOX at the start, beyond the usual three (a change of 1:* then pushes that many responses to every idling session)
}

// outcome is what the child process reports about one scenario.
type outcome struct {
	Problems     []string
	Inconclusive []string
	Overlap      bool
	Torn         bool
}

var boxes = []string{"INBOX", "A", "B"}

func drawScenario(t *rapid.T) scenario {
	sc := scenario{NUsers: rapid.IntRange(1, 2).Draw(t, "users")}
	sc.NoParallel = rapid.Bool().Draw(t, "noParallel")

	if rapid.Bool().Draw(t, "bulk") {
		sc.IdleBulk = 5 * time.Millisecond
	}

	n := rapid.IntRange(2, 12).Draw(t, "sessions")
	cmds := []string{
		"NOOP", "CHECK", "FETCH 1:* (FLAGS UID)", "FETCH 1 BODY[]", "UID FETCH 1:* BODY.PEEK[HEADER]", "SEARCH ALL", "UID SEARCH UNSEEN",
		`STORE 1 +FLAGS (\Seen)`, `STORE 1:* +FLAGS.SILENT (\Deleted)`, `STORE 1:* -FLAGS (\Deleted)`, "EXPUNGE",
		`STORE 1:* FLAGS (\Flagged)`, `STORE 1:* FLAGS.SILENT (\Answered kw)`, "FETCH 1:* (FLAGS BODY[])", "FETCH 1:* (FLAGS)", "COPY 1 A", "COPY 1:* INBOX", "MOVE 1 B", "UID MOVE 1:* A",
		"STATUS INBOX (MESSAGES UIDNEXT)", `LIST "" *`, `LSUB "" %`, "CREATE X/Y", "DELETE X/Y", "RENAME X Z", "DELETE Z", "SUBSCRIBE A", "UNSUBSCRIBE A",
		"SELECT A", "EXAMINE B", "SELECT INBOX", "CLOSE", "UNSELECT", "CAPABILITY", "DELETE B", "CREATE B",
	}

	for i := 0; i < n; i++ {
		s := script{User: rapid.IntRange(0, sc.NUsers-1).Draw(t, "user"), Box: boxes[rapid.IntRange(0, len(boxes)-1).Draw(t, "box")]}
		k := rapid.IntRange(1, 12).Draw(t, "len")

		for j := 0; j < k; j++ {
			switch rapid.IntRange(0, 9).Draw(t, "kind") {
			case 0, 1:
				s.Steps = append(s.Steps, step{Kind: "append", Text: boxes[rapid.IntRange(0, len(boxes)-1).Draw(t, "abox")]})
			case 2:
				s.Steps = append(s.Steps, step{Kind: "idle"})
			default:
				s.Steps = append(s.Steps, step{Kind: "cmd", Text: cmds[rapid.IntRange(0, len(cmds)-1).Draw(t, "cmd")]})
			}
		}

		s.Steps = append(s.Steps, step{Kind: []string{"logout", "abort", "abort-idle", "halfliteral", "stay", "stay"}[rapid.IntRange(0, 5).Draw(t, "end")]})

		if rapid.IntRange(0, 5).Draw(t, "noLogin") == 0 {
			s.NoLogin, s.HalfLiteral = true, rapid.Bool().Draw(t, "halfLogin")
			s.Steps = nil
		}

		sc.Scripts = append(sc.Scripts, s)
	}

	for i, k := 0, rapid.IntRange(0, 15).Draw(t, "nupd"); i < k; i++ {
		sc.Updates = append(sc.Updates, []string{"create:INBOX", "create:A", "flag", "delete", "boxes", "mboxcreate", "noop", "bump"}[rapid.IntRange(0, 7).Draw(t, "upd")])
	}

	sc.Teardown = []string{"logout-close", "close", "close", "removeuser-close", "removeuser-files"}[rapid.IntRange(0, 4).Draw(t, "teardown")]
	sc.StreamOn = rapid.Bool().Draw(t, "streamOn")

	return sc
}

func (sc scenario) describe() []string {
	res := []string{fmt.Sprintf("users=%d teardown=%s bulk=%v nopar=%v updates=%v streamThroughTeardown=%v seed=%d", sc.NUsers, sc.Teardown, sc.IdleBulk, sc.NoParallel, sc.Updates, sc.StreamOn, 3+sc.Seed)}

	for i, s := range sc.Scripts {
		var st []string
		for _, x := range s.Steps {
			st = append(st, strings.TrimSpace(x.Kind+" "+x.Text))
		}

		if s.NoLogin {
			res = append(res, fmt.Sprintf("s%d never logs in (LOGIN left in its literal: %v), stays connected", i, s.HalfLiteral))
			continue
		}

		res = append(res, fmt.Sprintf("s%d user%d %s: %s", i, s.User, s.Box, strings.Join(st, "; ")))
	}

	return res
}

type problem struct {
	mu   sync.Mutex
	msgs []string
	inc  []string
}

func (p *problem) add(format string, a ...any) {
	p.mu.Lock()
	defer p.mu.Unlock()

	p.msgs = append(p.msgs, fmt.Sprintf(format, a...))
}

func (p *problem) inconclusive(format string, a ...any) {
	p.mu.Lock()
	defer p.mu.Unlock()

	p.inc = append(p.inc, fmt.Sprintf(format, a...))
}

var blockedLong = regexp.MustCompile(`(?m)^goroutine \d+ \[(semacquire|sync\.Mutex\.Lock|sync\.RWMutex\.(R)?Lock|chan receive|chan send|select|sync\.Cond\.Wait|sync\.WaitGroup\.Wait), (\d+) minutes\]:`)

// stuck judges a watchdog expiry: a deadlock needs gluon goroutines that have been blocked for at least a minute.
func stuck(p *problem, what string) {
	buf := make([]byte, 8<<20)
	buf = buf[:runtime.Stack(buf, true)]

	var evid []string

	for _, g := range strings.Split(string(buf), "\n\n") {
		if blockedLong.MatchString(g) && strings.Contains(g, "github.com/ProtonMail/gluon") {
			evid = append(evid, g)
		}
	}

	if len(evid) > 0 {
		p.add("C19 violated: %s did not return within %v; gluon goroutines blocked for over a minute:\n%s", what, watchdog, strings.Join(evid, "\n\n"))
	} else {
		p.inconclusive("VERIF-INCONCLUSIVE: %s did not return within %v, but no gluon goroutine has been blocked for a minute (slow machine?)", what, watchdog)
	}
}

// within runs fn under the watchdog.
func within(p *problem, what string, fn func()) bool {
	done := make(chan struct{})

	go func() {
		defer close(done)
		fn()
	}()

	select {
	case <-done:
		return true
	case <-time.After(watchdog):
		stuck(p, what)
		return false
	}
}

func gluonGoroutines() []string {
	buf := make([]byte, 8<<20)
	buf = buf[:runtime.Stack(buf, true)]

	var res []string

	for _, g := range strings.Split(string(buf), "\n\n") {
		if strings.Contains(g, "github.com/ProtonMail/gluon") && !strings.Contains(g, "verif/props/c19") && !strings.Contains(g, "verif/internal/") {
			res = append(res, g)
		}
	}

	return res
}

type span struct {
	box        string
	start, end time.Time
}

func runScenario(sc scenario) (out outcome) {
	users := []bed.UserSpec{{Name: "u0", Pass: "p0"}, {Name: "u1", Pass: "p1"}}[:sc.NUsers]
	opts := bed.Options{ClientTimeout: watchdog, DisableParallelism: sc.NoParallel, IdleBulk: sc.IdleBulk}

	p := &problem{}

	defer func() {
		out.Problems, out.Inconclusive = p.msgs, p.inc
	}()

	b, err := bed.Start(opts, users...)
	if err != nil {
		p.inconclusive("VERIF-INCONCLUSIVE: bed: %v", err)
		return
	}

	defer b.Destroy()

	// what Server.Close leaves behind is looked at while the context given to Serve is still alive
	b.KeepContext = true

	// mailboxes and a few messages for every user
	for _, u := range b.Users {
		s, err := b.Login("setup", u)
		if err != nil {
			p.inconclusive("VERIF-INCONCLUSIVE: setup login: %v", err)
			return
		}

		for _, cmd := range []string{"CREATE A", "CREATE B", "CREATE X"} {
			s.Do(cmd)
		}

		for i := 0; i < 3+sc.Seed; i++ {
			s.DoParts(imapc.T("APPEND INBOX "), imapc.L(mach.Msg(fmt.Sprintf("%s-%d", u.Name, i), "")))
		}

		s.Logout()
	}

	var (
		wg       sync.WaitGroup
		spans    = make([][]span, len(sc.Scripts))
		inFlight int32
		tornWith int32 // sessions that still had steps left when the teardown began
		stop     = make(chan struct{})
		start    = make(chan struct{})
		marker   int32

		writersLeft sync.WaitGroup
		writersDone = make(chan struct{})
	)

	for _, scr := range sc.Scripts {
		if scr.Writer && !scr.NoLogin {
			writersLeft.Add(1)
		}
	}

	go func() {
		writersLeft.Wait()
		close(writersDone)
	}()

	var (
		wgStay   sync.WaitGroup
		released = make(chan struct{}) // closed after the goroutine check that follows Server.Close
	)

	for i, scr := range sc.Scripts {
		i, scr := i, scr

		if scr.NoLogin {
			wgStay.Add(1)

			go func() {
				defer wgStay.Done()

				c, err := imapc.Dial(b.Addr, fmt.Sprintf("c%d", i), nil, watchdog)
				if err != nil {
					return
				}

				defer c.Close()

				<-start

				if r := c.Cmd("CAPABILITY"); r.Err != nil {
					return
				}

				if scr.HalfLiteral {
					_ = c.Send([]byte("L1 LOGIN {4}\r\n"))
					_, _ = c.TryReadResponse(50 * time.Millisecond)
				}

				// the client does not go away by itself: the server has to end the connection
				for {
					select {
					case <-released:
						return
					default:
					}

					if _, err := c.TryReadResponse(50 * time.Millisecond); err != nil {
						return
					}
				}
			}()

			continue
		}

		wg.Add(1)

		go func() {
			defer wg.Done()

			if scr.Writer {
				defer writersLeft.Done()
			}

			u := b.Users[scr.User]

			c, err := imapc.Dial(b.Addr, fmt.Sprintf("c%d", i), nil, watchdog)
			if err != nil {
				return // server already gone
			}

			defer c.Close()

			<-start

			call := func(what string, fn func() *imapc.Result) *imapc.Result {
				atomic.AddInt32(&inFlight, 1)
				defer atomic.AddInt32(&inFlight, -1)

				r := fn()
				if r != nil && r.Err == imapc.ErrTimeout {
					stuck(p, fmt.Sprintf("session %d: %q", i, what))
				}

				return r
			}

			if r := call("LOGIN", func() *imapc.Result { return c.Cmdf("LOGIN %s %s", u.Name, u.Pass) }); r.Err != nil || !r.OK() {
				return
			}

			t0 := time.Now()

			if r := call("SELECT", func() *imapc.Result { return c.Cmd("SELECT " + scr.Box) }); r.Err != nil {
				return
			}

			defer func() { spans[i] = append(spans[i], span{scr.Box, t0, time.Now()}) }()

			for k, st := range scr.Steps {
				select {
				case <-stop:
					if k < len(scr.Steps)-1 {
						atomic.AddInt32(&tornWith, 1)
					}
				default:
				}

				var r *imapc.Result

				switch st.Kind {
				case "cmd":
					r = call(st.Text, func() *imapc.Result { return c.Cmd(st.Text) })
				case "append":
					m := mach.Msg(fmt.Sprintf("c%d-%d", i, atomic.AddInt32(&marker, 1)), "")
					r = call("APPEND", func() *imapc.Result { return c.CmdParts(imapc.T("APPEND "+st.Text+" "), imapc.L(m)) })
				case "idle":
					r = call("IDLE", func() *imapc.Result {
						res, ok := c.IdleStart()
						if ok {
							time.Sleep(2 * time.Millisecond)
							c.IdleDone(res)
						}

						return res
					})
				case "logout":
					call("LOGOUT", func() *imapc.Result { return c.Cmd("LOGOUT") })
					return
				case "abort":
					return // deferred Close: abrupt disconnect
				case "abort-idle":
					if _, ok := c.IdleStart(); ok {
						time.Sleep(time.Millisecond)
					}

					return
				case "wait-writers":
					select {
					case <-writersDone:
					case <-time.After(watchdog):
					}
				case "abort-reset":
					// the client asks for an answer of many lines and resets the connection without reading it: the
					// server's writes fail while the command is still producing responses
					time.Sleep(5 * time.Millisecond) // lets the writers queue updates for this session

					_ = c.Send([]byte("R1 " + st.Text + "\r\n"))

					// the reset arrives right behind the command, or while the server is writing the answer
					time.Sleep(time.Duration(st.DelayUS) * time.Microsecond)

					if tc, ok := c.Conn().(*net.TCPConn); ok {
						_ = tc.SetLinger(0)
					}

					return
				case "halfliteral":
					_ = c.Send([]byte("H1 APPEND INBOX {100}\r\n"))
					_, _ = c.TryReadResponse(50 * time.Millisecond)
					_ = c.Send([]byte("From: half"))

					return
				case "stay":
					// keep the connection open until the teardown ends it
					<-stop
					_, _ = c.TryReadResponse(200 * time.Millisecond)

					return
				}

				if r != nil && r.Err != nil {
					return // connection ended (BYE, server closing): legitimate
				}
			}
		}()
	}

	// connector stream
	wg.Add(1)

	go func() {
		defer wg.Done()
		<-start

		u := b.Users[0]

		var last imap.MessageID

		// with StreamOn the connector keeps offering updates while the teardown runs (an update can then be in flight
		// between the connector and the goroutine that applies it at the moment the user is closed)
		streamOn := sc.StreamOn && sc.Teardown != "logout-close" // (that teardown waits for this goroutine first)

		updates := sc.Updates
		if streamOn {
			for i := 0; i < 3000; i++ {
				updates = append(updates, "noop")
			}
		}

		deadline := time.Time{}

		for k, up := range updates {
			select {
			case <-stop:
				if !streamOn {
					return
				}

				if deadline.IsZero() {
					deadline = time.Now().Add(3 * time.Second)
				} else if time.Now().After(deadline) {
					return
				}
			default:
			}

			var upd imap.Update

			switch {
			case strings.HasPrefix(up, "create:"):
				box := u.Inbox.ID
				if mb := u.Conn.MailboxByName(strings.TrimPrefix(up, "create:"), "/"); mb != nil {
					box = mb.ID
				}

				m, mc, err := u.Conn.NewRemoteMessage(mach.Msg(fmt.Sprintf("r%d", k), "remote"), imap.NewFlagSet(), time.Unix(1600000000, 0), box)
				if err != nil {
					continue
				}

				last = m.ID
				upd = imap.NewMessagesCreated(false, mc)
			case up == "flag" && last != "":
				upd = imap.NewMessageFlagsUpdated(last, imap.NewFlagSet(imap.FlagSeen))
			case up == "delete" && last != "":
				upd = imap.NewMessagesDeleted(last)
			case up == "boxes" && last != "":
				upd = imap.NewMessageMailboxesUpdated(last, []imap.MailboxID{u.Inbox.ID}, imap.NewFlagSet())
			case up == "mboxcreate":
				_, upd = u.Conn.SeedMailbox(fmt.Sprintf("R%d", k))
			case up == "bump":
				upd = imap.NewUIDValidityBumped()
			default:
				upd = imap.NewNoop()
			}

			d := u.Conn.DeliverNow(upd) // not acknowledged after RemoveUser / Close: the watchdog of vconn is the only wait

			if k >= len(sc.Updates) && d[0].Err != nil {
				return // the stream has ended with the server
			}
		}
	}()

	for _, u := range b.Users {
		u.Conn.Watchdog = 2 * time.Second
	}

	close(start)

	// teardown after a drawn part of the work has been done
	time.Sleep(time.Duration(5+len(sc.Scripts)) * time.Millisecond)
	close(stop)

	ctx, cancel := context.WithTimeout(context.Background(), watchdog)
	defer cancel()

	switch sc.Teardown {
	case "logout-close":
		within(p, "sessions finishing", wg.Wait)
	case "removeuser-close", "removeuser-files":
		u := b.Users[len(b.Users)-1]
		within(p, "RemoveUser", func() {
			_ = b.Server.RemoveUser(ctx, u.ID, sc.Teardown == "removeuser-files")
		})
	}

	within(p, "Server.Close", func() {
		if err := b.Stop(); err != nil && strings.Contains(err.Error(), "did not return") {
			p.add("C19 violated: %v", err)
		}
	})

	within(p, "sessions finishing after Close", wg.Wait)

	if pn := b.Panics.Get(); len(pn) > 0 {
		p.add("C19 violated: gluon goroutine panicked: %s", pn[0])
	}

	// no goroutine left behind (goleak style: retry, leaking goroutines do not go away)
	var left []string

	for i := 0; i < 200; i++ {
		if left = gluonGoroutines(); len(left) == 0 {
			break
		}

		time.Sleep(time.Duration(i+1) * time.Millisecond)
	}

	close(released)
	within(p, "connections that never logged in finishing", wgStay.Wait)

	if len(left) > 0 && len(p.msgs) == 0 && len(p.inc) == 0 {
		p.add("C19 violated: %d goroutine(s) with gluon frames are still alive ~20 s after Server.Close returned:\n%s", len(left), strings.Join(left, "\n\n"))
	}

	// semantic sanity: the data directories are still usable (unless the user's files were removed)
	if len(p.msgs) == 0 && len(p.inc) == 0 && sc.Teardown != "removeuser-files" && sc.Teardown != "removeuser-close" {
		if err := b.Restart(); err != nil {
			if strings.Contains(err.Error(), "listen tcp") {
				p.inconclusive("VERIF-INCONCLUSIVE: environment: %v", err)
			} else {
				p.add("C19 violated: server does not reopen after the scenario: %v", err)
			}
		} else {
			for _, u := range b.Users {
				for _, box := range []string{"INBOX"} {
					if _, _, _, _, err := b.FreshView(u, box, true); err != nil {
						p.add("C19 violated: mailbox %s of %s unreadable after the scenario: %v", box, u.Name, err)
					}
				}
			}
		}
	}

	// non-triviality from timestamps
	overlap := false

	var all []span
	for _, s := range spans {
		all = append(all, s...)
	}

	sort.Slice(all, func(i, j int) bool { return all[i].start.Before(all[j].start) })

	for i := range all {
		for j := i + 1; j < len(all); j++ {
			if all[i].box == all[j].box && all[j].start.Before(all[i].end) {
				overlap = true
			}
		}
	}

	out.Overlap, out.Torn = overlap, atomic.LoadInt32(&tornWith) > 0

	return out
}

// TestChildScenario runs one scenario in this (child) process; the parent reads the outcome file and the race log.
func TestChildScenario(t *testing.T) {
	in := os.Getenv("C19_SCENARIO")
	if in == "" {
		t.Skip("child only")
	}

	raw, err := os.ReadFile(in)
	if err != nil {
		t.Fatal(err)
	}

	var sc scenario
	if err := json.Unmarshal(raw, &sc); err != nil {
		t.Fatal(err)
	}

	out := runScenario(sc)

	b, _ := json.Marshal(out)
	if err := os.WriteFile(os.Getenv("C19_OUTCOME"), b, 0o644); err != nil {
		t.Fatal(err)
	}
}

const kfRemoveStateRace = "C19-removestate-reads-foreign-snapshot"

// knownRace recognises the listed data race by its call sites.
func knownRace(report string) bool {
	return strings.Contains(report, "(*user).removeState") && strings.Contains(report, "(*State).HasMessage")
}

func splitRaceReports(log string) []string {
	var res []string

	for _, part := range strings.Split(log, "==================") {
		if strings.Contains(part, "WARNING: DATA RACE") {
			res = append(res, strings.TrimSpace(part))
		}
	}

	return res
}

func TestC19Concurrent(t *testing.T) {
	ev.Checks(60, 600)
	rapid.Check(t, func(t *rapid.T) { judgeScenario(t, drawScenario(t)) })
}

// drawContention draws scenarios of a second family: long-lived sessions of one user that all work on INBOX - one or
// two of them change it (absolute and relative STORE, FETCH with \Seen side effect, COPY / MOVE onto INBOX itself,
// EXPUNGE, APPEND), the others only look (NOOP, FETCH FLAGS, SEARCH, STATUS, IDLE). The messages stop being \Recent
// after the first round, so that the views of the sessions hold what the updates of the others put there.
func drawContention(t *rapid.T) scenario {
	sc := scenario{NUsers: 1, Teardown: "logout-close"}
	sc.NoParallel = rapid.Bool().Draw(t, "noParallel")

	writes := []string{
		`STORE 1:* FLAGS (\Flagged)`, `STORE 1:* FLAGS (\Answered kw)`, `STORE 1 FLAGS.SILENT ()`, `STORE 1:* +FLAGS (\Draft)`, `STORE 1:* -FLAGS (\Flagged)`,
		"FETCH 1:* BODY[]", "FETCH 1 (FLAGS BODY[])", "FETCH 1:* RFC822", "COPY 1:* INBOX", "MOVE 1 INBOX", `STORE 1 +FLAGS (\Deleted)`, "EXPUNGE", "NOOP",
	}
	reads := []string{"NOOP", "NOOP", "FETCH 1:* (FLAGS)", "FETCH 1:* (FLAGS UID)", "SEARCH UNSEEN", "UID SEARCH FLAGGED", "STATUS INBOX (MESSAGES UNSEEN)", "CHECK", "FETCH 1:* BODY.PEEK[]"}

	for i, n := 0, rapid.IntRange(1, 2).Draw(t, "writers"); i < n; i++ {
		s := script{Box: "INBOX"}

		for j, k := 0, rapid.IntRange(6, 24).Draw(t, "len"); j < k; j++ {
			if rapid.IntRange(0, 5).Draw(t, "append") == 0 {
				s.Steps = append(s.Steps, step{Kind: "append", Text: "INBOX"})
			} else {
				s.Steps = append(s.Steps, step{Kind: "cmd", Text: writes[rapid.IntRange(0, len(writes)-1).Draw(t, "w")]})
			}
		}

		s.Steps = append(s.Steps, step{Kind: "logout"})
		sc.Scripts = append(sc.Scripts, s)
	}

	if rapid.Bool().Draw(t, "bulk") {
		sc.IdleBulk = 5 * time.Millisecond
	}

	sc.Seed = rapid.SampledFrom([]int{0, 40, 120}).Draw(t, "seed")

	for i, n := 0, rapid.IntRange(2, 4).Draw(t, "readers"); i < n; i++ {
		s := script{Box: "INBOX"}

		// some readers vanish early, in the middle of an IDLE, while the writers go on changing the mailbox: the
		// pushes that follow find the connection gone
		if rapid.IntRange(0, 2).Draw(t, "vanish") == 0 {
			for j, k := 0, rapid.IntRange(0, 3).Draw(t, "len"); j < k; j++ {
				s.Steps = append(s.Steps, step{Kind: "cmd", Text: reads[rapid.IntRange(0, len(reads)-1).Draw(t, "r")]})
			}

			if rapid.Bool().Draw(t, "reset") {
				s.Steps = append(s.Steps, step{Kind: "abort-reset", DelayUS: rapid.SampledFrom([]int{0, 100, 2000}).Draw(t, "resetdelay"), Text: rapid.SampledFrom([]string{"NOOP", "NOOP", "CHECK", "FETCH 1:* (FLAGS UID)", "FETCH 1:* (FLAGS BODY.PEEK[])", `STORE 1 +FLAGS.SILENT (\Draft)`, "EXPUNGE"}).Draw(t, "resetcmd")})
			} else {
				s.Steps = append(s.Steps, step{Kind: "abort-idle"})
			}

			sc.Scripts = append(sc.Scripts, s)

			continue
		}

		for j, k := 0, rapid.IntRange(10, 40).Draw(t, "len"); j < k; j++ {
			if rapid.IntRange(0, 9).Draw(t, "idle") == 0 {
				s.Steps = append(s.Steps, step{Kind: "idle"})
			} else {
				s.Steps = append(s.Steps, step{Kind: "cmd", Text: reads[rapid.IntRange(0, len(reads)-1).Draw(t, "r")]})
			}
		}

		s.Steps = append(s.Steps, step{Kind: "logout"})
		sc.Scripts = append(sc.Scripts, s)
	}

	return sc
}

// drawResetMidAnswer draws scenarios of a third family: a session has a large INBOX selected while one or two writers
// change the flags of all its messages and leave; when they are gone the session sends one command whose answer has
// to carry all those changes (or a FETCH of everything) and resets its connection without reading a byte, at a drawn
// distance behind the command. The server's writes fail while the command still produces responses; the teardown
// that follows (Server.Close once every script has ended) must complete and leave nothing behind.
func drawResetMidAnswer(t *rapid.T) scenario {
	sc := scenario{NUsers: 1, Teardown: "logout-close"} // the teardown that lets the scripts end first
	sc.NoParallel = rapid.Bool().Draw(t, "noParallel")
	sc.Seed = rapid.SampledFrom([]int{60, 150, 300}).Draw(t, "seed")

	changes := []string{`STORE 1:* +FLAGS.SILENT (\Seen)`, `STORE 1:* FLAGS (\Flagged)`, `STORE 1:* -FLAGS (\Seen)`, `STORE 1:* +FLAGS (kw)`, `STORE 1:* FLAGS.SILENT (\Answered \Draft)`}

	for i, n := 0, rapid.IntRange(1, 2).Draw(t, "writers"); i < n; i++ {
		w := script{Box: "INBOX", Writer: true}

		for j, k := 0, rapid.IntRange(1, 3).Draw(t, "len"); j < k; j++ {
			w.Steps = append(w.Steps, step{Kind: "cmd", Text: rapid.SampledFrom(changes).Draw(t, "w")})
		}

		w.Steps = append(w.Steps, step{Kind: "logout"})
		sc.Scripts = append(sc.Scripts, w)
	}

	for i, n := 0, rapid.IntRange(1, 3).Draw(t, "victims"); i < n; i++ {
		v := script{Box: "INBOX"}

		if rapid.Bool().Draw(t, "before") {
			v.Steps = append(v.Steps, step{Kind: "cmd", Text: "NOOP"})
		}

		v.Steps = append(v.Steps, step{Kind: "wait-writers"})
		v.Steps = append(v.Steps, step{Kind: "abort-reset",
			DelayUS: rapid.SampledFrom([]int{0, 0, 50, 300, 2000}).Draw(t, "resetdelay"),
			Text:    rapid.SampledFrom([]string{"NOOP", "NOOP", "CHECK", `STORE 1 +FLAGS.SILENT (\Draft)`, "EXPUNGE", "FETCH 1:* (FLAGS UID)", "FETCH 1:* (UID BODY.PEEK[])", "SEARCH ALL"}).Draw(t, "resetcmd")})
		sc.Scripts = append(sc.Scripts, v)
	}

	if rapid.Bool().Draw(t, "bystander") {
		sc.Scripts = append(sc.Scripts, script{Box: "INBOX", Steps: []step{{Kind: "cmd", Text: "NOOP"}, {Kind: "wait-writers"}, {Kind: "cmd", Text: "FETCH 1:* (FLAGS)"}, {Kind: "logout"}}})
	}

	return sc
}

func (sc scenario) hasStep(kind string) bool {
	for _, scr := range sc.Scripts {
		for _, st := range scr.Steps {
			if st.Kind == kind {
				return true
			}
		}
	}

	return false
}

// abortRun ends the test binary at once with the given verdict (a panic in a goroutine of its own is not recovered by
// rapid).
func abortRun(msg string) {
	fmt.Fprintln(os.Stderr, msg)

	go func() { panic("C19 violated (see above)") }()

	select {}
}

func TestC19ResetMidAnswer(t *testing.T) {
	ev.Checks(10, 150)
	ev.ShrinkTime(time.Second) // a case that hangs costs the whole watchdog: report it instead of shrinking it

	defer ev.ShrinkTime(30 * time.Second)

	rapid.Check(t, func(t *rapid.T) { judgeScenario(t, drawResetMidAnswer(t)) })
}

func TestC19Contention(t *testing.T) {
	ev.Checks(16, 200)
	rapid.Check(t, func(t *rapid.T) { judgeScenario(t, drawContention(t)) })
}

// judgeScenario runs one scenario in a child process built with -race and judges what it reports.
func judgeScenario(t *rapid.T, sc scenario) {
	{

		dir, err := os.MkdirTemp("", "c19-")
		if err != nil {
			t.Fatalf("harness: %v", err)
		}

		defer os.RemoveAll(dir)

		raw, _ := json.Marshal(sc)
		if err := os.WriteFile(filepath.Join(dir, "scenario.json"), raw, 0o644); err != nil {
			t.Fatalf("harness: %v", err)
		}

		cmd := exec.Command(os.Args[0], "-test.run=^TestChildScenario$", "-test.count=1", "-test.timeout=600s")
		cmd.Env = append(os.Environ(),
			"C19_SCENARIO="+filepath.Join(dir, "scenario.json"),
			"C19_OUTCOME="+filepath.Join(dir, "outcome.json"),
			"GORACE=log_path="+filepath.Join(dir, "race")+" halt_on_error=0 history_size=3",
			"VERIF_PARTS_DIR=", "TMPDIR="+dir)

		output, runErr := cmd.CombinedOutput()

		var races []string

		logs, _ := filepath.Glob(filepath.Join(dir, "race.*"))
		for _, l := range logs {
			b, _ := os.ReadFile(l)
			races = append(races, splitRaceReports(string(b))...)
		}

		races = append(races, splitRaceReports(string(output))...)

		describe := strings.Join(sc.describe(), "\n")
		knownHit := false

		for _, r := range races {
			if knownRace(r) && kf.Report(kfRemoveStateRace) {
				knownHit = true
				continue
			}

			t.Fatalf("C19 violated: data race\n%s\nscenario:\n%s", r, describe)
		}

		var out outcome

		ob, err := os.ReadFile(filepath.Join(dir, "outcome.json"))
		if err != nil || json.Unmarshal(ob, &out) != nil {
			// the child died: fatal error (e.g. concurrent map access), unrecovered panic, or it was killed
			tail := string(output)
			if len(tail) > 6000 {
				tail = tail[len(tail)-6000:]
			}

			if strings.Contains(tail, "fatal error:") || strings.Contains(tail, "panic:") {
				if strings.Contains(tail, "concurrent map") && strings.Contains(tail, "HasMessage") && kf.Report(kfRemoveStateRace) {
					ev.Case(false, 0, "known-finding-hit")
					return
				}

				t.Fatalf("C19 violated: the server process crashed (%v)\n%s\nscenario:\n%s", runErr, tail, describe)
			}

			t.Fatalf("VERIF-INCONCLUSIVE: child process gave no outcome (%v)\n%s", runErr, tail)
		}

		if len(out.Problems) > 0 {
			if sc.hasStep("abort-reset") && strings.Contains(strings.Join(out.Problems, "\n"), "did not return within") {
				// a confirmed hang (gluon goroutines blocked for over a minute) costs several watchdogs per case:
				// shrinking it would run into the driver's deadline, so the run ends here with the scenario written out
				abortRun(fmt.Sprintf("VERIF-VIOLATION %s\nscenario:\n%s\nscenario (JSON, for C19_SCENARIO): %s", strings.Join(out.Problems, "\n"), describe, raw))
			}

			t.Fatalf("%s\nscenario:\n%s", strings.Join(out.Problems, "\n"), describe)
		}

		if len(out.Inconclusive) > 0 {
			t.Fatalf("%s\nscenario:\n%s", strings.Join(out.Inconclusive, "\n"), describe)
		}

		labels := []string{"teardown:" + sc.Teardown, fmt.Sprintf("overlap:%v", out.Overlap), fmt.Sprintf("torn:%v", out.Torn)}
		if knownHit {
			labels = append(labels, "known-race-seen")
		}

		ev.Case(out.Overlap && out.Torn, ev.Hash(describe), labels...)

		if ev.WantSample() {
			ev.Sample(sc.describe())
		}
	}
}

var _ = net.Dial
