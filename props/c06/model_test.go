package c06

import (
	"fmt"
	"hash/fnv"
	"sort"
	"strings"

	"github.com/ProtonMail/gluon/imap"
)

// The reference model: what the sequence of acknowledged connector updates (and of the client commands in between)
// describes. Mailboxes are keyed by their *current* remote id, messages by their *current* remote id; flags are per
// message, \Deleted is per (mailbox, message) and is never touched by a connector update (the connector does not know
// it). Sources of the rules: /repo/internal/backend/connector_updates.go, /repo/tests/updates_test.go and DESIGN.md §2.

const (
	recoveryRID  = imap.MailboxID("GLUON-INTERNAL-RECOVERY-MBOX") // ids.GluonInternalRecoveryMailboxRemoteID
	recoveryName = "Recovered Messages"
)

type mmsg struct {
	key     int
	rid     imap.MessageID
	marker  string
	literal []byte
	flags   map[string]bool // canonical spelling of the vocabulary
	retired bool            // removed by MessageDeleted; the id is not used for anything that could re-add it
	gen     int             // number of literal replacements (each gives the message a new internal id)
}

type mentry struct {
	msg     *mmsg
	uid     uint32 // 0 = assigned by the server but not observed yet
	deleted bool
}

type mbox struct {
	key         int
	rid         imap.MailboxID
	name        string
	entries     []mentry
	uidNext     uint32 // last observed UIDNEXT (0 = nothing known)
	uidValidity uint32 // last observed UIDVALIDITY (0 = nothing known)
	bumped      bool   // UIDVALIDITY must have grown at the next observation
	gone        bool
}

type model struct {
	boxes    []*mbox // live, in creation order
	allBoxes []*mbox // every mailbox ever, by key
	msgs     []*mmsg // every message ever, by key
	// names whose subscription a connector MailboxDeleted removed; cleared when a live mailbox takes the name
	unsub map[string]bool
	// the subscriptions a client DELETE leaves behind (table deleted_subscriptions: name and remote id both unique)
	delSubs map[string]imap.MailboxID
}

func newModel() *model { return &model{unsub: map[string]bool{}, delSubs: map[string]imap.MailboxID{}} }

// delSubClash tells whether a subscription kept under ANOTHER name carries the mailbox's remote id: deleting the
// mailbox then has to replace that entry (listed finding C06-delete-recreated-mailbox-unique-subscription).
func (m *model) delSubClash(b *mbox) bool {
	for n, r := range m.delSubs {
		if r == b.rid && n != b.name {
			return true
		}
	}

	return false
}

func (m *model) addBox(rid imap.MailboxID, name string) *mbox {
	b := &mbox{key: len(m.allBoxes), rid: rid, name: name}
	m.allBoxes = append(m.allBoxes, b)
	m.boxes = append(m.boxes, b)
	delete(m.unsub, name)

	return b
}

func (m *model) dropBox(b *mbox) {
	b.gone = true
	b.entries = nil

	for i, x := range m.boxes {
		if x == b {
			m.boxes = append(m.boxes[:i:i], m.boxes[i+1:]...)
			break
		}
	}
}

func (m *model) boxByRID(rid imap.MailboxID) *mbox {
	for _, b := range m.boxes {
		if b.rid == rid {
			return b
		}
	}

	return nil
}

func (m *model) boxByName(name string) *mbox {
	for _, b := range m.boxes {
		if b.name == name {
			return b
		}
	}

	return nil
}

func (m *model) addMsg(rid imap.MessageID, marker string, literal []byte, flags []string) *mmsg {
	x := &mmsg{key: len(m.msgs), rid: rid, marker: marker, literal: literal, flags: flagMap(flags)}
	m.msgs = append(m.msgs, x)

	return x
}

// msgByRID returns the message that holds the remote id (live or retired).
func (m *model) msgByRID(rid imap.MessageID) *mmsg {
	for _, x := range m.msgs {
		if x.rid == rid {
			return x
		}
	}

	return nil
}

func (m *model) liveMsgs() []*mmsg {
	var res []*mmsg

	for _, x := range m.msgs {
		if !x.retired {
			res = append(res, x)
		}
	}

	return res
}

func (m *model) retiredMsgs() []*mmsg {
	var res []*mmsg

	for _, x := range m.msgs {
		if x.retired {
			res = append(res, x)
		}
	}

	return res
}

func (m *model) goneBoxes() []*mbox {
	var res []*mbox

	for _, b := range m.allBoxes {
		if b.gone {
			res = append(res, b)
		}
	}

	return res
}

func (b *mbox) index(x *mmsg) int {
	for i, e := range b.entries {
		if e.msg == x {
			return i
		}
	}

	return -1
}

func (b *mbox) remove(x *mmsg) {
	if i := b.index(x); i >= 0 {
		b.entries = append(b.entries[:i:i], b.entries[i+1:]...)
	}
}

// add appends the message under a new UID unless it is a member already.
func (b *mbox) add(x *mmsg) {
	if b.index(x) < 0 {
		b.entries = append(b.entries, mentry{msg: x})
	}
}

func (m *model) boxesOf(x *mmsg) []*mbox {
	var res []*mbox

	for _, b := range m.boxes {
		if b.index(x) >= 0 {
			res = append(res, b)
		}
	}

	return res
}

func (m *model) removeEverywhere(x *mmsg) {
	for _, b := range m.boxes {
		b.remove(x)
	}
}

// setBoxes makes the message a member of exactly the given mailboxes: memberships that stay keep their UID (and their
// \Deleted mark), new ones are appended.
func (m *model) setBoxes(x *mmsg, want []*mbox) {
	in := map[*mbox]bool{}
	for _, b := range want {
		in[b] = true
	}

	for _, b := range want {
		b.add(x)
	}

	for _, b := range m.boxes {
		if !in[b] {
			b.remove(x)
		}
	}
}

func flagMap(flags []string) map[string]bool {
	r := map[string]bool{}
	for _, f := range flags {
		r[f] = true
	}

	return r
}

func flagList(m map[string]bool) []string {
	r := make([]string, 0, len(m))
	for f := range m {
		r = append(r, f)
	}

	sort.Strings(r)

	return r
}

func sameFlagMap(a map[string]bool, b []string) bool {
	if len(a) != len(flagMap(b)) {
		return false
	}

	for _, f := range b {
		if !a[f] {
			return false
		}
	}

	return true
}

// wantFlags is what a fresh view must show for the entry (lower-cased, sorted, without \recent).
func (e mentry) wantFlags() []string {
	r := make([]string, 0, len(e.msg.flags)+1)
	for f := range e.msg.flags {
		r = append(r, strings.ToLower(f))
	}

	if e.deleted {
		r = append(r, `\deleted`)
	}

	sort.Strings(r)

	return r
}

// canon is a canonical rendering of everything the model holds (used to tell whether an update restates the state).
func (m *model) canon() uint64 {
	h := fnv.New64a()

	for _, b := range m.boxes {
		fmt.Fprintf(h, "B%d|%s|%s|%v{", b.key, b.rid, b.name, b.bumped)

		for _, e := range b.entries {
			fmt.Fprintf(h, "%d:%d:%v,", e.msg.key, e.uid, e.deleted)
		}

		fmt.Fprint(h, "}")
	}

	for _, x := range m.msgs {
		fmt.Fprintf(h, "M%d|%s|%s|%v|%v;", x.key, x.rid, x.marker, x.retired, flagList(x.flags))
	}

	names := make([]string, 0, len(m.unsub))
	for n := range m.unsub {
		names = append(names, n)
	}

	sort.Strings(names)
	fmt.Fprintf(h, "U%v", names)

	names = names[:0]
	for n, r := range m.delSubs {
		names = append(names, n+"="+string(r))
	}

	sort.Strings(names)
	fmt.Fprintf(h, "D%v", names)

	return h.Sum64()
}

func (m *model) describe(b *mbox) string {
	var sb strings.Builder

	for i, e := range b.entries {
		if i == 12 && len(b.entries) > 16 {
			fmt.Fprintf(&sb, "… (%d more) ", len(b.entries)-12)
			break
		}

		fmt.Fprintf(&sb, "%s(uid %d)%v ", e.msg.marker, e.uid, e.wantFlags())
	}

	return sb.String()
}

func (m *model) liveNames() []string {
	r := make([]string, 0, len(m.boxes))
	for _, b := range m.boxes {
		r = append(r, b.name)
	}

	sort.Strings(r)

	return r
}
