package c06

import (
	"bytes"
	"context"
	"fmt"
	"strings"
	"time"

	"github.com/ProtonMail/gluon/db"
	"github.com/ProtonMail/gluon/imap"

	"verif/internal/ev"
	"verif/internal/kf"
)

// The 12 update kinds.
const (
	kMailboxCreated   = "MailboxCreated"
	kMailboxDeleted   = "MailboxDeleted"
	kMailboxUpdated   = "MailboxUpdated"
	kMailboxIDChanged = "MailboxIDChanged"
	kMessagesCreated  = "MessagesCreated"
	kMessageMailboxes = "MessageMailboxesUpdated"
	kMessageFlags     = "MessageFlagsUpdated"
	kMessageIDChanged = "MessageIDChanged"
	kMessageDeleted   = "MessageDeleted"
	kMessageUpdated   = "MessageUpdated"
	kUIDValidityBump  = "UIDValidityBumped"
	kNoop             = "Noop"
)

var allKinds = []string{
	kMailboxCreated, kMailboxDeleted, kMailboxUpdated, kMailboxIDChanged, kMessagesCreated, kMessageMailboxes,
	kMessageFlags, kMessageIDChanged, kMessageDeleted, kMessageUpdated, kUIDValidityBump, kNoop,
}

var msgDate = time.Date(2021, 3, 4, 5, 6, 7, 0, time.UTC)

type item struct {
	rid     imap.MessageID
	marker  string
	literal []byte
	flags   []string
	boxes   []imap.MailboxID
}

// desc is the content of one update as plain data: every delivery builds a NEW update object from it (a Waiter fires
// once), and every delivery is judged against the model as it is at that moment (so a duplicate is simply the same
// content judged again).
type desc struct {
	id   int
	kind string
	echo bool // taken from the connector's outbox after a client command

	boxRID imap.MailboxID // MailboxCreated / MailboxDeleted / MailboxUpdated
	name   string         // joined with the delimiter "/"

	boxKey    int // MailboxIDChanged: model key of the target mailbox
	msgKey    int // MessageIDChanged: model key of the target message
	bogus     int // 0 = the target's internal id (looked up in the database at the first delivery), 1 = an unknown internal id, 2 = the recovery mailbox's internal id
	newBoxRID imap.MailboxID
	newMsgRID imap.MessageID

	msgRID        imap.MessageID
	boxes         []imap.MailboxID
	flags         []string
	marker        string
	literal       []byte
	allowCreate   bool
	ignoreUnknown bool
	items         []item
}

func short(ids []imap.MailboxID) string {
	s := make([]string, len(ids))
	for i, id := range ids {
		s[i] = string(id)
	}

	return "[" + strings.Join(s, " ") + "]"
}

func (d *desc) String() string {
	pre := ""
	if d.echo {
		pre = "echo:"
	}

	switch d.kind {
	case kMailboxCreated:
		return fmt.Sprintf("%s#%d MailboxCreated(%s, %q)", pre, d.id, d.boxRID, d.name)
	case kMailboxDeleted:
		return fmt.Sprintf("%s#%d MailboxDeleted(%s)", pre, d.id, d.boxRID)
	case kMailboxUpdated:
		return fmt.Sprintf("%s#%d MailboxUpdated(%s, %q)", pre, d.id, d.boxRID, d.name)
	case kMailboxIDChanged:
		return fmt.Sprintf("%s#%d MailboxIDChanged(internal id of box#%d bogus=%d -> %s)", pre, d.id, d.boxKey, d.bogus, d.newBoxRID)
	case kMessagesCreated:
		var sb strings.Builder

		for i, it := range d.items {
			if i == 6 && len(d.items) > 8 {
				fmt.Fprintf(&sb, " …(%d more)", len(d.items)-6)
				break
			}

			fmt.Fprintf(&sb, " %s/%s%v%s", it.rid, it.marker, it.flags, short(it.boxes))
		}

		return fmt.Sprintf("%s#%d MessagesCreated(ignoreUnknown=%v, n=%d:%s)", pre, d.id, d.ignoreUnknown, len(d.items), sb.String())
	case kMessageMailboxes:
		return fmt.Sprintf("%s#%d MessageMailboxesUpdated(%s, %s, %v)", pre, d.id, d.msgRID, short(d.boxes), d.flags)
	case kMessageFlags:
		return fmt.Sprintf("%s#%d MessageFlagsUpdated(%s, %v)", pre, d.id, d.msgRID, d.flags)
	case kMessageIDChanged:
		return fmt.Sprintf("%s#%d MessageIDChanged(internal id of msg#%d bogus=%d -> %s)", pre, d.id, d.msgKey, d.bogus, d.newMsgRID)
	case kMessageDeleted:
		return fmt.Sprintf("%s#%d MessageDeleted(%s)", pre, d.id, d.msgRID)
	case kMessageUpdated:
		return fmt.Sprintf("%s#%d MessageUpdated(%s, literal %s, %s, %v, allowCreate=%v)", pre, d.id, d.msgRID, d.marker, short(d.boxes), d.flags, d.allowCreate)
	default:
		return fmt.Sprintf("%s#%d %s", pre, d.id, d.kind)
	}
}

const (
	wantOK  = iota // must be acknowledged with success
	wantErr        // must be acknowledged with an error
	wantAny        // acknowledged either way
)

// verdict is the oracle's reading of one update against the current model.
type verdict struct {
	class string // valid | invalid | lenient | ambiguous
	why   string // sub-class label
	want  int
	apply func() // the change the update describes (nil: it describes no change / must change nothing)
	bump  bool
}

func valid(why string, apply func()) verdict { return verdict{class: "valid", why: why, want: wantOK, apply: apply} }
func noop(why string) verdict                { return verdict{class: "invalid", why: why, want: wantOK} }
func refuse(why string) verdict              { return verdict{class: "invalid", why: why, want: wantErr} }
func lenient(why string, apply func()) verdict {
	return verdict{class: "lenient", why: why, want: wantAny, apply: apply}
}
func ambiguous(why string) verdict { return verdict{class: "ambiguous", why: why} }

func hasBox(ids []imap.MailboxID, id imap.MailboxID) bool {
	for _, x := range ids {
		if x == id {
			return true
		}
	}

	return false
}

// judge derives, from connector_updates.go's documented behaviour and the property text, what the update must do to
// the current model.
func (e *env) judge(d *desc) verdict {
	m := e.m

	switch d.kind {
	case kNoop:
		return valid("noop", nil)

	case kUIDValidityBump:
		v := valid("bump", func() {
			for _, b := range m.boxes {
				b.bumped = true
			}
		})
		v.bump = true

		return v

	case kMailboxCreated:
		if d.boxRID == recoveryRID {
			return refuse("protected-mailbox")
		}

		if b := m.boxByRID(d.boxRID); b != nil {
			if b.name == d.name {
				return valid("restates", nil)
			}

			// applyMailboxCreated: an existing remote id is left alone ("else if exists { return nil }").
			return lenient("created-existing-id-other-name", nil)
		}

		if m.boxByName(d.name) != nil || d.name == recoveryName {
			return refuse("name-taken")
		}

		return valid("new", func() { m.addBox(d.boxRID, d.name) })

	case kMailboxDeleted:
		if d.boxRID == recoveryRID {
			return refuse("protected-mailbox")
		}

		b := m.boxByRID(d.boxRID)
		if b == nil {
			return noop("unknown-mailbox") // documented: "if db.IsErrNotFound(err) { return nil, nil }"
		}

		if m.delSubClash(b) && kf.Listed(kfDelSubClash) {
			ev.Excluded(1)
			return ambiguous("excluded-known:" + kfDelSubClash)
		}

		return valid("delete", func() {
			m.dropBox(b)
			m.unsub[b.name] = true // TestDeleteMailboxFromConnectorAlsoRemoveSubscriptionStatus
			delete(m.delSubs, b.name)
		})

	case kMailboxUpdated:
		if d.boxRID == recoveryRID {
			return refuse("protected-mailbox")
		}

		b := m.boxByRID(d.boxRID)
		if b == nil {
			return noop("unknown-mailbox") // documented: "else if !exists { return nil }"
		}

		if b.name == d.name {
			return valid("restates", nil)
		}

		if m.boxByName(d.name) != nil || d.name == recoveryName {
			return refuse("name-taken")
		}

		return valid("rename", func() {
			b.name = d.name
			delete(m.unsub, d.name)
		})

	case kMailboxIDChanged:
		r, ok := e.resolvedBox[d.id]
		if !ok {
			return refuse("unresolved") // cannot happen: resolve() runs first
		}

		if r.recovery {
			return refuse("protected-mailbox")
		}

		if r.unknown {
			return refuse("unknown-internal-id")
		}

		b := m.allBoxes[d.boxKey]
		if b.gone {
			return refuse("internal-id-of-deleted-mailbox")
		}

		if b.rid == d.newBoxRID {
			return valid("restates", nil)
		}

		if m.boxByRID(d.newBoxRID) != nil || d.newBoxRID == recoveryRID {
			return refuse("remote-id-taken")
		}

		return valid("rekey", func() { b.rid = d.newBoxRID })

	case kMessagesCreated:
		return e.judgeCreated(d.items, d.ignoreUnknown)

	case kMessageMailboxes:
		if hasBox(d.boxes, recoveryRID) {
			return refuse("protected-mailbox")
		}

		x := m.msgByRID(d.msgRID)
		if x == nil {
			return refuse("unknown-message")
		}

		if x.retired {
			return ambiguous("readd-after-MessageDeleted")
		}

		var (
			want    []*mbox
			unknown bool
		)

		for _, id := range d.boxes {
			if b := m.boxByRID(id); b != nil {
				want = append(want, b)
			} else {
				unknown = true
			}
		}

		apply := func() {
			m.setBoxes(x, want)
			x.flags = flagMap(d.flags)
		}

		if unknown {
			// MailboxTranslateRemoteIDs silently drops unknown ids: neither an error nor a documented no-op. Not judged
			// beyond acknowledgement; the model follows the code (known subset) when the update succeeds.
			return lenient("mailboxes-updated-unknown-mailbox", apply)
		}

		return valid("set", apply)

	case kMessageFlags:
		x := m.msgByRID(d.msgRID)
		if x == nil {
			return refuse("unknown-message")
		}

		if x.retired {
			return lenient("flags-of-deleted-message", nil)
		}

		return valid("set", func() { x.flags = flagMap(d.flags) })

	case kMessageIDChanged:
		r, ok := e.resolvedMsg[d.id]
		if !ok {
			return refuse("unresolved")
		}

		if r.unknown {
			return refuse("unknown-internal-id")
		}

		x := m.msgs[d.msgKey]
		if x.retired {
			return ambiguous("id-change-of-deleted-message")
		}

		if x.gen != r.gen {
			// the internal id belongs to the superseded row of a message whose literal was replaced
			return lenient("internal-id-of-replaced-literal", nil)
		}

		if x.rid == d.newMsgRID {
			return valid("restates", nil)
		}

		if y := m.msgByRID(d.newMsgRID); y != nil {
			if y.retired {
				// whether the row of a deleted message still occupies its remote id depends on when it is purged
				return ambiguous("id-change-to-id-of-deleted-message")
			}

			return refuse("remote-id-taken")
		}

		return valid("rekey", func() { x.rid = d.newMsgRID })

	case kMessageDeleted:
		x := m.msgByRID(d.msgRID)
		if x == nil {
			return noop("unknown-message") // documented: "if db.IsErrNotFound(err) { return nil, nil }"
		}

		if x.retired {
			return lenient("deleted-again", nil)
		}

		return valid("delete", func() {
			m.removeEverywhere(x)
			x.retired = true
		})

	case kMessageUpdated:
		x := m.msgByRID(d.msgRID)
		if x == nil && hasBox(d.boxes, recoveryRID) {
			// unknown message and the protected mailbox: ignored (no create / element skipped) or refused; nothing changes
			return lenient("message-updated-protected-mailbox-unknown-message", nil)
		}

		if x == nil {
			if !d.allowCreate {
				return noop("unknown-message-no-create") // documented: "Message not found, skipping update"
			}

			// "Message not found, creating it instead": MessagesCreated with IgnoreUnknownMailboxIDs.
			return e.judgeCreated([]item{{rid: d.msgRID, marker: d.marker, literal: d.literal, flags: d.flags, boxes: d.boxes}}, true)
		}

		if x.retired {
			return ambiguous("readd-after-MessageDeleted")
		}

		if hasBox(d.boxes, recoveryRID) {
			return e.judgeUpdatedIntoRecovery(d, x)
		}

		var want []*mbox

		for _, id := range d.boxes {
			b := m.boxByRID(id)
			if b == nil {
				return refuse("unknown-mailbox")
			}

			want = append(want, b)
		}

		if bytes.Equal(d.literal, x.literal) {
			return valid("same-literal", func() {
				x.flags = flagMap(d.flags)
				m.setBoxes(x, want)
			})
		}

		return valid("new-literal", func() {
			m.removeEverywhere(x)
			x.literal, x.marker, x.flags = d.literal, d.marker, flagMap(d.flags)
			x.gen++

			for _, b := range want {
				b.add(x)
			}
		})
	}

	return ambiguous("unknown-kind")
}

// judgeCreated: MessagesCreated creates the messages gluon does not know yet (first occurrence in the batch wins) and,
// for every message, adds the memberships it does not have yet; a known message only gains memberships
// (TestMessageAddWithSameID, applyMessagesCreated). Elements naming the recovery mailbox are skipped with a log line.
func (e *env) judgeCreated(items []item, ignoreUnknown bool) verdict {
	m := e.m

	type add struct {
		b   *mbox
		rid imap.MessageID
	}

	var (
		create  []item
		adds    []add
		skipped bool
	)

	created := map[imap.MessageID]bool{}
	seen := map[add]bool{}

	for _, it := range items {
		if hasBox(it.boxes, recoveryRID) {
			skipped = true
			continue
		}

		x := m.msgByRID(it.rid)
		if x != nil && x.retired {
			return ambiguous("readd-after-MessageDeleted")
		}

		if x == nil && !created[it.rid] {
			created[it.rid] = true
			create = append(create, it)
		}

		for _, id := range it.boxes {
			b := m.boxByRID(id)
			if b == nil {
				if ignoreUnknown {
					continue
				}

				return refuse("unknown-mailbox")
			}

			if x != nil && b.index(x) >= 0 {
				continue // already a member: nothing to add
			}

			if a := (add{b, it.rid}); !seen[a] {
				seen[a] = true
				adds = append(adds, a)
			}
		}
	}

	apply := func() {
		for _, it := range create {
			m.addMsg(it.rid, it.marker, it.literal, it.flags)
		}

		for _, a := range adds {
			a.b.add(m.msgByRID(a.rid))
		}
	}

	if len(create) == 0 && len(adds) == 0 {
		apply = nil
	}

	if skipped {
		return lenient("created-into-protected-mailbox-skipped", apply)
	}

	if apply == nil {
		return valid("restates", nil)
	}

	return valid("create", apply)
}

type resolved struct {
	unknown  bool
	recovery bool
	box      imap.InternalMailboxID
	msg      imap.InternalMessageID
	gen      int
}

func (e *env) dbRead(fn func(ctx context.Context, r db.ReadOnly) error) error {
	ctx, cancel := context.WithTimeout(context.Background(), 60*time.Second)
	defer cancel()

	return e.b.Server.VerifDBRead(ctx, e.u.ID, fn)
}

// resolve looks up, once per descriptor, the internal id an IDChanged update names (a re-delivery carries the same id).
func (e *env) resolve(d *desc) {
	switch d.kind {
	case kMailboxIDChanged:
		if _, ok := e.resolvedBox[d.id]; ok {
			return
		}

		r := resolved{}

		switch {
		case d.bogus == 2:
			r.recovery = true

			if err := e.dbRead(func(ctx context.Context, ro db.ReadOnly) error {
				mb, err := ro.GetMailboxByName(ctx, recoveryName)
				if err == nil {
					r.box = mb.ID
				}

				return err
			}); err != nil {
				e.harness("recovery mailbox lookup: %v", err)
			}
		case d.bogus == 1 || e.m.allBoxes[d.boxKey].gone:
			r.unknown, r.box = true, imap.InternalMailboxID(987654321)
		default:
			if err := e.dbRead(func(ctx context.Context, ro db.ReadOnly) error {
				id, err := ro.GetMailboxIDFromRemoteID(ctx, e.m.allBoxes[d.boxKey].rid)
				r.box = id

				return err
			}); err != nil {
				e.fail("mailbox %q (remote id %s) of the model is not in the database: %v", e.m.allBoxes[d.boxKey].name, e.m.allBoxes[d.boxKey].rid, err)
			}
		}

		e.resolvedBox[d.id] = r

	case kMessageIDChanged:
		if _, ok := e.resolvedMsg[d.id]; ok {
			return
		}

		r := resolved{}

		if d.bogus == 1 {
			r.unknown = true
			r.msg, _ = imap.InternalMessageIDFromString("00000000-0000-4000-8000-00000000beef")
		} else {
			x := e.m.msgs[d.msgKey]
			r.gen = x.gen

			if err := e.dbRead(func(ctx context.Context, ro db.ReadOnly) error {
				id, err := ro.GetMessageIDFromRemoteID(ctx, x.rid)
				r.msg = id

				return err
			}); err != nil {
				if x.retired {
					r.unknown = true
					r.msg, _ = imap.InternalMessageIDFromString("00000000-0000-4000-8000-00000000dead")
				} else {
					e.fail("message %s (remote id %s) of the model is not in the database: %v", x.marker, x.rid, err)
				}
			}
		}

		e.resolvedMsg[d.id] = r
	}
}

func parsed(literal []byte) *imap.ParsedMessage {
	p, err := imap.NewParsedMessage(literal)
	if err != nil {
		panic(fmt.Sprintf("harness: generated literal does not parse: %v", err))
	}

	return p
}

// build makes a new update object from the descriptor.
func (e *env) build(d *desc) imap.Update {
	flags := func(f []string) imap.FlagSet { return imap.NewFlagSetFromSlice(f) }
	cp := func(ids []imap.MailboxID) []imap.MailboxID { return append([]imap.MailboxID(nil), ids...) }

	switch d.kind {
	case kMailboxCreated:
		c := e.u.Conn

		return imap.NewMailboxCreated(imap.Mailbox{
			ID: d.boxRID, Name: strings.Split(d.name, "/"), Flags: c.Flags, PermanentFlags: c.PermFlags, Attributes: c.Attrs,
		})
	case kMailboxDeleted:
		return imap.NewMailboxDeleted(d.boxRID)
	case kMailboxUpdated:
		return imap.NewMailboxUpdated(d.boxRID, strings.Split(d.name, "/"))
	case kMailboxIDChanged:
		return imap.NewMailboxIDChanged(e.resolvedBox[d.id].box, d.newBoxRID)
	case kMessagesCreated:
		mcs := make([]*imap.MessageCreated, 0, len(d.items))

		for _, it := range d.items {
			mcs = append(mcs, &imap.MessageCreated{
				Message:       imap.Message{ID: it.rid, Flags: flags(it.flags), Date: msgDate},
				Literal:       append([]byte(nil), it.literal...),
				MailboxIDs:    cp(it.boxes),
				ParsedMessage: parsed(it.literal),
			})
		}

		return imap.NewMessagesCreated(d.ignoreUnknown, mcs...)
	case kMessageMailboxes:
		return imap.NewMessageMailboxesUpdated(d.msgRID, cp(d.boxes), flags(d.flags))
	case kMessageFlags:
		return imap.NewMessageFlagsUpdated(d.msgRID, flags(d.flags))
	case kMessageIDChanged:
		return imap.NewMessageIDChanged(e.resolvedMsg[d.id].msg, d.newMsgRID)
	case kMessageDeleted:
		return imap.NewMessagesDeleted(d.msgRID)
	case kMessageUpdated:
		return imap.NewMessageUpdated(imap.Message{ID: d.msgRID, Flags: flags(d.flags), Date: msgDate},
			append([]byte(nil), d.literal...), cp(d.boxes), parsed(d.literal), d.allowCreate)
	case kUIDValidityBump:
		return imap.NewUIDValidityBumped()
	default:
		return imap.NewNoop()
	}
}

// descOf turns an echo taken from the connector's outbox into a descriptor (so that it is judged and re-delivered like
// every other update).
func (e *env) descOf(u imap.Update) *desc {
	d := e.newDesc("")
	d.echo = true

	fl := func(f imap.FlagSet) []string { return f.ToSlice() }

	switch u := u.(type) {
	case *imap.MailboxCreated:
		d.kind, d.boxRID, d.name = kMailboxCreated, u.Mailbox.ID, strings.Join(u.Mailbox.Name, "/")
	case *imap.MailboxDeleted:
		d.kind, d.boxRID = kMailboxDeleted, u.MailboxID
	case *imap.MailboxUpdated:
		d.kind, d.boxRID, d.name = kMailboxUpdated, u.MailboxID, strings.Join(u.MailboxName, "/")
	case *imap.MessagesCreated:
		d.kind, d.ignoreUnknown = kMessagesCreated, u.IgnoreUnknownMailboxIDs

		for _, mc := range u.Messages {
			d.items = append(d.items, item{rid: mc.Message.ID, marker: markerOf(mc.Literal), literal: mc.Literal, flags: fl(mc.Message.Flags), boxes: mc.MailboxIDs})
		}
	case *imap.MessageMailboxesUpdated:
		d.kind, d.msgRID, d.boxes, d.flags = kMessageMailboxes, u.MessageID, u.MailboxIDs, fl(u.Flags)
	case *imap.MessageFlagsUpdated:
		d.kind, d.msgRID, d.flags = kMessageFlags, u.MessageID, fl(u.Flags)
	case *imap.MessageDeleted:
		d.kind, d.msgRID = kMessageDeleted, u.MessageID
	default:
		e.harness("unexpected echo %T %s", u, u)
	}

	return d
}

// judgeUpdatedIntoRecovery: MessageUpdated for a known message naming the protected recovery mailbox. Every other kind
// refuses or skips the protected id (connector_updates.go: "attempting to ... protected mailbox (recovery)"), so the
// update must be refused or ignored and change nothing. While the finding is listed the update is not delivered.
func (e *env) judgeUpdatedIntoRecovery(d *desc, x *mmsg) verdict {
	if kf.Listed(kfUpdatedIntoRecovery) {
		ev.Excluded(1)
		return ambiguous("excluded-known:" + kfUpdatedIntoRecovery)
	}

	return lenient("message-updated-into-protected-mailbox", nil)
}
