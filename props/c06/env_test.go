package c06

import (
	"context"
	"flag"
	"fmt"
	"regexp"
	"sort"
	"strings"
	"sync"
	"time"

	"github.com/ProtonMail/gluon/imap"
	"pgregory.net/rapid"

	"verif/internal/bed"
	"verif/internal/ev"
	"verif/internal/imapc"
	"verif/internal/kf"
	"verif/internal/mach"
	"verif/internal/vconn"
)

// watchdog for one acknowledgement (normally < 10 ms; a 1 200 message batch well below a second). The re-check of
// DESIGN.md §1.6 uses twice this budget.
const ackWatchdog = 15 * time.Second

var idHeader = regexp.MustCompile(`^X-Pm-Gluon-Id: [0-9a-fA-F-]{36}\r\n`)

func markerOf(literal []byte) string { return mach.MarkerOf(string(literal)) }

type caseCfg struct {
	twoSessions bool
	noParallel  bool
}

// step is one element of a generated sequence, as plain data (so that a history can be run again, DESIGN.md §1.6).
type step struct {
	op        string // upd | dup | cmd | progress
	d         *desc
	times     int  // deliveries of the same content in a row
	focus     bool // first move the observer onto a mailbox the update is about
	c         *cmd
	echoTimes int
	name      string         // progress: name of the new mailbox
	rid       imap.MailboxID // progress: remote id of the new mailbox
	drop      bool           // progress: delete the mailbox again
}

type cmd struct {
	op     string // append | select | store | markdel | delexp | copy | move | create | rename | delete | noop
	boxKey int    // mailbox the command works in (source)
	dstKey int
	msgKey int
	flag   string
	plus   bool
	flags  []string
	name   string
	marker string
}

func (c *cmd) String() string {
	return fmt.Sprintf("%s box#%d dst#%d msg#%d %s%v %v %q %s", c.op, c.boxKey, c.dstKey, c.msgKey, c.flag, c.plus, c.flags, c.name, c.marker)
}

type stopReplay struct{ what string }

type env struct {
	t   rapid.TB
	cfg caseCfg
	b   *bed.Bed
	u   *bed.User
	m   *model

	obs, act, lst  *bed.Session
	obsBox, actBox *mbox

	nDesc       int
	resolvedBox map[int]resolved
	resolvedMsg map[int]resolved
	delivered   []*desc // for re-delivery after other updates

	steps     []step
	replaying bool
	watchdog  time.Duration

	lastList, lastLsub []string

	rekeyedUndrained bool // a MessageIDChanged was delivered without draining the acting session first (finding not listed)

	// evidence
	labels          map[string]int
	kinds           map[string]int
	ops             []string
	sawFail         bool
	failThenValid   bool
	redelivered     bool
	restatingChecks int
}

func newEnv(t rapid.TB, cfg caseCfg, replaying bool) *env {
	b, err := bed.Start(bed.Options{Echo: vconn.Faithful, DisableParallelism: cfg.noParallel}, bed.UserSpec{Name: "user", Pass: "pass"})
	if err != nil {
		t.Fatalf("harness: bed: %v", err)
	}

	e := &env{
		t: t, cfg: cfg, b: b, u: b.Users[0], m: newModel(), replaying: replaying, watchdog: ackWatchdog,
		resolvedBox: map[int]resolved{}, resolvedMsg: map[int]resolved{}, labels: map[string]int{}, kinds: map[string]int{},
	}

	if replaying {
		e.watchdog = 2 * ackWatchdog
	}

	e.u.Conn.Watchdog = e.watchdog
	e.m.addBox(e.u.Inbox.ID, "INBOX")

	return e
}

func (e *env) close() {
	for _, s := range []*bed.Session{e.obs, e.act, e.lst} {
		if s != nil {
			s.Logout()
		}
	}

	e.b.Destroy()
}

func (e *env) label(l string) { e.labels[l]++ }

func (e *env) note(format string, a ...any) {
	s := fmt.Sprintf(format, a...)
	e.ops = append(e.ops, s)
	e.b.Hist.Add("== %s", s)
}

func (e *env) fail(format string, a ...any) {
	if e.replaying {
		panic(stopReplay{"diverged: " + fmt.Sprintf(format, a...)})
	}

	e.t.Fatalf("C06 violated: "+format+"\nsequence:\n  %s\nhistory:\n%s", append(a, strings.Join(e.ops, "\n  "), e.b.Hist)...)
}

func (e *env) harness(format string, a ...any) {
	if e.replaying {
		panic(stopReplay{"harness: " + fmt.Sprintf(format, a...)})
	}

	e.t.Fatalf("harness: "+format+"\nsequence:\n  %s\nhistory:\n%s", append(a, strings.Join(e.ops, "\n  "), e.b.Hist)...)
}

func (e *env) newDesc(kind string) *desc {
	e.nDesc++
	return &desc{id: e.nDesc, kind: kind, boxKey: -1, msgKey: -1}
}

func (e *env) barrier() {
	if err := e.b.Barrier(e.u); err != nil {
		e.harness("barrier: %v", err)
	}
}

// ---- sessions ----

func (e *env) login(name string) *bed.Session {
	s, err := e.b.Login(name, e.u)
	if err != nil {
		e.harness("login %s: %v", name, err)
	}

	return s
}

func alive(s *bed.Session) bool { return s != nil && !s.Dead }

func (e *env) drop(s **bed.Session) {
	if *s != nil {
		(*s).Logout()
		*s = nil
	}
}

// selectBox logs the session in again if needed and selects the mailbox (after a barrier: listed finding
// C02-stale-update-after-select).
func (e *env) selectBox(s **bed.Session, name string, cur **mbox, b *mbox) {
	for attempt := 0; ; attempt++ {
		if !alive(*s) {
			e.drop(s)
			*s = e.login(name)
		}

		e.barrier()

		r := (*s).Select(b.name, false)
		if r.OK() {
			*cur = b
			return
		}

		if attempt >= 2 || !(*s).Dead {
			e.fail("mailbox %q of the model cannot be selected: %v", b.name, r)
		}
	}
}

func (e *env) affectedBox(d *desc) *mbox {
	if d == nil {
		return nil
	}

	if b := e.m.boxByRID(d.boxRID); b != nil {
		return b
	}

	if d.kind == kMailboxIDChanged && d.boxKey >= 0 && !e.m.allBoxes[d.boxKey].gone {
		return e.m.allBoxes[d.boxKey]
	}

	for _, id := range d.boxes {
		if b := e.m.boxByRID(id); b != nil {
			return b
		}
	}

	var x *mmsg

	if d.msgRID != "" {
		x = e.m.msgByRID(d.msgRID)
	} else if d.kind == kMessageIDChanged && d.msgKey >= 0 {
		x = e.m.msgs[d.msgKey]
	}

	if x != nil {
		if bs := e.m.boxesOf(x); len(bs) > 0 {
			return bs[0]
		}
	}

	for _, it := range d.items {
		for _, id := range it.boxes {
			if b := e.m.boxByRID(id); b != nil {
				return b
			}
		}
	}

	return nil
}

// prepareObserver makes sure the passive observer is alive, selected in a live mailbox (the one the update is about when
// focus is set) and has been told everything that happened so far.
func (e *env) prepareObserver(d *desc, focus bool) {
	for attempt := 0; ; attempt++ {
		target := e.obsBox

		if focus {
			if b := e.affectedBox(d); b != nil {
				target = b
			}
		}

		if target == nil || target.gone {
			target = e.m.boxes[0]
		}

		if !alive(e.obs) || e.obsBox != target {
			e.selectBox(&e.obs, "obs", &e.obsBox, target)
		}

		e.barrier()

		if r := e.obs.Do("NOOP"); r.OK() && !e.obs.Dead {
			return
		}

		// BYE (mailbox deleted / UIDVALIDITY bumped under the session): log in again
		e.drop(&e.obs)

		if attempt >= 2 {
			e.harness("observer cannot be brought up")
		}
	}
}

func (e *env) drainAct() {
	if alive(e.act) && e.act.Selected != "" {
		e.barrier()
		e.act.Do("NOOP")

		if e.act.Dead {
			e.drop(&e.act)
		}
	}
}

func lastCalls(c *vconn.Conn, n int) []string {
	var res []string

	c.Lock(func() {
		res = append(res, c.Calls...)
	})

	if len(res) > n {
		res = res[len(res)-n:]
	}

	return res
}

// quiet is oracle (5): after an update that restates the current state the observer's next NOOP carries no EXISTS,
// EXPUNGE or FETCH (and the session is not thrown out).
func (e *env) quiet(what string) {
	e.barrier()

	r := e.obs.Do("NOOP")

	for _, un := range r.Untagged {
		if _, kw, ok := un.Num(); ok && (kw == "EXISTS" || kw == "EXPUNGE" || kw == "FETCH") {
			e.fail("%s changes nothing in the model (it restates the current state or was refused), but the observer selected in %q is sent %q on its next NOOP", what, e.obsBox.name, un.Raw)
		}
	}

	if !r.OK() || e.obs.Dead {
		e.fail("%s changes nothing in the model, but the observer selected in %q is thrown out: %v", what, e.obsBox.name, r)
	}

	e.restatingChecks++
}

// ---- comparison of the server with the model: oracle (3) and (4) ----

func (e *env) list() (selectable, lsub []string) {
	for attempt := 0; ; attempt++ {
		if !alive(e.lst) {
			e.drop(&e.lst)
			e.lst = e.login("lst")
		}

		r1 := e.lst.Do(`LIST "" "*"`)
		r2 := e.lst.Do(`LSUB "" "*"`)

		if r1.OK() && r2.OK() {
			return listNames(r1, "LIST", true), listNames(r2, "LSUB", false)
		}

		e.drop(&e.lst)

		if attempt >= 2 {
			e.harness("LIST/LSUB: %v / %v", r1, r2)
		}
	}
}

func listNames(r *imapc.Result, kw string, selectableOnly bool) []string {
	var res []string

	for _, un := range r.Untagged {
		if un.Keyword() != kw || len(un.Tokens) < 4 {
			continue
		}

		noselect := false

		for _, a := range un.Tokens[1].Items {
			if strings.EqualFold(a.Str, `\Noselect`) {
				noselect = true
			}
		}

		if selectableOnly && noselect {
			continue
		}

		res = append(res, un.Tokens[3].Str)
	}

	sort.Strings(res)

	return res
}

func has(list []string, s string) bool {
	i := sort.SearchStrings(list, s)
	return i < len(list) && list[i] == s
}

// affected returns the mailboxes an update can touch: those it names and those holding a message it names. nil = all
// (mailbox-level updates). It is evaluated before and after the model change; the mailboxes outside the union are
// compared at the next full comparison (every client command, every progress step, the end of the sequence).
func (e *env) affected(d *desc, into map[*mbox]bool) map[*mbox]bool {
	switch d.kind {
	case kMailboxCreated, kMailboxDeleted, kMailboxUpdated, kMailboxIDChanged, kUIDValidityBump:
		return nil
	}

	if into == nil {
		into = map[*mbox]bool{}
	}

	box := func(id imap.MailboxID) {
		if b := e.m.boxByRID(id); b != nil {
			into[b] = true
		}
	}

	msg := func(x *mmsg) {
		if x != nil {
			for _, b := range e.m.boxesOf(x) {
				into[b] = true
			}
		}
	}

	for _, id := range d.boxes {
		box(id)
	}

	if d.msgRID != "" {
		msg(e.m.msgByRID(d.msgRID))
	}

	if d.kind == kMessageIDChanged && d.msgKey >= 0 {
		msg(e.m.msgs[d.msgKey])
	}

	if len(d.items) > 40 {
		return nil
	}

	for _, it := range d.items {
		msg(e.m.msgByRID(it.rid))

		for _, id := range it.boxes {
			box(id)
		}
	}

	return into
}

func (e *env) compare(after string, identity bool, only map[*mbox]bool) {
	if err := e.b.CheckPanics(); err != nil {
		e.fail("after %s: %v", after, err)
	}

	names, lsub := e.list()

	if want := e.m.liveNames(); strings.Join(names, "\x00") != strings.Join(want, "\x00") {
		e.fail("after %s: LIST shows the selectable mailboxes %q, the updates describe %q", after, names, want)
	}

	for _, b := range e.m.boxes {
		if !has(lsub, b.name) {
			e.fail("after %s: mailbox %q is not listed by LSUB %q (mailboxes are created subscribed)", after, b.name, lsub)
		}
	}

	for n := range e.m.unsub {
		if has(lsub, n) {
			e.fail("after %s: %q was removed by a connector MailboxDeleted but LSUB still lists it: %q", after, n, lsub)
		}
	}

	if identity && e.lastList != nil {
		if strings.Join(names, "\x00") != strings.Join(e.lastList, "\x00") || strings.Join(lsub, "\x00") != strings.Join(e.lastLsub, "\x00") {
			e.fail("after %s (changes nothing in the model): LIST/LSUB changed from %q / %q to %q / %q", after, e.lastList, e.lastLsub, names, lsub)
		}
	}

	e.lastList, e.lastLsub = names, lsub

	for _, b := range e.m.boxes {
		if only == nil || only[b] || b.uidValidity == 0 {
			e.compareBox(after, b)
		}
	}
}

func (e *env) compareBox(after string, b *mbox) {
	fresh, validity, uidNext, ok, err := e.b.FreshView(e.u, b.name, true)
	if err != nil {
		e.harness("fresh view of %s: %v", b.name, err)
	}

	if !ok {
		e.fail("after %s: mailbox %q cannot be examined", after, b.name)
	}

	if len(fresh) != len(b.entries) {
		e.fail("after %s: mailbox %q holds %d messages %s, the updates describe %d: %s", after, b.name, len(fresh), freshSummary(fresh), len(b.entries), e.m.describe(b))
	}

	switch {
	case b.bumped:
		if b.uidValidity != 0 && validity <= b.uidValidity {
			e.fail("after %s: UIDVALIDITY of %q is %d, it was %d before the bump", after, b.name, validity, b.uidValidity)
		}

		// the UIDs of a new validity epoch are learned again
		for i := range b.entries {
			b.entries[i].uid = 0
		}

		b.uidNext, b.bumped = 0, false
	case b.uidValidity != 0 && validity != b.uidValidity:
		e.fail("after %s: UIDVALIDITY of %q changed from %d to %d", after, b.name, b.uidValidity, validity)
	}

	b.uidValidity = validity
	newUIDs := 0

	for i, f := range fresh {
		en := &b.entries[i]
		x := en.msg

		if mk := mach.MarkerOf(f.Body); mk != x.marker {
			e.fail("after %s: mailbox %q position %d holds message %q, the updates describe %q (server %s; model %s)", after, b.name, i+1, mk, x.marker, freshSummary(fresh), e.m.describe(b))
		}

		switch {
		case en.uid != 0 && en.uid != f.UID:
			e.fail("after %s: message %s in %q had UID %d and now has UID %d", after, x.marker, b.name, en.uid, f.UID)
		case en.uid == 0:
			if b.uidNext != 0 && f.UID < b.uidNext {
				e.fail("after %s: message %s was added to %q under UID %d although UIDNEXT was %d already", after, x.marker, b.name, f.UID, b.uidNext)
			}

			en.uid = f.UID
			newUIDs++
		}

		if wf := en.wantFlags(); !imapc.SameFlags(f.Flags, wf) {
			e.fail("after %s: message %s (uid %d) in %q has flags %v, the updates describe %v", after, x.marker, f.UID, b.name, f.Flags, wf)
		}

		loc := idHeader.FindStringIndex(f.Body)
		if loc == nil || f.Body[loc[1]:] != string(x.literal) {
			e.fail("after %s: message %s in %q: bytes differ from the literal of the update (+ id header line):\n%q\nwant (after the id header)\n%q", after, x.marker, b.name, f.Body, x.literal)
		}

		if f.Size != len(f.Body) {
			e.fail("after %s: message %s in %q: RFC822.SIZE %d but BODY[] has %d bytes", after, x.marker, b.name, f.Size, len(f.Body))
		}
	}

	if n := len(fresh); n > 0 && uidNext <= fresh[n-1].UID {
		e.fail("after %s: UIDNEXT %d of %q does not exceed its highest UID %d", after, uidNext, b.name, fresh[n-1].UID)
	}

	if b.uidNext != 0 {
		if uidNext < b.uidNext {
			e.fail("after %s: UIDNEXT of %q went down from %d to %d", after, b.name, b.uidNext, uidNext)
		}

		if newUIDs == 0 && uidNext != b.uidNext {
			e.fail("after %s: UIDNEXT of %q changed from %d to %d although no message was added (a new UID was allocated)", after, b.name, b.uidNext, uidNext)
		}
	}

	b.uidNext = uidNext
}

func freshSummary(f []bed.FreshMsg) string {
	var sb strings.Builder

	for i, m := range f {
		if i == 12 && len(f) > 16 {
			fmt.Fprintf(&sb, "… (%d more)", len(f)-12)
			break
		}

		fmt.Fprintf(&sb, "%s(uid %d)%v ", mach.MarkerOf(m.Body), m.UID, m.Flags)
	}

	return sb.String()
}

// ---- the remote side: vconn's model follows the updates the "remote" sent ----

// syncRemote rewrites vconn's remote model from the reference model after a connector update was applied (client
// commands reach vconn through gluon's connector calls).
func (e *env) syncRemote() {
	m := e.m
	c := e.u.Conn

	c.Lock(func() {
		for id := range c.Mailboxes {
			delete(c.Mailboxes, id)
		}

		for id := range c.Messages {
			delete(c.Messages, id)
		}

		for _, b := range m.boxes {
			c.Mailboxes[b.rid] = &vconn.RMailbox{ID: b.rid, Name: strings.Split(b.name, "/")}
		}

		for _, x := range m.msgs {
			if x.retired {
				continue
			}

			c.Messages[x.rid] = &vconn.RMessage{ID: x.rid, Literal: x.literal, Flags: imap.NewFlagSetFromSlice(flagList(x.flags)), Date: msgDate, Boxes: map[imap.MailboxID]bool{}}
		}

		for _, b := range m.boxes {
			for _, en := range b.entries {
				c.Messages[en.msg.rid].Boxes[b.rid] = true
			}
		}
	})
}

// checkRemote verifies (harness self-check) that vconn's remote model, as changed by gluon's connector calls during a
// client command, equals the reference model: only then are the echoes restatements of the current state.
func (e *env) checkRemote(after string) {
	m := e.m
	c := e.u.Conn

	var diff string

	c.Lock(func() {
		if len(c.Mailboxes) != len(m.boxes) {
			diff = fmt.Sprintf("remote has %d mailboxes, model %d", len(c.Mailboxes), len(m.boxes))
			return
		}

		for _, b := range m.boxes {
			rb, ok := c.Mailboxes[b.rid]
			if !ok || strings.Join(rb.Name, "/") != b.name {
				diff = fmt.Sprintf("mailbox %s %q: remote %+v", b.rid, b.name, rb)
				return
			}
		}

		live := m.liveMsgs()
		if len(c.Messages) != len(live) {
			diff = fmt.Sprintf("remote has %d messages, model %d", len(c.Messages), len(live))
			return
		}

		for _, x := range live {
			rm, ok := c.Messages[x.rid]
			if !ok {
				diff = fmt.Sprintf("message %s %s missing remotely", x.rid, x.marker)
				return
			}

			if !sameFlagMap(x.flags, rm.Flags.ToSlice()) {
				diff = fmt.Sprintf("message %s %s: remote flags %v, model %v", x.rid, x.marker, rm.Flags.ToSlice(), flagList(x.flags))
				return
			}

			bs := m.boxesOf(x)
			if len(bs) != len(rm.Boxes) {
				diff = fmt.Sprintf("message %s %s: remote boxes %v, model %d boxes", x.rid, x.marker, rm.Boxes, len(bs))
				return
			}

			for _, b := range bs {
				if !rm.Boxes[b.rid] {
					diff = fmt.Sprintf("message %s %s: remote boxes %v lack %s", x.rid, x.marker, rm.Boxes, b.rid)
					return
				}
			}
		}
	})

	if diff != "" && e.rekeyedUndrained {
		e.fail("after %s the remote side departs from what the updates and commands describe (%s): a MessageIDChanged was applied while the acting session had not flushed everything queued for it, and the session named a message by its old remote id when calling the connector (calls: %v)", after, diff, lastCalls(e.u.Conn, 6))
	}

	if diff != "" {
		e.harness("after %s the remote model departs from the reference model: %s", after, diff)
	}
}

// ---- delivery: oracles (1), (2) ----

func (e *env) ctx(d time.Duration) (context.Context, context.CancelFunc) {
	return context.WithTimeout(context.Background(), d)
}

// neverAcked handles a watchdog that fired while waiting for an acknowledgement (DESIGN.md §1.6): a time budget alone is
// never a verdict. First the same waiter is given twice the budget again; if the acknowledgement still does not come,
// the recorded history is run again on a new server with a doubled watchdog, and only if the same delivery is again not
// acknowledged is this a violation. Everything else ends the run inconclusive.
func (e *env) neverAcked(u imap.Update, what, class string, dl vconn.Delivery) {
	if e.replaying {
		panic(stopReplay{"not acknowledged: " + what})
	}

	if err := e.b.CheckPanics(); err != nil {
		e.fail("%s was not acknowledged, and: %v", what, err)
	}

	// The full re-check costs five watchdog periods. Once it has confirmed a non-termination for this class of delivery
	// in this process, the repetitions that rapid needs to reproduce and minimise the history are not re-checked again
	// (the process ends with a violation in any case).
	confirmedMu.Lock()
	earlier := confirmedClass[class]
	confirmedMu.Unlock()

	if earlier != "" {
		e.t.Fatalf("C06 violated (VERIF-VIOLATION): %s was not acknowledged within %v (delivery: %+v); the same class of delivery (%s) was confirmed as never acknowledged earlier in this process: %s\nsequence:\n  %s\nhistory:\n%s",
			what, e.watchdog, dl, class, earlier, strings.Join(e.ops, "\n  "), e.b.Hist)
	}

	ctx, cancel := e.ctx(2 * e.watchdog)
	defer cancel()

	if _, ok := u.WaitContext(ctx); ok || ctx.Err() == nil {
		e.t.Fatalf("VERIF-INCONCLUSIVE: %s was acknowledged only after more than %v (machine too slow?)", what, e.watchdog)
	}

	confirmed, note := rerun(e.cfg, e.steps)
	if !confirmed {
		e.t.Fatalf("VERIF-INCONCLUSIVE: %s was not acknowledged within %v + %v, but the re-run of the history did not confirm it: %s", what, e.watchdog, 2*e.watchdog, note)
	}

	confirmedMu.Lock()
	confirmedClass[class] = fmt.Sprintf("waited %v, then %v more, then re-ran the history with a watchdog of %v: %s", e.watchdog, 2*e.watchdog, 2*e.watchdog, note)
	confirmedMu.Unlock()

	// keep the minimisation of this (already small) history short
	if f := flag.Lookup("rapid.shrinktime"); f != nil {
		_ = f.Value.Set("5s")
	}

	e.t.Fatalf("C06 violated (VERIF-VIOLATION): %s was never acknowledged (delivery: %+v; waited %v, then %v more; confirmed by a re-run of the history with a watchdog of %v: %s)\nsequence:\n  %s\nhistory:\n%s",
		what, dl, e.watchdog, 2*e.watchdog, 2*e.watchdog, note, strings.Join(e.ops, "\n  "), e.b.Hist)
}

var (
	confirmedMu    sync.Mutex
	confirmedClass = map[string]string{}
)

// rerun executes a recorded history on a new server; it reports whether a delivery was again not acknowledged.
func rerun(cfg caseCfg, steps []step) (confirmed bool, note string) {
	var e *env

	defer func() {
		if e != nil {
			e.close()
		}

		if r := recover(); r != nil {
			s, ok := r.(stopReplay)
			if !ok {
				panic(r)
			}

			confirmed, note = strings.HasPrefix(s.what, "not acknowledged"), s.what
		}
	}()

	e = newEnv(replayTB{}, cfg, true)

	for _, s := range steps {
		e.exec(s)
	}

	return false, "the re-run acknowledged every update"
}

type replayTB struct{ rapid.TB }

func (replayTB) Helper()                        {}
func (replayTB) Logf(string, ...any)            {}
func (replayTB) Fatalf(format string, a ...any) { panic(stopReplay{"harness: " + fmt.Sprintf(format, a...)}) }

// send delivers one new update object and enforces oracle (1).
func (e *env) send(u imap.Update, what, class string) vconn.Delivery {
	// the budget grows with the size of a batch (a time budget is never a verdict on its own, see neverAcked)
	e.u.Conn.Watchdog = e.watchdog

	if mc, ok := u.(*imap.MessagesCreated); ok {
		e.u.Conn.Watchdog += time.Duration(len(mc.Messages)) * 25 * time.Millisecond
	}

	dl := e.b.DeliverNow(e.u, u)[0]

	if !dl.Acked {
		if dl.Err != nil && dl.Err != vconn.ErrNotAcked {
			e.harness("%s: %v", what, dl.Err)
		}

		e.neverAcked(u, what, class, dl)
	}

	if err := e.b.CheckPanics(); err != nil {
		e.fail("%s: %v", what, err)
	}

	return dl
}

// deliver sends the update described by d once and judges it.
func (e *env) deliver(d *desc, redelivery, focus bool) {
	e.resolve(d)

	v := e.judge(d)
	e.label(d.kind + ":" + v.class + ":" + v.why)

	if v.class == "ambiguous" {
		e.label("ambiguous:" + v.why)
		e.note("not delivered (%s): %s", v.why, d)

		return
	}

	e.kinds[d.kind]++

	if d.kind == kMessagesCreated && !d.echo {
		switch n := len(d.items); {
		case n == 0:
			e.label("batch:0")
		case n <= 4:
			e.label("batch:1-4")
		case n <= 40:
			e.label("batch:5-40")
		default:
			e.label("batch:900-1200")
		}
	}

	if d.echo {
		e.label("echo:" + d.kind)
	}

	if redelivery {
		e.redelivered = true
		e.label("redelivery:" + d.kind)
	}

	e.prepareObserver(d, focus)

	if d.kind == kMessageIDChanged && v.class == "valid" && v.apply != nil {
		if kf.Listed(kfStaleRemoteID) {
			// steer around C06-message-id-change-misses-pending-exists: no session holds an unflushed EXISTS
			e.drainAct()
			ev.Excluded(1)
		} else {
			e.rekeyedUndrained = true
		}
	}

	before := e.m.canon()
	what := fmt.Sprintf("%s [%s:%s]", d, v.class, v.why)
	aff := e.affected(d, nil)

	class := d.kind + ":" + v.class + ":" + v.why
	dl := e.send(e.build(d), what, class)
	e.note("%s -> err=%v", what, dl.Err)

	switch {
	case v.want == wantOK && dl.Err != nil:
		e.fail("%s is valid for the current remote state but was refused: %v", what, dl.Err)
	case v.want == wantErr && dl.Err == nil:
		e.fail("%s is not applicable (%s) but was acknowledged with success", what, v.why)
	}

	if dl.Err == nil && v.apply != nil {
		v.apply()
		e.syncRemote()
	}

	identity := e.m.canon() == before

	if identity {
		e.label("restating-or-refused:" + d.kind)
	} else if d.echo {
		e.fail("the echo %s of the server's own action does not restate the state the command left (model changed)", what)
	}

	// (2) progress: whatever came before, a Noop is acknowledged with success
	if nd := e.send(imap.NewNoop(), "Noop after "+what, "Noop after "+class); nd.Err != nil {
		e.fail("Noop after %s refused: %v", what, nd.Err)
	}

	if aff != nil {
		aff = e.affected(d, aff)
	}

	e.compare(what, identity, aff)

	if identity {
		e.quiet(what)
	}

	if dl.Err != nil {
		e.sawFail = true
	} else if v.class == "valid" && e.sawFail {
		e.failThenValid = true
	}

	if !d.echo {
		e.delivered = append(e.delivered, d)
	}
}

// progress is oracle (2): a valid MailboxCreated (and a Noop, sent by deliver) is acknowledged with success.
func (e *env) progress(s step) {
	d := e.newDesc(kMailboxCreated)
	d.boxRID, d.name = s.rid, s.name
	e.deliver(d, false, false)

	if s.drop {
		dd := e.newDesc(kMailboxDeleted)
		dd.boxRID = s.rid
		e.deliver(dd, false, false)
	}
}

func (e *env) exec(s step) {
	if !e.replaying {
		e.steps = append(e.steps, s)
	}

	switch s.op {
	case "upd", "dup":
		for i := 0; i < s.times; i++ {
			e.deliver(s.d, s.op == "dup" || i > 0, s.focus)
		}
	case "progress":
		e.progress(s)
	case "cmd":
		e.command(s.c, s.echoTimes)
	}
}
