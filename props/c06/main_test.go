package c06

import (
	"strconv"
	"testing"

	"verif/internal/ev"
	"verif/internal/mach"
)

func itoa(n int) string { return strconv.Itoa(n) }

func machMsg(marker, extra string) []byte { return mach.Msg(marker, extra) }

func TestMain(m *testing.M) {
	ev.Main(m, "C06", "exploration",
		"rapid-generated sequences (<= 25 updates + <= 15 client commands) of connector updates of all 12 kinds built against a remote model: valid ones, ones naming unknown / deleted mailbox or message ids, unknown internal ids, the protected recovery mailbox, name and id clashes, MessagesCreated batches of 0..1200 elements with repeated messages, several mailboxes and IgnoreUnknownMailboxIDs on/off, MessageUpdated with same/new literal and AllowCreate on/off; every content delivered 1-3 times in a row and again after other updates (a NEW update object per delivery); client commands of a second session (APPEND, STORE, COPY, MOVE, EXPUNGE, CREATE, RENAME, DELETE) whose echoes (vconn policy faithful) are delivered 1-2 times; a passive observer selected in a (mostly the affected) mailbox. Oracle after EVERY delivery: acknowledged once within the watchdog (no panic of the update goroutine; never-acknowledged re-checked per DESIGN 1.6), a trailing Noop (and regularly a valid MailboxCreated) succeeds, success/error as the current remote state demands, LIST/LSUB and the fresh view (order, UIDs, flags, bytes, UIDVALIDITY, UIDNEXT) of every mailbox equal the reference model, and when the model does not change (restatement, echo, duplicate, refused, documented no-op) the observer's next NOOP carries no EXISTS/EXPUNGE/FETCH, UIDNEXT and LIST/LSUB are unchanged. Non-trivial: the sequence contains >= 1 update acknowledged with an error followed by >= 1 valid one acknowledged with success, or >= 1 re-delivery; distinct by hash of the delivered sequence.",
		"message identity through the X-Verif-Marker header",
		"the connector never states \\Deleted or \\Recent; INTERNALDATE is not judged",
		"updates that would re-add a message id after its MessageDeleted are labelled ambiguous and not delivered",
		"not judged beyond acknowledgement + nothing-else-changes (labelled lenient): MessageMailboxesUpdated naming an unknown mailbox id (the code drops unknown ids silently), MailboxCreated for an existing id with another name, elements skipped for the protected mailbox, updates on a message after its MessageDeleted",
		"listed findings steered around: C06-message-updated-into-recovery-mailbox, C06-delete-recreated-mailbox-unique-subscription, C06-message-id-change-misses-pending-exists, C01-own-change-overtakes-queued-updates, C02-stale-update-after-select (sessions are drained before they select or change anything)")
}
