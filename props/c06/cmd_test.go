package c06

import (
	"fmt"
	"strings"

	"github.com/ProtonMail/gluon/imap"

	"verif/internal/bed"
	"verif/internal/ev"
	"verif/internal/imapc"
	"verif/internal/kf"
	"verif/internal/mach"
)

// Client commands of the acting session. Under the Faithful echo policy every command that reaches the connector leaves
// echo updates in the connector's outbox; they are delivered right after the command (1-2 times each) and must change
// nothing: oracle (5).

func (e *env) actReady(sel *mbox) {
	for attempt := 0; ; attempt++ {
		if !alive(e.act) {
			e.drop(&e.act)
			e.act = e.login("act")
			e.actBox = nil
		}

		if sel != nil && (e.actBox != sel || e.act.Selected == "") {
			if kf.Listed(mach.KfStaleAfterSelect) {
				// steer around C02-stale-update-after-select: nothing may be queued for the session when it selects
				e.barrier()
				ev.Excluded(1)
			}

			if r := e.act.Select(sel.name, false); !r.OK() {
				if e.act.Dead && attempt < 2 {
					continue
				}

				e.fail("mailbox %q of the model cannot be selected: %v", sel.name, r)
			}

			e.actBox = sel
		}

		// steer around C01-own-change-overtakes-queued-updates: the session is up to date before it changes anything
		e.barrier()

		if r := e.act.Do("NOOP"); r.OK() && !e.act.Dead {
			return
		}

		e.drop(&e.act)

		if attempt >= 2 {
			e.harness("acting session cannot be brought up")
		}
	}
}

func (e *env) must(r *imapc.Result) {
	if !r.OK() {
		e.fail("client command refused although it is valid for the state the updates describe: %v", r)
	}
}

func (e *env) remoteMessageIDs() map[imap.MessageID]bool {
	ids := map[imap.MessageID]bool{}

	e.u.Conn.Lock(func() {
		for id := range e.u.Conn.Messages {
			ids[id] = true
		}
	})

	return ids
}

func (e *env) command(c *cmd, echoTimes int) {
	m := e.m

	var box, dst *mbox

	if c.boxKey >= 0 {
		box = m.allBoxes[c.boxKey]
	}

	if c.dstKey >= 0 {
		dst = m.allBoxes[c.dstKey]
	}

	var x *mmsg

	var uid uint32

	if c.msgKey >= 0 {
		x = m.msgs[c.msgKey]

		i := box.index(x)
		if i < 0 || box.entries[i].uid == 0 {
			e.harness("command %s: message not in the mailbox or UID unknown", c)
		}

		uid = box.entries[i].uid
	}

	e.label("cmd:" + c.op)

	var what string

	switch c.op {
	case "noop":
		e.actReady(nil)
		what = "NOOP"

	case "select":
		e.actReady(box)
		what = "SELECT " + box.name

	case "append":
		e.actReady(nil)

		before := e.remoteMessageIDs()
		fl := ""

		if len(c.flags) > 0 {
			fl = "(" + strings.Join(c.flags, " ") + ") "
		}

		body := mach.Msg(c.marker, "appended")
		r := e.act.DoParts(imapc.T("APPEND "+bed.Quote(box.name)+" "+fl), imapc.L(body))
		e.must(r)

		var rid imap.MessageID

		for id := range e.remoteMessageIDs() {
			if !before[id] {
				if rid != "" {
					e.harness("APPEND created several remote messages")
				}

				rid = id
			}
		}

		if rid == "" {
			e.harness("APPEND created no remote message")
		}

		box.add(m.addMsg(rid, c.marker, body, c.flags))
		what = r.Cmd

	case "store":
		e.actReady(box)

		sign := "-"
		if c.plus {
			sign = "+"
		}

		r := e.act.Do(fmt.Sprintf("UID STORE %d %sFLAGS (%s)", uid, sign, c.flag))
		e.must(r)

		if c.plus {
			x.flags[c.flag] = true
		} else {
			delete(x.flags, c.flag)
		}

		what = r.Cmd

	case "markdel":
		e.actReady(box)

		r := e.act.Do(fmt.Sprintf(`UID STORE %d +FLAGS (\Deleted)`, uid))
		e.must(r)

		box.entries[box.index(x)].deleted = true
		what = r.Cmd

	case "delexp":
		e.actReady(box)
		e.must(e.act.Do(fmt.Sprintf(`UID STORE %d +FLAGS (\Deleted)`, uid)))

		r := e.act.Do(fmt.Sprintf("UID EXPUNGE %d", uid))
		e.must(r)

		box.remove(x)
		what = r.Cmd

	case "copy", "move":
		e.actReady(box)

		r := e.act.Do(fmt.Sprintf("UID %s %d %s", strings.ToUpper(c.op), uid, bed.Quote(dst.name)))
		e.must(r)

		if c.op == "move" {
			box.remove(x)
		}

		dst.add(x)
		what = r.Cmd

	case "create":
		e.actReady(nil)

		r := e.act.Do("CREATE " + bed.Quote(c.name))
		e.must(r)

		rb := e.u.Conn.MailboxByName(c.name, "/")
		if rb == nil {
			e.harness("CREATE %s did not reach the connector", c.name)
		}

		m.addBox(rb.ID, c.name)
		what = r.Cmd

	case "rename":
		e.actReady(nil)

		r := e.act.Do("RENAME " + bed.Quote(box.name) + " " + bed.Quote(c.name))
		e.must(r)

		// RENAME carries the inferiors (RFC 3501 6.3.5, tests/rename_test.go)
		old := box.name

		for _, b := range m.boxes {
			if strings.HasPrefix(b.name, old+"/") {
				b.name = c.name + b.name[len(old):]
			}
		}

		box.name = c.name
		what = r.Cmd

	case "delete":
		e.actReady(nil)

		r := e.act.Do("DELETE " + bed.Quote(box.name))
		e.must(r)

		// a client DELETE keeps the subscription (LSUB shows the name \Noselect): nothing to note in m.unsub
		m.delSubs[box.name] = box.rid
		m.dropBox(box)

		if e.actBox == box {
			e.actBox = nil
		}

		what = r.Cmd
	}

	e.note("client: %s", what)

	if e.act.Dead {
		e.drop(&e.act)
	}

	e.checkRemote(what)
	e.compare("client command "+what, false, nil)

	// the echoes of the command: delivered now, each echoTimes times
	for _, u := range e.u.Conn.TakeOutbox() {
		d := e.descOf(u)

		for i := 0; i < echoTimes; i++ {
			e.deliver(d, i > 0, false)
		}
	}
}
