package c06

import (
	"testing"

	"github.com/ProtonMail/gluon/imap"

	"verif/internal/kf"
)

// kfUpdatedIntoRecovery: applyMessageUpdated has no check for the protected recovery mailbox (every other kind has):
// a MessageUpdated for a known message that names GLUON-INTERNAL-RECOVERY-MBOX is acknowledged with success and moves
// the message into "Recovered Messages".
const kfUpdatedIntoRecovery = "C06-message-updated-into-recovery-mailbox"

func TestKnown_C06_message_updated_into_recovery_mailbox(t *testing.T) {
	for _, newLiteral := range []bool{false, true} {
		func() {
			e := newEnv(t, caseCfg{}, false)
			defer e.close()

			g := &gen{}
			mk := g.marker()

			d := e.newDesc(kMessagesCreated)
			d.items = []item{{rid: g.msgRID(), marker: mk, literal: machMsg(mk, "remote"), boxes: []imap.MailboxID{e.m.boxes[0].rid}}}
			e.exec(step{op: "upd", d: d, times: 1})

			x := e.m.msgs[0]
			lit := x.literal

			if newLiteral {
				lit = machMsg(g.marker(), "replaced")
			}

			u := imap.NewMessageUpdated(imap.Message{ID: x.rid, Flags: imap.NewFlagSet(), Date: msgDate}, lit, []imap.MailboxID{recoveryRID}, parsed(lit), false)
			dl := e.send(u, "MessageUpdated naming the recovery mailbox", "known")

			names, _ := e.list()
			inbox, _, _, _, err := e.b.FreshView(e.u, "INBOX", false)

			if err != nil {
				t.Fatalf("harness: %v", err)
			}

			if !has(names, recoveryName) && len(inbox) == 1 {
				return // refused or ignored: does not reproduce
			}

			if !kf.Report(kfUpdatedIntoRecovery) {
				t.Fatalf("C06 violated (not listed as known): MessageUpdated(%s, mailboxes [%s], new literal %v) was acknowledged with err=%v and moved the message into the protected mailbox: LIST shows %q, INBOX holds %d messages\n%s",
					x.rid, recoveryRID, newLiteral, dl.Err, names, len(inbox), e.b.Hist)
			}
		}()
	}
}

// kfDelSubClash: a mailbox whose remote id is still recorded in deleted_subscriptions under ANOTHER name (a client DELETE
// keeps the subscription; the remote id came back through a late / repeated MailboxCreated) can no longer be deleted:
// AddDeletedSubscription finds no row with the name and inserts one, which violates UNIQUE(remote_id).
const kfDelSubClash = "C06-delete-recreated-mailbox-unique-subscription"

// kfStaleRemoteID: applyMessageIDChanged changes the remote id only in snapshots that already hold the message; a
// session whose EXISTS for the message is still unflushed keeps the old id and names the message by it in every later
// connector call.
const kfStaleRemoteID = "C06-message-id-change-misses-pending-exists"

func TestKnown_C06_delete_recreated_mailbox_unique_subscription(t *testing.T) {
	e := newEnv(t, caseCfg{twoSessions: true}, false)
	defer e.close()

	mk := func(kind string, fill func(d *desc)) *desc {
		d := e.newDesc(kind)
		fill(d)

		return d
	}

	created := mk(kMailboxCreated, func(d *desc) { d.boxRID, d.name = "rb-1", "A" })
	e.exec(step{op: "upd", d: created, times: 1})
	e.exec(step{op: "upd", d: mk(kMailboxUpdated, func(d *desc) { d.boxRID, d.name = "rb-1", "B" }), times: 1})
	e.exec(step{op: "cmd", c: &cmd{op: "delete", boxKey: e.m.boxByName("B").key, dstKey: -1, msgKey: -1}, echoTimes: 1})
	e.exec(step{op: "dup", d: created, times: 1}) // the late duplicate re-creates rb-1 as "A"

	if e.m.boxByName("A") == nil || !e.m.delSubClash(e.m.boxByName("A")) {
		t.Fatalf("harness: scenario not built: %v", e.ops)
	}

	dl := e.send(imap.NewMailboxDeleted("rb-1"), "MailboxDeleted(rb-1)", "known")
	if dl.Err == nil {
		return // does not reproduce
	}

	names, _ := e.list()

	if !kf.Report(kfDelSubClash) {
		t.Fatalf("C06 violated (not listed as known): MailboxDeleted(rb-1) for the existing mailbox \"A\" is refused: %v; LIST still shows %q\nsequence:\n  %v\n%s", dl.Err, names, e.ops, e.b.Hist)
	}
}

func TestKnown_C06_message_id_change_misses_pending_exists(t *testing.T) {
	e := newEnv(t, caseCfg{twoSessions: true}, false)
	defer e.close()

	mk := func(kind string, fill func(d *desc)) *desc {
		d := e.newDesc(kind)
		fill(d)

		return d
	}

	inbox := e.m.boxes[0]

	e.exec(step{op: "upd", d: mk(kMailboxCreated, func(d *desc) { d.boxRID, d.name = "rb-1", "A" }), times: 1})
	e.exec(step{op: "upd", d: mk(kMessagesCreated, func(d *desc) {
		d.items = []item{{rid: "rm-1", marker: "c1", literal: machMsg("c1", "remote"), boxes: []imap.MailboxID{"rb-1"}}}
	}), times: 1})

	e.exec(step{op: "upd", d: mk(kMailboxCreated, func(d *desc) { d.boxRID, d.name = "rb-2", "B" }), times: 1})

	// the acting session is selected in INBOX and idle; the observer watches A
	e.actReady(inbox)
	e.obsBox = e.m.boxByName("A")

	// the message arrives in INBOX: its EXISTS is queued for the acting session and stays unflushed
	e.exec(step{op: "upd", d: mk(kMessageMailboxes, func(d *desc) { d.msgRID, d.boxes = "rm-1", []imap.MailboxID{"rb-1", inbox.rid} }), times: 1})

	// the remote id changes (delivered without the steering of deliver())
	d := mk(kMessageIDChanged, func(d *desc) { d.msgKey, d.newMsgRID = 0, "rm-1-new" })
	e.resolve(d)

	v := e.judge(d)
	if dl := e.send(e.build(d), d.String(), "known"); dl.Err != nil || v.apply == nil {
		t.Fatalf("MessageIDChanged refused: %v (%+v)", dl.Err, v)
	}

	v.apply()
	e.syncRemote()
	e.compare(d.String(), false, nil)

	// now the session learns of the message and copies it to B: the connector must be told about rm-1-new
	e.barrier()
	e.act.Do("NOOP")

	x := e.m.msgs[0]
	uid := inbox.entries[inbox.index(x)].uid

	if r := e.act.Do("UID COPY " + itoa(int(uid)) + ` "B"`); !r.OK() {
		t.Fatalf("COPY refused: %v", r)
	}

	told := false

	e.u.Conn.Lock(func() {
		if rm := e.u.Conn.Messages["rm-1-new"]; rm != nil {
			told = rm.Boxes["rb-2"]
		}
	})

	if told {
		return // does not reproduce
	}

	if !kf.Report(kfStaleRemoteID) {
		t.Fatalf("C06 violated (not listed as known): after MessageIDChanged(rm-1 -> rm-1-new) the session that had an unflushed EXISTS for the message calls the connector with the old id: %v\n%s", lastCalls(e.u.Conn, 4), e.b.Hist)
	}
}
