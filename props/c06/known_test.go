package c06

import (
	"testing"

	"github.com/ProtonMail/gluon/imap"

	"verif/internal/kf"
)

// kfUpdatedIntoRecovery: applyMessageUpdated has no check for the protected recovery mailbox (every other kind has):
// a MessageUpdated for a known message that names GLUON-INTERNAL-RECOVERY-MBOX is acknowledged with success and moves
// the message into "Recovered Messages".
const kfUpdatedIntoRecovery = "C06-message-updated-into-recovery-mailbox"

func TestKnown_C06_message_updated_into_recovery_mailbox(t *testing.T) {
	for _, newLiteral := range []bool{false, true} {
		func() {
			e := newEnv(t, caseCfg{}, false)
			defer e.close()

			g := &gen{}
			mk := g.marker()

			d := e.newDesc(kMessagesCreated)
			d.items = []item{{rid: g.msgRID(), marker: mk, literal: machMsg(mk, "remote"), boxes: []imap.MailboxID{e.m.boxes[0].rid}}}
			e.exec(step{op: "upd", d: d, times: 1})

			x := e.m.msgs[0]
			lit := x.literal

			if newLiteral {
				lit = machMsg(g.marker(), "replaced")
			}

			u := imap.NewMessageUpdated(imap.Message{ID: x.rid, Flags: imap.NewFlagSet(), Date: msgDate}, lit, []imap.MailboxID{recoveryRID}, parsed(lit), false)
			dl := e.send(u, "MessageUpdated naming the recovery mailbox", "known")

			names, _ := e.list()
			inbox, _, _, _, err := e.b.FreshView(e.u, "INBOX", false)

			if err != nil {
				t.Fatalf("harness: %v", err)
			}

			if !has(names, recoveryName) && len(inbox) == 1 {
				return // refused or ignored: does not reproduce
			}

			if !kf.Report(kfUpdatedIntoRecovery) {
				t.Fatalf("C06 violated (not listed as known): MessageUpdated(%s, mailboxes [%s], new literal %v) was acknowledged with err=%v and moved the message into the protected mailbox: LIST shows %q, INBOX holds %d messages\n%s",
					x.rid, recoveryRID, newLiteral, dl.Err, names, len(inbox), e.b.Hist)
			}
		}()
	}
}
